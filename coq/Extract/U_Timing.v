(* U_Timing.v — correspondence units for client.py / context.py configuration glue (ids 1201-1209). *)
From RecordUpdate Require Import RecordUpdate.
From Model Require Import Base SeqNum Wire Conn Client.
From Extract Require Import U_Conn.
Import RecordSetNotations.
Open Scope Z_scope.

Definition uop_of_V (v : V) : uop :=
  match as_int (vnth v 0) with
  | 0 => USetKeepAlive (as_int (vnth v 1))
  | 1 => USetConnTimeout (as_int (vnth v 1))
  | 2 => USetMsgTimeout (as_int (vnth v 1))
  | 3 => UConnect (as_int (vnth v 1)) (as_bytes (vnth v 2)) (as_bool (vnth v 3))
  | _ => UConn (ev_of_V (vnth v 1))
  end.

Definition usnap (u : uclient) : V :=
  VL [VI (u_ka u); VI (u_tt u); VI (u_ot u);
      match u_conn u with
      | Some c => VL [VI (c_ka_interval c); VI (c_temp_timeout c); VI (c_out_timeout c); VI (status_code (c_status c));
                      VI (c_hello_sent c); vbool (c_conn_cb c)]
      | None => VL []
      end].

Fixpoint urun_snap (e : env) (u : uclient) (ops : list V) : list V :=
  match ops with
  | [] => []
  | x :: r => let '(u1, o) := ustep e u (uop_of_V x) in
              VL [VL (map V_of_out o); usnap u1] :: urun_snap e u1 r
  end.

(* UNIT 1201 uclient_run : [env; ops] -> per op [outputs; [u_ka; u_tt; u_ot; conn settings or []]]
   ops: [0;v] setKeepAliveInterval, [1;v] setConnectionTimeout, [2;v] setMessageTimeout,
        [3;now;hello;with_cb] connect, [4;ev] a connection event (encoding of U_Conn.ev_of_V) *)
Definition u_uclient_run (v : V) : V := VL (urun_snap (env_of_V (vnth v 0)) uclient0 (as_list (vnth v 1))).

Definition sop_of_V (v : V) : sop :=
  match as_int (vnth v 0) with
  | 0 => SSetKeepAlive (as_int (vnth v 1))
  | 1 => SSetConnTimeout (as_int (vnth v 1))
  | 2 => SSetTempTimeout (as_int (vnth v 1))
  | _ => SSetMsgTimeout (as_int (vnth v 1))
  end.

(* UNIT 1202 scfg_run : [ops] -> [ka; conn_timeout; temp_timeout; ot; new-conn ka; new-conn ot] *)
Definition u_scfg_run (v : V) : V :=
  let s := fold_left sstep (map sop_of_V (as_list (vnth v 0))) scfg0 in
  VL [VI (s_ka s); VI (s_conn_timeout s); VI (s_temp_timeout s); VI (s_ot s);
      VI (c_ka_interval (new_server_conn s)); VI (c_out_timeout (new_server_conn s))].

(* UNIT 1203 sweep_drops : [timeout; status; last_recv; now] -> bool *)
Definition u_sweep_drops (v : V) : V :=
  vbool (sweep_drops (as_int (vnth v 0))
           ((conn0 true) <| c_status := status_of_Z (as_int (vnth v 1)) |> <| c_last_recv := as_int (vnth v 2) |>)
           (as_int (vnth v 3))).

Definition dispatch_timing (u : Z) (v : V) : option V :=
  match u with
  | 1201 => Some (u_uclient_run v)
  | 1202 => Some (u_scfg_run v)
  | 1203 => Some (u_sweep_drops v)
  | _ => None
  end.
