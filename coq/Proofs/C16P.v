(* C16P.v — proofs of the statements of Properties/C16.v *)
From Coq Require Import Lia ZifyBool.
From Model Require Import Base PathJoin Router.
From Proofs Require Import Tac PathJoinP RouterP.
Open Scope Z_scope.

Lemma C16_regex_text_proof : forall pat,
  pattern_to_regex pat =
  if (nwild (parse_pattern pat) <=? 1)%nat
  then Ok (pr_regex (ast_of_pieces (parse_pattern pat)), names (parse_pattern pat))
  else Err EValue.
Proof. exact pattern_to_regex_spec. Qed.

Lemma C16_groups_spec_proof : forall pat path,
  wf_pat pat = true -> no_nl path ->
  re_groups (ast_of_pieces (parse_pattern pat)) path = spec_path (parse_pattern pat) path.
Proof. exact re_groups_spec. Qed.

Lemma C16_match_spec_proof : forall pat path,
  wf_pat pat = true -> no_nl path ->
  route_match pat path = spec_route_match pat path.
Proof. exact route_match_spec. Qed.

Lemma C16_first_match_proof : forall rs m path,
  (forall r, In r rs -> wf_pat (r_pattern r) = true /\ supported_method (r_method r) = true) ->
  no_nl path ->
  exists t, register_routes empty_table rs = (t, Ok tt) /\
            get_route t m path = spec_get_route rs m path.
Proof. exact get_route_spec. Qed.

Lemma C16_first_match_wins_proof : forall rs m path id d,
  spec_get_route rs m path = Some (id, d) <->
  exists rs1 r rs2 kvs,
    rs = rs1 ++ r :: rs2 /\ r_id r = id /\ r_method r = m /\
    spec_route_match (r_pattern r) path = Some kvs /\ d = mkdict kvs /\
    forall r', In r' rs1 -> r_method r' = m -> spec_route_match (r_pattern r') path = None.
Proof. exact spec_get_route_first. Qed.

Lemma C16_notfound_404_proof : forall rs limited m path,
  (forall r, In r rs -> wf_pat (r_pattern r) = true /\ supported_method (r_method r) = true) ->
  no_nl path ->
  exists t, register_routes empty_table rs = (t, Ok tt) /\
    (router_dispatch t limited m path = D404 <->
       limited = false /\
       forall r, In r rs -> r_method r = m -> spec_route_match (r_pattern r) path = None) /\
    (router_dispatch t limited m path = D429 <-> limited = true) /\
    (forall id d, router_dispatch t limited m path = DRoute id d <->
       limited = false /\ spec_get_route rs m path = Some (id, d)).
Proof.
  intros rs limited m path Hrs Hnl.
  destruct (dispatch_spec rs limited m path Hrs Hnl) as [t [Hreg Hd]].
  exists t. split; [exact Hreg|]. rewrite Hd. clear Hd Hreg.
  assert (Hnone : spec_get_route rs m path = None <->
          forall r, In r rs -> r_method r = m -> spec_route_match (r_pattern r) path = None).
  { rewrite spec_get_route_none. split; intros H r Hin Hm.
    - apply H; [exact Hin|]. subst m. apply str_eqb_refl.
    - apply H; [exact Hin|]. apply str_eqb_eq in Hm. congruence. }
  destruct limited.
  - repeat split; try discriminate; try (intros [H _]; discriminate); auto.
  - destruct (spec_get_route rs m path) as [[id d]|] eqn:E.
    + repeat split; try discriminate; try congruence.
      * intros [_ H]. apply Hnone in H. discriminate.
      * intros [_ H]. congruence.
    + repeat split; try discriminate; try (apply Hnone; reflexivity).
      intros [_ H]. discriminate.
Qed.

Lemma C16_compile_error_proof : forall pat,
  (compile_route pat = Err EValue <-> (2 <= nwild (parse_pattern pat))%nat) /\
  ((exists r, compile_route pat = Ok r) \/ compile_route pat = Err EValue).
Proof. intro pat. split; [apply compile_route_error | apply compile_route_total]. Qed.

Lemma C16_spec_rules_proof : forall ps segs vals,
  wf_pieces ps = true -> (spec ps segs = Some vals <-> matches ps segs vals).
Proof. intros ps segs vals H. split; [apply spec_matches; exact H | apply matches_spec]. Qed.
