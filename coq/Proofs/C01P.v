(* C01P.v — proofs of the C01 statements: only datagrams authenticated under the session key
   can affect a connection; before a key exists nothing but a single hello is looked at. *)
From Coq Require Import Lia ZifyBool.
From RecordUpdate Require Import RecordUpdate.
From Model Require Import Base SeqNum Wire Conn RecvSpec.
From Proofs Require Import Tac WireP RecvP.
Import RecordSetNotations.
Open Scope Z_scope.

(* ---------- 1. a key holder drops everything that is not authentic ---------- *)

Lemma C01_drop_proof : forall c now d orcs k,
  c_key c = Some k -> ~ authentic k d ->
  recv c now d orcs = (bump c, [ORet false]).
Proof. exact recv_drop_key. Qed.

(* the forgery classes named by the property are instances of "not authentic" *)

Lemma clear_not_authentic k h p : ~ authentic k {| d_hdr := h; d_body := Clear p |}.
Proof. intros [q H]. discriminate. Qed.

Lemma bad_not_authentic k h : ~ authentic k {| d_hdr := h; d_body := Bad |}.
Proof. intros [q H]. discriminate. Qed.

Lemma other_key_not_authentic k k' h sh p : k' <> k ->
  ~ authentic k {| d_hdr := h; d_body := Sealed k' sh p |}.
Proof. intros Hk [q H]. cbn in H. congruence. Qed.

(* any rewrite of the header of a genuine datagram (re-typing as a hello, other seq / ack /
   ack bits / count / length / time / direction) *)
Lemma tamper_hdr_not_authentic k d h' :
  authentic k d -> h' <> d_hdr d -> ~ authentic k {| d_hdr := h'; d_body := d_body d |}.
Proof.
  intros [p Hb] Hne [q H]. cbn in H. rewrite Hb in H. injection H as H _. congruence.
Qed.

(* ---------- 2. before a key exists ---------- *)

Lemma decode_single t p ms : decode_msgs t 1 p = Ok ms ->
  ms = [{| w_seq := unbe (sub p 0 2); w_type := t; w_payload := skipn 2 p |}].
Proof.
  unfold decode_msgs. cbn [Z.eqb Pos.eqb]. dif; [discriminate|]. intros H. injection H as <-. reflexivity.
Qed.

Lemma recv_handshake_incoming c t o : c_incoming (fst (recv_handshake c t o)) = c_incoming c.
Proof.
  unfold recv_handshake.
  destruct t; try reflexivity; destruct (c_server c); try reflexivity.
  - dif; [reflexivity|]. dif; reflexivity.
  - dif; [reflexivity|]. dif; [reflexivity|]. reflexivity.
  - dif; [reflexivity|]. destruct (o_temp_token o); [|reflexivity]. dif; reflexivity.
Qed.

Lemma recv_handshake_other c t o : is_hello t = true -> t <> expected_hello c ->
  recv_handshake c t o = (c, []).
Proof.
  unfold expected_hello, recv_handshake. intros Hh Hne.
  destruct t; try discriminate; destruct (c_server c); try reflexivity; contradiction.
Qed.

Lemma recv_msgs_single_hs c now m orcs : is_hs (w_type m) = true ->
  fst (recv_msgs c now [m] orcs) =
    match bf_insert (c_bf_msg c) (w_seq m) with
    | Err _ => c
    | Ok bf => fst (recv_handshake (c <| c_bf_msg := bf |>) (w_type m) (hd no_oracle orcs))
    end
  /\ snd (recv_msgs c now [m] orcs) =
    match bf_insert (c_bf_msg c) (w_seq m) with
    | Err _ => []
    | Ok bf => snd (recv_handshake (c <| c_bf_msg := bf |>) (w_type m) (hd no_oracle orcs))
    end.
Proof.
  intros Hh. cbn [recv_msgs]. destruct (bf_insert (c_bf_msg c) (w_seq m)) as [bf|e]; [|split; reflexivity].
  destruct (w_type m); try discriminate;
    (destruct (recv_handshake _ _ _) as [c' o']; cbn [fst snd];
     destruct (raised o'); cbn [fst snd]; rewrite ?app_nil_r; split; reflexivity).
Qed.

Lemma is_hello_hs t : is_hello t = true -> is_hs t = true.
Proof. destruct t; cbn; intros; try reflexivity; discriminate. Qed.

Lemma keyless_refuses_false c h : c_key c = None -> keyless_refuses c h = false ->
  h_count h = 1 /\ is_hello (h_type h) = true.
Proof.
  unfold keyless_refuses. intros ->. cbn [is_some negb andb].
  destruct (h_count h =? 1) eqn:E1; destruct (is_hello (h_type h)) eqn:E2; cbn; try discriminate.
  intros _. split; [lia|reflexivity].
Qed.

Lemma recv_handshake_quiet c t o : is_hello t = true -> t <> expected_hello c ->
  forall x, ~ In x (snd (recv_handshake c t o)).
Proof. intros H1 H2 x. rewrite recv_handshake_other by assumption. intros []. Qed.

Lemma C01_prekey_proof : forall c now d orcs c' o,
  c_key c = None -> recv c now d orcs = (c', o) ->
  c_incoming c' = c_incoming c
  /\ (~ single_clear_hello d -> c' = bump c /\ o = [ORet false])
  /\ (h_type (d_hdr d) <> expected_hello c ->
        c_key c' = None /\ c_status c' = c_status c /\ c_token c' = c_token c
        /\ c_seq_msg c' = c_seq_msg c /\ no_handshake_output o).
Proof.
  intros c now d orcs c' o Hk Hr. unfold recv in Hr.
  assert (Hdrop : (bump c, [ORet false]) = (c', o) ->
    c_incoming c' = c_incoming c
    /\ (~ single_clear_hello d -> c' = bump c /\ o = [ORet false])
    /\ (h_type (d_hdr d) <> expected_hello c ->
        c_key c' = None /\ c_status c' = c_status c /\ c_token c' = c_token c
        /\ c_seq_msg c' = c_seq_msg c /\ no_handshake_output o)).
  { intros H. injection H as <- <-. split; [reflexivity|]. split; [intros _; split; reflexivity|].
    intros _. split; [exact Hk|]. split; [reflexivity|]. split; [reflexivity|]. split; [reflexivity|].
    intros x [<-|[]]. exact I. }
  destruct (keyless_refuses c (d_hdr d)) eqn:Hkr; [exact (Hdrop Hr)|].
  destruct (keyless_refuses_false c (d_hdr d) Hk Hkr) as [Hcnt Hhello].
  rewrite Hk in Hr.
  destruct (open_dgram None d) as [ms|e] eqn:Hop; [|exact (Hdrop Hr)].
  destruct (open_clear_payload d ms Hop) as [p [Hbody [Hlen Hdec]]].
  rewrite Hcnt in Hdec. apply decode_single in Hdec.
  assert (Hsingle : single_clear_hello d).
  { split; [exact Hcnt|]. split; [exact Hhello|]. exists p. split; assumption. }
  destruct (bf_insert (c_bf_pkt c) (h_seq (d_hdr d))) as [bf|e] eqn:Hbf; [|exact (Hdrop Hr)].
  clear Hdrop.
  set (c0 := c <| c_bf_pkt := bf |> <| c_received := c_received c + 1 |> <| c_last_recv := now |>) in *.
  pose proof (handle_ack_bits_side c0 (d_hdr d)) as Hside.
  pose proof (ack_loop_out (d_hdr d) (c_packs c0) c0) as Hout. fold (handle_ack_bits c0 (d_hdr d)) in Hout.
  destruct (handle_ack_bits c0 (d_hdr d)) as [c1 o1] eqn:Hab. cbn [fst snd] in Hside, Hout.
  apply side_fields in Hside.
  destruct Hside as (Hsrv & Hkey & Hst & Hinc & _ & _ & Hbm & Htok & Hsm & _).
  subst ms. set (m := {| w_seq := unbe (sub p 0 2); w_type := h_type (d_hdr d); w_payload := skipn 2 p |}) in *.
  destruct (recv_msgs_single_hs c1 now m orcs (is_hello_hs _ Hhello)) as [Hf Hs].
  destruct (recv_msgs c1 now [m] orcs) as [c2 o2]. cbn [fst snd] in Hf, Hs.
  injection Hr as <- <-.
  split.
  { (* nothing is delivered *)
    rewrite Hf. destruct (bf_insert (c_bf_msg c1) (w_seq m)); [|exact Hinc].
    rewrite recv_handshake_incoming. exact Hinc. }
  split; [intros Hn; contradiction|].
  intros Hty.
  assert (Hother : w_type m <> expected_hello c1).
  { cbn [w_type m]. unfold expected_hello in *. rewrite Hsrv. exact Hty. }
  assert (Ho2 : o2 = []).
  { rewrite Hs. destruct (bf_insert (c_bf_msg c1) (w_seq m)) as [bfm|e]; [|reflexivity].
    rewrite recv_handshake_other; [reflexivity|exact Hhello|exact Hother]. }
  assert (Hc2 : c_key c2 = c_key c1 /\ c_status c2 = c_status c1 /\ c_token c2 = c_token c1
                /\ c_seq_msg c2 = c_seq_msg c1).
  { rewrite Hf. destruct (bf_insert (c_bf_msg c1) (w_seq m)) as [bfm|e]; [|repeat split].
    rewrite recv_handshake_other; [repeat split|exact Hhello|exact Hother]. }
  destruct Hc2 as (E1 & E2 & E3 & E4). clear Hf Hs.
  rewrite E1, E2, E3, E4, Hkey, Hst, Htok, Hsm. subst o2.
  split; [exact Hk|]. split; [reflexivity|]. split; [reflexivity|]. split; [reflexivity|].
  intros x Hx. apply in_app_or in Hx as [Hx|Hx].
  - pose proof (Hout x Hx) as Hx'. destruct x; try contradiction; exact I.
  - unfold raised in Hx. cbn in Hx. destruct Hx as [<-|[]]. exact I.
Qed.

(* ---------- 3. at any point of any history ---------- *)

Lemma run_app e xs : forall c ys,
  run e c (xs ++ ys) =
    let '(c1, o1) := run e c xs in let '(c2, o2) := run e c1 ys in (c2, o1 ++ o2).
Proof.
  induction xs as [|x r IH]; intros c ys.
  - cbn [app run]. destruct (run e c ys); reflexivity.
  - cbn [app run]. destruct (step e c x) as [c1 o]. rewrite IH.
    destruct (run e c1 r) as [c2 os]. destruct (run e c2 ys) as [c3 os']. reflexivity.
Qed.

Lemma C01_history_proof : forall e c0 xs now d orcs,
  let c := fst (run e c0 xs) in
  (forall k, c_key c = Some k -> ~ authentic k d ->
     run e c0 (xs ++ [ERecv now d orcs]) = (bump c, snd (run e c0 xs) ++ [[ORet false]]))
  /\ (c_key c = None ->
     c_incoming (fst (run e c0 (xs ++ [ERecv now d orcs]))) = c_incoming c).
Proof.
  intros e c0 xs now d orcs c. subst c. rewrite run_app.
  destruct (run e c0 xs) as [c os]. cbn [fst snd run step]. split.
  - intros k Hk Hn. rewrite (recv_drop_key c now d orcs k Hk Hn). reflexivity.
  - intros Hk. destruct (recv c now d orcs) as [c' o] eqn:Hr. cbn [fst].
    exact (proj1 (C01_prekey_proof c now d orcs c' o Hk Hr)).
Qed.

(* ---------- 4. the symbolic notion at the byte level ---------- *)

Lemma encode_header_inj h1 h2 bs : encode_header h1 = Ok bs -> encode_header h2 = Ok bs -> h1 = h2.
Proof.
  intros E1 E2.
  assert (O1 : header_ok h1 = true) by (unfold encode_header in E1; destruct (header_ok h1); [reflexivity|discriminate]).
  assert (O2 : header_ok h2 = true) by (unfold encode_header in E2; destruct (header_ok h2); [reflexivity|discriminate]).
  assert (Hdir : h_to_server h1 = h_to_server h2).
  { unfold encode_header in E1, E2. rewrite O1 in E1. rewrite O2 in E2.
    injection E1 as E1. injection E2 as E2. rewrite <- E2 in E1.
    destruct (h_to_server h1), (h_to_server h2); try reflexivity; cbn in E1; discriminate. }
  destruct (hdr_roundtrip h1 O1) as [b1 [F1 [_ R1]]].
  destruct (hdr_roundtrip h2 O2) as [b2 [F2 [_ R2]]].
  rewrite E1 in F1. rewrite E2 in F2. injection F1 as <-. injection F2 as <-.
  specialize (R1 []). specialize (R2 []). rewrite Hdir in R1. rewrite R1 in R2. injection R2 as R2. exact R2.
Qed.

Section BytesAuth.
  Variable crc : list byte -> Z.
  Variable seal : Z -> list byte -> list byte -> list byte -> list byte.          (* key iv aad plain *)
  Variable open : Z -> list byte -> list byte -> list byte -> option (list byte). (* key iv aad ct||tag *)
  (* AEAD integrity: whatever opens under (k, iv, aad) was sealed under exactly (k, iv, aad) *)
  Hypothesis open_integrity : forall k iv aad c p, open k iv aad c = Some p -> c = seal k iv aad p.
  (* ciphertexts made for different keys / nonces / headers / payloads differ *)
  Hypothesis seal_injective : forall k iv aad p k' iv' aad' p',
    seal k iv aad p = seal k' iv' aad' p' -> k = k' /\ iv = iv' /\ aad = aad' /\ p = p'.

  Lemma from_bytes_key_sealed k h d ms :
    from_bytes crc open (Some k) h d = Ok ms ->
    20 + h_len h <= len d
    /\ exists p, sub d 20 (Z.to_nat (h_len h) + 16) = seal k (firstn 12 d) (firstn 20 d) p
                 /\ decode_msgs (h_type h) (h_count h) p = Ok ms.
  Proof.
    unfold from_bytes. destruct (20 + h_len h >? len d) eqn:El; [discriminate|].
    destruct (open k (firstn 12 d) (firstn 20 d) (sub d 20 (Z.to_nat (h_len h) + 16))) as [p|] eqn:Eo;
      cbn [bind]; [|discriminate].
    intros H. split; [lia|]. exists p. split; [apply open_integrity; exact Eo|exact H].
  Qed.

  Lemma from_bytes_binds_proof k h d ms k0 iv0 aad0 p0 :
    from_bytes crc open (Some k) h d = Ok ms ->
    sub d 20 (Z.to_nat (h_len h) + 16) = seal k0 iv0 aad0 p0 ->
    k0 = k /\ iv0 = firstn 12 d /\ aad0 = firstn 20 d
    /\ decode_msgs (h_type h) (h_count h) p0 = Ok ms.
  Proof.
    intros H Hs. destruct (from_bytes_key_sealed k h d ms H) as [_ [p [Hp Hd]]].
    rewrite Hs in Hp. apply seal_injective in Hp as (-> & -> & -> & ->). repeat split. exact Hd.
  Qed.

  (* a ciphertext made under another key is refused *)
  Lemma wrong_key_rejected_proof k h d k0 iv0 aad0 p0 :
    sub d 20 (Z.to_nat (h_len h) + 16) = seal k0 iv0 aad0 p0 -> k0 <> k ->
    exists e, from_bytes crc open (Some k) h d = Err e.
  Proof.
    intros Hs Hk. destruct (from_bytes crc open (Some k) h d) as [ms|e] eqn:E; [|eauto].
    exfalso. apply Hk. exact (proj1 (from_bytes_binds_proof k h d ms k0 iv0 aad0 p0 E Hs)).
  Qed.

  (* a genuine ciphertext behind any other 20 header bytes is refused: every rewrite of a
     header field (type, seq, ack, ack bits, count, length, time, direction) changes the bytes *)
  Lemma rewritten_header_rejected_proof k h0 h' hb0 hb' iv0 p0 rest hparsed :
    encode_header h0 = Ok hb0 -> encode_header h' = Ok hb' -> h' <> h0 ->
    let d := hb' ++ rest in
    sub d 20 (Z.to_nat (h_len hparsed) + 16) = seal k iv0 hb0 p0 ->
    exists e, from_bytes crc open (Some k) hparsed d = Err e.
  Proof.
    intros E0 E' Hne d Hs.
    destruct (from_bytes crc open (Some k) hparsed d) as [ms|e] eqn:E; [|eauto].
    exfalso. destruct (from_bytes_binds_proof k hparsed d ms k iv0 hb0 p0 E Hs) as (_ & _ & Haad & _).
    subst d. pose proof (encode_header_length h' hb' E') as Hl.
    replace 20%nat with (length hb') in Haad by exact Hl. rewrite firstn_app_exact in Haad.
    subst hb0. apply Hne. eapply encode_header_inj; eassumption.
  Qed.
End BytesAuth.

(* ---------- a toy AEAD showing that the two hypotheses are consistent ---------- *)

Definition dl (l : list byte) : list byte := concat (map (fun b => [x01; b]) l) ++ [x00].
Definition encZ (z : Z) : list byte := (if z <? 0 then x01 else x00) :: repeat x02 (Z.to_nat (Z.abs z)).
Definition toy_pre (k : Z) (iv aad : list byte) : list byte := dl (encZ k) ++ dl iv ++ dl aad.
Definition toy_seal (k : Z) (iv aad p : list byte) : list byte := toy_pre k iv aad ++ p.
Definition toy_open (k : Z) (iv aad c : list byte) : option (list byte) :=
  let pre := toy_pre k iv aad in
  if list_eq_dec byte_eq_dec (firstn (length pre) c) pre then Some (skipn (length pre) c) else None.

Lemma dl_inj a : forall b x y, dl a ++ x = dl b ++ y -> a = b /\ x = y.
Proof.
  unfold dl. induction a as [|u a IH]; intros [|v b] x y H; cbn in H.
  - injection H as H. split; [reflexivity|exact H].
  - discriminate.
  - discriminate.
  - injection H as Hu H. rewrite <- !app_assoc in H. cbn in IH.
    specialize (IH b x y). rewrite <- !app_assoc in IH. destruct (IH H) as [-> ->]. subst. split; reflexivity.
Qed.

Lemma encZ_inj a b : encZ a = encZ b -> a = b.
Proof.
  unfold encZ. intros H. injection H as Hs Hr.
  apply (f_equal (@length byte)) in Hr. rewrite !repeat_length in Hr.
  destruct (a <? 0) eqn:Ea; destruct (b <? 0) eqn:Eb; try discriminate; lia.
Qed.

Lemma toy_open_seal k iv aad p : toy_open k iv aad (toy_seal k iv aad p) = Some p.
Proof.
  unfold toy_open, toy_seal. rewrite firstn_app_exact, skipn_app_exact.
  destruct (list_eq_dec _ _ _); [reflexivity|contradiction].
Qed.

Lemma toy_integrity k iv aad c p : toy_open k iv aad c = Some p -> c = toy_seal k iv aad p.
Proof.
  unfold toy_open, toy_seal. destruct (list_eq_dec _ _ _) as [E|]; [|discriminate].
  intros H. injection H as <-. rewrite <- E at 1. symmetry. apply firstn_skipn.
Qed.

Lemma toy_injective k iv aad p k' iv' aad' p' :
  toy_seal k iv aad p = toy_seal k' iv' aad' p' -> k = k' /\ iv = iv' /\ aad = aad' /\ p = p'.
Proof.
  unfold toy_seal, toy_pre. rewrite <- !app_assoc. intros H.
  apply dl_inj in H as [Hk H]. apply dl_inj in H as [-> H]. apply dl_inj in H as [-> ->].
  apply encZ_inj in Hk. subst. repeat split.
Qed.

(* ---------- 5. the same through UdpClient.update ---------- *)

Lemma client_update_key c now : c_key (fst (client_update c now)) = c_key c.
Proof. unfold client_update. repeat dif; reflexivity. Qed.

(* update() without a datagram: connection upkeep, then the send part *)
Lemma client_tick_none e c now :
  client_tick e c now RxNone =
    let '(c1, o0) := client_update c now in
    if status_eqb (c_status c1) DROPPED then (c1, o0)
    else let '(c2, o) := client_send_part e c1 now in (c2, o0 ++ o).
Proof.
  unfold client_tick, client_send_part. destruct (client_update c now) as [c1 o0].
  dif; [reflexivity|]. cbn [raised existsb].
  dif; [|rewrite app_nil_r; reflexivity].
  destruct (build_packet e c1 now) as [c2 pk]. destruct (check_timeout false c2 now) as [c3 o3]. reflexivity.
Qed.

(* update() that reads a forged datagram from the socket: exactly update() without a datagram,
   run on the state with stats.dropped + 1 *)
Lemma C01_update_path_proof : forall e c now d orcs k,
  c_key c = Some k -> ~ authentic k d ->
  client_tick e c now (RxDgram d orcs) =
    let '(c1, o0) := client_update c now in
    if status_eqb (c_status c1) DROPPED then (c1, o0)
    else let '(c2, o) := client_send_part e (bump c1) now in (c2, o0 ++ o).
Proof.
  intros e c now d orcs k Hk Hn. unfold client_tick, client_send_part.
  pose proof (client_update_key c now) as Hk1. destruct (client_update c now) as [c1 o0]. cbn [fst] in Hk1.
  dif; [reflexivity|].
  rewrite (recv_drop_key c1 now d orcs k) by (try congruence; exact Hn).
  cbn [filter raised existsb].
  change (c_last_send (bump c1)) with (c_last_send c1). change (c_send_interval (bump c1)) with (c_send_interval c1).
  dif; [|rewrite app_nil_r; reflexivity].
  destruct (build_packet e (bump c1) now) as [c2 pk]. destruct (check_timeout false c2 now) as [c3 o3]. reflexivity.
Qed.
