(* C14P.v — proofs of the statements of Properties/C14.v (decoder of Model/Ser.v on hostile bytes). *)
From Coq Require Import Lia ZifyBool.
From Model Require Import Base Utf8 Ser SerCost SerHs.
From Proofs Require Import Tac SerDecP SerSizeP.
Open Scope Z_scope.

Section C14.
  Variable fc : fconv.
  Variable pk : value -> option serr.
  Variable reg : registry.

  (* everything the predicate W says about one top-level decode *)
  Lemma dec_value_facts fuel bs :
    match dec_value fc pk reg fuel (st0 bs) with
    | (r, s) =>
        (exists pre, bs = pre ++ rem s) /\ 0 <= nval s /\ 0 <= nrd s /\
        nrd s <= 2 * nval s /\
        match r with
        | SOk v => (reg_closed reg -> closed reg v) /\ 2 * nval s <= len bs - len (rem s)
        | SErr e =>
            ((exists x, pk x = Some e) \/
             (documented e /\ (len bs + 3 <= Z.of_nat fuel -> e <> SE ERecursion))) /\
            2 * nval s <= len bs - len (rem s) + 2
        end
    end.
  Proof.
    pose proof (dec_value_W fc pk reg fuel (len bs) (st0 bs)) as H.
    specialize (H ltac:(simpl; lia)).
    destruct (dec_value fc pk reg fuel (st0 bs)) as [r s].
    cbn [rem nrd nval st0] in H. destruct H as (Hp & Hv & Hr & Hc & Hres).
    repeat split; try lia; try exact Hp.
    destruct r as [v|e].
    - destruct Hres as [[Hcl _] Hb]. split; [exact Hcl|lia].
    - destruct Hres as [He Hb]. split; [exact He|lia].
  Qed.

  (* ---- decode_total *)
  Lemma decode_total_proof fuel bs :
    match decode fc pk reg fuel bs with
    | SOk (v, rest) => exists consumed, bs = consumed ++ rest
    | SErr e => documented e \/ exists x, pk x = Some e
    end.
  Proof.
    unfold decode. pose proof (dec_value_facts fuel bs) as H.
    destruct (dec_value fc pk reg fuel (st0 bs)) as [[v|e] s].
    - apply H.
    - destruct H as (_ & _ & _ & _ & [He|[He _]] & _); auto.
  Qed.

  (* ---- RecursionError needs more nesting than the frames allow, and nesting costs bytes *)
  Lemma decode_recursion_proof fuel bs :
    len bs + 3 <= Z.of_nat fuel ->
    decode fc pk reg fuel bs = SErr (SE ERecursion) -> exists x, pk x = Some (SE ERecursion).
  Proof.
    intros Hf. unfold decode. pose proof (dec_value_facts fuel bs) as H.
    destruct (dec_value fc pk reg fuel (st0 bs)) as [[v|e] s]; [discriminate|].
    intros He. inversion He; subst e.
    destruct H as (_ & _ & _ & _ & [Hx|[_ Hn]] & _); [exact Hx|]. exfalso. apply Hn; auto.
  Qed.

  Lemma decode_recursion_limit_proof limit depth bs :
    len bs + 3 <= limit - depth ->
    decode fc pk reg (frames_available limit depth) bs = SErr (SE ERecursion) ->
    exists x, pk x = Some (SE ERecursion).
  Proof.
    intros H. apply decode_recursion_proof. unfold frames_available. pose proof (len_nonneg bs). lia.
  Qed.

  (* ---- decode_bounded *)
  Lemma decode_bounded_proof fuel bs :
    match dec_value fc pk reg fuel (st0 bs) with
    | (r, s) =>
        (* value decodes (every deserialize_value call, hence every loop iteration) *)
        0 <= nval s /\ 2 * nval s <= len bs + 2 /\
        (* stream reads *)
        0 <= nrd s /\ nrd s <= 2 * nval s /\
        (* the stream only moves forward: what is left is a suffix, so the bytes handed out by all
           reads together are the consumed prefix, at most |bs| *)
        (exists consumed, bs = consumed ++ rem s) /\
        (* a successful decode paid two bytes for every value decode *)
        match r with SOk _ => 2 * nval s <= len bs - len (rem s) | SErr _ => True end
    end.
  Proof.
    pose proof (dec_value_facts fuel bs) as H.
    destruct (dec_value fc pk reg fuel (st0 bs)) as [r s].
    destruct H as ((pre & Hp) & Hv & Hr & Hc & Hres).
    assert (Hl : len bs = len pre + len (rem s)) by (rewrite Hp at 1; apply len_app).
    pose proof (len_nonneg pre).
    pose proof (len_nonneg (rem s)).
    repeat split; try lia; try (exists pre; exact Hp); destruct r; destruct Hres; try lia; exact I.
  Qed.

  (* ---- decode_closed *)
  Lemma decode_closed_proof fuel bs v rest :
    reg_closed reg -> decode fc pk reg fuel bs = SOk (v, rest) -> closed reg v.
  Proof.
    intros Hreg. unfold decode. pose proof (dec_value_facts fuel bs) as H.
    destruct (dec_value fc pk reg fuel (st0 bs)) as [[v'|e] s]; [|discriminate].
    intros He. inversion He; subst. apply H, Hreg.
  Qed.
End C14.

(* ---------- local behaviour of the length-prefixed types *)
Section Local.
  Variable fc : fconv.

  (* a declared length above the cap is refused right after the length was decoded: the state is
     the one the length decode left (no further read, no loop iteration, no value decode) *)
  Lemma cap_refused_proof (sub : M value) f2 k cap s v s1 n :
    cap_of k = Some cap -> sub s = (SOk v, s1) -> as_len v = Some n -> cap < n ->
    dec_base fc sub f2 k s = (SErr (SE EValue), s1).
  Proof.
    intros Hk Hsub Hl Hn.
    assert (Hc : (cap <? n) = true) by lia.
    destruct k; simpl in Hk; inversion Hk; subst cap;
      unfold dec_base, dec_len, mbind; rewrite Hsub, Hl, Hc; reflexivity.
  Qed.

  (* a length that is not an int (None, str, float, list, object ...) is a TypeError, same state *)
  Lemma length_not_int_proof (sub : M value) f2 k cap s v s1 :
    cap_of k = Some cap -> sub s = (SOk v, s1) -> as_len v = None ->
    dec_base fc sub f2 k s = (SErr (SE EType), s1).
  Proof.
    intros Hk Hsub Hl.
    destruct k; simpl in Hk; inversion Hk;
      unfold dec_base, dec_len, mbind; rewrite Hsub, Hl; reflexivity.
  Qed.

  (* the element loop stops at the first element that fails: nothing is decoded after it *)
  Lemma rep_first_failure_proof {A} (m : M A) : forall i n s l si e s',
    rep i m s = (SOk l, si) -> m si = (SErr e, s') -> (i < n)%nat ->
    rep n m s = (SErr e, s').
  Proof.
    induction i as [|i IH]; intros n s l si e s' Hi Hm Hlt.
    - simpl in Hi. unfold ret in Hi. inversion Hi; subst.
      destruct n; [lia|]. simpl. unfold mbind. rewrite Hm. reflexivity.
    - destruct n; [lia|]. simpl in *. unfold mbind in *.
      destruct (m s) as [[x|e0] s0]; [|discriminate].
      destruct (rep i m s0) as [[xs|e0] s2] eqn:Hr; [|discriminate].
      unfold ret in Hi. inversion Hi; subst.
      rewrite (IH n s0 xs si e s' Hr Hm ltac:(lia)). reflexivity.
  Qed.

  (* str/bytes: a declared length within the cap is handed to stream.read as it is; the stream
     returns what is left when the length is negative or larger than that — no error *)
  Lemma bytes_returns_what_is_left_proof (sub : M value) f2 s v s1 n :
    sub s = (SOk v, s1) -> as_len v = Some n -> n <= MAXB ->
    (n < 0 \/ len (rem s1) <= n) ->
    dec_base fc sub f2 KBytes s = (SOk (VBytes (rem s1)), mkst [] (nrd s1 + 1) (nval s1)).
  Proof.
    intros Hsub Hl Hn Hall.
    assert (Hc : (MAXB <? n) = false) by lia.
    unfold dec_base, dec_len, mbind. rewrite Hsub, Hl, Hc. unfold ret. rewrite m_read_eq.
    set (k := if n <? 0 then length (rem s1) else Z.to_nat n).
    assert (Hk : (length (rem s1) <= k)%nat).
    { subst k. destruct (n <? 0) eqn:Hn0; [lia|]. unfold len in Hall. lia. }
    rewrite (firstn_all2 _ Hk), (skipn_all2 _ Hk). reflexivity.
  Qed.
End Local.

(* ---------- the two handshake receivers *)
Section Hs.
  Variable fc : fconv.
  Variable pk : value -> option serr.
  Variable reg : registry.
  Variable tok : Z -> option nat.

  Lemma eq_int_err x n e : eq_int x n = SErr e -> e = SE EAttr.
  Proof.
    unfold eq_int. destruct x; simpl; try discriminate; try (destruct (as_num _); discriminate).
    intros H. inversion H. reflexivity.
  Qed.

  Lemma hello_total_proof fuel version data :
    match recv_client_hello fc pk reg fuel version data with
    | HsAccept v =>
        exists t der ver base rest,
          v = VObj t [der; ver] /\ reg_find reg t = Some (CClientHello base) /\
          eq_int ver version = SOk true /\ decode fc pk reg fuel data = SOk (v, rest) /\
          (reg_closed reg -> closed reg v)
    | HsIgnore => True
    | HsRaise e => documented e \/ exists x, pk x = Some e
    end.
  Proof.
    unfold recv_client_hello.
    pose proof (decode_total_proof fc pk reg fuel data) as Ht.
    pose proof (decode_closed_proof fc pk reg fuel data) as Hc.
    destruct (decode fc pk reg fuel data) as [[v rest]|e]; [|exact Ht].
    destruct (client_version reg v) as [ver|] eqn:Hv; [|left; unfold documented; auto 12].
    destruct (eq_int ver version) as [[|]|e] eqn:He.
    - unfold client_version in Hv.
      destruct v; try discriminate. destruct fields as [|der [|ver' [|? ?]]]; try discriminate.
      destruct (reg_find reg tid) as [[defs|ms|base|]|] eqn:Hf; try discriminate. inversion Hv; subst ver'.
      exists tid, der, ver, base, rest.
      split; [reflexivity|]. split; [exact Hf|]. split; [exact He|]. split; [reflexivity|].
      intros Hr. exact (Hc _ _ Hr eq_refl).
    - exact I.
    - left. rewrite (eq_int_err _ _ _ He). unfold documented. auto 12.
  Qed.

  Lemma challenge_total_proof fuel expected data :
    match recv_challenge fc pk reg tok fuel expected data with
    | HsAccept v =>
        exists tv rest, token_of tok v = Some tv /\ eq_int tv expected = SOk true /\
                        decode fc pk reg fuel data = SOk (v, rest) /\ (reg_closed reg -> closed reg v)
    | HsIgnore => False
    | HsRaise e => documented e \/ e = SName \/ exists x, pk x = Some e
    end.
  Proof.
    unfold recv_challenge.
    pose proof (decode_total_proof fc pk reg fuel data) as Ht.
    pose proof (decode_closed_proof fc pk reg fuel data) as Hc.
    destruct (decode fc pk reg fuel data) as [[v rest]|e]; [|destruct Ht; auto].
    destruct (token_of tok v) as [tv|] eqn:Hv; [|left; unfold documented; auto 12].
    destruct (eq_int tv expected) as [[|]|e] eqn:He.
    - exists tv, rest. split; [exact Hv|]. split; [exact He|]. split; [reflexivity|].
      intros Hr. exact (Hc _ _ Hr eq_refl).
    - auto.
    - left. rewrite (eq_int_err _ _ _ He). unfold documented. auto 12.
  Qed.
End Hs.

(* ---------- allocation: the decoded value is at most (3 + D)/2 times the input in size *)
Lemma decode_alloc_proof fc pk reg D fuel bs v rest :
  reg_defsize_le reg D -> 0 <= D ->
  decode fc pk reg fuel bs = SOk (v, rest) ->
  2 * vsize v <= (3 + D) * (len bs - len rest) /\ len bs - len rest <= len bs.
Proof.
  intros HD HD0. unfold decode.
  pose proof (decode_size_proof fc pk reg D HD HD0 fuel bs) as Hs.
  pose proof (decode_bounded_proof fc pk reg fuel bs) as Hb.
  destruct (dec_value fc pk reg fuel (st0 bs)) as [[v'|e] s]; [|discriminate].
  intros H. inversion H; subst. destruct Hb as (Hv & _ & _ & _ & _ & Hc).
  pose proof (len_nonneg (rem s)).
  assert (Hm : (1 + D) * (2 * nval s) <= (1 + D) * (len bs - len (rem s))).
  { apply Z.mul_le_mono_nonneg_l; lia. }
  split; [|lia]. lia.
Qed.
