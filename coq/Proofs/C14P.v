(* C14P.v — proofs of the statements of Properties/C14.v (decoder of Model/Ser.v on hostile bytes). *)
From Coq Require Import Lia ZifyBool.
From Model Require Import Base Utf8 Ser SerCost.
From Proofs Require Import Tac SerDecP.
Open Scope Z_scope.

Section C14.
  Variable fc : fconv.
  Variable pk : value -> option serr.
  Variable reg : registry.

  (* everything the predicate W says about one top-level decode *)
  Lemma dec_value_facts fuel bs :
    match dec_value fc pk reg fuel (st0 bs) with
    | (r, s) =>
        (exists pre, bs = pre ++ rem s) /\ 0 <= nval s /\ 0 <= nrd s /\
        nrd s <= 2 * nval s /\
        match r with
        | SOk v => (reg_closed reg -> closed reg v) /\ 2 * nval s <= len bs - len (rem s)
        | SErr e =>
            ((exists x, pk x = Some e) \/
             (documented e /\ (len bs + 3 <= Z.of_nat fuel -> e <> SE ERecursion))) /\
            2 * nval s <= len bs - len (rem s) + 2
        end
    end.
  Proof.
    pose proof (dec_value_W fc pk reg fuel (len bs) (st0 bs)) as H.
    specialize (H ltac:(simpl; lia)).
    destruct (dec_value fc pk reg fuel (st0 bs)) as [r s].
    cbn [rem nrd nval st0] in H. destruct H as (Hp & Hv & Hr & Hc & Hres).
    repeat split; try lia; try exact Hp.
    destruct r as [v|e].
    - destruct Hres as [[Hcl _] Hb]. split; [exact Hcl|lia].
    - destruct Hres as [He Hb]. split; [exact He|lia].
  Qed.

  (* ---- decode_total *)
  Lemma decode_total_proof fuel bs :
    match decode fc pk reg fuel bs with
    | SOk (v, rest) => exists consumed, bs = consumed ++ rest
    | SErr e => documented e \/ exists x, pk x = Some e
    end.
  Proof.
    unfold decode. pose proof (dec_value_facts fuel bs) as H.
    destruct (dec_value fc pk reg fuel (st0 bs)) as [[v|e] s].
    - apply H.
    - destruct H as (_ & _ & _ & _ & [He|[He _]] & _); auto.
  Qed.

  (* ---- RecursionError needs more nesting than the frames allow, and nesting costs bytes *)
  Lemma decode_recursion_proof fuel bs :
    len bs + 3 <= Z.of_nat fuel ->
    decode fc pk reg fuel bs = SErr (SE ERecursion) -> exists x, pk x = Some (SE ERecursion).
  Proof.
    intros Hf. unfold decode. pose proof (dec_value_facts fuel bs) as H.
    destruct (dec_value fc pk reg fuel (st0 bs)) as [[v|e] s]; [discriminate|].
    intros He. inversion He; subst e.
    destruct H as (_ & _ & _ & _ & [Hx|[_ Hn]] & _); [exact Hx|]. exfalso. apply Hn; auto.
  Qed.

  Lemma decode_recursion_limit_proof limit depth bs :
    len bs + 3 <= limit - depth ->
    decode fc pk reg (frames_available limit depth) bs = SErr (SE ERecursion) ->
    exists x, pk x = Some (SE ERecursion).
  Proof.
    intros H. apply decode_recursion_proof. unfold frames_available. pose proof (len_nonneg bs). lia.
  Qed.

  (* ---- decode_bounded *)
  Lemma decode_bounded_proof fuel bs :
    match dec_value fc pk reg fuel (st0 bs) with
    | (r, s) =>
        (* value decodes (every deserialize_value call, hence every loop iteration) *)
        0 <= nval s /\ 2 * nval s <= len bs + 2 /\
        (* stream reads *)
        0 <= nrd s /\ nrd s <= 2 * nval s /\
        (* the stream only moves forward: what is left is a suffix, so the bytes handed out by all
           reads together are the consumed prefix, at most |bs| *)
        (exists consumed, bs = consumed ++ rem s) /\
        (* a successful decode paid two bytes for every value decode *)
        match r with SOk _ => 2 * nval s <= len bs - len (rem s) | SErr _ => True end
    end.
  Proof.
    pose proof (dec_value_facts fuel bs) as H.
    destruct (dec_value fc pk reg fuel (st0 bs)) as [r s].
    destruct H as ((pre & Hp) & Hv & Hr & Hc & Hres).
    assert (Hl : len bs = len pre + len (rem s)) by (rewrite Hp at 1; apply len_app).
    pose proof (len_nonneg pre).
    pose proof (len_nonneg (rem s)).
    repeat split; try lia; try (exists pre; exact Hp); destruct r; destruct Hres; try lia; exact I.
  Qed.

  (* ---- decode_closed *)
  Lemma decode_closed_proof fuel bs v rest :
    reg_closed reg -> decode fc pk reg fuel bs = SOk (v, rest) -> closed reg v.
  Proof.
    intros Hreg. unfold decode. pose proof (dec_value_facts fuel bs) as H.
    destruct (dec_value fc pk reg fuel (st0 bs)) as [[v'|e] s]; [|discriminate].
    intros He. inversion He; subst. apply H, Hreg.
  Qed.
End C14.
