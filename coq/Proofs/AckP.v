(* AckP.v — C07 (and C05): bookkeeping of sent datagrams.  Every datagram a connection builds is
   registered once in pending_acks and leaves it exactly once, as acked or as timed out. *)
From Coq Require Import Lia ZifyBool.
From RecordUpdate Require Import RecordUpdate.
From Model Require Import Base SeqNum Wire Conn.
From Proofs Require Import Tac SeqNumP ConnFrameP NonceP PackP.
Import RecordSetNotations.
Open Scope Z_scope.

(* ---------- association lists ---------- *)
Lemma ddel_keys {A} k (d : list (Z * A)) : map fst (ddel k d) = filter (fun x => negb (x =? k)) (map fst d).
Proof. unfold ddel. induction d as [|[k' v] r IH]; cbn; [reflexivity|]. destruct (k' =? k); cbn; rewrite IH; reflexivity. Qed.

Lemma ddel_not_in {A} k (d : list (Z * A)) : ~ In k (map fst d) -> ddel k d = d.
Proof.
  unfold ddel. induction d as [|[k' v] r IH]; cbn; intros H; [reflexivity|].
  destruct (k' =? k) eqn:E; [exfalso; apply H; left; lia|]. cbn. f_equal. apply IH. intros Hin. apply H. right. exact Hin.
Qed.

Lemma ddel_len {A} k (d : list (Z * A)) : NoDup (map fst d) -> In k (map fst d) -> len (ddel k d) = len d - 1.
Proof.
  unfold len. induction d as [|[k' v] r IH]; cbn [map fst In]; intros ND Hin; [destruct Hin|].
  inversion ND as [|? ? Hni ND']; subst. unfold ddel. cbn [filter fst].
  destruct (k' =? k) eqn:E.
  - apply Z.eqb_eq in E. subst k'. cbn [negb]. fold (ddel k r). rewrite (ddel_not_in k r Hni). cbn [length]. lia.
  - cbn [negb length]. fold (ddel k r). destruct Hin as [->|Hin]; [lia|]. specialize (IH ND' Hin). cbn [length]. lia.
Qed.

Lemma ddel_NoDup {A} k (d : list (Z * A)) : NoDup (map fst d) -> NoDup (map fst (ddel k d)).
Proof. intros H. rewrite ddel_keys. apply NoDup_filter. exact H. Qed.

Lemma ddel_In {A} k (d : list (Z * A)) x : In x (ddel k d) -> In x d /\ fst x <> k.
Proof. unfold ddel. intros H. apply filter_In in H as [H1 H2]. split; [exact H1|]. lia. Qed.

Lemma In_ddel {A} k (d : list (Z * A)) x : In x d -> fst x <> k -> In x (ddel k d).
Proof. unfold ddel. intros H1 H2. apply filter_In. split; [exact H1|]. lia. Qed.

Lemma dset_new_len {A} k (v : A) d : ~ In k (map fst d) -> len (dset k v d) = len d + 1 /\ map fst (dset k v d) = map fst d ++ [k].
Proof.
  unfold len. induction d as [|[k' v'] r IH]; cbn [dset map fst In length]; intros H; [split; reflexivity|].
  destruct (k =? k') eqn:E; [exfalso; apply H; left; lia|].
  destruct IH as [I1 I2]; [intros Hin; apply H; right; exact Hin|]. cbn [length map fst]. split; [lia|]. rewrite I2. reflexivity.
Qed.

Lemma dset_In {A} k (v : A) d x : In x (dset k v d) -> x = (k, v) \/ In x d.
Proof.
  induction d as [|[k' v'] r IH]; cbn [dset]; [intros [<-|[]]; left; reflexivity|].
  destruct (k =? k'); intros [<-|H]; auto. { right. right. exact H. } { right. left. reflexivity. }
  destruct (IH H); auto. right. right. assumption.
Qed.

(* ---------- the callback machinery leaves the ack bookkeeping alone ---------- *)
Record same_ack (c c' : conn) : Prop := {
  sa_packs : c_packs c' = c_packs c; sa_acked : c_acked c' = c_acked c;
  sa_timeouts : c_timeouts c' = c_timeouts c; sa_assembled : c_assembled c' = c_assembled c;
  sa_pretry : c_pretry c' = c_pretry c }.
Lemma same_ack_refl c : same_ack c c. Proof. constructor; reflexivity. Qed.
Lemma same_ack_trans a b c : same_ack a b -> same_ack b c -> same_ack a c.
Proof. intros [] []. constructor; congruence. Qed.
Ltac ack_triv := constructor; cbn; reflexivity.

Lemma fire_icb_ack c k ok c' o : fire_icb c k ok = (c', o) -> same_ack c c'.
Proof.
  unfold fire_icb. intros E. destruct k; try (injection E as <- <-; apply same_ack_refl).
  destruct (dget fid (c_pfrags c)); [|injection E as <- <-; apply same_ack_refl].
  destruct (forallb is_some _); injection E as <- <-; ack_triv.
Qed.

Lemma fire_cb_ack c k ok c' o : fire_cb c k ok = (c', o) -> same_ack c c'.
Proof.
  unfold fire_cb. destruct k as [i|rid mseq ty p i]; [apply fire_icb_ack|].
  destruct (zmem rid (c_done c)); [intros E; injection E as <- <-; apply same_ack_refl|].
  destruct (negb ok); [intros E; injection E as <- <-; ack_triv|].
  intros E. apply fire_icb_ack in E. eapply same_ack_trans; [|exact E]. ack_triv.
Qed.

Lemma fire_all_ack ks : forall c ok c' o, fire_all c ks ok = (c', o) -> same_ack c c'.
Proof.
  induction ks as [|k ks IH]; intros c ok c' o E; cbn [fire_all] in E.
  - injection E as <- <-. apply same_ack_refl.
  - destruct (fire_cb c k ok) as [c1 o1] eqn:E1. destruct (fire_all c1 ks ok) as [c2 o2] eqn:E2.
    injection E as <- <-. eapply same_ack_trans; [eapply fire_cb_ack; eassumption|eapply IH; eassumption].
Qed.

(* resolving one pending datagram: it leaves pending_acks, one counter goes up *)
Lemma resolve_packs ok c s c' o : resolve ok c s = (c', o) ->
  c_packs c' = ddel s (c_packs c) /\ c_assembled c' = c_assembled c /\
  c_acked c' = c_acked c + (if ok then 1 else 0) /\ c_timeouts c' = c_timeouts c + (if ok then 0 else 1).
Proof.
  unfold resolve. intros E.
  set (c0 := if ok then _ else _) in E.
  assert (H0 : c_packs c0 = c_packs c /\ c_assembled c0 = c_assembled c /\
               c_acked c0 = c_acked c + (if ok then 1 else 0) /\ c_timeouts c0 = c_timeouts c + (if ok then 0 else 1))
    by (subst c0; destruct ok; cbn; repeat split; lia).
  destruct H0 as (P0 & A0 & K0 & T0).
  destruct (dget s (c_pcbs c0)) as [ks|].
  - destruct (fire_all c0 ks ok) as [c1 o1] eqn:E1. apply fire_all_ack in E1 as [P1 K1 T1 A1 R1].
    injection E as <- <-. cbn. destruct (dget s (c_pretry c1)); cbn; rewrite ?P1, ?K1, ?T1, ?A1, ?P0; unfold ddel; repeat split; assumption || reflexivity.
  - injection E as <- <-. cbn. destruct (dget s (c_pretry c0)); cbn; rewrite ?P0; unfold ddel; repeat split; assumption || reflexivity.
Qed.

Definition ack_total (c : conn) : Z := c_acked c + c_timeouts c + len (c_packs c).

Lemma resolve_total ok c s c' o :
  NoDup (map fst (c_packs c)) -> In s (map fst (c_packs c)) -> resolve ok c s = (c', o) ->
  ack_total c' = ack_total c /\ c_packs c' = ddel s (c_packs c).
Proof.
  intros ND Hin E. apply resolve_packs in E as (P & _ & K & T). split; [|exact P].
  unfold ack_total. rewrite P, K, T, (ddel_len s _ ND Hin). destruct ok; lia.
Qed.

(* the two loops walk over a snapshot of pending_acks; each entry is resolved at most once *)
Definition sub_packs (snap : list (Z * Z)) (c : conn) : Prop := forall x, In x snap -> In x (c_packs c).

Lemma ack_loop_total h snap : forall c c' o,
  NoDup (map fst (c_packs c)) -> NoDup (map fst snap) -> sub_packs snap c ->
  ack_loop c h snap = (c', o) ->
  ack_total c' = ack_total c /\ NoDup (map fst (c_packs c')) /\ (forall x, In x (c_packs c') -> In x (c_packs c))
  /\ c_assembled c' = c_assembled c.
Proof.
  induction snap as [|[s t] r IH]; intros c c' o ND NS Hsub E; cbn [ack_loop] in E.
  - injection E as <- <-. auto.
  - dpair E c1 o1 E1. destruct (ack_loop c1 h r) as [c2 o2] eqn:E2. injection E as <- <-.
    inversion NS as [|? ? Hni NS']; subst.
    assert (Hs : In s (map fst (c_packs c))) by (apply in_map_iff; exists (s, t); split; [reflexivity|apply Hsub; left; reflexivity]).
    assert (H1 : ack_total c1 = ack_total c /\ (c_packs c1 = c_packs c \/ c_packs c1 = ddel s (c_packs c))
                 /\ c_assembled c1 = c_assembled c).
    { destruct (hdr_acks _ _ s).
      - pose proof (resolve_packs _ _ _ _ _ E1) as (_ & A & _). destruct (resolve_total _ _ _ _ _ ND Hs E1). auto.
      - destruct (_ >? _).
        + pose proof (resolve_packs _ _ _ _ _ E1) as (_ & A & _). destruct (resolve_total _ _ _ _ _ ND Hs E1). auto.
        + injection E1 as <- <-. auto. }
    destruct H1 as (T1 & P1 & A1).
    assert (ND1 : NoDup (map fst (c_packs c1))) by (destruct P1 as [->| ->]; [exact ND|apply ddel_NoDup; exact ND]).
    assert (Hsub1 : sub_packs r c1).
    { intros x Hx. destruct P1 as [->| ->]; [apply Hsub; right; exact Hx|].
      apply In_ddel; [apply Hsub; right; exact Hx|]. intros Hk. apply Hni. apply in_map_iff. exists x. split; assumption. }
    destruct (IH _ _ _ ND1 NS' Hsub1 E2) as (T2 & ND2 & I2 & A2).
    split; [congruence|]. split; [exact ND2|]. split; [|congruence].
    intros x Hx. apply I2 in Hx. destruct P1 as [P1|P1]; rewrite P1 in Hx; [exact Hx|apply ddel_In in Hx as [Hx _]; exact Hx].
Qed.

Lemma timeout_loop_total strict now snap : forall c c' o,
  NoDup (map fst (c_packs c)) -> NoDup (map fst snap) -> sub_packs snap c ->
  timeout_loop strict c now snap = (c', o) ->
  ack_total c' = ack_total c /\ NoDup (map fst (c_packs c')) /\ (forall x, In x (c_packs c') -> In x (c_packs c))
  /\ c_assembled c' = c_assembled c
  /\ (forall x, In x snap -> In x (c_packs c') ->
        (if strict then now - snd x >? c_out_timeout c else now - snd x >=? c_out_timeout c) = false).
Proof.
  induction snap as [|[s t] r IH]; intros c c' o ND NS Hsub E; cbn [timeout_loop] in E.
  - injection E as <- <-. repeat split; auto. intros x [].
  - dpair E c1 o1 E1. destruct (timeout_loop strict c1 now r) as [c2 o2] eqn:E2. injection E as <- <-.
    inversion NS as [|? ? Hni NS']; subst.
    assert (Hs : In s (map fst (c_packs c))) by (apply in_map_iff; exists (s, t); split; [reflexivity|apply Hsub; left; reflexivity]).
    set (due := if strict then now - t >? c_out_timeout c else now - t >=? c_out_timeout c) in *.
    assert (H1 : ack_total c1 = ack_total c /\ c_assembled c1 = c_assembled c /\ c_out_timeout c1 = c_out_timeout c /\
                 ((due = false /\ c_packs c1 = c_packs c) \/ (due = true /\ c_packs c1 = ddel s (c_packs c)))).
    { destruct due eqn:Ed.
      - pose proof (resolve_packs _ _ _ _ _ E1) as (_ & A & _). destruct (resolve_total _ _ _ _ _ ND Hs E1).
        apply resolve_frame in E1 as [[[_ _ _ _ _ _ O _] _] _]. auto 6.
      - injection E1 as <- <-. auto 6. }
    destruct H1 as (T1 & A1 & O1 & P1).
    assert (ND1 : NoDup (map fst (c_packs c1))) by (destruct P1 as [[_ ->]|[_ ->]]; [exact ND|apply ddel_NoDup; exact ND]).
    assert (Hsub1 : sub_packs r c1).
    { intros x Hx. destruct P1 as [[_ ->]|[_ ->]]; [apply Hsub; right; exact Hx|].
      apply In_ddel; [apply Hsub; right; exact Hx|]. intros Hk. apply Hni. apply in_map_iff. exists x. split; assumption. }
    destruct (IH _ _ _ ND1 NS' Hsub1 E2) as (T2 & ND2 & I2 & A2 & D2).
    split; [congruence|]. split; [exact ND2|]. split; [|split; [congruence|]].
    + intros x Hx. apply I2 in Hx. destruct P1 as [[_ P1]|[_ P1]]; rewrite P1 in Hx; [exact Hx|apply ddel_In in Hx as [Hx _]; exact Hx].
    + intros x [<-|Hx] Hin.
      * cbn [snd]. destruct P1 as [[Hd _]|[_ P1]]; [exact Hd|].
        exfalso. apply I2 in Hin. rewrite P1 in Hin. apply ddel_In in Hin as [_ Hk]. apply Hk. reflexivity.
      * rewrite <- O1. apply D2; assumption.
Qed.

(* ---------- the rest of the machine and the ack bookkeeping ---------- *)
Lemma send_type_ack c ty p r k : same_ack c (send_type c ty p r k).
Proof. unfold send_type. ack_triv. Qed.

Lemma send_frags_ack frags : forall c fid n r i, same_ack c (send_frags c fid n r i frags).
Proof.
  induction frags as [|f rest IH]; intros; cbn [send_frags]; [apply same_ack_refl|].
  eapply same_ack_trans; [apply send_type_ack|apply IH].
Qed.

Lemma send_ack e c p r k c' o : send e c p r k = (c', o) -> same_ack c c'.
Proof.
  unfold send. intros E. destruct (negb _); [injection E as <- <-; apply same_ack_refl|].
  destruct (len p >? e_max_payload e).
  - destruct (len p >? _); injection E as <- <-; [ack_triv|].
    set (frags := split_frags (S (length p)) e p).
    eapply (same_ack_trans _ (c <| c_seq_frag := seq_succ (c_seq_frag c) |>)); [ack_triv|].
    eapply same_ack_trans; [apply (send_frags_ack frags)|]. ack_triv.
  - injection E as <- <-. apply send_type_ack.
Qed.

Lemma recv_msgs_ack ms : forall c now orcs c' o, recv_msgs c now ms orcs = (c', o) -> same_ack c c'.
Proof.
  induction ms as [|m r IH]; intros c now orcs c' o E; cbn [recv_msgs] in E.
  - injection E as <- <-. apply same_ack_refl.
  - destruct (bf_insert (c_bf_msg c) (w_seq m)) as [bf|]; [|eapply IH; eassumption].
    match type of E with context [match ?x with (_, _) => _ end] => destruct x as [[c1 o1] orcs'] eqn:E1 end.
    assert (H1 : same_ack c c1).
    { assert (Hh : forall ty c'' o'', recv_handshake (c <| c_bf_msg := bf |>) ty (hd no_oracle orcs) = (c'', o'') -> same_ack c c'').
      { intros ty c'' o'' Eh. unfold recv_handshake in Eh.
        destruct ty, (c_server (c <| c_bf_msg := bf |>)); try (injection Eh as <- <-; ack_triv).
        - destruct (negb _); [injection Eh as <- <-; ack_triv|].
          destruct (negb _); injection Eh as <- <-; unfold send_type; ack_triv.
        - destruct (o_parse _ =? 6); [injection Eh as <- <-; ack_triv|].
          destruct (negb _); injection Eh as <- <-; unfold send_type; ack_triv.
        - destruct (negb _); [injection Eh as <- <-; ack_triv|].
          destruct (o_temp_token _) as [t|]; [|injection Eh as <- <-; ack_triv].
          destruct (t =? _); injection Eh as <- <-; ack_triv. }
      destruct (w_type m).
      - injection E1 as <- <- <-. ack_triv.
      - destruct (recv_handshake _ CLIENT_HELLO _) as [c'' o''] eqn:Eh. injection E1 as <- <- <-. eapply Hh; eassumption.
      - destruct (recv_handshake _ SERVER_HELLO _) as [c'' o''] eqn:Eh. injection E1 as <- <- <-. eapply Hh; eassumption.
      - destruct (recv_handshake _ CHALLENGE_RESP _) as [c'' o''] eqn:Eh. injection E1 as <- <- <-. eapply Hh; eassumption.
      - injection E1 as <- <- <-. ack_triv.
      - injection E1 as <- <- <-. ack_triv.
      - injection E1 as <- <- <-. unfold recv_app. ack_triv.
      - destruct (recv_fragment _ now (w_seq m) (w_payload m)) as [c'' o''] eqn:Ef. injection E1 as <- <- <-.
        unfold recv_fragment in Ef. destruct (_ <? _)%nat; [injection Ef as <- <-; ack_triv|].
        injection Ef as <- <-. destruct (fr_complete _); ack_triv. }
    destruct (raised o1); [injection E as <- <-; exact H1|].
    destruct (recv_msgs c1 now r orcs') as [c2 o2] eqn:E2. injection E as <- <-.
    eapply same_ack_trans; [exact H1|eapply IH; eassumption].
Qed.

Lemma build_impl_packs e c now ka delay c' r : build_impl e c now ka delay = (c', r) ->
  c_acked c' = c_acked c /\ c_timeouts c' = c_timeouts c /\ c_assembled c' = c_assembled c /\
  c_out_timeout c' = c_out_timeout c /\
  c_packs c' = match r with Some _ => dset (seq_succ (c_seq_send c)) now (c_packs c) | None => c_packs c end.
Proof.
  unfold build_impl. intros E.
  destruct (match c_pretry_msg c with [] => _ | _ => _ end) as [[prm msgs0] cur0].
  destruct (out_pass e (c_outgoing c) msgs0 cur0) as [[rem msgs] cu].
  match type of E with (if ?b then _ else _) = _ => destruct b end; injection E as <- <-;
    repeat match goal with |- context [match ?x with [] => _ | _ :: _ => _ end] => destruct x end;
    cbn; repeat split; reflexivity.
Qed.

Lemma build_packet_packs e c now c' r : build_packet e c now = (c', r) ->
  c_acked c' = c_acked c /\ c_timeouts c' = c_timeouts c /\ c_out_timeout c' = c_out_timeout c /\
  match r with
  | Some _ => c_packs c' = dset (seq_succ (c_seq_send c)) now (c_packs c) /\ c_assembled c' = c_assembled c + 1
  | None => c_packs c' = c_packs c /\ c_assembled c' = c_assembled c
  end.
Proof.
  unfold build_packet. intros E. destruct (_ <? _); [injection E as <- <-; auto|].
  destruct (build_impl e c now _ _) as [c1 r1] eqn:E1. apply build_impl_packs in E1 as (A & T & S & O & P).
  destruct r1; injection E as <- <-; cbn; repeat split; try assumption; lia.
Qed.

(* ---------- the invariant over histories ---------- *)
Definition pend_ok (S n last : Z) (p : Z * Z) : Prop :=
  exists i, 1 <= i <= n /\ fst p = wire i /\ snd p + (n - i) * S <= last.

(* everything except "old entries have been purged", which is broken between packet assembly
   and the time-out sweep of the same tick *)
Record AInv0 (S K : Z) (c : conn) (n : Z) : Prop := {
  ai_n : 0 <= n; ai_seq : c_seq_send c = seq_of_index n; ai_S : S <= c_send_interval c; ai_Spos : 0 < S;
  ai_ot : 0 <= c_out_timeout c < (RING - 1) * S;
  ai_pend : Forall (pend_ok S n (c_last_send c)) (c_packs c);
  ai_nodup : NoDup (map fst (c_packs c));
  ai_count : ack_total c - c_assembled c = K }.

Definition purged (c : conn) : Prop := Forall (fun p => c_last_send c - snd p <= c_out_timeout c) (c_packs c).
Definition AInv (S K : Z) (c : conn) (n : Z) : Prop := AInv0 S K c n /\ purged c.

Lemma AInv0_same S K c c' n : same_core c c' -> same_ack c c' -> AInv0 S K c n -> AInv0 S K c' n.
Proof.
  intros [_ Q L _ I _ O _] [P A T M _] [H1 H2 H3 H4 H5 H6 H7 H8].
  constructor; [exact H1|congruence|rewrite I; exact H3|exact H4|rewrite O; exact H5|rewrite P, L; exact H6
               |rewrite P; exact H7|unfold ack_total in *; rewrite P, A, T, M; exact H8].
Qed.

Lemma purged_same c c' : same_core c c' -> same_ack c c' -> purged c -> purged c'.
Proof. intros [_ _ L _ _ _ O _] [P _ _ _ _] H. unfold purged in *. rewrite P, L, O. exact H. Qed.

Lemma Forall_sub {A} (P : A -> Prop) (l l' : list A) : (forall x, In x l' -> In x l) -> Forall P l -> Forall P l'.
Proof. intros H F. apply Forall_forall. intros x Hx. rewrite Forall_forall in F. auto. Qed.

(* shrinking pending_acks through one of the loops keeps the invariant *)
Lemma AInv0_shrink S K c c' n :
  same_core c c' -> ack_total c' = ack_total c -> c_assembled c' = c_assembled c ->
  NoDup (map fst (c_packs c')) -> (forall x, In x (c_packs c') -> In x (c_packs c)) ->
  AInv0 S K c n -> AInv0 S K c' n.
Proof.
  intros [_ Q L _ I _ O _] T M ND Sub [H1 H2 H3 H4 H5 H6 H7 H8].
  constructor; [exact H1|congruence|rewrite I; exact H3|exact H4|rewrite O; exact H5
               |rewrite L; eapply Forall_sub; eassumption|exact ND|rewrite T, M; exact H8].
Qed.

Lemma purged_shrink c c' : same_core c c' -> (forall x, In x (c_packs c') -> In x (c_packs c)) -> purged c -> purged c'.
Proof. intros [_ _ L _ _ _ O _] Sub H. unfold purged in *. rewrite L, O. eapply Forall_sub; eassumption. Qed.

Lemma handle_ack_bits_AInv S K c h c' o n :
  handle_ack_bits c h = (c', o) -> AInv S K c n -> AInv S K c' n.
Proof.
  intros E [H0 Hp]. pose proof E as E'. apply handle_ack_bits_frame in E' as [[Hc] _].
  unfold handle_ack_bits in E.
  destruct (ack_loop_total h (c_packs c) c c' o (ai_nodup _ _ _ _ H0) (ai_nodup _ _ _ _ H0) (fun x H => H) E) as (T & ND & Sub & M).
  split; [eapply AInv0_shrink; eassumption|eapply purged_shrink; eassumption].
Qed.

Lemma recv_AInv S K c now d orcs c' o n : recv c now d orcs = (c', o) -> AInv S K c n -> AInv S K c' n.
Proof.
  unfold recv. intros E [H0 Hp].
  assert (Hd : forall c1, same_core c c1 -> same_ack c c1 -> AInv S K c1 n)
    by (intros c1 A B; split; [eapply AInv0_same; eassumption|eapply purged_same; eassumption]).
  destruct (keyless_refuses c (d_hdr d)); [injection E as <- <-; apply Hd; [core_triv|ack_triv]|].
  destruct (open_dgram (c_key c) d) as [ms|]; [|injection E as <- <-; apply Hd; [core_triv|ack_triv]].
  destruct (bf_insert (c_bf_pkt c) _) as [bf|]; [|injection E as <- <-; apply Hd; [core_triv|ack_triv]].
  match type of E with context [handle_ack_bits ?c0 _] => set (cc := c0) in E end.
  assert (Hcc : AInv S K cc n) by (apply Hd; subst cc; [core_triv|ack_triv]).
  destruct (handle_ack_bits cc (d_hdr d)) as [c1 o1] eqn:E1.
  destruct (recv_msgs c1 now ms orcs) as [c2 o2] eqn:E2. injection E as <- <-.
  pose proof (handle_ack_bits_AInv _ _ _ _ _ _ _ E1 Hcc) as [H1 Hp1].
  pose proof (recv_msgs_frame _ _ _ _ _ _ E2) as [A2 _]. pose proof (recv_msgs_ack _ _ _ _ _ _ E2) as B2.
  split; [eapply AInv0_same; eassumption|eapply purged_same; eassumption].
Qed.

Lemma NoDup_snoc {A} (l : list A) x : NoDup l -> ~ In x l -> NoDup (l ++ [x]).
Proof.
  induction l as [|y l IH]; intros ND Hx; cbn; [repeat constructor; intros []|].
  inversion ND as [|? ? Hy ND']; subst. constructor.
  - intros Hin. apply in_app_or in Hin as [H|[H|[]]]; [exact (Hy H)|]. apply Hx. left. symmetry. exact H.
  - apply IH; [exact ND'|]. intros H. apply Hx. right. exact H.
Qed.

Lemma wire_neq_near i j : 0 < j - i < RING -> wire i <> wire j.
Proof. unfold wire, RING. intros. lia. Qed.

(* packet assembly followed by the time-out sweep of the same tick *)
Lemma tick_tail_AInv strict e S K c now c1 pk c2 o2 n :
  AInv S K c n -> build_packet e c now = (c1, pk) -> check_timeout strict c1 now = (c2, o2) ->
  c_last_send c < now ->
  exists n', AInv S K c2 n' /\
    (forall x, In x (c_packs c2) ->
       (if strict then now - snd x >? c_out_timeout c else now - snd x >=? c_out_timeout c) = false).
Proof.
  intros [H0 Hp] E1 E2 Hlt.
  pose proof (build_packet_built _ _ _ _ _ E1) as (Bs & Bi & _ & Bb).
  pose proof (build_packet_packs _ _ _ _ _ E1) as (Ba & Bt & Bo & Bp).
  destruct H0 as [H1 H2 H3 H3' H4 H5 H6 H7].
  pose proof E2 as E2'. apply check_timeout_frame in E2' as [[Hc2] _].
  unfold check_timeout in E2.
  (* the state after assembly satisfies AInv0 at the new index *)
  assert (Hmid : exists n', AInv0 S K c1 n' /\ (forall x, In x (c_packs c1) -> now - snd x <= c_out_timeout c1 \/ True)).
  { destruct pk as [[h ms]|].
    - destruct Bb as (Q1 & L1 & Gate & _). destruct Bp as [P1 M1].
      exists (n + 1).
      assert (Hnew : ~ In (seq_succ (c_seq_send c)) (map fst (c_packs c))).
      { rewrite H2, seq_succ_index by exact H1. unfold seq_of_index. assert (n + 1 =? 0 = false) as -> by lia.
        intros Hin. apply in_map_iff in Hin as ([s t] & Hs & Hin). cbn in Hs.
        rewrite Forall_forall in H5. destruct (H5 _ Hin) as (i & I1 & I2 & I3). cbn in I2, I3.
        unfold purged in Hp. rewrite Forall_forall in Hp. pose proof (Hp _ Hin) as Hpu. cbn in Hpu.
        apply (wire_neq_near i (n + 1)); [|congruence].
        assert ((n - i) * S <= c_out_timeout c) by lia. unfold RING in *. nia. }
      destruct (dset_new_len (seq_succ (c_seq_send c)) now (c_packs c) Hnew) as [Ln Kn].
      split; [|auto]. constructor.
      + lia.
      + rewrite Q1, H2. apply seq_succ_index. exact H1.
      + rewrite Bi. exact H3.
      + exact H3'.
      + rewrite Bo. exact H4.
      + rewrite P1, L1. apply Forall_forall. intros x Hx. apply dset_In in Hx as [->|Hx].
        * exists (n + 1). cbn. rewrite H2, seq_succ_index by exact H1. unfold seq_of_index.
          assert (n + 1 =? 0 = false) as -> by lia. repeat split; lia.
        * rewrite Forall_forall in H5. destruct (H5 _ Hx) as (i & I1 & I2 & I3). exists i. repeat split; try lia; try assumption.
      + rewrite P1, Kn. apply NoDup_snoc; [exact H6|exact Hnew].
      + unfold ack_total in *. rewrite P1, Ln, Ba, Bt, M1. lia.
    - destruct Bb as [Q1 L1]. destruct Bp as [P1 M1]. exists n. split; [|auto].
      constructor; [exact H1|congruence|rewrite Bi; exact H3|exact H3'|rewrite Bo; exact H4|rewrite P1, L1; exact H5
                   |rewrite P1; exact H6|unfold ack_total in *; rewrite P1, Ba, Bt, M1; exact H7]. }
  destruct Hmid as (n' & Hm & _).
  destruct (timeout_loop_total strict now (c_packs c1) c1 c2 o2 (ai_nodup _ _ _ _ Hm) (ai_nodup _ _ _ _ Hm) (fun x H => H) E2)
    as (T & ND & Sub & M & D).
  exists n'. split; [split|].
  - eapply AInv0_shrink; eassumption.
  - (* purged: what survived the sweep is young; last_send is now (built) or the sweep ran at now > last_send *)
    unfold purged. apply Forall_forall. intros x Hx. pose proof (D x (Sub x Hx) Hx) as Dx.
    destruct Hc2 as [_ _ L2 _ _ _ O2 _]. rewrite L2, O2.
    assert (c_last_send c1 <= now) by (destruct pk as [[h ms]|]; [destruct Bb as (_ & -> & _); lia|destruct Bb as [_ ->]; lia]).
    destruct strict; lia.
  - intros x Hx. rewrite <- Bo. apply D; [apply Sub; exact Hx|exact Hx].
Qed.

(* events that keep the connection open and leave the two timing parameters alone *)
Definition ev_open (x : ev) : Prop :=
  match x with EDisconnect _ => False | ESetCfg w _ => w = 0 \/ w = 2 | _ => True end.

Lemma client_update_ack c now c' o : client_update c now = (c', o) -> same_ack c c'.
Proof.
  unfold client_update. intros E.
  destruct (_ && (now >? _)); destruct (_ && (_ >? c_temp_timeout _)); injection E as <- <-; ack_triv.
Qed.

Theorem step_AInv e S K c n x c' o :
  ev_open x -> AInv S K c n -> step e c x = (c', o) -> exists n', AInv S K c' n'.
Proof.
  intros Hop HI E.
  assert (Hd : forall c1, same_core c c1 -> same_ack c c1 -> AInv S K c1 n)
    by (intros c1 A B; destruct HI as [H0 Hp]; split; [eapply AInv0_same; eassumption|eapply purged_same; eassumption]).
  destruct x; cbn [step] in E; cbn [ev_open] in Hop.
  - exists n. apply Hd; [apply send_frame in E as [[H] _]; exact H|eapply send_ack; eassumption].
  - (* client tick *)
    unfold client_tick in E.
    destruct (client_update c now) as [c0 o0] eqn:E0.
    assert (H0 : AInv S K c0 n) by (apply Hd; [apply client_update_frame in E0 as (H & _); exact H|eapply client_update_ack; eassumption]).
    destruct (status_eqb (c_status c0) DROPPED); [injection E as <- <-; exists n; exact H0|].
    match type of E with context [match ?y with (_, _) => _ end] => destruct y as [c1 o1] eqn:E1 end.
    assert (H1 : AInv S K c1 n).
    { destruct r as [|er|d orcs]; try (injection E1 as <- <-; exact H0).
      destruct (recv c0 now d orcs) as [c'' o''] eqn:Er. injection E1 as <- <-. eapply recv_AInv; eassumption. }
    destruct (raised o1); [injection E as <- <-; exists n; exact H1|].
    destruct (now - c_last_send c1 >? c_send_interval c1) eqn:Hg; [|injection E as <- <-; exists n; exact H1].
    destruct (build_packet e c1 now) as [c2 pk] eqn:E2.
    destruct (check_timeout false c2 now) as [c3 o3] eqn:E3. injection E as <- <-.
    assert (Hlt : c_last_send c1 < now) by (destruct H1 as [[_ _ A B _ _ _ _] _]; lia).
    destruct (tick_tail_AInv false e S K c1 now c2 pk c3 o3 n H1 E2 E3 Hlt) as (n' & HI' & _). exists n'. exact HI'.
  - unfold server_tick in E.
    destruct (now - c_last_send c >? c_send_interval c) eqn:Hg; [|injection E as <- <-; exists n; exact HI].
    destruct (build_packet e c now) as [c1 pk] eqn:E1.
    destruct (check_timeout true c1 now) as [c2 o2] eqn:E2. injection E as <- <-.
    assert (Hlt : c_last_send c < now) by (destruct HI as [[_ _ A B _ _ _ _] _]; lia).
    destruct (tick_tail_AInv true e S K c now c1 pk c2 o2 n HI E1 E2 Hlt) as (n' & HI' & _). exists n'. exact HI'.
  - exists n. eapply recv_AInv; eassumption.
  - destruct Hop.
  - injection E as <- <-. exists n. destruct HI as [[H1 H2 H3 H4 H5 H6 H7 H8] Hp].
    destruct Hop as [->| ->]; (split; [constructor; cbn; assumption|exact Hp]).
  - injection E as <- <-. exists n. apply Hd; unfold client_hello, send_type; [core_triv|ack_triv].
  - injection E as <- <-. exists n. apply Hd; [core_triv|ack_triv].
  - injection E as <- <-. exists n. apply Hd; [core_triv|ack_triv].
Qed.

Fixpoint all_open (xs : list ev) : Prop := match xs with [] => True | x :: r => ev_open x /\ all_open r end.

Theorem run_AInv e S K xs : forall c n c' oss,
  all_open xs -> AInv S K c n -> run e c xs = (c', oss) -> exists n', AInv S K c' n'.
Proof.
  induction xs as [|x r IH]; intros c n c' oss Hop HI E; cbn [run] in E.
  - injection E as <- <-. exists n. exact HI.
  - destruct Hop as [Hx Hr]. destruct (step e c x) as [c1 o] eqn:E1. destruct (run e c1 r) as [c2 os] eqn:E2.
    injection E as <- <-. destruct (step_AInv _ _ _ _ _ _ _ _ Hx HI E1) as (n1 & H1). eapply IH; eassumption.
Qed.

Lemma AInv_conn0 S b : 0 < S -> S <= 256 -> TICKS < (RING - 1) * S -> AInv S 0 (conn0 b) 0.
Proof.
  intros H1 H2 H3. split; [|constructor].
  constructor.
  - lia.
  - reflexivity.
  - cbn. exact H2.
  - exact H1.
  - change (c_out_timeout (conn0 b)) with TICKS. unfold TICKS, RING in *. lia.
  - constructor.
  - constructor.
  - reflexivity.
Qed.

(* the sweep's deadline: after a tick that passes the send-rate gate nothing older than the
   message time-out is left pending *)
Theorem server_tick_deadline e S K c n now c' o :
  AInv S K c n -> c_send_interval c < now - c_last_send c -> server_tick e c now = (c', o) ->
  forall s t, In (s, t) (c_packs c') -> now - t <= c_out_timeout c.
Proof.
  intros HI Hg E. unfold server_tick in E.
  assert (now - c_last_send c >? c_send_interval c = true) as G by lia. rewrite G in E.
  destruct (build_packet e c now) as [c1 pk] eqn:E1.
  destruct (check_timeout true c1 now) as [c2 o2] eqn:E2. injection E as <- <-.
  assert (Hlt : c_last_send c < now) by (destruct HI as [[_ _ A B _ _ _ _] _]; lia).
  destruct (tick_tail_AInv true e S K c now c1 pk c2 o2 n HI E1 E2 Hlt) as (n' & _ & D).
  intros s t Hin. specialize (D _ Hin). cbn in D. lia.
Qed.
