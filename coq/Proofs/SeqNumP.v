(* SeqNumP.v — ring arithmetic and sliding-window refinement proofs (C08, used by C04/C07). *)
From Coq Require Import Lia ZifyBool.
From Model Require Import Base SeqNum.
From Proofs Require Import Tac.
Open Scope Z_scope.
Ltac Zify.zify_post_hook ::= Z.to_euclidean_division_equations.



(* ---------- ring ---------- *)

Lemma wire_range n : 1 <= wire n <= RING.
Proof. unfold wire, RING. lia. Qed.

Lemma wire_small n : 1 <= n <= RING -> wire n = n.
Proof. unfold wire, RING. lia. Qed.

Lemma seq_wrap_range r : 1 - RING <= r <= 2 * RING -> 1 <= seq_wrap r <= RING.
Proof. unfold seq_wrap, RING. intros. destruct (r <? 1) eqn:?; destruct (_ >? _) eqn:?; lia. Qed.

Lemma seq_succ_range a : 0 <= a <= RING -> 1 <= seq_succ a <= RING.
Proof. intros. unfold seq_succ. apply seq_wrap_range. unfold RING in *. lia. Qed.

Lemma seq_succ_plain a : 0 <= a < RING -> seq_succ a = a + 1.
Proof. unfold seq_succ, seq_wrap, RING. intros. destruct (a + 1 <? 1) eqn:?; destruct (_ >? _) eqn:?; lia. Qed.

Lemma seq_succ_wrap : seq_succ RING = 1.
Proof. reflexivity. Qed.

Lemma seq_succ_wire n : 1 <= n -> seq_succ (wire n) = wire (n + 1).
Proof.
  intros. unfold seq_succ, seq_wrap, wire, RING.
  destruct (_ <? 1) eqn:?; destruct (_ >? _) eqn:?; lia.
Qed.

Lemma seq_succ_first : seq_succ 0 = wire 1.
Proof. reflexivity. Qed.

Lemma seq_add_ok a k : 0 <= a <= RING -> - RING < k <= RING ->
  exists r, seq_add a k = Ok r /\ 1 <= r <= RING.
Proof.
  intros Ha Hk. unfold seq_add. exists (seq_wrap (a + k)).
  assert (1 <= seq_wrap (a + k) <= RING) by (apply seq_wrap_range; unfold RING in *; lia).
  unfold seq_new, RING in *. destruct (_ >? _) eqn:?; [lia|]. destruct (_ <? 0) eqn:?; [lia|]. auto.
Qed.

Lemma seq_wrap_wire r : 1 - RING <= r <= 2 * RING -> seq_wrap r = wire r.
Proof.
  unfold seq_wrap, wire, RING. intros.
  destruct (r <? 1) eqn:?.
  - destruct (r + 65535 >? 65535) eqn:?; lia.
  - destruct (r >? 65535) eqn:?; lia.
Qed.

Lemma seq_new_wire n : seq_new (wire n) = Ok (wire n).
Proof.
  pose proof (wire_range n). unfold seq_new, RING in *.
  destruct (_ >? _) eqn:?; [lia|]. destruct (_ <? 0) eqn:?; [lia|]. reflexivity.
Qed.

Lemma wire_wire_add n k : wire (wire n + k) = wire (n + k).
Proof. unfold wire, RING. lia. Qed.

Lemma seq_add_wire n k : 1 <= n -> 0 <= k <= RING -> seq_add (wire n) k = Ok (wire (n + k)).
Proof.
  intros Hn Hk. unfold seq_add. pose proof (wire_range n).
  rewrite seq_wrap_wire by (unfold RING in *; lia).
  rewrite wire_wire_add. apply seq_new_wire.
Qed.

Lemma seq_sub_wire n k : 0 <= k < RING -> seq_sub (wire n) k = Ok (wire (n - k)).
Proof.
  intros Hk. unfold seq_sub. pose proof (wire_range n).
  rewrite seq_wrap_wire by (unfold RING in *; lia).
  replace (wire n - k) with (wire n + - k) by lia.
  rewrite wire_wire_add. replace (n + - k) with (n - k) by lia. apply seq_new_wire.
Qed.

(* difference of two wire values = difference of the true indices, inside half the ring *)
Lemma seq_diff_wire m n : Z.abs (m - n) <= HALF -> seq_diff (wire m) (wire n) = m - n.
Proof.
  unfold seq_diff, wire, RING, HALF. intros. cbv zeta.
  dif; [lia|]. dif; lia.
Qed.

Lemma seq_diff_exact a k : 1 <= a <= RING -> 1 <= k <= HALF ->
  exists b, seq_add a k = Ok b /\ seq_diff b a = k /\ seq_diff a b = - k
            /\ seq_newer b a = true /\ seq_newer a b = false
            /\ seq_lt a b = true /\ seq_gt b a = true /\ seq_lt b a = false /\ seq_gt a b = false.
Proof.
  intros Ha Hk.
  rewrite <- (wire_small a Ha).
  assert (Hk' : 0 <= k <= RING) by (unfold RING, HALF in *; lia).
  rewrite (seq_add_wire a k) by lia.
  exists (wire (a + k)). split; [reflexivity|].
  assert (D1 : seq_diff (wire (a + k)) (wire a) = k) by (rewrite seq_diff_wire; unfold HALF in *; lia).
  assert (D2 : seq_diff (wire a) (wire (a + k)) = - k) by (rewrite seq_diff_wire; unfold HALF in *; lia).
  unfold seq_newer, seq_lt, seq_gt. rewrite D1, D2. lia.
Qed.

(* ---------- window bit lemmas ---------- *)

Lemma mask_testbit nb d k : 1 <= nb -> 1 <= d -> 0 <= k ->
  Z.testbit (bf_mask nb d) k = (k =? nb - d).
Proof.
  intros Hnb Hd Hk. unfold bf_mask.
  rewrite Z.shiftr_spec by lia. rewrite Z.shiftl_1_l.
  rewrite Z.pow2_bits_eqb by lia. lia.
Qed.

Lemma mask_zero nb d : 1 <= nb -> nb < d -> bf_mask nb d = 0.
Proof.
  intros Hnb Hd. apply Z.bits_inj'. intros k Hk.
  rewrite mask_testbit by lia. rewrite Z.bits_0. lia.
Qed.

Lemma land_mask_zero nb d bits : 1 <= nb -> 1 <= d <= nb ->
  (Z.land (bf_mask nb d) bits =? 0) = negb (Z.testbit bits (nb - d)).
Proof.
  intros Hnb Hd.
  destruct (Z.testbit bits (nb - d)) eqn:Hb; cbn [negb].
  - apply Z.eqb_neq. intro H0.
    assert (Ht : Z.testbit (Z.land (bf_mask nb d) bits) (nb - d) = true).
    { rewrite Z.land_spec, mask_testbit, Hb by lia. rewrite Z.eqb_refl. reflexivity. }
    rewrite H0, Z.bits_0 in Ht. discriminate.
  - apply Z.eqb_eq. apply Z.bits_inj'. intros k Hk.
    rewrite Z.land_spec, mask_testbit, Z.bits_0 by lia.
    destruct (k =? nb - d) eqn:E; [|reflexivity].
    apply Z.eqb_eq in E. subst k. rewrite Hb. reflexivity.
Qed.

(* ---------- abstraction relation ---------- *)

Definition InB (n : Z) (acc : list Z) : bool := existsb (Z.eqb n) acc.

Lemma InB_In n acc : InB n acc = true <-> In n acc.
Proof.
  unfold InB. rewrite existsb_exists. split.
  - intros [x [Hx E]]. apply Z.eqb_eq in E. subst. exact Hx.
  - intros H. exists n. split; [exact H|apply Z.eqb_refl].
Qed.

Lemma InB_cons n x acc : InB n (x :: acc) = (n =? x) || InB n acc.
Proof. reflexivity. Qed.

Record R (f : bitfield) (m : Z) (acc : list Z) : Prop := {
  R_nb : 1 <= bf_nbits f;
  R_cur : bf_cur f = wire m;
  R_m : 1 <= m;
  R_in : InB m acc = true;
  R_le : forall x, In x acc -> x <= m;
  R_bits : forall k, 0 <= k < bf_nbits f ->
      Z.testbit (bf_bits f) k = InB (m - (bf_nbits f - k)) acc;
  R_hi : forall k, bf_nbits f <= k -> Z.testbit (bf_bits f) k = false
}.

Lemma R_first nb n : 1 <= nb -> 1 <= n ->
  bf_insert (bf_new nb) (wire n) = Ok {| bf_nbits := nb; bf_bits := 0; bf_cur := wire n |}
  /\ R {| bf_nbits := nb; bf_bits := 0; bf_cur := wire n |} n [n].
Proof.
  intros Hnb Hn. split; [reflexivity|].
  constructor; cbn [bf_nbits bf_bits bf_cur]; try lia; try reflexivity.
  - unfold InB. cbn. rewrite Z.eqb_refl. reflexivity.
  - intros x [Hx|[]]. lia.
  - intros k Hk. rewrite Z.bits_0. unfold InB. cbn. lia.
  - intros k Hk. apply Z.bits_0.
Qed.

Lemma wire_nonzero n : (wire n =? 0) = false.
Proof. pose proof (wire_range n). lia. Qed.

Lemma InB_above m acc x : (forall y, In y acc -> y <= m) -> m < x -> InB x acc = false.
Proof.
  intros Hle Hx. destruct (InB x acc) eqn:E; [|reflexivity].
  apply InB_In in E. apply Hle in E. lia.
Qed.

(* one insertion step: exact outcome and preservation of the abstraction *)
Lemma R_step f m acc n : R f m acc -> 1 <= n -> Z.abs (n - m) <= HALF ->
  if spec_dup (bf_nbits f) m acc n
  then bf_insert f (wire n) = Err EDup
  else exists f', bf_insert f (wire n) = Ok f' /\ bf_nbits f' = bf_nbits f
                  /\ R f' (Z.max m n) (n :: acc).
Proof.
  intros HR Hn Hhr. destruct HR as [Hnb Hcur Hm Hin Hle Hbits Hhi].
  set (nb := bf_nbits f) in *.
  unfold spec_dup. fold (InB n acc).
  unfold bf_insert. fold nb. rewrite Hcur, wire_nonzero.
  rewrite seq_diff_wire by lia. cbv zeta.
  destruct (m - n <? 0) eqn:Hneg.
  - (* newer than everything so far *)
    assert (Hgt : m < n) by lia.
    rewrite (InB_above m acc n Hle Hgt). cbn [andb].
    eexists. split; [reflexivity|]. split; [reflexivity|].
    replace (Z.max m n) with n by lia.
    constructor; cbn [bf_nbits bf_bits bf_cur]; fold nb; try lia; try reflexivity.
    + rewrite InB_cons, Z.eqb_refl. reflexivity.
    + intros x [Hx|Hx]; [lia|]. apply Hle in Hx. lia.
    + intros k Hk. rewrite InB_cons.
      replace (n - (nb - k) =? n) with false by lia. cbn [orb].
      destruct (- (m - n) <=? nb) eqn:Hw.
      * rewrite Z.lor_spec, Z.shiftr_spec, mask_testbit by lia.
        destruct (Z_lt_ge_dec (k + - (m - n)) nb) as [Hlt|Hge].
        -- rewrite Hbits by lia. replace (k =? nb - - (m - n)) with false by lia.
           rewrite orb_false_r. f_equal. lia.
        -- rewrite Hhi by lia. cbn [orb].
           destruct (k =? nb - - (m - n)) eqn:E.
           ++ replace (n - (nb - k)) with m by lia. symmetry. exact Hin.
           ++ symmetry. apply (InB_above m acc); [exact Hle|lia].
      * rewrite Z.bits_0. symmetry. apply (InB_above m acc); [exact Hle|lia].
    + intros k Hk. destruct (- (m - n) <=? nb) eqn:Hw.
      * rewrite Z.lor_spec, Z.shiftr_spec, mask_testbit by lia.
        rewrite Hhi by lia. lia.
      * apply Z.bits_0.
  - destruct (m - n =? 0) eqn:Hz.
    + (* the newest again *)
      assert (n = m) by lia. subst n. rewrite Hin.
      replace (m <=? m) with true by lia. replace (m - m <=? nb) with true by lia.
      reflexivity.
    + assert (Hd : 1 <= m - n) by lia.
      replace (n <=? m) with true by lia. rewrite andb_true_r.
      destruct (m - n <=? nb) eqn:Hw.
      * (* inside the window *)
        rewrite land_mask_zero by lia. rewrite negb_involutive.
        rewrite Hbits by lia.
        replace (m - (nb - (nb - (m - n)))) with n by lia.
        rewrite andb_true_r.
        destruct (InB n acc) eqn:Hseen; [reflexivity|].
        eexists. split; [reflexivity|]. split; [reflexivity|].
        replace (Z.max m n) with m by lia.
        constructor; cbn [bf_nbits bf_bits bf_cur]; fold nb; try lia; try assumption.
        -- rewrite InB_cons, Hin. apply orb_true_r.
        -- intros x [Hx|Hx]; [lia|]. apply Hle. exact Hx.
        -- intros k Hk. rewrite Z.lor_spec, mask_testbit, Hbits, InB_cons by lia.
           rewrite orb_comm. f_equal. lia.
        -- intros k Hk. rewrite Z.lor_spec, mask_testbit, Hhi by lia. lia.
      * (* older than the window: silently accepted *)
        rewrite andb_false_r.
        rewrite mask_zero by lia. rewrite Z.land_0_l. cbn [Z.eqb negb].
        eexists. split; [reflexivity|]. split; [reflexivity|].
        replace (Z.max m n) with m by lia.
        constructor; cbn [bf_nbits bf_bits bf_cur]; fold nb; try lia; try assumption.
        -- rewrite InB_cons, Hin. apply orb_true_r.
        -- intros x [Hx|Hx]; [lia|]. apply Hle. exact Hx.
        -- intros k Hk. rewrite Z.lor_0_r, Hbits, InB_cons by lia.
           replace (m - (nb - k) =? n) with false by lia. reflexivity.
        -- intros k Hk. rewrite Z.lor_0_r. apply Hhi. exact Hk.
Qed.

Lemma R_contains f m acc n : R f m acc -> 1 <= n -> Z.abs (n - m) <= HALF ->
  bf_contains f (wire n) = spec_dup (bf_nbits f) m acc n.
Proof.
  intros HR Hn Hhr. destruct HR as [Hnb Hcur Hm Hin Hle Hbits Hhi].
  set (nb := bf_nbits f) in *.
  unfold bf_contains, spec_dup. fold (InB n acc). fold nb.
  rewrite Hcur, seq_diff_wire by lia. cbv zeta.
  destruct (m - n =? 0) eqn:Hz.
  - assert (n = m) by lia. subst n. rewrite Hin. lia.
  - destruct (m - n >? 0) eqn:Hp.
    + replace (n <=? m) with true by lia. rewrite andb_true_r.
      destruct (m - n <=? nb) eqn:Hw.
      * rewrite land_mask_zero by lia. rewrite negb_involutive, Hbits by lia.
        rewrite andb_true_r. f_equal. lia.
      * rewrite mask_zero by lia. rewrite Z.land_0_l. rewrite andb_false_r. reflexivity.
    + replace (n <=? m) with false by lia. rewrite andb_false_r. reflexivity.
Qed.

(* ---------- histories ---------- *)

Lemma hist_refines h : forall f m acc, R f m acc -> half_range m h ->
  impl_hist f h = spec_hist (bf_nbits f) m acc h.
Proof.
  induction h as [|n h IH]; intros f m acc HR Hh; [reflexivity|].
  cbn [impl_hist spec_hist half_range] in *. destruct Hh as [Hn [Hab Hrest]].
  pose proof (R_step f m acc n HR Hn Hab) as Hs.
  destruct (spec_dup (bf_nbits f) m acc n) eqn:Hd.
  - rewrite Hs. f_equal.
    assert (n <= m) by (unfold spec_dup in Hd; lia).
    replace (Z.max m n) with m in * by lia. apply IH; assumption.
  - destruct Hs as [f' [Hi [Hnb HR']]]. rewrite Hi. f_equal.
    rewrite <- Hnb. apply IH; assumption.
Qed.

Theorem bf_refines nb n0 h : 1 <= nb -> 1 <= n0 -> half_range n0 h ->
  impl_hist (bf_new nb) (n0 :: h) = false :: spec_hist nb n0 [n0] h.
Proof.
  intros Hnb Hn0 Hh. cbn [impl_hist].
  destruct (R_first nb n0 Hnb Hn0) as [Hi HR]. rewrite Hi. f_equal.
  apply (hist_refines h _ n0 [n0] HR Hh).
Qed.

(* ---------- the ack fields of a header ---------- *)

Lemma hdr_acks_contains ack bits s :
  hdr_acks ack bits s = bf_contains {| bf_nbits := 32; bf_bits := bits; bf_cur := ack |} s.
Proof.
  unfold hdr_acks, bf_contains. cbn [bf_nbits bf_bits bf_cur]. cbv zeta.
  set (d := seq_diff ack s).
  destruct (d =? 0) eqn:Hz; [reflexivity|]. cbn [orb].
  destruct (d >? 0) eqn:Hp.
  - replace (1 <=? d) with true by lia. cbn [andb].
    destruct (d <=? 32) eqn:Hw; cbn [andb].
    + unfold bf_mask. change (Z.shiftl 1 (32 - 1)) with 2147483648.
      rewrite Z.land_comm. reflexivity.
    + rewrite mask_zero by lia. reflexivity.
  - replace (1 <=? d) with false by lia. reflexivity.
Qed.

(* ---------- final states ---------- *)

Lemma state_refines h : forall f m acc, R f m acc -> half_range m h ->
  let '(m', acc') := spec_state (bf_nbits f) m acc h in
  R (impl_state f h) m' acc' /\ bf_nbits (impl_state f h) = bf_nbits f.
Proof.
  induction h as [|n h IH]; intros f m acc HR Hh; [split; [exact HR|reflexivity]|].
  cbn [impl_state spec_state half_range] in *. destruct Hh as [Hn [Hab Hrest]].
  pose proof (R_step f m acc n HR Hn Hab) as Hs.
  destruct (spec_dup (bf_nbits f) m acc n) eqn:Hd.
  - rewrite Hs.
    assert (n <= m) by (unfold spec_dup in Hd; lia).
    replace (Z.max m n) with m in * by lia. apply IH; assumption.
  - destruct Hs as [f' [Hi [Hnb HR']]]. rewrite Hi. rewrite <- Hnb.
    specialize (IH f' _ _ HR' Hrest).
    destruct (spec_state (bf_nbits f') (Z.max m n) (n :: acc) h) as [m' acc'].
    destruct IH as [IH1 IH2]. split; [exact IH1|]. rewrite IH2. reflexivity.
Qed.

(* membership in acc of the spec state = "was inserted at some point of the history" *)
Lemma spec_state_mem nb h : forall m acc x,
  InB x (snd (spec_state nb m acc h)) = InB x acc || InB x h.
Proof.
  induction h as [|n h IH]; intros m acc x; cbn [spec_state snd].
  - unfold InB at 3. cbn. rewrite orb_false_r. reflexivity.
  - rewrite IH. rewrite (InB_cons x n h).
    destruct (spec_dup nb m acc n) eqn:Hd.
    + unfold spec_dup in Hd. apply andb_prop in Hd as [Hd _]. apply andb_prop in Hd as [Hd _].
      destruct (x =? n) eqn:E; [|reflexivity].
      assert (x = n) by lia. subst x.
      change (existsb (Z.eqb n) acc) with (InB n acc) in Hd. rewrite Hd. reflexivity.
    + rewrite InB_cons. destruct (x =? n); destruct (InB x acc); reflexivity.
Qed.

Lemma spec_state_max nb h : forall m acc,
  fst (spec_state nb m acc h) = fold_left Z.max h m.
Proof.
  induction h as [|n h IH]; intros m acc; cbn [spec_state fst fold_left]; [reflexivity|].
  apply IH.
Qed.
