(* C12P.v — witnesses for Properties/C12.v: the histories that show the inequalities of
   TimedNet.params_ok are exact, and the concrete established pair / admissible history of the
   non-vacuity examples. *)
From Coq Require Import Lia ZifyBool.
From RecordUpdate Require Import RecordUpdate.
From Model Require Import Base SeqNum Wire Conn Client Net TimedNet.
From Proofs Require Import IdleP.
Import RecordSetNotations.
Open Scope Z_scope.

(* an endpoint as the harness establishes it: CONNECTED under key 7, nothing sent or received yet,
   clocks started at t0, keep-alive interval K *)
Definition mk_ep (srv : bool) (t0 K : Z) : conn :=
  (conn0 srv) <| c_status := CONNECTED |> <| c_key := Some 7 |> <| c_ka_interval := K |>
              <| c_last_recv := t0 |> <| c_last_send := t0 |> <| c_last_ka := t0 |>.
Definition env1500 : env := {| e_max_payload := 1434; e_max_frag := 1024; e_max_frags := 8192 |}.
Fixpoint srv_first_rounds (n : nat) (t i : Z) : list tev :=
  match n with O => [] | S m => [TSrvSweep t; TClient t (SPeer i)] ++ srv_first_rounds m (t + 1800) (i + 1) end.
Definition refute_hist (t0 : Z) : list tev :=
  srv_first_rounds 41 (t0 + 1800) 1 ++ [TSrvSweep (t0 + 75000); TClient (t0 + 75000) SNone]
  ++ [TClient (t0 + 76800) SNone; TSrvSweep (t0 + 76800)].


Lemma idle_keepalive_lt_timeout_refuted_proof :
  exists e P k cli srv t0 hs,
    established k t0 cli srv /\ c_ka_interval cli < tp_T P /\ tp_d P = 0
    /\ kmax cli + tp_tau P + tp_d P = tp_T P /\ kmax srv + tp_tau P + tp_d P <= 5 * TICKS
    /\ tvalid e P (tnet0 cli srv t0) hs
    /\ t_swept (trun e P (tnet0 cli srv t0) hs) = true.
Proof.
  exists env1500, {| tp_tau := 1800; tp_d := 0; tp_life := 0; tp_T := 76800 |}, 7,
         (mk_ep false 1536000 75000), (mk_ep true 1536000 1536), 1536000, (refute_hist 1536000).
  split; [apply establishedb_ok; vm_compute; reflexivity|].
  split; [vm_compute; reflexivity|]. split; [reflexivity|]. split; [vm_compute; reflexivity|].
  split; [vm_compute; discriminate|]. split; [apply tvalidb_ok; vm_compute; reflexivity|].
  vm_compute. reflexivity.
Qed.

Fixpoint cli_first_rounds (n : nat) (t i : Z) : list tev :=
  match n with O => [] | S m => [TClient t SNone; TSrvRecv t (SPeer i); TSrvSweep t] ++ cli_first_rounds m (t + 1800) (i + 1) end.
Definition tight_hist (t0 : Z) : list tev :=
  cli_first_rounds 41 (t0 + 1800) 1 ++ [TClient (t0 + 75001) SNone; TSrvSweep (t0 + 75001)]
  ++ [TSrvSweep (t0 + 76801); TClient (t0 + 76801) (SPeer 1)].


Lemma idle_pair_client_bound_tight_proof :
  exists e P k cli srv t0 hs,
    established k t0 cli srv /\ tp_d P = 0
    /\ kmax cli + tp_tau P + tp_d P < tp_T P /\ kmax srv + tp_tau P + tp_d P = 5 * TICKS + 1
    /\ tvalid e P (tnet0 cli srv t0) hs
    /\ c_status (t_cli (trun e P (tnet0 cli srv t0) hs)) = DROPPED.
Proof.
  exists env1500, {| tp_tau := 1800; tp_d := 0; tp_life := 0; tp_T := 76800 |}, 7,
         (mk_ep false 1536000 1536), (mk_ep true 1536000 75001), 1536000, (tight_hist 1536000).
  split; [apply establishedb_ok; vm_compute; reflexivity|].
  split; [reflexivity|]. split; [vm_compute; reflexivity|]. split; [vm_compute; reflexivity|].
  split; [apply tvalidb_ok; vm_compute; reflexivity|].
  vm_compute. reflexivity.
Qed.

(* ---- the non-vacuity example: a handshake run on the model, then a few keep-alive rounds ---- *)
Definition ex_orc (tt : option Z) : hs_oracle :=
  {| o_parse := 0; o_version_ok := true; o_token := 99; o_key := 7; o_reply := []; o_temp_token := tt |}.
Definition ex_first (l : list dgram) : dgram :=
  hd {| d_hdr := {| h_to_server := true; h_ctime := 0; h_seq := 0; h_ack := 0; h_type := UNKNOWN; h_len := 0;
                    h_count := 0; h_ackbits := 0 |}; d_body := Bad |} l.
Definition ex_t0 : Z := 1536000.
Definition ex_hs1 := nrun env1500 net0 [NA (EClientHello ex_t0 []); NA (EClientTick (ex_t0 + 300) RxNone)].
Definition ex_hs2 := nrun env1500 ex_hs1 [NB (ERecv (ex_t0 + 300) (ex_first (wAB ex_hs1)) [ex_orc None]); NB (EServerTick (ex_t0 + 600))].
Definition ex_hs3 := nrun env1500 ex_hs2 [NA (EClientTick (ex_t0 + 600) (RxDgram (ex_first (wBA ex_hs2)) [ex_orc None]))].
Definition ex_hs4 := nrun env1500 ex_hs3 [NB (ERecv (ex_t0 + 900) (ex_first (skipn 1 (wAB ex_hs3))) [ex_orc (Some 99)])].
Definition ex_P : tparams := {| tp_tau := 300; tp_d := 900; tp_life := 2700; tp_T := 5 * TICKS |}.
Definition ex_junk : dgram :=
  let h := {| h_to_server := false; h_ctime := 100; h_seq := 9; h_ack := 0; h_type := APP; h_len := 3; h_count := 1; h_ackbits := 0 |} in
  {| d_hdr := h; d_body := Sealed 8 h [] |}.
Definition ex_plain (o : Z) : list tev := [TClient (ex_t0 + o) SNone; TSrvSweep (ex_t0 + o)].
Definition ex_hist : list tev :=
  ex_plain 1200 ++ ex_plain 1500 ++ ex_plain 1800 ++ ex_plain 2100 ++ ex_plain 2400
  ++ [TClient (ex_t0 + 2700) (SJunk ex_junk []); TSrvRecv (ex_t0 + 2700) (SJunk ex_junk []); TSrvSweep (ex_t0 + 2700)]
  ++ [TClient (ex_t0 + 3000) (SPeer 2); TSrvRecv (ex_t0 + 3000) (SPeer 3); TSrvSweep (ex_t0 + 3000)]
  ++ [TClient (ex_t0 + 3300) (SPeer 2); TSrvRecv (ex_t0 + 3300) (SPeer 3); TSrvSweep (ex_t0 + 3300)]
  ++ ex_plain 3600 ++ ex_plain 3900
  ++ [TClient (ex_t0 + 4200) (SPeer 2); TSrvRecv (ex_t0 + 4200) (SPeer 3); TSrvSweep (ex_t0 + 4200)]   (* late copies *)
  ++ ex_plain 4500 ++ ex_plain 4800
  ++ [TClient (ex_t0 + 5100) (SPeer 3); TSrvRecv (ex_t0 + 5100) (SPeer 4); TSrvSweep (ex_t0 + 5100)]
  ++ ex_plain 5400 ++ ex_plain 5700
  ++ [TClient (ex_t0 + 6000) SNone; TSrvRecv (ex_t0 + 6000) (SPeer 5); TSrvSweep (ex_t0 + 6000)]
  ++ [TClient (ex_t0 + 6300) (SPeer 4); TSrvSweep (ex_t0 + 6300)].

