(* SerCostP.v — the logging decoder of Model/SerCost.v:
   (1) erasure: forgetting the read log gives exactly Ser.dec_value (same result, same bytes left,
       same number of value decodes, number of reads = length of the log);
   (2) the log: every read returned between 0 and its (non-negative) size argument, and the
       bytes returned by all reads together are exactly the bytes the stream moved forward. *)
From Coq Require Import Lia ZifyBool.
From Model Require Import Base Utf8 Ser SerCost.
From Proofs Require Import Tac SerDecP.
Open Scope Z_scope.

Definition entry_ok (p : Z * Z) : Prop := 0 <= snd p /\ (0 <= fst p -> snd p <= fst p).
Definition log_ok (l : list (Z * Z)) : Prop := Forall entry_ok l.

Lemma log_bytes_app a b : log_bytes (a ++ b) = log_bytes a + log_bytes b.
Proof. induction a as [|p a IH]; simpl; [reflexivity|]. unfold log_bytes in *. simpl. rewrite IH. lia. Qed.

Definition CW {A} (mc : CM A) (m : M A) : Prop :=
  forall cs, match mc cs with
             | (r, cs') =>
                 m (erase cs) = (r, erase cs') /\
                 exists new, c_log cs' = new ++ c_log cs /\ log_ok new /\
                             log_bytes new = len (c_rem cs) - len (c_rem cs')
             end.

Lemma CW_nil {A} (r : sres A) cs (m : M A) :
  m (erase cs) = (r, erase cs) ->
  m (erase cs) = (r, erase cs) /\
  exists new, c_log cs = new ++ c_log cs /\ log_ok new /\ log_bytes new = len (c_rem cs) - len (c_rem cs).
Proof. intros H. split; [exact H|]. exists []. repeat split; [constructor|simpl; lia]. Qed.

Lemma CW_ret {A} (a : A) : CW (cret a) (ret a).
Proof. intros cs. apply CW_nil. reflexivity. Qed.
Lemma CW_fail {A} e : CW (@cfail A e) (fail e).
Proof. intros cs. apply CW_nil. reflexivity. Qed.
Lemma CW_lift {A} (r : sres A) : CW (clift r) (lift r).
Proof. intros cs. apply CW_nil. reflexivity. Qed.
Lemma CW_left : CW c_left m_left.
Proof. intros cs. apply CW_nil. reflexivity. Qed.
Lemma CW_tick : CW c_tick tick_val.
Proof.
  intros cs. unfold c_tick. split; [reflexivity|]. exists []. repeat split; [constructor|simpl; lia].
Qed.

Lemma CW_bind {A B} (mc : CM A) (m : M A) (fc : A -> CM B) (f : A -> M B) :
  CW mc m -> (forall a, CW (fc a) (f a)) -> CW (cbind mc fc) (mbind m f).
Proof.
  intros Hm Hf cs. unfold cbind, mbind. specialize (Hm cs).
  destruct (mc cs) as [[a|e] cs1]; destruct Hm as (Hs & new1 & Hl1 & Ho1 & Hb1); rewrite Hs.
  - specialize (Hf a cs1). destruct (fc a cs1) as [r cs2]. destruct Hf as (Hs2 & new2 & Hl2 & Ho2 & Hb2).
    split; [exact Hs2|]. exists (new2 ++ new1). rewrite Hl2, Hl1, app_assoc. split; [reflexivity|].
    split; [apply Forall_app; split; assumption|]. rewrite log_bytes_app. lia.
  - split; [reflexivity|]. exists new1. auto.
Qed.

Lemma CW_read n : CW (c_read n) (m_read n).
Proof.
  intros cs. unfold c_read. rewrite m_read_eq. cbn [erase c_rem c_nval c_log rem nrd nval].
  set (k := if n <? 0 then length (c_rem cs) else Z.to_nat n).
  assert (Hk : 0 <= n -> len (firstn k (c_rem cs)) <= n).
  { intros Hn. pose proof (len_firstn_le k (c_rem cs)). subst k. destruct (n <? 0) eqn:Hn0; lia. }
  clearbody k. split.
  - unfold erase. cbn [c_rem c_nval c_log]. rewrite len_cons. f_equal. f_equal. lia.
  - exists [(n, len (firstn k (c_rem cs)))]. split; [reflexivity|]. split.
    + constructor; [|constructor]. split; simpl; [apply len_nonneg|exact Hk].
    + unfold log_bytes. simpl. pose proof (len_split k (c_rem cs)). lia.
Qed.

Lemma CW_rd f k : CW (c_rd f k) (rd f k).
Proof.
  destruct f; simpl; [apply CW_fail|]. apply CW_bind; [apply CW_read|]. intros b.
  destruct (len b =? k); [apply CW_ret|apply CW_fail].
Qed.

Lemma CW_rep {A} n (mc : CM A) m : CW mc m -> CW (c_rep n mc) (rep n m).
Proof.
  intros H. induction n; simpl; [apply CW_ret|].
  apply CW_bind; [exact H|]. intros x. apply CW_bind; [exact IHn|]. intros xs. apply CW_ret.
Qed.

Lemma CW_dec_len subc sub cap : CW subc sub -> CW (c_dec_len subc cap) (dec_len sub cap).
Proof.
  intros H. apply CW_bind; [exact H|]. intros lv. destruct (as_len lv); [|apply CW_fail].
  destruct (cap <? z); [apply CW_fail|apply CW_ret].
Qed.

Lemma CW_map_loop subc sub n : CW subc sub -> forall acc, CW (c_dec_map_loop subc n acc) (dec_map_loop sub n acc).
Proof.
  intros H. induction n; intros acc; simpl; [apply CW_ret|].
  apply CW_bind; [exact H|]. intros key. apply CW_bind; [exact H|]. intros x.
  apply CW_bind; [apply CW_lift|]. intros acc'. apply IHn.
Qed.

Lemma CW_fields subc sub defs : CW subc sub -> forall n, CW (c_dec_fields subc n defs) (dec_fields sub n defs).
Proof.
  intros H. induction defs as [|d defs IH]; intros n; simpl.
  - destruct (n <=? 0); [apply CW_ret|apply CW_fail].
  - destruct (n <=? 0); [apply CW_ret|].
    apply CW_bind; [exact H|]. intros x. apply CW_bind; [apply IH|]. intros xs. apply CW_ret.
Qed.

Lemma CW_conv {A} (mc : CM A) m : CW mc m -> CW (c_conv mc) (conv m).
Proof.
  intros H cs. unfold c_conv, conv. specialize (H cs). destruct (mc cs) as [[a|e] cs'].
  - destruct H as [Hs Hl]. rewrite Hs. auto.
  - destruct H as [Hs Hl]. rewrite Hs. destruct e; auto.
Qed.

Section Dec.
  Variable fc : fconv.
  Variable pk : value -> option serr.
  Variable reg : registry.

  Ltac leaf := apply CW_bind; [apply CW_rd|]; intros b; apply CW_ret.

  Lemma CW_dec_base subc sub f2 k :
    CW subc sub -> CW (c_dec_base fc subc f2 k) (dec_base fc sub f2 k).
  Proof.
    intros H. destruct k; unfold c_dec_base, dec_base; try leaf.
    - apply CW_bind; [apply CW_dec_len; exact H|]. intros n. apply CW_bind; [apply CW_read|]. intros b.
      destruct (utf8_decode b); [apply CW_ret|apply CW_fail].
    - apply CW_bind; [apply CW_dec_len; exact H|]. intros n. apply CW_bind; [apply CW_read|]. intros b. apply CW_ret.
    - apply CW_ret.
    - apply CW_bind; [apply CW_dec_len; exact H|]. intros n. apply CW_bind; [apply CW_rep; exact H|]. intros l. apply CW_ret.
    - apply CW_bind; [apply CW_dec_len; exact H|]. intros n. apply CW_bind; [apply CW_map_loop; exact H|]. intros l. apply CW_ret.
    - apply CW_bind; [apply CW_dec_len; exact H|]. intros n. apply CW_bind; [apply CW_rep; exact H|]. intros l.
      apply CW_bind; [apply CW_lift|]. intros s. apply CW_ret.
  Qed.

  Lemma CW_dec_cls subc sub t c :
    CW subc sub -> CW (c_dec_cls pk subc t c) (dec_cls pk sub t c).
  Proof.
    intros H. destruct c; unfold c_dec_cls, dec_cls.
    - apply CW_bind; [exact H|]. intros nf. destruct (as_len nf); [|apply CW_fail].
      apply CW_bind; [apply CW_fields; exact H|]. intros fs. apply CW_ret.
    - apply CW_bind; [exact H|]. intros x. apply CW_ret.
    - apply CW_bind; [apply CW_left|]. intros before. apply CW_bind; [exact H|]. intros der.
      destruct (pk der); [apply CW_fail|].
      apply CW_bind; [exact H|]. intros ver. apply CW_bind; [apply CW_left|]. intros after.
      apply CW_bind; [apply CW_read|]. intros pad.
      destruct (len pad =? base - (before - after)); [apply CW_ret|apply CW_fail].
    - apply CW_bind; [exact H|]. intros root. destruct (pk root); [apply CW_fail|].
      apply CW_bind; [exact H|]. intros payload. apply CW_bind; [exact H|]. intros sig. apply CW_fail.
  Qed.

  Lemma CW_dec_body subc sub f1 :
    CW subc sub -> CW (c_dec_body fc pk reg subc f1) (dec_body fc pk reg sub f1).
  Proof.
    intros H. unfold c_dec_body, dec_body. apply CW_bind; [apply CW_tick|]. intros _.
    destruct f1; [apply CW_fail|]. apply CW_bind; [apply CW_read|]. intros buf.
    destruct (negb (len buf =? 2)); [apply CW_fail|].
    destruct (base_kind (be_dec buf)).
    - apply CW_conv, CW_dec_base, H.
    - destruct (reg_find reg (be_dec buf)); [|apply CW_fail]. apply CW_conv, CW_dec_cls, H.
  Qed.

  Lemma CW_dec_value_pair fuel :
    CW (c_dec_value fc pk reg fuel) (dec_value fc pk reg fuel) /\
    CW (c_dec_value fc pk reg (S fuel)) (dec_value fc pk reg (S fuel)).
  Proof.
    induction fuel as [|fuel [IH0 IH1]].
    - split; [apply CW_fail|]. apply CW_dec_body, CW_fail.
    - split; [exact IH1|]. apply CW_dec_body. exact IH0.
  Qed.

  Lemma CW_dec_value fuel : CW (c_dec_value fc pk reg fuel) (dec_value fc pk reg fuel).
  Proof. apply CW_dec_value_pair. Qed.

  (* ---- statements for Properties/C14.v *)
  Lemma cost_erasure_proof fuel bs :
    match c_dec_value fc pk reg fuel (cst0 bs) with
    | (r, cs) => dec_value fc pk reg fuel (st0 bs) = (r, erase cs)
    end.
  Proof.
    pose proof (CW_dec_value fuel (cst0 bs)) as H.
    destruct (c_dec_value fc pk reg fuel (cst0 bs)) as [r cs]. apply H.
  Qed.

  Lemma bytes_returned_proof fuel bs :
    match c_dec_value fc pk reg fuel (cst0 bs) with
    | (r, cs) =>
        log_bytes (c_log cs) = len bs - len (c_rem cs) /\
        0 <= len (c_rem cs) /\ log_bytes (c_log cs) <= len bs /\
        Forall (fun p => 0 <= snd p /\ (0 <= fst p -> snd p <= fst p)) (c_log cs)
    end.
  Proof.
    pose proof (CW_dec_value fuel (cst0 bs)) as H.
    destruct (c_dec_value fc pk reg fuel (cst0 bs)) as [r cs].
    destruct H as (_ & new & Hl & Ho & Hb). cbn [cst0 c_log c_rem] in *. rewrite app_nil_r in Hl. subst new.
    pose proof (len_nonneg (c_rem cs)). repeat split; try lia. exact Ho.
  Qed.
End Dec.
