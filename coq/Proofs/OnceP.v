(* OnceP.v — no send callback is invoked twice (C07, the at-most-once half, per callback).

   Where user callbacks live: `Plain (IUser id)` in the m_cb of queued messages (c_outgoing) and in
   the callback lists of pending datagrams (c_pcbs) — moved, never copied, consumed when fired;
   `IUser id` as fs_ucb of a fragment-sender context (c_pfrags) — consumed when the context is
   deleted; `Retry rid .. (IUser id)` (a RetrySender) in c_outgoing / c_pretry_msg / c_pcbs — copied
   freely, but guarded by the done flag of rid (c_done).  The invariant Inv below is stated over a
   view (the five components that matter) and a list X of callbacks "in hand" (the pending
   callbacks, or what is left of the list being run by fire_all); St is the step relation it is
   threaded through; at the top St composes over whole histories. *)
From Coq Require Import Lia ZifyBool List.
From RecordUpdate Require Import RecordUpdate.
From Model Require Import Base SeqNum Wire Conn.
From Proofs Require Import Tac ConnFrameP AckP ClearP CallbackP PackP CustodyP.
Import RecordSetNotations ListNotations.
Open Scope Z_scope.

(* ---------- sub-multisets of ids ---------- *)
Definition cnt (l : list Z) (x : Z) : nat := count_occ Z.eq_dec l x.
Definition msub (l l' : list Z) : Prop := forall x, (cnt l x <= cnt l' x)%nat.

Lemma cnt_app a b x : cnt (a ++ b) x = (cnt a x + cnt b x)%nat.
Proof. apply count_occ_app. Qed.
Lemma cnt_nil x : cnt [] x = 0%nat. Proof. reflexivity. Qed.

Ltac subs :=
  unfold msub in *; let x := fresh "x" in intros x;
  repeat match goal with H : forall y : Z, (_ <= _)%nat |- _ => specialize (H x) end;
  repeat rewrite ?cnt_app, ?cnt_nil in *; try lia.

Lemma sub_refl l : msub l l. Proof. subs. Qed.
Lemma sub_trans a b c : msub a b -> msub b c -> msub a c. Proof. intros H1 H2. subs. Qed.
Lemma sub_NoDup l l' : msub l l' -> NoDup l' -> NoDup l.
Proof.
  intros H N. apply (NoDup_count_occ Z.eq_dec). intros x.
  rewrite (NoDup_count_occ Z.eq_dec) in N. specialize (H x). specialize (N x). unfold cnt in H. lia.
Qed.
Lemma sub_In l l' x : msub l l' -> In x l -> In x l'.
Proof.
  intros H Hin. apply (count_occ_In Z.eq_dec). apply (count_occ_In Z.eq_dec) in Hin.
  specialize (H x). unfold cnt in H. lia.
Qed.
Lemma cnt_In l x : In x l <-> (0 < cnt l x)%nat.
Proof. unfold cnt. rewrite (count_occ_In Z.eq_dec). lia. Qed.
Lemma NoDup_cnt l : NoDup l <-> forall x, (cnt l x <= 1)%nat.
Proof. apply NoDup_count_occ. Qed.

Lemma NoDup_app_iff (a b : list Z) : NoDup (a ++ b) <-> NoDup a /\ NoDup b /\ (forall x, In x a -> In x b -> False).
Proof.
  rewrite !NoDup_cnt. split.
  - intros H. split; [|split].
    + intros x. specialize (H x). rewrite cnt_app in H. lia.
    + intros x. specialize (H x). rewrite cnt_app in H. lia.
    + intros x Ha Hb. apply cnt_In in Ha, Hb. specialize (H x). rewrite cnt_app in H. lia.
  - intros (Ha & Hb & Hd) x. rewrite cnt_app. specialize (Ha x). specialize (Hb x). specialize (Hd x).
    rewrite !cnt_In in Hd. lia.
Qed.

(* ---------- ids carried by callbacks ---------- *)
Definition olist {A} (o : option A) : list A := match o with Some x => [x] | None => [] end.
Definition uid (i : icb) : list Z := match i with IUser id => [id] | _ => [] end.
Definition pid (k : cb) : list Z := match k with Plain i => uid i | Retry _ _ _ _ _ => [] end.
Definition rp (k : cb) : list (Z * Z) :=
  match k with Retry rid _ _ _ (IUser id) => [(rid, id)] | _ => [] end.
Definition pids (l : list cb) : list Z := flat_map pid l.
Definition rps (l : list cb) : list (Z * Z) := flat_map rp l.
Definition mcbs (q : list pmsg) : list cb := flat_map (fun m => olist (m_cb m)) q.
Definition fids (pf : list (Z * fsender)) : list Z := flat_map (fun p => uid (fs_ucb (snd p))) pf.
Definition mok (m : pmsg) : Prop := m_retry m <> RNone -> pids (olist (m_cb m)) = [].

Lemma pids_app a b : pids (a ++ b) = pids a ++ pids b. Proof. apply flat_map_app. Qed.
Lemma rps_app a b : rps (a ++ b) = rps a ++ rps b. Proof. apply flat_map_app. Qed.
Lemma mcbs_app a b : mcbs (a ++ b) = mcbs a ++ mcbs b. Proof. apply flat_map_app. Qed.
Lemma mcbs_opt q : opt_list (map m_cb q) = mcbs q.
Proof. induction q as [|m q IH]; [reflexivity|]. cbn. destruct (m_cb m); cbn; rewrite IH; reflexivity. Qed.
Lemma rps_incl a b : incl a b -> incl (rps a) (rps b).
Proof.
  intros H x Hx. apply in_flat_map in Hx as (k & Hk & Hx). apply in_flat_map. exists k. split; [apply H; exact Hk|exact Hx].
Qed.
Lemma rps_In rid id l : In (rid, id) (rps l) <-> exists mseq ty p, In (Retry rid mseq ty p (IUser id)) l.
Proof.
  unfold rps. rewrite in_flat_map. split.
  - intros (k & Hk & Hx). destruct k as [i|r m t p i]; [destruct Hx|]. destruct i; cbn in Hx; try contradiction.
    destruct Hx as [Hx|[]]. injection Hx as <- <-. eauto.
  - intros (m & t & p & H). eexists. split; [exact H|]. left. reflexivity.
Qed.
Lemma pids_nil_incl a b : incl a b -> pids b = [] -> pids a = [].
Proof.
  intros H Hb. destruct (pids a) as [|x r] eqn:E; [reflexivity|]. exfalso.
  assert (Hx : In x (pids a)) by (rewrite E; left; reflexivity).
  apply in_flat_map in Hx as (k & Hk & Hx).
  assert (Hx' : In x (pids b)) by (apply in_flat_map; exists k; split; [apply H; exact Hk|exact Hx]).
  rewrite Hb in Hx'. destruct Hx'.
Qed.
Lemma mcbs_In k q : In k (mcbs q) <-> exists m, In m q /\ m_cb m = Some k.
Proof.
  unfold mcbs. rewrite in_flat_map. split.
  - intros (m & Hm & Hk). exists m. split; [exact Hm|]. destruct (m_cb m); [destruct Hk as [->|[]]; reflexivity|destruct Hk].
  - intros (m & Hm & Hk). exists m. split; [exact Hm|]. rewrite Hk. left. reflexivity.
Qed.
Lemma mcbs_incl a b : incl a b -> incl (mcbs a) (mcbs b).
Proof. intros H k Hk. apply mcbs_In in Hk as (m & Hm & Hk). apply mcbs_In. exists m. split; [apply H; exact Hm|exact Hk]. Qed.

(* ---------- dictionaries: ids / callbacks stored in the values ---------- *)
Section DV.
  Context {A : Type} (f : A -> list Z).
  Definition dv (d : list (Z * A)) : list Z := flat_map (fun p => f (snd p)) d.

  Lemma dv_cons k v d : dv ((k, v) :: d) = f v ++ dv d. Proof. reflexivity. Qed.

  Lemma dv_ddel k d : msub (dv (ddel k d)) (dv d).
  Proof.
    induction d as [|[k' v] d IH]; [apply sub_refl|]. unfold ddel in *. cbn [filter fst].
    destruct (negb (k' =? k)); rewrite ?dv_cons; subs.
  Qed.
  Lemma dv_get_del k d v : dget k d = Some v -> msub (f v ++ dv (ddel k d)) (dv d).
  Proof.
    induction d as [|[k' v'] d IH]; [discriminate|]. cbn [dget]. unfold ddel in *. cbn [filter fst].
    destruct (k =? k') eqn:E.
    - intros H. injection H as ->. assert (k' =? k = true) as -> by lia. cbn [negb]. rewrite dv_cons.
      pose proof (dv_ddel k d) as H. unfold ddel in H. subs.
    - intros H. specialize (IH H). assert (k' =? k = false) as -> by lia. cbn [negb]. rewrite !dv_cons. subs.
  Qed.
  Lemma dv_dset k v d : msub (dv (dset k v d)) (f v ++ dv d).
  Proof.
    induction d as [|[k' v'] d IH]; cbn [dset]; [rewrite dv_cons; subs|].
    destruct (k =? k'); rewrite !dv_cons; subs.
  Qed.
  Lemma dv_dset_same k v v' d : dget k d = Some v -> f v' = f v -> dv (dset k v' d) = dv d.
  Proof.
    induction d as [|[k' v0] d IH]; [discriminate|]. cbn [dget dset]. destruct (k =? k').
    - intros H Hf. injection H as ->. rewrite !dv_cons, Hf. reflexivity.
    - intros H Hf. rewrite !dv_cons, (IH H Hf). reflexivity.
  Qed.
End DV.

Definition pend (c : conn) : list cb := flat_map snd (c_pcbs c).
Lemma pids_vals (d : list (Z * list cb)) : pids (flat_map snd d) = dv pids d.
Proof. induction d as [|[k v] d IH]; [reflexivity|]. cbn. rewrite pids_app, IH. reflexivity. Qed.
Lemma vals_ddel_In {A} k (d : list (Z * list A)) x : In x (flat_map snd (ddel k d)) -> In x (flat_map snd d).
Proof.
  intros H. apply in_flat_map in H as (p & Hp & Hx). apply in_flat_map. exists p. split; [|exact Hx].
  apply ddel_In in Hp as [Hp _]. exact Hp.
Qed.
Lemma vals_dset_In {A} k v (d : list (Z * list A)) x : In x (flat_map snd (dset k v d)) -> In x v \/ In x (flat_map snd d).
Proof.
  intros H. apply in_flat_map in H as (p & Hp & Hx). apply dset_In in Hp as [->|Hp]; [left; exact Hx|].
  right. apply in_flat_map. exists p. split; assumption.
Qed.
Lemma vals_dget_In {A} k (d : list (Z * list A)) v x : dget k d = Some v -> In x v -> In x (flat_map snd d).
Proof. intros H Hx. apply in_flat_map. exists (k, v). split; [exact (dget_In _ _ _ H)|exact Hx]. Qed.

(* ---------- the view and the invariant ---------- *)
Record view := { v_out : list pmsg; v_prm : list (Z * pmsg); v_pf : list (Z * fsender);
                 v_done : list Z; v_rid : Z }.
Definition vw (c : conn) : view :=
  {| v_out := c_outgoing c; v_prm := c_pretry_msg c; v_pf := c_pfrags c; v_done := c_done c; v_rid := c_next_rid c |}.

Definition plain (X : list cb) (v : view) : list Z := pids X ++ pids (mcbs (v_out v)) ++ fids (v_pf v).
Definition allcb (X : list cb) (v : view) : list cb := X ++ mcbs (v_out v) ++ mcbs (map snd (v_prm v)).

Record Inv (X : list cb) (v : view) : Prop := {
  i_nodup : NoDup (plain X v);
  i_prm : pids (mcbs (map snd (v_prm v))) = [];
  i_out : Forall mok (v_out v);
  i_rid : forall rid id, In (rid, id) (rps (allcb X v)) -> rid < v_rid v /\ ~ In id (plain X v);
  i_uniq : forall rid id rid' id', In (rid, id) (rps (allcb X v)) -> In (rid', id') (rps (allcb X v)) ->
                                   (rid = rid' <-> id = id') }.

(* an id that some stored callback mentions / that can still be reported *)
Definition Known (X : list cb) (v : view) (id : Z) : Prop :=
  In id (plain X v) \/ exists rid, In (rid, id) (rps (allcb X v)).
Definition Live (X : list cb) (v : view) (id : Z) : Prop :=
  In id (plain X v) \/ exists rid, In (rid, id) (rps (allcb X v)) /\ zmem rid (v_done v) = false.
Lemma Live_Known X v id : Live X v id -> Known X v id.
Proof. intros [H|(rid & H & _)]; [left; exact H|right; exists rid; exact H]. Qed.

Definition fired (o : list out) : list Z :=
  flat_map (fun x => match x with OCallback id _ => [id] | _ => [] end) o.
Lemma fired_app a b : fired (a ++ b) = fired a ++ fired b. Proof. apply flat_map_app. Qed.
Lemma fired_none o : (forall id b, ~ In (OCallback id b) o) -> fired o = [].
Proof.
  induction o as [|x o IH]; intros H; [reflexivity|].
  change (fired (x :: o)) with (match x with OCallback id _ => [id] | _ => [] end ++ fired o).
  rewrite IH by (intros id b Hin; apply (H id b); right; exact Hin).
  destruct x; try reflexivity. exfalso. apply (H id ok). left. reflexivity.
Qed.
Lemma fired_In id o : In id (fired o) <-> exists b, In (OCallback id b) o.
Proof.
  unfold fired. rewrite in_flat_map. split.
  - intros (x & Hx & Hid). destruct x; cbn in Hid; try contradiction. destruct Hid as [<-|[]]. eauto.
  - intros (b & H). eexists. split; [exact H|]. left. reflexivity.
Qed.

(* the step relation: ids = callback ids handed over by the application in this step *)
Definition St (ids : list Z) (X : list cb) (v : view) (X' : list cb) (v' : view) (o : list out) : Prop :=
  Inv X v -> NoDup ids -> (forall id, In id ids -> ~ Known X v id) ->
  Inv X' v' /\ NoDup (fired o) /\
  (forall id, In id (fired o) -> Live X v id \/ In id ids) /\
  (forall id, Live X' v' id -> (Live X v id \/ In id ids) /\ ~ In id (fired o)) /\
  (forall id, Known X' v' id -> Known X v id \/ In id ids).

Lemma St_comp i1 i2 X v X1 v1 X2 v2 o1 o2 :
  St i1 X v X1 v1 o1 -> St i2 X1 v1 X2 v2 o2 -> St (i1 ++ i2) X v X2 v2 (o1 ++ o2).
Proof.
  intros S1 S2 HI ND Fr.
  destruct S1 as (I1 & N1 & F1 & L1 & K1); [exact HI|exact (proj1 (proj1 (NoDup_app_iff _ _) ND))|
    intros id Hid; apply Fr; apply in_or_app; left; exact Hid|].
  assert (Hdisj : forall id, In id i1 -> In id i2 -> False).
  { exact (proj2 (proj2 (proj1 (NoDup_app_iff _ _) ND))). }
  destruct S2 as (I2 & N2 & F2 & L2 & K2); [exact I1|exact (proj1 (proj2 (proj1 (NoDup_app_iff _ _) ND)))| |].
  { intros id Hid HK. destruct (K1 id HK) as [H|H]; [|exact (Hdisj id H Hid)].
    apply (Fr id); [apply in_or_app; right; exact Hid|exact H]. }
  assert (Hf1 : forall id, In id (fired o1) -> In id i2 -> False).
  { intros id H1 H2. destruct (F1 id H1) as [H|H]; [|exact (Hdisj id H H2)].
    apply (Fr id); [apply in_or_app; right; exact H2|apply Live_Known; exact H]. }
  split; [exact I2|]. split; [|split; [|split]].
  - rewrite fired_app. apply NoDup_app_iff. split; [exact N1|]. split; [exact N2|].
    intros id H1 H2. destruct (F2 id H2) as [H|H]; [exact (proj2 (L1 id H) H1)|exact (Hf1 id H1 H)].
  - intros id Hid. rewrite fired_app in Hid. apply in_app_or in Hid as [H|H].
    + destruct (F1 id H); [left; assumption|right; apply in_or_app; left; assumption].
    + destruct (F2 id H) as [H'|H']; [|right; apply in_or_app; right; exact H'].
      destruct (proj1 (L1 id H')); [left; assumption|right; apply in_or_app; left; assumption].
  - intros id HL. destruct (L2 id HL) as [H Hn2]. rewrite fired_app. split.
    + destruct H as [H|H]; [|right; apply in_or_app; right; exact H].
      destruct (proj1 (L1 id H)); [left; assumption|right; apply in_or_app; left; assumption].
    + intros Hin. apply in_app_or in Hin as [Hin|Hin]; [|exact (Hn2 Hin)].
      destruct H as [H|H]; [exact (proj2 (L1 id H) Hin)|exact (Hf1 id Hin H)].
  - intros id HK. destruct (K2 id HK) as [H|H]; [|right; apply in_or_app; right; exact H].
    destruct (K1 id H); [left; assumption|right; apply in_or_app; left; assumption].
Qed.

(* ---------- silent steps: nothing added, nothing reported ---------- *)
Record Shrink (X : list cb) (v : view) (X' : list cb) (v' : view) : Prop := {
  sh_plain : msub (plain X' v') (plain X v);
  sh_all : incl (allcb X' v') (allcb X v);
  sh_prm : pids (mcbs (map snd (v_prm v'))) = [];
  sh_out : Forall mok (v_out v');
  sh_rid : v_rid v <= v_rid v';
  sh_done : forall r, zmem r (v_done v) = true -> zmem r (v_done v') = true }.

Lemma Inv_shrink X v X' v' : Inv X v -> Shrink X v X' v' ->
  Inv X' v' /\ (forall id, Live X' v' id -> Live X v id) /\ (forall id, Known X' v' id -> Known X v id).
Proof.
  intros [N P O R U] [S1 S2 S3 S4 S5 S6]. pose proof (rps_incl _ _ S2) as S2'. split; [|split].
  - constructor; [eapply sub_NoDup; eassumption|exact S3|exact S4| |].
    + intros rid id H. destruct (R rid id (S2' _ H)) as [A B]. split; [lia|]. intros Hin. apply B. eapply sub_In; eassumption.
    + intros rid id rid' id' H H'. apply U; apply S2'; assumption.
  - intros id [H|(rid & H & Hd)]; [left; eapply sub_In; eassumption|right]. exists rid. split; [apply S2'; exact H|].
    destruct (zmem rid (v_done v)) eqn:E; [|reflexivity]. rewrite (S6 _ E) in Hd. discriminate.
  - intros id [H|(rid & H)]; [left; eapply sub_In; eassumption|right]. exists rid. apply S2'. exact H.
Qed.

Lemma St_shrink X v X' v' o : fired o = [] -> (Inv X v -> Shrink X v X' v') -> St [] X v X' v' o.
Proof.
  intros Hf HS HI _ _. destruct (Inv_shrink _ _ _ _ HI (HS HI)) as (I' & L & K). rewrite Hf.
  split; [exact I'|]. split; [constructor|]. split; [intros id []|]. split.
  - intros id H. split; [left; apply L; exact H|intros []].
  - intros id H. left. apply K. exact H.
Qed.

Lemma St_refl X v : St [] X v X v [].
Proof.
  apply St_shrink; [reflexivity|]. intros [N P O R U]. constructor; auto; try lia; [apply sub_refl|apply incl_refl].
Qed.

Lemma St_seq X v X1 v1 X2 v2 o1 o2 : St [] X v X1 v1 o1 -> St [] X1 v1 X2 v2 o2 -> St [] X v X2 v2 (o1 ++ o2).
Proof. intros A B. exact (St_comp [] [] _ _ _ _ _ _ _ _ A B). Qed.

(* one callback reported: it was live before and is dead afterwards *)
Lemma St_fire X v X' v' id b :
  (Inv X v -> Shrink X v X' v' /\ Live X v id /\ ~ Live X' v' id) -> St [] X v X' v' [OCallback id b].
Proof.
  intros H HI _ _. destruct (H HI) as (HS & L0 & L1).
  destruct (Inv_shrink _ _ _ _ HI HS) as (I' & L & K).
  split; [exact I'|]. split; [repeat constructor; intros []|]. split; [|split].
  - intros id' [<-|[]]. left. exact L0.
  - intros id' H'. split; [left; apply L; exact H'|]. intros [<-|[]]. exact (L1 H').
  - intros id' H'. left. apply K. exact H'.
Qed.

Definition v_set_pf (v : view) pf : view :=
  {| v_out := v_out v; v_prm := v_prm v; v_pf := pf; v_done := v_done v; v_rid := v_rid v |}.
Definition v_set_done (v : view) dn : view :=
  {| v_out := v_out v; v_prm := v_prm v; v_pf := v_pf v; v_done := dn; v_rid := v_rid v |}.
Definition v_set_out (v : view) q : view :=
  {| v_out := q; v_prm := v_prm v; v_pf := v_pf v; v_done := v_done v; v_rid := v_rid v |}.

Lemma Shrink_drop k X v : Inv (k :: X) v -> Shrink (k :: X) v X v.
Proof.
  intros [N P O R U]. constructor; auto; try lia.
  - unfold plain. change (pids (k :: X)) with (pid k ++ pids X). subs.
  - unfold allcb. intros x Hx. right. exact Hx.
Qed.

Lemma St_user X v id b : St [] (Plain (IUser id) :: X) v X v [OCallback id b].
Proof.
  apply St_fire. intros HI. split; [apply Shrink_drop; exact HI|]. split; [left; left; reflexivity|].
  destruct HI as [N P O R U]. intros [H|(rid & H & _)].
  - change (plain (Plain (IUser id) :: X) v) with (id :: plain X v) in N. inversion N; auto.
  - assert (H' : In (rid, id) (rps (allcb (Plain (IUser id) :: X) v))) by exact H.
    apply R in H' as [_ H']. apply H'. left. reflexivity.
Qed.

Lemma fids_dv pf : fids pf = dv (fun fs => uid (fs_ucb fs)) pf. Proof. reflexivity. Qed.

Lemma St_frag X v fid fs id b : dget fid (v_pf v) = Some fs -> fs_ucb fs = IUser id ->
  St [] X v X (v_set_pf v (ddel fid (v_pf v))) [OCallback id b].
Proof.
  intros Hg Hu. apply St_fire. intros [N P O R U].
  assert (Hs : msub ([id] ++ fids (ddel fid (v_pf v))) (fids (v_pf v))).
  { pose proof (dv_get_del (fun fs => uid (fs_ucb fs)) _ _ _ Hg) as Hs. cbn beta in Hs. rewrite Hu in Hs. exact Hs. }
  split; [|split].
  - constructor; cbn; auto; try lia; [|apply incl_refl]. unfold plain. cbn [v_set_pf v_out v_pf]. subs.
  - left. unfold plain. apply in_or_app. right. apply in_or_app. right. eapply sub_In; [exact Hs|]. left. reflexivity.
  - intros [H|(rid & H & _)].
    + rewrite NoDup_cnt in N. specialize (N id). apply cnt_In in H. unfold plain in *. cbn [v_set_pf v_out v_pf] in H.
      specialize (Hs id). rewrite !cnt_app in *. change (cnt [id] id) with (if Z.eq_dec id id then 1%nat else 0%nat) in Hs.
      destruct (Z.eq_dec id id); [lia|congruence].
    + apply (R rid id H). unfold plain. apply in_or_app. right. apply in_or_app. right. eapply sub_In; [exact Hs|]. left. reflexivity.
Qed.

Lemma zmem_cons r x l : zmem r (x :: l) = (r =? x) || zmem r l. Proof. reflexivity. Qed.

Lemma St_retry X v rid mseq ty p id : zmem rid (v_done v) = false ->
  St [] (Retry rid mseq ty p (IUser id) :: X) v X (v_set_done v (rid :: v_done v)) [OCallback id true].
Proof.
  intros Hd. apply St_fire. intros HI. pose proof (Shrink_drop _ _ _ HI) as [S1 S2 S3 S4 S5 S6].
  destruct HI as [N P O R U].
  assert (Hh : In (rid, id) (rps (allcb (Retry rid mseq ty p (IUser id) :: X) v))) by (left; reflexivity).
  split; [|split].
  - constructor; auto. cbn [v_set_done v_done]. intros r Hr. rewrite zmem_cons, Hr. apply orb_true_r.
  - right. exists rid. split; [exact Hh|exact Hd].
  - intros [H|(rid' & H & Hd')].
    + apply (proj2 (R _ _ Hh)). exact H.
    + assert (H' : In (rid', id) (rps (allcb (Retry rid mseq ty p (IUser id) :: X) v))) by (right; exact H).
      assert (rid' = rid) as -> by (apply (U rid' id rid id H' Hh); reflexivity).
      cbn [v_set_done v_done] in Hd'. rewrite zmem_cons, Z.eqb_refl in Hd'. discriminate.
Qed.

Lemma St_silent X v o : fired o = [] -> St [] X v X v o.
Proof.
  intros Hf. apply St_shrink; [exact Hf|]. intros [N P O R U]. constructor; auto; try lia; [apply sub_refl|apply incl_refl].
Qed.

Lemma Shrink_pf X v pf' : msub (fids pf') (fids (v_pf v)) -> Inv X v -> Shrink X v X (v_set_pf v pf').
Proof.
  intros Hs [N P O R U]. constructor; cbn; auto; try lia; [|apply incl_refl].
  unfold plain. cbn [v_set_pf v_out v_pf]. subs.
Qed.

Lemma Shrink_done k X v dn : (forall r, zmem r (v_done v) = true -> zmem r dn = true) ->
  Inv (k :: X) v -> Shrink (k :: X) v X (v_set_done v dn).
Proof.
  intros Hd HI. destruct (Shrink_drop _ _ _ HI) as [S1 S2 S3 S4 S5 S6]. constructor; auto.
Qed.

Lemma Shrink_requeue X v rid mseq ty p i m :
  m_cb m = Some (Retry rid mseq ty p i) ->
  Inv (Retry rid mseq ty p i :: X) v -> Shrink (Retry rid mseq ty p i :: X) v X (v_set_out v (v_out v ++ [m])).
Proof.
  intros Hm [N P O R U]. constructor; cbn [v_set_out v_out v_prm v_pf v_rid v_done]; auto; try lia.
  - unfold plain. cbn [v_set_out v_out v_pf]. rewrite mcbs_app, pids_app.
    assert (pids (mcbs [m]) = []) as -> by (cbn; rewrite Hm; reflexivity).
    change (pids (Retry rid mseq ty p i :: X)) with (pids X). subs.
  - unfold allcb. cbn [v_set_out v_out v_prm]. rewrite mcbs_app. intros x Hx.
    apply in_app_or in Hx as [Hx|Hx]; [right; apply in_or_app; left; exact Hx|].
    apply in_app_or in Hx as [Hx|Hx]; [|right; apply in_or_app; right; apply in_or_app; right; exact Hx].
    apply in_app_or in Hx as [Hx|Hx]; [right; apply in_or_app; right; apply in_or_app; left; exact Hx|].
    cbn in Hx. rewrite Hm in Hx. destruct Hx as [<-|[]]. left. reflexivity.
  - apply Forall_app. split; [exact O|]. constructor; [|constructor]. intros _. rewrite Hm. reflexivity.
Qed.

(* ---------- the callback machinery ---------- *)
Lemma fire_icb_St c i ok c' o X : fire_icb c i ok = (c', o) -> (forall id, i <> IUser id) ->
  St [] X (vw c) X (vw c') o /\ c_pcbs c' = c_pcbs c.
Proof.
  unfold fire_icb. intros E Hi. destruct i as [|id|fid idx| | |].
  - injection E as <- <-. split; [apply St_refl|reflexivity].
  - exfalso. exact (Hi id eq_refl).
  - destruct (dget fid (c_pfrags c)) as [fs|] eqn:Eg; [|injection E as <- <-; split; [apply St_refl|reflexivity]].
    destruct (forallb is_some _).
    + injection E as <- <-. split; [|reflexivity]. destruct (fs_ucb fs) as [|id| | | |] eqn:Eu;
        try (apply St_shrink; [reflexivity|]; intros HI; apply (Shrink_pf X (vw c)); [apply (dv_ddel (fun fs => uid (fs_ucb fs)))|exact HI]).
      exact (St_frag X (vw c) fid fs id _ Eg Eu).
    + injection E as <- <-. split; [|reflexivity]. apply St_shrink; [reflexivity|]. intros HI.
      apply (Shrink_pf X (vw c)); [|exact HI]. cbn [vw v_pf].
      match goal with |- context [c_pfrags (?c0 <| c_pfrags := ?d |>)] => change (c_pfrags (c0 <| c_pfrags := d |>)) with d end.
      rewrite !fids_dv.
      rewrite (dv_dset_same (fun fs => uid (fs_ucb fs)) fid fs _ _ Eg) by reflexivity. apply sub_refl.
  - injection E as <- <-. split; [apply St_silent; destruct ok; reflexivity|reflexivity].
  - injection E as <- <-. split; [apply St_silent; destruct ok; reflexivity|reflexivity].
  - injection E as <- <-. split; [apply St_silent; reflexivity|reflexivity].
Qed.

Lemma St_drop k X v : St [] (k :: X) v X v [].
Proof. apply St_shrink; [reflexivity|apply Shrink_drop]. Qed.

Lemma icb_cases i : (exists id, i = IUser id) \/ forall id, i <> IUser id.
Proof. destruct i; try (right; intros; discriminate). left. eauto. Qed.

Lemma fire_cb_St c k ok c' o X : fire_cb c k ok = (c', o) ->
  St [] (k :: X) (vw c) X (vw c') o /\ c_pcbs c' = c_pcbs c.
Proof.
  unfold fire_cb. intros E. destruct k as [i|rid mseq ty p i].
  - destruct (icb_cases i) as [(id & ->)|Hi].
    + cbn in E. injection E as <- <-. split; [apply St_user|reflexivity].
    + destruct (fire_icb_St _ _ _ _ _ X E Hi) as [A B]. split; [|exact B].
      exact (St_seq _ _ _ _ _ _ _ _ (St_drop _ X (vw c)) A).
  - destruct (zmem rid (c_done c)) eqn:Ed; [injection E as <- <-; split; [apply St_drop|reflexivity]|].
    destruct ok; cbn [negb] in E.
    + destruct (icb_cases i) as [(id & ->)|Hi].
      * cbn in E. injection E as <- <-. split; [|reflexivity]. exact (St_retry X (vw c) rid mseq ty p id Ed).
      * destruct (fire_icb_St _ _ _ _ _ X E Hi) as [A B]. split; [|exact B].
        change o with ([] ++ o). refine (St_seq _ _ _ _ _ _ _ _ _ A). apply St_shrink; [reflexivity|]. intros HI.
        apply (Shrink_done _ X (vw c)); [|exact HI]. intros r Hr.
        change (zmem r (rid :: c_done c) = true). change (zmem r (c_done c) = true) in Hr. rewrite zmem_cons, Hr. apply orb_true_r.
    + injection E as <- <-. split; [|reflexivity]. apply St_shrink; [reflexivity|]. intros HI.
      apply (Shrink_requeue X (vw c)); [reflexivity|exact HI].
Qed.

Lemma fire_all_St ks : forall c ok c' o X, fire_all c ks ok = (c', o) ->
  St [] (ks ++ X) (vw c) X (vw c') o /\ c_pcbs c' = c_pcbs c.
Proof.
  induction ks as [|k ks IH]; intros c ok c' o X E; cbn [fire_all] in E.
  - injection E as <- <-. split; [apply St_refl|reflexivity].
  - destruct (fire_cb c k ok) as [c1 o1] eqn:E1. destruct (fire_all c1 ks ok) as [c2 o2] eqn:E2.
    injection E as <- <-. destruct (fire_cb_St _ _ _ _ _ (ks ++ X) E1) as [A1 B1].
    destruct (IH _ _ _ _ X E2) as [A2 B2]. split; [|congruence].
    exact (St_seq _ _ _ _ _ _ _ _ A1 A2).
Qed.

Definition Sc (ids : list Z) (c c' : conn) (o : list out) : Prop := St ids (pend c) (vw c) (pend c') (vw c') o.

Lemma Sc_seq c c1 c2 o1 o2 : Sc [] c c1 o1 -> Sc [] c1 c2 o2 -> Sc [] c c2 (o1 ++ o2).
Proof. apply St_seq. Qed.
Lemma Sc_same c c' o : vw c' = vw c -> c_pcbs c' = c_pcbs c -> fired o = [] -> Sc [] c c' o.
Proof. intros Hv Hp Hf. unfold Sc, pend. rewrite Hv, Hp. apply St_silent. exact Hf. Qed.

Lemma fold_ddel_In {A} ms : forall (d : list (Z * A)) x, In x (fold_left (fun d m => ddel m d) ms d) -> In x d.
Proof.
  induction ms as [|m ms IH]; intros d x H; [exact H|]. cbn [fold_left] in H. apply IH in H. apply ddel_In in H as [H _]. exact H.
Qed.

Lemma Shrink_prm X v prm' : incl prm' (v_prm v) -> Inv X v ->
  Shrink X v X {| v_out := v_out v; v_prm := prm'; v_pf := v_pf v; v_done := v_done v; v_rid := v_rid v |}.
Proof.
  intros Hi [N P O R U].
  assert (Hm : incl (mcbs (map snd prm')) (mcbs (map snd (v_prm v)))) by (apply mcbs_incl, incl_map; exact Hi).
  constructor; cbn; auto; try lia; [apply sub_refl| |exact (pids_nil_incl _ _ Hm P)].
  unfold allcb. cbn. apply incl_app; [apply incl_appl, incl_refl|]. apply incl_appr.
  apply incl_app; [apply incl_appl, incl_refl|apply incl_appr; exact Hm].
Qed.

Lemma resolve_Sc ok c s c' o : resolve ok c s = (c', o) -> Sc [] c c' o.
Proof.
  unfold resolve. intros E. set (c0 := if ok then _ else _) in E.
  assert (H0 : vw c0 = vw c /\ c_pcbs c0 = c_pcbs c) by (subst c0; destruct ok; split; reflexivity).
  destruct H0 as [Hv0 Hp0].
  match type of E with (let '(c, o) := ?x in _) = _ => destruct x as [c1 o1] eqn:E1 end.
  assert (H1 : Sc [] c c1 o1).
  { destruct (dget s (c_pcbs c0)) as [ks|] eqn:Eg.
    - destruct (fire_all c0 ks ok) as [c2 o2] eqn:E2. injection E1 as <- <-.
      set (Xr := flat_map snd (ddel s (c_pcbs c0))).
      destruct (fire_all_St _ _ _ _ _ Xr E2) as [A B].
      unfold Sc. rewrite <- Hv0. replace (pend c) with (pend c0) by (unfold pend; rewrite Hp0; reflexivity).
      assert (Hp : pend (c2 <| c_pcbs := ddel s (c_pcbs c2) |>) = Xr) by (unfold pend; cbn [c_pcbs]; rewrite B; reflexivity).
      rewrite Hp. change (vw (c2 <| c_pcbs := ddel s (c_pcbs c2) |>)) with (vw c2).
      change o2 with ([] ++ o2). apply St_seq with (X1 := ks ++ Xr) (v1 := vw c0); [|exact A].
      apply St_shrink; [reflexivity|]. intros [N P O R U]. constructor; auto; try lia.
      + unfold plain, pend, Xr. rewrite pids_app, !pids_vals. pose proof (dv_get_del pids _ _ _ Eg) as Hs. subs.
      + unfold allcb, pend, Xr. apply incl_app; [|apply incl_appr, incl_refl]. apply incl_appl.
        intros x Hx. apply in_app_or in Hx as [Hx|Hx]; [exact (vals_dget_In _ _ _ _ Eg Hx)|exact (vals_ddel_In _ _ _ Hx)].
    - injection E1 as <- <-. apply Sc_same; auto. }
  injection E as <- <-. rewrite <- (app_nil_r o1). refine (Sc_seq _ _ _ _ _ H1 _).
  destruct (dget s (c_pretry c1)) as [mseqs|]; [|apply Sc_same; reflexivity].
  unfold Sc. apply St_shrink; [reflexivity|]. intros HI.
  refine (Shrink_prm _ (vw c1) _ _ HI). intros x Hx. exact (fold_ddel_In _ _ _ Hx).
Qed.

Lemma St_out X v X' v' ids o o' : fired o' = fired o -> St ids X v X' v' o -> St ids X v X' v' o'.
Proof. unfold St. intros ->. auto. Qed.

Lemma St_weaken ids X v X' v' o : St [] X v X' v' o -> St ids X v X' v' o.
Proof.
  intros S HI _ _. destruct S as (I' & N & F & L & K); [exact HI|constructor|intros ? []|].
  split; [exact I'|]. split; [exact N|]. split; [|split].
  - intros id H. destruct (F id H) as [H'|[]]. left. exact H'.
  - intros id H. destruct (L id H) as [[H'|[]] H2]. split; [left; exact H'|exact H2].
  - intros id H. destruct (K id H) as [H'|[]]. left. exact H'.
Qed.

Lemma ack_loop_Sc h snap : forall c c' o, ack_loop c h snap = (c', o) -> Sc [] c c' o.
Proof.
  induction snap as [|[s t] r IH]; intros c c' o E; cbn [ack_loop] in E.
  - injection E as <- <-. apply St_refl.
  - dpair E c1 o1 E1. destruct (ack_loop c1 h r) as [c2 o2] eqn:E2. injection E as <- <-.
    apply Sc_seq with (c1 := c1); [|apply IH; exact E2].
    destruct (hdr_acks _ _ s); [eapply resolve_Sc; eassumption|].
    destruct (_ >? _); [eapply resolve_Sc; eassumption|]. injection E1 as <- <-. apply St_refl.
Qed.

Lemma timeout_loop_Sc strict now snap : forall c c' o, timeout_loop strict c now snap = (c', o) -> Sc [] c c' o.
Proof.
  induction snap as [|[s t] r IH]; intros c c' o E; cbn [timeout_loop] in E.
  - injection E as <- <-. apply St_refl.
  - dpair E c1 o1 E1. destruct (timeout_loop strict c1 now r) as [c2 o2] eqn:E2. injection E as <- <-.
    apply Sc_seq with (c1 := c1); [|apply IH; exact E2].
    match type of E1 with (if ?b then _ else _) = _ => destruct b end;
      [eapply resolve_Sc; eassumption|injection E1 as <- <-; apply St_refl].
Qed.

(* ---------- growing: the application hands over a callback ---------- *)
Lemma St_grow_plain ids X v X' v' :
  msub (plain X' v') (plain X v ++ ids) -> incl (rps (allcb X' v')) (rps (allcb X v)) ->
  (Inv X v -> pids (mcbs (map snd (v_prm v'))) = [] /\ Forall mok (v_out v')) ->
  v_rid v <= v_rid v' -> (forall r, zmem r (v_done v) = true -> zmem r (v_done v') = true) ->
  St ids X v X' v' [].
Proof.
  intros S1 S2 S34 S5 S6 HI ND Fr. destruct (S34 HI) as [S3 S4]. destruct HI as [N P O R U].
  assert (Hpl : forall id, In id (plain X' v') -> In id (plain X v) \/ In id ids).
  { intros id H. apply in_app_or. eapply sub_In; eassumption. }
  split; [|split; [constructor|split; [intros ? []|split]]].
  - constructor; [|exact S3|exact S4| |].
    + eapply sub_NoDup; [exact S1|]. apply NoDup_app_iff. split; [exact N|]. split; [exact ND|].
      intros x H1 H2. apply (Fr x H2). left. exact H1.
    + intros rid id H. apply S2 in H. destruct (R rid id H) as [A B]. split; [lia|]. intros Hin.
      destruct (Hpl id Hin) as [H'|H']; [exact (B H')|]. apply (Fr id H'). right. exists rid. exact H.
    + intros rid id rid' id' H H'. apply U; apply S2; assumption.
  - intros id H. split; [|intros []]. destruct H as [H|(rid & H & Hd)].
    + destruct (Hpl id H); [left; left; assumption|right; assumption].
    + left. right. exists rid. split; [apply S2; exact H|].
      destruct (zmem rid (v_done v)) eqn:E; [|reflexivity]. rewrite (S6 _ E) in Hd. discriminate.
  - intros id [H|(rid & H)].
    + destruct (Hpl id H); [left; left; assumption|right; assumption].
    + left. right. exists rid. apply S2. exact H.
Qed.

Lemma St_grow_retry id X v X' v' :
  msub (plain X' v') (plain X v) ->
  (forall pr, In pr (rps (allcb X' v')) -> In pr (rps (allcb X v)) \/ pr = (v_rid v, id)) ->
  (Inv X v -> pids (mcbs (map snd (v_prm v'))) = [] /\ Forall mok (v_out v')) ->
  v_rid v < v_rid v' -> (forall r, zmem r (v_done v) = true -> zmem r (v_done v') = true) ->
  St [id] X v X' v' [].
Proof.
  intros S1 S2 S34 S5 S6 HI ND Fr. destruct (S34 HI) as [S3 S4]. destruct HI as [N P O R U].
  assert (Fr' : ~ Known X v id) by (apply Fr; left; reflexivity).
  split; [|split; [constructor|split; [intros ? []|split]]].
  - constructor; [|exact S3|exact S4| |].
    + eapply sub_NoDup; eassumption.
    + intros rid id' H. destruct (S2 _ H) as [H'|H'].
      * destruct (R rid id' H') as [A B]. split; [lia|]. intros Hin. apply B. eapply sub_In; eassumption.
      * injection H' as -> ->. split; [lia|]. intros Hin. apply Fr'. left. eapply sub_In; eassumption.
    + intros rid id1 rid' id2 H H'. destruct (S2 _ H) as [A|A], (S2 _ H') as [B|B].
      * apply U; assumption.
      * injection B as -> ->. destruct (R _ _ A) as [A1 _]. split; [lia|]. intros ->. exfalso. apply Fr'. right. eauto.
      * injection A as -> ->. destruct (R _ _ B) as [B1 _]. split; [lia|]. intros <-. exfalso. apply Fr'. right. eauto.
      * injection A as -> ->. injection B as -> ->. split; reflexivity.
  - intros id' H. split; [|intros []]. destruct H as [H|(rid & H & Hd)].
    + left. left. eapply sub_In; eassumption.
    + destruct (S2 _ H) as [H'|H']; [|injection H' as -> ->; right; left; reflexivity].
      left. right. exists rid. split; [exact H'|].
      destruct (zmem rid (v_done v)) eqn:E; [|reflexivity]. rewrite (S6 _ E) in Hd. discriminate.
  - intros id' [H|(rid & H)].
    + left. left. eapply sub_In; eassumption.
    + destruct (S2 _ H) as [H'|H']; [|injection H' as -> ->; right; left; reflexivity].
      left. right. exists rid. exact H'.
Qed.

Lemma mcbs_snoc q m : mcbs (q ++ [m]) = mcbs q ++ olist (m_cb m).
Proof. rewrite mcbs_app. cbn. rewrite app_nil_r. reflexivity. Qed.

Lemma uid_nil i : (forall id, i <> IUser id) -> uid i = [].
Proof. destruct i; intros H; try reflexivity. exfalso. exact (H id eq_refl). Qed.

Lemma Inv_keep_prm_out X v : Inv X v -> forall m, mok m ->
  pids (mcbs (map snd (v_prm v))) = [] /\ Forall mok (v_out v ++ [m]).
Proof. intros [N P O R U] m Hm. split; [exact P|]. apply Forall_app. split; [exact O|]. constructor; [exact Hm|constructor]. Qed.

Lemma send_type_Sc c ty p r k : (r = RBest -> uid k = []) -> Sc (uid k) c (send_type c ty p r k) [].
Proof.
  intros Hb. unfold Sc, send_type. set (mseq := seq_succ (c_seq_msg c)).
  assert (Hplain : mk_cb r k (c_next_rid c) mseq ty p = match k with INone => None | _ => Some (Plain k) end \/
                   mk_cb r k (c_next_rid c) mseq ty p = Some (Retry (c_next_rid c) mseq ty p k) /\ r = RTimeout).
  { destruct r; [left|left|right]; auto. }
  set (m := {| m_seq := mseq; m_type := ty; m_payload := p; m_cb := mk_cb r k (c_next_rid c) mseq ty p; m_retry := r; m_atime := 0 |}).
  unfold pend. cbn [c_pcbs vw c_outgoing c_pretry_msg c_pfrags c_done c_next_rid set].
  match goal with |- St _ _ _ ?X' ?v' _ => change X' with (flat_map snd (c_pcbs c));
    change v' with {| v_out := c_outgoing c ++ [m]; v_prm := c_pretry_msg c; v_pf := c_pfrags c; v_done := c_done c;
                      v_rid := match r with RTimeout => c_next_rid c + 1 | _ => c_next_rid c end |} end.
  destruct Hplain as [Hm|[Hm Hr]].
  - (* plain callback *)
    assert (Hp : pids (olist (m_cb m)) = uid k) by (cbn [m m_cb]; rewrite Hm; destruct k; reflexivity).
    assert (Hq : rps (olist (m_cb m)) = []) by (cbn [m m_cb]; rewrite Hm; destruct k; reflexivity).
    apply St_grow_plain.
    + unfold plain. cbn [v_out v_pf vw]. rewrite mcbs_snoc, pids_app, Hp. subs.
    + unfold allcb. cbn [v_out v_prm vw]. rewrite mcbs_snoc, !rps_app, Hq, app_nil_r, <- !rps_app. apply incl_refl.
    + intros HI. apply (Inv_keep_prm_out _ (vw c) HI m). intros Hn. rewrite Hp. apply Hb.
      cbn [m m_retry] in Hn. destruct r; try reflexivity; try contradiction. discriminate Hm || (exfalso; clear - Hm; destruct k; discriminate).
    + cbn. destruct r; lia.
    + auto.
  - (* RetrySender *)
    assert (Hp : pids (olist (m_cb m)) = []) by (cbn [m m_cb]; rewrite Hm; reflexivity).
    assert (Hmok : mok m) by (intros _; exact Hp).
    subst r. destruct (icb_cases k) as [(id & ->)|Hi].
    + apply St_grow_retry.
      * unfold plain. cbn [v_out v_pf vw]. rewrite mcbs_snoc, pids_app, Hp. subs.
      * unfold allcb. cbn [v_out v_prm vw v_rid]. rewrite mcbs_snoc. intros pr. rewrite !rps_app, !in_app_iff.
        cbn [m m_cb]. rewrite Hm. cbn [olist rps flat_map rp app In]. intuition (subst; auto).
      * intros HI. exact (Inv_keep_prm_out _ (vw c) HI m Hmok).
      * cbn. lia.
      * auto.
    + rewrite (uid_nil _ Hi). apply St_grow_plain.
      * unfold plain. cbn [v_out v_pf vw]. rewrite mcbs_snoc, pids_app, Hp. subs.
      * unfold allcb. cbn [v_out v_prm vw]. rewrite mcbs_snoc, !rps_app.
        assert (rps (olist (m_cb m)) = []) as -> by (cbn [m m_cb]; rewrite Hm; destruct k; try reflexivity; exfalso; exact (Hi id eq_refl)).
        rewrite app_nil_r, <- !rps_app. apply incl_refl.
      * intros HI. exact (Inv_keep_prm_out _ (vw c) HI m Hmok).
      * cbn. lia.
      * auto.
Qed.

Lemma send_type_Sc0 c ty p r k : (forall id, k <> IUser id) -> Sc [] c (send_type c ty p r k) [].
Proof. intros Hi. rewrite <- (uid_nil _ Hi). apply send_type_Sc. intros _. apply uid_nil. exact Hi. Qed.

Lemma send_frags_Sc frags : forall c fid n r i, Sc [] c (send_frags c fid n r i frags) [].
Proof.
  induction frags as [|f rest IH]; intros c fid n r i; cbn [send_frags]; [apply St_refl|].
  change (@nil out) with (@nil out ++ []). eapply Sc_seq; [|apply IH]. apply send_type_Sc0. intros; discriminate.
Qed.

(* the application's side: which id an event hands over, and the one restriction on events *)
Definition ev_ids (x : ev) : list Z :=
  match x with ESend _ _ k => uid k | EDisconnect k => uid k | _ => [] end.
(* a best-effort (RBest) send that fits one datagram copies its plain callback into the re-send
   store: its callback may fire once per transmitted copy (see OnceP.best_effort_twice) *)
Definition ev_ok (e : env) (x : ev) : Prop :=
  match x with
  | ESend p RBest (IUser _) => len p >? e_max_payload e = true
  | _ => True
  end.

Lemma send_Sc e c p r k c' o : ev_ok e (ESend p r k) -> send e c p r k = (c', o) -> Sc (uid k) c c' o.
Proof.
  intros Hok E. unfold send in E.
  destruct (negb _); [injection E as <- <-; apply St_weaken, St_refl|].
  destruct (len p >? e_max_payload e) eqn:Ep.
  - cbv zeta in E. set (c1 := c <| c_seq_frag := seq_succ (c_seq_frag c) |>) in E.
    destruct (len p >? e_max_frag e * e_max_frags e); injection E as <- <-; [apply St_weaken; apply Sc_same; reflexivity|].
    set (frags := split_frags (S (length p)) e p).
    set (c2 := send_frags c1 (seq_succ (c_seq_frag c)) (len frags) r 0 frags).
    change (uid k) with ([] ++ [] ++ uid k). change (@nil out) with (@nil out ++ [] ++ []).
    apply St_comp with (X1 := pend c1) (v1 := vw c1); [apply Sc_same; reflexivity|].
    apply St_comp with (X1 := pend c2) (v1 := vw c2); [apply send_frags_Sc|].
    unfold pend. cbn [c_pcbs set].
    match goal with |- St _ _ _ ?X' ?v' _ => change X' with (flat_map snd (c_pcbs c2));
      change v' with (v_set_pf (vw c2) (dset (seq_succ (c_seq_frag c)) {| fs_ucb := k; fs_acks := repeat None (length frags) |} (c_pfrags c2))) end.
    apply St_grow_plain.
    + unfold plain. cbn [v_set_pf v_out v_pf vw].
      assert (Hs : msub (fids (dset (seq_succ (c_seq_frag c)) {| fs_ucb := k; fs_acks := repeat None (length frags) |} (c_pfrags c2)))
                       (uid k ++ fids (c_pfrags c2)))
        by exact (dv_dset (fun fs => uid (fs_ucb fs)) _ _ _).
      subs.
    + apply incl_refl.
    + intros [N P O R U]. split; assumption.
    + cbn. lia.
    + auto.
  - injection E as <- <-. apply send_type_Sc. intros ->. destruct k; try reflexivity. cbn in Hok. congruence.
Qed.

Lemma Sc_same_r ids c c1 c2 o : Sc ids c c1 o -> vw c2 = vw c1 -> c_pcbs c2 = c_pcbs c1 -> Sc ids c c2 o.
Proof. unfold Sc, pend. intros H -> ->. exact H. Qed.

Lemma disconnect_Sc c k : Sc (uid k) c (disconnect c k) [].
Proof.
  unfold disconnect.
  destruct (_ || _).
  - set (c1 := c <| c_outgoing := [] |> <| c_incoming := [] |> <| c_pcbs := [] |> <| c_pretry := [] |> <| c_packs := [] |>).
    apply Sc_same_r with (c1 := send_type c1 DISCONNECT [] RNone k); [|reflexivity|reflexivity].
    change (uid k) with ([] ++ uid k). change (@nil out) with (@nil out ++ []).
    apply St_comp with (X1 := pend c1) (v1 := vw c1).
    + apply St_shrink; [reflexivity|]. intros [N P O R U]. constructor; cbn; auto; try lia.
      * unfold plain. cbn. subs.
      * unfold allcb. cbn. apply incl_appr, incl_appr, incl_refl.
    + apply send_type_Sc. discriminate.
  - apply St_weaken. apply Sc_same; reflexivity.
Qed.

Lemma client_hello_Sc c now hello : Sc [] c (client_hello c now hello) [].
Proof.
  unfold client_hello. change (@nil out) with (@nil out ++ []).
  eapply Sc_seq; [apply (send_type_Sc0 c CLIENT_HELLO hello RNone IHello); intros; discriminate|apply Sc_same; reflexivity].
Qed.

Lemma Sc_nil_trans a b c : Sc [] a b [] -> Sc [] b c [] -> Sc [] a c [].
Proof. intros H1 H2. exact (Sc_seq _ _ _ _ _ H1 H2). Qed.

Lemma recv_handshake_Sc c ty oo c' os : recv_handshake c ty oo = (c', os) -> Sc [] c c' [].
Proof.
  intros Eh. unfold recv_handshake in Eh.
  destruct ty, (c_server c); try (injection Eh as <- <-; apply St_refl).
  - destruct (negb _); [injection Eh as <- <-; apply St_refl|].
    destruct (negb _); injection Eh as <- <-; [apply St_refl|].
    eapply Sc_nil_trans; [|apply send_type_Sc0; intros; discriminate]. apply Sc_same; reflexivity.
  - destruct (o_parse oo =? 6); [injection Eh as <- <-; apply Sc_same; reflexivity|].
    destruct (negb _); injection Eh as <- <-; [apply St_refl|].
    eapply Sc_nil_trans; [|apply Sc_same; reflexivity].
    eapply Sc_nil_trans; [|apply (send_type_Sc0 (c <| c_token := o_token oo |> <| c_key := Some (o_key oo) |>) CHALLENGE_RESP (o_reply oo) RNone IChallenge); intros; discriminate].
    apply Sc_same; reflexivity.
  - destruct (negb _); [injection Eh as <- <-; apply St_refl|].
    destruct (o_temp_token oo) as [t|]; [|injection Eh as <- <-; apply St_refl].
    destruct (t =? o_token oo); injection Eh as <- <-; [apply Sc_same; reflexivity|apply St_refl].
Qed.

Lemma recv_msgs_Sc ms c now orcs c' o : recv_msgs c now ms orcs = (c', o) -> Sc [] c c' o.
Proof.
  intros E. apply St_out with (o := []); [apply fired_none; intros id b; exact (recv_msgs_no_cb _ _ _ _ _ _ id b E)|].
  apply (recv_msgs_rel (fun a b => Sc [] a b [])) with (ms := ms) (now := now) (orcs := orcs) (o := o); try exact E.
  - intros a. apply St_refl.
  - intros a b d. apply Sc_nil_trans.
  - intros a bf. apply Sc_same; reflexivity.
  - intros a s p. apply Sc_same; reflexivity.
  - intros a n s p a' o' Ef. unfold recv_fragment in Ef. destruct (_ <? _)%nat; [injection Ef as <- <-; apply St_refl|].
    injection Ef as <- <-. destruct (fr_complete _); apply Sc_same; reflexivity.
  - intros a. apply Sc_same; reflexivity.
  - intros a ty oo a' os Eh. eapply recv_handshake_Sc; eassumption.
Qed.

Lemma fired_ret o b : fired (o ++ [ORet b]) = fired o.
Proof. rewrite fired_app. cbn. apply app_nil_r. Qed.

Lemma recv_Sc c now d orcs c' o : recv c now d orcs = (c', o) -> Sc [] c c' o.
Proof.
  unfold recv. intros E.
  destruct (keyless_refuses c (d_hdr d)); [injection E as <- <-; apply Sc_same; reflexivity|].
  destruct (open_dgram (c_key c) d) as [ms|]; [|injection E as <- <-; apply Sc_same; reflexivity].
  destruct (bf_insert (c_bf_pkt c) _) as [bf|]; [|injection E as <- <-; apply Sc_same; reflexivity].
  match type of E with context [handle_ack_bits ?c0 _] => set (cc := c0) in E end.
  destruct (handle_ack_bits cc (d_hdr d)) as [c1 o1] eqn:E1.
  destruct (recv_msgs c1 now ms orcs) as [c2 o2] eqn:E2. injection E as <- <-.
  apply St_out with (o := [] ++ o1 ++ o2).
  { cbn [app]. rewrite !fired_app. destruct (raised o2); cbn; rewrite ?app_nil_r; reflexivity. }
  apply Sc_seq with (c1 := cc); [apply Sc_same; reflexivity|].
  apply Sc_seq with (c1 := c1); [exact (ack_loop_Sc _ _ _ _ _ E1)|exact (recv_msgs_Sc _ _ _ _ _ _ E2)].
Qed.

(* ---------- packet assembly: callbacks move from the queue to the pending datagram ---------- *)
Definition mpl (m : pmsg) : list Z := pids (olist (m_cb m)).
Lemma pids_mcbs q : pids (mcbs q) = flat_map mpl q.
Proof. induction q as [|m q IH]; [reflexivity|]. change (mcbs (m :: q)) with (olist (m_cb m) ++ mcbs q). rewrite pids_app, IH. reflexivity. Qed.

Lemma out_pass_cnt e q : forall msgs cur rem msgs' cur',
  out_pass e q msgs cur = (rem, msgs', cur') ->
  exists taken, msgs' = msgs ++ taken /\ msub (flat_map mpl rem ++ flat_map mpl taken) (flat_map mpl q) /\
                incl rem q /\ incl taken q.
Proof.
  induction q as [|m q IH]; intros msgs cur rem msgs' cur' E; cbn [out_pass] in E.
  - injection E as <- <- <-. exists []. rewrite app_nil_r. repeat split; try apply incl_refl. apply sub_refl.
  - destruct (fits _ _ _ _).
    + destruct (IH _ _ _ _ _ E) as (tk & -> & S & I1 & I2). exists (m :: tk). rewrite <- app_assoc. split; [reflexivity|].
      split; [|split; [apply incl_tl; exact I1|apply incl_cons; [left; reflexivity|apply incl_tl; exact I2]]].
      change (flat_map mpl (m :: tk)) with (mpl m ++ flat_map mpl tk). change (flat_map mpl (m :: q)) with (mpl m ++ flat_map mpl q). subs.
    + destruct (out_pass e q msgs cur) as [[rem0 ms0] cu0] eqn:E0. injection E as <- <- <-.
      destruct (IH _ _ _ _ _ E0) as (tk & -> & S & I1 & I2). exists tk. split; [reflexivity|].
      split; [|split; [apply incl_cons; [left; reflexivity|apply incl_tl; exact I1]|apply incl_tl; exact I2]].
      change (flat_map mpl (m :: rem0)) with (mpl m ++ flat_map mpl rem0). change (flat_map mpl (m :: q)) with (mpl m ++ flat_map mpl q). subs.
Qed.

Lemma pids_nil_iff l : pids l = [] <-> forall k, In k l -> pid k = [].
Proof.
  split.
  - intros H k Hk. destruct (pid k) as [|x r] eqn:E; [reflexivity|]. exfalso.
    assert (Hx : In x (pids l)) by (apply in_flat_map; exists k; split; [exact Hk|rewrite E; left; reflexivity]).
    rewrite H in Hx. destruct Hx.
  - intros H. induction l as [|k l IH]; [reflexivity|]. change (pids (k :: l)) with (pid k ++ pids l).
    rewrite (H k (or_introl eq_refl)), IH; [reflexivity|]. intros k' Hk'. apply H. right. exact Hk'.
Qed.

Lemma stamp_cb now m : m_cb (stamp now m) = m_cb m. Proof. reflexivity. Qed.
Lemma stamp_retry now m : m_retry (stamp now m) = m_retry m. Proof. reflexivity. Qed.

Lemma build_impl_Sc e c now ka delay c' r : build_impl e c now ka delay = (c', r) -> Sc [] c c' [].
Proof.
  intros E. unfold build_impl in E.
  destruct (match c_pretry_msg c with [] => _ | _ => _ end) as [[prm msgs0] cur0] eqn:E0.
  assert (H0 : incl prm (c_pretry_msg c) /\ incl msgs0 (map snd (c_pretry_msg c))).
  { destruct (c_pretry_msg c) eqn:Ep; [injection E0 as <- <- <-; split; intros x []|].
    destruct (retry_pass_sub _ _ _ _ _ _ _ _ _ _ E0) as [A B]. split; [exact A|].
    intros m Hm. destruct (B m Hm) as [[]|H]. apply sort_items_in. exact H. }
  destruct H0 as [Hprm Hm0].
  destruct (out_pass e (c_outgoing c) msgs0 cur0) as [[rem msgs] cu] eqn:E1.
  destruct (out_pass_cnt _ _ _ _ _ _ _ E1) as (tk & -> & Hs & Irem & Itk).
  unfold Sc. apply St_shrink; [reflexivity|]. intros [N P O R U]. cbn [vw v_prm v_out] in P, O.
  (* every callback carried by a selected message was stored before *)
  assert (Hsel : forall k, In k (mcbs (msgs0 ++ tk)) -> In k (mcbs (c_outgoing c) ++ mcbs (map snd (c_pretry_msg c)))).
  { intros k Hk. rewrite mcbs_app in Hk. apply in_or_app. apply in_app_or in Hk as [Hk|Hk].
    - right. exact (mcbs_incl _ _ Hm0 k Hk).
    - left. exact (mcbs_incl _ _ Itk k Hk). }
  assert (Hp0 : pids (mcbs msgs0) = []) by exact (pids_nil_incl _ _ (mcbs_incl _ _ Hm0) P).
  assert (Orem : Forall mok rem).
  { rewrite Forall_forall in *. intros m Hm. apply O. apply Irem. exact Hm. }
  assert (Hpl : msub (pids (mcbs rem) ++ pids (mcbs (msgs0 ++ tk))) (pids (mcbs (c_outgoing c)))).
  { rewrite mcbs_app, pids_app, Hp0, !pids_mcbs. subs. }
  match type of E with (if ?b then _ else _) = _ => destruct b eqn:Hty end.
  - (* nothing assembled *)
    injection E as <- <-.
    match goal with |- Shrink _ _ ?X' ?v' =>
      change X' with (pend c);
      change v' with {| v_out := rem; v_prm := prm; v_pf := c_pfrags c; v_done := c_done c; v_rid := c_next_rid c |} end.
    constructor; cbn [vw v_prm v_out v_rid v_done v_pf]; auto; try lia.
    + unfold plain. cbn [vw v_out v_pf]. subs.
    + unfold allcb. cbn [vw v_out v_prm]. apply incl_app; [apply incl_appl, incl_refl|apply incl_appr].
      apply incl_app; [apply incl_appl; apply mcbs_incl; exact Irem|apply incl_appr; apply mcbs_incl, incl_map; exact Hprm].
    + apply (pids_nil_incl _ (mcbs (map snd (c_pretry_msg c)))); [apply mcbs_incl, incl_map; exact Hprm|exact P].
  - set (s := seq_succ (c_seq_send c)).
    set (retr := filter (fun m => negb (retry_is_none (m_retry m))) (map (stamp now) (msgs0 ++ tk))).
    set (prm' := fold_left (fun d m => dset (m_seq m) m d) retr prm).
    set (pcbs' := match mcbs (msgs0 ++ tk) with [] => c_pcbs c | _ => dset s (mcbs (msgs0 ++ tk)) (c_pcbs c) end).
    assert (Hpc : msub (pids (flat_map snd pcbs')) (pids (mcbs (msgs0 ++ tk)) ++ pids (flat_map snd (c_pcbs c))) /\
                  incl (flat_map snd pcbs') (mcbs (msgs0 ++ tk) ++ flat_map snd (c_pcbs c))).
    { subst pcbs'. destruct (mcbs (msgs0 ++ tk)) as [|k0 ks] eqn:Ek.
      - split; [cbn; apply sub_refl|apply incl_refl].
      - split; [rewrite !pids_vals; apply dv_dset|]. intros x Hx. apply in_or_app. exact (vals_dset_In _ _ _ _ Hx). }
    destruct Hpc as [Hpc1 Hpc2].
    (* messages stored for re-sending: old entries or stamped selected messages with a retry mode *)
    assert (Hprm' : forall x, In x prm' -> In x (c_pretry_msg c) \/
                       exists m0, In m0 (msgs0 ++ tk) /\ snd x = stamp now m0 /\ m_retry m0 <> RNone).
    { intros x Hx. destruct (fold_dset_In now _ _ _ Hx) as [H|(m & H1 & H2)]; [left; apply Hprm; exact H|right].
      apply filter_In in H1 as [H1 Hr]. apply in_map_iff in H1 as (m0 & <- & Hm0'). exists m0. split; [exact Hm0'|]. split; [exact H2|].
      rewrite stamp_retry in Hr. destruct (m_retry m0); [discriminate|discriminate|discriminate]. }
    assert (Hv : vw c' = {| v_out := rem; v_prm := prm'; v_pf := c_pfrags c; v_done := c_done c; v_rid := c_next_rid c |} /\ c_pcbs c' = pcbs').
    { injection E as <- _. subst pcbs' prm' retr s. split.
      - repeat match goal with |- context [match ?x with [] => _ | _ :: _ => _ end] => destruct x end; reflexivity.
      - rewrite mcbs_opt. repeat match goal with |- context [match ?x with [] => _ | _ :: _ => _ end] => destruct x end; reflexivity. }
    destruct Hv as [Hv1 Hv2]. unfold pend at 2. rewrite Hv1, Hv2.
    (* a callback of a stored message: stored before, or carried by a selected message *)
    assert (Hk' : forall k, In k (mcbs (map snd prm')) ->
                    In k (mcbs (map snd (c_pretry_msg c))) \/
                    exists m0, In m0 (msgs0 ++ tk) /\ m_cb m0 = Some k /\ m_retry m0 <> RNone).
    { intros k Hk. apply mcbs_In in Hk as (m & Hm & Hc). apply in_map_iff in Hm as (x & <- & Hx).
      destruct (Hprm' x Hx) as [H|(m0 & H1 & H2 & H3)].
      - left. apply mcbs_In. exists (snd x). split; [apply in_map; exact H|exact Hc].
      - right. exists m0. rewrite H2, stamp_cb in Hc. auto. }
    constructor; cbn [vw v_prm v_out v_rid v_done v_pf]; auto; try lia.
    + unfold plain, pend. cbn [vw v_out v_pf]. subs.
    + unfold allcb, pend. cbn [vw v_out v_prm]. intros x Hx. apply in_app_or in Hx as [Hx|Hx].
      * apply Hpc2 in Hx. apply in_app_or in Hx as [Hx|Hx]; [apply in_or_app; right; exact (Hsel x Hx)|apply in_or_app; left; exact Hx].
      * apply in_or_app. right. apply in_app_or in Hx as [Hx|Hx]; [apply in_or_app; left; exact (mcbs_incl _ _ Irem x Hx)|].
        destruct (Hk' x Hx) as [H|(m0 & H1 & H2 & _)]; [apply in_or_app; right; exact H|].
        apply Hsel. apply mcbs_In. exists m0. auto.
    + apply pids_nil_iff. intros k Hk. destruct (Hk' k Hk) as [H|(m0 & H1 & H2 & H3)].
      * exact (proj1 (pids_nil_iff _) P k H).
      * apply in_app_or in H1 as [H1|H1].
        -- apply (proj1 (pids_nil_iff _) Hp0 k). apply mcbs_In. exists m0. auto.
        -- rewrite Forall_forall in O. pose proof (O m0 (Itk m0 H1) H3) as Hm. rewrite H2 in Hm. cbn in Hm.
           rewrite app_nil_r in Hm. exact Hm.
Qed.

Lemma build_packet_Sc e c now c' r : build_packet e c now = (c', r) -> Sc [] c c' [].
Proof.
  intros E. unfold build_packet in E. destruct (_ <? _); [injection E as <- <-; apply St_refl|].
  destruct (build_impl e c now _ _) as [c1 r1] eqn:E1. apply build_impl_Sc in E1.
  destruct r1; injection E as <- <-; [|exact E1].
  eapply Sc_nil_trans; [exact E1|apply Sc_same; reflexivity].
Qed.

Lemma fired_emit c pk : fired (emit c pk) = [].
Proof. apply fired_none. intros id b. apply emit_no_cb. Qed.

Lemma fired_filter_ret o :
  fired (filter (fun x => match x with ORet _ => false | _ => true end) o) = fired o.
Proof.
  induction o as [|x o IH]; [reflexivity|]. cbn [filter].
  destruct x; try exact IH;
    match goal with |- fired (?y :: ?a) = fired (?y :: ?b) => change (fired [y] ++ fired a = fired [y] ++ fired b); rewrite IH; reflexivity end.
Qed.

Lemma client_update_Sc c now c' o : client_update c now = (c', o) -> Sc [] c c' o.
Proof.
  unfold client_update. intros E.
  destruct (_ && _) in E; destruct (_ && _) in E; injection E as <- <-; apply Sc_same; try reflexivity;
    destruct (c_conn_cb _); reflexivity.
Qed.

Lemma client_tick_Sc e c now r c' o : client_tick e c now r = (c', o) -> Sc [] c c' o.
Proof.
  unfold client_tick. intros E.
  destruct (client_update c now) as [c0 o0] eqn:E0. apply client_update_Sc in E0.
  destruct (status_eqb (c_status c0) DROPPED); [injection E as <- <-; exact E0|].
  match type of E with (let '(c, o) := ?x in _) = _ => destruct x as [c1 o1] eqn:E1 end.
  assert (H1 : Sc [] c0 c1 o1).
  { destruct r as [|er|d orcs].
    - injection E1 as <- <-. apply St_refl.
    - injection E1 as <- <-. apply St_silent. reflexivity.
    - destruct (recv c0 now d orcs) as [c'' o''] eqn:Er. injection E1 as <- <-.
      eapply St_out; [apply fired_filter_ret|]. exact (recv_Sc _ _ _ _ _ _ Er). }
  destruct (raised o1); [injection E as <- <-; exact (Sc_seq _ _ _ _ _ E0 H1)|].
  destruct (_ >? _); [|injection E as <- <-; exact (Sc_seq _ _ _ _ _ E0 H1)].
  destruct (build_packet e c1 now) as [c2 pk] eqn:E2. apply build_packet_Sc in E2.
  destruct (check_timeout false c2 now) as [c3 o3] eqn:E3. injection E as <- <-.
  apply Sc_seq with (c1 := c0); [exact E0|]. apply Sc_seq with (c1 := c1); [exact H1|].
  apply Sc_seq with (c1 := c2).
  - eapply St_out; [|exact E2]. destruct pk; [apply fired_emit|reflexivity].
  - exact (timeout_loop_Sc _ _ _ _ _ _ E3).
Qed.

Lemma server_tick_Sc e c now c' o : server_tick e c now = (c', o) -> Sc [] c c' o.
Proof.
  unfold server_tick. intros E. destruct (_ >? _); [|injection E as <- <-; apply St_refl].
  destruct (build_packet e c now) as [c1 pk] eqn:E1. apply build_packet_Sc in E1.
  destruct (check_timeout true c1 now) as [c2 o2] eqn:E2. injection E as <- <-.
  apply St_out with (o := [] ++ o2).
  { cbn [app]. rewrite fired_app. destruct pk; [rewrite fired_emit|]; cbn; apply app_nil_r. }
  apply Sc_seq with (c1 := c1); [exact E1|exact (timeout_loop_Sc _ _ _ _ _ _ E2)].
Qed.

(* ---------- one event, whole histories ---------- *)
Theorem step_Sc e c x c' o : ev_ok e x -> step e c x = (c', o) -> Sc (ev_ids x) c c' o.
Proof.
  intros Hok E. destruct x; cbn [step ev_ids] in *.
  - exact (send_Sc _ _ _ _ _ _ _ Hok E).
  - exact (client_tick_Sc _ _ _ _ _ _ E).
  - exact (server_tick_Sc _ _ _ _ _ E).
  - exact (recv_Sc _ _ _ _ _ _ E).
  - injection E as <- <-. apply disconnect_Sc.
  - injection E as <- <-. destruct which as [|[[?|?|]|[?|?|]|]|?]; apply Sc_same; reflexivity.
  - injection E as <- <-. apply client_hello_Sc.
  - injection E as <- <-. apply Sc_same; reflexivity.
  - injection E as <- <-. apply Sc_same; reflexivity.
Qed.

Definition sent_ids (xs : list ev) : list Z := flat_map ev_ids xs.

Theorem run_Sc e xs : forall c c' oss, Forall (ev_ok e) xs -> run e c xs = (c', oss) ->
  Sc (sent_ids xs) c c' (concat oss).
Proof.
  induction xs as [|x xs IH]; intros c c' oss Hok E; cbn [run] in E.
  - injection E as <- <-. apply St_refl.
  - inversion Hok as [|? ? Hx Hxs]; subst.
    destruct (step e c x) as [c1 o] eqn:E1. destruct (run e c1 xs) as [c2 os] eqn:E2. injection E as <- <-.
    cbn [sent_ids flat_map concat]. eapply St_comp; [exact (step_Sc _ _ _ _ _ Hx E1)|exact (IH _ _ _ Hxs E2)].
Qed.

(* the invariant and "an id is mentioned by the connection" on connections *)
Definition CbInv (c : conn) : Prop := Inv (pend c) (vw c).
Definition CbKnown (c : conn) (id : Z) : Prop := Known (pend c) (vw c) id.

Lemma CbInv_conn0 b : CbInv (conn0 b).
Proof. constructor; cbn; [constructor|reflexivity|constructor|intros ? ? []|intros ? ? ? ? []]. Qed.
Lemma CbKnown_conn0 b id : ~ CbKnown (conn0 b) id.
Proof. intros [[]|(rid & [])]. Qed.

Theorem run_CbInv e xs c c' oss : CbInv c -> Forall (ev_ok e) xs -> NoDup (sent_ids xs) ->
  (forall id, In id (sent_ids xs) -> ~ CbKnown c id) -> run e c xs = (c', oss) -> CbInv c'.
Proof. intros HI Hok ND Fr E. exact (proj1 (run_Sc e xs c c' oss Hok E HI ND Fr)). Qed.

Theorem callback_at_most_once e xs c c' oss : CbInv c -> Forall (ev_ok e) xs -> NoDup (sent_ids xs) ->
  (forall id, In id (sent_ids xs) -> ~ CbKnown c id) -> run e c xs = (c', oss) ->
  NoDup (fired (concat oss)).
Proof. intros HI Hok ND Fr E. exact (proj1 (proj2 (run_Sc e xs c c' oss Hok E HI ND Fr))). Qed.

Theorem run_CbKnown e xs c c' oss id : CbInv c -> Forall (ev_ok e) xs -> NoDup (sent_ids xs) ->
  (forall id, In id (sent_ids xs) -> ~ CbKnown c id) -> run e c xs = (c', oss) ->
  CbKnown c' id -> CbKnown c id \/ In id (sent_ids xs).
Proof. intros HI Hok ND Fr E. exact (proj2 (proj2 (proj2 (proj2 (run_Sc e xs c c' oss Hok E HI ND Fr)))) id). Qed.

(* only ids the connection knows or the application hands over are ever reported *)
Theorem run_fired_known e xs c c' oss id : CbInv c -> Forall (ev_ok e) xs -> NoDup (sent_ids xs) ->
  (forall id, In id (sent_ids xs) -> ~ CbKnown c id) -> run e c xs = (c', oss) ->
  In id (fired (concat oss)) -> CbKnown c id \/ In id (sent_ids xs).
Proof.
  intros HI Hok ND Fr E H.
  destruct (proj1 (proj2 (proj2 (run_Sc e xs c c' oss Hok E HI ND Fr))) id H) as [H'|H']; [left; apply Live_Known; exact H'|right; exact H'].
Qed.

Theorem callback_at_most_once_fresh e b xs c' oss : Forall (ev_ok e) xs -> NoDup (sent_ids xs) ->
  run e (conn0 b) xs = (c', oss) -> NoDup (fired (concat oss)).
Proof.
  intros Hok ND E. apply (callback_at_most_once e xs (conn0 b) c' oss); auto using CbInv_conn0.
  intros id _. apply CbKnown_conn0.
Qed.

Lemma cbinv_fresh b : CbInv (conn0 b) /\ forall id, ~ CbKnown (conn0 b) id.
Proof. split; [apply CbInv_conn0|intros id; apply CbKnown_conn0]. Qed.

Theorem cbinv_preserved e xs c c' oss :
  CbInv c -> Forall (ev_ok e) xs -> NoDup (sent_ids xs) ->
  (forall id, In id (sent_ids xs) -> ~ CbKnown c id) ->
  run e c xs = (c', oss) ->
  CbInv c' /\ (forall id, CbKnown c' id -> CbKnown c id \/ In id (sent_ids xs)) /\
  (forall id, In id (fired (concat oss)) -> CbKnown c id \/ In id (sent_ids xs)).
Proof.
  intros HI Hok ND Fr E. split; [exact (run_CbInv e xs c c' oss HI Hok ND Fr E)|]. split.
  - intros id. exact (run_CbKnown e xs c c' oss id HI Hok ND Fr E).
  - intros id. exact (run_fired_known e xs c c' oss id HI Hok ND Fr E).
Qed.

Lemma cbinv_meaning c : CbInv c <->
  NoDup (pids (pend c) ++ pids (mcbs (c_outgoing c)) ++ fids (c_pfrags c)) /\
  pids (mcbs (map snd (c_pretry_msg c))) = [] /\
  Forall mok (c_outgoing c) /\
  (forall rid id, In (rid, id) (rps (pend c ++ mcbs (c_outgoing c) ++ mcbs (map snd (c_pretry_msg c)))) ->
     rid < c_next_rid c /\ ~ In id (pids (pend c) ++ pids (mcbs (c_outgoing c)) ++ fids (c_pfrags c))) /\
  (forall rid id rid' id',
     In (rid, id) (rps (pend c ++ mcbs (c_outgoing c) ++ mcbs (map snd (c_pretry_msg c)))) ->
     In (rid', id') (rps (pend c ++ mcbs (c_outgoing c) ++ mcbs (map snd (c_pretry_msg c)))) ->
     (rid = rid' <-> id = id')).
Proof. split; [intros [A B C D E]; auto|intros (A & B & C & D & E); constructor; assumption]. Qed.
