(* WsFrameP.v — lemmas about Model/WsFrame.v: bytes, big-endian integers, masking, buffer slicing,
   header bit fields, frame size / completeness test. *)
From Coq Require Import Lia ZifyBool.
From Model Require Import Base WsFrame.
From Proofs Require Import Tac.
Open Scope Z_scope.

(* ---------- bytes ---------- *)
Lemma Z_of_byte_range b : 0 <= Z_of_byte b < 256.
Proof. unfold Z_of_byte. pose proof (Byte.to_N_bounded b). lia. Qed.

Lemma Z_of_byte_of_Z z : 0 <= z < 256 -> Z_of_byte (byte_of_Z z) = z.
Proof.
  intro H. unfold Z_of_byte, byte_of_Z. rewrite Z.mod_small by lia.
  destruct (Byte.of_N (Z.to_N z)) eqn:E.
  - apply Byte.to_of_N in E. rewrite E. lia.
  - apply Byte.of_N_None_iff in E. lia.
Qed.

Lemma Z_of_byte_of_Z_mod z : Z_of_byte (byte_of_Z z) = z mod 256.
Proof.
  unfold Z_of_byte, byte_of_Z. pose proof (Z.mod_pos_bound z 256 ltac:(lia)).
  destruct (Byte.of_N (Z.to_N (z mod 256))) eqn:E.
  - apply Byte.to_of_N in E. rewrite E. lia.
  - apply Byte.of_N_None_iff in E. lia.
Qed.

Lemma len_app {A} (a b : list A) : len (a ++ b) = len a + len b.
Proof. unfold len. rewrite app_length. lia. Qed.
Lemma len_cons {A} (a : A) l : len (a :: l) = 1 + len l.
Proof. unfold len. cbn [length]. lia. Qed.
Lemma len_nil {A} : len (@nil A) = 0.
Proof. reflexivity. Qed.
Lemma len_nonneg {A} (l : list A) : 0 <= len l.
Proof. unfold len. lia. Qed.

(* ---------- big endian ---------- *)
Lemma be_enc_length n z : length (be_enc n z) = n.
Proof. revert z. induction n; intro z; cbn; [reflexivity|]. rewrite app_length, IHn. cbn. lia. Qed.

Lemma be_dec_snoc l b : be_dec (l ++ [b]) = be_dec l * 256 + Z_of_byte b.
Proof. unfold be_dec. rewrite fold_left_app. reflexivity. Qed.

Lemma be_dec_enc n z : be_dec (be_enc n z) = z mod 256 ^ Z.of_nat n.
Proof.
  revert z. induction n; intro z.
  - cbn. rewrite Z.mod_1_r. reflexivity.
  - cbn [be_enc]. rewrite be_dec_snoc, IHn, Z_of_byte_of_Z_mod.
    rewrite Nat2Z.inj_succ, Z.pow_succ_r by lia.
    rewrite (Z.rem_mul_r z 256 (256 ^ Z.of_nat n)) by lia. lia.
Qed.

Lemma be_dec_enc_small n z : 0 <= z < 256 ^ Z.of_nat n -> be_dec (be_enc n z) = z.
Proof. intro H. rewrite be_dec_enc. apply Z.mod_small. exact H. Qed.

(* ---------- masking ---------- *)
Lemma xor_byte_invol a k : xor_byte (xor_byte a k) k = a.
Proof.
  unfold xor_byte.
  destruct (Byte.to_bits a) as (a0 & a1 & a2 & a3 & a4 & a5 & a6 & a7) eqn:Ea.
  destruct (Byte.to_bits k) as (k0 & k1 & k2 & k3 & k4 & k5 & k6 & k7) eqn:Ek.
  rewrite Byte.to_bits_of_bits.
  rewrite !xorb_assoc, !xorb_nilpotent, !xorb_false_r.
  rewrite <- Ea. apply Byte.of_bits_to_bits.
Qed.

Lemma xor_cycle_invol p : forall k0 k1 k2 k3,
  xor_cycle k0 k1 k2 k3 (xor_cycle k0 k1 k2 k3 p) = p.
Proof. induction p as [|a p IH]; intros; cbn; [reflexivity|]. rewrite xor_byte_invol, IH. reflexivity. Qed.

Lemma xor_cycle_length p : forall k0 k1 k2 k3, length (xor_cycle k0 k1 k2 k3 p) = length p.
Proof. induction p as [|a p IH]; intros; cbn; [reflexivity|]. rewrite IH. reflexivity. Qed.

(* ---------- buffer slicing ---------- *)
Lemma takeZ_app {A} (a b : list A) : takeZ (len a) (a ++ b) = a.
Proof.
  induction a as [|x a IH]; cbn [app].
  - destruct b; cbn; [reflexivity|]. reflexivity.
  - cbn [takeZ]. rewrite len_cons. pose proof (len_nonneg a).
    destruct (1 + len a <=? 0) eqn:E; [lia|]. replace (1 + len a - 1) with (len a) by lia. rewrite IH. reflexivity.
Qed.

Lemma dropZ_app {A} (a b : list A) : dropZ (len a) (a ++ b) = b.
Proof.
  induction a as [|x a IH]; cbn [app].
  - destruct b; cbn; reflexivity.
  - cbn [dropZ]. rewrite len_cons. pose proof (len_nonneg a).
    destruct (1 + len a <=? 0) eqn:E; [lia|]. replace (1 + len a - 1) with (len a) by lia. exact IH.
Qed.

Lemma takeZ_app_n {A} n (a b : list A) : n = len a -> takeZ n (a ++ b) = a.
Proof. intros ->. apply takeZ_app. Qed.
Lemma dropZ_app_n {A} n (a b : list A) : n = len a -> dropZ n (a ++ b) = b.
Proof. intros ->. apply dropZ_app. Qed.

Lemma takeZ_le_app {A} n (a b : list A) : n <= len a -> takeZ n (a ++ b) = takeZ n a.
Proof.
  revert n. induction a as [|x a IH]; intros n H; cbn [app].
  - rewrite len_nil in H. destruct b; cbn; [reflexivity|]. destruct (n <=? 0) eqn:E; [reflexivity|lia].
  - cbn [takeZ]. destruct (n <=? 0); [reflexivity|]. rewrite len_cons in H. rewrite IH by lia. reflexivity.
Qed.

Lemma dropZ_le_app {A} n (a b : list A) : n <= len a -> dropZ n (a ++ b) = dropZ n a ++ b.
Proof.
  revert n. induction a as [|x a IH]; intros n H; cbn [app].
  - rewrite len_nil in H. destruct b; cbn; [reflexivity|]. destruct (n <=? 0) eqn:E; [reflexivity|lia].
  - cbn [dropZ]. destruct (n <=? 0); [reflexivity|]. rewrite len_cons in H. apply IH. lia.
Qed.

Lemma len_dropZ {A} n (a : list A) : 0 <= n <= len a -> len (dropZ n a) = len a - n.
Proof.
  revert n. induction a as [|x a IH]; intros n H.
  - cbn. unfold len in *. cbn in *. lia.
  - cbn [dropZ]. destruct (n <=? 0) eqn:E; [lia|]. rewrite len_cons in *. rewrite IH; lia.
Qed.

(* ---------- exhaustive facts about small integers ---------- *)
Lemma small_cases (P : Z -> bool) (n : nat) :
  forallb P (map Z.of_nat (seq 0 n)) = true -> forall z, 0 <= z < Z.of_nat n -> P z = true.
Proof.
  intros H z Hz. rewrite forallb_forall in H. apply H. apply in_map_iff.
  exists (Z.to_nat z). split; [lia|]. apply in_seq. lia.
Qed.

Lemma lenbyte_facts c : 0 <= c < 128 ->
  Z.land c 127 = c /\ Z.land c 128 = 0 /\ Z.land (128 + c) 127 = c /\ Z.land (128 + c) 128 = 128
  /\ Z.lor c (Z.shiftl 0 7) = c /\ Z.lor c (Z.shiftl 1 7) = 128 + c.
Proof.
  intro H.
  pose proof (small_cases (fun c => (Z.land c 127 =? c) && (Z.land c 128 =? 0) && (Z.land (128 + c) 127 =? c)
                                    && (Z.land (128 + c) 128 =? 128) && (Z.lor c (Z.shiftl 0 7) =? c)
                                    && (Z.lor c (Z.shiftl 1 7) =? 128 + c)) 128 ltac:(vm_compute; reflexivity) c H) as E.
  cbv beta in E. lia.
Qed.

(* ---------- header bit fields ---------- *)
Definition b0_of (f : frame) : Z :=
  128 * f_fin f + 64 * f_rsv1 f + 32 * f_rsv2 f + 16 * f_rsv3 f + opcode_val (f_opcode f).
Definition ext_of (n : Z) : list byte :=
  if n <=? 125 then [] else if n <=? 65535 then be_enc 2 n else be_enc 8 n.
Definition body_of (f : frame) : list byte :=
  if f_mask f =? 0 then f_payload f
  else f_key f ++ xor_cycle (nth 0 (f_key f) x00) (nth 1 (f_key f) x00) (nth 2 (f_key f) x00) (nth 3 (f_key f) x00)
                            (f_payload f).

Lemma rfc_encode_eq f :
  rfc_encode f = [byte_of_Z (b0_of f); byte_of_Z (128 * f_mask f + length_code (len (f_payload f)))]
                 ++ ext_of (len (f_payload f)) ++ body_of f.
Proof.
  unfold rfc_encode, length_code, ext_of, body_of, b0_of.
  destruct (len (f_payload f) <=? 125); [reflexivity|].
  destruct (len (f_payload f) <=? 65535); reflexivity.
Qed.

Lemma flags_facts fin r1 r2 r3 op :
  bit fin -> bit r1 -> bit r2 -> bit r3 -> wire_opcode op ->
  let b0 := 128 * fin + 64 * r1 + 32 * r2 + 16 * r3 + opcode_val op in
  0 <= b0 < 256 /\
  Z.lor (Z.shiftl fin 7) (Z.lor (Z.shiftl r1 6) (Z.lor (Z.shiftl r2 5) (Z.lor (Z.shiftl r3 4) (opcode_val op)))) = b0 /\
  opcode_of_Z (Z.land b0 15) = Ok op /\
  Z.shiftr (Z.land b0 128) 7 = fin /\ Z.shiftr (Z.land b0 64) 6 = r1 /\
  Z.shiftr (Z.land b0 32) 5 = r2 /\ Z.shiftr (Z.land b0 16) 4 = r3.
Proof.
  intros [-> | ->] [-> | ->] [-> | ->] [-> | ->] Hop; destruct op; try (exfalso; apply Hop; reflexivity);
    vm_compute; repeat split; congruence.
Qed.

Lemma length_code_range n : 0 <= n -> 0 <= length_code n < 128.
Proof. intro H. unfold length_code. destruct (n <=? 125) eqn:E1; [lia|]. destruct (n <=? 65535); lia. Qed.

Lemma ext_of_len n : len (ext_of n) = if n <=? 125 then 0 else if n <=? 65535 then 2 else 8.
Proof.
  unfold ext_of, len. destruct (n <=? 125); [reflexivity|].
  destruct (n <=? 65535); rewrite be_enc_length; reflexivity.
Qed.

(* ---------- encoder = RFC form ---------- *)
Lemma encode_rfc_anykey f : wf_frame_anykey f -> encode_frame f = Ok (rfc_encode f).
Proof.
  intros (Hfin & Hr1 & Hr2 & Hr3 & Hmask & Hop & Hkey & Hplen & Hlt).
  pose proof (flags_facts _ _ _ _ _ Hfin Hr1 Hr2 Hr3 Hop) as (Hb0 & Hlor & _).
  pose proof (len_nonneg (f_payload f)) as Hnn.
  pose proof (length_code_range (f_plen f) ltac:(lia)) as Hlc.
  pose proof (lenbyte_facts _ Hlc) as (_ & _ & _ & _ & Hl0 & Hl1).
  rewrite rfc_encode_eq. unfold encode_frame.
  assert (H1 : serialize_header f = Ok [byte_of_Z (b0_of f); byte_of_Z (128 * f_mask f + length_code (f_plen f))]).
  { unfold serialize_header. rewrite Hlor. fold (b0_of f).
    assert (Z.lor (length_code (f_plen f)) (Z.shiftl (f_mask f) 7) = 128 * f_mask f + length_code (f_plen f)) as ->.
    { destruct Hmask as [-> | ->]; [rewrite Hl0 | rewrite Hl1]; lia. }
    unfold pack_BB. unfold b0_of.
    destruct Hmask as [-> | ->];
      match goal with |- (if ?c then _ else _) = _ => replace c with true by lia end; reflexivity. }
  assert (H2 : serialize_data_header f = Ok (ext_of (f_plen f) ++ (if f_mask f =? 0 then [] else f_key f))).
  { unfold serialize_data_header, ext_of, pack_H, pack_Q.
    destruct (f_plen f >? 125) eqn:E1.
    - replace (f_plen f <=? 125) with false by lia.
      destruct (f_plen f <=? 65535) eqn:E2.
      + replace (0 <=? f_plen f) with true by lia. reflexivity.
      + replace (0 <=? f_plen f) with true by lia. replace (f_plen f <? 2 ^ 64) with true by lia. reflexivity.
    - replace (f_plen f <=? 125) with true by lia. reflexivity. }
  assert (H3 : write_data f = Ok (if f_mask f =? 0 then f_payload f else
            xor_cycle (nth 0 (f_key f) x00) (nth 1 (f_key f) x00) (nth 2 (f_key f) x00) (nth 3 (f_key f) x00) (f_payload f))).
  { unfold write_data, mask_payload. destruct (f_mask f =? 0); [reflexivity|].
    replace (4 <=? len (f_key f)) with true by (unfold len; lia). reflexivity. }
  rewrite H1, H2, H3. cbn [bind]. rewrite <- Hplen. unfold body_of.
  destruct (f_mask f =? 0); cbn [app]; rewrite <- ?app_assoc; reflexivity.
Qed.

Lemma wf_frame_anykey_of f : wf_frame f -> wf_frame_anykey f.
Proof. unfold wf_frame, wf_frame_anykey. tauto. Qed.

Lemma encode_rfc f : wf_frame f -> encode_frame f = Ok (rfc_encode f).
Proof. intro H. apply encode_rfc_anykey, wf_frame_anykey_of, H. Qed.

(* ---------- parser inverts the RFC form ---------- *)
Lemma take2 {A} (x y : A) l : takeZ 2 (x :: y :: l) = [x; y] /\ dropZ 2 (x :: y :: l) = l.
Proof.
  split; [apply (takeZ_app_n 2 [x; y] l) | apply (dropZ_app_n 2 [x; y] l)]; reflexivity.
Qed.

Lemma unpack_be n z : 0 <= z < 256 ^ Z.of_nat n -> unpack_n (Z.of_nat n) (be_enc n z) = Ok z.
Proof.
  intro H. unfold unpack_n, len. rewrite be_enc_length, Z.eqb_refl, be_dec_enc_small by assumption. reflexivity.
Qed.

Lemma parse_encode f rest : wf_frame f -> parse_frame (rfc_encode f ++ rest) = (Ok f, rest).
Proof.
  intros (Hfin & Hr1 & Hr2 & Hr3 & Hmask & Hop & Hkey & Hplen & Hlt & Hzk).
  pose proof (flags_facts _ _ _ _ _ Hfin Hr1 Hr2 Hr3 Hop) as (Hb0 & _ & Hopc & Hf & H1 & H2 & H3).
  fold (b0_of f) in Hb0, Hopc, Hf, H1, H2, H3.
  pose proof (len_nonneg (f_payload f)) as Hnn.
  set (n := len (f_payload f)) in *.
  pose proof (length_code_range n Hnn) as Hlc.
  pose proof (lenbyte_facts _ Hlc) as (Ha & Hb & Hc & Hd & _ & _).
  rewrite rfc_encode_eq. fold n. cbn [app]. unfold parse_frame.
  destruct (take2 (byte_of_Z (b0_of f)) (byte_of_Z (128 * f_mask f + length_code n))
                  ((ext_of n ++ body_of f) ++ rest)) as [T D].
  rewrite T, D. clear T D.
  rewrite (Z_of_byte_of_Z (b0_of f)) by assumption.
  rewrite Hopc, Hf, H1, H2, H3.
  assert (Hlb : 0 <= 128 * f_mask f + length_code n < 256) by (destruct Hmask as [-> | ->]; lia).
  rewrite (Z_of_byte_of_Z _ Hlb).
  assert (Hland127 : Z.land (128 * f_mask f + length_code n) 127 = length_code n).
  { destruct Hmask as [-> | ->]; [replace (128 * 0 + length_code n) with (length_code n) by lia; exact Ha
                                 | replace (128 * 1 + length_code n) with (128 + length_code n) by lia; exact Hc]. }
  assert (Hland128 : (if Z.land (128 * f_mask f + length_code n) 128 =? 0 then 0 else 1) = f_mask f).
  { destruct Hmask as [-> | ->]; [replace (128 * 0 + length_code n) with (length_code n) by lia; rewrite Hb
                                 | replace (128 * 1 + length_code n) with (128 + length_code n) by lia; rewrite Hd];
      reflexivity. }
  rewrite Hland127, Hland128. rewrite <- app_assoc.
  (* the length *)
  assert (Hlen : (if length_code n =? 126
                  then (unpack_n 2 (takeZ 2 (ext_of n ++ body_of f ++ rest)), dropZ 2 (ext_of n ++ body_of f ++ rest))
                  else if length_code n =? 127
                       then (unpack_n 8 (takeZ 8 (ext_of n ++ body_of f ++ rest)), dropZ 8 (ext_of n ++ body_of f ++ rest))
                       else (Ok (length_code n), ext_of n ++ body_of f ++ rest))
                 = (Ok n, body_of f ++ rest)).
  { unfold length_code, ext_of. destruct (n <=? 125) eqn:E1.
    - replace (n =? 126) with false by lia. replace (n =? 127) with false by lia. reflexivity.
    - destruct (n <=? 65535) eqn:E2.
      + cbn [Z.eqb Pos.eqb].
        rewrite (takeZ_app_n 2 (be_enc 2 n)), (dropZ_app_n 2 (be_enc 2 n)) by (unfold len; rewrite be_enc_length; reflexivity).
        pose proof (unpack_be 2 n ltac:(cbn; lia)) as U. change (Z.of_nat 2) with 2 in U. rewrite U. reflexivity.
      + cbn [Z.eqb Pos.eqb].
        rewrite (takeZ_app_n 8 (be_enc 8 n)), (dropZ_app_n 8 (be_enc 8 n)) by (unfold len; rewrite be_enc_length; reflexivity).
        pose proof (unpack_be 8 n ltac:(change (256 ^ Z.of_nat 8) with (2 ^ 64); lia)) as U.
        change (Z.of_nat 8) with 8 in U. rewrite U. reflexivity. }
  rewrite Hlen. clear Hlen.
  unfold body_of.
  destruct Hmask as [Hm | Hm]; rewrite Hm; cbn [Z.eqb].
  - rewrite (takeZ_app_n n (f_payload f)), (dropZ_app_n n (f_payload f)) by reflexivity.
    destruct f as [fin r1 r2 r3 op mask key plen payload]. cbn in *. subst. rewrite Hzk by reflexivity. reflexivity.
  - rewrite <- app_assoc.
    rewrite (takeZ_app_n 4 (f_key f)), (dropZ_app_n 4 (f_key f)) by (unfold len; rewrite Hkey; reflexivity).
    set (m := xor_cycle _ _ _ _ (f_payload f)).
    assert (Hm' : n = len m) by (unfold m, n, len; rewrite xor_cycle_length; reflexivity).
    rewrite (takeZ_app_n n m), (dropZ_app_n n m) by assumption.
    unfold mask_payload. replace (4 <=? len (f_key f)) with true by (unfold len; lia). cbn [orb].
    unfold m. rewrite xor_cycle_invol.
    destruct f as [fin r1 r2 r3 op mask key plen payload]. cbn in *. subst. reflexivity.
Qed.

(* ---------- the completeness test ---------- *)
Definition frame_size (buf : list byte) : option Z :=
  if len buf <? 2 then None
  else
    let b1 := Z_of_byte (nth 1 buf x00) in
    let lcode := Z.land b1 127 in
    let maskadd := if Z.land b1 128 =? 0 then 0 else 4 in
    if lcode =? 126 then
      if len buf <? 4 then None else Some (4 + maskadd + be_dec (takeZ 2 (dropZ 2 buf)))
    else if lcode =? 127 then
      if len buf <? 10 then None else Some (10 + maskadd + be_dec (takeZ 8 (dropZ 2 buf)))
    else Some (2 + maskadd + lcode).

Lemma frame_available_size buf :
  frame_available buf = match frame_size buf with Some n => len buf >=? n | None => false end.
Proof.
  unfold frame_available, frame_size.
  destruct (len buf <? 2); [reflexivity|]. cbv zeta.
  destruct (Z.land (Z_of_byte (nth 1 buf x00)) 127 =? 126).
  - destruct (len buf <? 4); reflexivity.
  - destruct (Z.land (Z_of_byte (nth 1 buf x00)) 127 =? 127); [|reflexivity].
    destruct (len buf <? 10); reflexivity.
Qed.

Lemma frame_size_mono p q n : frame_size p = Some n -> frame_size (p ++ q) = Some n.
Proof.
  unfold frame_size. pose proof (len_nonneg q) as Hq. rewrite len_app.
  destruct (len p <? 2) eqn:E; [discriminate|].
  replace (len p + len q <? 2) with false by lia.
  rewrite (app_nth1 p q x00) by (unfold len in E; lia). cbv zeta.
  destruct (Z.land (Z_of_byte (nth 1 p x00)) 127 =? 126).
  - destruct (len p <? 4) eqn:E4; [discriminate|]. replace (len p + len q <? 4) with false by lia.
    rewrite (dropZ_le_app 2 p q) by lia.
    rewrite (takeZ_le_app 2 (dropZ 2 p) q) by (rewrite len_dropZ; lia). auto.
  - destruct (Z.land (Z_of_byte (nth 1 p x00)) 127 =? 127); [|auto].
    destruct (len p <? 10) eqn:E10; [discriminate|]. replace (len p + len q <? 10) with false by lia.
    rewrite (dropZ_le_app 2 p q) by lia.
    rewrite (takeZ_le_app 8 (dropZ 2 p) q) by (rewrite len_dropZ; lia). auto.
Qed.

Lemma body_of_len f : wf_frame f -> len (body_of f) = 4 * f_mask f + len (f_payload f).
Proof.
  intros (_ & _ & _ & _ & Hmask & _ & Hkey & _). unfold body_of.
  destruct Hmask as [-> | ->]; cbn [Z.eqb]; [lia|].
  rewrite len_app. unfold len at 1 2. rewrite xor_cycle_length, Hkey. unfold len. lia.
Qed.

Lemma rfc_encode_len f : wf_frame f ->
  len (rfc_encode f) = 2 + len (ext_of (len (f_payload f))) + 4 * f_mask f + len (f_payload f).
Proof.
  intro H. rewrite rfc_encode_eq. rewrite len_app, len_app, body_of_len by assumption.
  rewrite !len_cons, len_nil. lia.
Qed.

Lemma frame_size_encode f rest : wf_frame f -> frame_size (rfc_encode f ++ rest) = Some (len (rfc_encode f)).
Proof.
  intro Hwf. rewrite rfc_encode_len by assumption.
  destruct Hwf as (Hfin & Hr1 & Hr2 & Hr3 & Hmask & Hop & Hkey & Hplen & Hlt & Hzk).
  pose proof (len_nonneg (f_payload f)) as Hnn.
  set (n := len (f_payload f)) in *.
  pose proof (length_code_range n Hnn) as Hlc.
  pose proof (lenbyte_facts _ Hlc) as (Ha & Hb & Hc & Hd & _ & _).
  rewrite rfc_encode_eq. fold n. cbn [app]. unfold frame_size.
  set (l := (ext_of n ++ body_of f) ++ rest).
  pose proof (len_nonneg l) as Hl.
  rewrite !len_cons. replace (1 + (1 + len l) <? 2) with false by lia.
  cbn [nth].
  assert (Hlb : 0 <= 128 * f_mask f + length_code n < 256) by (destruct Hmask as [-> | ->]; lia).
  rewrite (Z_of_byte_of_Z _ Hlb). cbv zeta.
  assert (Hland127 : Z.land (128 * f_mask f + length_code n) 127 = length_code n).
  { destruct Hmask as [-> | ->]; [replace (128 * 0 + length_code n) with (length_code n) by lia; exact Ha
                                 | replace (128 * 1 + length_code n) with (128 + length_code n) by lia; exact Hc]. }
  assert (Hland128 : (if Z.land (128 * f_mask f + length_code n) 128 =? 0 then 0 else 4) = 4 * f_mask f).
  { destruct Hmask as [-> | ->]; [replace (128 * 0 + length_code n) with (length_code n) by lia; rewrite Hb
                                 | replace (128 * 1 + length_code n) with (128 + length_code n) by lia; rewrite Hd];
      reflexivity. }
  rewrite Hland127, Hland128.
  destruct (take2 (byte_of_Z (b0_of f)) (byte_of_Z (128 * f_mask f + length_code n)) l) as [_ D]. rewrite D.
  rewrite ext_of_len. subst l. rewrite <- app_assoc.
  assert (Hlenl : len (ext_of n ++ body_of f ++ rest) = len (ext_of n) + len (body_of f) + len rest)
    by (rewrite !len_app; lia).
  rewrite Hlenl. rewrite ext_of_len. pose proof (len_nonneg (body_of f)). pose proof (len_nonneg rest).
  unfold length_code, ext_of. destruct (n <=? 125) eqn:E1.
  - replace (n =? 126) with false by lia. replace (n =? 127) with false by lia. first [reflexivity | f_equal; lia].
  - destruct (n <=? 65535) eqn:E2; cbn [Z.eqb Pos.eqb].
    + replace (1 + (1 + (2 + len (body_of f) + len rest)) <? 4) with false by lia.
      rewrite (takeZ_app_n 2 (be_enc 2 n)) by (unfold len; rewrite be_enc_length; reflexivity).
      rewrite be_dec_enc_small by (cbn; lia). first [reflexivity | f_equal; lia].
    + replace (1 + (1 + (8 + len (body_of f) + len rest)) <? 10) with false by lia.
      rewrite (takeZ_app_n 8 (be_enc 8 n)) by (unfold len; rewrite be_enc_length; reflexivity).
      rewrite be_dec_enc_small by (change (256 ^ Z.of_nat 8) with (2 ^ 64); lia). first [reflexivity | f_equal; lia].
Qed.

Lemma available_encode f rest : wf_frame f -> frame_available (rfc_encode f ++ rest) = true.
Proof.
  intro H. rewrite frame_available_size, frame_size_encode by assumption.
  rewrite len_app. pose proof (len_nonneg rest). lia.
Qed.

(* prefix-freeness: a strict prefix of a frame is never taken for a complete frame *)
Lemma incomplete_prefix f p q : wf_frame f -> rfc_encode f = p ++ q -> q <> [] -> frame_available p = false.
Proof.
  intros Hwf Heq Hq. rewrite frame_available_size.
  destruct (frame_size p) as [n|] eqn:E; [|reflexivity].
  apply (frame_size_mono p q) in E. rewrite <- Heq in E.
  pose proof (frame_size_encode f [] Hwf) as E2. rewrite app_nil_r in E2.
  rewrite E in E2. inversion E2; subst n. rewrite Heq, len_app.
  assert (0 < len q) by (destruct q; [congruence | rewrite len_cons; pose proof (len_nonneg q); lia]).
  lia.
Qed.

Lemma rfc_encode_nonempty f : rfc_encode f <> [].
Proof. rewrite rfc_encode_eq. discriminate. Qed.
