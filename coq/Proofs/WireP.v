(* WireP.v — byte codec lemmas and round-trip proofs (C09). *)
From Coq Require Import Lia ZifyBool.
From Model Require Import Base Wire.
From Proofs Require Import Tac.
Open Scope Z_scope.
Ltac Zify.zify_post_hook ::= Z.to_euclidean_division_equations.

Lemma Z_of_byte_range b : 0 <= Z_of_byte b < 256.
Proof.
  unfold Z_of_byte. pose proof (Byte.to_N_bounded b). lia.
Qed.

Lemma Z_of_byte_of_Z z : Z_of_byte (byte_of_Z z) = z mod 256.
Proof.
  unfold Z_of_byte, byte_of_Z.
  destruct (Byte.of_N (Z.to_N (z mod 256))) as [b|] eqn:E.
  - apply Byte.to_of_N in E. rewrite E. lia.
  - apply Byte.of_N_None_iff in E. lia.
Qed.

Lemma byte_of_Z_of_byte b : byte_of_Z (Z_of_byte b) = b.
Proof.
  unfold Z_of_byte, byte_of_Z. pose proof (Byte.to_N_bounded b).
  replace (Z.to_N (Z.of_N (Byte.to_N b) mod 256)) with (Byte.to_N b) by lia.
  rewrite Byte.of_to_N. reflexivity.
Qed.

Lemma be_length n z : length (be n z) = n.
Proof. revert z. induction n as [|n IH]; intros z; cbn [be]; [reflexivity|]. rewrite app_length, IH. cbn. lia. Qed.

Lemma unbe_app l b : unbe (l ++ [b]) = unbe l * 256 + Z_of_byte b.
Proof. unfold unbe. rewrite fold_left_app. reflexivity. Qed.

Lemma unbe_be n z : 0 <= z < 256 ^ Z.of_nat n -> unbe (be n z) = z.
Proof.
  revert z. induction n as [|n IH]; intros z Hz.
  - cbn in *. unfold unbe. cbn. lia.
  - cbn [be]. rewrite unbe_app, Z_of_byte_of_Z.
    rewrite IH.
    + lia.
    + rewrite Nat2Z.inj_succ, Z.pow_succ_r in Hz by lia. lia.
Qed.

Lemma unbe_range l : 0 <= unbe l < 256 ^ len l.
Proof.
  unfold len. induction l as [|b l IH] using rev_ind.
  - cbn. unfold unbe. cbn. lia.
  - rewrite unbe_app, app_length. cbn [length]. pose proof (Z_of_byte_range b).
    replace (Z.of_nat (length l + 1)) with (Z.succ (Z.of_nat (length l))) by lia.
    rewrite Z.pow_succ_r by lia. lia.
Qed.

Lemma be_unbe l : be (length l) (unbe l) = l.
Proof.
  induction l as [|b l IH] using rev_ind; [reflexivity|].
  rewrite app_length. cbn [length]. replace (length l + 1)%nat with (S (length l)) by lia.
  cbn [be]. rewrite unbe_app. pose proof (Z_of_byte_range b).
  replace ((unbe l * 256 + Z_of_byte b) / 256) with (unbe l) by lia.
  rewrite IH. f_equal. f_equal.
  unfold byte_of_Z. replace ((unbe l * 256 + Z_of_byte b) mod 256) with (Z_of_byte b) by lia.
  fold (byte_of_Z (Z_of_byte b)).
  assert (H' : byte_of_Z (Z_of_byte b) = b) by apply byte_of_Z_of_byte.
  unfold byte_of_Z in H'. replace (Z_of_byte b mod 256) with (Z_of_byte b) in H' by lia. exact H'.
Qed.

Lemma ptype_code_roundtrip t : ptype_of_code (ptype_code t) = Some t.
Proof. destruct t; reflexivity. Qed.
Lemma ptype_code_range t : 0 <= ptype_code t < 8.
Proof. destruct t; cbn; lia. Qed.

(* ---------- header round trip ---------- *)

Lemma in_range_spec bits z : 0 <= bits -> in_range bits z = true <-> 0 <= z < 2 ^ bits.
Proof. intros. unfold in_range. lia. Qed.

Lemma encode_header_length h bs : encode_header h = Ok bs -> length bs = 20%nat.
Proof.
  unfold encode_header. destruct (header_ok h); [|discriminate]. intros E. injection E as <-.
  rewrite app_length. destruct (h_to_server h); reflexivity.
Qed.

Lemma hdr_roundtrip h : header_ok h = true ->
  exists bs, encode_header h = Ok bs /\ length bs = 20%nat
             /\ forall rest, decode_header (h_to_server h) (bs ++ rest) = Ok h.
Proof.
  intros Hok. unfold encode_header. rewrite Hok. eexists. split; [reflexivity|].
  split; [rewrite app_length; destruct (h_to_server h); reflexivity|].
  intros rest.
  unfold header_ok in Hok. repeat (apply andb_prop in Hok as [Hok ?]).
  repeat match goal with H : in_range _ _ = true |- _ => apply in_range_spec in H; [|lia] end.
  destruct h as [ts ct sq ak ty ln cn ab]. cbn [h_to_server h_ctime h_seq h_ack h_type h_len h_count h_ackbits] in *.
  unfold decode_header.
  destruct ts; cbn [MAGIC_TO_SERVER MAGIC_TO_CLIENT map be app firstn skipn sub length Nat.eqb negb];
    unfold unbe; cbn [fold_left]; rewrite !Z_of_byte_of_Z;
    pose proof (ptype_code_range ty);
    replace (0 * 256 + ptype_code ty mod 256) with (ptype_code ty) by lia;
    rewrite ptype_code_roundtrip;
    (match goal with |- context [bytes_eqb ?a ?b] => let v := eval vm_compute in (bytes_eqb a b) in change (bytes_eqb a b) with v end);
    cbn [negb andb Bool.eqb];
    repeat (match goal with |- context [bytes_eqb ?a ?b] => let v := eval vm_compute in (bytes_eqb a b) in change (bytes_eqb a b) with v end);
    cbn [negb andb Bool.eqb h_to_server];
    f_equal; f_equal; lia.
Qed.

(* ---------- message list round trip ---------- *)

Definition enc_multi (ms : list wmsg) : res (list byte) :=
  fold_right (fun m acc =>
        do rest <- acc;
        if in_range 16 (len (w_payload m)) && in_range 16 (w_seq m)
        then Ok (be 2 (len (w_payload m)) ++ be 2 (w_seq m) ++ [byte_of_Z (ptype_code (w_type m))]
                 ++ w_payload m ++ rest)
        else Err EStruct) (Ok []) ms.

Lemma encode_msgs_multi m1 m2 r : encode_msgs (m1 :: m2 :: r) = enc_multi (m1 :: m2 :: r).
Proof. reflexivity. Qed.

Lemma firstn_app_exact {A} (a b : list A) : firstn (length a) (a ++ b) = a.
Proof. rewrite firstn_app, Nat.sub_diag, firstn_all. cbn. apply app_nil_r. Qed.
Lemma skipn_app_exact {A} (a b : list A) : skipn (length a) (a ++ b) = b.
Proof. rewrite skipn_app, Nat.sub_diag, skipn_all. reflexivity. Qed.

Lemma decode_enc_multi ms : forall p rest, enc_multi ms = Ok p ->
  decode_multi (length ms) (p ++ rest) = Ok ms.
Proof.
  induction ms as [|m ms IH]; intros p rest E.
  - reflexivity.
  - cbn [enc_multi fold_right] in E. fold (enc_multi ms) in E.
    destruct (enc_multi ms) as [q|] eqn:Eq; cbn [bind] in E; [|discriminate].
    destruct (in_range 16 (len (w_payload m)) && in_range 16 (w_seq m)) eqn:Hr; [|discriminate].
    injection E as <-.
    apply andb_prop in Hr as [Hl Hs]. apply in_range_spec in Hl; [|lia]. apply in_range_spec in Hs; [|lia].
    cbn [length decode_multi].
    cbn [be app length Nat.ltb Nat.leb sub firstn skipn].
    unfold unbe; cbn [fold_left]. rewrite !Z_of_byte_of_Z.
    pose proof (ptype_code_range (w_type m)).
    replace (0 * 256 + ptype_code (w_type m) mod 256) with (ptype_code (w_type m)) by lia.
    rewrite ptype_code_roundtrip.
    replace ((0 * 256 + len (w_payload m) / 256 mod 256) * 256 + len (w_payload m) mod 256)
      with (len (w_payload m)) by lia.
    replace ((0 * 256 + w_seq m / 256 mod 256) * 256 + w_seq m mod 256) with (w_seq m) by lia.
    unfold len. rewrite Nat2Z.id.
    rewrite <- !app_assoc.
    unfold sub. cbn [Nat.add skipn].
    rewrite firstn_app_exact, skipn_app_exact.
    rewrite (IH q rest eq_refl). cbn [bind]. destruct m; reflexivity.
Qed.

Lemma msgs_roundtrip ms p t : encode_msgs ms = Ok p ->
  (forall m, ms = [m] -> w_type m = t) ->
  decode_msgs t (len ms) p = Ok ms.
Proof.
  intros E Ht. destruct ms as [|m1 [|m2 r]].
  - reflexivity.
  - cbn [encode_msgs] in E. destruct (in_range 16 (w_seq m1)) eqn:Hs; [|discriminate].
    injection E as <-. apply in_range_spec in Hs; [|lia].
    unfold decode_msgs. cbn [len length Z.of_nat Pos.of_succ_nat Z.eqb Pos.eqb].
    cbn [be app length Nat.ltb Nat.leb sub firstn skipn].
    unfold unbe; cbn [fold_left]. rewrite !Z_of_byte_of_Z.
    replace ((0 * 256 + w_seq m1 / 256 mod 256) * 256 + w_seq m1 mod 256) with (w_seq m1) by lia.
    rewrite <- (Ht m1 eq_refl). destruct m1; reflexivity.
  - rewrite encode_msgs_multi in E. unfold decode_msgs.
    assert (Hc : len (m1 :: m2 :: r) >= 2) by (unfold len; cbn [length]; lia).
    replace (len (m1 :: m2 :: r) =? 1) with false by lia.
    replace (len (m1 :: m2 :: r) >? 1) with true by lia.
    unfold len. rewrite Nat2Z.id.
    rewrite <- (app_nil_r p). apply decode_enc_multi. exact E.
Qed.

Lemma firstn_be n z rest : firstn n (be n z ++ rest) = be n z.
Proof. rewrite <- (be_length n z) at 1. apply firstn_app_exact. Qed.

(* ---------- datagram framing round trip (any crc, any correct AEAD) ---------- *)
Section FramingP.
  Variable crc : list byte -> Z.
  Variable seal : Z -> list byte -> list byte -> list byte -> list byte.
  Variable open : Z -> list byte -> list byte -> list byte -> option (list byte).
  Hypothesis crc_range : forall l, 0 <= crc l < 2 ^ 32.
  Hypothesis open_seal : forall k iv aad p, open k iv aad (seal k iv aad p) = Some p.
  Hypothesis seal_length : forall k iv aad p, length (seal k iv aad p) = (length p + 16)%nat.

  Definition built_header (h0 : header) (ms : list wmsg) (payload : list byte) : header :=
    {| h_to_server := h_to_server h0; h_ctime := h_ctime h0; h_seq := h_seq h0; h_ack := h_ack h0;
       h_type := h_type h0; h_len := len payload; h_count := len ms; h_ackbits := h_ackbits h0 |}.

  (* which key the receiver must hold to decode what `to_bytes key` produced *)
  Definition rx_key (key : option Z) (t : ptype) : option Z :=
    match key with Some k => if negb (ptype_eqb t SERVER_HELLO) then Some k else None | None => None end.

  Theorem pkt_roundtrip key h0 ms d extra :
    to_bytes crc seal key h0 ms = Ok d ->
    (forall m, ms = [m] -> w_type m = h_type h0) ->
    exists payload,
      encode_msgs ms = Ok payload /\
      len d = 20 + len payload + (match rx_key key (h_type h0) with Some _ => 16 | None => 4 end) /\
      decode_header (h_to_server h0) (d ++ extra) = Ok (built_header h0 ms payload) /\
      from_bytes crc open (rx_key key (h_type h0)) (built_header h0 ms payload) (d ++ extra) = Ok ms.
  Proof.
    intros E Ht. unfold to_bytes in E.
    destruct (encode_msgs ms) as [payload|] eqn:Ep; cbn [bind] in E; [|discriminate].
    fold (built_header h0 ms payload) in E. set (h := built_header h0 ms payload) in *.
    destruct (encode_header h) as [hb|] eqn:Eh; cbn [bind] in E; [|discriminate].
    exists payload. split; [reflexivity|]. fold h.
    assert (Hok : header_ok h = true) by (unfold encode_header in Eh; destruct (header_ok h); [reflexivity|discriminate]).
    destruct (hdr_roundtrip h Hok) as [bs [Eb [Lb Db]]]. rewrite Eh in Eb. injection Eb as <-.
    assert (Hts : h_to_server h = h_to_server h0) by reflexivity.
    assert (Hty : h_type h = h_type h0) by reflexivity.
    assert (Hdec : decode_msgs (h_type h) (h_count h) payload = Ok ms).
    { apply msgs_roundtrip; [exact Ep|]. intros m Hm. rewrite Hty. apply Ht. exact Hm. }
    assert (Hlen : h_len h = len payload) by reflexivity.
    assert (Clear_case : forall dd, dd = hb ++ payload ++ be 4 (crc (hb ++ payload)) ->
              len dd = 20 + len payload + 4 /\
              decode_header (h_to_server h0) (dd ++ extra) = Ok h /\
              from_bytes crc open None h (dd ++ extra) = Ok ms).
    { intros dd ->. split; [|split].
      - unfold len. rewrite !app_length, be_length, Lb. lia.
      - rewrite <- Hts, <- app_assoc. apply Db.
      - unfold from_bytes. rewrite Hlen.
        replace (20 + len payload >? len ((hb ++ payload ++ be 4 (crc (hb ++ payload))) ++ extra)) with false
          by (unfold len; rewrite !app_length, be_length, Lb; lia).
        replace (Z.to_nat (20 + len payload)) with (length (hb ++ payload))
          by (unfold len; rewrite app_length, Lb; lia).
        replace ((hb ++ payload ++ be 4 (crc (hb ++ payload))) ++ extra)
          with ((hb ++ payload) ++ be 4 (crc (hb ++ payload)) ++ extra) by (rewrite <- !app_assoc; reflexivity).
        rewrite firstn_app_exact. unfold sub. rewrite skipn_app_exact.
        rewrite firstn_be, be_length. cbn [Nat.ltb Nat.leb].
        rewrite unbe_be by (pose proof (crc_range (hb ++ payload)); cbn; lia).
        rewrite Z.eqb_refl. cbn [negb bind].
        replace 20%nat with (length hb) by exact Lb. rewrite skipn_app_exact. exact Hdec. }
    unfold rx_key. destruct key as [k|].
    - destruct (negb (ptype_eqb (h_type h) SERVER_HELLO)) eqn:Hsh; rewrite Hty in Hsh; rewrite Hsh.
      + assert (Ed : d = hb ++ seal k (firstn 12 hb) hb payload) by congruence. subst d. clear E.
        split; [|split].
        * unfold len. rewrite app_length, seal_length, Lb. lia.
        * rewrite <- Hts, <- app_assoc. apply Db.
        * unfold from_bytes. rewrite Hlen.
          replace (20 + len payload >? len ((hb ++ seal k (firstn 12 hb) hb payload) ++ extra)) with false
            by (unfold len; rewrite !app_length, seal_length, Lb; lia).
          rewrite <- app_assoc.
          replace (firstn 12 (hb ++ seal k (firstn 12 hb) hb payload ++ extra)) with (firstn 12 hb)
            by (rewrite firstn_app, Lb; cbn [Nat.sub firstn]; rewrite app_nil_r; reflexivity).
          replace 20%nat with (length hb) by exact Lb. rewrite firstn_app_exact.
          unfold sub. rewrite skipn_app_exact.
          replace (Z.to_nat (len payload) + 16)%nat with (length (seal k (firstn 12 hb) hb payload))
            by (rewrite seal_length; unfold len; lia).
          rewrite firstn_app_exact, open_seal. cbn [bind]. exact Hdec.
      + apply Clear_case. congruence.
    - apply Clear_case. congruence.
  Qed.
End FramingP.
