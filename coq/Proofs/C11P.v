(* C11P.v — proofs of the C11 statements (hostile datagrams) *)
From Coq Require Import Lia ZifyBool.
From RecordUpdate Require Import RecordUpdate.
From Model Require Import Base SeqNum Wire Conn Server.
From Proofs Require Import Tac ServerP.
Import RecordSetNotations.
Open Scope Z_scope.

Theorem C11_step_survives_proof : forall h e s i,
  s_dead s = false -> s_dead (fst (srv_step h e s i)) = true -> In (SDied 1) (snd (srv_step h e s i)).
Proof. intros h e s i. destruct (srv_step h e s i) as [s' o] eqn:E. simpl. eapply srv_step_survives; eauto. Qed.

Theorem C11_run_survives_proof : forall h e is s,
  s_dead s = false -> ~ In (SDied 1) (snd (srv_run h e s is)) -> s_dead (fst (srv_run h e s is)) = false.
Proof.
  intros h e. induction is as [|i r IH]; simpl; intros s D N; auto.
  destruct (srv_step h e s i) as [s1 o1] eqn:S1. specialize (IH s1).
  destruct (srv_run h e s1 r) as [s2 o2] eqn:R. simpl in *.
  apply IH.
  - destruct (s_dead s1) eqn:D1; auto. exfalso. apply N. apply in_app_iff. left.
    eapply srv_step_survives; eauto.
  - intros X. apply N. apply in_app_iff. auto.
Qed.

(* a step whose get_token calls all find an acceptable value does not stop: SDied 1 is only
   emitted by srv_msg when get_token returns None *)
Theorem C11_get_token_total_proof : forall used rand,
  (exists r, In r rand /\ mask_token r <> 0 /\ ~ In (mask_token r) used) -> get_token used rand <> None.
Proof. exact get_token_some. Qed.

Definition with_batch (i : sin) (b : list witem) : sin :=
  {| i_td := i_td i; i_ts := i_ts i; i_batch := b; i_rand := i_rand i; i_stop := i_stop i |}.

Theorem C11_blocklist_first_proof : forall h e s i,
  srv_step h e s i
  = srv_step h e s (with_batch i (filter (fun it => negb (blocked (s_block s) it)) (i_batch i))).
Proof.
  intros. unfold srv_step. destruct (negb (s_active s) || s_dead s); auto.
  unfold srv_du, srv_sx, with_batch; simpl.
  rewrite (disp_all_blocked h e (i_td i) (i_batch i) (s <| s_rand := i_rand i |>)). simpl. reflexivity.
Qed.

(* ---------- datagrams that are not authentic for a key-holding connection ---------- *)
Lemma ptype_eqb_eq a b : ptype_eqb a b = true -> a = b.
Proof. destruct a, b; unfold ptype_eqb; simpl; intros H; try reflexivity; discriminate. Qed.

Lemma header_eqb_eq a b : header_eqb a b = true -> a = b.
Proof.
  destruct a, b. unfold header_eqb; simpl. rewrite !andb_true_iff.
  intros (((((((A & B) & C) & D) & E) & F) & G) & H).
  apply Bool.eqb_prop in A. apply ptype_eqb_eq in E.
  assert (h_ctime = h_ctime0) by lia. assert (h_seq = h_seq0) by lia. assert (h_ack = h_ack0) by lia.
  assert (h_len = h_len0) by lia. assert (h_count = h_count0) by lia. assert (h_ackbits = h_ackbits0) by lia.
  subst. reflexivity.
Qed.

Lemma open_dgram_authentic k d ms : open_dgram (Some k) d = Ok ms -> exists p, d_body d = Sealed k (d_hdr d) p.
Proof.
  unfold open_dgram. destruct (d_body d) as [k' sh p| |]; simpl; try discriminate.
  destruct ((k =? k') && header_eqb sh (d_hdr d)) eqn:E; simpl; [|discriminate].
  intros _. apply andb_true_iff in E. destruct E as [E1 E2].
  apply header_eqb_eq in E2. assert (k = k') by lia. subst. eauto.
Qed.

Theorem C11_unauthentic_dropped_proof : forall h e s cid now d xs cl k,
  sfind cid s = Some cl -> c_key (cl_conn cl) = Some k ->
  (forall p, d_body d <> Sealed k (d_hdr d) p) ->
  srv_recv h e s cid now d xs = (supd cid (fun c => c <| c_dropped := c_dropped c + 1 |>) s, [], false).
Proof.
  intros h e s cid now d xs cl k F K N. unfold srv_recv. rewrite F.
  destruct (keyless_refuses _ _); auto. rewrite K.
  destruct (open_dgram (Some k) d) as [ms|er] eqn:O; auto.
  apply open_dgram_authentic in O. destruct O as [p O]. exfalso. eapply N; eauto.
Qed.

(* the same fact for one connection of Conn.v (C01 proves it at length; here for C11's use) *)
Theorem recv_unauthentic_drop_proof : forall c now d orcs k,
  c_key c = Some k -> (forall p, d_body d <> Sealed k (d_hdr d) p) ->
  recv c now d orcs = (c <| c_dropped := c_dropped c + 1 |>, [ORet false]).
Proof.
  intros c now d orcs k K N. unfold recv. destruct (keyless_refuses _ _); auto. rewrite K.
  destruct (open_dgram (Some k) d) as [ms|er] eqn:O; auto.
  apply open_dgram_authentic in O. destruct O as [p O]. exfalso. eapply N; eauto.
Qed.
