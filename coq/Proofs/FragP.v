(* FragP.v — fragmentation and reassembly (C06): FragmentSender.build splits exactly, send
   queues the fragment messages / refuses oversized payloads, and _recvAppFragment reassembles
   under any arrival order, repetition and interleaving as long as the expiry sweep does not
   hit the context. *)
From Coq Require Import Lia ZifyBool.
From RecordUpdate Require Import RecordUpdate.
From Model Require Import Base SeqNum Wire Conn PackEnv Frag.
From Proofs Require Import Tac SeqNumP WireP PackP C09P ConnUpdP.
Import RecordSetNotations.
Open Scope Z_scope.
Ltac Zify.zify_post_hook ::= Z.to_euclidean_division_equations.

Ltac usimp := cbv beta iota zeta; autorewrite with upd.

(* ------------------------------------------------------------------ splitting *)

(* what Packet.setMTU guarantees about the fragment size (for every mtu >= 512) *)
Definition env_ok (e : env) : Prop := 1 <= e_max_frag e /\ e_max_frag e + 6 <= e_max_payload e.

Lemma env_spec_ok mtu : 512 <= mtu -> env_ok (env_spec mtu).
Proof. intros H. unfold env_ok, env_spec. cbn [e_max_frag e_max_payload]. destruct (mtu <? 1096) eqn:E; lia. Qed.

Lemma split_frags_spec e : env_ok e -> forall fuel p, (length p < fuel)%nat ->
  let fr := split_frags fuel e p in
  concat fr = p
  /\ Forall (fun f => f <> [] /\ len f + 6 <= e_max_payload e) fr
  /\ (p <> [] -> fr <> [] /\ len fr * e_max_frag e <= len p + e_max_frag e - 1)
  /\ (p = [] -> fr = []).
Proof.
  intros [Hf1 Hf2]. induction fuel as [|fuel IH]; intros p Hlt; [lia|].
  cbn [split_frags]. destruct (length p =? 0)%nat eqn:E0.
  - assert (p = []) by (destruct p; [reflexivity|cbn in E0; discriminate]). subst p.
    cbn [concat]. split; [reflexivity|]. split; [constructor|].
    split; [intros Hc; contradiction Hc; reflexivity|reflexivity].
  - assert (Hne : p <> []) by (intros ->; cbn in E0; discriminate).
    assert (Hlp : 1 <= len p) by (unfold len; destruct p; [contradiction Hne; reflexivity|cbn [length]; lia]).
    destruct (len p <? e_max_payload e - 6) eqn:E1.
    + cbn [concat]. rewrite app_nil_r. split; [reflexivity|]. split; [constructor; [split; [exact Hne|lia]|constructor]|].
      split; [intros _; split; [discriminate|change (len [p]) with 1; lia]|intros ->; contradiction Hne; reflexivity].
    + set (nf := Z.to_nat (e_max_frag e)).
      assert (Hnf : (nf <= length p)%nat) by (unfold len in *; lia).
      assert (Hsk : (length (skipn nf p) < fuel)%nat) by (rewrite skipn_length; lia).
      destruct (IH (skipn nf p) Hsk) as (C1 & C2 & C3 & C4).
      cbn [concat]. rewrite C1, firstn_skipn. split; [reflexivity|].
      assert (Hfl : length (firstn nf p) = nf) by (rewrite firstn_length; lia).
      split; [constructor; [|exact C2]|].
      * split; [intros Hx; rewrite Hx in Hfl; cbn in Hfl; lia|unfold len; rewrite Hfl; lia].
      * split; [|intros ->; contradiction Hne; reflexivity]. intros _. split; [discriminate|].
        rewrite len_cons. destruct (skipn nf p) as [|b rest] eqn:Es.
        -- rewrite (C4 eq_refl). change (len (@nil (list byte))) with 0. lia.
        -- destruct (C3 ltac:(discriminate)) as [_ C3'].
           assert (Hls : len (b :: rest) = len p - e_max_frag e).
           { rewrite <- Es. unfold len. rewrite skipn_length. lia. }
           rewrite Hls in C3'. lia.
Qed.

(* FragmentSender.build: the fragments of every payload that must be fragmented *)
Theorem split_join_proof e p : env_ok e -> 1 <= e_max_frags e ->
  e_max_payload e < len p <= e_max_frag e * e_max_frags e ->
  let fr := fragments e p in
  concat fr = p
  /\ Forall (fun f => f <> [] /\ len f + 6 <= e_max_payload e) fr
  /\ 2 <= len fr <= e_max_frags e.
Proof.
  intros He Hfs Hp. pose proof He as [Hf1 Hf2]. unfold fragments.
  destruct (split_frags_spec e He (S (length p)) p ltac:(lia)) as (C1 & C2 & C3 & _).
  assert (Hne : p <> []) by (intros ->; cbn in Hp; lia).
  destruct (C3 Hne) as [C3a C3b].
  split; [exact C1|]. split; [exact C2|]. split.
  - (* at least two: the first slice leaves a non-empty remainder *)
    cbn [split_frags] in *.
    replace (length p =? 0)%nat with false in * by (unfold len in Hp; lia).
    replace (len p <? e_max_payload e - 6) with false in * by lia.
    set (nf := Z.to_nat (e_max_frag e)) in *.
    assert (Hrest : skipn nf p <> []).
    { intros Hx. assert (length (skipn nf p) = 0%nat) by (rewrite Hx; reflexivity).
      rewrite skipn_length in H. unfold len in Hp. lia. }
    destruct (split_frags_spec e He (length p) (skipn nf p) ltac:(rewrite skipn_length; unfold len in Hp; lia))
      as (_ & _ & D3 & _).
    destruct (D3 Hrest) as [D3a _]. rewrite len_cons.
    destruct (split_frags (length p) e (skipn nf p)) as [|f1 fr1]; [exfalso; apply D3a; reflexivity|]. rewrite len_cons.
    pose proof (len_nonneg fr1). lia.
  - pose proof (len_nonneg (split_frags (S (length p)) e p)). nia.
Qed.

(* ------------------------------------------------------------------ send *)

Lemma send_type_outgoing c ty p r k :
  exists m, c_outgoing (send_type c ty p r k) = c_outgoing c ++ [m] /\ m_payload m = p /\ m_type m = ty /\ m_retry m = r.
Proof. unfold send_type. usimp. eexists. split; [reflexivity|]. repeat split. Qed.

Lemma send_type_frame c ty p r k :
  c_seq_frag (send_type c ty p r k) = c_seq_frag c /\ c_status (send_type c ty p r k) = c_status c.
Proof. unfold send_type. usimp. split; reflexivity. Qed.

Lemma send_frags_outgoing frags : forall c fid n r i,
  map m_payload (c_outgoing (send_frags c fid n r i frags)) = map m_payload (c_outgoing c) ++ frag_payloads fid n i frags
  /\ map m_type (c_outgoing (send_frags c fid n r i frags)) = map m_type (c_outgoing c) ++ repeat APP_FRAGMENT (length frags).
Proof.
  induction frags as [|f frags IH]; intros c fid n r i; cbn [send_frags frag_payloads repeat length].
  - rewrite !app_nil_r. split; reflexivity.
  - destruct (IH (send_type c APP_FRAGMENT (be 2 fid ++ be 2 (1 + i) ++ be 2 n ++ f) r (IFrag fid i)) fid n r (i + 1)) as [I1 I2].
    destruct (send_type_outgoing c APP_FRAGMENT (be 2 fid ++ be 2 (1 + i) ++ be 2 n ++ f) r (IFrag fid i)) as (m & Eo & Ep & Et & _).
    rewrite I1, I2, Eo, !map_app. cbn [map]. rewrite Ep, Et, <- !app_assoc. split; reflexivity.
Qed.

(* a payload above the single-datagram limit and within the fragment limit is queued as the
   fragment messages of its fragments, under a fresh fragment id, nothing else *)
Theorem send_fragmented_proof e c p r k :
  c_status c = CONNECTED -> e_max_payload e < len p <= e_max_frag e * e_max_frags e ->
  let fid := seq_succ (c_seq_frag c) in
  let fr := fragments e p in
  snd (send e c p r k) = []
  /\ map m_payload (c_outgoing (fst (send e c p r k))) = map m_payload (c_outgoing c) ++ frag_payloads fid (len fr) 0 fr
  /\ map m_type (c_outgoing (fst (send e c p r k))) = map m_type (c_outgoing c) ++ repeat APP_FRAGMENT (length fr).
Proof.
  intros Hst Hp. unfold send. rewrite Hst. cbn [status_eqb status_code Z.eqb negb Pos.eqb].
  replace (len p >? e_max_payload e) with true by lia.
  replace (len p >? e_max_frag e * e_max_frags e) with false by lia.
  cbv zeta. cbn [fst snd]. split; [reflexivity|]. usimp.
  destruct (send_frags_outgoing (split_frags (S (length p)) e p) (c <| c_seq_frag := seq_succ (c_seq_frag c) |>)
              (seq_succ (c_seq_frag c)) (len (split_frags (S (length p)) e p)) r 0) as [I1 I2].
  rewrite I1, I2. usimp. unfold fragments. split; reflexivity.
Qed.

(* payloads up to the single-datagram limit are not fragmented: one APP message *)
Theorem no_frag_small_proof e c p r k :
  c_status c = CONNECTED -> len p <= e_max_payload e ->
  send e c p r k = (send_type c APP p r k, [])
  /\ exists m, c_outgoing (fst (send e c p r k)) = c_outgoing c ++ [m]
               /\ m_payload m = p /\ m_type m = APP /\ m_retry m = r.
Proof.
  intros Hst Hp. unfold send. rewrite Hst. cbn [status_eqb status_code Z.eqb negb Pos.eqb].
  replace (len p >? e_max_payload e) with false by lia. split; [reflexivity|]. cbn [fst].
  apply send_type_outgoing.
Qed.

(* a payload above the fragmentation limit is refused with ValueError and nothing is queued *)
Theorem too_large_refused_proof e c p r k :
  c_status c = CONNECTED -> len p > e_max_payload e -> len p > e_max_frag e * e_max_frags e ->
  snd (send e c p r k) = [ORaise EValue]
  /\ c_outgoing (fst (send e c p r k)) = c_outgoing c
  /\ c_pfrags (fst (send e c p r k)) = c_pfrags c.
Proof.
  intros Hst H1 H2. unfold send. rewrite Hst. cbn [status_eqb status_code Z.eqb negb Pos.eqb].
  replace (len p >? e_max_payload e) with true by lia.
  replace (len p >? e_max_frag e * e_max_frags e) with true by lia.
  cbv zeta. cbn [fst snd]. usimp. repeat split.
Qed.

(* ------------------------------------------------------------------ dictionaries *)
Section DictP.
  Context {A : Type}.
  Lemma dget_dset_same k (v : A) d : dget k (dset k v d) = Some v.
  Proof.
    induction d as [|[k' v'] d IH]; cbn [dset dget]; [rewrite Z.eqb_refl; reflexivity|].
    destruct (k =? k') eqn:E; cbn [dget]; [rewrite Z.eqb_refl; reflexivity|rewrite E; exact IH].
  Qed.
  Lemma dget_dset_other k k' (v : A) d : k <> k' -> dget k (dset k' v d) = dget k d.
  Proof.
    intros Hn. induction d as [|[k1 v1] d IH]; cbn [dset dget].
    - replace (k =? k') with false by lia. reflexivity.
    - destruct (k' =? k1) eqn:E; cbn [dget].
      + replace (k =? k') with false by lia. replace (k =? k1) with false by lia. reflexivity.
      + destruct (k =? k1); [reflexivity|exact IH].
  Qed.
  Lemma dget_filter k (P : Z * A -> bool) d :
    (forall v, dget k d = Some v -> P (k, v) = true) -> dget k (filter P d) = dget k d.
  Proof.
    induction d as [|[k1 v1] d IH]; intros H; [reflexivity|]. cbn [filter dget] in *.
    destruct (k =? k1) eqn:E.
    - assert (k1 = k) by lia. subst k1. rewrite (H v1 eq_refl). cbn [dget]. rewrite E. reflexivity.
    - destruct (P (k1, v1)); cbn [dget]; rewrite ?E; apply IH; exact H.
  Qed.
  Lemma dget_ddel_same k (d : list (Z * A)) : dget k (ddel k d) = None.
  Proof.
    unfold ddel. induction d as [|[k1 v1] d IH]; [reflexivity|]. cbn [filter fst].
    destruct (k1 =? k) eqn:E; cbn [negb]; [exact IH|]. cbn [dget]. replace (k =? k1) with false by lia. exact IH.
  Qed.
  Lemma dget_ddel_other k k' (d : list (Z * A)) : k <> k' -> dget k (ddel k' d) = dget k d.
  Proof.
    intros Hn. unfold ddel. apply dget_filter. intros v _. cbn [fst]. lia.
  Qed.
End DictP.

(* ------------------------------------------------------------------ receiving *)

(* slots of a receiver that has the fragments marked in `have` *)
Fixpoint slots (have : list bool) (frags : list (list byte)) : list (option (list byte)) :=
  match have, frags with
  | b :: hr, f :: fr => (if b then Some f else None) :: slots hr fr
  | _, _ => []
  end.

Lemma slots_length have frags : length have = length frags -> length (slots have frags) = length frags.
Proof.
  revert frags. induction have as [|b h IH]; intros [|f fr] H; cbn in *; try lia. rewrite IH; lia.
Qed.

Lemma slots_repeat_false frags : slots (repeat false (length frags)) frags = repeat None (length frags).
Proof. induction frags as [|f fr IH]; [reflexivity|]. cbn. rewrite IH. reflexivity. Qed.

Lemma slots_receive have : forall frags i, length have = length frags -> (i < length frags)%nat ->
  match nth_error (slots have frags) i with
  | Some None => set_nth i (Some (nth i frags [])) (slots have frags)
  | _ => slots have frags
  end = slots (set_nth i true have) frags.
Proof.
  induction have as [|b h IH]; intros [|f fr] i Hl Hi; cbn [length] in *; try lia.
  destruct i as [|i]; cbn [slots nth_error set_nth nth].
  - destruct b; reflexivity.
  - specialize (IH fr i ltac:(lia) ltac:(lia)).
    destruct (nth_error (slots h fr) i) as [[x|]|] eqn:E; cbn [set_nth]; rewrite <- IH; reflexivity.
Qed.

Lemma slots_complete have : forall frags, length have = length frags -> Forall (fun f => f <> []) frags ->
  forallb truthy (slots have frags) = all_true have.
Proof.
  unfold all_true. induction have as [|b h IH]; intros [|f fr] Hl Hne; cbn [length] in *; try lia; [reflexivity|].
  inversion Hne; subst. cbn [slots forallb]. rewrite IH by (try lia; assumption).
  destruct b; [|reflexivity]. destruct f; [contradiction H1; reflexivity|reflexivity].
Qed.

Lemma slots_payload have : forall frags, length have = length frags -> all_true have = true ->
  concat (map (fun o => match o with Some b => b | None => [] end) (slots have frags)) = concat frags.
Proof.
  unfold all_true. induction have as [|b h IH]; intros [|f fr] Hl Ha; cbn [length] in *; try lia; [reflexivity|].
  cbn [forallb] in Ha. apply andb_prop in Ha as [Hb Ha]. subst b. cbn [slots map concat]. rewrite IH by (try lia; assumption).
  reflexivity.
Qed.

Lemma set_nth_length {A} i (x : A) l : length (set_nth i x l) = length l.
Proof. revert i. induction l as [|y l IH]; intros [|i]; cbn; try reflexivity. rewrite IH. reflexivity. Qed.

Lemma any_true_repeat n : any_true (repeat false n) = false.
Proof. unfold any_true. induction n; [reflexivity|]. cbn. exact IHn. Qed.

Lemma any_true_set i have : (i < length have)%nat -> any_true (set_nth i true have) = true.
Proof.
  unfold any_true. revert i. induction have as [|b h IH]; intros [|i] H; cbn [length] in *; try lia; cbn [set_nth existsb].
  - reflexivity.
  - rewrite IH by lia. apply orb_true_r.
Qed.

(* the model state agrees with the abstract receiver for fragment id fid *)
Definition frag_rel (fid : Z) (frags : list (list byte)) (c : conn) (st : rstate) : Prop :=
  length (r_have st) = length frags /\
  if any_true (r_have st)
  then dget fid (c_rfrags c) = Some {| fr_frags := slots (r_have st) frags; fr_ctime := r_t0 st;
                                       fr_msgseq := r_seq st; fr_count := len frags |}
  else dget fid (c_rfrags c) = None.

Lemma frag_payload_parse fid idx n f : 0 <= fid < 2 ^ 16 -> 0 <= idx < 2 ^ 16 -> 0 <= n < 2 ^ 16 ->
  let fr := frag_payload fid idx n f in
  (length fr <? 6)%nat = false /\ unbe (sub fr 0 2) = fid /\ unbe (sub fr 2 2) = idx /\ unbe (sub fr 4 2) = n
  /\ skipn 6 fr = f.
Proof.
  intros H1 H2 H3. unfold frag_payload.
  assert (Hb : forall z, 0 <= z < 2 ^ 16 -> exists a b, be 2 z = [a; b] /\ unbe [a; b] = z).
  { intros z Hz. exists (byte_of_Z (z / 256)), (byte_of_Z z). split; [reflexivity|].
    change [byte_of_Z (z / 256); byte_of_Z z] with (be 2 z). apply unbe_be. cbn. lia. }
  destruct (Hb fid H1) as (a1 & b1 & E1 & U1). destruct (Hb idx H2) as (a2 & b2 & E2 & U2).
  destruct (Hb n H3) as (a3 & b3 & E3 & U3). rewrite E1, E2, E3.
  cbn [app length Nat.ltb Nat.leb sub skipn firstn]. repeat split; assumption.
Qed.

(* one arrival of a fragment of the payload under observation *)
Lemma recv_mine fid frags c st i mseq now :
  0 <= fid < 2 ^ 16 -> len frags < 2 ^ 16 -> Forall (fun f => f <> []) frags ->
  frag_rel fid frags c st -> (i < length frags)%nat ->
  (any_true (r_have st) = true -> in_time (length (r_have st)) (r_t0 st) now) ->
  let c' := fst (fev_apply fid frags c (FMine i mseq now)) in
  let '(st', d) := spec_step st (FMine i mseq now) in
  snd (fev_apply fid frags c (FMine i mseq now)) = []
  /\ frag_rel fid frags c' st'
  /\ c_incoming c' = c_incoming c ++ match d with Some sq => [(sq, concat frags)] | None => [] end.
Proof.
  intros Hfid Hn Hne [Hl Hrel] Hi Htime. cbn [fev_apply spec_step].
  pose proof (len_nonneg frags) as Hn0.
  destruct (frag_payload_parse fid (Z.of_nat i + 1) (len frags) (nth i frags []) Hfid ltac:(unfold len in *; lia) ltac:(lia))
    as (P0 & P1 & P2 & P3 & P4).
  unfold recv_fragment. rewrite P0, P1, P2, P3, P4. cbv zeta.
  set (have := r_have st) in *. set (have' := set_nth i true have).
  assert (Hl' : length have' = length frags) by (unfold have'; rewrite set_nth_length; exact Hl).
  (* the context before this arrival: existing or fresh, in one form *)
  set (started := any_true have) in *.
  set (t0 := if started then r_t0 st else now).
  set (sq0 := if started then r_seq st else 0).
  assert (Hfr0 : match dget fid (c_rfrags c) with
                 | Some fr => fr
                 | None => {| fr_frags := repeat None (Z.to_nat (len frags)); fr_ctime := now; fr_msgseq := 0;
                              fr_count := len frags |}
                 end = {| fr_frags := slots have frags; fr_ctime := t0; fr_msgseq := sq0; fr_count := len frags |}).
  { unfold t0, sq0. destruct started eqn:Es; rewrite Hrel; [reflexivity|].
    assert (Hh : have = repeat false (length frags)).
    { clear -Es Hl. unfold started, any_true in Es. revert Hl. generalize (length frags) as n.
      induction have as [|b h IH]; intros [|n] Hl; cbn in *; try lia; [reflexivity|].
      destruct b; [discriminate|]. cbn in Es. f_equal. apply IH; [exact Es|lia]. }
    rewrite Hh, slots_repeat_false. unfold len. rewrite Nat2Z.id. reflexivity. }
  rewrite Hfr0. clear Hfr0.
  (* receive *)
  unfold fr_receive. cbn [fr_frags fr_ctime fr_msgseq fr_count].
  assert (Hsl : len (slots have frags) = len frags) by (unfold len; rewrite slots_length; [reflexivity|exact Hl]).
  replace ((1 <=? Z.of_nat i + 1) && (Z.of_nat i + 1 <=? len (slots have frags))) with true by (unfold len in *; lia).
  replace (Z.to_nat (Z.of_nat i + 1 - 1)) with i by lia.
  rewrite (slots_receive have frags i Hl Hi). fold have'.
  replace (Z.of_nat i + 1 =? 1) with (i =? 0)%nat by lia.
  set (sq := if (i =? 0)%nat then mseq else sq0).
  unfold fr_complete, fr_payload. cbn [fr_frags fr_msgseq].
  rewrite (slots_complete have' frags Hl' Hne).
  destruct (all_true have') eqn:Hall.
  - (* complete: delivered, context removed *)
    cbn [fst snd]. split; [reflexivity|]. unfold recv_app. usimp. split.
    + split; [cbn [rstate0 r_have]; rewrite repeat_length; exact Hl'|].
      cbn [rstate0 r_have]. rewrite any_true_repeat. usimp.
      rewrite dget_filter; [apply dget_ddel_same|]. intros v Hv. rewrite dget_ddel_same in Hv. discriminate.
    + rewrite (slots_payload have' frags Hl' Hall). reflexivity.
  - (* still open *)
    cbn [fst snd]. split; [reflexivity|]. usimp. split; [|rewrite app_nil_r; reflexivity].
    split; [exact Hl'|]. cbn [r_have r_t0 r_seq].
    unfold have'. rewrite any_true_set by (rewrite Hl; exact Hi). fold have'. usimp.
    rewrite dget_filter; [apply dget_dset_same|].
    intros v Hv. rewrite dget_dset_same in Hv. injection Hv as <-.
    unfold fr_expired. cbn [snd fr_ctime fr_count]. unfold t0.
    destruct started eqn:Es.
    + specialize (Htime eq_refl). unfold in_time in Htime. fold have in Htime. rewrite Hl in Htime. unfold len. lia.
    + unfold TICKS, len. lia.
Qed.

(* one arrival of anything else *)
Lemma recv_other fid frags c st frag mseq now :
  frag_rel fid frags c st -> other_ok fid (FOther frag mseq now) ->
  (any_true (r_have st) = true -> in_time (length (r_have st)) (r_t0 st) now) ->
  frag_rel fid frags (fst (fev_apply fid frags c (FOther frag mseq now))) st.
Proof.
  intros [Hl Hrel] Hok Htime. cbn [fev_apply]. unfold recv_fragment.
  destruct (length frag <? 6)%nat eqn:E6; [split; assumption|].
  destruct Hok as [Hs|Hid]; [lia|]. cbv zeta.
  set (fid' := unbe (sub frag 0 2)) in *.
  match goal with |- context [fr_receive ?a ?b ?c ?d] => set (fr := fr_receive a b c d) end.
  split; [exact Hl|].
  assert (Hkeep : forall d, dget fid d = dget fid (c_rfrags c) ->
            dget fid (filter (fun p => negb (fr_expired now (snd p))) d) = dget fid (c_rfrags c)).
  { intros d Hd. rewrite dget_filter; [exact Hd|]. intros v Hv. rewrite Hd in Hv.
    destruct (any_true (r_have st)) eqn:Es; rewrite Hrel in Hv; [|discriminate]. injection Hv as <-.
    unfold fr_expired. cbn [snd fr_ctime fr_count]. specialize (Htime eq_refl). unfold in_time in Htime.
    rewrite Hl in Htime. unfold len. lia. }
  destruct (fr_complete fr); cbn [fst]; unfold recv_app; usimp.
  - rewrite Hkeep; [exact Hrel|]. rewrite dget_ddel_other by (intros Hx; apply Hid; symmetry; exact Hx).
    apply dget_dset_other. intros Hx; apply Hid; symmetry; exact Hx.
  - rewrite Hkeep; [exact Hrel|]. apply dget_dset_other. intros Hx; apply Hid; symmetry; exact Hx.
Qed.

Lemma delivered_by_app c c' l : c_incoming c' = c_incoming c ++ l -> delivered_by c c' = l.
Proof. unfold delivered_by. intros ->. apply skipn_app_exact. Qed.

(* any history: what the model delivers at the arrivals of this payload's fragments is what the
   abstract receiver says — the payload, exactly at the arrivals that complete a round *)
Theorem reassemble_refines fid frags :
  0 <= fid < 2 ^ 16 -> len frags < 2 ^ 16 -> Forall (fun f => f <> []) frags ->
  forall xs c st,
  frag_rel fid frags c st ->
  Forall (fun x => match x with FMine i _ _ => (i < length frags)%nat | _ => True end) xs ->
  Forall (other_ok fid) xs -> timely st xs ->
  let '(c', ds) := feed fid frags c xs in
  let '(st', sp) := spec_run st xs in
  frag_rel fid frags c' st'
  /\ Forall2 (fun x dd => match x with
                         | (FMine _ _ _, Some sq) => dd = [(sq, concat frags)]
                         | (FMine _ _ _, None) => dd = []
                         | (FOther _ _ _, _) => True
                         end) (combine xs sp) ds.
Proof.
  intros Hfid Hn Hne. induction xs as [|x xs IH]; intros c st Hrel Hidx Hoth Htim.
  - cbn. split; [exact Hrel|constructor].
  - inversion Hidx as [|? ? Hi Hidx']; subst. inversion Hoth as [|? ? Ho Hoth']; subst.
    destruct Htim as [Ht Htim']. cbn [feed spec_run].
    destruct x as [i mseq now|frag mseq now].
    + pose proof (recv_mine fid frags c st i mseq now Hfid Hn Hne Hrel Hi Ht) as Hm. cbv zeta in Hm.
      destruct (spec_step st (FMine i mseq now)) as [st1 d] eqn:Es.
      destruct Hm as (_ & Hrel1 & Hinc). cbn [fst] in Htim'.
      set (c1 := fst (fev_apply fid frags c (FMine i mseq now))) in *.
      specialize (IH c1 st1 Hrel1 Hidx' Hoth' Htim').
      destruct (feed fid frags c1 xs) as [c2 ds]. destruct (spec_run st1 xs) as [st2 sp].
      destruct IH as [IH1 IH2]. split; [exact IH1|]. cbn [combine]. constructor; [|exact IH2].
      rewrite (delivered_by_app _ _ _ Hinc). destruct d; reflexivity.
    + pose proof (recv_other fid frags c st frag mseq now Hrel Ho Ht) as Hrel1.
      cbn [spec_step fst] in *.
      set (c1 := fst (fev_apply fid frags c (FOther frag mseq now))) in *.
      specialize (IH c1 st Hrel1 Hidx' Hoth' Htim').
      destruct (feed fid frags c1 xs) as [c2 ds]. destruct (spec_run st xs) as [st2 sp].
      destruct IH as [IH1 IH2]. split; [exact IH1|]. cbn [combine]. constructor; [exact I|exact IH2].
Qed.

(* ------------------------------------------------------------------ exactly once, exactly at the last missing index *)

Fixpoint mine_idx (xs : list fev) : list nat :=
  match xs with [] => [] | FMine i _ _ :: r => i :: mine_idx r | FOther _ _ _ :: r => mine_idx r end.

Lemma all_true_hole l i : nth i l true = false -> all_true l = false.
Proof.
  unfold all_true. revert i. induction l as [|b l IH]; intros [|i] H; cbn in *; try discriminate.
  - subst b. reflexivity.
  - rewrite (IH i H). apply andb_false_r.
Qed.

Lemma all_true_full l : (forall j, (j < length l)%nat -> nth j l false = true) -> all_true l = true.
Proof.
  unfold all_true. induction l as [|b l IH]; intros H; [reflexivity|]. cbn [forallb].
  pose proof (H 0%nat ltac:(cbn; lia)) as H0. cbn [nth] in H0. subst b. cbn [andb].
  apply IH. intros j Hj. apply (H (S j)). cbn. lia.
Qed.

Lemma nth_set_nth l : forall k j d, (k < length l)%nat ->
  nth j (set_nth k true l) d = if (j =? k)%nat then true else nth j l d.
Proof.
  induction l as [|b l IH]; intros [|k] [|j] d H; cbn [length] in *; try lia; cbn [set_nth nth]; try reflexivity.
  rewrite IH by lia. reflexivity.
Qed.

Lemma timely_app a : forall st b, timely st (a ++ b) -> timely st a /\ timely (fst (spec_run st a)) b.
Proof.
  induction a as [|x a IH]; intros st b H; [split; [exact I|exact H]|].
  cbn [app timely spec_run] in *. destruct H as [H1 H2]. destruct (IH _ _ H2) as [I1 I2].
  split; [split; assumption|]. destruct (spec_step st x) as [st1 d]. cbn [fst] in *.
  destruct (spec_run st1 a) as [st2 ds]. exact I2.
Qed.

(* while index i is missing nothing is delivered and the round stays open *)
Lemma spec_run_incomplete xs : forall st i,
  nth i (r_have st) true = false -> ~ In i (mine_idx xs) ->
  Forall (fun x => match x with FMine j _ _ => (j < length (r_have st))%nat | _ => True end) xs ->
  let '(st', sp) := spec_run st xs in
  Forall (fun d => d = None) sp /\ nth i (r_have st') true = false /\ length (r_have st') = length (r_have st)
  /\ forall j, nth j (r_have st') false = nth j (r_have st) false || existsb (Nat.eqb j) (mine_idx xs).
Proof.
  induction xs as [|x xs IH]; intros st i Hi Hnin Hidx.
  - cbn. repeat split; [constructor|exact Hi|]. intros j. rewrite orb_false_r. reflexivity.
  - inversion Hidx as [|? ? Hx Hidx']; subst. cbn [spec_run]. destruct x as [k mseq now|frag mseq now].
    + cbn [mine_idx In] in Hnin. cbn [spec_step].
      assert (Hki : k <> i) by (intros ->; apply Hnin; left; reflexivity).
      assert (Hh : nth i (set_nth k true (r_have st)) true = false).
      { rewrite nth_set_nth by exact Hx. replace (i =? k)%nat with false by lia. exact Hi. }
      rewrite (all_true_hole _ _ Hh).
      set (st1 := {| r_have := set_nth k true (r_have st); r_t0 := _; r_seq := _ |}).
      specialize (IH st1 i Hh ltac:(intros H; apply Hnin; right; exact H)).
      cbn [st1 r_have] in IH. rewrite set_nth_length in IH. specialize (IH Hidx').
      destruct (spec_run st1 xs) as [st2 sp]. destruct IH as (I1 & I2 & I3 & I4).
      split; [constructor; [reflexivity|exact I1]|]. split; [exact I2|]. split; [exact I3|].
      intros j. rewrite I4, nth_set_nth by exact Hx. cbn [mine_idx existsb].
      destruct (j =? k)%nat; [rewrite orb_true_r; reflexivity|]. reflexivity.
    + cbn [spec_step mine_idx] in *. specialize (IH st i Hi Hnin Hidx').
      destruct (spec_run st xs) as [st2 sp]. destruct IH as (I1 & I2 & I3 & I4).
      split; [constructor; [reflexivity|exact I1]|]. repeat split; assumption.
Qed.

Lemma spec_run_length xs : forall st, length (snd (spec_run st xs)) = length xs.
Proof.
  induction xs as [|x xs IH]; intros st; [reflexivity|]. cbn [spec_run].
  destruct (spec_step st x) as [st1 d]. specialize (IH st1). destruct (spec_run st1 xs) as [st2 ds].
  cbn [snd length] in *. rewrite IH. reflexivity.
Qed.

Lemma nth_repeat_false n j d : (j < n)%nat -> nth j (repeat false n) d = false.
Proof. revert j. induction n; intros [|j] H; cbn; try lia; try reflexivity. apply IHn. lia. Qed.

(* any order, any repetition, any interleaving: feeding the fragment messages of a payload delivers
   it exactly when the last missing index arrives, once, and nothing before *)
Theorem reassemble_any_order_proof fid frags pre i mseq now c :
  0 <= fid < 2 ^ 16 -> len frags < 2 ^ 16 -> Forall (fun f => f <> []) frags ->
  dget fid (c_rfrags c) = None ->
  (i < length frags)%nat -> ~ In i (mine_idx pre) ->
  (forall j, (j < length frags)%nat -> j <> i -> In j (mine_idx pre)) ->
  Forall (fun x => match x with FMine j _ _ => (j < length frags)%nat | _ => True end) pre ->
  Forall (other_ok fid) pre ->
  timely (rstate0 (length frags)) (pre ++ [FMine i mseq now]) ->
  let '(c1, ds) := feed fid frags c pre in
  (* nothing is delivered for this payload before *)
  Forall2 (fun x dd => match x with FMine _ _ _ => dd = [] | FOther _ _ _ => True end) pre ds
  /\ (* the last missing index delivers the payload, once, and closes the context *)
  let c2 := fst (fev_apply fid frags c1 (FMine i mseq now)) in
  exists sq, c_incoming c2 = c_incoming c1 ++ [(sq, concat frags)]
             /\ dget fid (c_rfrags c2) = None
             /\ snd (fev_apply fid frags c1 (FMine i mseq now)) = [].
Proof.
  intros Hfid Hn Hne Hnone Hi Hnin Hcov Hidx Hoth Htim.
  set (st0 := rstate0 (length frags)).
  assert (Hrel0 : frag_rel fid frags c st0).
  { split; [cbn; apply repeat_length|]. cbn [st0 rstate0 r_have]. rewrite any_true_repeat. exact Hnone. }
  destruct (timely_app pre st0 _ Htim) as [Ht1 Ht2].
  pose proof (reassemble_refines fid frags Hfid Hn Hne pre c st0 Hrel0 Hidx Hoth Ht1) as Href.
  assert (Hidx0 : Forall (fun x => match x with FMine j _ _ => (j < length (r_have st0))%nat | _ => True end) pre).
  { cbn [st0 rstate0 r_have]. rewrite repeat_length. exact Hidx. }
  pose proof (spec_run_incomplete pre st0 i ltac:(cbn [st0 rstate0 r_have]; apply nth_repeat_false; exact Hi) Hnin Hidx0) as Hinc.
  pose proof (spec_run_length pre st0) as Hlsp.
  destruct (feed fid frags c pre) as [c1 ds]. destruct (spec_run st0 pre) as [st1 sp]. cbn [fst snd] in Ht2, Hlsp.
  destruct Href as [Hrel1 Hds]. destruct Hinc as (Hsp & Hhole & Hlen & Hnth).
  cbn [st0 rstate0 r_have] in Hlen, Hnth. rewrite repeat_length in Hlen.
  split.
  - (* no delivery before *)
    clear -Hds Hsp Hlsp. revert sp ds Hds Hsp Hlsp. induction pre as [|x pre IH]; intros sp ds Hds Hsp Hlsp.
    + destruct sp; cbn in Hds; inversion Hds; constructor.
    + destruct sp as [|d sp]; [cbn in Hlsp; lia|]. cbn [combine] in Hds. inversion Hds; subst.
      inversion Hsp; subst. constructor; [destruct x; [assumption|exact I]|].
      apply IH with (sp := sp); [assumption|assumption|cbn in Hlsp; lia].
  - cbn [timely] in Ht2. destruct Ht2 as [Ht2 _].
    pose proof (recv_mine fid frags c1 st1 i mseq now Hfid Hn Hne Hrel1 Hi Ht2) as Hm. cbv zeta in Hm.
    cbn [spec_step] in Hm.
    assert (Hfull : all_true (set_nth i true (r_have st1)) = true).
    { apply all_true_full. intros j Hj. rewrite set_nth_length, Hlen in Hj.
      rewrite nth_set_nth by (rewrite Hlen; exact Hi). destruct (j =? i)%nat eqn:Eji; [reflexivity|].
      rewrite Hnth, nth_repeat_false by exact Hj. cbn [orb].
      apply existsb_exists. exists j. split; [apply Hcov; [exact Hj|lia]|apply Nat.eqb_refl]. }
    rewrite Hfull in Hm. destruct Hm as (Ho & Hrel2 & Hinc2).
    eexists. split; [exact Hinc2|]. split; [|exact Ho].
    destruct Hrel2 as [_ Hr2]. cbn [rstate0 r_have] in Hr2. rewrite any_true_repeat in Hr2. exact Hr2.
Qed.

(* every environment Packet.setMTU produces for mtu >= 512 *)
Lemma env_of_mtu_ok mtu e : 512 <= mtu -> env_of_mtu mtu = Ok e ->
  env_ok e /\ e_max_frags e = 8192 /\ e_max_payload e = mtu - 66
  /\ (mtu <= 65535 -> e_max_payload e < e_max_frag e * e_max_frags e).
Proof.
  intros Hm He. rewrite env_of_mtu_spec in He. injection He as <-.
  split; [apply env_spec_ok; exact Hm|]. unfold env_spec. cbn [e_max_frags e_max_payload e_max_frag].
  split; [reflexivity|]. split; [reflexivity|]. intros Hu. destruct (mtu <? 1096) eqn:E; lia.
Qed.
