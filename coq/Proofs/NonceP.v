(* NonceP.v — C03: the (direction, ctime, seq, ack) nonce of every datagram a connection builds
   is fresh, for every event history; what is emitted under a key is sealed. *)
From Coq Require Import Lia ZifyBool.
From RecordUpdate Require Import RecordUpdate.
From Model Require Import Base SeqNum Wire Conn.
From Proofs Require Import Tac SeqNumP ConnFrameP.
Import RecordSetNotations.
Open Scope Z_scope.
Ltac Zify.zify_post_hook ::= Z.to_euclidean_division_equations.

(* ---------- what one packet assembly does to the sequence counter ---------- *)
Lemma build_impl_seq e c now ka delay c' r :
  build_impl e c now ka delay = (c', r) ->
  c_server c' = c_server c /\ c_send_interval c' = c_send_interval c /\ c_last_send c' = c_last_send c /\
  c_key c' = c_key c /\
  match r with
  | None => c_seq_send c' = c_seq_send c
  | Some (h, ms) => c_seq_send c' = seq_succ (c_seq_send c) /\ h_seq h = seq_succ (c_seq_send c)
                    /\ h_ctime h = now / TICKS /\ h_to_server h = negb (c_server c)
  end.
Proof.
  unfold build_impl. intros E.
  destruct (match c_pretry_msg c with [] => _ | _ => _ end) as [[prm msgs0] cur0].
  destruct (out_pass e (c_outgoing c) msgs0 cur0) as [[rem msgs] cu].
  match type of E with (if ?b then _ else _) = _ => destruct b end.
  - injection E as <- <-. cbn. repeat split; reflexivity.
  - injection E as <- <-.
    repeat match goal with |- context [match ?x with [] => _ | _ :: _ => _ end] => destruct x end;
      cbn; repeat split; reflexivity.
Qed.

(* the result of one step as far as nonces are concerned *)
Definition emits (os : list out) : list header :=
  flat_map (fun o => match o with OEmit h _ _ => [h] | _ => [] end) os.

Lemma emits_app a b : emits (a ++ b) = emits a ++ emits b.
Proof. unfold emits. apply flat_map_app. Qed.
Lemma emits_no_emit o : no_emit o -> emits o = [].
Proof.
  induction o as [|x o IH]; intros H; [reflexivity|]. cbn.
  pose proof (H x (or_introl eq_refl)) as Hx. destruct x; try discriminate; cbn; apply IH;
    intros y Hy; apply H; right; exact Hy.
Qed.

Definition fresh_hdr (c : conn) (now : Z) (h : header) : Prop :=
  h_seq h = seq_succ (c_seq_send c) /\ h_ctime h = now / TICKS /\ h_to_server h = negb (c_server c).

Inductive built (c c' : conn) (now : Z) (o : list out) : Prop :=
  | B_none : c_seq_send c' = c_seq_send c -> c_last_send c' = c_last_send c -> emits o = [] -> built c c' now o
  | B_some : c_seq_send c' = seq_succ (c_seq_send c) -> c_last_send c' = now ->
             c_send_interval c <= now - c_last_send c ->
             (emits o = [] \/ exists h, emits o = [h] /\ fresh_hdr c now h) ->
             built c c' now o.

Lemma emit_shape c pk : forall x, In x (emit c pk) ->
  (exists e, x = ORaise e) \/
  (exists p k, x = OEmit {| h_to_server := h_to_server (fst pk); h_ctime := h_ctime (fst pk); h_seq := h_seq (fst pk);
                           h_ack := h_ack (fst pk); h_type := h_type (fst pk); h_len := len p;
                           h_count := h_count (fst pk); h_ackbits := h_ackbits (fst pk) |} k p).
Proof.
  destruct pk as [h ms]. unfold emit. intros x Hx.
  destruct (encode_msgs (map wmsg_of ms)) as [payload|er]; [|destruct Hx as [<-|[]]; left; eexists; reflexivity].
  right. exists payload.
  destruct (c_key c) as [k|]; [destruct (negb _)|]; destruct Hx as [<-|[]]; eexists; reflexivity.
Qed.

Lemma emits_emit c h ms : emits (emit c (h, ms)) = [] \/
  exists h', emits (emit c (h, ms)) = [h'] /\ h_seq h' = h_seq h /\ h_ctime h' = h_ctime h /\ h_to_server h' = h_to_server h.
Proof.
  unfold emit. destruct (encode_msgs _); [|left; reflexivity]. right.
  destruct (c_key c); [destruct (negb _)|]; eexists; (split; [reflexivity|cbn; auto]).
Qed.

Lemma build_packet_built e c now c' r :
  build_packet e c now = (c', r) ->
  c_server c' = c_server c /\ c_send_interval c' = c_send_interval c /\ c_key c' = c_key c /\
  match r with
  | None => c_seq_send c' = c_seq_send c /\ c_last_send c' = c_last_send c
  | Some (h, ms) => c_seq_send c' = seq_succ (c_seq_send c) /\ c_last_send c' = now
                    /\ c_send_interval c <= now - c_last_send c
                    /\ h_seq h = seq_succ (c_seq_send c) /\ h_ctime h = now / TICKS
                    /\ h_to_server h = negb (c_server c)
  end.
Proof.
  unfold build_packet. intros E.
  destruct (now - c_last_send c <? c_send_interval c) eqn:Hrate.
  - injection E as <- <-. repeat split; reflexivity.
  - destruct (build_impl e c now _ _) as [c1 r1] eqn:E1.
    apply build_impl_seq in E1 as (A & B & C & K & D).
    destruct r1 as [[h ms]|]; injection E as <- <-; cbn.
    + destruct D as (D1 & D2 & D3 & D4). repeat split; try assumption; lia.
    + repeat split; assumption.
Qed.

Lemma server_tick_built e c now c' o :
  server_tick e c now = (c', o) ->
  built c c' now o /\ c_server c' = c_server c /\ c_send_interval c' = c_send_interval c /\ c_key c' = c_key c.
Proof.
  unfold server_tick. intros E.
  destruct (now - c_last_send c >? c_send_interval c).
  2:{ injection E as <- <-. split; [apply B_none; auto using emits_no_emit with frame|auto]. }
  destruct (build_packet e c now) as [c1 pk] eqn:E1.
  destruct (check_timeout true c1 now) as [c2 o2] eqn:E2. injection E as <- <-.
  apply build_packet_built in E1 as (A & B & K & D).
  apply check_timeout_frame in E2 as [[[S1 S2 S3 S4 S5] SK] N2].
  split; [|repeat split; congruence].
  destruct pk as [[h ms]|].
  - destruct D as (D1 & D2 & D3 & D4 & D5 & D6).
    apply B_some; try congruence.
    rewrite emits_app, (emits_no_emit _ N2). cbn [app].
    destruct (emits_emit c2 h ms) as [->|(h' & -> & F1 & F2 & F3)]; [left; reflexivity|right].
    exists h'. split; [reflexivity|]. unfold fresh_hdr. repeat split; congruence.
  - destruct D as [D1 D2]. apply B_none; try congruence. rewrite app_nil_r. apply emits_no_emit. exact N2.
Qed.

Lemma client_update_frame c now c' o : client_update c now = (c', o) -> same_core c c' /\ no_emit o /\ c_key c' = c_key c.
Proof.
  unfold client_update. intros E.
  assert (Hc : forall b, no_emit [OConnCb b]) by (intros b x [<-|[]]; reflexivity).
  destruct (_ && (now >? _)); destruct (_ && (_ >? c_temp_timeout _)); injection E as <- <-;
    (split; [core_triv|split; [try apply no_emit_nil; destruct (c_conn_cb c); auto with frame|reflexivity]]).
Qed.

Lemma recv_key_frame c now d orcs c' o : recv c now d orcs = (c', o) -> same_core c c' /\ no_emit o.
Proof. apply recv_frame. Qed.

Lemma client_tick_built e c now rx c' o :
  client_tick e c now rx = (c', o) ->
  built c c' now o /\ c_server c' = c_server c /\ c_send_interval c' = c_send_interval c.
Proof.
  unfold client_tick. intros E.
  destruct (client_update c now) as [c0 o0] eqn:E0.
  apply client_update_frame in E0 as ([U1 U2 U3 U4 U5] & N0 & _).
  destruct (status_eqb (c_status c0) DROPPED).
  { injection E as <- <-. split; [apply B_none; auto using emits_no_emit|auto]. }
  match type of E with context [match ?x with (_, _) => _ end] => destruct x as [c1 o1] eqn:E1 end.
  assert (H1 : same_core c0 c1 /\ no_emit o1).
  { destruct rx as [|er|d orcs].
    - injection E1 as <- <-. split; auto with frame.
    - injection E1 as <- <-. split; [auto with frame|intros x [<-|[]]; reflexivity].
    - destruct (recv c0 now d orcs) as [c'' o''] eqn:Er. injection E1 as <- <-.
      apply recv_frame in Er as [A B]. split; auto with frame. }
  destruct H1 as [[R1 R2 R3 R4 R5] N1].
  destruct (raised o1).
  { injection E as <- <-. split; [apply B_none; try congruence; apply emits_no_emit; auto with frame|split; congruence]. }
  destruct (now - c_last_send c1 >? c_send_interval c1).
  2:{ injection E as <- <-. split; [apply B_none; try congruence; apply emits_no_emit; auto with frame|split; congruence]. }
  destruct (build_packet e c1 now) as [c2 pk] eqn:E2.
  destruct (check_timeout false c2 now) as [c3 o3] eqn:E3. injection E as <- <-.
  apply build_packet_built in E2 as (A & B & K & D).
  apply check_timeout_frame in E3 as [[[S1 S2 S3 S4 S5] SK] N3].
  split; [|split; congruence].
  destruct pk as [[h ms]|].
  - destruct D as (D1 & D2 & D3 & D4 & D5 & D6).
    apply B_some; try congruence.
    rewrite !emits_app, (emits_no_emit _ N0), (emits_no_emit _ N1), (emits_no_emit _ N3). cbn [app]. rewrite app_nil_r.
    destruct (emits_emit c2 h ms) as [->|(h' & -> & F1 & F2 & F3)]; [left; reflexivity|right].
    exists h'. split; [reflexivity|]. unfold fresh_hdr. repeat split; congruence.
  - destruct D as [D1 D2]. apply B_none; try congruence.
    cbn [app]. apply emits_no_emit. auto with frame.
Qed.

(* ---------- every event ---------- *)
Definition ev_now (x : ev) : Z :=
  match x with EClientTick now _ | EServerTick now | ERecv now _ _ | EClientHello now _ => now | _ => 0 end.

(* the send interval may be reconfigured, but never below S *)
Definition ev_ok (S : Z) (x : ev) : Prop :=
  match x with ESetCfg w v => w = 0 \/ w = 1 \/ w = 2 \/ S <= v | _ => True end.

Lemma disconnect_core c k : same_core c (disconnect c k).
Proof.
  unfold disconnect. destruct (_ || _); [|core_triv]. unfold send_type. core_triv.
Qed.

Lemma step_built e S c x c' o :
  step e c x = (c', o) -> S <= c_send_interval c -> ev_ok S x ->
  built c c' (ev_now x) o /\ c_server c' = c_server c /\ S <= c_send_interval c'.
Proof.
  intros E HS Hok. destruct x; cbn [step] in E; cbn [ev_now].
  - apply send_frame in E as [[[A1 A2 A3 A4 A5]] N]. split; [apply B_none; auto using emits_no_emit|split; congruence].
  - apply client_tick_built in E as (B & A & I). split; [exact B|split; congruence].
  - apply server_tick_built in E as (B & A & I & _). split; [exact B|split; congruence].
  - apply recv_frame in E as [[A1 A2 A3 A4 A5] N]. split; [apply B_none; auto using emits_no_emit|split; congruence].
  - injection E as <- <-. destruct (disconnect_core c k) as [A1 A2 A3 A4 A5].
    split; [apply B_none; auto|split; congruence].
  - injection E as <- <-. cbn [ev_ok] in Hok.
    assert (G : forall c'', (c'' = c <| c_ka_interval := v |> \/ c'' = c <| c_out_timeout := v |> \/
                             c'' = c <| c_temp_timeout := v |> \/ (c'' = c <| c_send_interval := v |> /\ S <= v)) ->
                built c c'' 0 [] /\ c_server c'' = c_server c /\ S <= c_send_interval c'').
    { intros c'' [->|[->|[->|[-> Hv]]]]; cbn; (split; [apply B_none; reflexivity|split; [reflexivity|assumption]]). }
    apply G.
    destruct which as [|[[q|q|]|[q|q|]|]|q]; auto;
      right; right; right; (split; [reflexivity|lia]).
  - injection E as <- <-. unfold client_hello, send_type. cbn. split; [apply B_none; reflexivity|split; [reflexivity|exact HS]].
  - injection E as <- <-. cbn. split; [apply B_none; reflexivity|split; [reflexivity|exact HS]].
  - injection E as <- <-. cbn. split; [apply B_none; reflexivity|split; [reflexivity|exact HS]].
Qed.

(* ---------- histories ---------- *)
(* ghost trace, newest first: (absolute build index, build time, header) *)
Definition entry := (Z * Z * header)%type.

Definition entry_ok (S n last : Z) (x : entry) : Prop :=
  let '(i, t, h) := x in
  1 <= i <= n /\ h_seq h = wire i /\ h_ctime h = t / TICKS /\ t + (n - i) * S <= last.

Fixpoint ordered (S : Z) (tr : list entry) : Prop :=
  match tr with
  | [] => True
  | (i, t, _) :: r => Forall (fun y => let '(i', t', _) := y in i' < i /\ t' + (i - i') * S <= t) r /\ ordered S r
  end.

Definition seq_of_index (n : Z) : Z := if n =? 0 then 0 else wire n.

Record Inv (S : Z) (c : conn) (n : Z) (tr : list entry) : Prop := {
  inv_n : 0 <= n;
  inv_seq : c_seq_send c = seq_of_index n;
  inv_S : S <= c_send_interval c;
  inv_entries : Forall (entry_ok S n (c_last_send c)) tr;
  inv_ordered : ordered S tr }.

Lemma seq_succ_index n : 0 <= n -> seq_succ (seq_of_index n) = seq_of_index (n + 1).
Proof.
  intros Hn. unfold seq_of_index. destruct (n =? 0) eqn:E0.
  - apply Z.eqb_eq in E0. subst n. exact seq_succ_first.
  - assert (n + 1 =? 0 = false) as -> by lia. apply seq_succ_wire. lia.
Qed.

Lemma Inv_step e S c n tr x c' o :
  0 <= S -> Inv S c n tr -> ev_ok S x -> step e c x = (c', o) ->
  exists n' tr', Inv S c' n' tr' /\ map snd tr' = rev (emits o) ++ map snd tr.
Proof.
  intros HS0 [Hn Hseq HS Hent Hord] Hok E.
  destruct (step_built e S c x c' o E HS Hok) as (B & _ & HS').
  destruct B as [B1 B2 B3|B1 B2 B3 B4].
  - exists n, tr. split; [|rewrite B3; reflexivity].
    constructor; try assumption; try congruence.
  - (* a packet was built at index n+1 *)
    assert (Hent' : Forall (entry_ok S (n + 1) (c_last_send c')) tr).
    { eapply Forall_impl; [|exact Hent]. intros [[i t] h] (I1 & I2 & I3 & I4). unfold entry_ok.
      repeat split; try assumption; try lia. }
    assert (Hseq' : c_seq_send c' = seq_of_index (n + 1)) by (rewrite B1, Hseq; apply seq_succ_index; exact Hn).
    destruct B4 as [B4|(h & B4 & F1 & F2 & F3)].
    + exists (n + 1), tr. split; [|rewrite B4; reflexivity].
      constructor; try assumption; lia.
    + exists (n + 1), ((n + 1, ev_now x, h) :: tr). split; [|rewrite B4; reflexivity].
      constructor; try assumption; try lia.
      * constructor; [|exact Hent'].
        unfold entry_ok. repeat split; try lia; try exact F2.
        rewrite F1, Hseq, seq_succ_index by exact Hn. unfold seq_of_index.
        assert (n + 1 =? 0 = false) as -> by lia. reflexivity.
      * cbn [ordered]. split; [|exact Hord].
        eapply Forall_impl; [|exact Hent]. intros [[i t] h'] (I1 & I2 & I3 & I4). split; [lia|]. nia.
Qed.

Fixpoint all_ok (S : Z) (xs : list ev) : Prop :=
  match xs with [] => True | x :: r => ev_ok S x /\ all_ok S r end.

Lemma Inv_run e S xs : forall c n tr c' oss,
  0 <= S -> Inv S c n tr -> all_ok S xs -> run e c xs = (c', oss) ->
  exists n' tr', Inv S c' n' tr' /\ map snd tr' = rev (emits (concat oss)) ++ map snd tr.
Proof.
  induction xs as [|x r IH]; intros c n tr c' oss HS0 HI Hok E; cbn [run] in E.
  - injection E as <- <-. exists n, tr. split; [exact HI|reflexivity].
  - destruct Hok as [Hx Hr].
    destruct (step e c x) as [c1 o] eqn:E1. destruct (run e c1 r) as [c2 os] eqn:E2. injection E as <- <-.
    destruct (Inv_step e S c n tr x c1 o HS0 HI Hx E1) as (n1 & tr1 & HI1 & M1).
    destruct (IH c1 n1 tr1 c2 os HS0 HI1 Hr E2) as (n2 & tr2 & HI2 & M2).
    exists n2, tr2. split; [exact HI2|].
    rewrite M2, M1. cbn [concat]. rewrite emits_app, rev_app_distr, app_assoc. reflexivity.
Qed.

(* two entries of an ordered, well-formed trace never share (ctime, seq) *)
Definition nonce2 (h : header) : Z * Z := (h_ctime h, h_seq h).

Lemma wire_eq_far i j : j < i -> wire i = wire j -> RING <= i - j.
Proof. unfold wire, RING. intros. lia. Qed.

Lemma ordered_NoDup S n last tr :
  TICKS <= RING * S -> Forall (entry_ok S n last) tr -> ordered S tr ->
  NoDup (map nonce2 (map snd tr)).
Proof.
  intros HS. induction tr as [|[[i t] h] r IH]; intros Hent Hord; cbn [map]; [constructor|].
  inversion Hent as [|? ? He Hent']; subst. destruct Hord as [Hf Hord].
  constructor; [|apply IH; assumption].
  intros Hin. apply in_map_iff in Hin as (h' & Hn & Hin). apply in_map_iff in Hin as ([[i' t'] h''] & Hs & Hin).
  cbn in Hs. subst h''.
  rewrite Forall_forall in Hf, Hent'. pose proof (Hf _ Hin) as [L1 L2]. pose proof (Hent' _ Hin) as (J1 & J2 & J3 & J4).
  destruct He as (I1 & I2 & I3 & I4). unfold nonce2 in Hn. injection Hn as Hc Hq.
  assert (Hw : wire i = wire i') by congruence.
  pose proof (wire_eq_far i i' L1 Hw) as Hfar.
  assert (Ht : t' + TICKS <= t) by (unfold RING in *; nia).
  rewrite I3, J3 in Hc. unfold TICKS in *. lia.
Qed.

(* ---------- the theorems ---------- *)
Theorem nonces_fresh e S c xs c' oss :
  0 <= S -> TICKS <= RING * S -> S <= c_send_interval c -> 0 <= c_seq_send c <= RING -> all_ok S xs ->
  run e c xs = (c', oss) ->
  NoDup (map nonce2 (emits (concat oss))).
Proof.
  intros HS0 HS HSi Hrange Hok E.
  assert (HI : Inv S c (c_seq_send c) []).
  { constructor; try lia; try constructor.
    unfold seq_of_index. destruct (c_seq_send c =? 0) eqn:E0; [lia|]. symmetry. apply wire_small. lia. }
  destruct (Inv_run e S xs c _ [] c' oss HS0 HI Hok E) as (n' & tr' & [_ _ _ Hent Hord] & M).
  cbn [map] in M. rewrite app_nil_r in M.
  pose proof (ordered_NoDup S n' _ tr' HS Hent Hord) as ND. rewrite M in ND.
  rewrite map_rev in ND. apply NoDup_rev in ND. rewrite rev_involutive in ND. exact ND.
Qed.

(* the two directions use disjoint nonce spaces: the direction flag of every emitted header is
   the emitting side's, for the whole history *)
Lemma server_flag_run e S xs : forall c c' oss,
  S <= c_send_interval c -> all_ok S xs -> run e c xs = (c', oss) ->
  c_server c' = c_server c /\ Forall (fun h => h_to_server h = negb (c_server c)) (emits (concat oss)).
Proof.
  induction xs as [|x r IH]; intros c c' oss HS Hok E; cbn [run] in E.
  - injection E as <- <-. split; [reflexivity|constructor].
  - destruct Hok as [Hx Hr].
    destruct (step e c x) as [c1 o] eqn:E1. destruct (run e c1 r) as [c2 os] eqn:E2. injection E as <- <-.
    destruct (step_built e S c x c1 o E1 HS Hx) as (B & A & HS').
    destruct (IH c1 c2 os HS' Hr E2) as [A2 F2].
    split; [congruence|]. cbn [concat]. rewrite emits_app. apply Forall_app. split.
    + destruct B as [_ _ B3|_ _ _ [B4|(h & B4 & _ & _ & F3)]]; rewrite ?B3, ?B4; repeat constructor. exact F3.
    + rewrite <- A. exact F2.
Qed.
