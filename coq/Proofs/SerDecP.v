(* SerDecP.v — the decoder of Model/Ser.v on arbitrary bytes: one weakest-precondition style
   predicate W carries, through every combinator of the decoder,
     - the stream discipline (what is left is a suffix of what was there),
     - the cost accounting (value decodes against bytes consumed, reads against value decodes),
     - the set of exception kinds that can escape,
     - closedness of the decoded value over the registry,
     - absence of RecursionError when the frames exceed the bytes left by 3.
   C14P.v derives the property theorems from dec_value_W. *)
From Coq Require Import Lia ZifyBool.
From Model Require Import Base Utf8 Ser SerCost.
From Proofs Require Import Tac.
Open Scope Z_scope.

Notation "'dom' x <- r ; k" := (mbind r (fun x => k)) (at level 200, x pattern, r at level 100, k at level 200).

(* ---------- lengths *)
Lemma len_nonneg {A} (l : list A) : 0 <= len l.
Proof. unfold len. lia. Qed.
Lemma len_app {A} (a b : list A) : len (a ++ b) = len a + len b.
Proof. unfold len. rewrite app_length. lia. Qed.
Lemma len_nil {A} : len (@nil A) = 0.
Proof. reflexivity. Qed.
Lemma len_cons {A} (x : A) l : len (x :: l) = 1 + len l.
Proof. unfold len. simpl length. lia. Qed.
Lemma len_split {A} k (l : list A) : len (firstn k l) + len (skipn k l) = len l.
Proof. rewrite <- len_app, firstn_skipn. reflexivity. Qed.
Lemma len_firstn_le {A} k (l : list A) : len (firstn k l) <= Z.of_nat k.
Proof. unfold len. pose proof (firstn_le_length k l). lia. Qed.

(* ---------- the predicate *)
Definition W {A} (N : Z) (m : M A) (Q : A -> Prop) (E : serr -> Prop) (rb bs bf : Z) : Prop :=
  forall s, len (rem s) <= N ->
    match m s with
    | (r, s') =>
        (exists pre, rem s = pre ++ rem s') /\
        nval s <= nval s' /\ nrd s <= nrd s' /\
        nrd s' - nrd s <= 2 * (nval s' - nval s) + rb /\
        match r with
        | SOk a => Q a /\ 2 * (nval s' - nval s) <= len (rem s) - len (rem s') + bs
        | SErr e => E e /\ 2 * (nval s' - nval s) <= len (rem s) - len (rem s') + bf
        end
    end.

Lemma W_vac {A} N (m : M A) Q E rb bs bf : N < 0 -> W N m Q E rb bs bf.
Proof. intros H s Hs. pose proof (len_nonneg (rem s)). lia. Qed.

Lemma W_ext {A} N (m m' : M A) Q E rb bs bf :
  (forall s, m s = m' s) -> W N m' Q E rb bs bf -> W N m Q E rb bs bf.
Proof. intros H Hm s Hs. rewrite H. apply Hm, Hs. Qed.

Lemma W_weaken {A} N N' (m : M A) (Q Q' : A -> Prop) (E E' : serr -> Prop) rb rb' bs bs' bf bf' :
  W N' m Q' E' rb' bs' bf' ->
  N <= N' -> (forall a, Q' a -> Q a) -> (forall e, E' e -> E e) ->
  rb' <= rb -> bs' <= bs -> bf' <= bf ->
  W N m Q E rb bs bf.
Proof.
  intros Hm HN HQ HE Hrb Hbs Hbf s Hs.
  specialize (Hm s ltac:(lia)). destruct (m s) as [r s'].
  destruct Hm as (Hp & Hv & Hr & Hc & Hres). repeat split; try assumption; try lia.
  destruct r as [a|e]; destruct Hres as [H1 H2]; split; auto; lia.
Qed.

Lemma W_ret {A} N (a : A) (Q : A -> Prop) E rb bs bf :
  Q a -> 0 <= rb -> 0 <= bs -> W N (ret a) Q E rb bs bf.
Proof.
  intros Ha Hrb Hbs s Hs. unfold ret. repeat split; try lia; auto.
  exists []. reflexivity.
Qed.

Lemma W_fail {A} N (e : serr) (Q : A -> Prop) (E : serr -> Prop) rb bs bf :
  E e -> 0 <= rb -> 0 <= bf -> W N (@fail A e) Q E rb bs bf.
Proof.
  intros He Hrb Hbf s Hs. unfold fail. repeat split; try lia; auto.
  exists []. reflexivity.
Qed.

Lemma W_lift {A} N (r : sres A) (Q : A -> Prop) (E : serr -> Prop) rb bs bf :
  match r with SOk a => Q a | SErr e => E e end ->
  0 <= rb -> 0 <= bs -> 0 <= bf -> W N (lift r) Q E rb bs bf.
Proof.
  intros Hr Hrb Hbs Hbf s Hs. unfold lift. split; [exists []; reflexivity|].
  repeat split; try lia. destruct r; split; auto; lia.
Qed.

Lemma W_bind {A B} N (m : M A) (f : A -> M B) (Q1 : A -> Prop) (Q : B -> Prop) E
      rb1 bs1 bf1 rb2 bs2 bf2 rb bs bf :
  W N m Q1 E rb1 bs1 bf1 ->
  (forall a, Q1 a -> W N (f a) Q E rb2 bs2 bf2) ->
  (rb1 + rb2 <= rb /\ rb1 <= rb /\ bs1 + bs2 <= bs /\ bf1 <= bf /\ bs1 + bf2 <= bf) ->
  W N (mbind m f) Q E rb bs bf.
Proof.
  intros Hm Hf (Hrb & Hrb1 & Hbs & Hbf1 & Hbf2) s Hs. unfold mbind.
  specialize (Hm s Hs). destruct (m s) as [[a|e] s1].
  - destruct Hm as ((p1 & Hp1) & Hv1 & Hr1 & Hc1 & Ha & Hb1).
    assert (Hs1 : len (rem s1) <= N).
    { rewrite Hp1, len_app in Hs. pose proof (len_nonneg p1). lia. }
    specialize (Hf a Ha s1 Hs1). destruct (f a s1) as [r s2].
    destruct Hf as ((p2 & Hp2) & Hv2 & Hr2 & Hc2 & Hres).
    split. { exists (p1 ++ p2). rewrite Hp1, Hp2, app_assoc. reflexivity. }
    repeat split; try lia.
    destruct r as [b|e]; destruct Hres as [H1 H2]; split; auto; lia.
  - destruct Hm as (Hp & Hv & Hr & Hc & He & Hb). repeat split; try assumption; try lia.
Qed.

(* bind whose continuation keeps the budget of the whole / gives one read away *)
Ltac wsame H :=
  match goal with
  | |- W _ _ _ _ ?rb ?bs ?bf => eapply W_bind with (rb2 := rb) (bs2 := bs) (bf2 := bf); [H| |lia]
  end.
Ltac wread H :=
  match goal with
  | |- W _ _ _ _ ?rb ?bs ?bf =>
      let r := eval compute in (rb - 1) in
      eapply W_bind with (rb2 := r) (bs2 := bs) (bf2 := bf); [H| |lia]
  end.

Lemma W_tick N (E : serr -> Prop) bf : W N tick_val (fun _ => True) E (-2) 2 bf.
Proof.
  intros s Hs. unfold tick_val. cbn [rem nrd nval]. split; [exists []; reflexivity|].
  repeat split; lia.
Qed.

Lemma W_left N (E : serr -> Prop) bf : W N m_left (fun _ => True) E 0 0 bf.
Proof.
  intros s Hs. unfold m_left. split; [exists []; reflexivity|]. repeat split; lia.
Qed.

Lemma m_read_eq n s :
  m_read n s = (SOk (firstn (if n <? 0 then length (rem s) else Z.to_nat n) (rem s)),
                mkst (skipn (if n <? 0 then length (rem s) else Z.to_nat n) (rem s)) (nrd s + 1) (nval s)).
Proof. reflexivity. Qed.

(* one read: never an error, returns a prefix of what is left, at most n bytes when n >= 0 *)
Lemma W_read N n (E : serr -> Prop) bf : W N (m_read n) (fun b => 0 <= n -> len b <= n) E 1 0 bf.
Proof.
  intros s Hs. rewrite m_read_eq. cbn [rem nrd nval].
  set (k := if n <? 0 then length (rem s) else Z.to_nat n).
  assert (Hk : 0 <= n -> len (firstn k (rem s)) <= n).
  { intros Hn. pose proof (len_firstn_le k (rem s)). subst k. destruct (n <? 0) eqn:Hn0; lia. }
  clearbody k.
  split. { exists (firstn k (rem s)). symmetry. apply firstn_skipn. }
  pose proof (len_split k (rem s)). pose proof (len_nonneg (firstn k (rem s))).
  repeat split; try lia; try exact Hk.
Qed.

(* a fixed-width read inside a leaf lambda *)
Lemma W_rd N f k (E : serr -> Prop) :
  0 <= k -> (f = O -> E (SE ERecursion)) -> E (SE EStruct) ->
  W N (rd f k) (fun b => len b = k) E 1 (- k) 0.
Proof.
  intros Hk Hrec Hst. destruct f as [|f']; [apply W_fail; auto; lia|].
  intros s Hs. unfold rd, mbind. rewrite m_read_eq.
  set (n := if k <? 0 then length (rem s) else Z.to_nat k). clearbody n.
  pose proof (len_split n (rem s)). pose proof (len_nonneg (firstn n (rem s))).
  destruct (len (firstn n (rem s)) =? k) eqn:Hl; [apply Z.eqb_eq in Hl|apply Z.eqb_neq in Hl];
    unfold ret, fail; cbn [rem nrd nval].
  - split. { exists (firstn n (rem s)). symmetry. apply firstn_skipn. }
    repeat split; lia.
  - split. { exists (firstn n (rem s)). symmetry. apply firstn_skipn. }
    repeat split; try lia. exact Hst.
Qed.

(* the two-byte type id at the head of deserialize_value *)
Lemma W_rdh {A} N (k : list byte -> M A) (Q : A -> Prop) (E : serr -> Prop) rb bs bf :
  E SHeader -> 1 <= rb -> 0 <= bf ->
  (forall buf, len buf = 2 -> W (N - 2) (k buf) Q E (rb - 1) (bs + 2) (bf + 2)) ->
  W N (dom buf <- m_read 2; if negb (len buf =? 2) then fail SHeader else k buf) Q E rb bs bf.
Proof.
  intros Hh Hrb Hbf Hk s Hs. unfold mbind. rewrite m_read_eq.
  change (2 <? 0) with false. cbv iota.
  set (n := Z.to_nat 2). clearbody n.
  pose proof (len_split n (rem s)) as Hsp. pose proof (len_nonneg (firstn n (rem s))).
  destruct (len (firstn n (rem s)) =? 2) eqn:Hl; [apply Z.eqb_eq in Hl|apply Z.eqb_neq in Hl]; cbn [negb].
  - set (s1 := mkst (skipn n (rem s)) (nrd s + 1) (nval s)).
    assert (Hs1 : len (rem s1) <= N - 2) by (subst s1; cbn [rem]; lia).
    specialize (Hk (firstn n (rem s)) ltac:(lia) s1 Hs1).
    destruct (k (firstn n (rem s)) s1) as [r s2].
    destruct Hk as ((p2 & Hp2) & Hv2 & Hr2 & Hc2 & Hres). subst s1. cbn [rem nrd nval] in *.
    split. { exists (firstn n (rem s) ++ p2). rewrite <- app_assoc, <- Hp2. symmetry. apply firstn_skipn. }
    repeat split; try lia.
    destruct r as [b|e]; destruct Hres as [H1 H2]; split; auto; lia.
  - unfold fail. cbn [rem nrd nval].
    split. { exists (firstn n (rem s)). symmetry. apply firstn_skipn. }
    repeat split; try lia. exact Hh.
Qed.

Definition lall {A} (Q : A -> Prop) (l : list A) : Prop := fold_right (fun x P => Q x /\ P) True l.

Lemma W_rep {A} N n (m : M A) (Q : A -> Prop) E bf :
  0 <= bf -> W N m Q E 0 0 bf -> W N (rep n m) (lall Q) E 0 0 bf.
Proof.
  intros Hbf Hm. induction n as [|n IH]; simpl.
  - apply W_ret; [exact I|lia|lia].
  - wsame ltac:(exact Hm). intros x Hx.
    wsame ltac:(exact IH). intros xs Hxs.
    apply W_ret; [split; assumption|lia|lia].
Qed.

Lemma W_conv {A} N (m : M A) Q (E : serr -> Prop) rb bs bf :
  E SSer -> W N m Q E rb bs bf -> W N (conv m) Q E rb bs bf.
Proof.
  intros Hs Hm s Hs0. unfold conv. specialize (Hm s Hs0).
  destruct (m s) as [[a|e] s']; [exact Hm|].
  destruct e; try exact Hm.
  destruct Hm as (Hp & Hv & Hr & Hc & He & Hb). repeat split; auto.
Qed.

(* ---------- dict / set insertion *)
Definition ntop (v : value) : Prop := forall l, strip v <> VTuple l.

Lemma core_eq_ok a b : (forall l, a <> VTuple l) -> exists r, core_eq a b = SOk r.
Proof.
  intros Ha. destruct a; destruct b; simpl; eauto;
    try (match goal with |- context [match ?x with _ => _ end] => destruct x end; eauto).
  exfalso. eapply Ha. reflexivity.
Qed.

Lemma py_eq_ok a b : ntop a -> (exists r, py_eq a b = SOk r) \/ py_eq a b = SErr (SE EAttr).
Proof.
  intros Ha. unfold py_eq. destruct (core_eq_ok (strip a) (strip b) Ha) as [r Hr]. rewrite Hr.
  destruct (edepth a =? edepth b); simpl; eauto. destruct r; eauto.
Qed.

Definition kvall (PK PV : value -> Prop) (d : list (value * value)) : Prop :=
  fold_right (fun p P => PK (fst p) /\ PV (snd p) /\ P) True d.

Lemma dict_set_spec (PK PV : value -> Prop) d k v :
  (forall x, PK x -> ntop x) -> kvall PK PV d -> PK k -> PV v ->
  match dict_set d k v with SOk d' => kvall PK PV d' | SErr e => e = SE EAttr end.
Proof.
  intros Hnt. induction d as [|[k' v'] d IH]; intros Hd Hk Hv; simpl.
  - auto.
  - destruct Hd as (Hk' & Hv' & Hd).
    destruct (py_eq_ok k' k (Hnt _ Hk')) as [[r Hr]|Hr]; rewrite Hr; simpl; [|reflexivity].
    destruct r; simpl; auto.
    specialize (IH Hd Hk Hv). destruct (dict_set d k v); simpl; auto.
Qed.

Lemma dict_put_spec (PK PV : value -> Prop) d k v :
  (forall x, PK x -> ntop x) -> kvall PK PV d -> PK k -> PV v ->
  match dict_put d k v with SOk d' => kvall PK PV d' | SErr e => e = SE EAttr \/ e = SE EType end.
Proof.
  intros Hnt Hd Hk Hv. unfold dict_put. destruct (hashable k); [|auto].
  pose proof (dict_set_spec PK PV d k v Hnt Hd Hk Hv). destruct (dict_set d k v); auto.
Qed.

Lemma mem_py_ok x l : lall ntop l -> (exists r, mem_py x l = SOk r) \/ mem_py x l = SErr (SE EAttr).
Proof.
  induction l as [|y l IH]; simpl; intros Hl; eauto.
  destruct Hl as [Hy Hl]. destruct (py_eq_ok y x Hy) as [[r Hr]|Hr]; rewrite Hr; simpl; auto.
  destruct r; eauto.
Qed.

Lemma lall_app {A} (Q : A -> Prop) a b : lall Q a -> lall Q b -> lall Q (a ++ b).
Proof. induction a; simpl; intuition. Qed.
Lemma lall_imp {A} (Q Q' : A -> Prop) l : (forall x, Q x -> Q' x) -> lall Q l -> lall Q' l.
Proof. intros H. induction l; simpl; intuition. Qed.

Lemma set_add_spec (P : value -> Prop) s x :
  (forall y, P y -> ntop y) -> lall P s -> P x ->
  match set_add s x with SOk s' => lall P s' | SErr e => e = SE EAttr \/ e = SE EType end.
Proof.
  intros Hnt Hs Hx. unfold set_add. destruct (hashable x); [|auto].
  destruct (mem_py_ok x s (lall_imp _ _ _ Hnt Hs)) as [[r Hr]|Hr]; rewrite Hr; simpl; auto.
  destruct r; auto. apply lall_app; simpl; auto.
Qed.

Lemma set_build_spec (P : value -> Prop) l : forall acc,
  (forall y, P y -> ntop y) -> lall P acc -> lall P l ->
  match set_build acc l with SOk s' => lall P s' | SErr e => e = SE EAttr \/ e = SE EType end.
Proof.
  induction l as [|x l IH]; intros acc Hnt Hacc Hl; simpl; auto.
  destruct Hl as [Hx Hl].
  pose proof (set_add_spec P acc x Hnt Hacc Hx) as H. destruct (set_add acc x); simpl; [apply IH; auto|exact H].
Qed.

(* ---------- the decoder *)
Section Dec.
  Variable fc : fconv.
  Variable pk : value -> option serr.
  Variable reg : registry.

  (* closedness is only claimed when the class defaults are closed (reg_closed) *)
  Definition cl (v : value) : Prop := reg_closed reg -> closed reg v.
  Definition cll (l : list value) : Prop := reg_closed reg -> closed_list reg l.
  Definition Qv (v : value) : Prop := cl v /\ ntop v.

  Lemma ntop_base v : (forall t x, v <> VEnum t x) -> (forall l, v <> VTuple l) -> ntop v.
  Proof. intros H1 H2 l. destruct v; simpl; try discriminate. - eapply H2. - exfalso. eapply H1. reflexivity. Qed.

  Section WithE.
    Variable E : serr -> Prop.
    Hypothesis HE : forall e, documented e -> e <> SE ERecursion -> E e.
    Hypothesis HEpk : forall x e, pk x = Some e -> E e.

    Ltac docm := apply HE; [unfold documented; auto 12 | discriminate].

    Lemma W_dec_len N sub cap :
      W N sub Qv E 0 0 2 -> W N (dec_len sub cap) (fun n => n <= cap) E 0 0 2.
    Proof.
      intros Hsub. unfold dec_len. wsame ltac:(exact Hsub).
      intros lv _. destruct (as_len lv) as [n|].
      - destruct (cap <? n) eqn:Hc.
        + apply W_fail; [docm|lia|lia].
        + apply W_ret; lia.
      - apply W_fail; [docm|lia|lia].
    Qed.

    Lemma W_dec_map_loop N sub n : forall acc,
      W N sub Qv E 0 0 2 -> kvall Qv cl acc ->
      W N (dec_map_loop sub n acc) (kvall Qv cl) E 0 0 2.
    Proof.
      induction n as [|n IH]; intros acc Hsub Hacc; simpl.
      - apply W_ret; auto; lia.
      - wsame ltac:(exact Hsub). intros key Hkey.
        wsame ltac:(exact Hsub). intros x Hx.
        eapply W_bind with (Q1 := kvall Qv cl) (rb1 := 0) (bs1 := 0) (bf1 := 0)
                           (rb2 := 0) (bs2 := 0) (bf2 := 2); [| |lia].
        + apply W_lift; try lia.
          pose proof (dict_put_spec Qv cl acc key x (fun y H => proj2 H) Hacc Hkey (proj1 Hx)) as H.
          destruct (dict_put acc key x); auto. destruct H; subst; docm.
        + intros acc' Hacc'. apply IH; auto.
    Qed.

    Lemma W_dec_fields N sub defs : forall n,
      W N sub Qv E 0 0 2 -> cll defs ->
      W N (dec_fields sub n defs) (fun l => cll l /\ length l = length defs) E 0 0 2.
    Proof.
      induction defs as [|d defs IH]; intros n Hsub Hdefs; simpl.
      - destruct (n <=? 0).
        + apply W_ret; simpl; auto; lia.
        + apply W_fail; [docm|lia|lia].
      - destruct (n <=? 0).
        + apply W_ret; auto; lia.
        + wsame ltac:(exact Hsub). intros x Hx.
          wsame ltac:(apply IH; [exact Hsub|intros H; apply (Hdefs H)]). intros xs [Hxs Hlen].
          apply W_ret; try lia. split; [|simpl; congruence].
          intros H. split; [apply Hx; exact H|apply Hxs; exact H].
    Qed.

    Lemma closed_of_lall l : lall Qv l -> cll l.
    Proof. intros Hl H. revert Hl. apply lall_imp. intros x Hx. apply Hx, H. Qed.
    Lemma closed_of_kvall d : kvall Qv cl d -> cl (VDict d).
    Proof.
      intros Hd H. induction d as [|[k v] d IH]; simpl; auto.
      destruct Hd as ((Hk & _) & Hv & Hd). simpl in *. auto.
    Qed.

    Ltac leaf Hrec :=
      wread ltac:(apply W_rd; [lia|exact Hrec|docm]);
      intros b _; apply W_ret; [|lia|lia]; split; [intros _; exact I|apply ntop_base; discriminate].

    Lemma W_dec_base N sub f2 k :
      W N sub Qv E 0 0 2 -> (f2 = O -> E (SE ERecursion)) ->
      W N (dec_base fc sub f2 k) Qv E 1 0 2.
    Proof.
      intros Hsub Hrec. destruct k; unfold dec_base; try (leaf Hrec).
      - (* str *)
        wsame ltac:(apply W_dec_len; exact Hsub). intros n _.
        wread ltac:(apply W_read with (bf := 0)). intros b _.
        destruct (utf8_decode b).
        + apply W_ret; [|lia|lia]. split; [intros _; exact I|apply ntop_base; discriminate].
        + apply W_fail; [docm|lia|lia].
      - (* bytes *)
        wsame ltac:(apply W_dec_len; exact Hsub). intros n _.
        wread ltac:(apply W_read with (bf := 0)). intros b _.
        apply W_ret; [|lia|lia]. split; [intros _; exact I|apply ntop_base; discriminate].
      - (* null *)
        apply W_ret; [|lia|lia]. split; [intros _; exact I|apply ntop_base; discriminate].
      - (* seq *)
        wsame ltac:(apply W_dec_len; exact Hsub). intros n _.
        wsame ltac:(apply W_rep with (bf := 2); [lia|exact Hsub]). intros l Hl.
        apply W_ret; [|lia|lia]. split; [apply closed_of_lall; exact Hl|apply ntop_base; discriminate].
      - (* map *)
        wsame ltac:(apply W_dec_len; exact Hsub). intros n _.
        wsame ltac:(apply W_dec_map_loop; [exact Hsub|exact I]). intros d Hd.
        apply W_ret; [|lia|lia]. split; [apply closed_of_kvall; exact Hd|apply ntop_base; discriminate].
      - (* set *)
        wsame ltac:(apply W_dec_len; exact Hsub). intros n _.
        wsame ltac:(apply W_rep with (bf := 2); [lia|exact Hsub]). intros l Hl.
        eapply W_bind with (Q1 := lall Qv) (rb1 := 0) (bs1 := 0) (bf1 := 0)
                           (rb2 := 1) (bs2 := 0) (bf2 := 2); [| |lia].
        + apply W_lift; try lia.
          pose proof (set_build_spec Qv l [] (fun y H => proj2 H) I Hl) as H.
          destruct (set_build [] l); auto. destruct H; subst; docm.
        + intros s Hs. apply W_ret; [|lia|lia].
          split; [apply closed_of_lall; exact Hs|apply ntop_base; discriminate].
    Qed.

    Lemma W_dec_cls N sub t c :
      W N sub Qv E 0 0 2 -> reg_find reg t = Some c ->
      W N (dec_cls pk sub t c) Qv E 1 0 2.
    Proof.
      intros Hsub Hfind. destruct c as [defs|ms|base|]; unfold dec_cls.
      - (* Serializable.deserialize *)
        wsame ltac:(exact Hsub). intros nf _.
        destruct (as_len nf) as [n|].
        + wsame ltac:(apply W_dec_fields; [exact Hsub|intros H; exact (H _ _ Hfind)]).
          intros fs [Hfs Hlen]. apply W_ret; [|lia|lia].
          split; [|apply ntop_base; discriminate].
          intros H. simpl. split; [|exact (Hfs H)]. unfold is_class. rewrite Hfind. auto.
        + apply W_fail; [docm|lia|lia].
      - (* SerializableEnum.deserialize *)
        wsame ltac:(exact Hsub). intros x [Hx Hnx].
        apply W_ret; [|lia|lia]. split.
        + intros H. simpl. split; [|exact (Hx H)]. unfold is_enum_class. rewrite Hfind. exact I.
        + intros l. simpl. apply Hnx.
      - (* HandshakeClientHelloMessage.deserialize *)
        wsame ltac:(apply W_left with (bf := 0)). intros before _.
        wsame ltac:(exact Hsub). intros der [Hder _].
        destruct (pk der) as [e|] eqn:Hpk.
        + apply W_fail; [eapply HEpk; exact Hpk|lia|lia].
        + wsame ltac:(exact Hsub). intros ver [Hver _].
          wsame ltac:(apply W_left with (bf := 0)). intros after _.
          wread ltac:(apply W_read with (bf := 0)). intros pad _.
          destruct (len pad =? base - (before - after)).
          * apply W_ret; [|lia|lia]. split; [|apply ntop_base; discriminate].
            intros H. simpl. split; [|auto]. unfold is_class. rewrite Hfind. reflexivity.
          * apply W_fail; [docm|lia|lia].
      - (* HandshakeServerHelloMessage.deserialize without the keyword *)
        wsame ltac:(exact Hsub). intros root _.
        destruct (pk root) as [e|] eqn:Hpk.
        + apply W_fail; [eapply HEpk; exact Hpk|lia|lia].
        + wsame ltac:(exact Hsub). intros payload _.
          wsame ltac:(exact Hsub). intros sig _.
          apply W_fail; [docm|lia|lia].
    Qed.

    Lemma W_dec_body N sub f1 :
      W (N - 2) sub Qv E 0 0 2 ->
      (f1 = O -> 0 <= N -> E (SE ERecursion)) ->
      (f1 = 1%nat -> 2 <= N -> E (SE ERecursion)) ->
      W N (dec_body fc pk reg sub f1) Qv E 0 0 2.
    Proof.
      intros Hsub H0 H1. unfold dec_body.
      eapply W_bind with (rb2 := 2) (bs2 := -2) (bf2 := 0); [apply W_tick with (bf := 0)| |lia].
      intros _ _. destruct f1 as [|f2].
      - destruct (Z_lt_dec N 0); [apply W_vac; exact l|]. apply W_fail; [apply H0; auto; lia|lia|lia].
      - apply W_rdh; [docm|lia|lia|]. intros buf Hbuf.
        destruct (Z_lt_dec (N - 2) 0) as [Hn|Hn]; [apply W_vac; exact Hn|].
        assert (Hrec : f2 = O -> E (SE ERecursion)) by (intros ->; apply H1; auto; lia).
        replace (2 - 1) with 1 by lia. replace (-2 + 2) with 0 by lia. replace (0 + 2) with 2 by lia.
        destruct (base_kind (be_dec buf)) as [k|].
        + apply W_conv; [docm|]. apply W_dec_base; assumption.
        + destruct (reg_find reg (be_dec buf)) as [c|] eqn:Hfind.
          * apply W_conv; [docm|]. apply W_dec_cls; assumption.
          * apply W_fail; [docm|lia|lia].
    Qed.
  End WithE.

  (* the exception kinds: whatever the key parser raised, or a documented kind — and never
     RecursionError when nr holds *)
  Definition Eset (nr : Prop) (e : serr) : Prop :=
    (exists x, pk x = Some e) \/ (documented e /\ (nr -> e <> SE ERecursion)).

  Lemma Eset_doc nr e : documented e -> e <> SE ERecursion -> Eset nr e.
  Proof. intros H1 H2. right. auto. Qed.
  Lemma Eset_pk nr x e : pk x = Some e -> Eset nr e.
  Proof. intros H. left. eauto. Qed.
  Lemma Eset_rec (nr : Prop) : ~ nr -> Eset nr (SE ERecursion).
  Proof. intros H. right. split; [unfold documented; auto 12|]. intros Hn. contradiction. Qed.

  Lemma dec_value_W_pair : forall fuel,
    (forall N, W N (dec_value fc pk reg fuel) Qv (Eset (N + 3 <= Z.of_nat fuel)) 0 0 2) /\
    (forall N, W N (dec_value fc pk reg (S fuel)) Qv (Eset (N + 3 <= Z.of_nat (S fuel))) 0 0 2).
  Proof.
    induction fuel as [|fuel [IH0 IH1]].
    - split; intros N.
      + simpl. destruct (Z_lt_dec N 0); [apply W_vac; assumption|].
        apply W_fail; [apply Eset_rec; lia|lia|lia].
      + change (dec_value fc pk reg 1) with (dec_body fc pk reg (@fail value (SE ERecursion)) 0).
        apply W_dec_body.
        * apply Eset_doc. * apply Eset_pk.
        * destruct (Z_lt_dec (N - 2) 0); [apply W_vac; assumption|].
          apply W_fail; [apply Eset_rec; lia|lia|lia].
        * intros _ HN. apply Eset_rec. lia.
        * discriminate.
    - split; [exact IH1|]. intros N.
      change (dec_value fc pk reg (S (S fuel)))
        with (dec_body fc pk reg (dec_value fc pk reg fuel) (S fuel)).
      apply W_dec_body.
      + apply Eset_doc. + apply Eset_pk.
      + eapply W_weaken; [apply (IH0 (N - 2))|lia|auto| |lia|lia|lia].
        intros e [He|[Hd Hn]]; [left; exact He|right; split; [exact Hd|]]. intros Hnr. apply Hn. lia.
      + discriminate.
      + intros Hf HN. apply Eset_rec. lia.
  Qed.

  Lemma dec_value_W fuel N :
    W N (dec_value fc pk reg fuel) Qv (Eset (N + 3 <= Z.of_nat fuel)) 0 0 2.
  Proof. apply (proj1 (dec_value_W_pair fuel)). Qed.
End Dec.
