(* MsgSendP.v — C07, the sender's custody link at MESSAGE level.  A predicate Qm on whole queued
   messages (it sees the callback together with type, payload and message sequence number; QueueP's
   P sees type and payload only) that holds of every message the connection creates holds of every
   message it keeps anywhere and of every message it ever puts into a datagram; and the callbacks
   registered in pending_callbacks for a datagram sequence number are exactly the callbacks of the
   messages encoded into the datagram emitted with that number (Link). *)
From Coq Require Import Lia ZifyBool.
From RecordUpdate Require Import RecordUpdate.
From Model Require Import Base SeqNum Wire Conn Net Net2 Net3.
From Proofs Require Import Tac SeqNumP WireP ConnFrameP NonceP PackP ClearP AckP CallbackP CustodyP QueueP NetP AckNamesP AckNetP.
Import RecordSetNotations.
Open Scope Z_scope.

(* the message _send_type creates *)
Definition new_msg (c : conn) (ty : ptype) (p : list byte) (r : retry) (k : icb) : pmsg :=
  {| m_seq := seq_succ (c_seq_msg c); m_type := ty; m_payload := p;
     m_cb := mk_cb r k (c_next_rid c) (seq_succ (c_seq_msg c)) ty p; m_retry := r; m_atime := 0 |}.

Lemma send_type_out_eq c ty p r k : c_outgoing (send_type c ty p r k) = c_outgoing c ++ [new_msg c ty p r k].
Proof. reflexivity. Qed.

(* callbacks the connection itself attaches (handshake, hello, disconnect loggers) *)
Definition sys_icb (k : icb) : Prop := match k with INone | IHello | IChallenge => True | _ => False end.

(* pending_callbacks only loses entries / every key of pending_callbacks is a pending datagram *)
Definition psub (c c' : conn) : Prop := forall s ks, dget s (c_pcbs c') = Some ks -> dget s (c_pcbs c) = Some ks.
Definition PK (c : conn) : Prop := forall s ks, dget s (c_pcbs c) = Some ks -> In s (map fst (c_packs c)).

Lemma psub_refl c : psub c c. Proof. intros s ks H. exact H. Qed.
Lemma psub_trans a b c : psub a b -> psub b c -> psub a c.
Proof. intros H1 H2 s ks H. apply H1, H2, H. Qed.
Lemma psub_eq c c' : c_pcbs c' = c_pcbs c -> psub c c'.
Proof. intros E s ks H. rewrite <- E. exact H. Qed.
Lemma PK_upd c c' : c_pcbs c' = c_pcbs c -> c_packs c' = c_packs c -> PK c -> PK c'.
Proof. intros A B H s ks Hs. rewrite B. rewrite A in Hs. exact (H s ks Hs). Qed.

Lemma resolve_pcbs ok c s c' o : resolve ok c s = (c', o) ->
  psub c c' /\ dget s (c_pcbs c') = None /\ c_packs c' = ddel s (c_packs c).
Proof.
  intros E. pose proof (resolve_packs _ _ _ _ _ E) as (P & _).
  split; [exact (proj2 (resolve_for _ _ _ _ _ 0 true E))|]. split; [|exact P].
  unfold resolve in E. set (c0 := if ok then _ else _) in E.
  assert (P0 : c_pcbs c0 = c_pcbs c) by (subst c0; destruct ok; reflexivity).
  destruct (dget s (c_pcbs c0)) as [ks|] eqn:Eg.
  - destruct (fire_all c0 ks ok) as [c1 o1] eqn:E1. injection E as <- <-.
    destruct (dget s (c_pretry _)); cbn; rewrite dget_ddel, Z.eqb_refl; reflexivity.
  - injection E as <- <-. destruct (dget s (c_pretry c0)); cbn; exact Eg.
Qed.

Lemma resolve_PK ok c s c' o : PK c -> resolve ok c s = (c', o) -> PK c' /\ psub c c'.
Proof.
  intros H E. destruct (resolve_pcbs _ _ _ _ _ E) as (A & B & D). split; [|exact A].
  intros s' ks Hs. rewrite D. assert (s' <> s) by (intros ->; rewrite B in Hs; discriminate).
  apply in_keys_ddel; [assumption|]. exact (H s' ks (A s' ks Hs)).
Qed.

Lemma ack_loop_PK h snap : forall c c' o, PK c -> ack_loop c h snap = (c', o) -> PK c' /\ psub c c'.
Proof.
  induction snap as [|[s t] r IH]; intros c c' o H E; cbn [ack_loop] in E.
  - injection E as <- <-. split; [exact H|apply psub_refl].
  - dpair E c1 o1 E1. destruct (ack_loop c1 h r) as [c2 o2] eqn:E2. injection E as <- <-.
    assert (H1 : PK c1 /\ psub c c1).
    { destruct (hdr_acks _ _ s); [eapply resolve_PK; eassumption|].
      destruct (_ >? _); [eapply resolve_PK; eassumption|]. injection E1 as <- <-. split; [exact H|apply psub_refl]. }
    destruct H1 as [H1 S1]. destruct (IH _ _ _ H1 E2) as [H2 S2]. split; [exact H2|eapply psub_trans; eassumption].
Qed.

Lemma timeout_loop_PK strict now snap : forall c c' o, PK c -> timeout_loop strict c now snap = (c', o) -> PK c' /\ psub c c'.
Proof.
  induction snap as [|[s t] r IH]; intros c c' o H E; cbn [timeout_loop] in E.
  - injection E as <- <-. split; [exact H|apply psub_refl].
  - dpair E c1 o1 E1. destruct (timeout_loop strict c1 now r) as [c2 o2] eqn:E2. injection E as <- <-.
    assert (H1 : PK c1 /\ psub c c1).
    { match type of E1 with (if ?b then _ else _) = _ => destruct b end; [eapply resolve_PK; eassumption|].
      injection E1 as <- <-. split; [exact H|apply psub_refl]. }
    destruct H1 as [H1 S1]. destruct (IH _ _ _ H1 E2) as [H2 S2]. split; [exact H2|eapply psub_trans; eassumption].
Qed.

Lemma recv_PK c now d orcs c' o : PK c -> recv c now d orcs = (c', o) -> PK c' /\ psub c c'.
Proof.
  unfold recv. intros H E.
  destruct (keyless_refuses c (d_hdr d)); [injection E as <- <-; split; [exact H|apply psub_eq; reflexivity]|].
  destruct (open_dgram (c_key c) d) as [ms|]; [|injection E as <- <-; split; [exact H|apply psub_eq; reflexivity]].
  destruct (bf_insert (c_bf_pkt c) _) as [bf|]; [|injection E as <- <-; split; [exact H|apply psub_eq; reflexivity]].
  match type of E with context [handle_ack_bits ?c0 _] => set (cc := c0) in E end.
  assert (Hcc : PK cc) by exact H.
  destruct (handle_ack_bits cc (d_hdr d)) as [c1 o1] eqn:E1.
  destruct (recv_msgs c1 now ms orcs) as [c2 o2] eqn:E2. injection E as <- <-.
  unfold handle_ack_bits in E1. destruct (ack_loop_PK _ _ _ _ _ Hcc E1) as [H1 S1].
  apply recv_msgs_cust in E2 as (_ & _ & P2 & A2).
  split; [eapply PK_upd; eassumption|]. eapply psub_trans; [exact S1|apply psub_eq; exact P2].
Qed.

Lemma stamp_wmsg now m : wmsg_of (stamp now m) = wmsg_of m.
Proof. reflexivity. Qed.

Lemma map_stamp_wmsg now ms : map wmsg_of (map (stamp now) ms) = map wmsg_of ms.
Proof. rewrite map_map. apply map_ext. intros m. reflexivity. Qed.

(* the datagram an emission puts on the wire carries exactly the messages it was given *)
Lemma emit_dg_msgs cx h ms : h_count h = len ms -> (forall m, ms = [m] -> m_type m = h_type h) ->
  forall d, In d (flat_map dg_of (emit cx (h, ms))) -> dg_msgs d = map wmsg_of ms.
Proof.
  intros Hc Ht d Hd. unfold emit in Hd. destruct (encode_msgs (map wmsg_of ms)) as [pl|] eqn:Ee; [|destruct Hd].
  assert (Hdec : decode_msgs (h_type h) (h_count h) pl = Ok (map wmsg_of ms)).
  { rewrite Hc. replace (len ms) with (len (map wmsg_of ms)) by (unfold len; rewrite map_length; reflexivity).
    apply msgs_roundtrip; [exact Ee|]. intros w Hw. destruct ms as [|m [|m2 r]]; try discriminate.
    cbn in Hw. injection Hw as <-. cbn. apply Ht. reflexivity. }
  assert (Hall : forall kk, dg_msgs {| d_hdr := {| h_to_server := h_to_server h; h_ctime := h_ctime h; h_seq := h_seq h; h_ack := h_ack h;
                                              h_type := h_type h; h_len := len pl; h_count := h_count h; h_ackbits := h_ackbits h |};
                                  d_body := match kk with Some k => Sealed k {| h_to_server := h_to_server h; h_ctime := h_ctime h; h_seq := h_seq h; h_ack := h_ack h;
                                              h_type := h_type h; h_len := len pl; h_count := h_count h; h_ackbits := h_ackbits h |} pl | None => Clear pl end |}
                     = map wmsg_of ms).
  { intros kk. unfold dg_msgs, body_payload. destruct kk; cbn [d_body d_hdr h_type h_count]; rewrite Hdec; reflexivity. }
  destruct (c_key cx) as [k|]; [destruct (negb _)|]; cbn in Hd; destruct Hd as [<-|[]].
  - exact (Hall (Some k)).
  - exact (Hall None).
  - exact (Hall None).
Qed.

Section MQ.
  Variable Qm : pmsg -> Prop.
  Variable Qk : cb -> Prop.
  Hypothesis Q_stamp : forall now m, Qm m -> Qm (stamp now m).
  Hypothesis Q_cb : forall m k, Qm m -> m_cb m = Some k -> Qk k.
  Hypothesis Q_requeue : forall rid mseq ty p i, Qk (Retry rid mseq ty p i) ->
    Qm {| m_seq := mseq; m_type := ty; m_payload := p; m_cb := Some (Retry rid mseq ty p i);
          m_retry := RTimeout; m_atime := 0 |}.
  Hypothesis Q_nu : forall m, Qm m -> m_type m <> UNKNOWN.
  Hypothesis Qk_nu : forall k, Qk k -> cbk_ok k.

  Record MI (c : conn) : Prop := {
    mi_out : Forall Qm (c_outgoing c);
    mi_prm : Forall (fun p => Qm (snd p)) (c_pretry_msg c);
    mi_pcbs : Forall (fun p => Forall Qk (snd p)) (c_pcbs c) }.

  Lemma Qm_ok m : Qm m -> msg_ok m.
  Proof. intros H. split; [apply Q_nu; exact H|]. intros k Hk. apply Qk_nu. eapply Q_cb; eassumption. Qed.

  Lemma MI_NU c : MI c -> NU c.
  Proof.
    intros [A B D]. constructor.
    - eapply Forall_impl; [|exact A]. exact Qm_ok.
    - eapply Forall_impl; [|exact B]. intros x. apply Qm_ok.
    - eapply Forall_impl; [|exact D]. intros x Hx. eapply Forall_impl; [|exact Hx]. exact Qk_nu.
  Qed.

  Lemma MI_same_q c c' : same_q c c' -> MI c -> MI c'.
  Proof. intros [_ _ O Pm C] [A B D]. constructor; congruence. Qed.

  Lemma MI_upd c c' : c_outgoing c' = c_outgoing c -> c_pretry_msg c' = c_pretry_msg c -> c_pcbs c' = c_pcbs c -> MI c -> MI c'.
  Proof. intros O Pm C [A B D]. constructor; congruence. Qed.

  Lemma fire_cb_MI c k ok c' o : Qk k -> MI c -> fire_cb c k ok = (c', o) -> MI c'.
  Proof.
    intros Hk HN E. unfold fire_cb in E. destruct k as [i|rid mseq ty p i].
    - eapply MI_same_q; [eapply fire_icb_q; exact E|exact HN].
    - destruct (zmem rid (c_done c)); [injection E as <- <-; exact HN|].
      destruct (negb ok).
      + injection E as <- <-. destruct HN as [A B D]. constructor; cbn; auto.
        apply Forall_app. split; [exact A|]. repeat constructor. apply Q_requeue. exact Hk.
      + apply fire_icb_q in E. eapply MI_same_q; [exact E|]. destruct HN as [A B D]. constructor; cbn; auto.
  Qed.

  Lemma fire_all_MI ks : forall c ok c' o, Forall Qk ks -> MI c -> fire_all c ks ok = (c', o) -> MI c'.
  Proof.
    induction ks as [|k ks IH]; intros c ok c' o HF HN E; cbn [fire_all] in E.
    - injection E as <- <-. exact HN.
    - inversion HF as [|? ? Hk HF']; subst.
      destruct (fire_cb c k ok) as [c1 o1] eqn:E1. destruct (fire_all c1 ks ok) as [c2 o2] eqn:E2.
      injection E as <- <-. eapply IH; [exact HF'| |exact E2]. eapply fire_cb_MI; eassumption.
  Qed.

  Lemma resolve_MI ok c s c' o : MI c -> resolve ok c s = (c', o) -> MI c'.
  Proof.
    intros HN E. unfold resolve in E.
    set (c0 := if ok then _ else _) in E.
    assert (N0 : MI c0) by (subst c0; destruct ok; destruct HN as [A B D]; constructor; cbn; auto).
    destruct (dget s (c_pcbs c0)) as [ks|] eqn:Eg.
    - destruct (fire_all c0 ks ok) as [c1 o1] eqn:E1.
      assert (Hks : Forall Qk ks).
      { destruct N0 as [_ _ D]. rewrite Forall_forall in D. exact (D _ (dget_In _ _ _ Eg)). }
      pose proof (fire_all_MI _ _ _ _ _ Hks N0 E1) as [A B D]. injection E as <- <-.
      destruct (dget s (c_pretry c1)); constructor; cbn; auto using Forall_ddel, Forall_fold_ddel.
    - injection E as <- <-. destruct N0 as [A B D].
      destruct (dget s (c_pretry c0)); constructor; cbn; auto using Forall_ddel, Forall_fold_ddel.
  Qed.

  Lemma ack_loop_MI h snap : forall c c' o, MI c -> ack_loop c h snap = (c', o) -> MI c'.
  Proof.
    induction snap as [|[s t] r IH]; intros c c' o HN E; cbn [ack_loop] in E.
    - injection E as <- <-. exact HN.
    - dpair E c1 o1 E1. destruct (ack_loop c1 h r) as [c2 o2] eqn:E2. injection E as <- <-.
      eapply IH; [|exact E2]. destruct (hdr_acks _ _ s); [eapply resolve_MI; eassumption|].
      destruct (_ >? _); [eapply resolve_MI; eassumption|]. injection E1 as <- <-. exact HN.
  Qed.

  Lemma timeout_loop_MI strict now snap : forall c c' o, MI c -> timeout_loop strict c now snap = (c', o) -> MI c'.
  Proof.
    induction snap as [|[s t] r IH]; intros c c' o HN E; cbn [timeout_loop] in E.
    - injection E as <- <-. exact HN.
    - dpair E c1 o1 E1. destruct (timeout_loop strict c1 now r) as [c2 o2] eqn:E2. injection E as <- <-.
      eapply IH; [|exact E2]. match type of E1 with (if ?b then _ else _) = _ => destruct b end;
        [eapply resolve_MI; eassumption|injection E1 as <- <-; exact HN].
  Qed.

  Lemma send_type_MI c ty p r k : Qm (new_msg c ty p r k) -> MI c -> MI (send_type c ty p r k).
  Proof.
    intros Ht [A B D]. constructor; try assumption.
    rewrite send_type_out_eq. apply Forall_app. split; [exact A|]. repeat constructor. exact Ht.
  Qed.

  (* packet assembly: the selected messages satisfy Qm, and the callbacks registered for the new
     sequence number are exactly theirs *)
  Definition reg_link (c c' : conn) (msgs : list pmsg) : Prop :=
    forall s ks, dget s (c_pcbs c') = Some ks ->
      dget s (c_pcbs c) = Some ks \/ (s = seq_succ (c_seq_send c) /\ ks = opt_list (map m_cb msgs)).

  Lemma build_impl_link e c now ka delay c' r :
    MI c -> PK c -> ~ In (seq_succ (c_seq_send c)) (map fst (c_packs c)) -> build_impl e c now ka delay = (c', r) ->
    MI c' /\ PK c' /\
    match r with
    | None => c_pcbs c' = c_pcbs c
    | Some (h, ms) => exists msgs, Forall Qm msgs /\ ms = map (stamp now) msgs /\ reg_link c c' msgs
    end.
  Proof.
    intros HN HP Hnew E. pose proof (MI_NU _ HN) as HU.
    destruct (build_impl_spec _ _ _ _ _ _ _ (NU_no_unknown _ HU) E) as (msgs & [B1 B2 B3 B4 B5 B6]).
    destruct HN as [A B D]. rewrite Forall_forall in A, B.
    assert (Hmsgs : forall m, In m msgs -> Qm m).
    { intros m Hm. destruct (B1 m Hm) as [H|H]; [apply A; exact H|].
      apply in_map_iff in H as (x & <- & Hx). exact (B _ Hx). }
    assert (Hfresh : dget (seq_succ (c_seq_send c)) (c_pcbs c) = None).
    { destruct (dget _ (c_pcbs c)) as [ks|] eqn:Eg; [|reflexivity]. exfalso. exact (Hnew (HP _ _ Eg)). }
    split; [|split].
    - constructor.
      + apply Forall_forall. intros m Hm. apply A. apply B3. exact Hm.
      + apply Forall_forall. intros x Hx. destruct (B5 x Hx) as [H|(m & H1 & H2)]; [exact (B _ H)|].
        rewrite H2. apply Q_stamp. exact (Hmsgs m H1).
      + destruct r as [[h ms]|]; [|destruct B6 as (_ & -> & _); exact D].
        destruct B6 as (_ & _ & ->). destruct (opt_list (map m_cb msgs)) as [|k0 cbs] eqn:Ec; [exact D|].
        apply Forall_dset; [exact D|]. cbn. apply Forall_forall. intros k Hk. rewrite <- Ec in Hk.
        apply In_opt_list in Hk. apply in_map_iff in Hk as (m & Hk & Hm). exact (Q_cb m k (Hmsgs m Hm) Hk).
    - destruct r as [[h ms]|].
      + destruct B6 as (_ & P & C). intros s ks Hs. rewrite P. rewrite C in Hs.
        destruct (opt_list (map m_cb msgs)) as [|k0 cbs]; [apply keys_dset; exact (HP _ _ Hs)|].
        rewrite dget_dset in Hs. destruct (s =? seq_succ (c_seq_send c)) eqn:Es.
        * assert (s = seq_succ (c_seq_send c)) as -> by lia. apply key_dset_self.
        * apply keys_dset. exact (HP _ _ Hs).
      + destruct B6 as (_ & C & P). eapply PK_upd; eassumption.
    - destruct r as [[h ms]|]; [|destruct B6 as (_ & C & _); exact C].
      destruct B6 as (Hms & _ & C). exists msgs. split; [apply Forall_forall; exact Hmsgs|]. split; [exact Hms|].
      intros s ks Hs. rewrite C in Hs.
      destruct (opt_list (map m_cb msgs)) as [|k0 cbs] eqn:Ec; [left; exact Hs|].
      rewrite dget_dset in Hs. destruct (s =? seq_succ (c_seq_send c)) eqn:Es; [|left; exact Hs].
      right. split; [lia|]. congruence.
  Qed.

  (* what a step leaves in pending_callbacks: entries that were there, or the entry of the datagram
     it has just built — whose callbacks are those of messages (satisfying Qm) that every datagram
     the step puts on the wire carries *)
  Definition Link (c c' : conn) (ds : list dgram) : Prop :=
    forall s ks, dget s (c_pcbs c') = Some ks ->
      dget s (c_pcbs c) = Some ks \/
      (s = seq_succ (c_seq_send c) /\
       forall k, In k ks -> forall d, In d ds -> exists m, Qm m /\ m_cb m = Some k /\ In (wmsg_of m) (dg_msgs d)).

  (* every message of every datagram put on the wire satisfies Qm *)
  Definition WireQ (ds : list dgram) : Prop :=
    forall d, In d ds -> forall w, In w (dg_msgs d) -> exists m, Qm m /\ wmsg_of m = w.

  Lemma Link_psub c c' ds : psub c c' -> Link c c' ds.
  Proof. intros H s ks Hs. left. exact (H s ks Hs). Qed.

  Lemma tick_tail_link strict e S Ka c n now c1 pk c2 o2 :
    MI c -> PK c -> AInv S Ka c n -> build_packet e c now = (c1, pk) -> check_timeout strict c1 now = (c2, o2) ->
    MI c2 /\ PK c2 /\ (forall cx, Link c c2 (flat_map dg_of (match pk with Some p => emit cx p | None => [] end))) /\
    (forall cx, WireQ (flat_map dg_of (match pk with Some p => emit cx p | None => [] end))).
  Proof.
    intros HN HP HA E1 E2. pose proof (AInv_fresh _ _ _ _ HA) as Hnew.
    assert (Hb : MI c1 /\ PK c1 /\
      match pk with
      | None => c_pcbs c1 = c_pcbs c
      | Some (h, ms) => h_count h = len ms /\ (forall m, ms = [m] -> m_type m = h_type h) /\
                        exists msgs, Forall Qm msgs /\ ms = map (stamp now) msgs /\ reg_link c c1 msgs
      end).
    { unfold build_packet in E1. destruct (_ <? _); [injection E1 as <- <-; auto|].
      destruct (build_impl e c now _ _) as [c0 r0] eqn:E0.
      destruct (build_impl_link _ _ _ _ _ _ _ HN HP Hnew E0) as (N0 & P0 & L0).
      destruct r0 as [[h ms]|]; injection E1 as <- <-.
      - split; [eapply MI_upd; [| | |exact N0]; reflexivity|]. split; [eapply PK_upd; [| |exact P0]; reflexivity|].
        destruct (build_impl_head _ _ _ _ _ _ _ _ E0) as [Hc Ht]. split; [exact Hc|]. split; [exact Ht|].
        destruct L0 as (msgs & F & Hms & R). exists msgs. split; [exact F|]. split; [exact Hms|]. exact R.
      - auto. }
    destruct Hb as (N1 & P1 & L1). unfold check_timeout in E2.
    destruct (timeout_loop_PK _ _ _ _ _ _ P1 E2) as [P2 S2].
    split; [eapply timeout_loop_MI; eassumption|]. split; [exact P2|]. split.
    2:{ intros cx d Hd w Hw. destruct pk as [[h ms]|]; [|destruct Hd].
        destruct L1 as (Hc & Ht & msgs & F & Hms & R).
        rewrite (emit_dg_msgs cx h ms Hc Ht d Hd), Hms, map_stamp_wmsg in Hw.
        apply in_map_iff in Hw as (m & <- & Hm). rewrite Forall_forall in F. exists m. split; [exact (F m Hm)|reflexivity]. }
    intros cx s ks Hs. apply S2 in Hs.
    destruct pk as [[h ms]|]; [|left; rewrite <- L1; exact Hs].
    destruct L1 as (Hc & Ht & msgs & F & Hms & R).
    destruct (R s ks Hs) as [H|[-> ->]]; [left; exact H|right]. split; [reflexivity|].
    intros k Hk d Hd. apply In_opt_list in Hk. apply in_map_iff in Hk as (m & Hk & Hm).
    rewrite Forall_forall in F. exists m. split; [exact (F m Hm)|]. split; [exact Hk|].
    rewrite (emit_dg_msgs cx h ms Hc Ht d Hd), Hms, map_stamp_wmsg. apply in_map. exact Hm.
  Qed.

  Hypothesis Q_sys : forall c ty p k, is_hs ty = true -> sys_icb k -> Qm (new_msg c ty p RNone k).
  Hypothesis Q_frag : forall c fid i n f r,
    Qm (new_msg c APP_FRAGMENT (be 2 fid ++ be 2 (1 + i) ++ be 2 n ++ f) r (IFrag fid i)).

  Lemma recv_msgs_MI ms c now orcs c' o : MI c -> recv_msgs c now ms orcs = (c', o) -> MI c'.
  Proof.
    intros HN E. revert HN.
    apply (recv_msgs_rel (fun a b => MI a -> MI b)) with (ms := ms) (now := now) (orcs := orcs) (o := o); try exact E; auto.
    - intros a bf. apply MI_upd; reflexivity.
    - intros a s p. apply MI_upd; reflexivity.
    - intros a n s p a' o' Ef. unfold recv_fragment in Ef. destruct (_ <? _)%nat; [injection Ef as <- <-; auto|].
      injection Ef as <- <-. destruct (fr_complete _); apply MI_upd; reflexivity.
    - intros a. apply MI_upd; reflexivity.
    - intros a ty oo a' os Eh HN. unfold recv_handshake in Eh.
      destruct ty, (c_server a); try (injection Eh as <- <-; exact HN).
      + destruct (negb _); [injection Eh as <- <-; exact HN|].
        destruct (negb _); injection Eh as <- <-; [exact HN|].
        apply send_type_MI; [apply Q_sys; [reflexivity|exact I]|]. eapply MI_upd; [| | |exact HN]; reflexivity.
      + destruct (o_parse oo =? 6); [injection Eh as <- <-; eapply MI_upd; [| | |exact HN]; reflexivity|].
        destruct (negb _); injection Eh as <- <-; [exact HN|].
        eapply MI_upd; [| | |apply (send_type_MI (a <| c_token := o_token oo |> <| c_key := Some (o_key oo) |>) CHALLENGE_RESP (o_reply oo) RNone IChallenge);
                             [apply Q_sys; [reflexivity|exact I]|eapply MI_upd; [| | |exact HN]; reflexivity]]; reflexivity.
      + destruct (negb _); [injection Eh as <- <-; exact HN|].
        destruct (o_temp_token oo) as [t|]; [|injection Eh as <- <-; exact HN].
        destruct (t =? o_token oo); injection Eh as <- <-; [eapply MI_upd; [| | |exact HN]; reflexivity|exact HN].
  Qed.

  Lemma recv_MI c now d orcs c' o : MI c -> recv c now d orcs = (c', o) -> MI c'.
  Proof.
    unfold recv. intros HN E.
    destruct (keyless_refuses c (d_hdr d)); [injection E as <- <-; eapply MI_upd; [| | |exact HN]; reflexivity|].
    destruct (open_dgram (c_key c) d) as [ms|]; [|injection E as <- <-; eapply MI_upd; [| | |exact HN]; reflexivity].
    destruct (bf_insert (c_bf_pkt c) _) as [bf|]; [|injection E as <- <-; eapply MI_upd; [| | |exact HN]; reflexivity].
    match type of E with context [handle_ack_bits ?c0 _] => set (cc := c0) in E end.
    assert (Ncc : MI cc) by (eapply MI_upd; [| | |exact HN]; reflexivity).
    destruct (handle_ack_bits cc (d_hdr d)) as [c1 o1] eqn:E1.
    destruct (recv_msgs c1 now ms orcs) as [c2 o2] eqn:E2. injection E as <- <-.
    unfold handle_ack_bits in E1. eapply recv_msgs_MI; [|exact E2]. eapply ack_loop_MI; eassumption.
  Qed.

  Lemma send_frags_MI frags : forall c fid n r i, MI c -> MI (send_frags c fid n r i frags).
  Proof.
    induction frags as [|f rest IH]; intros c fid n r i H; cbn [send_frags]; [exact H|].
    apply IH. apply send_type_MI; [apply Q_frag|exact H].
  Qed.

  (* A's application: an unfragmented send creates an APP message satisfying Qm; connection kept open *)
  Definition ev_new (e : env) (c : conn) (x : ev) : Prop :=
    match x with
    | ESend p r k => len p <= e_max_payload e -> Qm (new_msg c APP p r k)
    | _ => True
    end.

  Theorem step_link e S Ka c n x c' o :
    ev_open x -> ev_new e c x -> MI c -> PK c -> AInv S Ka c n -> step e c x = (c', o) ->
    MI c' /\ PK c' /\ Link c c' (flat_map dg_of o) /\ WireQ (flat_map dg_of o).
  Proof.
    intros Hop Hnew HN HP HA E.
    assert (Hfin : forall c1 o1, no_emit o1 -> MI c1 -> PK c1 -> psub c c1 ->
                     MI c1 /\ PK c1 /\ Link c c1 (flat_map dg_of o1) /\ WireQ (flat_map dg_of o1)).
    { intros c1 o1 Ne A B D. rewrite (no_emit_dg _ Ne). split; [exact A|]. split; [exact B|]. split; [apply Link_psub; exact D|intros d []]. }
    assert (Hsame : forall c1, c_outgoing c1 = c_outgoing c -> c_pretry_msg c1 = c_pretry_msg c -> c_pcbs c1 = c_pcbs c ->
                      c_packs c1 = c_packs c -> MI c1 /\ PK c1 /\ psub c c1).
    { intros c1 O Pm C A. split; [eapply MI_upd; eassumption|]. split; [eapply PK_upd; eassumption|apply psub_eq; exact C]. }
    destruct x; cbn [step] in E; cbn [ev_open ev_new] in *.
    - (* send *)
      pose proof (send_frame _ _ _ _ _ _ _ E) as [_ Ne]. pose proof (send_ack _ _ _ _ _ _ _ E) as [Pa _ _ _ _].
      unfold send in E. destruct (negb _); [injection E as <- <-; apply Hfin; [exact Ne|exact HN|exact HP|apply psub_refl]|].
      destruct (len p >? e_max_payload e) eqn:Eg.
      + destruct (len p >? e_max_frag e * e_max_frags e); injection E as <- <-.
        * apply Hfin; [exact Ne|eapply MI_upd; [| | |exact HN]; reflexivity|eapply PK_upd; [| |exact HP]; reflexivity|apply psub_eq; reflexivity].
        * set (frags := split_frags (Datatypes.S (length p)) e p) in *.
          set (c0 := c <| c_seq_frag := seq_succ (c_seq_frag c) |>) in *.
          assert (N0 : MI c0) by (eapply MI_upd; [| | |exact HN]; reflexivity).
          pose proof (send_frags_MI frags c0 (seq_succ (c_seq_frag c)) (len frags) r 0 N0) as N1.
          destruct (send_frags_fields frags c0 (seq_succ (c_seq_frag c)) (len frags) r 0) as [_ Hpc].
          assert (Hpc' : c_pcbs ((send_frags c0 (seq_succ (c_seq_frag c)) (len frags) r 0 frags)
                           <| c_pfrags := dset (seq_succ (c_seq_frag c)) {| fs_ucb := k; fs_acks := repeat None (length frags) |}
                                (c_pfrags (send_frags c0 (seq_succ (c_seq_frag c)) (len frags) r 0 frags)) |>) = c_pcbs c) by exact Hpc.
          apply Hfin; [exact Ne|eapply MI_upd; [| | |exact N1]; reflexivity|eapply PK_upd; [exact Hpc'|exact Pa|exact HP]|apply psub_eq; exact Hpc'].
      + injection E as <- <-.
        apply Hfin; [exact Ne|apply send_type_MI; [apply Hnew; lia|exact HN]|eapply PK_upd; [| |exact HP]; reflexivity|apply psub_eq; reflexivity].
    - unfold client_tick in E.
      destruct (client_update c now) as [c0 o0] eqn:E0.
      assert (H0 : (MI c0 /\ PK c0 /\ psub c c0) /\ AInv S Ka c0 n /\ no_emit o0 /\ c_seq_send c0 = c_seq_send c).
      { pose proof (client_update_frame _ _ _ _ E0) as (F0 & N & _). pose proof (client_update_ack _ _ _ _ E0) as B.
        split; [|split; [|split; [exact N|destruct F0; assumption]]].
        - unfold client_update in E0.
          destruct (_ && (now >? _)); destruct (_ && (_ >? c_temp_timeout _)); injection E0 as <- <-; apply Hsame; reflexivity.
        - destruct HA as [H0 Hp]. split; [eapply AInv0_same; eassumption|eapply purged_same; eassumption]. }
      destruct H0 as ((N0 & P0 & S0) & A0 & Ne0 & Q0).
      destruct (status_eqb (c_status c0) DROPPED).
      { injection E as <- <-. apply Hfin; assumption. }
      match type of E with context [match ?y with (_, _) => _ end] => destruct y as [c1 o1] eqn:E1 end.
      assert (H1 : (MI c1 /\ PK c1 /\ psub c c1) /\ AInv S Ka c1 n /\ no_emit o1 /\ c_seq_send c1 = c_seq_send c).
      { destruct r as [|er|d orcs].
        - injection E1 as <- <-. split; [auto|]. split; [exact A0|]. split; [apply no_emit_nil|exact Q0].
        - injection E1 as <- <-. split; [auto|]. split; [exact A0|]. split; [intros y [<-|[]]; reflexivity|exact Q0].
        - destruct (recv c0 now d orcs) as [c'' o''] eqn:Er. injection E1 as <- <-.
          destruct (recv_PK _ _ _ _ _ _ P0 Er) as [P1 S1].
          split; [split; [eapply recv_MI; eassumption|split; [exact P1|eapply psub_trans; eassumption]]|].
          split; [eapply recv_AInv; eassumption|].
          pose proof (recv_frame _ _ _ _ _ _ Er) as [[_ Q _ _ _ _ _ _] Nr]. split; [auto with frame|congruence]. }
      destruct H1 as ((N1 & P1 & S1) & A1 & Ne1 & Q1).
      destruct (raised o1).
      { injection E as <- <-. apply Hfin; auto with frame. }
      destruct (_ >? _).
      2:{ injection E as <- <-. apply Hfin; auto with frame. }
      destruct (build_packet e c1 now) as [c2 pk] eqn:E2.
      destruct (check_timeout false c2 now) as [c3 o3] eqn:E3. injection E as <- <-.
      destruct (tick_tail_link _ _ _ _ _ _ _ _ _ _ _ N1 P1 A1 E2 E3) as (N3 & P3 & L3 & W3).
      apply check_timeout_frame in E3 as [_ Ne3].
      split; [exact N3|]. split; [exact P3|].
      rewrite !flat_dg_app, (no_emit_dg _ Ne0), (no_emit_dg _ Ne1), (no_emit_dg _ Ne3). cbn [app]. rewrite app_nil_r.
      split; [|apply W3].
      intros s ks Hs. destruct (L3 c2 s ks Hs) as [H|[H1 H2]]; [left; exact (S1 s ks H)|right].
      split; [congruence|exact H2].
    - unfold server_tick in E. destruct (_ >? _); [|injection E as <- <-; apply Hfin; [apply no_emit_nil|exact HN|exact HP|apply psub_refl]].
      destruct (build_packet e c now) as [c1 pk] eqn:E1.
      destruct (check_timeout true c1 now) as [c2 o2] eqn:E2. injection E as <- <-.
      destruct (tick_tail_link _ _ _ _ _ _ _ _ _ _ _ HN HP HA E1 E2) as (N2 & P2 & L2 & W2).
      apply check_timeout_frame in E2 as [_ Ne2].
      split; [exact N2|]. split; [exact P2|]. rewrite flat_dg_app, (no_emit_dg _ Ne2). cbn [app]. split; [apply L2|apply W2].
    - destruct (recv_PK _ _ _ _ _ _ HP E) as [P1 S1]. pose proof (recv_frame _ _ _ _ _ _ E) as [_ Nr].
      apply Hfin; [exact Nr|eapply recv_MI; eassumption|exact P1|exact S1].
    - destruct Hop.
    - injection E as <- <-.
      destruct (Hsame (match which with 0 => c <| c_ka_interval := v |> | 1 => c <| c_out_timeout := v |>
                                   | 2 => c <| c_temp_timeout := v |> | _ => c <| c_send_interval := v |> end))
        as (A & B & D); try (destruct which as [|[[q|q|]|[q|q|]|]|q]; reflexivity).
      apply Hfin; [apply no_emit_nil|exact A|exact B|exact D].
    - injection E as <- <-. unfold client_hello. apply Hfin; [apply no_emit_nil| | |].
      + eapply MI_upd; [| | |apply (send_type_MI c CLIENT_HELLO hello RNone IHello); [apply Q_sys; [reflexivity|exact I]|exact HN]]; reflexivity.
      + eapply PK_upd; [| |exact HP]; reflexivity.
      + apply psub_eq. reflexivity.
    - injection E as <- <-. destruct (Hsame (c <| c_incoming := [] |>)) as (A & B & D); try reflexivity.
      apply Hfin; [apply no_emit_nil|exact A|exact B|exact D].
    - injection E as <- <-. destruct (Hsame (c <| c_conn_cb := b |>)) as (A & B & D); try reflexivity.
      apply Hfin; [apply no_emit_nil|exact A|exact B|exact D].
  Qed.
End MQ.
