(* RecvP.v — lemmas about the receive path of Conn.v (Conn.recv, open_dgram, recv_msgs,
   handle_ack_bits): which fields each helper can touch, the symbolic notion of an authentic
   datagram, and the exact effect of a refused datagram.  Used by C01 and C04. *)
From Coq Require Import Lia ZifyBool.
From RecordUpdate Require Import RecordUpdate.
From Model Require Import Base SeqNum Wire Conn RecvSpec.
From Proofs Require Import Tac.
Import RecordSetNotations.
Open Scope Z_scope.

(* ---------- header equality ---------- *)

Lemma ptype_eqb_eq a b : ptype_eqb a b = true <-> a = b.
Proof.
  split; [|intros ->; unfold ptype_eqb; apply Z.eqb_refl].
  unfold ptype_eqb. destruct a, b; cbn; intros H; try reflexivity; discriminate.
Qed.

Lemma header_eqb_eq a b : header_eqb a b = true <-> a = b.
Proof.
  split.
  - unfold header_eqb. intros H.
    repeat (apply andb_prop in H; destruct H as [H ?]).
    destruct a, b; cbn in *.
    apply Bool.eqb_prop in H.
    match goal with H' : ptype_eqb _ _ = true |- _ => apply ptype_eqb_eq in H' end.
    repeat match goal with H' : (_ =? _) = true |- _ => apply Z.eqb_eq in H' end.
    subst. reflexivity.
  - intros ->. unfold header_eqb. destruct b; cbn.
    rewrite Bool.eqb_reflx, !Z.eqb_refl. cbn.
    replace (ptype_eqb h_type h_type) with true by (symmetry; apply ptype_eqb_eq; reflexivity).
    reflexivity.
Qed.

Lemma authenticb_spec k d : authenticb k d = true <-> authentic k d.
Proof.
  unfold authenticb, authentic. split.
  - destruct (d_body d) as [k' sh p| |]; try discriminate. intros H.
    apply andb_prop in H as [Hk Hh].
    apply header_eqb_eq in Hh. apply Z.eqb_eq in Hk. subst. exists p. reflexivity.
  - intros [p ->]. rewrite Z.eqb_refl.
    replace (header_eqb (d_hdr d) (d_hdr d)) with true by (symmetry; apply header_eqb_eq; reflexivity).
    reflexivity.
Qed.

(* ---------- opening a datagram ---------- *)

Lemma open_key_authentic k d ms : open_dgram (Some k) d = Ok ms -> authentic k d.
Proof.
  unfold open_dgram. intros H. apply authenticb_spec. unfold authenticb.
  destruct (d_body d) as [k' sh p| |]; cbn in H; try discriminate.
  destruct ((k =? k') && header_eqb sh (d_hdr d)); [reflexivity|].
  cbn in H. discriminate.
Qed.

Lemma open_key_refuses k d : ~ authentic k d -> exists e, open_dgram (Some k) d = Err e.
Proof.
  intros Hn. destruct (open_dgram (Some k) d) as [ms|e] eqn:E; [|eauto].
  exfalso. apply Hn. eapply open_key_authentic; eauto.
Qed.

Lemma open_key_payload k d ms : open_dgram (Some k) d = Ok ms ->
  exists p, d_body d = Sealed k (d_hdr d) p /\ len p <= h_len (d_hdr d) <= len p + 16
            /\ decode_msgs (h_type (d_hdr d)) (h_count (d_hdr d)) p = Ok ms.
Proof.
  intros H. destruct (open_key_authentic _ _ _ H) as [p Hb]. exists p. split; [exact Hb|].
  unfold open_dgram in H. rewrite Hb in H.
  rewrite Z.eqb_refl in H.
  replace (header_eqb (d_hdr d) (d_hdr d)) with true in H by (symmetry; apply header_eqb_eq; reflexivity).
  cbn [andb] in H.
  destruct ((len p <=? h_len (d_hdr d)) && (h_len (d_hdr d) <=? len p + 16)) eqn:E; cbn in H; [|discriminate].
  split; [lia|exact H].
Qed.

Lemma open_clear_payload d ms : open_dgram None d = Ok ms ->
  exists p, d_body d = Clear p /\ h_len (d_hdr d) = len p
            /\ decode_msgs (h_type (d_hdr d)) (h_count (d_hdr d)) p = Ok ms.
Proof.
  unfold open_dgram. destruct (d_body d) as [k' sh p|p|]; cbn; try discriminate.
  destruct (h_len (d_hdr d) =? len p) eqn:E; cbn; [|discriminate].
  intros H. exists p. repeat split; [lia|exact H].
Qed.

(* ---------- what the ack machinery can touch ---------- *)

(* the receive-side part of the state: no callback, ack or time-out handling changes it *)
Definition recv_side (c : conn) :=
  (c_server c, c_key c, c_status c, c_incoming c, c_rfrags c, c_bf_pkt c, c_bf_msg c,
   (c_token c, c_last_recv c, c_received c, c_dropped c, c_seq_msg c, c_seq_send c, c_seq_frag c,
    (c_hello_sent c, c_conn_cb c, c_out_timeout c, c_temp_timeout c, c_send_interval c, c_ka_interval c,
     c_last_send c, c_last_ka c, c_sent c, c_assembled c, c_next_rid c))).

Lemma fire_icb_side c k ok : recv_side (fst (fire_icb c k ok)) = recv_side c.
Proof.
  unfold fire_icb. destruct k; try reflexivity.
  destruct (dget fid (c_pfrags c)); [|reflexivity]. dif; reflexivity.
Qed.

Lemma fire_cb_side c k ok : recv_side (fst (fire_cb c k ok)) = recv_side c.
Proof.
  unfold fire_cb. destruct k as [i|rid mseq ty p i]; [apply fire_icb_side|].
  dif; [reflexivity|]. dif; [reflexivity|].
  rewrite fire_icb_side. reflexivity.
Qed.

Lemma fire_all_side ks : forall c ok, recv_side (fst (fire_all c ks ok)) = recv_side c.
Proof.
  induction ks as [|k r IH]; intros c ok; [reflexivity|].
  cbn [fire_all]. pose proof (fire_cb_side c k ok) as H1.
  destruct (fire_cb c k ok) as [c1 o1]. specialize (IH c1 ok).
  destruct (fire_all c1 r ok) as [c2 o2]. cbn [fst] in *. congruence.
Qed.

Lemma resolve_side ok c s : recv_side (fst (resolve ok c s)) = recv_side c.
Proof.
  unfold resolve.
  set (c0 := if ok then c <| c_acked := c_acked c + 1 |> else c <| c_timeouts := c_timeouts c + 1 |>).
  assert (H0 : recv_side c0 = recv_side c) by (subst c0; destruct ok; reflexivity).
  destruct (dget s (c_pcbs c0)) as [ks|].
  - pose proof (fire_all_side ks c0 ok) as H1. destruct (fire_all c0 ks ok) as [c' o]. cbn [fst] in *.
    destruct (dget s (c_pretry (c' <| c_pcbs := ddel s (c_pcbs c') |>))); cbn [fst]; rewrite <- H0, <- H1; reflexivity.
  - destruct (dget s (c_pretry c0)); cbn [fst]; rewrite <- H0; reflexivity.
Qed.

Lemma ack_loop_side h snap : forall c, recv_side (fst (ack_loop c h snap)) = recv_side c.
Proof.
  induction snap as [|[s t] r IH]; intros c; [reflexivity|].
  cbn [ack_loop].
  set (x := if hdr_acks (h_ack h) (h_ackbits h) s then resolve true c s
            else if c_last_recv c - t >? c_out_timeout c then resolve false c s else (c, [])).
  assert (H1 : recv_side (fst x) = recv_side c).
  { subst x. dif; [apply resolve_side|]. dif; [apply resolve_side|reflexivity]. }
  destruct x as [c1 o1]. specialize (IH c1). destruct (ack_loop c1 h r) as [c2 o2].
  cbn [fst] in *. congruence.
Qed.

Lemma handle_ack_bits_side c h : recv_side (fst (handle_ack_bits c h)) = recv_side c.
Proof. apply ack_loop_side. Qed.

(* projections out of recv_side equalities *)
Lemma side_fields c c' : recv_side c' = recv_side c ->
  c_server c' = c_server c /\ c_key c' = c_key c /\ c_status c' = c_status c
  /\ c_incoming c' = c_incoming c /\ c_rfrags c' = c_rfrags c /\ c_bf_pkt c' = c_bf_pkt c
  /\ c_bf_msg c' = c_bf_msg c /\ c_token c' = c_token c /\ c_seq_msg c' = c_seq_msg c
  /\ c_last_recv c' = c_last_recv c /\ c_received c' = c_received c /\ c_dropped c' = c_dropped c.
Proof. unfold recv_side. intros H. inversion H. repeat split; assumption. Qed.

(* callbacks fired by the ack machinery never produce a handler-connect or a return value *)
Definition cb_only (o : list out) : Prop :=
  forall x, In x o -> match x with OCallback _ _ | OLog _ => True | _ => False end.

Lemma cb_only_app a b : cb_only a -> cb_only b -> cb_only (a ++ b).
Proof. intros Ha Hb x Hx. apply in_app_or in Hx as [Hx|Hx]; [apply Ha|apply Hb]; exact Hx. Qed.
Lemma cb_only_nil : cb_only [].
Proof. intros x []. Qed.

Lemma fire_icb_out c k ok : cb_only (snd (fire_icb c k ok)).
Proof.
  unfold fire_icb. destruct k; cbn [snd]; try apply cb_only_nil.
  - intros x [<-|[]]. exact I.
  - destruct (dget fid (c_pfrags c)); [|apply cb_only_nil]. dif; cbn [snd]; [|apply cb_only_nil].
    destruct (fs_ucb f); try apply cb_only_nil. intros x [<-|[]]. exact I.
  - destruct ok; [apply cb_only_nil|]. intros x [<-|[]]. exact I.
  - destruct ok; [apply cb_only_nil|]. intros x [<-|[]]. exact I.
  - intros x [<-|[]]. exact I.
Qed.

Lemma fire_cb_out c k ok : cb_only (snd (fire_cb c k ok)).
Proof.
  unfold fire_cb. destruct k as [i|rid mseq ty p i]; [apply fire_icb_out|].
  dif; [apply cb_only_nil|]. dif; [apply cb_only_nil|]. apply fire_icb_out.
Qed.

Lemma fire_all_out ks : forall c ok, cb_only (snd (fire_all c ks ok)).
Proof.
  induction ks as [|k r IH]; intros c ok; [apply cb_only_nil|].
  cbn [fire_all]. pose proof (fire_cb_out c k ok) as H1.
  destruct (fire_cb c k ok) as [c1 o1]. specialize (IH c1 ok).
  destruct (fire_all c1 r ok) as [c2 o2]. cbn [snd] in *. apply cb_only_app; assumption.
Qed.

Lemma resolve_out ok c s : cb_only (snd (resolve ok c s)).
Proof.
  unfold resolve.
  set (c0 := if ok then c <| c_acked := c_acked c + 1 |> else c <| c_timeouts := c_timeouts c + 1 |>).
  destruct (dget s (c_pcbs c0)) as [ks|].
  - pose proof (fire_all_out ks c0 ok) as H1. destruct (fire_all c0 ks ok) as [c' o]. cbn [snd] in *. exact H1.
  - apply cb_only_nil.
Qed.

Lemma ack_loop_out h snap : forall c, cb_only (snd (ack_loop c h snap)).
Proof.
  induction snap as [|[s t] r IH]; intros c; [apply cb_only_nil|].
  cbn [ack_loop].
  set (x := if hdr_acks (h_ack h) (h_ackbits h) s then resolve true c s
            else if c_last_recv c - t >? c_out_timeout c then resolve false c s else (c, [])).
  assert (H1 : cb_only (snd x)).
  { subst x. dif; [apply resolve_out|]. dif; [apply resolve_out|apply cb_only_nil]. }
  destruct x as [c1 o1]. specialize (IH c1). destruct (ack_loop c1 h r) as [c2 o2].
  cbn [snd] in *. apply cb_only_app; assumption.
Qed.

Lemma cb_only_not_raised o : cb_only o -> raised o = false.
Proof.
  unfold raised. intros H. destruct (existsb _ o) eqn:E; [|reflexivity].
  apply existsb_exists in E as [x [Hx Hr]]. specialize (H x Hx). destruct x; try discriminate; contradiction.
Qed.

(* ---------- refused datagrams ---------- *)

Lemma recv_drop_key c now d orcs k : c_key c = Some k -> ~ authentic k d ->
  recv c now d orcs = (bump c, [ORet false]).
Proof.
  intros Hk Hn. unfold recv, keyless_refuses. rewrite Hk. cbn [is_some negb andb].
  destruct (open_key_refuses k d Hn) as [e He]. rewrite He. reflexivity.
Qed.

Lemma recv_accept_authentic c now d orcs k : c_key c = Some k ->
  recv c now d orcs <> (bump c, [ORet false]) -> authentic k d.
Proof.
  intros Hk Hne. destruct (authenticb k d) eqn:E; [apply authenticb_spec; exact E|].
  exfalso. apply Hne. apply (recv_drop_key c now d orcs k Hk).
  intros Ha. apply authenticb_spec in Ha. congruence.
Qed.
