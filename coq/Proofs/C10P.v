(* C10P.v — proofs of the C10 statements (handler lifecycle) from the invariants of ServerP.v *)
From Coq Require Import Lia ZifyBool.
From Model Require Import Base SeqNum Wire Conn Server.
From Proofs Require Import Tac ServerP.
Open Scope Z_scope.

Definition lifecycle_shape (cid : Z) (l : list hevent) : Prop :=
  l = [] \/ exists a t msgs tail, l = HConnect cid a t :: msgs ++ tail /\ Forall is_message msgs /\
                                  (tail = [] \/ tail = [HDisconnect cid]).

Lemma proj_cid cid l x : In x (proj cid l) -> ev_cid x = Some cid.
Proof. unfold proj. intros H. apply filter_In in H. apply ev_is_true. tauto. Qed.

Theorem C10_lifecycle_proof : forall h e g bl ins cid,
  lifecycle_shape cid (proj cid (hlog (snd (srv_life h e g bl ins)))).
Proof.
  intros. destruct (srv_life h e g bl ins) as [s o] eqn:L. simpl.
  destruct (srv_life_inv _ _ _ _ _ _ _ L) as [I _].
  destruct I as (_ & _ & _ & _ & _ & _ & N). specialize (N cid). unfold adv in N.
  apply lc_fresh; auto. intros x. apply proj_cid.
Qed.

Lemma lc_msgs msgs : Forall is_message msgs -> fold_left lc_step msgs (Some Live) = Some Live.
Proof. induction 1 as [|x r Hx _ IH]; simpl; auto. destruct x; simpl in *; tauto. Qed.

Theorem C10_shutdown_complete_proof : forall h e g bl ins cid,
  let r := srv_life h e g bl ins in
  s_active (fst r) = false -> s_dead (fst r) = false ->
  proj cid (hlog (snd r)) = [] \/
  exists a t msgs, proj cid (hlog (snd r)) = HConnect cid a t :: msgs ++ [HDisconnect cid] /\ Forall is_message msgs.
Proof.
  intros h e g bl ins cid r. subst r. destruct (srv_life h e g bl ins) as [s o] eqn:L. simpl. intros A D.
  destruct (srv_life_inv _ _ _ _ _ _ _ L) as [I Q].
  pose proof (C10_lifecycle_proof h e g bl ins cid) as S. rewrite L in S. simpl in S.
  destruct S as [S|(a & t & msgs & tail & E & F & [T|T])]; auto.
  - exfalso. subst tail. rewrite app_nil_r in E.
    destruct I as (_ & _ & _ & Lv & _). specialize (Lv cid). rewrite (Q A D) in Lv. simpl in Lv.
    apply Lv. unfold adv. rewrite E. simpl. apply lc_msgs; auto.
  - right. subst tail. eauto.
Qed.
