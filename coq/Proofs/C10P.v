(* C10P.v — proofs of the C10 statements (handler lifecycle) from the invariants of ServerP.v *)
From Coq Require Import Lia ZifyBool.
From Model Require Import Base SeqNum Wire Conn Server.
From Proofs Require Import Tac ServerP.
Open Scope Z_scope.

Definition lifecycle_shape (cid : Z) (l : list hevent) : Prop :=
  l = [] \/ exists a t msgs tail, l = HConnect cid a t :: msgs ++ tail /\ Forall is_message msgs /\
                                  (tail = [] \/ tail = [HDisconnect cid]).

Lemma proj_cid cid l x : In x (proj cid l) -> ev_cid x = Some cid.
Proof. unfold proj. intros H. apply filter_In in H. apply ev_is_true. tauto. Qed.

Theorem C10_lifecycle_proof : forall h e g bl ins cid,
  lifecycle_shape cid (proj cid (hlog (snd (srv_life h e g bl ins)))).
Proof.
  intros. destruct (srv_life h e g bl ins) as [s o] eqn:L. simpl.
  destruct (srv_life_inv _ _ _ _ _ _ _ L) as [I _].
  destruct I as (_ & _ & _ & _ & _ & _ & N). specialize (N cid). unfold adv in N.
  apply lc_fresh; auto. intros x. apply proj_cid.
Qed.

Lemma lc_msgs msgs : Forall is_message msgs -> fold_left lc_step msgs (Some Live) = Some Live.
Proof. induction 1 as [|x r Hx _ IH]; simpl; auto. destruct x; simpl in *; tauto. Qed.

Theorem C10_shutdown_complete_proof : forall h e g bl ins cid,
  let r := srv_life h e g bl ins in
  s_active (fst r) = false -> s_dead (fst r) = false ->
  proj cid (hlog (snd r)) = [] \/
  exists a t msgs, proj cid (hlog (snd r)) = HConnect cid a t :: msgs ++ [HDisconnect cid] /\ Forall is_message msgs.
Proof.
  intros h e g bl ins cid r. subst r. destruct (srv_life h e g bl ins) as [s o] eqn:L. simpl. intros A D.
  destruct (srv_life_inv _ _ _ _ _ _ _ L) as [I Q].
  pose proof (C10_lifecycle_proof h e g bl ins cid) as S. rewrite L in S. simpl in S.
  destruct S as [S|(a & t & msgs & tail & E & F & [T|T])]; auto.
  - exfalso. subst tail. rewrite app_nil_r in E.
    destruct I as (_ & _ & _ & Lv & _). specialize (Lv cid). rewrite (Q A D) in Lv. simpl in Lv.
    apply Lv. unfold adv. rewrite E. simpl. apply lc_msgs; auto.
  - right. subst tail. eauto.
Qed.

(* ---------- tokens: what get_token hands out (D10) ---------- *)
Theorem C10_token_fresh_proof : forall used rand t rest,
  get_token used rand = Some (t, rest) ->
  t <> 0 /\ ~ In t used /\ exists r, In r rand /\ t = mask_token r.
Proof.
  intros used rand. induction rand as [|x r IH]; simpl; intros t rest; [discriminate|].
  destruct ((mask_token x =? 0) || zmem (mask_token x) used) eqn:E.
  - intros H. destruct (IH _ _ H) as (A & B & y & I & Ey). repeat split; auto. exists y; auto.
  - intros [= <- <-]. apply orb_false_iff in E. destruct E as [E1 E2]. repeat split.
    + lia.
    + intros I. unfold zmem in E2. assert (X : existsb (Z.eqb (mask_token x)) used = true).
      { apply existsb_exists. exists (mask_token x). split; auto. lia. }
      congruence.
    + exists x; auto.
Qed.

(* the set consulted is exactly the tokens of every pooled connection object *)
Theorem C10_tokens_in_use_proof : forall s cl, In cl (s_conns s) \/ In cl (s_temp s) ->
  In (c_token (cl_conn cl)) (tokens_in_use s).
Proof.
  intros s cl H. unfold tokens_in_use. apply in_map_iff. exists cl. split; auto. apply in_app_iff. auto.
Qed.

(* ---------- a handler exception changes nothing but the log line ---------- *)
Definition strip (h : horacle) : horacle := fun n ev => {| r_acts := r_acts (h n ev); r_raises := false |}.

Theorem C10_handler_raise_irrelevant_call_proof : forall h e s ev,
  fst (call_handler h e s ev) = fst (call_handler (strip h) e s ev) /\
  snd (call_handler (strip h) e s ev) = [SEv ev] /\
  snd (call_handler h e s ev) = SEv ev :: (if r_raises (h (s_calls s) ev) then [SExc ev] else []).
Proof. intros. unfold call_handler, strip; simpl. auto. Qed.

(* ---------- the sweep: a due client gets its disconnect, a client that is not due gets none ---------- *)
Definition due (g : cfg) (now : Z) (c : conn) : bool :=
  status_eqb (c_status c) DISCONNECTING || status_eqb (c_status c) DISCONNECTED
  || timedout c now (g_conn_timeout g).

Lemma pfind_pmap_id cid f p :
  pfind cid (pmap_id cid f p) = option_map (fun cl => with_conn cl (f (cl_conn cl))) (pfind cid p).
Proof.
  induction p as [|x r IH]; simpl; auto. destruct (cl_id x =? cid) eqn:E; simpl; rewrite ?E; auto.
Qed.

Theorem C10_sweep_due_proof : forall h e s now cid cl s' o p,
  pfind cid (s_conns s) = Some cl ->
  sweep_conn h e s now cid = (s', o, p) ->
  hlog o = if due (s_cfg s) now (cl_conn cl) then [HDisconnect cid] else [].
Proof.
  intros h e s now cid cl s' o p P. unfold sweep_conn. rewrite P.
  destruct (status_eqb (c_status (cl_conn cl)) DISCONNECTING) eqn:E1.
  - (* DISCONNECTING: client.disconnect() first, then the DISCONNECTED branch *)
    set (sa := supd cid (fun c : conn => disconnect c INone) s).
    assert (Pa : pfind cid (s_conns sa) = Some (with_conn cl (disconnect (cl_conn cl) INone))).
    { unfold sa, supd; simpl. rewrite pfind_pmap_id, P. reflexivity. }
    rewrite Pa. unfold due. rewrite E1. cbn [with_conn cl_conn orb].
    replace (status_eqb (c_status (disconnect (cl_conn cl) INone)) DISCONNECTED) with true by reflexivity.
    cbn [orb].
    destruct (call_handler h e sa (HDisconnect cid)) as [s1 o1] eqn:C.
    apply call_handler_spec in C. destruct C as [F1 L1].
    destruct (pfind cid (s_conns s1)) as [cl1|].
    + destruct (tick_client e s1 cl1 now) as [[[s2 o2] snd_] r2] eqn:Tk.
      apply tick_client_spec in Tk. destruct Tk as [F2 L2]. intros [= <- <- <-].
      rewrite !hlog_app, L1, L2, hlog_upderr. auto.
    + intros [= <- <- <-]. auto.
  - rewrite P. unfold due. rewrite E1. cbn [orb].
    destruct (status_eqb (c_status (cl_conn cl)) DISCONNECTED || timedout (cl_conn cl) now (g_conn_timeout (s_cfg s))).
    + destruct (call_handler h e s (HDisconnect cid)) as [s1 o1] eqn:C.
      apply call_handler_spec in C. destruct C as [F1 L1].
      destruct (pfind cid (s_conns s1)) as [cl1|].
      * destruct (tick_client e s1 cl1 now) as [[[s2 o2] snd_] r2] eqn:Tk.
        apply tick_client_spec in Tk. destruct Tk as [F2 L2]. intros [= <- <- <-].
        rewrite !hlog_app, L1, L2, hlog_upderr. auto.
      * intros [= <- <- <-]. auto.
    + destruct (tick_client e s cl now) as [[[s2 o2] snd_] r2] eqn:Tk.
      apply tick_client_spec in Tk. destruct Tk as [F2 L2]. intros [= <- <- <-].
      rewrite hlog_app, L2, hlog_upderr. auto.
Qed.

(* what makes a client due: a DISCONNECT message from the peer, client.disconnect() from a handler *)
Theorem C10_disconnect_causes_proof : forall c k,
  c_status (disconnect c k) = DISCONNECTED.
Proof. intros. unfold disconnect. reflexivity. Qed.

(* ---------- connect only on a valid challenge response ---------- *)
Lemma recv_one_connect c now m o c' outs :
  recv_msgs c now [m] [o] = (c', outs) -> has_connect outs = true ->
  w_type m = CHALLENGE_RESP /\ o_parse o = 0 /\ o_temp_token o = Some (o_token o) /\ c_status c' = CONNECTED.
Proof.
  cbn [recv_msgs]. destruct (bf_insert (c_bf_msg c) (w_seq m)) as [bf|er].
  2:{ intros [= <- <-]. discriminate. }
  destruct (w_type m) eqn:Ty; cbn [hd tl].
  - intros [= <- <-]. discriminate.
  - unfold recv_handshake. cbn [c_server]. destruct (c_server _); cbn.
    + destruct (negb (o_parse o =? 0)); cbn; [intros [= <- <-]; discriminate|].
      destruct (negb (o_version_ok o)); cbn; intros [= <- <-]; discriminate.
    + intros [= <- <-]. discriminate.
  - unfold recv_handshake. cbn [c_server]. destruct (c_server _); cbn.
    + intros [= <- <-]. discriminate.
    + destruct (o_parse o =? 6); cbn; [intros [= <- <-]; discriminate|].
      destruct (negb (o_parse o =? 0)); cbn; [intros [= <- <-]; discriminate|].
      destruct (c_conn_cb _); intros [= <- <-]; discriminate.
  - unfold recv_handshake. cbn [c_server]. destruct (c_server _); cbn.
    + destruct (o_parse o =? 0) eqn:Pz; cbn; [|intros [= <- <-]; discriminate].
      destruct (o_temp_token o) as [t|] eqn:Tt; cbn; [|intros [= <- <-]; discriminate].
      destruct (t =? o_token o) eqn:Te; cbn; intros [= <- <-]; [|discriminate]. intros _.
      repeat split; auto; try lia. f_equal. lia.
    + intros [= <- <-]. discriminate.
  - intros [= <- <-]. discriminate.
  - intros [= <- <-]. discriminate.
  - intros [= <- <-]. discriminate.
  - destruct (recv_fragment _ _ _ _) as [c1 o1] eqn:F. unfold recv_fragment in F.
    destruct (length (w_payload m) <? 6)%nat; injection F as <- <-; cbn; intros [= <- <-]; discriminate.
Qed.

Definition is_connect (x : sout) : bool := match x with SEv (HConnect _ _ _) => true | _ => false end.

Theorem C10_connect_needs_challenge_proof : forall h e s cid now m x s' o r,
  srv_msg h e s cid now m x = (s', o, r) -> existsb is_connect o = true ->
  w_type m = CHALLENGE_RESP /\ x_parse x = 0 /\
  exists cl other, sfind cid s = Some cl /\ pget (cl_addr cl) (s_temp s) = Some other /\
                   c_token (cl_conn other) = x_token x.
Proof.
  intros h e s cid now m x s' o r. unfold srv_msg.
  destruct (sfind cid s) as [cl|] eqn:F. 2:{ intros [= <- <- <-]. discriminate. }
  set (draws := ptype_eqb (w_type m) CLIENT_HELLO && _ && _ && _).
  destruct (if draws then _ else _) as [[t rand']|] eqn:Tk. 2:{ intros [= <- <- <-]. discriminate. }
  destruct (recv_msgs _ _ _ _) as [c' outs] eqn:R.
  destruct (has_connect outs) eqn:HC.
  - apply recv_one_connect in R; auto. destruct R as (Ty & Pz & Tt & _). cbn in Pz, Tt.
    assert (Dr : draws = false). { unfold draws. rewrite Ty. reflexivity. }
    rewrite Dr in *. cbn in Pz, Tt. injection Tk as <- <-.
    intros _ _. split; auto. split; auto.
    destruct (pget (cl_addr cl) (s_temp s)) as [other|] eqn:PG; [|discriminate].
    exists cl, other. repeat split; auto. congruence.
  - intros [= <- <- <-]. destruct (draws && negb (draws && negb (x_ecdh x =? 0))); cbn; discriminate.
Qed.
