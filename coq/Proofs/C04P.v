(* C04P.v — proofs of the C04 statements: duplicates inside the receive windows are dropped
   exactly, along arbitrary receive histories; outside the windows they are not (D16). *)
From Coq Require Import Lia ZifyBool.
From RecordUpdate Require Import RecordUpdate.
From Model Require Import Base SeqNum Wire Conn RecvSpec RecvHist.
From Proofs Require Import Tac SeqNumP RecvP RecvHistP.
Import RecordSetNotations.
Open Scope Z_scope.

(* ---------- single steps, for every connection state ---------- *)

(* R f m acc (SeqNumP): window f holds exactly the history "indices acc were accepted, newest m" *)
Lemma C04_dup_datagram_dropped_proof : forall c now d orcs m acc n,
  R (c_bf_pkt c) m acc -> bf_nbits (c_bf_pkt c) = 32 ->
  h_seq (d_hdr d) = wire n -> 1 <= n -> Z.abs (n - m) <= HALF ->
  In n acc -> m - n <= 32 ->
  recv c now d orcs = (bump c, [ORet false]).
Proof.
  intros c now d orcs m acc n HR Hnb Hseq Hn Hh Hin Hw. unfold recv.
  destruct (keyless_refuses c (d_hdr d)); [reflexivity|].
  destruct (open_dgram (c_key c) d); [|reflexivity].
  pose proof (R_step _ m acc n HR Hn Hh) as Hs. rewrite Hnb in Hs.
  assert (Hd : spec_dup 32 m acc n = true).
  { unfold spec_dup. apply InB_In in Hin. unfold InB in Hin. rewrite Hin.
    pose proof (R_le _ _ _ HR n (proj1 (InB_In n acc) Hin)). lia. }
  rewrite Hd in Hs. rewrite Hseq, Hs. reflexivity.
Qed.

Lemma C04_msg_dup_skipped_proof : forall c now m r orcs mm accm j,
  R (c_bf_msg c) mm accm -> bf_nbits (c_bf_msg c) = 256 ->
  w_seq m = wire j -> 1 <= j -> Z.abs (j - mm) <= HALF ->
  In j accm -> mm - j <= 256 ->
  recv_msgs c now (m :: r) orcs = recv_msgs c now r (if is_hs (w_type m) then tl orcs else orcs).
Proof.
  intros c now m r orcs mm accm j HR Hnb Hseq Hj Hh Hin Hw. cbn [recv_msgs].
  pose proof (R_step _ mm accm j HR Hj Hh) as Hs. rewrite Hnb in Hs.
  assert (Hd : spec_dup 256 mm accm j = true).
  { unfold spec_dup. apply InB_In in Hin. unfold InB in Hin. rewrite Hin.
    pose proof (R_le _ _ _ HR j (proj1 (InB_In j accm) Hin)). lia. }
  rewrite Hd in Hs. rewrite Hseq, Hs. reflexivity.
Qed.

(* an application message reaches the application exactly when it gets past the window *)
Lemma C04_app_delivered_iff_processed_proof : forall c now m orcs, w_type m = APP ->
  match bf_insert (c_bf_msg c) (w_seq m) with
  | Ok _ => c_incoming (fst (recv_msgs c now [m] orcs)) = c_incoming c ++ [(w_seq m, w_payload m)]
  | Err _ => recv_msgs c now [m] orcs = (c, [])
  end.
Proof.
  intros c now m orcs Ht. cbn [recv_msgs]. destruct (bf_insert (c_bf_msg c) (w_seq m)); [|reflexivity].
  rewrite Ht. reflexivity.
Qed.

(* a fragment adds at most one reassembled message, and then its context is closed *)
Lemma filter_dget_none {A} (P : Z * A -> bool) k (d : list (Z * A)) : dget k d = None -> dget k (filter P d) = None.
Proof.
  induction d as [|[k' v] r IH]; cbn; [reflexivity|]. destruct (k =? k') eqn:E; [discriminate|].
  intros H. destruct (P (k', v)); cbn; [rewrite E|]; apply IH; exact H.
Qed.

Lemma ddel_dget_none {A} k (d : list (Z * A)) : dget k (ddel k d) = None.
Proof.
  unfold ddel. induction d as [|[k' v] r IH]; cbn; [reflexivity|].
  destruct (k' =? k) eqn:E; cbn; [exact IH|]. replace (k =? k') with false by lia. exact IH.
Qed.

Lemma C04_fragment_once_proof : forall c now mseq frag,
  let c' := fst (recv_fragment c now mseq frag) in
  c_incoming c' = c_incoming c
  \/ (exists s p, c_incoming c' = c_incoming c ++ [(s, p)])
     /\ dget (unbe (sub frag 0 2)) (c_rfrags c') = None.
Proof.
  intros c now mseq frag. unfold recv_fragment. dif; [left; reflexivity|]. cbv zeta.
  dif; cbn [fst]; [|left; reflexivity].
  right. split; [eexists; eexists; reflexivity|].
  cbn. apply filter_dget_none. apply ddel_dget_none.
Qed.

(* ---------- arbitrary receive histories ---------- *)

Definition dropped_out (o : list out) : bool :=
  match last o (ORet true) with ORet b => negb b | _ => false end.

Lemma run_g_spec k : forall l c stp stm,
  c_key c = Some k -> W 32 (c_bf_pkt c) stp -> W 256 (c_bf_msg c) stm -> Forall (good k) l ->
  w_half 32 stp (map a_n l) ->
  w_half 256 stm (presented (w_hist 32 stp (map a_n l)) l) ->
  let pf := w_hist 32 stp (map a_n l) in
  let '(c', acc, p) := run_g c l in
  acc = fresh_of pf (map a_n l)
  /\ p = fresh_of (w_hist 256 stm (presented pf l)) (presented pf l)
  /\ fst (run_recv c l) = c'
  /\ map dropped_out (snd (run_recv c l)) = pf.
Proof.
  induction l as [|a r IH]; intros c stp stm Hk HWp HWm Hg Hhp Hhm; cbn zeta.
  - cbn. repeat split.
  - inversion Hg as [|? ? Hga Hgr]; subst.
    cbn [map w_half] in Hhp. destruct Hhp as [Hok Hhp].
    cbn [map w_hist presented] in Hhm |- *.
    pose proof (recv_g_W k c a stp stm Hk Hga HWp HWm Hok) as Hstep.
    pose proof (recv_g_erase k c a Hk Hga) as Her.
    cbn [run_g run_recv].
    destruct (recv_g c a) as [[[c1 o] acc] p].
    rewrite Her.
    destruct (w_dup 32 stp (a_n a)) eqn:Hdup.
    + destruct Hstep as (Hk1 & HWp1 & -> & -> & -> & -> & HWm1); [intros; discriminate|].
      specialize (IH (bump c) _ stm Hk1 HWp1 HWm1 Hgr Hhp Hhm). cbv zeta in IH.
      destruct (run_g (bump c) r) as [[c2 ns] js].
      destruct (run_recv (bump c) r) as [c2' os]. cbn [fst snd] in *.
      destruct IH as (A & B & C & D). cbn [fresh_of app map]. rewrite D.
      repeat split; try assumption. 
    + apply w_half_app in Hhm as [Hh1 Hh2].
      destruct Hstep as (Hk1 & HWp1 & -> & -> & HWm1 & [o' ->]); [intros; exact Hh1|].
      specialize (IH c1 _ _ Hk1 HWp1 HWm1 Hgr Hhp Hh2). cbv zeta in IH.
      destruct (run_g c1 r) as [[c2 ns] js].
      destruct (run_recv c1 r) as [c2' os]. cbn [fst snd] in *.
      destruct IH as (A & B & C & D). cbn [fresh_of map].
      rewrite w_hist_app, fresh_of_app by apply w_hist_length.
      rewrite A, B, D. unfold dropped_out at 1. rewrite last_last. cbn [negb].
      repeat split; try assumption.
Qed.

Lemma W_fresh nb : W nb (bf_new nb) None.
Proof. reflexivity. Qed.

(* exactness: a fresh connection's decisions equal the abstract windows' *)
Lemma C04_exact_proof : forall k c l,
  c_key c = Some k -> c_bf_pkt c = bf_new 32 -> c_bf_msg c = bf_new 256 ->
  Forall (good k) l ->
  let ns := map a_n l in
  let pf := w_hist 32 None ns in
  let js := presented pf l in
  w_half 32 None ns -> w_half 256 None js ->
  map dropped_out (snd (run_recv c l)) = pf
  /\ fst (run_recv c l) = fst (fst (run_g c l))
  /\ snd (fst (run_g c l)) = fresh_of pf ns
  /\ snd (run_g c l) = fresh_of (w_hist 256 None js) js.
Proof.
  intros k c l Hk Hp Hm Hg ns pf js Hhp Hhm.
  pose proof (run_g_spec k l c None None Hk) as H. rewrite Hp, Hm in H.
  specialize (H (W_fresh 32) (W_fresh 256) Hg Hhp Hhm). cbv zeta in H.
  destruct (run_g c l) as [[c' acc] p]. cbn [fst snd]. destruct H as (A & B & C & D).
  repeat split; assumption.
Qed.

(* at-most-once under the in-window hypothesis *)
Lemma C04_partial_proof : forall k c l,
  c_key c = Some k -> c_bf_pkt c = bf_new 32 -> c_bf_msg c = bf_new 256 ->
  Forall (good k) l ->
  let ns := map a_n l in
  let pf := w_hist 32 None ns in
  let js := presented pf l in
  w_half 32 None ns -> w_half 256 None js ->
  w_inwin 32 None ns -> w_inwin 256 None js ->
  NoDup (snd (fst (run_g c l))) /\ NoDup (snd (run_g c l)).
Proof.
  intros k c l Hk Hp Hm Hg ns pf js Hhp Hhm Hip Him.
  destruct (C04_exact_proof k c l Hk Hp Hm Hg Hhp Hhm) as (_ & _ & A & B).
  fold ns pf js in A, B. rewrite A, B. split.
  - exact (proj1 (w_nodup 32 ns None I Hip)).
  - exact (proj1 (w_nodup 256 js None I Him)).
Qed.

(* ---------- the full property is false: D16 ---------- *)

(* 33 newer datagrams (8 messages each, 264 newer messages): the replayed datagram is accepted
   again and its message is delivered a second time *)
Lemma C04_refuted_proof :
  let c := wit_conn in
  let l := wit_history 33 8 in
  let ns := map a_n l in
  let js := presented (w_hist 32 None ns) l in
  c_key c = Some 7 /\ c_bf_pkt c = bf_new 32 /\ c_bf_msg c = bf_new 256
  /\ Forall (good 7) l /\ w_half 32 None ns /\ w_half 256 None js
  /\ count_occ Z.eq_dec (snd (fst (run_g c l))) 1 = 2%nat       (* datagram 1 accepted twice *)
  /\ count_occ Z.eq_dec (snd (run_g c l)) 1 = 2%nat             (* message 1 processed twice *)
  /\ count_delivered 1 (fst (run_recv c l)) = 2                 (* and handed to the application twice *)
  /\ last (snd (run_recv c l)) [] = [ORet true].                (* the replay returns True *)
Proof.
  cbv zeta. split; [reflexivity|]. split; [reflexivity|]. split; [reflexivity|].
  split; [apply goodb_all; vm_compute; reflexivity|].
  split; [apply w_halfb_sound; vm_compute; reflexivity|].
  split; [apply w_halfb_sound; vm_compute; reflexivity|].
  vm_compute. repeat split.
Qed.

(* with 32 newer datagrams the same replay is still dropped whole; with 33 newer datagrams
   carrying few messages it is accepted again but its message is not delivered again *)
Lemma C04_boundary_proof :
  (let l := wit_history 32 8 in
   count_occ Z.eq_dec (snd (fst (run_g wit_conn l))) 1 = 1%nat
   /\ count_delivered 1 (fst (run_recv wit_conn l)) = 1
   /\ last (snd (run_recv wit_conn l)) [] = [ORet false])
  /\ (let l := wit_history 33 7 in                     (* 231 newer messages: inside the message window *)
   count_occ Z.eq_dec (snd (fst (run_g wit_conn l))) 1 = 2%nat
   /\ count_occ Z.eq_dec (snd (run_g wit_conn l)) 1 = 1%nat
   /\ count_delivered 1 (fst (run_recv wit_conn l)) = 1).
Proof. vm_compute. repeat split. Qed.
