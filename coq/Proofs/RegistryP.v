(* RegistryP.v — the class registry stays a bijection between type ids and classes. *)
From Coq Require Import ZArith List Bool Lia.
From Model Require Import Registry.
Import ListNotations.
Open Scope Z_scope.

Lemma rget_rset {A} k k' (v : A) d : rget k' (rset k v d) = if k' =? k then Some v else rget k' d.
Proof.
  induction d as [|[k0 v0] r IH]; cbn.
  - destruct (k' =? k); reflexivity.
  - destruct (k =? k0) eqn:E; cbn.
    + apply Z.eqb_eq in E. subst k0. destruct (k' =? k); reflexivity.
    + destruct (k' =? k0) eqn:E2.
      * apply Z.eqb_eq in E2. subst k0. destruct (k' =? k) eqn:E3; [apply Z.eqb_eq in E3; subst; rewrite Z.eqb_refl in E; discriminate|reflexivity].
      * exact IH.
Qed.

Lemma rset_keys_new {A} k (v : A) d : rget k d = None -> map fst (rset k v d) = map fst d ++ [k].
Proof.
  induction d as [|[k0 v0] r IH]; cbn; intros H; [reflexivity|].
  destruct (k =? k0) eqn:E; [discriminate|]. cbn. f_equal. apply IH. exact H.
Qed.

Lemma rset_vals_new {A} k (v : A) d : rget k d = None -> map snd (rset k v d) = map snd d ++ [v].
Proof.
  induction d as [|[k0 v0] r IH]; cbn; intros H; [reflexivity|].
  destruct (k =? k0) eqn:E; [discriminate|]. cbn. f_equal. apply IH. exact H.
Qed.

Lemma rget_None_notin {A} k (d : list (Z * A)) : rget k d = None -> ~ In k (map fst d).
Proof.
  induction d as [|[k0 v0] r IH]; cbn; intros H; [tauto|].
  destruct (k =? k0) eqn:E; [discriminate|]. intros [->|Hin]; [rewrite Z.eqb_refl in E; discriminate|exact (IH H Hin)].
Qed.

Lemma rget_In {A} k (v : A) d : rget k d = Some v -> In (k, v) d.
Proof.
  induction d as [|[k0 v0] r IH]; cbn; intros H; [discriminate|].
  destruct (k =? k0) eqn:E; [apply Z.eqb_eq in E; subst; injection H as ->; left; reflexivity|right; exact (IH H)].
Qed.

Lemma In_rget {A} k (v : A) d : NoDup (map fst d) -> In (k, v) d -> rget k d = Some v.
Proof.
  induction d as [|[k0 v0] r IH]; cbn; intros ND H; [destruct H|].
  inversion ND as [|? ? Hni ND']; subst. destruct H as [H|H].
  - injection H as -> ->. rewrite Z.eqb_refl. reflexivity.
  - destruct (k =? k0) eqn:E; [apply Z.eqb_eq in E; subst; exfalso; apply Hni; apply in_map_iff; exists (k0, v); auto|exact (IH ND' H)].
Qed.

(* the decode table (registry) is a bijection between the ids in use and the classes registered:
   ids are keys (hence unique), no class sits under two ids, classes are numbered below r_defs *)
Record WF (s : reg) : Prop := {
  wf_ids : NoDup (map fst (r_reg s));
  wf_cls : NoDup (map snd (r_reg s));
  wf_old : forall c, In c (map snd (r_reg s)) -> c < r_defs s }.

Lemma WF_reg0 : WF reg0.
Proof. constructor; cbn; try constructor; tauto. Qed.

Lemma draw_tables m s : r_reg (snd (draw m s)) = r_reg s /\ r_names (snd (draw m s)) = r_names s /\ r_defs (snd (draw m s)) = r_defs s.
Proof. unfold draw. destruct (rget m (r_custom s)); cbn; auto. Qed.

Lemma NoDup_snoc {A} (l : list A) x : NoDup l -> ~ In x l -> NoDup (l ++ [x]).
Proof.
  induction l as [|y l IH]; cbn; intros ND Hx; [constructor; [tauto|constructor]|].
  inversion ND as [|? ? Hy ND']; subst. constructor.
  - intros Hin. apply in_app_or in Hin as [Hin|[->|[]]]; [exact (Hy Hin)|apply Hx; left; reflexivity].
  - apply IH; [exact ND'|]. intros Hin. apply Hx. right. exact Hin.
Qed.

(* registering a new class c under a free id t *)
Lemma WF_add s t c :
  WF s -> rget t (r_reg s) = None -> c = r_defs s ->
  forall nx cu nm, WF {| r_next := nx; r_custom := cu; r_reg := rset t c (r_reg s); r_names := nm; r_defs := c + 1 |}.
Proof.
  intros [I C O] Ht -> nx cu nm.
  assert (Hc1 : ~ In (r_defs s) (map snd (r_reg s))) by (intros H; apply O in H; lia).
  constructor; cbn.
  - rewrite (rset_keys_new _ _ _ Ht). apply NoDup_snoc; [exact I|apply rget_None_notin; exact Ht].
  - rewrite (rset_vals_new _ _ _ Ht). apply NoDup_snoc; assumption.
  - intros c. rewrite (rset_vals_new _ _ _ Ht), in_app_iff. intros [H|[<-|[]]]; [apply O in H; lia|lia].
Qed.

Lemma WF_tables s s' : r_reg s' = r_reg s -> r_defs s <= r_defs s' -> WF s -> WF s'.
Proof.
  intros R D [I C O]. constructor; rewrite ?R; auto. intros c H. apply O in H. lia.
Qed.

Lemma rmem_false {A} k (d : list (Z * A)) : rmem k d = false -> rget k d = None.
Proof. unfold rmem. destruct (rget k d); [discriminate|reflexivity]. Qed.

(* what one class statement / setRootId call does to the decode table: nothing, or one new entry
   (fresh id, the new class) at the end; entries are never removed or replaced *)
Lemma rstep_reg s o s' t code : rstep s o = (s', (t, code)) ->
  r_defs s <= r_defs s' /\
  (r_reg s' = r_reg s \/
   (code = 0 /\ rget t (r_reg s) = None /\ r_reg s' = rset t (r_defs s) (r_reg s) /\ r_defs s' = r_defs s + 1)).
Proof.
  destruct o as [m b|m n|m n]; cbn [rstep].
  - intros H. injection H as <- _ _. cbn. split; [lia|left; reflexivity].
  - destruct (draw m s) as [t0 s1] eqn:E. pose proof (draw_tables m s) as (R & N & D). rewrite E in R, N, D. cbn [snd] in R, N, D.
    destruct (rmem t0 (r_reg s1)) eqn:E1; [intros H; injection H as <- _ _; cbn; split; [lia|left; exact R]|].
    destruct (rmem n (r_names s1)) eqn:E2; [intros H; injection H as <- _ _; cbn; split; [lia|left; exact R]|].
    intros H. injection H as <- <- <-. cbn. split; [lia|right]. rewrite R. repeat split. apply rmem_false. congruence.
  - destruct (draw m s) as [t0 s1] eqn:E. pose proof (draw_tables m s) as (R & N & D). rewrite E in R, N, D. cbn [snd] in R, N, D.
    destruct (rmem t0 (r_reg s1)) eqn:E1; [intros H; injection H as <- _ _; cbn; split; [lia|left; exact R]|].
    intros H. injection H as <- <- <-. cbn. split; [lia|right]. rewrite R. repeat split. apply rmem_false. congruence.
Qed.

Lemma rstep_WF s o : WF s -> WF (fst (rstep s o)).
Proof.
  intros H. destruct (rstep s o) as [s' [t code]] eqn:E. cbn [fst].
  destruct (rstep_reg _ _ _ _ _ E) as [D [R|(_ & Ht & R & D')]].
  - eapply WF_tables; eassumption.
  - destruct s' as [nx cu rg nm df]. cbn in R, D'. subst rg df. apply WF_add; [exact H|exact Ht|reflexivity].
Qed.

Theorem rrun_WF ops : forall s, WF s -> WF (fst (rrun s ops)).
Proof.
  induction ops as [|o r IH]; intros s H; [exact H|].
  cbn [rrun]. destruct (rstep s o) as [s1 x] eqn:E. destruct (rrun s1 r) as [s2 xs] eqn:E2. cbn [fst].
  pose proof (IH s1) as IH1. rewrite E2 in IH1. apply IH1.
  pose proof (rstep_WF s o H) as W. rewrite E in W. exact W.
Qed.

(* a refused definition changes neither table *)
Theorem refused_leaves_tables s o s' t code :
  rstep s o = (s', (t, code)) -> code <> 0 -> r_reg s' = r_reg s /\ r_names s' = r_names s.
Proof.
  destruct o as [m b|m n|m n]; cbn [rstep].
  - intros H Hc. injection H as _ _ <-. congruence.
  - destruct (draw m s) as [t0 s1] eqn:E. pose proof (draw_tables m s) as (R & N & D). rewrite E in R, N, D. cbn [snd] in R, N, D.
    destruct (rmem t0 (r_reg s1)); [intros H _; injection H as <- _ _; cbn; auto|].
    destruct (rmem n (r_names s1)); [intros H _; injection H as <- _ _; cbn; auto|].
    intros H Hc. injection H as _ _ <-. congruence.
  - destruct (draw m s) as [t0 s1] eqn:E. pose proof (draw_tables m s) as (R & N & D). rewrite E in R, N, D. cbn [snd] in R, N, D.
    destruct (rmem t0 (r_reg s1)); [intros H _; injection H as <- _ _; cbn; auto|].
    intros H Hc. injection H as _ _ <-. congruence.
Qed.

(* once registered, always decodable: entries of the decode table survive every later class
   statement and setRootId call *)
Lemma rset_In_old {A} k (v : A) d x : rget k d = None -> In x d -> In x (rset k v d).
Proof.
  induction d as [|[k0 v0] r IH]; cbn; intros H Hx; [destruct Hx|].
  destruct (k =? k0) eqn:E; [discriminate|]. destruct Hx as [<-|Hx]; [left; reflexivity|right; exact (IH H Hx)].
Qed.

Theorem registered_stays ops : forall s t c, In (t, c) (r_reg s) -> In (t, c) (r_reg (fst (rrun s ops))).
Proof.
  induction ops as [|o r IH]; intros s t c H; [exact H|].
  cbn [rrun]. destruct (rstep s o) as [s1 [t1 code]] eqn:E. destruct (rrun s1 r) as [s2 xs] eqn:E2. cbn [fst].
  pose proof (IH s1 t c) as IH1. rewrite E2 in IH1. apply IH1.
  destruct (rstep_reg _ _ _ _ _ E) as [_ [R|(_ & Ht & R & _)]]; rewrite R; [exact H|apply rset_In_old; assumption].
Qed.

(* with a well-formed table a type id decodes to the one class that was given this id, and a
   class is found under exactly one id *)
Theorem WF_lookup s t c : WF s -> In (t, c) (r_reg s) -> rget t (r_reg s) = Some c /\
  forall t', In (t', c) (r_reg s) -> t' = t.
Proof.
  intros [I C _] H. split; [apply In_rget; assumption|].
  intros t' H'. clear I. induction (r_reg s) as [|[k v] r IH]; [destruct H|].
  cbn in C. inversion C as [|? ? Hv C']; subst. destruct H as [H|H], H' as [H'|H'].
  - congruence.
  - injection H as -> ->. exfalso. apply Hv. apply in_map_iff. exists (t', c). auto.
  - injection H' as -> ->. exfalso. apply Hv. apply in_map_iff. exists (t, c). auto.
  - exact (IH C' H H').
Qed.

(* a successful class statement makes its class the one its id decodes to *)
Theorem defined_is_registered s o s' t : rstep s o = (s', (t, 0)) ->
  match o with RSetRoot _ _ => True | _ => rget t (r_reg s') = Some (r_defs s) end.
Proof.
  destruct o as [m b|m n|m n]; cbn [rstep]; [auto| |].
  - destruct (draw m s) as [t0 s1] eqn:E.
    destruct (rmem t0 (r_reg s1)); [intros H; discriminate|].
    destruct (rmem n (r_names s1)); [intros H; discriminate|].
    intros H. injection H as <- <-. cbn. rewrite rget_rset, Z.eqb_refl. reflexivity.
  - destruct (draw m s) as [t0 s1] eqn:E.
    destruct (rmem t0 (r_reg s1)); [intros H; discriminate|].
    intros H. injection H as <- <-. cbn. rewrite rget_rset, Z.eqb_refl. reflexivity.
Qed.

(* overlapping setRootId ranges: the second class is refused whether it is a Serializable or an
   enum (before the repair of D21 the enum silently took the id over) *)
Example id_in_use_refused :
  snd (rrun reg0 [RSetRoot 1 128; RDefSer 0 10; RDefEnum 1 11; RDefSer 1 12; RDefEnum 1 10]) =
  [(0, 0); (128, 0); (128, 1); (129, 0); (130, 0)].
Proof. reflexivity. Qed.
