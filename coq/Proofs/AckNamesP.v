(* AckNamesP.v — C07 / C05, the peer's half of "success means accepted": the (ack, ack_bits) fields a
   connection puts into the headers it emits name exactly datagrams it has accepted.  C08's window
   refinement (SeqNumP.R) lifted to the connection, for every event history.  Received datagrams
   are labelled with the sender's true (unbounded) datagram index n: their wire sequence number is
   wire n, and arrivals stay within HALF of the newest accepted index (the half-range hypothesis). *)
From Coq Require Import Lia ZifyBool.
From RecordUpdate Require Import RecordUpdate.
From Model Require Import Base SeqNum Wire Conn.
From Proofs Require Import Tac SeqNumP ConnFrameP NonceP PackP.
Import RecordSetNotations.
Open Scope Z_scope.

Definition ghost := option (Z * list Z).          (* newest accepted index, all accepted indices *)

Definition GI (c : conn) (g : ghost) : Prop :=
  match g with
  | None => c_bf_pkt c = bf_new 32
  | Some (m, acc) => R (c_bf_pkt c) m acc /\ bf_nbits (c_bf_pkt c) = 32
  end.

Definition ghost_add (g : ghost) (n : Z) : ghost :=
  match g with None => Some (n, [n]) | Some (m, acc) => Some (Z.max m n, n :: acc) end.

Definition accepted_idx (g : ghost) : list Z := match g with None => [] | Some (_, acc) => acc end.

Definition near (g : ghost) (n : Z) : Prop := forall m acc, g = Some (m, acc) -> Z.abs (n - m) <= HALF.

Lemma GI_same c c' g : c_bf_pkt c' = c_bf_pkt c -> GI c g -> GI c' g.
Proof. intros E. unfold GI. rewrite E. auto. Qed.

Lemma recv_msgs_bfp ms c now orcs c' o : recv_msgs c now ms orcs = (c', o) -> c_bf_pkt c' = c_bf_pkt c.
Proof.
  apply (recv_msgs_rel (keeps c_bf_pkt)); try (intros; reflexivity).
  - apply keeps_trans.
  - intros c0 n s p c1 o1 Ef. unfold recv_fragment in Ef. destruct (_ <? _)%nat; [injection Ef as <- <-; reflexivity|].
    injection Ef as <- <-. unfold keeps. destruct (fr_complete _); reflexivity.
  - apply recv_handshake_keeps; intros; reflexivity.
Qed.

(* receiving the sender's datagram number n *)
Lemma recv_ghost c now d orcs n g c' o :
  GI c g -> h_seq (d_hdr d) = wire n -> 1 <= n -> near g n ->
  recv c now d orcs = (c', o) ->
  exists g', GI c' g' /\ (g' = g \/ g' = ghost_add g n).
Proof.
  intros HG Hseq Hn Hnear E. unfold recv in E.
  destruct (keyless_refuses c (d_hdr d)); [injection E as <- <-; exists g; split; [exact HG|auto]|].
  destruct (open_dgram (c_key c) d) as [ms|]; [|injection E as <- <-; exists g; split; [exact HG|auto]].
  rewrite Hseq in E.
  assert (Hins : (exists e, bf_insert (c_bf_pkt c) (wire n) = Err e) \/
                 exists f', bf_insert (c_bf_pkt c) (wire n) = Ok f' /\ GI (c <| c_bf_pkt := f' |>) (ghost_add g n)).
  { destruct g as [[m acc]|]; cbn [GI ghost_add] in *.
    - destruct HG as [HR Hnb]. pose proof (R_step _ _ _ n HR Hn (Hnear _ _ eq_refl)) as Hs.
      destruct (spec_dup _ m acc n); [left; eauto|right].
      destruct Hs as (f' & E1 & E2 & E3). exists f'. split; [exact E1|]. cbn. split; [exact E3|congruence].
    - right. rewrite HG. destruct (R_first 32 n ltac:(lia) Hn) as [E1 E2]. eexists. split; [exact E1|].
      cbn. split; [exact E2|reflexivity]. }
  destruct Hins as [[er He]|(f' & He & HG')]; rewrite He in E.
  - injection E as <- <-. exists g. split; [exact HG|auto].
  - match type of E with context [handle_ack_bits ?c0 _] => set (cc := c0) in E end.
    destruct (handle_ack_bits cc (d_hdr d)) as [c1 o1] eqn:E1.
    destruct (recv_msgs c1 now ms orcs) as [c2 o2] eqn:E2. injection E as <- <-.
    exists (ghost_add g n). split; [|auto].
    apply handle_ack_bits_frame in E1 as [[_ _ _ _ _ _ B1 _ _ _] _]. apply recv_msgs_bfp in E2.
    eapply GI_same; [|exact HG']. rewrite E2, B1. reflexivity.
Qed.

(* the header packet assembly builds carries the window's newest index and bits *)
Lemma build_impl_ackfields e c now ka delay c' r :
  build_impl e c now ka delay = (c', r) ->
  c_bf_pkt c' = c_bf_pkt c /\
  match r with Some (h, _) => h_ack h = bf_cur (c_bf_pkt c) /\ h_ackbits h = bf_bits (c_bf_pkt c) | None => True end.
Proof.
  unfold build_impl. intros E.
  destruct (match c_pretry_msg c with [] => _ | _ => _ end) as [[prm msgs0] cur0].
  destruct (out_pass e (c_outgoing c) msgs0 cur0) as [[rem msgs] cu].
  match type of E with (if ?b then _ else _) = _ => destruct b end; injection E as <- <-;
    repeat match goal with |- context [match ?x with [] => _ | _ :: _ => _ end] => destruct x end;
    cbn; auto.
Qed.

Lemma build_packet_ackfields e c now c' r :
  build_packet e c now = (c', r) ->
  c_bf_pkt c' = c_bf_pkt c /\
  match r with Some (h, _) => h_ack h = bf_cur (c_bf_pkt c) /\ h_ackbits h = bf_bits (c_bf_pkt c) | None => True end.
Proof.
  unfold build_packet. intros E. destruct (_ <? _); [injection E as <- <-; auto|].
  destruct (build_impl e c now _ _) as [c1 r1] eqn:E1. apply build_impl_ackfields in E1 as [B F].
  destruct r1 as [[h ms]|]; injection E as <- <-; cbn; auto.
Qed.

Lemma emits_emit_ack c h ms : forall h', In h' (emits (emit c (h, ms))) -> h_ack h' = h_ack h /\ h_ackbits h' = h_ackbits h.
Proof.
  unfold emit. destruct (encode_msgs _); [|intros h' []].
  destruct (c_key c); [destruct (negb _)|]; intros h' [<-|[]]; cbn; auto.
Qed.

(* what an emitted header's ack fields say, in terms of the ghost *)
Definition names_accepted (g : ghost) (h : header) : Prop :=
  forall m acc, g = Some (m, acc) -> forall i, 1 <= i -> Z.abs (i - m) <= HALF ->
    hdr_acks (h_ack h) (h_ackbits h) (wire i) = true -> In i acc /\ m - i <= 32.

Lemma GI_names c g h : GI c g -> h_ack h = bf_cur (c_bf_pkt c) -> h_ackbits h = bf_bits (c_bf_pkt c) -> names_accepted g h.
Proof.
  intros HG Ha Hb m acc -> i Hi Hnear Hack. cbn in HG. destruct HG as [HR Hnb].
  rewrite hdr_acks_contains, Ha, Hb in Hack.
  assert (Hf : {| bf_nbits := 32; bf_bits := bf_bits (c_bf_pkt c); bf_cur := bf_cur (c_bf_pkt c) |} = c_bf_pkt c)
    by (destruct (c_bf_pkt c); cbn in *; congruence).
  rewrite Hf, (R_contains _ _ _ i HR Hi Hnear), Hnb in Hack.
  unfold spec_dup in Hack. apply andb_prop in Hack as [Hack H3]. apply andb_prop in Hack as [H1 H2].
  split; [|lia]. fold (InB i acc) in H1. apply InB_In. exact H1.
Qed.

Definition dgram_of (x : ev) : option dgram :=
  match x with ERecv _ d _ => Some d | EClientTick _ (RxDgram d _) => Some d | _ => None end.

Lemma tick_tail_names strict e c now g c1 pk c2 o2 :
  GI c g -> build_packet e c now = (c1, pk) -> check_timeout strict c1 now = (c2, o2) ->
  GI c2 g /\ forall cx, Forall (names_accepted g) (emits (match pk with Some p => emit cx p | None => [] end)).
Proof.
  intros HG E1 E2. destruct (build_packet_ackfields _ _ _ _ _ E1) as [B1 F1].
  apply check_timeout_frame in E2 as [[_ _ _ _ _ _ B2 _ _ _] _].
  split; [eapply GI_same; [|exact HG]; congruence|].
  intros cx. destruct pk as [[h ms]|]; [|constructor].
  apply Forall_forall. intros h' Hin. destruct (emits_emit_ack _ _ _ _ Hin) as [A1 A2]. destruct F1 as [F1 F2].
  eapply GI_names; [exact HG| |]; congruence.
Qed.

Theorem step_ghost e c x n g c' o :
  GI c g ->
  (forall d, dgram_of x = Some d -> h_seq (d_hdr d) = wire n /\ 1 <= n /\ near g n) ->
  step e c x = (c', o) ->
  exists g', GI c' g' /\ (g' = g \/ g' = ghost_add g n) /\ Forall (names_accepted g') (emits o).
Proof.
  intros HG Hidx E. destruct x; cbn [step] in E; cbn [dgram_of] in Hidx.
  - pose proof (send_frame _ _ _ _ _ _ _ E) as [[_ _ _ _ _ _ B _ _ _] N].
    exists g. split; [eapply GI_same; eassumption|]. split; [auto|]. rewrite (emits_no_emit _ N). constructor.
  - unfold client_tick in E.
    destruct (client_update c now) as [c0 o0] eqn:E0.
    assert (H0 : c_bf_pkt c0 = c_bf_pkt c /\ no_emit o0).
    { pose proof (client_update_frame _ _ _ _ E0) as (_ & N & _). split; [|exact N]. unfold client_update in E0.
      destruct (_ && (now >? _)); destruct (_ && (_ >? c_temp_timeout _)); injection E0 as <- <-; reflexivity. }
    destruct H0 as [B0 N0]. assert (G0 : GI c0 g) by (eapply GI_same; eassumption).
    destruct (status_eqb (c_status c0) DROPPED).
    { injection E as <- <-. exists g. split; [exact G0|]. split; [auto|]. rewrite (emits_no_emit _ N0). constructor. }
    match type of E with context [match ?y with (_, _) => _ end] => destruct y as [c1 o1] eqn:E1 end.
    assert (H1 : exists g1, GI c1 g1 /\ (g1 = g \/ g1 = ghost_add g n) /\ no_emit o1).
    { destruct r as [|er|d orcs].
      - injection E1 as <- <-. exists g. auto using no_emit_nil.
      - injection E1 as <- <-. exists g. split; [exact G0|]. split; [auto|]. intros y [<-|[]]; reflexivity.
      - destruct (recv c0 now d orcs) as [c'' o''] eqn:Er. injection E1 as <- <-.
        destruct (Hidx d eq_refl) as (I1 & I2 & I3).
        destruct (recv_ghost _ _ _ _ _ _ _ _ G0 I1 I2 I3 Er) as (g1 & G1 & D1). exists g1. split; [exact G1|]. split; [exact D1|].
        apply recv_frame in Er as [_ N]. auto with frame. }
    destruct H1 as (g1 & G1 & D1 & N1).
    destruct (raised o1).
    { injection E as <- <-. exists g1. split; [exact G1|]. split; [exact D1|]. rewrite emits_app, (emits_no_emit _ N0), (emits_no_emit _ N1). constructor. }
    destruct (_ >? _).
    2:{ injection E as <- <-. exists g1. split; [exact G1|]. split; [exact D1|]. rewrite emits_app, (emits_no_emit _ N0), (emits_no_emit _ N1). constructor. }
    destruct (build_packet e c1 now) as [c2 pk] eqn:E2.
    destruct (check_timeout false c2 now) as [c3 o3] eqn:E3. injection E as <- <-.
    destruct (tick_tail_names _ _ _ _ _ _ _ _ _ G1 E2 E3) as [G3 F]. apply check_timeout_frame in E3 as [_ N3].
    exists g1. split; [exact G3|]. split; [exact D1|].
    rewrite !emits_app, (emits_no_emit _ N0), (emits_no_emit _ N1), (emits_no_emit _ N3). cbn [app]. rewrite app_nil_r. apply F.
  - unfold server_tick in E. destruct (_ >? _); [|injection E as <- <-; exists g; split; [exact HG|split; [auto|constructor]]].
    destruct (build_packet e c now) as [c1 pk] eqn:E1.
    destruct (check_timeout true c1 now) as [c2 o2] eqn:E2. injection E as <- <-.
    destruct (tick_tail_names _ _ _ _ _ _ _ _ _ HG E1 E2) as [G2 F]. apply check_timeout_frame in E2 as [_ N2].
    exists g. split; [exact G2|]. split; [auto|]. rewrite emits_app, (emits_no_emit _ N2). cbn [app]. apply F.
  - destruct (Hidx d eq_refl) as (I1 & I2 & I3).
    destruct (recv_ghost _ _ _ _ _ _ _ _ HG I1 I2 I3 E) as (g1 & G1 & D1). exists g1. split; [exact G1|]. split; [exact D1|].
    apply recv_frame in E as [_ N]. rewrite (emits_no_emit _ N). constructor.
  - injection E as <- <-. exists g. split; [|split; [auto|constructor]].
    eapply GI_same; [|exact HG]. unfold disconnect. destruct (_ || _); reflexivity.
  - injection E as <- <-. exists g. split; [|split; [auto|constructor]].
    eapply GI_same; [|exact HG]. destruct which as [|[[q|q|]|[q|q|]|]|q]; reflexivity.
  - injection E as <- <-. exists g. split; [|split; [auto|constructor]]. eapply GI_same; [|exact HG]. reflexivity.
  - injection E as <- <-. exists g. split; [|split; [auto|constructor]]. eapply GI_same; [|exact HG]. reflexivity.
  - injection E as <- <-. exists g. split; [|split; [auto|constructor]]. eapply GI_same; [|exact HG]. reflexivity.
Qed.
