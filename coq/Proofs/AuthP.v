(* AuthP.v — lemmas about Model/Auth.v: byte-string equality, bytes.split(b':'), the parameter
   codec, and the exact behaviour of [prepare] (the parsing half of verify_password) on a string
   with four fields. *)
From Coq Require Import Lia ZifyBool PeanoNat.
From Model Require Import Base Base64 Auth.
From Proofs Require Import Base64P.
Open Scope Z_scope.

(* ---- bytes_eqb *)
Lemma bytes_eqb_eq : forall a b, bytes_eqb a b = true <-> a = b.
Proof.
  induction a as [|x a IH]; destruct b as [|y b]; cbn [bytes_eqb]; split; intro H; try congruence.
  - apply andb_true_iff in H. destruct H as [H1 H2]. apply Byte.byte_dec_bl in H1. apply IH in H2. congruence.
  - inversion H; subst. apply andb_true_iff. split; [apply Byte.byte_dec_lb; reflexivity | apply IH; reflexivity].
Qed.

Lemma bytes_eqb_refl : forall a, bytes_eqb a a = true.
Proof. intro a. apply bytes_eqb_eq. reflexivity. Qed.

Lemma bytes_eqb_neq : forall a b, a <> b -> bytes_eqb a b = false.
Proof.
  intros a b H. destruct (bytes_eqb a b) eqn:E; auto. apply bytes_eqb_eq in E. contradiction.
Qed.

(* ---- split_on *)
Lemma split_on_nonempty : forall s l, exists p ps, split_on s l = p :: ps.
Proof.
  intros s l. induction l as [|c l [p [ps IH]]]; cbn [split_on].
  - eauto.
  - rewrite IH. destruct (Byte.eqb c s); eauto.
Qed.

Lemma split_on_nosep : forall s l, ~ In s l -> split_on s l = [l].
Proof.
  intros s l. induction l as [|c l IH]; intro H; cbn [split_on]; [reflexivity|].
  rewrite IH by (intro; apply H; right; assumption).
  destruct (Byte.eqb c s) eqn:E; [|reflexivity].
  apply Byte.byte_dec_bl in E. exfalso. apply H. left. exact E.
Qed.

Lemma split_on_app : forall s a b, ~ In s a -> split_on s (a ++ s :: b) = a :: split_on s b.
Proof.
  intros s a b. induction a as [|c a IH]; intro H.
  - cbn [app split_on]. destruct (split_on_nonempty s b) as [p [ps E]]. rewrite E.
    rewrite (Byte.byte_dec_lb (eq_refl s)). reflexivity.
  - cbn [app split_on]. rewrite IH by (intro; apply H; right; assumption).
    destruct (Byte.eqb c s) eqn:E; [|reflexivity].
    apply Byte.byte_dec_bl in E. exfalso. apply H. left. exact E.
Qed.

(* the inverse of split: b':'.join(parts) *)
Fixpoint join (s : byte) (parts : list (list byte)) : list byte :=
  match parts with
  | [] => []
  | [p] => p
  | p :: ps => p ++ s :: join s ps
  end.

Lemma join_split : forall s l, join s (split_on s l) = l.
Proof.
  intros s l. induction l as [|c l IH]; [reflexivity|].
  cbn [split_on]. destruct (split_on_nonempty s l) as [p [ps E]]. rewrite E in *.
  destruct (Byte.eqb c s) eqn:Ec.
  - apply Byte.byte_dec_bl in Ec. subst c. cbn [join app]. cbn [join] in IH. rewrite IH. reflexivity.
  - destruct ps as [|p' ps]; cbn [join app] in *; rewrite IH; reflexivity.
Qed.

Lemma split_fields_nosep : forall s l, Forall (fun p => ~ In s p) (split_on s l).
Proof.
  intros s l. induction l as [|c l IH]; cbn [split_on].
  - constructor; [intros []|constructor].
  - destruct (split_on_nonempty s l) as [p [ps E]]. rewrite E in *. inversion IH; subst.
    destruct (Byte.eqb c s) eqn:Ec.
    + constructor; [intros []|]. constructor; assumption.
    + constructor; [|assumption]. intros [H|H]; [|contradiction].
      subst c. rewrite (Byte.byte_dec_lb (eq_refl s)) in Ec. discriminate.
Qed.

Lemma In_firstn : forall (x : byte) n l, In x (firstn n l) -> In x l.
Proof.
  intros x n l H. rewrite <- (firstn_skipn n l). apply in_or_app. left. exact H.
Qed.

(* bytes.split on a truncated string *)
Lemma split_firstn_app : forall s a b n, ~ In s a ->
  split_on s (firstn n (a ++ s :: b)) =
  if (n <=? length a)%nat then [firstn n a] else a :: split_on s (firstn (n - length a - 1) b).
Proof.
  intros s a b n H. rewrite firstn_app. destruct (n <=? length a)%nat eqn:E.
  - apply Nat.leb_le in E. replace (n - length a)%nat with 0%nat by lia. cbn [firstn]. rewrite app_nil_r.
    apply split_on_nosep. intro G. apply H. eapply In_firstn; eassumption.
  - apply Nat.leb_gt in E. rewrite firstn_all2 by lia.
    remember (n - length a - 1)%nat as k eqn:Ek.
    replace (n - length a)%nat with (S k) by lia. cbn [firstn].
    apply split_on_app. exact H.
Qed.

Lemma firstn_skipn_app : forall (a b : list byte) n, length a = n ->
  firstn n (a ++ b) = a /\ skipn n (a ++ b) = b.
Proof.
  intros a b n <-. split.
  - rewrite firstn_app, Nat.sub_diag, firstn_all. cbn [firstn]. apply app_nil_r.
  - rewrite skipn_app, Nat.sub_diag, skipn_all. reflexivity.
Qed.

(* ---- the parameter codec *)
Lemma unpack_pack_std : unpack_params (pack_params std_params) = Ok std_params.
Proof. vm_compute. reflexivity. Qed.

Lemma Z_of_byte_range : forall b, 0 <= Z_of_byte b <= 255.
Proof. intro b. unfold Z_of_byte. pose proof (Byte.to_N_bounded b). lia. Qed.

Lemma unpack_range : forall b k, unpack_params b = Ok k ->
  0 <= k_N k <= 65535 /\ 0 <= k_r k <= 255 /\ 0 <= k_p k <= 255 /\ 0 <= k_sl k <= 255 /\ 0 <= k_len k <= 255.
Proof.
  intros b k H. unfold unpack_params in H.
  destruct b as [|b0 [|b1 [|b2 [|b3 [|b4 [|b5 [|b6 r]]]]]]]; try discriminate H.
  inversion H; subst k; cbn [k_N k_r k_p k_sl k_len].
  pose proof (Z_of_byte_range b0). pose proof (Z_of_byte_range b1). pose proof (Z_of_byte_range b2).
  pose proof (Z_of_byte_range b3). pose proof (Z_of_byte_range b4). pose proof (Z_of_byte_range b5). lia.
Qed.

Lemma Z_of_byte_of_Z : forall z, Z_of_byte (byte_of_Z z) = z mod 256.
Proof.
  intro z. unfold Z_of_byte, byte_of_Z.
  assert (B : (Z.to_N (z mod 256) <= 255)%N) by (pose proof (Z.mod_pos_bound z 256); lia).
  pose proof (Byte.to_of_N_option_map (Z.to_N (z mod 256))) as M.
  apply N.leb_le in B. rewrite B in M.
  destruct (Byte.of_N (Z.to_N (z mod 256))) as [b|]; cbn [option_map] in M; [|discriminate].
  inversion M as [M']. rewrite M'. pose proof (Z.mod_pos_bound z 256). lia.
Qed.

Definition params_in_range (k : kparams) : Prop :=
  0 <= k_N k <= 65535 /\ 0 <= k_r k <= 255 /\ 0 <= k_p k <= 255 /\ 0 <= k_sl k <= 255 /\ 0 <= k_len k <= 255.

(* struct.unpack inverts struct.pack on values that fit the format ">HBBBB" *)
Lemma unpack_pack : forall k, params_in_range k -> unpack_params (pack_params k) = Ok k.
Proof.
  intros [N r p sl ln] H. unfold params_in_range in H. cbn [k_N k_r k_p k_sl k_len] in H.
  unfold pack_params, unpack_params. cbn [k_N k_r k_p k_sl k_len]. rewrite !Z_of_byte_of_Z.
  f_equal. f_equal; lia.
Qed.

Lemma lit_no_colon : ~ In colon lit_scrypt /\ ~ In colon lit_1.
Proof. split; intro H; cbv in H; repeat (destruct H as [H|H]; [discriminate H|]); exact H. Qed.

(* ---- the shape of the string hash_password builds *)
Definition hash_string (f2 f3 : list byte) : list byte :=
  lit_scrypt ++ colon :: lit_1 ++ colon :: f2 ++ colon :: f3.

Lemma header_app : forall d, header ++ d = hash_string (b64e (pack_params std_params)) d.
Proof.
  intro d. unfold header, hash_string. repeat rewrite <- app_assoc. reflexivity.
Qed.

Lemma split_hash_string : forall f2 f3, ~ In colon f2 -> ~ In colon f3 ->
  split_on colon (hash_string f2 f3) = [lit_scrypt; lit_1; f2; f3].
Proof.
  intros f2 f3 H2 H3. unfold hash_string. destruct lit_no_colon as [Hs H1].
  rewrite split_on_app by exact Hs. rewrite split_on_app by exact H1.
  rewrite split_on_app by exact H2. rewrite split_on_nosep by exact H3. reflexivity.
Qed.

(* every truncation of such a string: fewer than four fields, or the first three fields intact
   and a proper prefix of the fourth *)
Lemma split_truncated : forall f2 f3 n, ~ In colon f2 -> ~ In colon f3 ->
  (n < length (hash_string f2 f3))%nat ->
  length (split_on colon (firstn n (hash_string f2 f3))) <> 4%nat \/
  exists m, (m < length f3)%nat /\ split_on colon (firstn n (hash_string f2 f3)) = [lit_scrypt; lit_1; f2; firstn m f3].
Proof.
  intros f2 f3 n H2 H3 Hn. unfold hash_string in *. destruct lit_no_colon as [Hs H1].
  rewrite split_firstn_app by exact Hs.
  destruct (n <=? length lit_scrypt)%nat eqn:E0; [left; cbn; lia|].
  rewrite split_firstn_app by exact H1.
  destruct (_ <=? length lit_1)%nat eqn:E1; [left; cbn; lia|].
  rewrite split_firstn_app by exact H2.
  destruct (_ <=? length f2)%nat eqn:E2; [left; cbn; lia|].
  right. exists (n - length lit_scrypt - 1 - length lit_1 - 1 - length f2 - 1)%nat.
  apply Nat.leb_gt in E0, E1, E2.
  repeat (rewrite app_length in Hn; cbn [length] in Hn).
  split.
  - cbn [length lit_scrypt lit_1] in *. lia.
  - rewrite split_on_nosep; [reflexivity|]. intro G. apply H3. eapply In_firstn; eassumption.
Qed.

Section Prepare.
  Variable b64d : list byte -> res (list byte).

  Definition prepared_of (k : kparams) (data : list byte) : prepared :=
    {| q_salt := firstn (Z.to_nat (k_sl k)) data; q_len := k_len k; q_N := k_N k; q_r := k_r k;
       q_p := k_p k; q_expected := skipn (Z.to_nat (k_sl k)) data |}.

  (* what prepare does on a string that splits into exactly four fields *)
  Lemma prepare_four : forall h f0 f1 f2 f3,
    split_on colon h = [f0; f1; f2; f3] ->
    prepare b64d h =
      (do params <- b64d f2;
       do data <- b64d f3;
       if negb (bytes_eqb f0 lit_scrypt) || negb (bytes_eqb f1 lit_1) then Err EValue else
       do k <- unpack_params params;
       if (k_len k <? 1) || negb (k_sl k + k_len k =? len data) then Err EValue else
       Ok (prepared_of k data)).
  Proof.
    intros h f0 f1 f2 f3 E. unfold prepare. rewrite E. reflexivity.
  Qed.

  Lemma prepare_not_four : forall h, length (split_on colon h) <> 4%nat -> prepare b64d h = Err EValue.
  Proof.
    intros h H. unfold prepare. destruct (Nat.eqb (length (split_on colon h)) 4) eqn:E.
    - apply Nat.eqb_eq in E. contradiction.
    - reflexivity.
  Qed.

  Lemma prepare_ok_inv : forall h q, prepare b64d h = Ok q ->
    exists f2 f3 params data k,
      split_on colon h = [lit_scrypt; lit_1; f2; f3] /\
      b64d f2 = Ok params /\ b64d f3 = Ok data /\ unpack_params params = Ok k /\
      1 <= k_len k /\ k_sl k + k_len k = len data /\ q = prepared_of k data.
  Proof.
    intros h q H.
    destruct (Nat.eq_dec (length (split_on colon h)) 4) as [L|L];
      [|rewrite prepare_not_four in H by exact L; discriminate].
    destruct (split_on colon h) as [|f0 [|f1 [|f2 [|f3 [|f4 r]]]]] eqn:E; try discriminate L.
    rewrite (prepare_four _ _ _ _ _ E) in H.
    destruct (b64d f2) as [params|] eqn:E2; cbn [bind] in H; [|discriminate].
    destruct (b64d f3) as [data|] eqn:E3; cbn [bind] in H; [|discriminate].
    destruct (bytes_eqb f0 lit_scrypt) eqn:B0; cbn [negb orb] in H; [|discriminate].
    destruct (bytes_eqb f1 lit_1) eqn:B1; cbn [negb orb] in H; [|discriminate].
    apply bytes_eqb_eq in B0, B1. subst f0 f1.
    destruct (unpack_params params) as [k|] eqn:Ek; cbn [bind] in H; [|discriminate].
    destruct ((k_len k <? 1) || negb (k_sl k + k_len k =? len data)) eqn:C; [discriminate|].
    apply orb_false_iff in C. destruct C as [C1 C2]. apply negb_false_iff in C2.
    inversion H; subst q. exists f2, f3, params, data, k. repeat split; auto; lia.
  Qed.

  Lemma unpack_err : forall b e, unpack_params b = Err e -> e = EValue.
  Proof.
    intros b e H. unfold unpack_params in H.
    destruct b as [|b0 [|b1 [|b2 [|b3 [|b4 [|b5 [|b6 r]]]]]]]; congruence.
  Qed.

  Lemma prepare_err : b64_err_value b64d -> forall h e, prepare b64d h = Err e -> e = EValue.
  Proof.
    intros HB h e H.
    destruct (Nat.eq_dec (length (split_on colon h)) 4) as [L|L];
      [|rewrite prepare_not_four in H by exact L; congruence].
    destruct (split_on colon h) as [|f0 [|f1 [|f2 [|f3 [|f4 r]]]]] eqn:E; try discriminate L.
    rewrite (prepare_four _ _ _ _ _ E) in H.
    destruct (b64d f2) as [params|e2] eqn:E2; cbn [bind] in H; [|inversion H; subst; eapply HB; eassumption].
    destruct (b64d f3) as [data|e3] eqn:E3; cbn [bind] in H; [|inversion H; subst; eapply HB; eassumption].
    destruct (negb (bytes_eqb f0 lit_scrypt) || negb (bytes_eqb f1 lit_1)); [congruence|].
    destruct (unpack_params params) as [k|ek] eqn:Ek; cbn [bind] in H;
      [|inversion H; subst; eapply unpack_err; eassumption].
    destruct ((k_len k <? 1) || negb (k_sl k + k_len k =? len data)); congruence.
  Qed.

  (* the string hash_password builds, and every string of that shape *)
  Lemma prepare_hash_string : forall f2 f3 params data k,
    ~ In colon f2 -> ~ In colon f3 ->
    b64d f2 = Ok params -> b64d f3 = Ok data -> unpack_params params = Ok k ->
    prepare b64d (hash_string f2 f3) =
      if (k_len k <? 1) || negb (k_sl k + k_len k =? len data) then Err EValue else Ok (prepared_of k data).
  Proof.
    intros f2 f3 params data k H2 H3 E2 E3 Ek.
    rewrite (prepare_four _ _ _ _ _ (split_hash_string f2 f3 H2 H3)).
    rewrite E2, E3. cbn [bind]. rewrite !bytes_eqb_refl. cbn [negb orb]. rewrite Ek. reflexivity.
  Qed.
End Prepare.
