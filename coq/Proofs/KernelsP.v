(* KernelsP.v — characterising lemmas: the kernels regenerated from connection.py
   (Gen/Kernels.v) compute exactly the hand-written spec functions (Model/SeqNum.v,
   Model/Pack.v constants).  Everything else depends only on the spec side. *)
From Coq Require Import Lia ZifyBool.
From Model Require Import Base SeqNum.
From Gen Require Import Kernels.
From Proofs Require Import Tac.
Open Scope Z_scope.

Lemma gen_max_is_ring : gen_SeqNum_max_sequence = RING.
Proof. reflexivity. Qed.
Lemma gen_threshold_is_half : gen_SeqNum_threshold = HALF.
Proof. reflexivity. Qed.

Ltac kconsts :=
  change gen_SeqNum_max_sequence with 65535 in *;
  change gen_SeqNum_threshold with 32767 in *;
  change RING with 65535 in *; change HALF with 32767 in *.


Lemma gen_new_spec v : gen_SeqNum_new v = seq_new v.
Proof. unfold gen_SeqNum_new, seq_new; kconsts; reflexivity. Qed.

Lemma gen_diff_spec a b : gen_diff a b = seq_diff a b.
Proof.
  unfold gen_diff, gen_diff_r, seq_diff; kconsts; cbv zeta.
  split_ifs; reflexivity.
Qed.

Lemma gen_add_spec a k : gen_add a k = seq_add a k.
Proof.
  unfold gen_add, seq_add, seq_wrap; rewrite !gen_new_spec; kconsts; cbv zeta.
  split_ifs; try reflexivity; try (f_equal; lia); exfalso; lia.
Qed.

Lemma gen_sub_spec a k : gen_sub a k = seq_sub a k.
Proof.
  unfold gen_sub, seq_sub, seq_wrap; rewrite !gen_new_spec; kconsts; cbv zeta.
  split_ifs; try reflexivity; try (f_equal; lia); exfalso; lia.
Qed.

Lemma gen_newer_spec a b : gen_newer_than a b = Ok (seq_newer a b).
Proof. unfold gen_newer_than, seq_newer; rewrite gen_diff_spec; reflexivity. Qed.

Lemma gen_lt_spec a b : gen_lt a b = Ok (seq_lt a b).
Proof. unfold gen_lt, seq_lt; rewrite gen_diff_spec; reflexivity. Qed.

Lemma gen_gt_spec a b : gen_gt a b = Ok (seq_gt a b).
Proof. unfold gen_gt, seq_gt; rewrite gen_diff_spec; reflexivity. Qed.

Definition bf_res (r : res bitfield) : res (Z * Z) :=
  match r with Ok f => Ok (bf_bits f, bf_cur f) | Err e => Err e end.

Lemma gen_insert_spec nb bits cur s :
  gen_insert nb bits cur s = bf_res (bf_insert {| bf_nbits := nb; bf_bits := bits; bf_cur := cur |} s).
Proof.
  unfold gen_insert, bf_insert, bf_mask; cbn [bf_nbits bf_bits bf_cur]; cbv zeta.
  rewrite !gen_diff_spec.
  destruct (cur =? 0); [reflexivity|].
  destruct (seq_diff cur s <? 0).
  - destruct (- seq_diff cur s <=? nb); reflexivity.
  - destruct (seq_diff cur s =? 0); [reflexivity|].
    destruct (negb _); reflexivity.
Qed.

Lemma gen_contains_spec nb bits cur s :
  gen_contains nb bits cur s = Ok (bf_contains {| bf_nbits := nb; bf_bits := bits; bf_cur := cur |} s).
Proof.
  unfold gen_contains, bf_contains, bf_mask; cbn [bf_nbits bf_bits bf_cur]; cbv zeta.
  rewrite !gen_diff_spec.
  destruct (seq_diff cur s =? 0); [reflexivity|].
  destruct (seq_diff cur s >? 0); [|reflexivity].
  destruct (negb _); reflexivity.
Qed.

(* the regenerated insert, folded over a history of true indices *)
Fixpoint gen_hist (nb bits cur : Z) (h : list Z) : list bool :=
  match h with
  | [] => []
  | n :: h' =>
      match gen_insert nb bits cur (wire n) with
      | Ok (b, c) => false :: gen_hist nb b c h'
      | Err _ => true :: gen_hist nb bits cur h'
      end
  end.

Lemma bf_insert_nbits f s f' : bf_insert f s = Ok f' -> bf_nbits f' = bf_nbits f.
Proof.
  unfold bf_insert. cbv zeta.
  repeat match goal with |- context [if ?c then _ else _] => destruct c end;
    intros H; inversion H; reflexivity.
Qed.

Lemma gen_hist_spec h : forall nb bits cur,
  gen_hist nb bits cur h = impl_hist {| bf_nbits := nb; bf_bits := bits; bf_cur := cur |} h.
Proof.
  induction h as [|n h IH]; intros nb bits cur; [reflexivity|].
  cbn [gen_hist impl_hist]. rewrite gen_insert_spec.
  destruct (bf_insert _ (wire n)) as [f'|e] eqn:Hi; cbn [bf_res].
  - pose proof (bf_insert_nbits _ _ _ Hi) as Hnb. cbn [bf_nbits] in Hnb.
    rewrite IH. destruct f' as [nb' b' c']. cbn [bf_nbits bf_bits bf_cur] in *. subst nb'. reflexivity.
  - rewrite IH. reflexivity.
Qed.

Fixpoint gen_state (nb bits cur : Z) (h : list Z) : Z * Z :=
  match h with
  | [] => (bits, cur)
  | n :: h' =>
      match gen_insert nb bits cur (wire n) with
      | Ok (b, c) => gen_state nb b c h'
      | Err _ => gen_state nb bits cur h'
      end
  end.

Lemma gen_state_spec h : forall nb bits cur,
  gen_state nb bits cur h =
  let f := impl_state {| bf_nbits := nb; bf_bits := bits; bf_cur := cur |} h in (bf_bits f, bf_cur f).
Proof.
  induction h as [|n h IH]; intros nb bits cur; [reflexivity|].
  cbn [gen_state impl_state]. rewrite gen_insert_spec.
  destruct (bf_insert _ (wire n)) as [f'|e] eqn:Hi; cbn [bf_res].
  - pose proof (bf_insert_nbits _ _ _ Hi) as Hnb. cbn [bf_nbits] in Hnb.
    rewrite IH. destruct f' as [nb' b' c']. cbn [bf_nbits bf_bits bf_cur] in *. subst nb'. reflexivity.
  - rewrite IH. reflexivity.
Qed.
