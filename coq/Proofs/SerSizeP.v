(* SerSizeP.v — the size of a decoded value is bounded by the work done:
     vsize v <= (1 + D) * (value decodes) + (bytes consumed)
   where D bounds the size of the class defaults of the registry. *)
From Coq Require Import Lia ZifyBool.
From Model Require Import Base Utf8 Ser SerCost.
From Proofs Require Import Tac SerDecP.
Open Scope Z_scope.

(* ---------- sizes are positive; UTF-8 decoding does not lengthen *)
Fixpoint vsize_pos (v : value) : 1 <= vsize v.
Proof.
  destruct v; cbn [vsize]; try lia.
  - pose proof (len_nonneg s). lia.
  - pose proof (len_nonneg b). lia.
  - assert (0 <= fold_right (fun x a => vsize x + a) 0 l).
    { induction l as [|x l IH]; simpl; [lia|]. pose proof (vsize_pos x). lia. } lia.
  - assert (0 <= fold_right (fun x a => vsize x + a) 0 l).
    { induction l as [|x l IH]; simpl; [lia|]. pose proof (vsize_pos x). lia. } lia.
  - assert (0 <= fold_right (fun p a => vsize (fst p) + vsize (snd p) + a) 0 kv).
    { induction kv as [|[k x] l IH]; simpl; [lia|]. pose proof (vsize_pos k). pose proof (vsize_pos x). lia. } lia.
  - assert (0 <= fold_right (fun x a => vsize x + a) 0 l).
    { induction l as [|x l IH]; simpl; [lia|]. pose proof (vsize_pos x). lia. } lia.
  - assert (0 <= fold_right (fun x a => vsize x + a) 0 fields).
    { induction fields as [|x l IH]; simpl; [lia|]. pose proof (vsize_pos x). lia. } lia.
  - pose proof (vsize_pos v). lia.
Qed.
Lemma lsize_nil : lsize [] = 0. Proof. reflexivity. Qed.
Lemma lsize_cons x l : lsize (x :: l) = vsize x + lsize l. Proof. reflexivity. Qed.
Lemma dsize_nil : dsize [] = 0. Proof. reflexivity. Qed.
Lemma dsize_cons k v d : dsize ((k, v) :: d) = vsize k + vsize v + dsize d. Proof. reflexivity. Qed.
Lemma lsize_nonneg l : 0 <= lsize l.
Proof. induction l as [|x l IH]; [rewrite lsize_nil; lia|]. rewrite lsize_cons. pose proof (vsize_pos x). lia. Qed.
Lemma dsize_nonneg d : 0 <= dsize d.
Proof.
  induction d as [|[k v] d IH]; [rewrite dsize_nil; lia|]. rewrite dsize_cons.
  pose proof (vsize_pos k). pose proof (vsize_pos v). lia.
Qed.
Lemma vsize_list l : vsize (VList l) = 1 + lsize l. Proof. reflexivity. Qed.
Lemma vsize_set l : vsize (VSet l) = 1 + lsize l. Proof. reflexivity. Qed.
Lemma vsize_obj t l : vsize (VObj t l) = 1 + lsize l. Proof. reflexivity. Qed.
Lemma vsize_dict d : vsize (VDict d) = 1 + dsize d. Proof. reflexivity. Qed.
Lemma vsize_enum t x : vsize (VEnum t x) = 1 + vsize x. Proof. reflexivity. Qed.
Lemma vsize_str s : vsize (VStr s) = 1 + len s. Proof. reflexivity. Qed.
Lemma vsize_bytes b : vsize (VBytes b) = 1 + len b. Proof. reflexivity. Qed.
Ltac sz := rewrite ?vsize_list, ?vsize_set, ?vsize_obj, ?vsize_dict, ?vsize_enum, ?vsize_str, ?vsize_bytes,
                   ?lsize_cons, ?dsize_cons, ?lsize_nil, ?dsize_nil.

Lemma utf8_dec_len_n : forall n l s, (length l <= n)%nat -> utf8_dec l = Some s -> (length s <= length l)%nat.
Proof.
  induction n as [|n IH]; intros l s Hn H.
  - destruct l; [simpl in H; inversion H; simpl; lia|simpl in Hn; lia].
  - destruct l as [|b0 r0]; [simpl in H; inversion H; simpl; lia|].
    simpl in H. simpl in Hn.
    repeat match type of H with
           | (if ?c then _ else _) = _ => destruct c
           | match ?r with [] => _ | _ :: _ => _ end = _ => destruct r; simpl in Hn
           | match utf8_dec ?r with Some _ => _ | None => _ end = _ =>
               let E := fresh "E" in destruct (utf8_dec r) eqn:E; [apply IH in E; [|simpl; lia]|]
           | None = Some _ => discriminate
           | Some _ = Some _ => inversion H; subst; clear H
           end; simpl in *; try discriminate; try lia.
Qed.
Lemma utf8_decode_len b s : utf8_decode b = Some s -> len s <= len b.
Proof.
  unfold utf8_decode. intros H. apply (utf8_dec_len_n _ _ _ (le_n _)) in H.
  rewrite map_length in H. unfold len. lia.
Qed.

(* ---------- dict / set insertion does not grow the total *)
Lemma dict_set_size d k v d' : dict_set d k v = SOk d' -> dsize d' <= dsize d + vsize k + vsize v.
Proof.
  revert d'. induction d as [|[k' v'] d IH]; intros d' H; simpl in H.
  - inversion H. sz. lia.
  - destruct (py_eq k' k) as [[|]|]; simpl in H; try discriminate.
    + inversion H. sz. pose proof (vsize_pos v'). pose proof (vsize_pos k). lia.
    + destruct (dict_set d k v) as [r'|]; simpl in H; [|discriminate]. inversion H.
      specialize (IH r' eq_refl). sz. lia.
Qed.
Lemma dict_put_size d k v d' : dict_put d k v = SOk d' -> dsize d' <= dsize d + vsize k + vsize v.
Proof. unfold dict_put. destruct (hashable k); [apply dict_set_size|discriminate]. Qed.
Lemma lsize_app a b : lsize (a ++ b) = lsize a + lsize b.
Proof. induction a; simpl app; sz; lia. Qed.
Lemma set_build_size l : forall acc s, set_build acc l = SOk s -> lsize s <= lsize acc + lsize l.
Proof.
  induction l as [|x l IH]; intros acc s H; simpl in H.
  - inversion H. sz. lia.
  - unfold set_add in H. destruct (hashable x); [|discriminate].
    destruct (mem_py x acc) as [m|]; simpl in H; [|discriminate].
    apply IH in H. destruct m.
    + sz. pose proof (vsize_pos x). lia.
    + rewrite lsize_app in H. sz. revert H. sz. lia.
Qed.

(* ---------- the predicate *)
Section Size.
  Variable K : Z.

  Definition V {A} (c : Z) (m : M A) (sz : A -> Z) : Prop :=
    forall s, match m s with
              | (SOk a, s') => sz a <= c + K * (nval s' - nval s) + (len (rem s) - len (rem s'))
              | (SErr _, _) => True
              end.

  Lemma V_ret {A} c (a : A) sz : sz a <= c -> V c (ret a) sz.
  Proof. intros H s. unfold ret. lia. Qed.
  Lemma V_fail {A} c e (sz : A -> Z) : V c (@fail A e) sz.
  Proof. intros s. exact I. Qed.
  Lemma V_lift {A} c (r : sres A) sz : (forall a, r = SOk a -> sz a <= c) -> V c (lift r) sz.
  Proof. intros H s. unfold lift. destruct r; [specialize (H a eq_refl); lia|exact I]. Qed.
  Lemma V_weaken {A} c c' (m : M A) sz : V c m sz -> c <= c' -> V c' m sz.
  Proof. intros H Hc s. specialize (H s). destruct (m s) as [[a|e] s']; [lia|exact I]. Qed.
  Lemma V_bind {A B} c c1 (m : M A) (f : A -> M B) sz1 sz :
    V c1 m sz1 -> (forall a, V (c - c1 + sz1 a) (f a) sz) -> V c (mbind m f) sz.
  Proof.
    intros Hm Hf s. unfold mbind. specialize (Hm s). destruct (m s) as [[a|e] s1]; [|exact I].
    specialize (Hf a s1). destruct (f a s1) as [[b|e] s2]; [|exact I]. lia.
  Qed.
  Lemma V_tick : V (- K) tick_val (fun _ => 0).
  Proof. intros s. unfold tick_val. cbn [rem nval]. lia. Qed.
  Lemma V_left : V 0 m_left (fun _ => 0).
  Proof. intros s. unfold m_left. lia. Qed.
  Lemma V_read n : V 0 (m_read n) (fun b => len b).
  Proof.
    intros s. rewrite m_read_eq. cbn [rem nval].
    set (k := if n <? 0 then length (rem s) else Z.to_nat n). clearbody k.
    pose proof (len_split k (rem s)). lia.
  Qed.
  Lemma V_rd f k : V 0 (rd f k) (fun _ => 0).
  Proof.
    destruct f; [apply V_fail|]. unfold rd.
    apply V_bind with (c1 := 0) (sz1 := fun b => len b); [apply V_read|]. intros b.
    destruct (len b =? k); [apply V_ret; pose proof (len_nonneg b); lia|apply V_fail].
  Qed.
  Lemma V_conv {A} c (m : M A) sz : V c m sz -> V c (conv m) sz.
  Proof.
    intros H s. unfold conv. specialize (H s). destruct (m s) as [[a|e] s']; [exact H|]. destruct e; exact I.
  Qed.
  Lemma V_rep n (m : M value) : V 0 m vsize -> V 0 (rep n m) lsize.
  Proof.
    intros H. induction n as [|n IH]; cbn [rep]; [apply V_ret; sz; lia|].
    apply V_bind with (c1 := 0) (sz1 := vsize); [exact H|]. intros x.
    apply V_bind with (c1 := 0) (sz1 := lsize); [exact IH|]. intros xs.
    apply V_ret. sz. lia.
  Qed.
  Lemma V_dec_len sub cap : V 0 sub vsize -> V 0 (dec_len sub cap) (fun _ => 0).
  Proof.
    intros H. unfold dec_len. apply V_bind with (c1 := 0) (sz1 := vsize); [exact H|]. intros lv.
    pose proof (vsize_pos lv).
    destruct (as_len lv); [|apply V_fail]. destruct (cap <? z); [apply V_fail|apply V_ret; lia].
  Qed.
  Lemma V_map_loop sub n : V 0 sub vsize -> forall acc, V (dsize acc) (dec_map_loop sub n acc) dsize.
  Proof.
    intros H. induction n as [|n IH]; intros acc; cbn [dec_map_loop]; [apply V_ret; lia|].
    apply V_bind with (c1 := 0) (sz1 := vsize); [exact H|]. intros key.
    apply V_bind with (c1 := 0) (sz1 := vsize); [exact H|]. intros x.
    apply V_bind with (c1 := dsize acc + vsize key + vsize x) (sz1 := dsize).
    - apply V_lift. intros a Ha. apply dict_put_size. exact Ha.
    - intros acc'. eapply V_weaken; [apply IH|lia].
  Qed.
  Lemma V_fields sub defs : V 0 sub vsize -> forall n, V (lsize defs) (dec_fields sub n defs) lsize.
  Proof.
    intros H. induction defs as [|d defs IH]; intros n; cbn [dec_fields].
    - destruct (n <=? 0); [apply V_ret; lia|apply V_fail].
    - destruct (n <=? 0); [apply V_ret; lia|].
      apply V_bind with (c1 := 0) (sz1 := vsize); [exact H|]. intros x.
      apply V_bind with (c1 := lsize defs) (sz1 := lsize); [apply IH|]. intros xs.
      apply V_ret. pose proof (vsize_pos d). sz. lia.
  Qed.
End Size.

Section Dec.
  Variable fc : fconv.
  Variable pk : value -> option serr.
  Variable reg : registry.
  Variable D : Z.
  Hypothesis HD : reg_defsize_le reg D.
  Hypothesis HD0 : 0 <= D.
  Let K := 1 + D.

  Ltac leaf := apply V_bind with (c1 := 0) (sz1 := fun _ : list byte => 0); [apply V_rd|]; intros b; apply V_ret; cbn [vsize]; lia.

  Lemma V_dec_base sub f2 k : V K 0 sub vsize -> V K K (dec_base fc sub f2 k) vsize.
  Proof.
    intros H. unfold K in *. destruct k; unfold dec_base; try leaf.
    - apply V_bind with (c1 := 0) (sz1 := fun _ : Z => 0); [apply V_dec_len; exact H|]. intros n.
      apply V_bind with (c1 := 0) (sz1 := fun b : list byte => len b); [apply V_read|]. intros b.
      destruct (utf8_decode b) eqn:Hu; [|apply V_fail]. apply V_ret. apply utf8_decode_len in Hu. sz. lia.
    - apply V_bind with (c1 := 0) (sz1 := fun _ : Z => 0); [apply V_dec_len; exact H|]. intros n.
      apply V_bind with (c1 := 0) (sz1 := fun b : list byte => len b); [apply V_read|]. intros b.
      apply V_ret. sz. lia.
    - apply V_ret. cbn [vsize]. lia.
    - apply V_bind with (c1 := 0) (sz1 := fun _ : Z => 0); [apply V_dec_len; exact H|]. intros n.
      apply V_bind with (c1 := 0) (sz1 := lsize); [apply V_rep; exact H|]. intros l.
      apply V_ret. sz. lia.
    - apply V_bind with (c1 := 0) (sz1 := fun _ : Z => 0); [apply V_dec_len; exact H|]. intros n.
      apply V_bind with (c1 := 0) (sz1 := dsize); [apply (V_map_loop _ sub _ H [])|]. intros d.
      apply V_ret. sz. lia.
    - apply V_bind with (c1 := 0) (sz1 := fun _ : Z => 0); [apply V_dec_len; exact H|]. intros n.
      apply V_bind with (c1 := 0) (sz1 := lsize); [apply V_rep; exact H|]. intros l.
      apply V_bind with (c1 := lsize l) (sz1 := lsize).
      + apply V_lift. intros s Hs. apply set_build_size in Hs. revert Hs. sz. lia.
      + intros s. apply V_ret. sz. lia.
  Qed.

  Lemma V_dec_cls sub t c : V K 0 sub vsize -> reg_find reg t = Some c -> V K K (dec_cls pk sub t c) vsize.
  Proof.
    intros H Hfind. unfold K in *. destruct c as [defs|ms|base|]; unfold dec_cls.
    - apply V_bind with (c1 := 0) (sz1 := vsize); [exact H|]. intros nf. pose proof (vsize_pos nf).
      destruct (as_len nf); [|apply V_fail].
      apply V_bind with (c1 := lsize defs) (sz1 := lsize); [apply V_fields; exact H|]. intros fs.
      apply V_ret. pose proof (HD _ _ Hfind). sz. lia.
    - apply V_bind with (c1 := 0) (sz1 := vsize); [exact H|]. intros x. apply V_ret. sz. lia.
    - apply V_bind with (c1 := 0) (sz1 := fun _ : Z => 0); [apply V_left|]. intros before.
      apply V_bind with (c1 := 0) (sz1 := vsize); [exact H|]. intros der.
      destruct (pk der); [apply V_fail|].
      apply V_bind with (c1 := 0) (sz1 := vsize); [exact H|]. intros ver.
      apply V_bind with (c1 := 0) (sz1 := fun _ : Z => 0); [apply V_left|]. intros after.
      apply V_bind with (c1 := 0) (sz1 := fun b : list byte => len b); [apply V_read|]. intros pad.
      destruct (len pad =? base - (before - after)); [|apply V_fail].
      apply V_ret. pose proof (len_nonneg pad). sz. lia.
    - apply V_bind with (c1 := 0) (sz1 := vsize); [exact H|]. intros root.
      destruct (pk root); [apply V_fail|].
      apply V_bind with (c1 := 0) (sz1 := vsize); [exact H|]. intros payload.
      apply V_bind with (c1 := 0) (sz1 := vsize); [exact H|]. intros sig. apply V_fail.
  Qed.

  Lemma V_dec_body sub f1 : V K 0 sub vsize -> V K 0 (dec_body fc pk reg sub f1) vsize.
  Proof.
    intros H. unfold dec_body.
    apply V_bind with (c1 := - K) (sz1 := fun _ : unit => 0); [apply V_tick|]. intros _.
    destruct f1; [apply V_fail|].
    apply V_bind with (c1 := 0) (sz1 := fun b : list byte => len b); [apply V_read|]. intros buf.
    destruct (negb (len buf =? 2)); [apply V_fail|]. pose proof (len_nonneg buf).
    destruct (base_kind (be_dec buf)).
    - apply V_conv. eapply V_weaken; [apply V_dec_base; exact H|lia].
    - destruct (reg_find reg (be_dec buf)) eqn:Hf; [|apply V_fail].
      apply V_conv. eapply V_weaken; [apply V_dec_cls; [exact H|exact Hf]|lia].
  Qed.

  Lemma V_dec_value_pair fuel :
    V K 0 (dec_value fc pk reg fuel) vsize /\ V K 0 (dec_value fc pk reg (S fuel)) vsize.
  Proof.
    induction fuel as [|fuel [IH0 IH1]].
    - split; [apply V_fail|]. apply V_dec_body, V_fail.
    - split; [exact IH1|]. apply V_dec_body. exact IH0.
  Qed.

  Lemma decode_size_proof fuel bs :
    match dec_value fc pk reg fuel (st0 bs) with
    | (SOk v, s) => vsize v <= (1 + D) * nval s + (len bs - len (rem s))
    | (SErr _, _) => True
    end.
  Proof.
    pose proof (proj1 (V_dec_value_pair fuel) (st0 bs)) as H.
    destruct (dec_value fc pk reg fuel (st0 bs)) as [[v|e] s]; [|exact I].
    cbn [st0 rem nval] in H. unfold K in H. lia.
  Qed.
End Dec.
