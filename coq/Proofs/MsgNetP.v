(* MsgNetP.v — C07, "a send callback reports success only after the peer endpoint has accepted the
   WHOLE MESSAGE", for unfragmented messages, as ONE theorem over joint histories of two endpoints
   (Model/Net3.v).  Composes
     AckNetP   (datagram level: the success callback is registered for a pending datagram that B has
                accepted),
     MsgSendP  (the callbacks registered for a datagram are those of the messages encoded into it;
                a user callback travels with the payload passed to send()),
     MsgRecvP  (every APP message of an accepted datagram is handed to the application, then or —
                if the message window flags its index — earlier). *)
From Coq Require Import Lia ZifyBool.
From RecordUpdate Require Import RecordUpdate.
From Model Require Import Base SeqNum Wire Conn RecvHist Net Net2 Net3.
From Proofs Require Import Tac SeqNumP WireP ConnFrameP NonceP PackP ClearP AckP CallbackP CustodyP QueueP NetP
  AckNamesP AckNetP RecvP RecvHistP C04P MsgRecvP MsgSendP MsgFragP.
Import RecordSetNotations.
Open Scope Z_scope.
Ltac Zify.zify_post_hook ::= Z.to_euclidean_division_equations.

(* ---------- the predicate on queued messages: a user callback travels with what was passed to send() ---------- *)
Definition ucb_ok (S : list (list byte * Z)) (i : icb) (ty : ptype) (p : list byte) : Prop :=
  match i with IUser id => ty = APP /\ In (p, id) S | IFrag _ _ => ty = APP_FRAGMENT | _ => True end.

(* fragments carry their 6-byte header (FragmentSender.build) *)
Definition ty_ok (ty : ptype) (p : list byte) : Prop :=
  ty <> UNKNOWN /\ (ty = APP_FRAGMENT -> (6 <= length p)%nat).

Definition QkS (S : list (list byte * Z)) (k : cb) : Prop :=
  match k with Plain _ => True | Retry _ _ ty p i => ty_ok ty p /\ ucb_ok S i ty p end.

(* a RetrySender re-queues the message with the same message sequence number, type and payload *)
Definition QmS (S : list (list byte * Z)) (m : pmsg) : Prop :=
  ty_ok (m_type m) (m_payload m) /\
  match m_cb m with
  | None => True
  | Some (Plain i) => ucb_ok S i (m_type m) (m_payload m)
  | Some (Retry rid mseq ty p i) =>
      m_seq m = mseq /\ m_type m = ty /\ m_payload m = p /\ ty_ok ty p /\ ucb_ok S i ty p
  end.

Lemma QS_stamp S now m : QmS S m -> QmS S (stamp now m).
Proof. intros H. exact H. Qed.

Lemma QS_cb S m k : QmS S m -> m_cb m = Some k -> QkS S k.
Proof.
  intros [_ H] E. rewrite E in H. destruct k as [i|rid mseq ty p i]; cbn; [exact I|].
  destruct H as (_ & _ & _ & A & B). auto.
Qed.

Lemma QS_requeue S rid mseq ty p i : QkS S (Retry rid mseq ty p i) ->
  QmS S {| m_seq := mseq; m_type := ty; m_payload := p; m_cb := Some (Retry rid mseq ty p i);
           m_retry := RTimeout; m_atime := 0 |}.
Proof. intros [A B]. split; [exact A|]. cbn. auto. Qed.

Lemma QS_sys S c ty p k : is_hs ty = true -> sys_icb k -> QmS S (new_msg c ty p RNone k).
Proof.
  intros Ht Hk. assert (Hok : ty_ok ty p) by (split; intros E; rewrite E in Ht; discriminate Ht).
  split; [exact Hok|].
  destruct k; try destruct Hk; cbn; exact I.
Qed.

Lemma QS_frag S c fid i n f r :
  QmS S (new_msg c APP_FRAGMENT (be 2 fid ++ be 2 (1 + i) ++ be 2 n ++ f) r (IFrag fid i)).
Proof.
  assert (Hok : ty_ok APP_FRAGMENT (be 2 fid ++ be 2 (1 + i) ++ be 2 n ++ f)).
  { split; [discriminate|]. intros _. rewrite !app_length, !be_length. lia. }
  split; [exact Hok|]. unfold new_msg, mk_cb. cbn [m_cb m_seq m_type m_payload]. destruct r; cbn; auto.
Qed.

Lemma QS_nu S m : QmS S m -> m_type m <> UNKNOWN.
Proof. intros [[H _] _]. exact H. Qed.

Lemma QkS_nu S k : QkS S k -> cbk_ok k.
Proof. destruct k; cbn; [auto|intros [[H _] _]; exact H]. Qed.

Lemma ucb_ok_mono S S' i ty p : (forall y, In y S -> In y S') -> ucb_ok S i ty p -> ucb_ok S' i ty p.
Proof. intros H. destruct i; cbn; auto. intros [A B]. auto. Qed.

Lemma QkS_mono S S' k : (forall y, In y S -> In y S') -> QkS S k -> QkS S' k.
Proof. intros H. destruct k; cbn; [auto|]. intros [A B]. split; [exact A|eapply ucb_ok_mono; eassumption]. Qed.

Lemma QmS_mono S S' m : (forall y, In y S -> In y S') -> QmS S m -> QmS S' m.
Proof.
  intros H [A B]. split; [exact A|]. destruct (m_cb m) as [[i|rid mseq ty p i]|]; [eapply ucb_ok_mono; eassumption| |exact I].
  destruct B as (B1 & B2 & B3 & B4 & B5). split; [exact B1|]. split; [exact B2|]. split; [exact B3|]. split; [exact B4|].
  eapply ucb_ok_mono; eassumption.
Qed.

Lemma MI_mono S S' c : (forall y, In y S -> In y S') -> MI (QmS S) (QkS S) c -> MI (QmS S') (QkS S') c.
Proof.
  intros H [A B D]. constructor.
  - eapply Forall_impl; [|exact A]. intros m. apply QmS_mono. exact H.
  - eapply Forall_impl; [|exact B]. intros m. apply QmS_mono. exact H.
  - eapply Forall_impl; [|exact D]. intros x Hx. eapply Forall_impl; [|exact Hx]. intros k. apply QkS_mono. exact H.
Qed.

(* the message an unfragmented application send creates *)
Lemma QS_send S c p r k : user_icb k -> (forall id, k = IUser id -> In (p, id) S) -> QmS S (new_msg c APP p r k).
Proof.
  intros Hk Hin. assert (Hok : ty_ok APP p) by (split; [discriminate|intros H; discriminate H]).
  split; [exact Hok|]. unfold new_msg, mk_cb. cbn [m_cb m_seq m_type m_payload].
  destruct r; destruct k; try destruct Hk; cbn; auto 8.
Qed.

Definition step_linkS S := step_link (QmS S) (QkS S) (QS_stamp S) (QS_cb S) (QS_requeue S) (QS_nu S) (QkS_nu S) (QS_sys S) (QS_frag S).

(* ---------- the sender's invariant over the joint ghost ---------- *)
(* for every datagram on the wire whose index is recent, the callbacks registered for its sequence
   number belong to messages it carries *)
Definition CInv (M : mnet) : Prop :=
  forall i dA ks k, In (i, dA) (g_AB (m_g M)) -> g_nA (m_g M) - i < RING - 1 ->
    dget (wire i) (c_pcbs (nA (g_net (m_g M)))) = Some ks -> In k ks ->
    exists m, QmS (m_sent M) m /\ m_cb m = Some k /\ In (wmsg_of m) (dg_msgs dA).

Record SInv (M : mnet) : Prop := {
  s_mi : MI (QmS (m_sent M)) (QkS (m_sent M)) (nA (g_net (m_g M)));
  s_pk : PK (nA (g_net (m_g M)));
  s_c : CInv M;
  s_wire : forall i d, In (i, d) (g_AB (m_g M)) -> Forall frag_ok (dg_msgs d) }.

Lemma wire_next S K c n : AInv S K c n -> seq_succ (c_seq_send c) = wire (n + 1).
Proof.
  intros [[H1 H2 _ _ _ _ _ _] _]. rewrite H2, seq_succ_index by exact H1. apply (seq_of_index_step n H1).
Qed.

Theorem SInv_step e S K M vj : J S K (m_g M) -> SInv M -> wf3_ev e M vj -> SInv (mstep e M vj).
Proof.
  intros HJ [HN HP HC HWi] Hwf0. pose proof Hwf0 as [Hwf2 Hwf]. destruct vj as [[v l] js]. unfold wf3_ev, wf3x_ev, msg_ev in *. cbn [fst snd] in *. destruct v as [x|x].
  - (* A moves *)
    destruct Hwf2 as [Hop _]. apply ev_open2_eq in Hop.
    pose proof HJ as [HA HAB _ _ _ _ _ _].
    set (S' := sent_of x ++ m_sent M).
    assert (Hmono : forall y, In y (m_sent M) -> In y S') by (intros; apply in_or_app; right; assumption).
    pose proof (MI_mono _ _ _ Hmono HN) as HN'.
    assert (Hnew : ev_new (QmS S') e (nA (g_net (m_g M))) x).
    { destruct x; try exact I. intros Hl. apply QS_send; [exact Hwf|].
      intros id ->. subst S'. cbn. left. reflexivity. }
    unfold mstep, CInv. cbn [fst snd gstep m_g m_sent m_st].
    destruct (step e (nA (g_net (m_g M))) x) as [a' o] eqn:E.
    destruct (step_linkS S' e S K _ _ x a' o Hop Hnew HN' HP HA E) as (N' & P' & L' & W').
    destruct (step_emit_idx _ _ _ _ _ _ _ _ Hop HA E) as [Hmono_n Hem].
    pose proof (wire_next _ _ _ _ HA) as Hnext.
    pose proof (AInv_fresh _ _ _ _ HA) as Hfresh.
    fold (next_idx (nA (g_net (m_g M))) a' (g_nA (m_g M))) in *.
    set (n' := next_idx (nA (g_net (m_g M))) a' (g_nA (m_g M))) in *.
    constructor; unfold CInv; cbn [m_g m_sent g_net g_AB g_nA nstep]; rewrite ?E; cbn [nA].
    + exact N'.
    + exact P'.
    + intros i dA ks k Hin Hrec Hg Hk.
      destruct (L' (wire i) ks Hg) as [Hold|[Hs Hall]].
      * apply in_app_or in Hin as [Hin|Hin].
        -- destruct (HC i dA ks k Hin ltac:(lia) Hold Hk) as (m & Q & Cb & Wm). exists m.
           split; [eapply QmS_mono; eassumption|auto].
        -- exfalso. destruct Hem as [Hem|(d0 & Hem & Hn & _)]; rewrite Hem in Hin; cbn in Hin; [exact Hin|].
           destruct Hin as [Hin|[]]. injection Hin as <- _. rewrite Hn, <- Hnext in Hold. exact (Hfresh (HP _ _ Hold)).
      * apply in_app_or in Hin as [Hin|Hin].
        -- exfalso. destruct (HAB _ _ Hin) as [Hi _]. rewrite Hnext in Hs.
           apply (wire_neq_near i (g_nA (m_g M) + 1)); [unfold RING in *; lia|exact Hs].
        -- apply in_map_iff in Hin as (d0 & Hd0 & Hin). injection Hd0 as _ <-. exact (Hall k Hk d0 Hin).
    + intros i d Hin. apply in_app_or in Hin as [Hin|Hin]; [exact (HWi i d Hin)|].
      apply in_map_iff in Hin as (d0 & Hd0 & Hin). injection Hd0 as _ <-.
      apply Forall_forall. intros w Hw. destruct (W' d0 Hin w Hw) as (m & [[_ Hf] _] & <-). exact Hf.
  - (* B moves: nothing of the sender changes *)
    unfold mstep, CInv. cbn [fst snd gstep m_g m_sent m_st].
    destruct (step e (nB (g_net (m_g M))) x) as [b' o] eqn:E.
    constructor; unfold CInv; cbn [m_g m_sent g_net g_AB g_nA nstep]; rewrite ?E; cbn [nA]; assumption.
Qed.

(* what the sender's invariant says of a registered user callback: the datagram carries an APP
   message whose payload is the one passed to send() with that callback id *)
Theorem custody_meaning M i dA ks k id :
  SInv M -> In (i, dA) (g_AB (m_g M)) -> g_nA (m_g M) - i < RING - 1 ->
  dget (wire i) (c_pcbs (nA (g_net (m_g M)))) = Some ks -> In k ks -> cb_user k id ->
  exists w, In w (dg_msgs dA) /\ w_type w = APP /\ In (w_payload w, id) (m_sent M).
Proof.
  intros [_ _ HC _] HAB Hrec Hg Hk Hu. destruct (HC i dA ks k HAB Hrec Hg Hk) as (m & [_ Hq] & Hcb & Hm).
  rewrite Hcb in Hq. exists (wmsg_of m). split; [exact Hm|]. cbn [wmsg_of w_type w_payload].
  destruct k as [i0|rid mseq ty p0 i0]; cbn [cb_user] in Hu.
  - destruct i0; try destruct Hu. cbn in Hq. exact Hq.
  - destruct Hq as (_ & Q2 & Q3 & _ & Q5). rewrite Q2, Q3. destruct i0; try destruct Hu. cbn in Q5. exact Q5.
Qed.

(* ---------- the receiver's invariant over the joint ghost ---------- *)
Record BInv (M : mnet) : Prop := {
  b_W : W 256 (c_bf_msg (nB (g_net (m_g M)))) (fst (m_st M));
  b_rec : recorded (m_st M);
  b_D : forall j p, In (j, (APP, p)) (snd (m_st M)) -> In p (dlvB (g_net (m_g M)));
  b_acc : forall d w, In d (g_accB (m_g M)) -> In w (dg_msgs d) -> w_type w = APP ->
            In (w_payload w) (dlvB (g_net (m_g M))) }.

Lemma skipn_app_exact {A} (a b : list A) : skipn (length a) (a ++ b) = b.
Proof. induction a as [|x a IH]; [reflexivity|exact IH]. Qed.

Lemma accepts_opens c x d : accepts c x = Some d -> dgram_in x = Some d /\ opens c d = true.
Proof.
  unfold accepts. destruct (pre_recv c x) as [[c0 d0]|] eqn:Ep; [|discriminate].
  destruct (opens c0 d0 && _) eqn:Eg; [|discriminate]. intros H. injection H as <-.
  destruct (pre_recv_facts _ _ _ _ Ep) as (A & _ & B & _). split; [exact A|].
  rewrite <- B. apply andb_prop in Eg as [Eg _]. exact Eg.
Qed.

Theorem BInv_step e M vj :
  (forall i d, In (i, d) (g_AB (m_g M)) -> Forall frag_ok (dg_msgs d)) ->
  BInv M -> wf3_ev e M vj -> BInv (mstep e M vj).
Proof.
  intros HWi [HW Hrec HD Hacc] Hwf0. pose proof Hwf0 as [Hwf2 Hwf]. destruct vj as [[v l] js]. unfold wf3_ev, wf3x_ev, msg_ev in *. cbn [fst snd] in *. destruct v as [x|x].
  - unfold mstep. cbn [fst snd gstep m_g m_sent m_st].
    destruct (step e (nA (g_net (m_g M))) x) as [a' o] eqn:E.
    constructor; cbn [m_g m_st g_net g_accB nstep]; rewrite ?E; cbn [nB dlvB]; assumption.
  - unfold mstep. cbn [fst snd gstep m_g m_sent m_st].
    destruct (step e (nB (g_net (m_g M))) x) as [b' o] eqn:E. cbn [snd] in Hwf.
    destruct (accepts (nB (g_net (m_g M))) x) as [d|] eqn:Ea.
    + destruct (Hwf d eq_refl) as (Hlen & Hm & Hnr). specialize (Hnr eq_refl).
      assert (Hfr : Forall frag_ok (dg_msgs d)).
      { destruct (accepts_opens _ _ _ Ea) as [Hdi Ho]. destruct (Hwf2 d Hdi Ho) as [Hin _]. exact (HWi l d Hin). }
      destruct (step_accept_msgs _ _ _ _ _ _ E Ea Hnr Hfr) as (Hrx & c1 & now & orcs & c2 & o2 & B1 & I1 & Er & Hnr2 & B2 & I2).
      rewrite <- B1 in HW.
      destruct (recv_msgs_deliver _ _ _ _ _ _ _ _ Hlen HW Hrec Hm Er Hnr2) as (HW' & Hrec' & extra & Hinc & C2 & C3).
      assert (Hnew : (match x with EGetMessages | EDisconnect _ => [] | _ => new_incoming (c_incoming (nB (g_net (m_g M)))) (c_incoming b') end)
                     = map snd extra).
      { assert (Hn : new_incoming (c_incoming (nB (g_net (m_g M)))) (c_incoming b') = map snd extra).
        { unfold new_incoming. rewrite I2, Hinc, I1, skipn_app_exact. reflexivity. }
        destruct x; try destruct Hrx; exact Hn. }
      constructor; cbn [m_g m_st g_net g_accB nstep]; rewrite ?E; cbn [nB dlvB]; rewrite ?Hnew.
      * rewrite B2. exact HW'.
      * exact Hrec'.
      * intros j p Hin. apply in_or_app. destruct (C2 j (APP, p) Hin) as [H|(w & Hw & Hc & Hd)]; [left; exact (HD j p H)|right].
        unfold content in Hc. injection Hc as Ht Hp. rewrite <- Hp. exact (Hd Ht).
      * intros d0 w [<-|Hd0] Hw Hty; apply in_or_app.
        -- destruct (C3 w Hw Hty) as [H|(j & H)]; [right; exact H|left].
           unfold content in H. rewrite Hty in H. exact (HD j _ H).
        -- left. exact (Hacc d0 w Hd0 Hw Hty).
    + pose proof (step_noaccept_bfm _ _ _ _ _ E Ea) as B.
      constructor; cbn [m_g m_st g_net g_accB nstep]; rewrite ?E; cbn [nB dlvB].
      * rewrite B. exact HW.
      * exact Hrec.
      * intros j p Hin. apply in_or_app. left. exact (HD j p Hin).
      * intros d0 w Hd0 Hw Hty. apply in_or_app. left. exact (Hacc d0 w Hd0 Hw Hty).
Qed.

(* ---------- the joint invariant ---------- *)
Record J3 (S K : Z) (M : mnet) : Prop := {
  j3_J : J S K (m_g M);
  j3_inc : Inc (nA (g_net (m_g M)));
  j3_S : SInv M;
  j3_B : BInv M }.

Lemma J3_mnet0 S : 0 < S -> S <= 256 -> TICKS < (RING - 1) * S -> J3 S 0 mnet0.
Proof.
  intros H1 H2 H3. constructor.
  - apply J_gnet0; assumption.
  - constructor.
  - constructor; cbn.
    + constructor; constructor.
    + intros s ks H. discriminate H.
    + intros i dA ks k [].
    + intros i d [].
  - constructor; cbn.
    + reflexivity.
    + intros j [].
    + intros j p [].
    + intros d w [].
Qed.

Theorem J3_step e S K M vj : 0 <= e_max_payload e -> J3 S K M -> wf3_ev e M vj -> J3 S K (mstep e M vj).
Proof.
  intros He [HJ HI HS HB] Hwf. constructor.
  - destruct Hwf as [Hwf2 _]. exact (J_step e S K (m_g M) (fst vj) HJ Hwf2).
  - apply gstep_Inc; assumption.
  - eapply SInv_step; eassumption.
  - eapply BInv_step; [apply HS|eassumption|eassumption].
Qed.

Theorem J3_run e S K vs : forall M, 0 <= e_max_payload e -> J3 S K M -> wf3_run e M vs -> J3 S K (mrun e M vs).
Proof.
  induction vs as [|v r IH]; intros M He HJ Hwf; cbn [mrun fold_left]; [exact HJ|].
  destruct Hwf as [W1 W2]. apply IH; [exact He|apply J3_step; assumption|exact W2].
Qed.

Lemma wf3x_run_split b e vs : forall M, wf3x_run b e M vs <-> wf2_run e (m_g M) (map fst vs) /\ msg_run b e M vs.
Proof.
  induction vs as [|v r IH]; intros M; cbn [wf3x_run wf2_run msg_run map]; [tauto|].
  rewrite IH. unfold wf3x_ev. cbn [mstep m_g]. tauto.
Qed.

Lemma wf3_run_app e vs : forall M ws, wf3_run e M (vs ++ ws) <-> wf3_run e M vs /\ wf3_run e (mrun e M vs) ws.
Proof.
  unfold wf3_run. induction vs as [|v r IH]; intros M ws; cbn [app wf3x_run mrun fold_left]; [tauto|].
  rewrite IH. unfold mrun. tauto.
Qed.

(* replacing B by a connection with the same two receive windows keeps the invariant *)
Lemma J3_with_B S K M b :
  c_bf_pkt b = c_bf_pkt (nB (g_net (m_g M))) -> c_bf_msg b = c_bf_msg (nB (g_net (m_g M))) ->
  J3 S K M -> J3 S K (with_B M b).
Proof.
  intros E1 E2 [[HA HAB HND HABw HB Hacc HBA HBAw] HI [HN HP HC HWi] [HW Hrec HD Hacc2]].
  constructor; [constructor|exact HI|constructor|constructor]; cbn; try assumption.
  - unfold GI in *. rewrite E1. exact HB.
  - rewrite E2. exact HW.
Qed.

Lemma J3_with_B_status S K M st : J3 S K M -> J3 S K (with_B M ((nB (g_net (m_g M))) <| c_status := st |>)).
Proof. apply J3_with_B; reflexivity. Qed.

(* ---------- the datagram level with the index known to be recent ---------- *)
Lemma acked_recent S K G x l a0 d :
  J S K G -> wf2_ev G (NA x, l) -> pre_recv (nA (g_net G)) x = Some (a0, d) -> opens a0 d = true ->
  forall s t, In (s, t) (c_packs a0) -> hdr_acks (h_ack (d_hdr d)) (h_ackbits (d_hdr d)) s = true ->
  exists i dA, s = wire i /\ 1 <= i <= g_nA G /\ g_nA G - i < RING - 1 /\
               In (i, dA) (g_AB G) /\ In dA (wAB (g_net G)) /\ In dA (g_accB G).
Proof.
  intros [HA HAB HND HABw HB Hacc HBA HBAw] [_ Hwf] Hpre Hop.
  destruct (pre_recv_facts _ _ _ _ Hpre) as (Hd & Hp & Ho & _). rewrite Ho in Hop.
  destruct (Hwf d Hd Hop) as (g & Hin & Hfresh). specialize (HBA g d Hin).
  intros s t Hpend Hack. rewrite Hp in Hpend.
  destruct HA as [[Hn _ _ HS Hot Hpe _ _] Hpu].
  rewrite Forall_forall in Hpe. destruct (Hpe _ Hpend) as (i & Hi & Hs & Ht). cbn [fst snd] in Hs, Ht.
  unfold purged in Hpu. rewrite Forall_forall in Hpu. pose proof (Hpu _ Hpend) as Hy. cbn [snd] in Hy.
  assert (Hrec : g_nA G - i < RING - 1) by (unfold RING in *; nia).
  subst s. unfold BAok in HBA. destruct g as [[m acc]|].
  - destruct HBA as (B1 & B2 & B3 & B4).
    destruct (Hacc m (B4 m B3)) as (dm & Hdm & _). destruct (HAB _ _ Hdm) as [Hm _].
    cbn [idx_fresh] in Hfresh. rewrite B1 in Hack.
    assert (Hr : - (RING - 32) < m - i < RING) by (unfold FRESH, RING in *; lia).
    pose proof (hdr_acks_idx m _ i Hack Hr) as Hmi.
    rewrite <- B1 in Hack.
    destruct (B2 m acc eq_refl i ltac:(lia) ltac:(unfold HALF; lia) Hack) as [Hia _].
    destruct (Hacc i (B4 i Hia)) as (dA & H1 & H2).
    exists i, dA. repeat split; auto; try lia. rewrite <- HABw. apply (in_map snd) in H1. exact H1.
  - exfalso. destruct HBA as [B1 B2]. cbn [idx_fresh] in Hfresh. rewrite B1, B2 in Hack.
    rewrite wire_small in Hack by lia. rewrite hdr_acks_zero in Hack by lia. discriminate.
Qed.

Lemma pre_recv_pcbs c x c0 d : pre_recv c x = Some (c0, d) -> c_pcbs c0 = c_pcbs c.
Proof.
  intros H. destruct (pre_recv_facts _ _ _ _ H) as (_ & _ & _ & now & orcs & [[_ ->]|[_ ->]]); [reflexivity|].
  unfold client_update. destruct (_ && (now >? _)); destruct (_ && (_ >? c_temp_timeout _)); reflexivity.
Qed.

(* ---------- fragment-sender contexts come from oversized sends ---------- *)
Definition PFInv (e : env) (M : mnet) : Prop := forall id, FU (nA (g_net (m_g M))) id -> big_id e (m_sent M) id.

Lemma PFInv_mnet0 e : PFInv e mnet0.
Proof. intros id (fid & fs & H & _). discriminate H. Qed.

Lemma big_id_mono e S S' id : (forall y, In y S -> In y S') -> big_id e S id -> big_id e S' id.
Proof. intros H (p & A & B). exists p. auto. Qed.

Theorem PFInv_step e M vj : PFInv e M -> PFInv e (mstep e M vj).
Proof.
  intros HP. destruct vj as [[v l] js]. destruct v as [x|x]; unfold mstep, PFInv; cbn [fst snd gstep m_g m_sent m_st].
  - destruct (step e (nA (g_net (m_g M))) x) as [a' o] eqn:E. cbn [m_g m_sent g_net nstep]. rewrite ?E. cbn [nA].
    intros id H. destruct (step_FU _ _ _ _ _ E id H) as [H0|(p & r & -> & Hl)].
    + eapply big_id_mono; [|exact (HP id H0)]. intros y Hy. apply in_or_app. right. exact Hy.
    + exists p. split; [cbn; left; reflexivity|exact Hl].
  - destruct (step e (nB (g_net (m_g M))) x) as [b' o] eqn:E. cbn [m_g m_sent g_net nstep]. rewrite ?E. cbn [nA]. exact HP.
Qed.

Theorem PFInv_run e vs : forall M, PFInv e M -> PFInv e (mrun e M vs).
Proof.
  induction vs as [|v r IH]; intros M H; cbn [mrun fold_left]; [exact H|]. apply IH. apply PFInv_step. exact H.
Qed.

(* ---------- the theorem, one step of A ---------- *)
Definition delivered_as (M : mnet) (id : Z) : Prop :=
  exists p i dA w,
    In (p, id) (m_sent M) /\ In p (dlvB (g_net (m_g M))) /\
    In (i, dA) (g_AB (m_g M)) /\ In dA (wAB (g_net (m_g M))) /\ In dA (g_accB (m_g M)) /\
    In w (dg_msgs dA) /\ w_type w = APP /\ w_payload w = p.

Theorem success_delivered_step e S K M x l js a' o id :
  J3 S K M -> PFInv e M -> wf3_ev e M ((NA x, l), js) ->
  step e (nA (g_net (m_g M))) x = (a', o) -> In (OCallback id true) o ->
  big_id e (m_sent M) id \/ delivered_as M id.
Proof.
  intros [HJ HI [_ _ HC _] [_ _ _ Hacc]] HPF [Hwf2 _] E Hin. cbn [fst] in Hwf2.
  destruct (step_true_src _ _ _ _ _ _ HI E Hin) as (a0 & d & Hpre & Hop & [(s & t & ks & k & Hpend & Hack & Hg & Hk & Hf)|HF]);
    [right|left; exact (HPF id HF)].
  destruct (acked_recent _ _ _ _ _ _ _ HJ Hwf2 Hpre Hop s t Hpend Hack) as (i & dA & Hs & Hi & Hrec & HAB & HW & HaccB).
  rewrite (pre_recv_pcbs _ _ _ _ Hpre), Hs in Hg.
  destruct (HC i dA ks k HAB Hrec Hg Hk) as (m & [Hty Hq] & Hcb & Hm).
  rewrite Hcb in Hq.
  assert (Hu : m_type m = APP /\ In (m_payload m, id) (m_sent M)).
  { destruct k as [i0|rid mseq ty p0 i0]; cbn [cb_inner] in Hf; subst i0.
    - cbn in Hq. exact Hq.
    - destruct Hq as (_ & Q2 & Q3 & _ & Q5). rewrite Q2, Q3. cbn in Q5. exact Q5. }
  destruct Hu as [Hu1 Hu2].
  exists (m_payload m), i, dA, (wmsg_of m). repeat split; auto.
  exact (Hacc dA (wmsg_of m) HaccB Hm Hu1).
Qed.

(* ---------- the theorems over joint histories ---------- *)
Theorem success_means_delivered e S K M vs x l js a' o id :
  0 <= e_max_payload e -> J3 S K M -> PFInv e M -> wf3_run e M (vs ++ [((NA x, l), js)]) ->
  let M' := mrun e M vs in
  step e (nA (g_net (m_g M'))) x = (a', o) -> In (OCallback id true) o ->
  big_id e (m_sent M') id \/ delivered_as M' id.
Proof.
  intros He HJ HPF Hwf M' E Hin. apply wf3_run_app in Hwf as [W1 [W2 _]].
  eapply success_delivered_step; [eapply J3_run; eassumption|apply PFInv_run; exact HPF|exact W2|exact E|exact Hin].
Qed.

Lemma NoDup_snd_inj {A} (l : list (A * Z)) a b id : NoDup (map snd l) -> In (a, id) l -> In (b, id) l -> a = b.
Proof.
  induction l as [|[x y] l IH]; intros Hnd Ha Hb; [destruct Ha|]. cbn in Hnd. inversion Hnd as [|? ? Hn Hnd']; subst.
  destruct Ha as [Ha|Ha], Hb as [Hb|Hb].
  - congruence.
  - injection Ha as -> ->. exfalso. apply Hn. apply (in_map snd) in Hb. exact Hb.
  - injection Hb as -> ->. exfalso. apply Hn. apply (in_map snd) in Ha. exact Ha.
  - exact (IH Hnd' Ha Hb).
Qed.

(* callback ids not reused: THE payload passed with id in an unfragmented send has been handed to B's
   application *)
Theorem success_means_delivered_unique e S K M vs x l js a' o id p :
  0 <= e_max_payload e -> J3 S K M -> PFInv e M -> wf3_run e M (vs ++ [((NA x, l), js)]) ->
  let M' := mrun e M vs in
  NoDup (map snd (m_sent M')) -> In (p, id) (m_sent M') -> len p <= e_max_payload e ->
  step e (nA (g_net (m_g M'))) x = (a', o) -> In (OCallback id true) o ->
  In p (dlvB (g_net (m_g M'))).
Proof.
  intros He HJ HPF Hwf M' Hnd Hp Hl E Hin.
  destruct (success_means_delivered e S K M vs x l js a' o id He HJ HPF Hwf E Hin) as [(p0 & H1 & H2)|(p0 & _ & _ & _ & H1 & H2 & _)];
    fold M' in H1, H2.
  - exfalso. rewrite (NoDup_snd_inj _ _ _ _ Hnd Hp H1) in Hl. lia.
  - rewrite (NoDup_snd_inj _ _ _ _ Hnd Hp H1). exact H2.
Qed.
