(* HdrKernelsP.v — PacketHeader.to_bytes REGENERATED from mpgameserver/connection.py on every run
   (Gen/HdrKernels.v, tools/py2v_bytes.py) is Wire.encode_header: the 20 header bytes — hence the 12 nonce bytes
   and the 8 AAD bytes — for every header record, struct.error cases included; the PacketType members are the
   model's type codes and the two direction magics are the model's. *)
From Coq Require Import Lia ZifyBool.
From Model Require Import Base StructPack Wire.
From Gen Require Import HdrKernels.
Open Scope Z_scope.

Lemma sp_be_is_be n z : sp_be n z = Wire.be n z.
Proof. revert z; induction n as [|n IH]; intros z; cbn [sp_be Wire.be]; [reflexivity|]. now rewrite IH. Qed.

Lemma gen_magics : gen_PacketIdentifier_TO_SERVER = MAGIC_TO_SERVER /\ gen_PacketIdentifier_TO_CLIENT = MAGIC_TO_CLIENT.
Proof. split; reflexivity. Qed.

Lemma gen_packet_types :
  gen_PacketType_members = map ptype_code [UNKNOWN; CLIENT_HELLO; SERVER_HELLO; CHALLENGE_RESP; KEEP_ALIVE; DISCONNECT; APP; APP_FRAGMENT]
  /\ (forall z, In z gen_PacketType_members <-> exists t, ptype_of_code z = Some t).
Proof.
  split; [reflexivity|]. intros z. split.
  - cbn. intros H. repeat (destruct H as [H|H]; [subst z; eexists; reflexivity|]). destruct H.
  - intros [t Ht]. unfold ptype_of_code in Ht.
    destruct z as [|p|p]; try discriminate; [cbn; tauto|].
    destruct p as [[[p|p|]|[p|p|]|]|[[p|p|]|[p|p|]|]|]; try discriminate; cbn; tauto.
Qed.

Lemma in_range_frange : forall z, frange FL z = in_range 32 z /\ frange FH z = in_range 16 z /\ frange FB z = in_range 8 z.
Proof. intros z. repeat split. Qed.

Lemma ptype_code_byte t : frange FB (ptype_code t) = true.
Proof. destruct t; reflexivity. Qed.

Lemma gen_to_bytes_spec h :
  gen_PacketHeader_to_bytes (if h_to_server h then 0 else 1) (h_ctime h) (h_seq h) (h_ack h) (ptype_code (h_type h))
                            (h_len h) (h_count h) (h_ackbits h)
  = encode_header h.
Proof.
  unfold gen_PacketHeader_to_bytes, encode_header, header_ok.
  assert (Hid : (if negb ((if h_to_server h then 0 else 1) =? 0) then gen_PacketIdentifier_TO_CLIENT else gen_PacketIdentifier_TO_SERVER)
                = (if h_to_server h then MAGIC_TO_SERVER else MAGIC_TO_CLIENT)) by (destruct (h_to_server h); reflexivity).
  rewrite Hid. clear Hid.
  assert (Hs : pack_s 4 (if h_to_server h then MAGIC_TO_SERVER else MAGIC_TO_CLIENT)
               = Ok (if h_to_server h then MAGIC_TO_SERVER else MAGIC_TO_CLIENT)) by (destruct (h_to_server h); reflexivity).
  rewrite Hs. clear Hs.
  unfold spack, pack1, bind.
  destruct (in_range_frange (h_ctime h)) as [-> _].
  destruct (in_range_frange (h_ackbits h)) as [-> _].
  destruct (in_range_frange (h_seq h)) as [_ [-> _]].
  destruct (in_range_frange (h_ack h)) as [_ [-> _]].
  destruct (in_range_frange (h_len h)) as [_ [-> _]].
  destruct (in_range_frange (h_count h)) as [_ [_ ->]].
  rewrite ptype_code_byte.
  destruct (in_range 32 (h_ctime h)); cbn [andb]; [|reflexivity].
  destruct (in_range 16 (h_seq h)); cbn [andb]; [|reflexivity].
  destruct (in_range 16 (h_ack h)); cbn [andb]; [|destruct (in_range 16 (h_len h)), (in_range 8 (h_count h)), (in_range 32 (h_ackbits h)); reflexivity].
  destruct (in_range 16 (h_len h)); cbn [andb]; [|reflexivity].
  destruct (in_range 8 (h_count h)); cbn [andb]; [|reflexivity].
  destruct (in_range 32 (h_ackbits h)); cbn [andb]; [|reflexivity].
  rewrite !sp_be_is_be. cbn [fsize]. rewrite !app_nil_r, <- !app_assoc.
  change (Wire.be 1 (ptype_code (h_type h))) with ([] ++ [byte_of_Z (ptype_code (h_type h))]).
  change (Wire.be 1 (h_count h)) with ([] ++ [byte_of_Z (h_count h)]).
  reflexivity.
Qed.
