(* CustodyP.v — C05 (safety half) / C07 (at least once): a guaranteed message is never dropped
   by the sender while the connection is open.  Its RetrySender callback K is, at every moment,
   either done (acknowledged), or attached to a queued message, or registered for a datagram that
   is still pending — from which it is re-queued when that datagram times out. *)
From Coq Require Import Lia ZifyBool.
From RecordUpdate Require Import RecordUpdate.
From Model Require Import Base SeqNum Wire Conn.
From Proofs Require Import Tac SeqNumP ConnFrameP NonceP PackP ClearP AckP CallbackP.
Import RecordSetNotations.
Open Scope Z_scope.

Definition rid_of (k : cb) : Z := match k with Retry rid _ _ _ _ => rid | Plain _ => -1 end.

Definition queued (K : cb) (c : conn) : Prop := exists m, In m (c_outgoing c) /\ m_cb m = Some K.
Definition registered (K : cb) (c : conn) : Prop :=
  exists s ks, dget s (c_pcbs c) = Some ks /\ In K ks /\ In s (map fst (c_packs c)).
Definition is_done (K : cb) (c : conn) : Prop := zmem (rid_of K) (c_done c) = true.

Definition Custody (K : cb) (c : conn) : Prop := is_done K c \/ queued K c \/ registered K c.

(* what the callback machinery may do to the fields custody looks at *)
Record grows (c c' : conn) : Prop := {
  g_out : forall m, In m (c_outgoing c) -> In m (c_outgoing c');
  g_done : forall r, zmem r (c_done c) = true -> zmem r (c_done c') = true;
  g_pcbs : c_pcbs c' = c_pcbs c;
  g_packs : c_packs c' = c_packs c }.
Lemma grows_refl c : grows c c. Proof. constructor; auto. Qed.
Lemma grows_trans a b c : grows a b -> grows b c -> grows a c.
Proof. intros [A1 A2 A3 A4] [B1 B2 B3 B4]. constructor; auto; congruence. Qed.

Lemma grows_Custody K c c' : grows c c' -> Custody K c -> Custody K c'.
Proof.
  intros [G1 G2 G3 G4] [H|[(m & Hm & Hk)|(s & ks & H1 & H2 & H3)]].
  - left. apply G2. exact H.
  - right. left. exists m. auto.
  - right. right. exists s, ks. rewrite G3, G4. auto.
Qed.

Lemma zmem_cons x y l : zmem x (y :: l) = (x =? y) || zmem x l.
Proof. reflexivity. Qed.

Lemma fire_icb_grows c k ok c' o : fire_icb c k ok = (c', o) -> grows c c'.
Proof.
  unfold fire_icb. intros E. destruct k; try (injection E as <- <-; apply grows_refl).
  destruct (dget fid (c_pfrags c)); [|injection E as <- <-; apply grows_refl].
  destruct (forallb is_some _); injection E as <- <-; constructor; cbn; auto.
Qed.

Definition requeue (k : cb) : pmsg :=
  match k with
  | Retry rid mseq ty p i => {| m_seq := mseq; m_type := ty; m_payload := p; m_cb := Some k; m_retry := RTimeout; m_atime := 0 |}
  | Plain _ => {| m_seq := 0; m_type := UNKNOWN; m_payload := []; m_cb := None; m_retry := RNone; m_atime := 0 |}
  end.

(* firing one callback: everything grows; if it is K itself, K ends up done or queued *)
Lemma fire_cb_grows c k ok c' o : fire_cb c k ok = (c', o) ->
  grows c c' /\ (forall K, k = K -> rid_of K <> -1 -> is_done K c' \/ queued K c').
Proof.
  unfold fire_cb. intros E. destruct k as [i|rid mseq ty p i].
  - split; [eapply fire_icb_grows; exact E|]. intros K <- H. cbn in H. lia.
  - destruct (zmem rid (c_done c)) eqn:Ed.
    + injection E as <- <-. split; [apply grows_refl|]. intros K <- _. left. exact Ed.
    + destruct (negb ok).
      * injection E as <- <-. split.
        -- constructor; cbn; auto. intros m Hm. apply in_or_app. left. exact Hm.
        -- intros K <- _. right. eexists. split; [cbn; apply in_or_app; right; left; reflexivity|reflexivity].
      * apply fire_icb_grows in E as G. split.
        -- eapply grows_trans; [|exact G]. constructor; cbn; auto.
           intros r Hr. unfold zmem in *. cbn [existsb]. rewrite Hr. apply orb_true_r.
        -- intros K <- _. left. destruct G as [_ G2 _ _]. apply G2. unfold zmem. cbn [rid_of c_done existsb]. cbn. rewrite Z.eqb_refl. reflexivity.
Qed.

Lemma fire_all_grows ks : forall c ok c' o, fire_all c ks ok = (c', o) ->
  grows c c' /\ (forall K, In K ks -> rid_of K <> -1 -> is_done K c' \/ queued K c').
Proof.
  induction ks as [|k ks IH]; intros c ok c' o E; cbn [fire_all] in E.
  - injection E as <- <-. split; [apply grows_refl|intros K []].
  - destruct (fire_cb c k ok) as [c1 o1] eqn:E1. destruct (fire_all c1 ks ok) as [c2 o2] eqn:E2.
    injection E as <- <-. destruct (fire_cb_grows _ _ _ _ _ E1) as [G1 F1]. destruct (IH _ _ _ _ E2) as [G2 F2].
    split; [eapply grows_trans; eassumption|].
    intros K [<-|Hin] Hr; [|apply F2; assumption].
    destruct (F1 _ eq_refl Hr) as [H|(m & Hm & Hk)].
    + left. destruct G2 as [_ G _ _]. apply G. exact H.
    + right. exists m. destruct G2 as [G _ _ _]. auto.
Qed.

Lemma ddel_dget_other {A} k k' (d : list (Z * A)) : k' <> k -> dget k' (ddel k d) = dget k' d.
Proof. intros H. rewrite dget_ddel. assert (k' =? k = false) as -> by lia. reflexivity. Qed.

Lemma in_keys_ddel {A} k k' (d : list (Z * A)) : k' <> k -> In k' (map fst d) -> In k' (map fst (ddel k d)).
Proof.
  intros Hne Hin. apply in_map_iff in Hin as (x & Hx & Hin). apply in_map_iff. exists x. split; [exact Hx|].
  apply In_ddel; [exact Hin|congruence].
Qed.

(* resolving datagram s keeps custody *)
Lemma resolve_Custody K ok c s c' o : rid_of K <> -1 -> Custody K c -> resolve ok c s = (c', o) -> Custody K c'.
Proof.
  intros Hr HC E. unfold resolve in E.
  set (c0 := if ok then _ else _) in E.
  assert (G0 : grows c c0) by (subst c0; destruct ok; constructor; cbn; auto).
  apply (grows_Custody _ _ _ G0) in HC.
  assert (Hfin : forall c1, Custody K c1 -> (registered K c1 -> exists s' ks, dget s' (c_pcbs c1) = Some ks /\ In K ks /\ In s' (map fst (c_packs c1)) /\ s' <> s) ->
            forall c2, c_outgoing c2 = c_outgoing c1 -> c_done c2 = c_done c1 -> c_pcbs c2 = ddel s (c_pcbs c1) ->
                       c_packs c2 = ddel s (c_packs c1) -> Custody K c2).
  { intros c1 [H|[(m & Hm & Hk)|Hreg]] Hne c2 O D P A.
    - left. unfold is_done. rewrite D. exact H.
    - right. left. exists m. rewrite O. auto.
    - right. right. destruct (Hne Hreg) as (s' & ks & H1 & H2 & H3 & H4). exists s', ks.
      rewrite P, A, ddel_dget_other by exact H4. split; [exact H1|]. split; [exact H2|]. apply in_keys_ddel; assumption. }
  destruct (dget s (c_pcbs c0)) as [ks|] eqn:Eg.
  - destruct (fire_all c0 ks ok) as [c1 o1] eqn:E1. destruct (fire_all_grows _ _ _ _ _ E1) as [G1 F1].
    injection E as <- <-.
    (* custody after the callbacks: if K was registered at s it is now done or queued *)
    assert (HC1 : Custody K c1 /\ (registered K c1 -> is_done K c1 \/ queued K c1 \/
                    exists s' ks', dget s' (c_pcbs c1) = Some ks' /\ In K ks' /\ In s' (map fst (c_packs c1)) /\ s' <> s)).
    { pose proof (grows_Custody _ _ _ G1 HC) as HC1. split; [exact HC1|]. intros _.
      destruct HC as [H|[(m & Hm & Hk)|(s' & ks' & H1 & H2 & H3)]].
      - left. destruct G1 as [_ G _ _]. apply G. exact H.
      - right. left. exists m. destruct G1 as [G _ _ _]. auto.
      - destruct (Z.eq_dec s' s) as [->|Hne].
        + rewrite Eg in H1. injection H1 as <-. destruct (F1 _ H2 Hr) as [H|H]; auto.
        + right. right. exists s', ks'. destruct G1 as [_ _ G3 G4]. rewrite G3, G4. auto. }
    destruct HC1 as [HC1 Hreg].
    assert (HC1' : is_done K c1 \/ queued K c1 \/
              exists s' ks', dget s' (c_pcbs c1) = Some ks' /\ In K ks' /\ In s' (map fst (c_packs c1)) /\ s' <> s).
    { destruct HC1 as [H|[H|H]]; auto. }
    destruct HC1' as [H|[(m & Hm & Hk)|(s' & ks' & H1 & H2 & H3 & H4)]].
    + left. unfold is_done. destruct (dget s (c_pretry c1)); cbn; exact H.
    + right. left. exists m. destruct (dget s (c_pretry c1)); cbn; auto.
    + right. right. exists s', ks'. destruct (dget s (c_pretry c1)); cbn; fold (ddel s (c_pcbs c1)); fold (ddel s (c_packs c1));
        (rewrite ddel_dget_other by exact H4; split; [exact H1|split; [exact H2|apply in_keys_ddel; assumption]]).
  - injection E as <- <-.
    destruct HC as [H|[(m & Hm & Hk)|(s' & ks' & H1 & H2 & H3)]].
    + left. unfold is_done. destruct (dget s (c_pretry c0)); cbn; exact H.
    + right. left. exists m. destruct (dget s (c_pretry c0)); cbn; auto.
    + assert (Hne : s' <> s) by (intros ->; rewrite Eg in H1; discriminate).
      right. right. exists s', ks'. destruct (dget s (c_pretry c0)); cbn; fold (ddel s (c_packs c0));
        (split; [exact H1|split; [exact H2|apply in_keys_ddel; assumption]]).
Qed.

Lemma ack_loop_Custody K h snap : forall c c' o, rid_of K <> -1 -> Custody K c -> ack_loop c h snap = (c', o) -> Custody K c'.
Proof.
  induction snap as [|[s t] r IH]; intros c c' o Hr HC E; cbn [ack_loop] in E.
  - injection E as <- <-. exact HC.
  - dpair E c1 o1 E1. destruct (ack_loop c1 h r) as [c2 o2] eqn:E2. injection E as <- <-.
    eapply IH; [exact Hr| |exact E2].
    destruct (hdr_acks _ _ s); [eapply resolve_Custody; eassumption|].
    destruct (_ >? _); [eapply resolve_Custody; eassumption|]. injection E1 as <- <-. exact HC.
Qed.

Lemma timeout_loop_Custody K strict now snap : forall c c' o,
  rid_of K <> -1 -> Custody K c -> timeout_loop strict c now snap = (c', o) -> Custody K c'.
Proof.
  induction snap as [|[s t] r IH]; intros c c' o Hr HC E; cbn [timeout_loop] in E.
  - injection E as <- <-. exact HC.
  - dpair E c1 o1 E1. destruct (timeout_loop strict c1 now r) as [c2 o2] eqn:E2. injection E as <- <-.
    eapply IH; [exact Hr| |exact E2].
    match type of E1 with (if ?b then _ else _) = _ => destruct b end; [eapply resolve_Custody; eassumption|].
    injection E1 as <- <-. exact HC.
Qed.

(* functions that leave the four custody fields alone, or only append to the queue *)
Lemma Custody_same K c c' :
  (forall m, In m (c_outgoing c) -> In m (c_outgoing c')) -> c_done c' = c_done c -> c_pcbs c' = c_pcbs c ->
  c_packs c' = c_packs c -> Custody K c -> Custody K c'.
Proof. intros O D P A. apply grows_Custody. constructor; auto. intros r. rewrite D. auto. Qed.

Lemma send_type_out c ty p r k : forall m, In m (c_outgoing c) -> In m (c_outgoing (send_type c ty p r k)).
Proof. intros m Hm. unfold send_type. cbn. apply in_or_app. left. exact Hm. Qed.

Lemma send_frags_out frags : forall c fid n r i m, In m (c_outgoing c) -> In m (c_outgoing (send_frags c fid n r i frags)).
Proof.
  induction frags as [|f rest IH]; intros c fid n r i m Hm; cbn [send_frags]; [exact Hm|].
  apply IH. apply send_type_out. exact Hm.
Qed.

Lemma send_frags_fields frags : forall c fid n r i,
  c_done (send_frags c fid n r i frags) = c_done c /\ c_pcbs (send_frags c fid n r i frags) = c_pcbs c.
Proof.
  induction frags as [|f rest IH]; intros c fid n r i; cbn [send_frags]; [auto|].
  destruct (IH (send_type c APP_FRAGMENT (be 2 fid ++ be 2 (1 + i) ++ be 2 n ++ f) r (IFrag fid i)) fid n r (i + 1)) as [A B].
  rewrite A, B. unfold send_type. cbn. auto.
Qed.

Lemma send_Custody K e c p r k c' o : Custody K c -> send e c p r k = (c', o) -> Custody K c'.
Proof.
  intros HC E. pose proof (send_ack _ _ _ _ _ _ _ E) as [P _ _ _ _]. unfold send in E.
  destruct (negb _); [injection E as <- <-; exact HC|].
  destruct (len p >? e_max_payload e).
  - destruct (len p >? _); injection E as <- <-.
    + eapply Custody_same; [| | | |exact HC]; cbn; auto.
    + set (frags := split_frags (S (length p)) e p) in *.
      set (c0 := c <| c_seq_frag := seq_succ (c_seq_frag c) |>) in *.
      destruct (send_frags_fields frags c0 (seq_succ (c_seq_frag c)) (len frags) r 0) as [A B].
      eapply Custody_same; [| | | |exact HC].
      * intros m Hm. change (In m (c_outgoing (send_frags c0 (seq_succ (c_seq_frag c)) (len frags) r 0 frags))). apply send_frags_out. exact Hm.
      * change (c_done (send_frags c0 (seq_succ (c_seq_frag c)) (len frags) r 0 frags) = c_done c). rewrite A. reflexivity.
      * change (c_pcbs (send_frags c0 (seq_succ (c_seq_frag c)) (len frags) r 0 frags) = c_pcbs c). rewrite B. reflexivity.
      * exact P.
  - injection E as <- <-. eapply Custody_same; [| | | |exact HC]; unfold send_type; cbn; auto.
    intros m Hm. apply in_or_app. left. exact Hm.
Qed.

(* a new guaranteed send takes custody of its own RetrySender *)
Lemma send_new_Custody e c p k c' o :
  c_status c = CONNECTED -> len p <= e_max_payload e -> send e c p RTimeout k = (c', o) ->
  Custody (Retry (c_next_rid c) (seq_succ (c_seq_msg c)) APP p k) c' /\ c_next_rid c' = c_next_rid c + 1.
Proof.
  intros Hs Hl E. unfold send in E. rewrite Hs in E. cbn [status_eqb status_code Z.eqb negb] in E.
  assert (len p >? e_max_payload e = false) as Hg by lia. rewrite Hg in E. injection E as <- <-.
  split; [|reflexivity]. right. left. eexists. split; [unfold send_type; cbn; apply in_or_app; right; left; reflexivity|reflexivity].
Qed.

(* ---------- nothing queued is typed UNKNOWN (so packet assembly never discards a selection) ---------- *)
Definition cbk_ok (k : cb) : Prop := match k with Retry _ _ ty _ _ => ty <> UNKNOWN | Plain _ => True end.
Definition msg_ok (m : pmsg) : Prop := m_type m <> UNKNOWN /\ forall k, m_cb m = Some k -> cbk_ok k.

Record NU (c : conn) : Prop := {
  nu_out : Forall msg_ok (c_outgoing c);
  nu_prm : Forall (fun p => msg_ok (snd p)) (c_pretry_msg c);
  nu_pcbs : Forall (fun p => Forall cbk_ok (snd p)) (c_pcbs c) }.

Lemma NU_no_unknown c : NU c -> no_unknown c.
Proof.
  intros [A B _] m [H|H].
  - rewrite Forall_forall in A. exact (proj1 (A _ H)).
  - apply in_map_iff in H as (x & <- & Hx). rewrite Forall_forall in B. exact (proj1 (B _ Hx)).
Qed.

Lemma NU_same_q c c' : same_q c c' -> NU c -> NU c'.
Proof. intros [_ _ O P C] [A B D]. constructor; congruence. Qed.

Lemma fire_cb_NU c k ok c' o : cbk_ok k -> NU c -> fire_cb c k ok = (c', o) -> NU c'.
Proof.
  intros Hk HN E. unfold fire_cb in E. destruct k as [i|rid mseq ty p i].
  - eapply NU_same_q; [eapply fire_icb_q; exact E|exact HN].
  - destruct (zmem rid (c_done c)); [injection E as <- <-; exact HN|].
    destruct (negb ok).
    + injection E as <- <-. destruct HN as [A B D]. constructor; cbn; auto.
      apply Forall_app. split; [exact A|]. repeat constructor; cbn; [exact Hk|]. intros k Hk'. injection Hk' as <-. exact Hk.
    + apply fire_icb_q in E. eapply NU_same_q; [exact E|]. destruct HN as [A B D]. constructor; cbn; auto.
Qed.

Lemma fire_all_NU ks : forall c ok c' o, Forall cbk_ok ks -> NU c -> fire_all c ks ok = (c', o) -> NU c'.
Proof.
  induction ks as [|k ks IH]; intros c ok c' o HF HN E; cbn [fire_all] in E.
  - injection E as <- <-. exact HN.
  - inversion HF as [|? ? Hk HF']; subst.
    destruct (fire_cb c k ok) as [c1 o1] eqn:E1. destruct (fire_all c1 ks ok) as [c2 o2] eqn:E2.
    injection E as <- <-. eapply IH; [exact HF'| |exact E2]. eapply fire_cb_NU; eassumption.
Qed.

Lemma Forall_fold_ddel {A} (P : Z * A -> Prop) l : forall d, Forall P d -> Forall P (fold_left (fun d m => ddel m d) l d).
Proof. induction l as [|x l IH]; intros d H; cbn; [exact H|]. apply IH. apply Forall_ddel. exact H. Qed.

Lemma resolve_NU ok c s c' o : NU c -> resolve ok c s = (c', o) -> NU c'.
Proof.
  intros HN E. unfold resolve in E.
  set (c0 := if ok then _ else _) in E.
  assert (N0 : NU c0) by (subst c0; destruct ok; destruct HN as [A B D]; constructor; cbn; auto).
  destruct (dget s (c_pcbs c0)) as [ks|] eqn:Eg.
  - destruct (fire_all c0 ks ok) as [c1 o1] eqn:E1.
    assert (Hks : Forall cbk_ok ks).
    { destruct N0 as [_ _ D]. rewrite Forall_forall in D. exact (D _ (dget_In _ _ _ Eg)). }
    pose proof (fire_all_NU _ _ _ _ _ Hks N0 E1) as [A B D]. injection E as <- <-.
    destruct (dget s (c_pretry c1)); constructor; cbn; auto using Forall_ddel, Forall_fold_ddel.
  - injection E as <- <-. destruct N0 as [A B D].
    destruct (dget s (c_pretry c0)); constructor; cbn; auto using Forall_ddel, Forall_fold_ddel.
Qed.

Lemma ack_loop_NU h snap : forall c c' o, NU c -> ack_loop c h snap = (c', o) -> NU c'.
Proof.
  induction snap as [|[s t] r IH]; intros c c' o HN E; cbn [ack_loop] in E.
  - injection E as <- <-. exact HN.
  - dpair E c1 o1 E1. destruct (ack_loop c1 h r) as [c2 o2] eqn:E2. injection E as <- <-.
    eapply IH; [|exact E2]. destruct (hdr_acks _ _ s); [eapply resolve_NU; eassumption|].
    destruct (_ >? _); [eapply resolve_NU; eassumption|]. injection E1 as <- <-. exact HN.
Qed.

Lemma timeout_loop_NU strict now snap : forall c c' o, NU c -> timeout_loop strict c now snap = (c', o) -> NU c'.
Proof.
  induction snap as [|[s t] r IH]; intros c c' o HN E; cbn [timeout_loop] in E.
  - injection E as <- <-. exact HN.
  - dpair E c1 o1 E1. destruct (timeout_loop strict c1 now r) as [c2 o2] eqn:E2. injection E as <- <-.
    eapply IH; [|exact E2]. match type of E1 with (if ?b then _ else _) = _ => destruct b end;
      [eapply resolve_NU; eassumption|injection E1 as <- <-; exact HN].
Qed.

Lemma send_type_NU c ty p r k : ty <> UNKNOWN -> NU c -> NU (send_type c ty p r k).
Proof.
  intros Ht [A B D]. unfold send_type. constructor; cbn; auto.
  apply Forall_app. split; [exact A|]. repeat constructor; cbn; [exact Ht|].
  intros k0 Hk. unfold mk_cb in Hk. destruct r; [destruct k; try discriminate; injection Hk as <-; exact I| |injection Hk as <-; exact Ht];
    destruct k; try discriminate; injection Hk as <-; exact I.
Qed.

Lemma send_frags_NU frags : forall c fid n r i, NU c -> NU (send_frags c fid n r i frags).
Proof.
  induction frags as [|f rest IH]; intros c fid n r i HN; cbn [send_frags]; [exact HN|].
  apply IH. apply send_type_NU; [discriminate|exact HN].
Qed.

Lemma NU_upd c c' : c_outgoing c' = c_outgoing c -> c_pretry_msg c' = c_pretry_msg c -> c_pcbs c' = c_pcbs c -> NU c -> NU c'.
Proof. intros O P C [A B D]. constructor; congruence. Qed.

Lemma send_NU e c p r k c' o : NU c -> send e c p r k = (c', o) -> NU c'.
Proof.
  intros HN E. unfold send in E. destruct (negb _); [injection E as <- <-; exact HN|].
  destruct (len p >? e_max_payload e).
  - destruct (len p >? _); injection E as <- <-; [eapply NU_upd; [| | |exact HN]; reflexivity|].
    set (frags := split_frags (S (length p)) e p).
    set (c0 := c <| c_seq_frag := seq_succ (c_seq_frag c) |>).
    assert (N0 : NU c0) by (eapply NU_upd; [| | |exact HN]; reflexivity).
    pose proof (send_frags_NU frags c0 (seq_succ (c_seq_frag c)) (len frags) r 0 N0) as N1.
    eapply NU_upd; [| | |exact N1]; reflexivity.
  - injection E as <- <-. apply send_type_NU; [discriminate|exact HN].
Qed.

Lemma recv_msgs_NU ms c now orcs c' o : NU c -> recv_msgs c now ms orcs = (c', o) -> NU c'.
Proof.
  intros HN E. revert HN.
  apply (recv_msgs_rel (fun a b => NU a -> NU b)) with (ms := ms) (now := now) (orcs := orcs) (o := o); try exact E; auto.
  - intros a bf. apply NU_upd; reflexivity.
  - intros a s p. apply NU_upd; reflexivity.
  - intros a n s p a' o' Ef. unfold recv_fragment in Ef. destruct (_ <? _)%nat; [injection Ef as <- <-; auto|].
    injection Ef as <- <-. destruct (fr_complete _); apply NU_upd; reflexivity.
  - intros a. apply NU_upd; reflexivity.
  - intros a ty oo a' os Eh HN. unfold recv_handshake in Eh.
    destruct ty, (c_server a); try (injection Eh as <- <-; exact HN).
    + destruct (negb _); [injection Eh as <- <-; exact HN|].
      destruct (negb _); injection Eh as <- <-; [exact HN|].
      apply send_type_NU; [discriminate|]. eapply NU_upd; [| | |exact HN]; reflexivity.
    + destruct (o_parse oo =? 6); [injection Eh as <- <-; eapply NU_upd; [| | |exact HN]; reflexivity|].
      destruct (negb _); injection Eh as <- <-; [exact HN|].
      eapply NU_upd; [| | |apply (send_type_NU (a <| c_token := o_token oo |> <| c_key := Some (o_key oo) |>) CHALLENGE_RESP (o_reply oo) RNone IChallenge);
                           [discriminate|eapply NU_upd; [| | |exact HN]; reflexivity]]; reflexivity.
    + destruct (negb _); [injection Eh as <- <-; exact HN|].
      destruct (o_temp_token oo) as [t|]; [|injection Eh as <- <-; exact HN].
      destruct (t =? o_token oo); injection Eh as <- <-; [eapply NU_upd; [| | |exact HN]; reflexivity|exact HN].
Qed.

(* ---------- packet assembly ---------- *)
Lemma retry_pass_sub e now delay items : forall prm msgs cur prm' msgs' cur',
  retry_pass e now delay items prm msgs cur = (prm', msgs', cur') ->
  (forall x, In x prm' -> In x prm) /\
  (forall m, In m msgs' -> In m msgs \/ In m (map snd items)).
Proof.
  induction items as [|[ms m] r IH]; intros prm msgs cur prm' msgs' cur' E; cbn [retry_pass] in E.
  - injection E as <- <- <-. auto.
  - destruct (now - m_atime m <? delay).
    + destruct (IH _ _ _ _ _ _ E) as [A B]. split; [exact A|]. intros x Hx. destruct (B x Hx); [left|right; right]; assumption.
    + destruct (fits _ _ _ _).
      * destruct (IH _ _ _ _ _ _ E) as [A B]. split.
        -- intros x Hx. apply A in Hx. apply ddel_In in Hx as [Hx _]. exact Hx.
        -- intros x Hx. destruct (B x Hx) as [H|H]; [|right; right; exact H].
           apply in_app_or in H as [H|[<-|[]]]; [left; exact H|right; left; reflexivity].
      * destruct (IH _ _ _ _ _ _ E) as [A B]. split; [exact A|]. intros x Hx. destruct (B x Hx); [left|right; right]; assumption.
Qed.

Lemma out_pass_sub e q : forall msgs cur rem msgs' cur',
  out_pass e q msgs cur = (rem, msgs', cur') ->
  (forall m, In m rem -> In m q) /\ (forall m, In m q -> In m rem \/ In m msgs') /\
  (forall m, In m msgs -> In m msgs') /\ (forall m, In m msgs' -> In m msgs \/ In m q).
Proof.
  induction q as [|m q IH]; intros msgs cur rem msgs' cur' E; cbn [out_pass] in E.
  - injection E as <- <- <-. repeat split; auto; intros m [].
  - destruct (fits _ _ _ _).
    + destruct (IH _ _ _ _ _ E) as (A & B & C & D). repeat split.
      * intros x Hx. right. apply A. exact Hx.
      * intros x [<-|Hx]; [right; apply C; apply in_or_app; right; left; reflexivity|apply B; exact Hx].
      * intros x Hx. apply C. apply in_or_app. left. exact Hx.
      * intros x Hx. destruct (D x Hx) as [H|H]; [|right; right; exact H].
        apply in_app_or in H as [H|[<-|[]]]; [left; exact H|right; left; reflexivity].
    + destruct (out_pass e q msgs cur) as [[rem0 ms0] cu0] eqn:E0. injection E as <- <- <-.
      destruct (IH _ _ _ _ _ E0) as (A & B & C & D). repeat split.
      * intros x [<-|Hx]; [left; reflexivity|right; apply A; exact Hx].
      * intros x [<-|Hx]; [left; left; reflexivity|]. destruct (B x Hx); [left; right|right]; assumption.
      * exact C.
      * intros x Hx. destruct (D x Hx); [left|right; right]; assumption.
Qed.

Record built_spec (c c' : conn) (now : Z) (r : option (header * list pmsg)) (msgs : list pmsg) : Prop := {
  bs_from : forall m, In m msgs -> In m (c_outgoing c) \/ In m (map snd (c_pretry_msg c));
  bs_keep : forall m, In m (c_outgoing c) -> In m (c_outgoing c') \/ In m msgs;
  bs_rem : forall m, In m (c_outgoing c') -> In m (c_outgoing c);
  bs_done : c_done c' = c_done c;
  bs_prm : forall x, In x (c_pretry_msg c') -> In x (c_pretry_msg c) \/ exists m, In m msgs /\ snd x = stamp now m;
  bs_res : match r with
           | None => msgs = [] /\ c_pcbs c' = c_pcbs c /\ c_packs c' = c_packs c
           | Some (h, ms) =>
               ms = map (stamp now) msgs /\
               c_packs c' = dset (seq_succ (c_seq_send c)) now (c_packs c) /\
               c_pcbs c' = match opt_list (map m_cb msgs) with
                           | [] => c_pcbs c
                           | cbs => dset (seq_succ (c_seq_send c)) cbs (c_pcbs c)
                           end
           end }.

Lemma fold_dset_In (now : Z) retr : forall d x,
  In x (fold_left (fun (d : list (Z * pmsg)) m => dset (m_seq m) m d) retr d) -> In x d \/ exists m, In m retr /\ snd x = m.
Proof.
  induction retr as [|m r IH]; intros d x Hx; cbn [fold_left] in Hx; [left; exact Hx|].
  destruct (IH _ _ Hx) as [H|(m' & H1 & H2)].
  - apply dset_In in H as [->|H]; [right; exists m; split; [left; reflexivity|reflexivity]|left; exact H].
  - right. exists m'. split; [right; exact H1|exact H2].
Qed.

Lemma build_impl_spec e c now ka delay c' r :
  no_unknown c -> build_impl e c now ka delay = (c', r) -> exists msgs, built_spec c c' now r msgs.
Proof.
  intros Hnu E. unfold build_impl in E.
  destruct (match c_pretry_msg c with [] => _ | _ => _ end) as [[prm msgs0] cur0] eqn:E0.
  assert (H0 : (forall x, In x prm -> In x (c_pretry_msg c)) /\ (forall m, In m msgs0 -> In m (map snd (c_pretry_msg c)))).
  { destruct (c_pretry_msg c) eqn:Ep; [injection E0 as <- <- <-; split; [intros x []|intros m []]|].
    destruct (retry_pass_sub _ _ _ _ _ _ _ _ _ _ E0) as [A B]. split; [exact A|].
    intros m Hm. destruct (B m Hm) as [[]|H]. apply sort_items_in. exact H. }
  destruct H0 as [Hprm Hm0].
  destruct (out_pass e (c_outgoing c) msgs0 cur0) as [[rem msgs] cu] eqn:E1.
  destruct (out_pass_sub _ _ _ _ _ _ _ E1) as (A & B & C & D).
  exists msgs.
  match type of E with (if ?b then _ else _) = _ => destruct b eqn:Hty end.
  - (* nothing to send: with no UNKNOWN-typed message this means nothing was selected *)
    injection E as <- <-.
    assert (Hnil : msgs = []).
    { destruct msgs as [|m0 msgs']; [reflexivity|]. exfalso.
      assert (Hu : m_type m0 <> UNKNOWN).
      { apply Hnu. destruct (D m0 (or_introl eq_refl)) as [H|H]; [right; apply Hm0; exact H|left; exact H]. }
      cbn in Hty. destruct (m_type m0); try discriminate. apply Hu. reflexivity. }
    subst msgs. constructor; cbn; auto; try (intros m []); intros m Hm; destruct (B m Hm) as [H|[]]; left; exact H.
  - injection E as <- <-.
    constructor.
    + intros m Hm. destruct (D m Hm) as [H|H]; [right; apply Hm0; exact H|left; exact H].
    + intros m Hm. repeat match goal with |- context [match ?x with [] => _ | _ :: _ => _ end] => destruct x end; cbn; apply B; exact Hm.
    + intros m Hm. apply A. repeat match type of Hm with context [match ?x with [] => _ | _ :: _ => _ end] => destruct x end; cbn in Hm; exact Hm.
    + repeat match goal with |- context [match ?x with [] => _ | _ :: _ => _ end] => destruct x end; reflexivity.
    + intros x Hx.
      assert (Hx' : In x (fold_left (fun d m => dset (m_seq m) m d)
                            (filter (fun m => negb (retry_is_none (m_retry m))) (map (stamp now) msgs)) prm)).
      { repeat match type of Hx with context [match ?x with [] => _ | _ :: _ => _ end] => destruct x end; cbn in Hx; exact Hx. }
      destruct (fold_dset_In now _ _ _ Hx') as [H|(m & H1 & H2)]; [left; apply Hprm; exact H|right].
      apply filter_In in H1 as [H1 _]. apply in_map_iff in H1 as (m' & <- & Hm'). exists m'. auto.
    + split; [reflexivity|].
      repeat match goal with |- context [match ?x with [] => _ | _ :: _ => _ end] => destruct x eqn:? end; cbn; auto.
Qed.

Lemma AInv_fresh S K c n : AInv S K c n -> ~ In (seq_succ (c_seq_send c)) (map fst (c_packs c)).
Proof.
  intros [[H1 H2 H3 H3' H4 H5 H6 H7] Hp].
  rewrite H2, seq_succ_index by exact H1. unfold seq_of_index. assert (n + 1 =? 0 = false) as -> by lia.
  intros Hin. apply in_map_iff in Hin as ([s t] & Hs & Hin). cbn in Hs.
  rewrite Forall_forall in H5. destruct (H5 _ Hin) as (i & I1 & I2 & I3). cbn in I2, I3.
  unfold purged in Hp. rewrite Forall_forall in Hp. pose proof (Hp _ Hin) as Hpu. cbn in Hpu.
  apply (wire_neq_near i (n + 1)); [|congruence].
  assert ((n - i) * S <= c_out_timeout c) by lia. unfold RING in *. nia.
Qed.

Lemma opt_list_In {A} (l : list (option A)) x : In (Some x) l -> In x (opt_list l).
Proof.
  induction l as [|a l IH]; intros H; [destruct H|]. destruct H as [->|H]; cbn.
  - left. reflexivity.
  - destruct a; [right|]; apply IH; exact H.
Qed.

Lemma In_opt_list {A} (l : list (option A)) x : In x (opt_list l) -> In (Some x) l.
Proof.
  induction l as [|a l IH]; intros H; [destruct H|]. cbn in H. destruct a.
  - destruct H as [->|H]; [left; reflexivity|right; apply IH; exact H].
  - right. apply IH. exact H.
Qed.

Lemma keys_dset {A} k (v : A) d x : In x (map fst d) -> In x (map fst (dset k v d)).
Proof.
  induction d as [|[k' v'] r IH]; cbn [dset map fst In]; intros H; [destruct H|].
  destruct (k =? k') eqn:E; cbn [map fst In].
  - destruct H as [H|H]; [left; lia|right; exact H].
  - destruct H as [H|H]; [left; exact H|right; apply IH; exact H].
Qed.

Lemma key_dset_self {A} k (v : A) d : In k (map fst (dset k v d)).
Proof.
  induction d as [|[k' v'] r IH]; cbn [dset map fst In]; [left; reflexivity|].
  destruct (k =? k'); cbn [map fst In]; [left; reflexivity|right; exact IH].
Qed.

Lemma build_impl_Custody K e S Ka c n now ka delay c' r :
  NU c -> AInv S Ka c n -> Custody K c -> build_impl e c now ka delay = (c', r) -> Custody K c'.
Proof.
  intros HN HA HC E. pose proof (AInv_fresh _ _ _ _ HA) as Hnew.
  destruct (build_impl_spec _ _ _ _ _ _ _ (NU_no_unknown _ HN) E) as (msgs & [B1 B2 B3 B4 B5 B6]).
  destruct HC as [H|[(m & Hm & Hk)|(s' & ks & H1 & H2 & H3)]].
  - left. unfold is_done. rewrite B4. exact H.
  - destruct (B2 m Hm) as [Hq|Hsel]; [right; left; exists m; auto|].
    right. right. destruct r as [[h ms]|]; [|destruct B6 as (-> & _); destruct Hsel].
    destruct B6 as (_ & P & C).
    assert (HK : In K (opt_list (map m_cb msgs))) by (apply opt_list_In; rewrite <- Hk; apply in_map; exact Hsel).
    exists (seq_succ (c_seq_send c)), (opt_list (map m_cb msgs)).
    rewrite C, P. destruct (opt_list (map m_cb msgs)) as [|k0 cbs] eqn:Ec; [destruct HK|].
    split; [rewrite dget_dset, Z.eqb_refl; reflexivity|]. split; [exact HK|apply key_dset_self].
  - right. right. exists s', ks.
    assert (Hne : s' <> seq_succ (c_seq_send c)) by (intros ->; exact (Hnew H3)).
    destruct r as [[h ms]|].
    + destruct B6 as (_ & P & C). rewrite C, P.
      split; [|split; [exact H2|apply keys_dset; exact H3]].
      destruct (opt_list (map m_cb msgs)); [exact H1|]. rewrite dget_dset. assert (s' =? seq_succ (c_seq_send c) = false) as -> by lia. exact H1.
    + destruct B6 as (_ & C & P). rewrite C, P. auto.
Qed.

Lemma stamp_msg_ok now m : msg_ok m -> msg_ok (stamp now m).
Proof. intros H. exact H. Qed.

Lemma build_impl_NU e c now ka delay c' r : NU c -> build_impl e c now ka delay = (c', r) -> NU c'.
Proof.
  intros HN E. destruct (build_impl_spec _ _ _ _ _ _ _ (NU_no_unknown _ HN) E) as (msgs & [B1 B2 B3 B4 B5 B6]).
  destruct HN as [A B D]. rewrite Forall_forall in A, B.
  assert (Hmsgs : forall m, In m msgs -> msg_ok m).
  { intros m Hm. destruct (B1 m Hm) as [H|H]; [apply A; exact H|].
    apply in_map_iff in H as (x & <- & Hx). exact (B _ Hx). }
  constructor.
  - apply Forall_forall. intros m Hm. apply A. apply B3. exact Hm.
  - apply Forall_forall. intros x Hx. destruct (B5 x Hx) as [H|(m & H1 & H2)]; [exact (B _ H)|].
    rewrite H2. apply stamp_msg_ok. apply Hmsgs. exact H1.
  - destruct r as [[h ms]|]; [|destruct B6 as (_ & -> & _); exact D].
    destruct B6 as (_ & _ & ->). destruct (opt_list (map m_cb msgs)) as [|k0 cbs] eqn:Ec; [exact D|].
    apply Forall_dset; [exact D|]. cbn. apply Forall_forall. intros k Hk. rewrite <- Ec in Hk.
    apply In_opt_list in Hk. apply in_map_iff in Hk as (m & Hk & Hm). exact (proj2 (Hmsgs m Hm) k Hk).
Qed.

Lemma build_packet_CN K e S Ka c n now c' r :
  NU c -> AInv S Ka c n -> Custody K c -> build_packet e c now = (c', r) -> Custody K c' /\ NU c'.
Proof.
  intros HN HA HC E. unfold build_packet in E. destruct (_ <? _); [injection E as <- <-; auto|].
  destruct (build_impl e c now _ _) as [c1 r1] eqn:E1.
  pose proof (build_impl_Custody K _ _ _ _ _ _ _ _ _ _ HN HA HC E1) as C1. pose proof (build_impl_NU _ _ _ _ _ _ _ HN E1) as N1.
  destruct r1; injection E as <- <-; (split; [|eapply NU_upd; [| | |exact N1]; reflexivity]); [|exact C1].
  eapply Custody_same; [| | | |exact C1]; cbn; auto.
Qed.

(* ---------- every event ---------- *)
Definition cust_rel (a b : conn) : Prop :=
  (forall m, In m (c_outgoing a) -> In m (c_outgoing b)) /\ c_done b = c_done a /\ c_pcbs b = c_pcbs a /\ c_packs b = c_packs a.

Lemma cust_rel_Custody K a b : cust_rel a b -> Custody K a -> Custody K b.
Proof. intros (O & D & P & A). apply Custody_same; assumption. Qed.

Lemma recv_msgs_cust ms c now orcs c' o : recv_msgs c now ms orcs = (c', o) -> cust_rel c c'.
Proof.
  apply (recv_msgs_rel cust_rel).
  - intros a. repeat split; auto.
  - intros a b d (A1 & A2 & A3 & A4) (B1 & B2 & B3 & B4). repeat split; auto; congruence.
  - intros a bf. repeat split; auto.
  - intros a s p. repeat split; auto.
  - intros a n s p a' o' Ef. unfold recv_fragment in Ef. destruct (_ <? _)%nat; [injection Ef as <- <-; repeat split; auto|].
    injection Ef as <- <-. destruct (fr_complete _); repeat split; auto.
  - intros a. repeat split; auto.
  - intros a ty oo a' os Eh. unfold recv_handshake in Eh.
    destruct ty, (c_server a); try (injection Eh as <- <-; repeat split; auto).
    + destruct (negb _); [injection Eh as <- <-; repeat split; auto|].
      destruct (negb _); injection Eh as <- <-; [repeat split; auto|].
      unfold send_type. repeat split; cbn; auto. intros m Hm. apply in_or_app. left. exact Hm.
    + destruct (o_parse oo =? 6); [injection Eh as <- <-; repeat split; auto|].
      destruct (negb _); injection Eh as <- <-; [repeat split; auto|].
      unfold send_type. repeat split; cbn; auto. intros m Hm. apply in_or_app. left. exact Hm.
    + destruct (negb _); [injection Eh as <- <-; repeat split; auto|].
      destruct (o_temp_token oo) as [t|]; [|injection Eh as <- <-; repeat split; auto].
      destruct (t =? o_token oo); injection Eh as <- <-; repeat split; auto.
Qed.

Lemma recv_CN K c now d orcs c' o : rid_of K <> -1 -> NU c -> Custody K c -> recv c now d orcs = (c', o) -> Custody K c' /\ NU c'.
Proof.
  unfold recv. intros Hr HN HC E.
  assert (Hd : forall c1, c_outgoing c1 = c_outgoing c -> c_done c1 = c_done c -> c_pcbs c1 = c_pcbs c -> c_packs c1 = c_packs c ->
                          c_pretry_msg c1 = c_pretry_msg c -> Custody K c1 /\ NU c1).
  { intros c1 O D P A M. split; [eapply Custody_same; [| | | |exact HC]; auto; intros m; rewrite O; auto|eapply NU_upd; [| | |exact HN]; auto]. }
  destruct (keyless_refuses c (d_hdr d)); [injection E as <- <-; apply Hd; reflexivity|].
  destruct (open_dgram (c_key c) d) as [ms|]; [|injection E as <- <-; apply Hd; reflexivity].
  destruct (bf_insert (c_bf_pkt c) _) as [bf|]; [|injection E as <- <-; apply Hd; reflexivity].
  match type of E with context [handle_ack_bits ?c0 _] => set (cc := c0) in E end.
  destruct (Hd cc) as [Ccc Ncc]; try reflexivity.
  destruct (handle_ack_bits cc (d_hdr d)) as [c1 o1] eqn:E1.
  destruct (recv_msgs c1 now ms orcs) as [c2 o2] eqn:E2. injection E as <- <-.
  unfold handle_ack_bits in E1.
  pose proof (ack_loop_Custody K _ _ _ _ _ Hr Ccc E1) as C1. pose proof (ack_loop_NU _ _ _ _ _ Ncc E1) as N1.
  split; [eapply cust_rel_Custody; [eapply recv_msgs_cust; exact E2|exact C1]|eapply recv_msgs_NU; eassumption].
Qed.

Definition W (S Ka : Z) (c : conn) : Prop := NU c /\ exists n, AInv S Ka c n.

Theorem step_Custody e S Ka K c x c' o :
  rid_of K <> -1 -> ev_open x -> W S Ka c -> Custody K c -> step e c x = (c', o) -> W S Ka c' /\ Custody K c'.
Proof.
  intros Hr Hop [HN [n HA]] HC E.
  destruct (step_AInv _ _ _ _ _ _ _ _ Hop HA E) as (n' & HA').
  assert (Hsame : forall c1, c_outgoing c1 = c_outgoing c -> c_done c1 = c_done c -> c_pcbs c1 = c_pcbs c -> c_packs c1 = c_packs c ->
                          c_pretry_msg c1 = c_pretry_msg c -> Custody K c1 /\ NU c1).
  { intros c1 O D P A M. split; [eapply Custody_same; [| | | |exact HC]; auto; intros m; rewrite O; auto|eapply NU_upd; [| | |exact HN]; auto]. }
  assert (Hgoal : Custody K c' /\ NU c' -> W S Ka c' /\ Custody K c') by (intros [A B]; split; [split; [exact B|exists n'; exact HA']|exact A]).
  apply Hgoal. clear Hgoal.
  destruct x; cbn [step] in E; cbn [ev_open] in Hop.
  - split; [eapply send_Custody; eassumption|eapply send_NU; eassumption].
  - unfold client_tick in E.
    destruct (client_update c now) as [c0 o0] eqn:E0.
    assert (H0 : (Custody K c0 /\ NU c0) /\ AInv S Ka c0 n).
    { split.
      - unfold client_update in E0.
        destruct (_ && (now >? _)); destruct (_ && (_ >? c_temp_timeout _)); injection E0 as <- <-; apply Hsame; reflexivity.
      - destruct HA as [H0 Hp]. pose proof (client_update_ack _ _ _ _ E0) as B. apply client_update_frame in E0 as (A & _).
        split; [eapply AInv0_same; eassumption|eapply purged_same; eassumption]. }
    destruct H0 as [[C0 N0] A0].
    destruct (status_eqb (c_status c0) DROPPED); [injection E as <- <-; auto|].
    match type of E with context [match ?y with (_, _) => _ end] => destruct y as [c1 o1] eqn:E1 end.
    assert (H1 : (Custody K c1 /\ NU c1) /\ AInv S Ka c1 n).
    { destruct r as [|er|d orcs]; try (injection E1 as <- <-; auto).
      destruct (recv c0 now d orcs) as [c'' o''] eqn:Er. injection E1 as <- <-.
      split; [eapply recv_CN; eassumption|eapply recv_AInv; eassumption]. }
    destruct H1 as [[C1 N1] A1].
    destruct (raised o1); [injection E as <- <-; auto|].
    destruct (_ >? _); [|injection E as <- <-; auto].
    destruct (build_packet e c1 now) as [c2 pk] eqn:E2.
    destruct (check_timeout false c2 now) as [c3 o3] eqn:E3. injection E as <- <-.
    destruct (build_packet_CN K _ _ _ _ _ _ _ _ N1 A1 C1 E2) as [C2 N2].
    unfold check_timeout in E3. split; [eapply timeout_loop_Custody; eassumption|eapply timeout_loop_NU; eassumption].
  - unfold server_tick in E. destruct (_ >? _); [|injection E as <- <-; auto].
    destruct (build_packet e c now) as [c1 pk] eqn:E1.
    destruct (check_timeout true c1 now) as [c2 o2] eqn:E2. injection E as <- <-.
    destruct (build_packet_CN K _ _ _ _ _ _ _ _ HN HA HC E1) as [C1 N1].
    unfold check_timeout in E2. split; [eapply timeout_loop_Custody; eassumption|eapply timeout_loop_NU; eassumption].
  - eapply recv_CN; eassumption.
  - destruct Hop.
  - injection E as <- <-. destruct Hop as [->| ->]; apply Hsame; reflexivity.
  - injection E as <- <-. unfold client_hello. split.
    + eapply Custody_same; [| | | |exact HC]; unfold send_type; cbn; auto. intros m Hm. apply in_or_app. left. exact Hm.
    + eapply NU_upd; [| | |apply (send_type_NU c CLIENT_HELLO hello RNone IHello); [discriminate|exact HN]]; reflexivity.
  - injection E as <- <-. apply Hsame; reflexivity.
  - injection E as <- <-. apply Hsame; reflexivity.
Qed.

Theorem run_Custody e S Ka K xs : forall c c' oss,
  rid_of K <> -1 -> all_open xs -> W S Ka c -> Custody K c -> run e c xs = (c', oss) -> W S Ka c' /\ Custody K c'.
Proof.
  induction xs as [|x r IH]; intros c c' oss Hr Hop HW HC E; cbn [run] in E.
  - injection E as <- <-. auto.
  - destruct Hop as [Hx Hr']. destruct (step e c x) as [c1 o] eqn:E1. destruct (run e c1 r) as [c2 os] eqn:E2.
    injection E as <- <-. destruct (step_Custody _ _ _ _ _ _ _ _ Hr Hx HW HC E1) as [W1 C1]. eapply IH; eassumption.
Qed.

Lemma W_conn0 S b : 0 < S -> S <= 256 -> TICKS < (RING - 1) * S -> W S 0 (conn0 b).
Proof. intros. split; [constructor; constructor|exists 0; apply AInv_conn0; assumption]. Qed.
