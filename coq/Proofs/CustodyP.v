(* CustodyP.v — C05 (safety half) / C07 (at least once): a guaranteed message is never dropped
   by the sender while the connection is open.  Its RetrySender callback K is, at every moment,
   either done (acknowledged), or attached to a queued message, or registered for a datagram that
   is still pending — from which it is re-queued when that datagram times out. *)
From Coq Require Import Lia ZifyBool.
From RecordUpdate Require Import RecordUpdate.
From Model Require Import Base SeqNum Wire Conn.
From Proofs Require Import Tac SeqNumP ConnFrameP NonceP PackP ClearP AckP CallbackP.
Import RecordSetNotations.
Open Scope Z_scope.

Definition rid_of (k : cb) : Z := match k with Retry rid _ _ _ _ => rid | Plain _ => -1 end.

Definition queued (K : cb) (c : conn) : Prop := exists m, In m (c_outgoing c) /\ m_cb m = Some K.
Definition registered (K : cb) (c : conn) : Prop :=
  exists s ks, dget s (c_pcbs c) = Some ks /\ In K ks /\ In s (map fst (c_packs c)).
Definition is_done (K : cb) (c : conn) : Prop := zmem (rid_of K) (c_done c) = true.

Definition Custody (K : cb) (c : conn) : Prop := is_done K c \/ queued K c \/ registered K c.

(* what the callback machinery may do to the fields custody looks at *)
Record grows (c c' : conn) : Prop := {
  g_out : forall m, In m (c_outgoing c) -> In m (c_outgoing c');
  g_done : forall r, zmem r (c_done c) = true -> zmem r (c_done c') = true;
  g_pcbs : c_pcbs c' = c_pcbs c;
  g_packs : c_packs c' = c_packs c }.
Lemma grows_refl c : grows c c. Proof. constructor; auto. Qed.
Lemma grows_trans a b c : grows a b -> grows b c -> grows a c.
Proof. intros [A1 A2 A3 A4] [B1 B2 B3 B4]. constructor; auto; congruence. Qed.

Lemma grows_Custody K c c' : grows c c' -> Custody K c -> Custody K c'.
Proof.
  intros [G1 G2 G3 G4] [H|[(m & Hm & Hk)|(s & ks & H1 & H2 & H3)]].
  - left. apply G2. exact H.
  - right. left. exists m. auto.
  - right. right. exists s, ks. rewrite G3, G4. auto.
Qed.

Lemma zmem_cons x y l : zmem x (y :: l) = (x =? y) || zmem x l.
Proof. reflexivity. Qed.

Lemma fire_icb_grows c k ok c' o : fire_icb c k ok = (c', o) -> grows c c'.
Proof.
  unfold fire_icb. intros E. destruct k; try (injection E as <- <-; apply grows_refl).
  destruct (dget fid (c_pfrags c)); [|injection E as <- <-; apply grows_refl].
  destruct (forallb is_some _); injection E as <- <-; constructor; cbn; auto.
Qed.

Definition requeue (k : cb) : pmsg :=
  match k with
  | Retry rid mseq ty p i => {| m_seq := mseq; m_type := ty; m_payload := p; m_cb := Some k; m_retry := RTimeout; m_atime := 0 |}
  | Plain _ => {| m_seq := 0; m_type := UNKNOWN; m_payload := []; m_cb := None; m_retry := RNone; m_atime := 0 |}
  end.

(* firing one callback: everything grows; if it is K itself, K ends up done or queued *)
Lemma fire_cb_grows c k ok c' o : fire_cb c k ok = (c', o) ->
  grows c c' /\ (forall K, k = K -> rid_of K <> -1 -> is_done K c' \/ queued K c').
Proof.
  unfold fire_cb. intros E. destruct k as [i|rid mseq ty p i].
  - split; [eapply fire_icb_grows; exact E|]. intros K <- H. cbn in H. lia.
  - destruct (zmem rid (c_done c)) eqn:Ed.
    + injection E as <- <-. split; [apply grows_refl|]. intros K <- _. left. exact Ed.
    + destruct (negb ok).
      * injection E as <- <-. split.
        -- constructor; cbn; auto. intros m Hm. apply in_or_app. left. exact Hm.
        -- intros K <- _. right. eexists. split; [cbn; apply in_or_app; right; left; reflexivity|reflexivity].
      * apply fire_icb_grows in E as G. split.
        -- eapply grows_trans; [|exact G]. constructor; cbn; auto.
           intros r Hr. unfold zmem in *. cbn [existsb]. rewrite Hr. apply orb_true_r.
        -- intros K <- _. left. destruct G as [_ G2 _ _]. apply G2. unfold zmem. cbn [rid_of c_done existsb]. cbn. rewrite Z.eqb_refl. reflexivity.
Qed.

Lemma fire_all_grows ks : forall c ok c' o, fire_all c ks ok = (c', o) ->
  grows c c' /\ (forall K, In K ks -> rid_of K <> -1 -> is_done K c' \/ queued K c').
Proof.
  induction ks as [|k ks IH]; intros c ok c' o E; cbn [fire_all] in E.
  - injection E as <- <-. split; [apply grows_refl|intros K []].
  - destruct (fire_cb c k ok) as [c1 o1] eqn:E1. destruct (fire_all c1 ks ok) as [c2 o2] eqn:E2.
    injection E as <- <-. destruct (fire_cb_grows _ _ _ _ _ E1) as [G1 F1]. destruct (IH _ _ _ _ E2) as [G2 F2].
    split; [eapply grows_trans; eassumption|].
    intros K [<-|Hin] Hr; [|apply F2; assumption].
    destruct (F1 _ eq_refl Hr) as [H|(m & Hm & Hk)].
    + left. destruct G2 as [_ G _ _]. apply G. exact H.
    + right. exists m. destruct G2 as [G _ _ _]. auto.
Qed.

Lemma ddel_dget_other {A} k k' (d : list (Z * A)) : k' <> k -> dget k' (ddel k d) = dget k' d.
Proof. intros H. rewrite dget_ddel. assert (k' =? k = false) as -> by lia. reflexivity. Qed.

Lemma in_keys_ddel {A} k k' (d : list (Z * A)) : k' <> k -> In k' (map fst d) -> In k' (map fst (ddel k d)).
Proof.
  intros Hne Hin. apply in_map_iff in Hin as (x & Hx & Hin). apply in_map_iff. exists x. split; [exact Hx|].
  apply In_ddel; [exact Hin|congruence].
Qed.

(* resolving datagram s keeps custody *)
Lemma resolve_Custody K ok c s c' o : rid_of K <> -1 -> Custody K c -> resolve ok c s = (c', o) -> Custody K c'.
Proof.
  intros Hr HC E. unfold resolve in E.
  set (c0 := if ok then _ else _) in E.
  assert (G0 : grows c c0) by (subst c0; destruct ok; constructor; cbn; auto).
  apply (grows_Custody _ _ _ G0) in HC.
  assert (Hfin : forall c1, Custody K c1 -> (registered K c1 -> exists s' ks, dget s' (c_pcbs c1) = Some ks /\ In K ks /\ In s' (map fst (c_packs c1)) /\ s' <> s) ->
            forall c2, c_outgoing c2 = c_outgoing c1 -> c_done c2 = c_done c1 -> c_pcbs c2 = ddel s (c_pcbs c1) ->
                       c_packs c2 = ddel s (c_packs c1) -> Custody K c2).
  { intros c1 [H|[(m & Hm & Hk)|Hreg]] Hne c2 O D P A.
    - left. unfold is_done. rewrite D. exact H.
    - right. left. exists m. rewrite O. auto.
    - right. right. destruct (Hne Hreg) as (s' & ks & H1 & H2 & H3 & H4). exists s', ks.
      rewrite P, A, ddel_dget_other by exact H4. split; [exact H1|]. split; [exact H2|]. apply in_keys_ddel; assumption. }
  destruct (dget s (c_pcbs c0)) as [ks|] eqn:Eg.
  - destruct (fire_all c0 ks ok) as [c1 o1] eqn:E1. destruct (fire_all_grows _ _ _ _ _ E1) as [G1 F1].
    injection E as <- <-.
    (* custody after the callbacks: if K was registered at s it is now done or queued *)
    assert (HC1 : Custody K c1 /\ (registered K c1 -> is_done K c1 \/ queued K c1 \/
                    exists s' ks', dget s' (c_pcbs c1) = Some ks' /\ In K ks' /\ In s' (map fst (c_packs c1)) /\ s' <> s)).
    { pose proof (grows_Custody _ _ _ G1 HC) as HC1. split; [exact HC1|]. intros _.
      destruct HC as [H|[(m & Hm & Hk)|(s' & ks' & H1 & H2 & H3)]].
      - left. destruct G1 as [_ G _ _]. apply G. exact H.
      - right. left. exists m. destruct G1 as [G _ _ _]. auto.
      - destruct (Z.eq_dec s' s) as [->|Hne].
        + rewrite Eg in H1. injection H1 as <-. destruct (F1 _ H2 Hr) as [H|H]; auto.
        + right. right. exists s', ks'. destruct G1 as [_ _ G3 G4]. rewrite G3, G4. auto. }
    destruct HC1 as [HC1 Hreg].
    assert (HC1' : is_done K c1 \/ queued K c1 \/
              exists s' ks', dget s' (c_pcbs c1) = Some ks' /\ In K ks' /\ In s' (map fst (c_packs c1)) /\ s' <> s).
    { destruct HC1 as [H|[H|H]]; auto. }
    destruct HC1' as [H|[(m & Hm & Hk)|(s' & ks' & H1 & H2 & H3 & H4)]].
    + left. unfold is_done. destruct (dget s (c_pretry c1)); cbn; exact H.
    + right. left. exists m. destruct (dget s (c_pretry c1)); cbn; auto.
    + right. right. exists s', ks'. destruct (dget s (c_pretry c1)); cbn; fold (ddel s (c_pcbs c1)); fold (ddel s (c_packs c1));
        (rewrite ddel_dget_other by exact H4; split; [exact H1|split; [exact H2|apply in_keys_ddel; assumption]]).
  - injection E as <- <-.
    destruct HC as [H|[(m & Hm & Hk)|(s' & ks' & H1 & H2 & H3)]].
    + left. unfold is_done. destruct (dget s (c_pretry c0)); cbn; exact H.
    + right. left. exists m. destruct (dget s (c_pretry c0)); cbn; auto.
    + assert (Hne : s' <> s) by (intros ->; rewrite Eg in H1; discriminate).
      right. right. exists s', ks'. destruct (dget s (c_pretry c0)); cbn; fold (ddel s (c_packs c0));
        (split; [exact H1|split; [exact H2|apply in_keys_ddel; assumption]]).
Qed.
