(* HsRunP.v — C02 at run level: invariants of the joint handshake history of Model/HsNet.v.

   Part 1 is a proof rule for Handshake.hstep: a predicate over (endpoint state, handshake log) that
   survives (a) every change of the connection that leaves key / role / token alone and does not
   newly reach CONNECTED and (b) one handshake message (Handshake.hs_step + Handshake.note, the
   message appended to the log) survives every event, with the log of that event appended.
   Parts 2-3 instantiate it for the client (authentication) and the server-side connection
   (key / token / connect), part 4 joins the two endpoints. *)
From Coq Require Import Lia ZifyBool.
From RecordUpdate Require Import RecordUpdate.
From Model Require Import Base SeqNum Wire Conn Handshake Net HsNet.
From Proofs Require Import Tac ConnFrameP ClearP HandshakeP.
Import RecordSetNotations.
Open Scope Z_scope.

(* the changes that are not the handshake's: key, role, token stay, CONNECTED is not newly reached *)
Definition qrel (c c' : conn) : Prop :=
  c_key c' = c_key c /\ c_server c' = c_server c /\ c_token c' = c_token c /\
  (c_status c' = CONNECTED -> c_status c = CONNECTED).

Lemma qrel_refl c : qrel c c. Proof. repeat split; auto. Qed.
Lemma qrel_trans a b c : qrel a b -> qrel b c -> qrel a c.
Proof. unfold qrel. intros (A1 & A2 & A3 & A4) (B1 & B2 & B3 & B4). repeat split; try congruence. auto. Qed.
Lemma same_st_qrel c c' : same_st c c' -> qrel c c'.
Proof. intros [(A & B & C) D]. repeat split; auto. congruence. Qed.
Lemma same_qrel c c' : same c c' -> (c_status c' = CONNECTED -> c_status c = CONNECTED) -> qrel c c'.
Proof. intros (A & B & C) D. repeat split; auto. Qed.

Lemma olast_app_one {A} (l : list A) x : last (map Some (l ++ [x])) None = Some x.
Proof. rewrite map_app. cbn. apply last_last. Qed.

Section Run.
  Variable SIG : Type.
  Variable pub : Z -> Z.
  Variable sign : Z -> sh_payload -> SIG.
  Variable verify : Z -> SIG -> sh_payload -> bool.
  Variable dh : Z -> Z -> Z.
  Variable kdf : Z -> Z -> Z.
  Variable parse : list byte -> hmsg SIG.
  Variable ser_shello : Z -> sh_payload -> SIG -> list byte.
  Variable ser_chal : Z -> list byte.

  Notation hstate := (hstate SIG).
  Notation hmsg := (hmsg SIG).
  Notation hentry := (hentry SIG).
  Notation jentry := (jentry SIG).
  Notation hnet := (hnet SIG).
  Notation oracle_of := (oracle_of SIG pub sign verify dh kdf ser_shello ser_chal).
  Notation hs_step := (hs_step SIG pub sign verify dh kdf ser_shello ser_chal).
  Notation hwalk := (hwalk SIG pub sign verify dh kdf parse ser_shello ser_chal).
  Notation hrecv := (hrecv SIG pub sign verify dh kdf parse ser_shello ser_chal).
  Notation hstep := (hstep SIG pub sign verify dh kdf parse ser_shello ser_chal).
  Notation hmsg1 := (hmsg1 SIG pub sign verify dh kdf parse ser_shello ser_chal).
  Notation lwalk := (lwalk SIG pub sign verify dh kdf parse ser_shello ser_chal).
  Notation recv_log := (recv_log SIG pub sign verify dh kdf parse ser_shello ser_chal).
  Notation ev_log := (ev_log SIG pub sign verify dh kdf parse ser_shello ser_chal).
  Notation tag_log := (tag_log SIG pub sign verify dh kdf parse ser_shello ser_chal).
  Notation jstep := (jstep SIG pub sign verify dh kdf parse ser_shello ser_chal).
  Notation jrun := (jrun SIG pub sign verify dh kdf parse ser_shello ser_chal).
  Notation note := (note SIG).
  Notation with_bf := (with_bf SIG).

  (* ---------- part 1: the proof rule ---------- *)

  Lemma oracle_of_with_bf (s : hstate) bf ty m : oracle_of (with_bf s bf) ty m = oracle_of s ty m.
  Proof. destruct s as [c ? ? ? ? ? ? ?]. destruct c. reflexivity. Qed.

  Lemma note_with_bf (s : hstate) bf ty m o c1 o1 : note (with_bf s bf) ty m o c1 o1 = note s ty m o c1 o1.
  Proof. destruct s as [c ? ? ? ? ? ? ?]. unfold Handshake.note, HsNet.with_bf. cbn. reflexivity. Qed.

  Lemma hwalk_cons (s : hstate) now m r :
    hwalk s now (m :: r) =
    match bf_insert (c_bf_msg (h_conn s)) (w_seq m) with
    | Err _ => let '(s', out, orcs) := hwalk s now r in
               (s', out, if is_hs (w_type m) then oracle_of s (w_type m) (parse (w_payload m)) :: orcs else orcs)
    | Ok bf =>
        let '(s1, o1) := hmsg1 s now m bf in
        if raised o1 then (s1, o1, if is_hs (w_type m) then [oracle_of s (w_type m) (parse (w_payload m))] else [])
        else let '(s2, o2, orcs) := hwalk s1 now r in
             (s2, o1 ++ o2, if is_hs (w_type m) then oracle_of s (w_type m) (parse (w_payload m)) :: orcs else orcs)
    end.
  Proof.
    cbn [Handshake.hwalk]. destruct (bf_insert (c_bf_msg (h_conn s)) (w_seq m)) as [bf|]; [|reflexivity].
    unfold HsNet.hmsg1.
    match goal with |- context [let '(c1, o1) := ?X in _] => destruct X as [c1 o1] end.
    reflexivity.
  Qed.

  (* one handshake-typed message is hs_step in the state with_bf s bf, followed by note *)
  Lemma hmsg1_hs (s : hstate) now m bf : is_hs (w_type m) = true ->
    hmsg1 s now m bf =
    let sb := with_bf s bf in
    let hm := parse (w_payload m) in
    let '(c1, o1) := hs_step sb (w_type m) hm in
    (note sb (w_type m) hm (oracle_of sb (w_type m) hm) c1 o1, o1).
  Proof.
    intros Hs. unfold HsNet.hmsg1, Handshake.hs_step. cbv zeta.
    rewrite oracle_of_with_bf.
    change (h_conn (with_bf s bf)) with ((h_conn s) <| c_bf_msg := bf |>).
    destruct (w_type m); try discriminate Hs; cbn [is_hs];
      destruct (recv_handshake _ _ _) as [c1 o1]; rewrite note_with_bf; reflexivity.
  Qed.

  (* any other message changes the connection by qrel only *)
  Lemma hmsg1_other (s : hstate) now m bf : is_hs (w_type m) = false ->
    exists c1, fst (hmsg1 s now m bf) = s <| h_conn := c1 |> /\ qrel (h_conn s) c1.
  Proof.
    intros Hs. unfold HsNet.hmsg1. cbv zeta.
    assert (Q0 : qrel (h_conn s) ((h_conn s) <| c_bf_msg := bf |>)) by (repeat split; auto).
    destruct (w_type m); try discriminate Hs; cbn [is_hs fst].
    - eexists; split; [reflexivity|exact Q0].
    - eexists; split; [reflexivity|exact Q0].
    - eexists; split; [reflexivity|]. repeat split; auto. cbn. discriminate.
    - eexists; split; [reflexivity|]. repeat split; auto.
    - destruct (recv_fragment_same ((h_conn s) <| c_bf_msg := bf |>) now (w_seq m) (w_payload m)) as [S _].
      destruct (recv_fragment _ now (w_seq m) (w_payload m)) as [c1 o1]. cbn [fst] in *.
      eexists; split; [reflexivity|]. eapply qrel_trans; [exact Q0|apply same_st_qrel; exact S].
  Qed.

  Section Rule.
    Variable R : hstate -> list hentry -> Prop.     (* state and log so far *)
    Variable Pm : hmsg -> Prop.                     (* what is known of the messages presented *)
    Hypothesis R_q : forall (s : hstate) g c', qrel (h_conn s) c' -> R s g -> R (s <| h_conn := c' |>) g.
    Hypothesis R_hs : forall (s : hstate) g ty hm c1 o1, is_hs ty = true -> Pm hm -> R s g ->
      hs_step s ty hm = (c1, o1) -> R (note s ty hm (oracle_of s ty hm) c1 o1) (g ++ [(s, ty, hm)]).

    Lemma R_same (s : hstate) g : R s g -> R (s <| h_conn := h_conn s |>) g.
    Proof. apply R_q. apply qrel_refl. Qed.

    Lemma hwalk_R now ms : forall (s : hstate) g s' o orcs,
      Forall (fun w => Pm (parse (w_payload w))) ms -> R s g ->
      hwalk s now ms = (s', o, orcs) -> R s' (g ++ lwalk s now ms).
    Proof.
      induction ms as [|m r IH]; intros s g s' o orcs HP HR H.
      - inversion H; subst. cbn. rewrite app_nil_r. exact HR.
      - inversion HP as [|? ? Pm1 HP']; subst. rewrite hwalk_cons in H. cbn [HsNet.lwalk].
        destruct (bf_insert (c_bf_msg (h_conn s)) (w_seq m)) as [bf|].
        2:{ destruct (hwalk s now r) as [[s1 o1] orcs1] eqn:W. inversion H; subst. eapply IH; eauto. }
        destruct (hmsg1 s now m bf) as [s1 o1] eqn:M1.
        assert (R1 : R s1 (g ++ (if is_hs (w_type m) then [(with_bf s bf, w_type m, parse (w_payload m))] else []))).
        { destruct (is_hs (w_type m)) eqn:Hs.
          - rewrite (hmsg1_hs _ _ _ _ Hs) in M1. cbv zeta in M1.
            destruct (hs_step (with_bf s bf) (w_type m) (parse (w_payload m))) as [c1 o1'] eqn:St.
            inversion M1; subst. apply R_hs; auto.
            unfold HsNet.with_bf. apply R_q; [repeat split; auto|exact HR].
          - destruct (hmsg1_other s now m bf Hs) as (c1 & E1 & Q1). rewrite M1 in E1. cbn in E1. subst s1.
            rewrite app_nil_r. apply R_q; auto. }
        destruct (raised o1).
        + inversion H; subst. exact R1.
        + destruct (hwalk s1 now r) as [[s2 o2] orcs2] eqn:W. inversion H; subst.
          rewrite app_assoc. eapply IH; eauto.
    Qed.

    Lemma hrecv_R (s : hstate) g now d s' o :
      (forall m, msg_in SIG parse d m -> Pm m) -> R s g -> hrecv s now d = (s', o) -> R s' (g ++ recv_log s now d).
    Proof.
      intros HP HR H. unfold Handshake.hrecv in H. unfold HsNet.recv_log.
      assert (Drop : R (s <| h_conn := (h_conn s) <| c_dropped := c_dropped (h_conn s) + 1 |> |>) (g ++ [])).
      { rewrite app_nil_r. apply R_q; [repeat split; auto|exact HR]. }
      destruct (keyless_refuses (h_conn s) (d_hdr d)); [inversion H; subst; exact Drop|].
      destruct (open_dgram (c_key (h_conn s)) d) as [ms|] eqn:OD; [|inversion H; subst; exact Drop].
      destruct (bf_insert (c_bf_pkt (h_conn s)) (h_seq (d_hdr d))) as [bf|]; [|inversion H; subst; exact Drop].
      match type of H with context [handle_ack_bits ?c0 _] => set (cc := c0) in * end.
      destruct (handle_ack_bits_same cc (d_hdr d)) as [S1 _].
      destruct (handle_ack_bits cc (d_hdr d)) as [c1 o1]. cbn [fst] in S1.
      destruct (hwalk (s <| h_conn := c1 |>) now ms) as [[s2 o2] orcs] eqn:W. inversion H; subst.
      eapply hwalk_R; [| |exact W].
      - apply Forall_forall. intros w Hw. apply HP. exists (c_key (h_conn s)), ms, w. auto.
      - apply R_q; [|exact HR]. eapply qrel_trans; [|apply same_st_qrel; exact S1].
        subst cc. repeat split; auto.
    Qed.

    Lemma client_update_qrel c now : qrel c (fst (client_update c now)).
    Proof.
      unfold client_update. repeat match goal with |- context [if ?b then _ else _] => destruct b end;
        cbn; repeat split; auto; cbn; try discriminate.
    Qed.

    Lemma tick_tail_qrel strict e c now :
      qrel c (fst (check_timeout strict (fst (build_packet e c now)) now)).
    Proof.
      apply same_st_qrel. eapply same_st_trans; [apply build_packet_same|apply check_timeout_same].
    Qed.

    Lemma step_free_qrel e c x : oracle_free x = true -> qrel c (fst (step e c x)).
    Proof.
      intros OF. destruct x; try discriminate OF; cbn [step].
      - (* send *)
        destruct (send e c p r k) as [c' o] eqn:E. apply send_frame in E as [[[S] K St _ _ _ _ _ _ T] _].
        cbn. repeat split; auto. congruence.
      - unfold server_tick. destruct (_ >? _); [|apply qrel_refl].
        pose proof (tick_tail_qrel true e c now) as Q.
        destruct (build_packet e c now) as [c1 pk]. cbn [fst] in Q. destruct (check_timeout true c1 now) as [c2 o2]. exact Q.
      - cbn. unfold disconnect. repeat split; try (destruct (_ || _); reflexivity). cbn. discriminate.
      - cbn. destruct which as [|[[q|q|]|[q|q|]|]|q]; repeat split; auto.
      - cbn. repeat split; auto.
      - cbn. repeat split; auto.
    Qed.

    Lemma ev_log_nil (s : hstate) x : hev_dgram x = None -> ev_log s x = [].
    Proof. destruct x as [? ?|? [| |?]| |]; cbn; try discriminate; reflexivity. Qed.

    (* the rule: every event of an endpoint *)
    Theorem hstep_R e (s : hstate) g x s' o :
      (forall d m, hev_dgram x = Some d -> msg_in SIG parse d m -> Pm m) ->
      R s g -> hstep e s x = (s', o) -> R s' (g ++ ev_log s x).
    Proof.
      intros HP HR H. destruct x as [now d|now r|now hello|x]; cbn [Handshake.hstep HsNet.ev_log] in *.
      - eapply hrecv_R; [|exact HR|exact H]. intros m Hm. eapply HP; [reflexivity|exact Hm].
      - unfold Handshake.hclient_tick in H.
        pose proof (client_update_qrel (h_conn s) now) as Q0.
        destruct (client_update (h_conn s) now) as [c0 o0]. cbn [fst] in *. cbn [h_conn] in H.
        change (h_conn (s <| h_conn := c0 |>)) with c0 in H.
        assert (R0 : R (s <| h_conn := c0 |>) g) by (apply R_q; auto).
        destruct (status_eqb (c_status c0) DROPPED).
        { inversion H; subst. destruct r; rewrite app_nil_r; exact R0. }
        assert (X : exists s1 o1, match r with
                    | HxNone => (s <| h_conn := c0 |>, [])
                    | HxBad er => (s <| h_conn := c0 |>, [ORaise er])
                    | HxDgram d => let '(s', o') := hrecv (s <| h_conn := c0 |>) now d in
                                   (s', filter (fun x => match x with ORet _ => false | _ => true end) o')
                    end = (s1, o1) /\
                    R s1 (g ++ match r with HxDgram d => recv_log (s <| h_conn := c0 |>) now d | _ => [] end)).
        { destruct r as [|er|d]; try (do 2 eexists; split; [reflexivity|rewrite app_nil_r; exact R0]).
          destruct (hrecv (s <| h_conn := c0 |>) now d) as [s1 o1] eqn:Rv.
          do 2 eexists; split; [reflexivity|]. eapply hrecv_R; [|exact R0|exact Rv].
          intros m Hm. eapply HP; [reflexivity|exact Hm]. }
        destruct X as (s1 & o1 & EX & R1).
        assert (G : match r with HxDgram d => recv_log (s <| h_conn := c0 |>) now d | _ => [] end =
                    match r with HxDgram d => recv_log (s <| h_conn := c0 |>) now d | _ => [] end) by reflexivity.
        assert (Fin : forall s2, (s2 = s1 \/ exists c2, s2 = s1 <| h_conn := c2 |> /\ qrel (h_conn s1) c2) ->
                  R s2 (g ++ match r with HxNone => [] | HxBad _ => [] | HxDgram d => recv_log (s <| h_conn := c0 |>) now d end)).
        { intros s2 [->|(c2 & -> & Q2)]; [|apply R_q; auto]; destruct r; exact R1. }
        clear G.
        match type of H with context [let '(s, o1) := ?X in _] => replace X with (s1, o1) in H end.
        destruct (raised o1); [inversion H; subst; apply Fin; left; reflexivity|].
        destruct (_ >? _); [|inversion H; subst; apply Fin; left; reflexivity].
        pose proof (tick_tail_qrel false e (h_conn s1) now) as Q.
        destruct (build_packet e (h_conn s1) now) as [c2 pk]. cbn [fst] in Q. destruct (check_timeout false c2 now) as [c3 o3].
        inversion H; subst. apply Fin. right. eexists; split; [reflexivity|exact Q].
      - inversion H; subst. rewrite app_nil_r. apply R_q; [|exact HR].
        unfold client_hello, send_type. cbn. repeat split; auto. cbn. discriminate.
      - rewrite app_nil_r. destruct (oracle_free x) eqn:OF; [|inversion H; subst; exact HR].
        pose proof (step_free_qrel e (h_conn s) x OF) as Q.
        destruct (step e (h_conn s) x) as [c1 o1]. inversion H; subst. apply R_q; auto.
    Qed.
  End Rule.

  (* ---------- part 2: what one handshake message does to a client / to a server-side connection ---------- *)

  Notation adopts := (adopts SIG verify).
  Notation connects := (connects SIG pub sign verify dh kdf ser_shello ser_chal).
  Notation signed_of := (signed_of SIG pub).

  Lemma fail_oracle_parse code : o_parse (fail_oracle code) =? 0 = false.
  Proof. pose proof (fail_oracle_nonzero code). lia. Qed.

  Lemma client_hs_cases (s : hstate) ty m c1 o1 :
    c_server (h_conn s) = false -> hs_step s ty m = (c1, o1) ->
    (exists rp p sg, ty = SERVER_HELLO /\ m = MServerHello rp p sg /\ verify (check_key s rp) sg p = true /\
       note s ty m (oracle_of s ty m) c1 o1 = s <| h_conn := c1 |> <| h_adopted := Some (rp, p, sg) |> /\
       c_key c1 = Some (kdf (dh (h_priv s) (sp_pub p)) (sp_salt p)) /\ c_token c1 = sp_token p /\
       c_server c1 = false) \/
    (qrel (h_conn s) c1 /\ note s ty m (oracle_of s ty m) c1 o1 = s <| h_conn := c1 |> /\
     forall rp p sg, ~ adopts (s, ty, m) rp p sg).
  Proof.
    intros Sv H.
    assert (NoAd : forall c', qrel (h_conn s) c' -> c1 = c' ->
              existsb (fun x => match x with OHandlerConnect => true | _ => false end) o1 = false ->
              (o_parse (oracle_of s ty m) =? 0) = false \/ ty <> SERVER_HELLO ->
              (forall rp p sg, ~ adopts (s, ty, m) rp p sg) ->
              qrel (h_conn s) c1 /\ note s ty m (oracle_of s ty m) c1 o1 = s <| h_conn := c1 |> /\
              forall rp p sg, ~ adopts (s, ty, m) rp p sg).
    { intros c' Q -> HC PZ NA. split; [exact Q|]. split; [|exact NA].
      unfold Handshake.note, has_connect. rewrite HC.
      assert (Sv' : c_server c' = false) by (destruct Q as (_ & -> & _); exact Sv). rewrite Sv'. cbn [andb negb].
      destruct PZ as [PZ|PZ]; [rewrite PZ, Bool.andb_false_r; reflexivity|].
      destruct ty; try contradiction; reflexivity. }
    unfold Handshake.hs_step, Handshake.oracle_of, recv_handshake in H. rewrite Sv in H.
    destruct ty.
    all: try (right; destruct m; inversion H; subst;
              (apply (NoAd (h_conn s)); [apply qrel_refl|reflexivity|reflexivity|right; discriminate|
                intros ? ? ? (X & _); discriminate X])).
    (* SERVER_HELLO *)
    destruct m as [cp v pd|rp p sg|t|code].
    - right. cbn in H. inversion H; subst.
      apply (NoAd (h_conn s)); [apply qrel_refl|reflexivity|reflexivity|left; unfold Handshake.oracle_of; rewrite Sv; reflexivity|intros rp p sg (_ & X & _); discriminate X].
    - destruct (verify (check_key s rp) sg p) eqn:V; cbn in H.
      + left. exists rp, p, sg. inversion H; subst. repeat split; auto.
        unfold Handshake.note, Handshake.oracle_of, has_connect. rewrite Sv, V. cbn. rewrite Sv.
        destruct (c_conn_cb _); reflexivity.
      + right. inversion H; subst.
        apply (NoAd ((h_conn s) <| c_status := DISCONNECTED |>)); [repeat split; auto; cbn; discriminate|reflexivity|reflexivity| |].
        * left. unfold Handshake.oracle_of. rewrite Sv, V. reflexivity.
        * intros rp0 p0 sg0 (_ & X & _ & Y). inversion X; subst. congruence.
    - right. cbn in H. inversion H; subst.
      apply (NoAd (h_conn s)); [apply qrel_refl|reflexivity|reflexivity|left; unfold Handshake.oracle_of; rewrite Sv; reflexivity|intros rp p sg (_ & X & _); discriminate X].
    - right. pose proof (fail_oracle_parse code) as PZ.
      destruct (o_parse (fail_oracle code) =? 6); [|rewrite PZ in H; cbn in H]; inversion H; subst.
      + apply (NoAd ((h_conn s) <| c_status := DISCONNECTED |>)); [repeat split; auto; cbn; discriminate|reflexivity|reflexivity|left; exact PZ|intros rp p sg (_ & X & _); discriminate X].
      + apply (NoAd (h_conn s)); [apply qrel_refl|reflexivity|reflexivity|left; exact PZ|intros rp p sg (_ & X & _); discriminate X].
  Qed.

  Lemma server_hs_cases (s : hstate) ty m c1 o1 :
    c_server (h_conn s) = true -> h_temp s = TSelf \/ h_temp s = TNone -> hs_step s ty m = (c1, o1) ->
    (* (A) a client hello is answered: token, key, CONNECTING, the signed hello is queued *)
    (exists cpub ver, ty = CLIENT_HELLO /\ m = MClientHello cpub ver true /\
       let p := {| sp_pub := pub (h_priv s); sp_salt := fst (hd (0, 0) (h_rand s));
                   sp_token := snd (hd (0, 0) (h_rand s)) |} in
       signed_of (s, ty, m) = [(cpub, p)] /\ connects (s, ty, m) = false /\
       c1 = send_type ((h_conn s) <| c_token := sp_token p |> <| c_key := Some (kdf (dh (h_priv s) cpub) (sp_salt p)) |>
                         <| c_status := CONNECTING |>)
              SERVER_HELLO (ser_shello (pub (h_root s)) p (sign (h_root s) p)) RNone INone /\
       note s ty m (oracle_of s ty m) c1 o1 = s <| h_conn := c1 |> <| h_rand := tl (h_rand s) |>) \/
    (* (B) the challenge response carries the token of this connection: connect *)
    (ty = CHALLENGE_RESP /\ m = MChallenge (c_token (h_conn s)) /\ h_temp s = TSelf /\
       signed_of (s, ty, m) = [] /\ connects (s, ty, m) = true /\ o1 = [OHandlerConnect] /\
       c1 = (h_conn s) <| c_status := CONNECTED |> /\
       note s ty m (oracle_of s ty m) c1 o1 = s <| h_conn := c1 |> <| h_temp := TNone |>) \/
    (* (C) anything else *)
    (qrel (h_conn s) c1 /\ signed_of (s, ty, m) = [] /\ connects (s, ty, m) = false /\
       note s ty m (oracle_of s ty m) c1 o1 = s <| h_conn := c1 |>).
  Proof.
    intros Sv Tmp H.
    assert (CC : connects (s, ty, m) = has_connect o1) by (unfold HsNet.connects; rewrite H; reflexivity).
    assert (Nop : c1 = h_conn s -> has_connect o1 = false -> signed_of (s, ty, m) = [] ->
              (o_parse (oracle_of s ty m) =? 0) && o_version_ok (oracle_of s ty m) = false \/ ty <> CLIENT_HELLO ->
              qrel (h_conn s) c1 /\ signed_of (s, ty, m) = [] /\ connects (s, ty, m) = false /\
              note s ty m (oracle_of s ty m) c1 o1 = s <| h_conn := c1 |>).
    { intros -> HC SO PZ. split; [apply qrel_refl|]. split; [exact SO|]. split; [rewrite CC; exact HC|].
      unfold Handshake.note. rewrite HC, Sv. cbn [negb andb].
      destruct PZ as [PZ|PZ].
      - rewrite <- Bool.andb_assoc, PZ, Bool.andb_false_r. reflexivity.
      - destruct ty; try contradiction; reflexivity. }
    unfold Handshake.hs_step, Handshake.oracle_of, recv_handshake in H. rewrite Sv in H.
    destruct ty.
    all: try (right; right; destruct m; inversion H; subst;
              (apply Nop; [reflexivity|reflexivity|reflexivity|right; discriminate])).
    - (* CLIENT_HELLO *)
      destruct m as [cp v pd|rp p sg|t|code].
      + destruct pd; cbn [negb] in H.
        * destruct (hd (0, 0) (h_rand s)) as [salt tok] eqn:Hd. cbn in H.
          destruct (v =? h_version s) eqn:Ver; cbn in H.
          -- left. exists cp, v. inversion H; subst. cbv zeta. rewrite CC.
             unfold HsNet.signed_of, Handshake.note, Handshake.oracle_of, has_connect.
             rewrite Sv, Ver, Hd. cbn. rewrite Sv. cbn. repeat split.
          -- right; right. inversion H; subst. apply Nop; try reflexivity.
             ++ unfold HsNet.signed_of. rewrite Sv, Ver. reflexivity.
             ++ left. unfold Handshake.oracle_of. rewrite Sv, Hd. cbn. rewrite Ver. reflexivity.
        * right; right. cbn in H. inversion H; subst. apply Nop; try reflexivity.
          left. unfold Handshake.oracle_of. rewrite Sv. reflexivity.
      + right; right. cbn in H. inversion H; subst. apply Nop; try reflexivity.
        left. unfold Handshake.oracle_of. rewrite Sv. reflexivity.
      + right; right. cbn in H. inversion H; subst. apply Nop; try reflexivity.
        left. unfold Handshake.oracle_of. rewrite Sv. reflexivity.
      + right; right. pose proof (fail_oracle_parse code) as PZ. rewrite PZ in H. cbn in H. inversion H; subst.
        apply Nop; try reflexivity. left. unfold Handshake.oracle_of. rewrite PZ. reflexivity.
    - (* CHALLENGE_RESP *)
      destruct m as [cp v pd|rp p sg|t|code].
      + right; right. cbn in H. inversion H; subst. apply Nop; try reflexivity. right; discriminate.
      + right; right. cbn in H. inversion H; subst. apply Nop; try reflexivity. right; discriminate.
      + cbn in H. unfold temp_token in H.
        destruct Tmp as [Tm|Tm]; rewrite Tm in H.
        * destruct (c_token (h_conn s) =? t) eqn:Et.
          -- right; left. assert (t = c_token (h_conn s)) as -> by lia. inversion H; subst.
             repeat split; auto. unfold Handshake.note, has_connect. cbn. rewrite Sv. cbn. reflexivity.
          -- right; right. inversion H; subst. apply Nop; try reflexivity. right; discriminate.
        * right; right. inversion H; subst. apply Nop; try reflexivity. right; discriminate.
      + right; right. pose proof (fail_oracle_parse code) as PZ. rewrite PZ in H. cbn in H. inversion H; subst.
        apply Nop; try reflexivity. right; discriminate.
  Qed.

  (* ---------- part 3: the two endpoint invariants ---------- *)
  Notation client_key := (client_key dh kdf).
  Notation server_key := (server_key dh kdf).

  Lemma app_snoc_split {A} (g g1 g2 : list A) x y : g ++ [x] = g1 ++ y :: g2 ->
    (g2 = [] /\ g1 = g /\ y = x) \/ exists g2', g2 = g2' ++ [x] /\ g = g1 ++ y :: g2'.
  Proof.
    destruct g2 as [|z g2' _] using rev_ind; intros H.
    - left. apply app_inj_tail in H as [-> ->]. auto.
    - right. exists g2'. change (g1 ++ y :: g2' ++ [z]) with (g1 ++ (y :: g2') ++ [z]) in H.
      rewrite app_assoc in H. apply app_inj_tail in H as [-> ->]. auto.
  Qed.

  Section Invariants.
    Hypothesis verify_sign : forall sk s m, verify (pub sk) s m = true <-> s = sign sk m.
    Variables (a b root : Z) (akeys : list Z).
    Hypothesis root_secret : ~ In root akeys.

    (* ----- the client ----- *)
    Definition client_consts (s : hstate) : Prop :=
      c_server (h_conn s) = false /\ h_priv s = a /\ h_pinned s = Some (pub root).
    Definition hello_of (p : sh_payload) : hmsg := MServerHello (pub root) p (sign root p).
    Definition PmA (G : list sh_payload) (m : hmsg) : Prop := attacker_hello SIG sign akeys (map hello_of G) m.

    (* G: the payloads the genuine server has signed so far *)
    Definition RA (G : list sh_payload) (s : hstate) (g : list hentry) : Prop :=
      client_consts s /\
      (forall s1 ty m, In (s1, ty, m) g -> client_consts s1) /\
      (forall en rp p sg, In en g -> adopts en rp p sg -> sg = sign root p /\ In p G) /\
      match h_adopted s with
      | None => c_key (h_conn s) = None /\ c_status (h_conn s) <> CONNECTED /\
                (forall en rp p sg, In en g -> ~ adopts en rp p sg)
      | Some (rp, p, sg) => (exists en, In en g /\ adopts en rp p sg) /\
                            c_key (h_conn s) = Some (client_key a p) /\ c_token (h_conn s) = sp_token p
      end.

    Lemma RA_mono G G' s g : incl G G' -> RA G s g -> RA G' s g.
    Proof.
      intros HI (C & CE & AD & AK). split; [exact C|]. split; [exact CE|]. split; [|exact AK].
      intros en rp p sg Hin Ha. destruct (AD _ _ _ _ Hin Ha). split; auto.
    Qed.

    Lemma RA_q G (s : hstate) g c' : qrel (h_conn s) c' -> RA G s g -> RA G (s <| h_conn := c' |>) g.
    Proof.
      intros (Qk & Qs & Qt & Qc) ((Sv & Pr & Pin) & CE & AD & AK).
      split; [unfold client_consts; cbn; repeat split; congruence|]. split; [exact CE|]. split; [exact AD|].
      cbn. destruct (h_adopted s) as [[[rp p] sg]|].
      - destruct AK as (X & K & T). split; [exact X|]. split; congruence.
      - destruct AK as (K & St & X). split; [congruence|]. split; [|exact X]. intros Y. apply St. auto.
    Qed.

    (* appending a message that is not an adoption *)
    Lemma RA_ext G (s s0 : hstate) g ty m : client_consts s0 -> (forall rp p sg, ~ adopts (s0, ty, m) rp p sg) ->
      RA G s g -> RA G s (g ++ [(s0, ty, m)]).
    Proof.
      intros C0 NA (C & CE & AD & AK). split; [exact C|]. split; [|split].
      - intros s1 ty1 m1 Hin. apply in_app_or in Hin as [Hin|[Hin|[]]]; [eapply CE; eauto|congruence].
      - intros en rp p sg Hin Ha. apply in_app_or in Hin as [Hin|[<-|[]]]; [eapply AD; eauto|destruct (NA _ _ _ Ha)].
      - destruct (h_adopted s) as [[[rp p] sg]|].
        + destruct AK as ((en & Hin & Ha) & K & T). split; auto. exists en. split; auto. apply in_or_app; auto.
        + destruct AK as (K & St & X). repeat split; auto.
          intros en rp p sg Hin Ha. apply in_app_or in Hin as [Hin|[<-|[]]]; [eapply X; eauto|destruct (NA _ _ _ Ha)].
    Qed.

    Lemma RA_hs G (s : hstate) g ty hm c1 o1 : is_hs ty = true -> PmA G hm -> RA G s g ->
      hs_step s ty hm = (c1, o1) -> RA G (note s ty hm (oracle_of s ty hm) c1 o1) (g ++ [(s, ty, hm)]).
    Proof.
      intros _ HP HR St. pose proof HR as ((Sv & Pr & Pin) & CE & AD & AK).
      destruct (client_hs_cases _ _ _ _ _ Sv St) as [(rp & p & sg & -> & -> & V & Nt & K & T & Sv1)|(Q & Nt & NA)]; rewrite Nt.
      - assert (Sg : sg = sign root p).
        { unfold check_key in V. rewrite Pin in V. apply verify_sign. exact V. }
        assert (InG : In p G).
        { destruct (HP root Sg) as [X|(rp' & X)]; [contradiction|].
          apply in_map_iff in X as (p1 & E1 & I1). unfold hello_of in E1. congruence. }
        assert (Ad : adopts (s, SERVER_HELLO, MServerHello rp p sg) rp p sg) by (repeat split; auto).
        split; [unfold client_consts; cbn; repeat split; auto|]. split; [|split].
        + intros s1 ty1 m1 Hin. apply in_app_or in Hin as [Hin|[Hin|[]]]; [eapply CE; eauto|].
          inversion Hin; subst. repeat split; auto.
        + intros en rp0 p0 sg0 Hin Ha. apply in_app_or in Hin as [Hin|[<-|[]]]; [eapply AD; eauto|].
          destruct Ha as (_ & E & _). assert (p0 = p /\ sg0 = sg) as [-> ->] by (split; congruence). auto.
        + cbn. split; [|split].
          * eexists; split; [apply in_or_app; right; left; reflexivity|exact Ad].
          * rewrite K, Pr. reflexivity.
          * exact T.
      - apply RA_ext; [repeat split; auto|exact NA|]. apply RA_q; auto.
    Qed.

    Theorem RA_step e G (s : hstate) g x s' o :
      (forall d m, hev_dgram x = Some d -> msg_in SIG parse d m -> PmA G m) ->
      RA G s g -> hstep e s x = (s', o) -> RA G s' (g ++ ev_log s x).
    Proof. apply (hstep_R (RA G) (PmA G) (RA_q G) (RA_hs G)). Qed.

    (* ----- the server-side connection ----- *)
    Definition server_consts (s : hstate) : Prop :=
      c_server (h_conn s) = true /\ h_priv s = b /\ h_root s = root /\ (h_temp s = TSelf \/ h_temp s = TNone).
    Definition slog (g : list hentry) : list (Z * sh_payload) := flat_map signed_of g.
    (* key and token are those of the hello signed last *)
    Definition keyrel (s : hstate) (g : list hentry) : Prop :=
      match last (map Some (slog g)) None with
      | None => c_key (h_conn s) = None
      | Some (cpub, p) => c_key (h_conn s) = Some (server_key b cpub p) /\ c_token (h_conn s) = sp_token p /\
                          sp_pub p = pub b
      end.
    Definition RB (s : hstate) (g : list hentry) : Prop :=
      server_consts s /\ keyrel s g /\
      (forall g1 s1 ty m g2, g = g1 ++ (s1, ty, m) :: g2 ->
         server_consts s1 /\ keyrel s1 g1 /\
         (connects (s1, ty, m) = true ->
            ty = CHALLENGE_RESP /\ m = MChallenge (c_token (h_conn s1)) /\ h_temp s1 = TSelf)) /\
      (c_status (h_conn s) = CONNECTED ->
         exists s1 m, In (s1, CHALLENGE_RESP, m) g /\ connects (s1, CHALLENGE_RESP, m) = true /\
                      c_key (h_conn s1) = c_key (h_conn s) /\ c_token (h_conn s1) = c_token (h_conn s)) /\
      (h_temp s = TSelf -> forall en, In en g -> connects en = false).

    Lemma slog_snoc g en : slog (g ++ [en]) = slog g ++ signed_of en.
    Proof. unfold slog. rewrite flat_map_app. cbn. rewrite app_nil_r. reflexivity. Qed.

    Lemma keyrel_q (s : hstate) g c' : qrel (h_conn s) c' -> keyrel s g -> keyrel (s <| h_conn := c' |>) g.
    Proof.
      intros (Qk & Qs & Qt & Qc). unfold keyrel. cbn. destruct (last _ _) as [[cpub p]|]; [|congruence].
      intros (K & T & P). repeat split; congruence.
    Qed.

    Lemma RB_q (s : hstate) g c' : qrel (h_conn s) c' -> RB s g -> RB (s <| h_conn := c' |>) g.
    Proof.
      intros Q ((Sv & Pr & Rt & Tm) & KR & Hist & Cn & NC). pose proof Q as (Qk & Qs & Qt & Qc).
      split; [|split; [|split; [|split]]].
      - unfold server_consts. cbn. repeat split; auto. congruence.
      - apply keyrel_q; auto.
      - exact Hist.
      - cbn. intros St. destruct (Cn (Qc St)) as (s1 & m & I1 & C1 & K1 & T1). exists s1, m. repeat split; auto; congruence.
      - exact NC.
    Qed.

    (* appending a message that neither signs nor connects *)
    Lemma RB_ext (s : hstate) s0 g ty m : server_consts s0 -> keyrel s0 g ->
      signed_of (s0, ty, m) = [] -> connects (s0, ty, m) = false -> RB s g -> RB s (g ++ [(s0, ty, m)]).
    Proof.
      intros C0 K0 SO CO (C & KR & Hist & Cn & NC).
      split; [exact C|]. split; [|split; [|split]].
      - unfold keyrel in *. rewrite slog_snoc, SO, app_nil_r. exact KR.
      - intros g1 s1 ty1 m1 g2 E. apply app_snoc_split in E as [(-> & -> & E)|(g2' & -> & ->)].
        + inversion E; subst. split; [exact C0|]. split; [exact K0|]. intros X. congruence.
        + eapply Hist. reflexivity.
      - intros St. destruct (Cn St) as (s1 & m1 & I1 & R1). exists s1, m1. split; [apply in_or_app; auto|exact R1].
      - intros Tm en Hin. apply in_app_or in Hin as [Hin|[<-|[]]]; [apply NC; auto|exact CO].
    Qed.

    Lemma RB_hs (s : hstate) g ty hm c1 o1 : is_hs ty = true -> True -> RB s g ->
      hs_step s ty hm = (c1, o1) -> RB (note s ty hm (oracle_of s ty hm) c1 o1) (g ++ [(s, ty, hm)]).
    Proof.
      intros _ _ HR St. pose proof HR as (C & KR & Hist & Cn & NC). pose proof C as (Sv & Pr & Rt & Tm).
      destruct (server_hs_cases _ _ _ _ _ Sv Tm St) as
        [(cpub & ver & -> & -> & SO & CO & E1 & Nt)|[(-> & -> & Ts & SO & CO & -> & E1 & Nt)|(Q & SO & CO & Nt)]];
        rewrite Nt.
      - (* a signed hello *)
        cbv zeta in SO, E1. set (p := {| sp_pub := pub (h_priv s); sp_salt := fst (hd (0, 0) (h_rand s));
                                         sp_token := snd (hd (0, 0) (h_rand s)) |}) in *.
        split; [|split; [|split; [|split]]].
        + unfold server_consts. cbn. rewrite E1. cbn. repeat split; auto.
        + unfold keyrel. rewrite slog_snoc, SO, olast_app_one. cbn. rewrite E1. cbn. rewrite Pr. repeat split.
        + intros g1 s1 ty1 m1 g2 E. apply app_snoc_split in E as [(-> & -> & E)|(g2' & -> & ->)].
          * inversion E; subst. split; [exact C|]. split; [exact KR|]. intros X. congruence.
          * eapply Hist. reflexivity.
        + cbn. rewrite E1. cbn. discriminate.
        + cbn. intros Ts en Hin. apply in_app_or in Hin as [Hin|[<-|[]]]; [apply NC; auto|exact CO].
      - (* connect *)
        split; [|split; [|split; [|split]]].
        + unfold server_consts. cbn. rewrite E1. cbn. repeat split; auto.
        + unfold keyrel in *. rewrite slog_snoc, SO, app_nil_r. cbn. rewrite E1. cbn. exact KR.
        + intros g1 s1 ty1 m1 g2 E. apply app_snoc_split in E as [(-> & -> & E)|(g2' & -> & ->)].
          * inversion E; subst. split; [exact C|]. split; [exact KR|]. intros _. auto.
          * eapply Hist. reflexivity.
        + intros _. exists s, (MChallenge (c_token (h_conn s))). split; [apply in_or_app; right; left; reflexivity|].
          split; [exact CO|]. cbn. rewrite E1. cbn. auto.
        + cbn. discriminate.
      - apply RB_ext; auto. apply RB_q; auto.
    Qed.

    Theorem RB_step e (s : hstate) g x s' o : RB s g -> hstep e s x = (s', o) -> RB s' (g ++ ev_log s x).
    Proof. intros HR H. eapply (hstep_R RB (fun _ => True) RB_q RB_hs); eauto. Qed.
  End Invariants.

  (* ---------- part 4: facts about the log of ONE event ---------- *)
  Notation carried := (carried SIG parse).

  Lemma lwalk_in now ms : forall (s : hstate) s1 ty m, In (s1, ty, m) (lwalk s now ms) ->
    exists w, In w ms /\ w_type w = ty /\ parse (w_payload w) = m.
  Proof.
    induction ms as [|w r IH]; intros s s1 ty m Hin; [destruct Hin|].
    cbn [HsNet.lwalk] in Hin.
    destruct (bf_insert (c_bf_msg (h_conn s)) (w_seq w)) as [bf|].
    2:{ destruct (IH _ _ _ _ Hin) as (w' & I' & R'). exists w'. split; [right; exact I'|exact R']. }
    destruct (hmsg1 s now w bf) as [s2 o2].
    assert (Here : In (s1, ty, m) (if is_hs (w_type w) then [(with_bf s bf, w_type w, parse (w_payload w))] else []) ->
                   exists w', In w' (w :: r) /\ w_type w' = ty /\ parse (w_payload w') = m).
    { destruct (is_hs (w_type w)); [|intros []]. intros [E|[]]. inversion E; subst. exists w. split; [left; reflexivity|auto]. }
    destruct (raised o2); [auto|].
    apply in_app_or in Hin as [Hin|Hin]; [auto|].
    destruct (IH _ _ _ _ Hin) as (w' & I' & R'). exists w'. split; [right; exact I'|exact R'].
  Qed.

  (* the datagram of the event opens under the key held at arrival and carries the logged message;
     a keyless endpoint logs no challenge response *)
  Lemma ev_log_carried (s : hstate) x s1 ty m : In (s1, ty, m) (ev_log s x) ->
    exists d, hev_dgram x = Some d /\ carried (d, c_key (h_conn s), (s1, ty, m)) /\
              (c_key (h_conn s) = None -> ty <> CHALLENGE_RESP).
  Proof.
    assert (RL : forall (s0 : hstate) now d, In (s1, ty, m) (recv_log s0 now d) ->
              carried (d, c_key (h_conn s0), (s1, ty, m)) /\ (c_key (h_conn s0) = None -> ty <> CHALLENGE_RESP)).
    { intros s0 now d Hin. unfold HsNet.recv_log in Hin.
      destruct (keyless_refuses (h_conn s0) (d_hdr d)) eqn:KR; [destruct Hin|].
      destruct (open_dgram (c_key (h_conn s0)) d) as [ms|] eqn:OD; [|destruct Hin].
      destruct (bf_insert (c_bf_pkt (h_conn s0)) (h_seq (d_hdr d))) as [bf|]; [|destruct Hin].
      destruct (handle_ack_bits _ (d_hdr d)) as [c1 o1].
      destruct (lwalk_in _ _ _ _ _ _ Hin) as (w & Iw & Tw & Pw).
      split; [exists ms, w; auto|].
      intros K0 ->. rewrite K0 in OD. unfold keyless_refuses in KR. rewrite K0 in KR. cbn in KR.
      pose proof (keyless_single_hello _ _ KR OD) as NC. unfold no_chal in NC. rewrite Forall_forall in NC.
      exact (NC w Iw Tw). }
    destruct x as [now d|now [| |d]|now hello|x]; cbn [HsNet.ev_log HsNet.hev_dgram]; try (intros []).
    - intros Hin. exists d. split; [reflexivity|]. apply RL in Hin. exact Hin.
    - pose proof (client_update_qrel (h_conn s) now) as (Qk & _).
      destruct (status_eqb _ DROPPED); [intros []|]. intros Hin. exists d. split; [reflexivity|].
      apply RL in Hin. cbn [h_conn] in Hin. change (h_conn (s <| h_conn := fst (client_update (h_conn s) now) |>))
        with (fst (client_update (h_conn s) now)) in Hin. rewrite Qk in Hin. exact Hin.
  Qed.

  (* an endpoint that holds a key when the event starts holds one at every logged message *)
  Lemma ev_log_keyed e (s : hstate) x s' o : c_key (h_conn s) <> None -> hstep e s x = (s', o) ->
    forall s1 ty m, In (s1, ty, m) (ev_log s x) -> c_key (h_conn s1) <> None.
  Proof.
    intros K H.
    pose (Rk := fun (s : hstate) (g : list hentry) =>
                  c_key (h_conn s) <> None /\ forall s1 ty m, In (s1, ty, m) g -> c_key (h_conn s1) <> None).
    assert (X : Rk s' ([] ++ ev_log s x)).
    { eapply (hstep_R Rk (fun _ => True)); [| |auto| |exact H].
      - intros s0 g c' (Qk & _) (A & B). split; [cbn; congruence|exact B].
      - intros s0 g ty hm c1 o1 _ _ (A & B) St. split.
        + rewrite note_conn. unfold Handshake.hs_step in St. apply recv_handshake_facts in St as (_ & F & _). auto.
        + intros s1 ty1 m1 Hin. apply in_app_or in Hin as [Hin|[Hin|[]]]; [eapply B; eauto|]. inversion Hin; subst. exact A.
      - split; [exact K|intros ? ? ? []]. }
    destruct X as [_ X]. exact X.
  Qed.

  Lemma map_snd_tag (s : hstate) x : map snd (tag_log s x) = ev_log s x.
  Proof.
    unfold HsNet.tag_log. destruct (hev_dgram x) eqn:E.
    - rewrite map_map. cbn. apply map_id.
    - rewrite ev_log_nil; auto.
  Qed.

  Lemma in_tag_log (s : hstate) x d k0 en : In (d, k0, en) (tag_log s x) ->
    hev_dgram x = Some d /\ k0 = c_key (h_conn s) /\ In en (ev_log s x).
  Proof.
    unfold HsNet.tag_log. destruct (hev_dgram x) as [d'|]; [|intros []].
    intros Hin. apply in_map_iff in Hin as (en' & E & I'). inversion E; subst. auto.
  Qed.

  Lemma sealed_dg_of o d k sh p : In d (flat_map dg_of o) -> d_body d = Sealed k sh p ->
    In (OEmit (d_hdr d) (Some k) p) o.
  Proof.
    intros Hin Hb. apply in_flat_map in Hin as (x & Hx & Hd).
    destruct x as [h [k'|] p'| | | | | |]; cbn in Hd; try destruct Hd as [<-|[]]; try destruct Hd.
    - cbn in Hb. inversion Hb; subst. exact Hx.
    - cbn in Hb. discriminate.
  Qed.

  (* ---------- part 5: the joint invariants ---------- *)
  Notation signed_log := (signed_log SIG pub).
  Notation genuine_payloads := (genuine_payloads SIG pub).
  Notation dy_ev := (dy_ev SIG pub sign parse).
  Notation dy_run := (dy_run SIG pub sign verify dh kdf parse ser_shello ser_chal).
  Notation sealed_ev := (sealed_ev SIG).
  Notation sealed_run := (sealed_run SIG pub sign verify dh kdf parse ser_shello ser_chal).
  Notation hnet0 := (hnet0 SIG).

  Lemma signed_log_slog (g : list jentry) : signed_log g = slog (map snd g).
  Proof. unfold HsNet.signed_log, slog. rewrite flat_map_concat_map, flat_map_concat_map, map_map. reflexivity. Qed.

  Lemma jrun_snoc e (n : hnet) vs v : jrun e n (vs ++ [v]) = jstep e (jrun e n vs) v.
  Proof. unfold HsNet.jrun. rewrite fold_left_app. reflexivity. Qed.

  (* --- B alone: EVERY history, whatever the client and the attacker do --- *)
  Section ServerSide.
    Variables (b root : Z).

    (* per logged message of B *)
    Definition entryB (j : jentry) : Prop :=
      carried j /\
      (connects (snd j) = true ->
         exists k, snd (fst j) = Some k /\ authentic k (fst (fst j)) /\ c_key (h_conn (fst (fst (snd j)))) <> None).

    Record JB_inv (n : hnet) : Prop := {
      jb_R : RB b root (jB n) (map snd (gB n));
      jb_E : Forall entryB (gB n) }.

    Lemma JB_step e (n : hnet) v : JB_inv n -> JB_inv (jstep e n v).
    Proof.
      intros [HR HE]. destruct v as [x|x]; cbn [HsNet.jstep].
      - destruct (hstep e (jA n) x) as [a' o]. constructor; cbn; auto.
      - destruct (hstep e (jB n) x) as [b' o] eqn:H. constructor; cbn.
        + rewrite map_app, map_snd_tag. eapply RB_step; eauto.
        + apply Forall_app. split; [exact HE|]. apply Forall_forall. intros [[d k0] [[s1 ty] m]] Hin.
          apply in_tag_log in Hin as (Hd & -> & Hin).
          destruct (ev_log_carried _ _ _ _ _ Hin) as (d' & Hd' & Car & NoCh). assert (d' = d) as -> by congruence.
          split; [exact Car|]. cbn [fst snd]. intros Cn.
          (* a connecting entry is a challenge response *)
          assert (RB' : RB b root b' (map snd (gB n) ++ ev_log (jB n) x)) by (eapply RB_step; eauto).
          destruct RB' as (_ & _ & Hist & _).
          apply in_split in Hin as (l1 & l2 & El). rewrite El, app_assoc in Hist.
          destruct (Hist _ _ _ _ _ eq_refl) as (_ & _ & CC). destruct (CC Cn) as (-> & _ & _).
          destruct (c_key (h_conn (jB n))) as [k|] eqn:K0; [|destruct (NoCh eq_refl eq_refl)].
          exists k. split; [reflexivity|]. split.
          * destruct Car as (ms & w & OD & _). eapply open_keyed_authentic; eauto.
          * eapply (ev_log_keyed e (jB n) x b' o); [rewrite K0; discriminate|exact H|].
            rewrite El. apply in_or_app. right. left. reflexivity.
    Qed.

    Lemma JB_init a pinned rand : JB_inv (hnet0 a pinned b root rand).
    Proof.
      constructor; cbn; [|constructor].
      split; [repeat split; auto|]. split; [reflexivity|]. split; [|split].
      - intros g1 s1 ty m g2 E. destruct g1; discriminate E.
      - cbn. discriminate.
      - intros _ en [].
    Qed.

    Lemma JB_run e vs : forall (n : hnet), JB_inv n -> JB_inv (jrun e n vs).
    Proof.
      induction vs as [|v r IH]; intros n H; [exact H|]. cbn. apply IH. apply JB_step. exact H.
    Qed.
  End ServerSide.

  (* --- both endpoints, Dolev-Yao hypothesis on the hellos presented to the client --- *)
  Section Both.
    Hypothesis verify_sign : forall sk s m, verify (pub sk) s m = true <-> s = sign sk m.
    Variables (a b root : Z) (akeys : list Z) (other : list sh_payload).
    Hypothesis root_secret : ~ In root akeys.

    Record JA_inv (n : hnet) : Prop := {
      ja_R : RA a root (genuine_payloads other n) (jA n) (map snd (gA n));
      ja_C : Forall carried (gA n);
      (* whatever A has put on the wire sealed was sealed under a key A had adopted *)
      ja_W : forall d k sh p, In d (jAB n) -> d_body d = Sealed k sh p ->
               exists en rp pl sg, In en (map snd (gA n)) /\ adopts en rp pl sg /\ k = client_key a pl }.

    Lemma JA_step e (n : hnet) v : JA_inv n -> dy_ev root akeys other n v -> JA_inv (jstep e n v).
    Proof.
      intros [HR HC HW] DY. destruct v as [x|x]; cbn [HsNet.jstep].
      - destruct (hstep e (jA n) x) as [a' o] eqn:H.
        assert (R' : RA a root (genuine_payloads other n) a' (map snd (gA n) ++ ev_log (jA n) x)).
        { eapply (RA_step verify_sign a root akeys root_secret); [|exact HR|exact H].
          intros d m Hd Hm. exact (DY d m Hd Hm). }
        constructor; cbn.
        + rewrite map_app, map_snd_tag. exact R'.
        + apply Forall_app. split; [exact HC|]. apply Forall_forall. intros [[d k0] [[s1 ty] m]] Hin.
          apply in_tag_log in Hin as (Hd & -> & Hin).
          destruct (ev_log_carried _ _ _ _ _ Hin) as (d' & Hd' & Car & _). assert (d' = d) as -> by congruence. exact Car.
        + intros d k sh p Hin Hb. rewrite map_app, map_snd_tag. apply in_app_or in Hin as [Hin|Hin].
          * destruct (HW _ _ _ _ Hin Hb) as (en & rp & pl & sg & I1 & A1 & K1).
            exists en, rp, pl, sg. split; [apply in_or_app; auto|auto].
          * pose proof (sealed_dg_of _ _ _ _ _ Hin Hb) as Em.
            pose proof (hstep_is_step_proof _ _ _ _ _ _ _ _ _ _ _ _ _ _ H) as St.
            pose proof (step_emit_key _ _ _ _ _ _ _ _ St Em) as Ek.
            destruct (ptype_eqb (h_type (d_hdr d)) SERVER_HELLO); [discriminate Ek|].
            destruct R' as (_ & _ & _ & AK).
            destruct (h_adopted a') as [[[rp pl] sg]|].
            -- destruct AK as ((en & I1 & A1) & K1 & _). exists en, rp, pl, sg. split; [exact I1|]. split; [exact A1|]. congruence.
            -- destruct AK as (K1 & _). congruence.
      - destruct (hstep e (jB n) x) as [b' o] eqn:H. constructor; cbn; auto.
        eapply RA_mono; [|exact HR].
        unfold HsNet.genuine_payloads. cbn. intros p Hin. apply in_app_or in Hin as [Hin|Hin]; apply in_or_app; [left; exact Hin|right].
        unfold HsNet.signed_log in *. rewrite flat_map_app, map_app. apply in_or_app. left. exact Hin.
    Qed.

    Lemma JA_init rand : JA_inv (hnet0 a (Some (pub root)) b root rand).
    Proof.
      constructor; cbn; [|constructor|intros ? ? ? ? []].
      split; [repeat split; auto|]. split; [intros ? ? ? []|]. split; [intros ? ? ? ? []|].
      cbn. split; [reflexivity|]. split; [discriminate|intros ? ? ? ? []].
    Qed.

    Lemma JA_run e vs : forall (n : hnet), JA_inv n -> dy_run e root akeys other n vs -> JA_inv (jrun e n vs).
    Proof.
      induction vs as [|v r IH]; intros n H D; [exact H|]. destruct D as [D1 D2]. cbn. apply IH; [|exact D2].
      apply JA_step; auto.
    Qed.

    (* --- with the AES-GCM hypothesis for B: what B opened under a key is on A's wire --- *)
    Definition SB_inv (n : hnet) : Prop := forall d k en, In (d, Some k, en) (gB n) -> In d (jAB n).

    Lemma SB_step e (n : hnet) v : SB_inv n -> sealed_ev n v -> SB_inv (jstep e n v).
    Proof.
      intros HS SE. destruct v as [x|x]; cbn [HsNet.jstep].
      - destruct (hstep e (jA n) x) as [a' o]. intros d k en Hin. cbn in *. apply in_or_app. left. eapply HS; eauto.
      - destruct (hstep e (jB n) x) as [b' o]. intros d k [[s1 ty] m] Hin. cbn in *.
        apply in_app_or in Hin as [Hin|Hin]; [eapply HS; eauto|].
        apply in_tag_log in Hin as (Hd & K0 & Hin).
        destruct (ev_log_carried _ _ _ _ _ Hin) as (d' & Hd' & (ms & w & OD & _) & _).
        assert (d' = d) as -> by congruence.
        eapply SE; [exact Hd|rewrite <- K0; discriminate|exact OD].
    Qed.

    Lemma SB_run e vs : forall (n : hnet), SB_inv n -> sealed_run e n vs -> SB_inv (jrun e n vs).
    Proof.
      induction vs as [|v r IH]; intros n H D; [exact H|]. destruct D as [D1 D2]. cbn. apply IH; [|exact D2].
      apply SB_step; auto.
    Qed.
  End Both.

  (* ---------- part 6: the run-level theorems of C02 ---------- *)
  Lemma last_some_in {A} (l : list A) x : last (map Some l) None = Some x -> In x l.
  Proof.
    destruct l as [|y l' _] using rev_ind; [discriminate|].
    rewrite olast_app_one. intros E. inversion E; subst. apply in_or_app. right. left. reflexivity.
  Qed.

  Lemma map_snd_split (g l1 l2 : list jentry) j : g = l1 ++ j :: l2 -> map snd g = map snd l1 ++ snd j :: map snd l2.
  Proof. intros ->. rewrite map_app. reflexivity. Qed.

  Lemma slog_app g1 g2 : slog (g1 ++ g2) = slog g1 ++ slog g2.
  Proof. unfold slog. apply flat_map_app. Qed.

  (* (1) authentication as an invariant of runs *)
  Theorem run_authentication_proof :
    (forall sk s m, verify (pub sk) s m = true <-> s = sign sk m) ->
    forall e a b root rand akeys other vs, ~ In root akeys ->
    dy_run e root akeys other (hnet0 a (Some (pub root)) b root rand) vs ->
    let n := jrun e (hnet0 a (Some (pub root)) b root rand) vs in
    match h_adopted (jA n) with
    | None => c_key (h_conn (jA n)) = None /\ c_status (h_conn (jA n)) <> CONNECTED
    | Some (rp, p, sg) =>
        sg = sign root p /\ verify (pub root) sg p = true /\
        (In p other \/ exists cpub, In (cpub, p) (signed_log (gB n))) /\
        c_key (h_conn (jA n)) = Some (client_key a p) /\ c_token (h_conn (jA n)) = sp_token p /\
        exists d k0 sA, In (d, k0, (sA, SERVER_HELLO, MServerHello rp p sg)) (gA n) /\
                        carried (d, k0, (sA, SERVER_HELLO, MServerHello rp p sg))
    end.
  Proof.
    intros VS e a b root rand akeys other vs NR DY n.
    pose proof (JA_run VS a root akeys other NR e vs _ (JA_init a b root other rand) DY) as [HR HC _].
    fold n in HR, HC. destruct HR as (_ & _ & AD & AK).
    destruct (h_adopted (jA n)) as [[[rp p] sg]|]; [|destruct AK as (K & St & _); auto].
    destruct AK as ((en & Hin & Ha) & K & T). destruct (AD _ _ _ _ Hin Ha) as [Sg InG].
    split; [exact Sg|]. split; [apply VS; exact Sg|]. split; [|split; [exact K|split; [exact T|]]].
    - unfold HsNet.genuine_payloads in InG. apply in_app_or in InG as [X|X]; [left; exact X|right].
      apply in_map_iff in X as ([cpub p'] & E & X). cbn in E. subst p'. exists cpub. exact X.
    - apply in_map_iff in Hin as ([[d k0] en'] & E & Hin). cbn in E. subst en'.
      destruct en as [[sA ty] m]. destruct Ha as (-> & -> & _).
      exists d, k0, sA. split; [exact Hin|]. rewrite Forall_forall in HC. exact (HC _ Hin).
  Qed.

  (* ... every handshake message the client ever processed either was a hello signed by the root key
     holder (genuine: built by B in this history or by another session of the server) which it adopted,
     or left key and token alone and the status as it was or DISCONNECTED *)
  Theorem run_client_messages_proof :
    (forall sk s m, verify (pub sk) s m = true <-> s = sign sk m) ->
    forall e a b root rand akeys other vs, ~ In root akeys ->
    dy_run e root akeys other (hnet0 a (Some (pub root)) b root rand) vs ->
    let n := jrun e (hnet0 a (Some (pub root)) b root rand) vs in
    forall d k0 sA ty m, In (d, k0, (sA, ty, m)) (gA n) ->
    let c1 := fst (hs_step sA ty m) in
    (exists rp p sg, ty = SERVER_HELLO /\ m = MServerHello rp p sg /\ sg = sign root p /\
       (In p other \/ exists cpub, In (cpub, p) (signed_log (gB n))) /\
       c_key c1 = Some (client_key a p) /\ c_token c1 = sp_token p /\ c_status c1 = CONNECTED) \/
    (c_key c1 = c_key (h_conn sA) /\ c_token c1 = c_token (h_conn sA) /\
     (c_status c1 = c_status (h_conn sA) \/ c_status c1 = DISCONNECTED)).
  Proof.
    intros VS e a b root rand akeys other vs NR DY n d k0 sA ty m Hin c1.
    pose proof (JA_run VS a root akeys other NR e vs _ (JA_init a b root other rand) DY) as [HR _ _].
    fold n in HR. destruct HR as (_ & CE & AD & _).
    assert (Hin' : In (sA, ty, m) (map snd (gA n))) by (apply in_map_iff; exists (d, k0, (sA, ty, m)); auto).
    destruct (CE _ _ _ Hin') as (Sv & Pr & Pin).
    subst c1. destruct (hs_step sA ty m) as [c1 o1] eqn:St. cbn [fst].
    destruct ty; try solve [right; unfold Handshake.hs_step, Handshake.oracle_of, recv_handshake in St; try rewrite Sv in St;
                      destruct m; inversion St; subst c1 o1; auto].
    destruct (client_key_only_from_verified_hello_proof _ _ _ _ _ _ _ _ _ _ _ _ Sv St) as [X|(rp & p & sg & -> & V & K & T & S1)];
      [right; exact X|left].
    assert (Ha : adopts (sA, SERVER_HELLO, MServerHello rp p sg) rp p sg) by (repeat split; auto).
    destruct (AD _ _ _ _ Hin' Ha) as [Sg InG]. exists rp, p, sg. repeat split; auto.
    - unfold HsNet.genuine_payloads in InG. apply in_app_or in InG as [X|X]; [left; exact X|right].
      apply in_map_iff in X as ([cpub p'] & E & X). cbn in E. subst p'. exists cpub. exact X.
    - rewrite K, Pr. reflexivity.
  Qed.

  (* a payload in B's signed log was built by B: a logged client hello in whose step the connection
     queued exactly ser_shello (pub root) p (sign root p) *)
  Theorem run_genuine_built_proof : forall e a pinned b root rand vs,
    let n := jrun e (hnet0 a pinned b root rand) vs in
    forall cpub p, In (cpub, p) (signed_log (gB n)) ->
    exists d k0 sB ver, In (d, k0, (sB, CLIENT_HELLO, MClientHello cpub ver true)) (gB n) /\
      sp_pub p = pub b /\
      fst (hs_step sB CLIENT_HELLO (MClientHello cpub ver true)) =
        send_type ((h_conn sB) <| c_token := sp_token p |> <| c_key := Some (server_key b cpub p) |> <| c_status := CONNECTING |>)
          SERVER_HELLO (ser_shello (pub root) p (sign root p)) RNone INone.
  Proof.
    intros e a pinned b root rand vs n cpub p Hin.
    pose proof (JB_run b root e vs _ (JB_init b root a pinned rand)) as [HR _]. fold n in HR.
    destruct HR as (_ & _ & Hist & _).
    unfold HsNet.signed_log in Hin. apply in_flat_map in Hin as ([[d k0] [[sB ty] m]] & Hj & Hs). cbn [snd] in Hs.
    apply in_split in Hj as (l1 & l2 & El). pose proof (map_snd_split _ _ _ _ El) as Em. cbn [snd] in Em.
    destruct (Hist _ _ _ _ _ Em) as ((Sv & Pr & Rt & Tm) & _ & _).
    destruct (hs_step sB ty m) as [c1 o1] eqn:St.
    destruct (server_hs_cases _ _ _ _ _ Sv Tm St) as
      [(cpub' & ver & -> & -> & SO & _ & E1 & _)|[(_ & _ & _ & SO & _)|(_ & SO & _)]];
      try solve [rewrite SO in Hs; destruct Hs].
    cbv zeta in SO, E1. rewrite SO in Hs. destruct Hs as [E|[]]. inversion E; subst cpub' p.
    exists d, k0, sB, ver. split; [rewrite El; apply in_or_app; right; left; reflexivity|].
    split; [cbn; rewrite Pr; reflexivity|]. rewrite St. cbn [fst]. rewrite E1, Rt, Pr. reflexivity.
  Qed.

  (* (2a) promotion on proof of key, EVERY history: each handler.connect B has reported was caused by a
     CHALLENGE_RESP message carrying the token of the hello B had signed last, in a datagram authentic
     under the key B held when it arrived, while B held the key derived for that hello; and B is
     CONNECTED only with the key and token of such a report *)
  Theorem run_connect_proof : forall e a pinned b root rand vs,
    let n := jrun e (hnet0 a pinned b root rand) vs in
    (forall d k0 sB ty m, In (d, k0, (sB, ty, m)) (gB n) -> connects (sB, ty, m) = true ->
       ty = CHALLENGE_RESP /\ m = MChallenge (c_token (h_conn sB)) /\
       carried (d, k0, (sB, ty, m)) /\
       (exists k, k0 = Some k /\ authentic k d) /\
       exists cpub p, In (cpub, p) (signed_log (gB n)) /\ sp_pub p = pub b /\
          c_key (h_conn sB) = Some (server_key b cpub p) /\ c_token (h_conn sB) = sp_token p) /\
    (c_status (h_conn (jB n)) = CONNECTED ->
       exists d k0 sB m, In (d, k0, (sB, CHALLENGE_RESP, m)) (gB n) /\ connects (sB, CHALLENGE_RESP, m) = true /\
          c_key (h_conn sB) = c_key (h_conn (jB n)) /\ c_token (h_conn sB) = c_token (h_conn (jB n))).
  Proof.
    intros e a pinned b root rand vs n.
    pose proof (JB_run b root e vs _ (JB_init b root a pinned rand)) as [HR HE]. fold n in HR, HE.
    destruct HR as (_ & _ & Hist & Cn & _). split.
    - intros d k0 sB ty m Hj Hc.
      rewrite Forall_forall in HE. destruct (HE _ Hj) as [Car Auth]. cbn [fst snd] in Auth.
      destruct (Auth Hc) as (k & -> & Au & Kn).
      apply in_split in Hj as (l1 & l2 & El). pose proof (map_snd_split _ _ _ _ El) as Em. cbn [snd] in Em.
      destruct (Hist _ _ _ _ _ Em) as (_ & KR & CC). destruct (CC Hc) as (-> & -> & _).
      split; [reflexivity|]. split; [reflexivity|]. split; [exact Car|]. split; [exists k; auto|].
      unfold keyrel in KR.
      match type of KR with match ?X with _ => _ end => destruct X as [[cpub p]|] eqn:L end; [|contradiction].
      destruct KR as (K & T & P). exists cpub, p. repeat split; auto.
      rewrite signed_log_slog, Em, slog_app. apply in_or_app. left. apply last_some_in. exact L.
    - intros St. destruct (Cn St) as (s1 & m & Hin & Hc & K & T).
      apply in_map_iff in Hin as ([[d k0] en] & E & Hin). cbn in E. subst en. exists d, k0, s1, m. auto.
  Qed.

  (* (2b) agreement: when the hello the client holds is the one B signed last and B signed it for the
     client's public key, both ends hold the same key and the same token *)
  Theorem run_agreement_proof :
    (forall sk s m, verify (pub sk) s m = true <-> s = sign sk m) ->
    (forall x y, dh x (pub y) = dh y (pub x)) ->
    forall e a b root rand akeys other vs, ~ In root akeys ->
    dy_run e root akeys other (hnet0 a (Some (pub root)) b root rand) vs ->
    let n := jrun e (hnet0 a (Some (pub root)) b root rand) vs in
    forall rp p sg, h_adopted (jA n) = Some (rp, p, sg) ->
    last (map Some (signed_log (gB n))) None = Some (pub a, p) ->
    c_key (h_conn (jA n)) = Some (kdf (dh a (pub b)) (sp_salt p)) /\
    c_key (h_conn (jB n)) = c_key (h_conn (jA n)) /\
    c_token (h_conn (jA n)) = sp_token p /\ c_token (h_conn (jB n)) = sp_token p.
  Proof.
    intros VS DC e a b root rand akeys other vs NR DY n rp p sg Had Hl.
    pose proof (JA_run VS a root akeys other NR e vs _ (JA_init a b root other rand) DY) as [HR _ _].
    pose proof (JB_run b root e vs _ (JB_init b root a (Some (pub root)) rand)) as [HB _].
    fold n in HR, HB. destruct HR as (_ & _ & _ & AK). destruct HB as (_ & KR & _).
    rewrite Had in AK. destruct AK as (_ & KA & TA).
    unfold keyrel in KR. rewrite <- signed_log_slog, Hl in KR. destruct KR as (KB & TB & P).
    unfold HsNet.client_key in KA. unfold HsNet.server_key in KB. rewrite P in KA.
    split; [exact KA|]. split; [rewrite KA, KB, DC; reflexivity|]. auto.
  Qed.

  (* (2c/3) with the AES-GCM hypothesis for B: a connect report of B was caused by a datagram that A
     itself sealed, under a key A had derived from a hello signed by the root key holder *)
  Theorem run_connect_sealed_by_client_proof :
    (forall sk s m, verify (pub sk) s m = true <-> s = sign sk m) ->
    forall e a b root rand akeys other vs, ~ In root akeys ->
    dy_run e root akeys other (hnet0 a (Some (pub root)) b root rand) vs ->
    sealed_run e (hnet0 a (Some (pub root)) b root rand) vs ->
    let n := jrun e (hnet0 a (Some (pub root)) b root rand) vs in
    forall d k0 sB ty m, In (d, k0, (sB, ty, m)) (gB n) -> connects (sB, ty, m) = true ->
    exists k, k0 = Some k /\ authentic k d /\ In d (jAB n) /\
      exists dA kA sA rp pl sg, In (dA, kA, (sA, SERVER_HELLO, MServerHello rp pl sg)) (gA n) /\
        verify (pub root) sg pl = true /\ sg = sign root pl /\
        (In pl other \/ exists cpub, In (cpub, pl) (signed_log (gB n))) /\
        k = client_key a pl.
  Proof.
    intros VS e a b root rand akeys other vs NR DY SR n d k0 sB ty m Hj Hc.
    pose proof (JA_run VS a root akeys other NR e vs _ (JA_init a b root other rand) DY) as [HR _ HW].
    assert (HS0 : SB_inv (hnet0 a (Some (pub root)) b root rand)) by (intros ? ? ? []).
    pose proof (SB_run e vs _ HS0 SR) as HS.
    fold n in HR, HW, HS.
    destruct (run_connect_proof e a (Some (pub root)) b root rand vs) as [CP _]. fold n in CP.
    destruct (CP _ _ _ _ _ Hj Hc) as (_ & _ & _ & (k & -> & Au) & _).
    exists k. split; [reflexivity|]. split; [exact Au|].
    pose proof (HS _ _ _ Hj) as Hd. split; [exact Hd|].
    destruct Au as (pl0 & Hb & _).
    destruct (HW _ _ _ _ Hd Hb) as (en & rp & pl & sg & Hin & Ha & K).
    destruct HR as (_ & _ & AD & _). destruct (AD _ _ _ _ Hin Ha) as [Sg InG].
    apply in_map_iff in Hin as ([[dA kA] en'] & E & Hin). cbn in E. subst en'.
    destruct en as [[sA ty'] m']. destruct Ha as (-> & -> & _).
    exists dA, kA, sA, rp, pl, sg. split; [exact Hin|]. split; [apply VS; exact Sg|]. split; [exact Sg|]. split; [|exact K].
    unfold HsNet.genuine_payloads in InG. apply in_app_or in InG as [X|X]; [left; exact X|right].
    apply in_map_iff in X as ([cpub p'] & E & X). cbn in E. subst p'. exists cpub. exact X.
  Qed.

  (* (3) the replayed hello: if no key the client ever derived from a verified hello is a key B held
     when a datagram arrived, B never reports connect and is never CONNECTED *)
  Theorem run_foreign_hello_never_completes_proof :
    (forall sk s m, verify (pub sk) s m = true <-> s = sign sk m) ->
    forall e a b root rand akeys other vs, ~ In root akeys ->
    dy_run e root akeys other (hnet0 a (Some (pub root)) b root rand) vs ->
    sealed_run e (hnet0 a (Some (pub root)) b root rand) vs ->
    let n := jrun e (hnet0 a (Some (pub root)) b root rand) vs in
    (forall dA kA sA rp pl sg, In (dA, kA, (sA, SERVER_HELLO, MServerHello rp pl sg)) (gA n) ->
       verify (pub root) sg pl = true ->
       forall d k0 en, In (d, k0, en) (gB n) -> k0 <> Some (client_key a pl)) ->
    (forall j, In j (gB n) -> connects (snd j) = false) /\ c_status (h_conn (jB n)) <> CONNECTED.
  Proof.
    intros VS e a b root rand akeys other vs NR DY SR n Hf.
    assert (NC : forall j, In j (gB n) -> connects (snd j) = false).
    { intros [[d k0] [[sB ty] m]] Hj. cbn [snd]. destruct (connects (sB, ty, m)) eqn:Hc; [exfalso|reflexivity].
      destruct (run_connect_sealed_by_client_proof VS e a b root rand akeys other vs NR DY SR _ _ _ _ _ Hj Hc)
        as (k & -> & _ & _ & dA & kA & sA & rp & pl & sg & Hin & V & _ & _ & ->).
      exact (Hf _ _ _ _ _ _ Hin V _ _ _ Hj eq_refl). }
    split; [exact NC|]. intros St.
    destruct (run_connect_proof e a (Some (pub root)) b root rand vs) as [_ CP]. fold n in CP.
    destruct (CP St) as (d & k0 & sB & m & Hin & Hc & _). pose proof (NC _ Hin) as X. cbn [snd] in X. congruence.
  Qed.

  (* the joint history IS a Net.v history of the two Conn.v endpoints: each joint step is Net.nstep
     on the projected state, with the oracle answers computed symbolically *)
  Theorem jstep_is_nstep_proof : forall e (n : hnet) v,
    let n1 := nstep e (net_of SIG n) (nev_of SIG pub sign verify dh kdf parse ser_shello ser_chal n v) in
    let n' := jstep e n v in
    nA n1 = h_conn (jA n') /\ nB n1 = h_conn (jB n') /\ wAB n1 = jAB n' /\ wBA n1 = jBA n'.
  Proof.
    intros e n v. destruct v as [x|x]; cbn [HsNet.jstep HsNet.nev_of nstep HsNet.net_of nA nB wAB wBA].
    - destruct (hstep e (jA n) x) as [a' o] eqn:H. apply hstep_is_step_proof in H. rewrite H. cbn. auto.
    - destruct (hstep e (jB n) x) as [b' o] eqn:H. apply hstep_is_step_proof in H. rewrite H. cbn. auto.
  Qed.

  (* (2) the honest complete handshake inside ANY history: the client holds the hello B signed last, B
     signed it for the client's public key, B is CONNECTED.  Then both ends hold the same key and token,
     and B's connect report was caused by a challenge response with that token, processed while B held
     that key, in a datagram authentic under the key B held when it arrived *)
  Theorem run_honest_complete_proof :
    (forall sk s m, verify (pub sk) s m = true <-> s = sign sk m) ->
    (forall x y, dh x (pub y) = dh y (pub x)) ->
    forall e a b root rand akeys other vs, ~ In root akeys ->
    dy_run e root akeys other (hnet0 a (Some (pub root)) b root rand) vs ->
    let n := jrun e (hnet0 a (Some (pub root)) b root rand) vs in
    forall rp p sg, h_adopted (jA n) = Some (rp, p, sg) ->
    last (map Some (signed_log (gB n))) None = Some (pub a, p) ->
    c_status (h_conn (jB n)) = CONNECTED ->
    c_key (h_conn (jA n)) = Some (kdf (dh a (pub b)) (sp_salt p)) /\
    c_key (h_conn (jB n)) = c_key (h_conn (jA n)) /\
    c_token (h_conn (jA n)) = sp_token p /\ c_token (h_conn (jB n)) = sp_token p /\
    exists d k0 sB, In (d, k0, (sB, CHALLENGE_RESP, MChallenge (sp_token p))) (gB n) /\
      connects (sB, CHALLENGE_RESP, MChallenge (sp_token p)) = true /\
      c_key (h_conn sB) = c_key (h_conn (jB n)) /\ c_token (h_conn sB) = sp_token p /\
      exists k, k0 = Some k /\ authentic k d.
  Proof.
    intros VS DC e a b root rand akeys other vs NR DY n rp p sg Had Hl St.
    destruct (run_agreement_proof VS DC e a b root rand akeys other vs NR DY rp p sg Had Hl) as (KA & KB & TA & TB).
    fold n in KA, KB, TA, TB. repeat (split; [assumption|]).
    destruct (run_connect_proof e a (Some (pub root)) b root rand vs) as [C1 C2]. fold n in C1, C2.
    destruct (C2 St) as (d & k0 & sB & m & Hin & Hc & K & T).
    destruct (C1 _ _ _ _ _ Hin Hc) as (_ & -> & _ & Au & _).
    exists d, k0, sB. rewrite T, TB in *. auto.
  Qed.
End Run.
