(* HsRunP.v — C02 at run level: invariants of the joint handshake history of Model/HsNet.v.

   Part 1 is a proof rule for Handshake.hstep: a predicate over (endpoint state, handshake log) that
   survives (a) every change of the connection that leaves key / role / token alone and does not
   newly reach CONNECTED and (b) one handshake message (Handshake.hs_step + Handshake.note, the
   message appended to the log) survives every event, with the log of that event appended.
   Parts 2-3 instantiate it for the client (authentication) and the server-side connection
   (key / token / connect), part 4 joins the two endpoints. *)
From Coq Require Import Lia ZifyBool.
From RecordUpdate Require Import RecordUpdate.
From Model Require Import Base SeqNum Wire Conn Handshake Net HsNet.
From Proofs Require Import Tac ConnFrameP ClearP HandshakeP.
Import RecordSetNotations.
Open Scope Z_scope.

(* the changes that are not the handshake's: key, role, token stay, CONNECTED is not newly reached *)
Definition qrel (c c' : conn) : Prop :=
  c_key c' = c_key c /\ c_server c' = c_server c /\ c_token c' = c_token c /\
  (c_status c' = CONNECTED -> c_status c = CONNECTED).

Lemma qrel_refl c : qrel c c. Proof. repeat split; auto. Qed.
Lemma qrel_trans a b c : qrel a b -> qrel b c -> qrel a c.
Proof. unfold qrel. intros (A1 & A2 & A3 & A4) (B1 & B2 & B3 & B4). repeat split; try congruence. auto. Qed.
Lemma same_st_qrel c c' : same_st c c' -> qrel c c'.
Proof. intros [(A & B & C) D]. repeat split; auto. congruence. Qed.
Lemma same_qrel c c' : same c c' -> (c_status c' = CONNECTED -> c_status c = CONNECTED) -> qrel c c'.
Proof. intros (A & B & C) D. repeat split; auto. Qed.

Lemma olast_app_one {A} (l : list A) x : last (map Some (l ++ [x])) None = Some x.
Proof. rewrite map_app. cbn. apply last_last. Qed.

Section Run.
  Variable SIG : Type.
  Variable pub : Z -> Z.
  Variable sign : Z -> sh_payload -> SIG.
  Variable verify : Z -> SIG -> sh_payload -> bool.
  Variable dh : Z -> Z -> Z.
  Variable kdf : Z -> Z -> Z.
  Variable parse : list byte -> hmsg SIG.
  Variable ser_shello : Z -> sh_payload -> SIG -> list byte.
  Variable ser_chal : Z -> list byte.

  Notation hstate := (hstate SIG).
  Notation hmsg := (hmsg SIG).
  Notation hentry := (hentry SIG).
  Notation jentry := (jentry SIG).
  Notation hnet := (hnet SIG).
  Notation oracle_of := (oracle_of SIG pub sign verify dh kdf ser_shello ser_chal).
  Notation hs_step := (hs_step SIG pub sign verify dh kdf ser_shello ser_chal).
  Notation hwalk := (hwalk SIG pub sign verify dh kdf parse ser_shello ser_chal).
  Notation hrecv := (hrecv SIG pub sign verify dh kdf parse ser_shello ser_chal).
  Notation hstep := (hstep SIG pub sign verify dh kdf parse ser_shello ser_chal).
  Notation hmsg1 := (hmsg1 SIG pub sign verify dh kdf parse ser_shello ser_chal).
  Notation lwalk := (lwalk SIG pub sign verify dh kdf parse ser_shello ser_chal).
  Notation recv_log := (recv_log SIG pub sign verify dh kdf parse ser_shello ser_chal).
  Notation ev_log := (ev_log SIG pub sign verify dh kdf parse ser_shello ser_chal).
  Notation tag_log := (tag_log SIG pub sign verify dh kdf parse ser_shello ser_chal).
  Notation jstep := (jstep SIG pub sign verify dh kdf parse ser_shello ser_chal).
  Notation jrun := (jrun SIG pub sign verify dh kdf parse ser_shello ser_chal).
  Notation note := (note SIG).
  Notation with_bf := (with_bf SIG).

  (* ---------- part 1: the proof rule ---------- *)

  Lemma oracle_of_with_bf (s : hstate) bf ty m : oracle_of (with_bf s bf) ty m = oracle_of s ty m.
  Proof. destruct s as [c ? ? ? ? ? ? ?]. destruct c. reflexivity. Qed.

  Lemma note_with_bf (s : hstate) bf ty m o c1 o1 : note (with_bf s bf) ty m o c1 o1 = note s ty m o c1 o1.
  Proof. destruct s as [c ? ? ? ? ? ? ?]. unfold Handshake.note, HsNet.with_bf. cbn. reflexivity. Qed.

  Lemma hwalk_cons (s : hstate) now m r :
    hwalk s now (m :: r) =
    match bf_insert (c_bf_msg (h_conn s)) (w_seq m) with
    | Err _ => let '(s', out, orcs) := hwalk s now r in
               (s', out, if is_hs (w_type m) then oracle_of s (w_type m) (parse (w_payload m)) :: orcs else orcs)
    | Ok bf =>
        let '(s1, o1) := hmsg1 s now m bf in
        if raised o1 then (s1, o1, if is_hs (w_type m) then [oracle_of s (w_type m) (parse (w_payload m))] else [])
        else let '(s2, o2, orcs) := hwalk s1 now r in
             (s2, o1 ++ o2, if is_hs (w_type m) then oracle_of s (w_type m) (parse (w_payload m)) :: orcs else orcs)
    end.
  Proof.
    cbn [Handshake.hwalk]. destruct (bf_insert (c_bf_msg (h_conn s)) (w_seq m)) as [bf|]; [|reflexivity].
    unfold HsNet.hmsg1.
    match goal with |- context [let '(c1, o1) := ?X in _] => destruct X as [c1 o1] end.
    reflexivity.
  Qed.

  (* one handshake-typed message is hs_step in the state with_bf s bf, followed by note *)
  Lemma hmsg1_hs (s : hstate) now m bf : is_hs (w_type m) = true ->
    hmsg1 s now m bf =
    let sb := with_bf s bf in
    let hm := parse (w_payload m) in
    let '(c1, o1) := hs_step sb (w_type m) hm in
    (note sb (w_type m) hm (oracle_of sb (w_type m) hm) c1 o1, o1).
  Proof.
    intros Hs. unfold HsNet.hmsg1, Handshake.hs_step. cbv zeta.
    rewrite oracle_of_with_bf.
    change (h_conn (with_bf s bf)) with ((h_conn s) <| c_bf_msg := bf |>).
    destruct (w_type m); try discriminate Hs; cbn [is_hs];
      destruct (recv_handshake _ _ _) as [c1 o1]; rewrite note_with_bf; reflexivity.
  Qed.

  (* any other message changes the connection by qrel only *)
  Lemma hmsg1_other (s : hstate) now m bf : is_hs (w_type m) = false ->
    exists c1, fst (hmsg1 s now m bf) = s <| h_conn := c1 |> /\ qrel (h_conn s) c1.
  Proof.
    intros Hs. unfold HsNet.hmsg1. cbv zeta.
    assert (Q0 : qrel (h_conn s) ((h_conn s) <| c_bf_msg := bf |>)) by (repeat split; auto).
    destruct (w_type m); try discriminate Hs; cbn [is_hs fst].
    - eexists; split; [reflexivity|exact Q0].
    - eexists; split; [reflexivity|exact Q0].
    - eexists; split; [reflexivity|]. repeat split; auto. cbn. discriminate.
    - eexists; split; [reflexivity|]. repeat split; auto.
    - destruct (recv_fragment_same ((h_conn s) <| c_bf_msg := bf |>) now (w_seq m) (w_payload m)) as [S _].
      destruct (recv_fragment _ now (w_seq m) (w_payload m)) as [c1 o1]. cbn [fst] in *.
      eexists; split; [reflexivity|]. eapply qrel_trans; [exact Q0|apply same_st_qrel; exact S].
  Qed.

  Section Rule.
    Variable R : hstate -> list hentry -> Prop.     (* state and log so far *)
    Variable Pm : hmsg -> Prop.                     (* what is known of the messages presented *)
    Hypothesis R_q : forall (s : hstate) g c', qrel (h_conn s) c' -> R s g -> R (s <| h_conn := c' |>) g.
    Hypothesis R_hs : forall (s : hstate) g ty hm c1 o1, is_hs ty = true -> Pm hm -> R s g ->
      hs_step s ty hm = (c1, o1) -> R (note s ty hm (oracle_of s ty hm) c1 o1) (g ++ [(s, ty, hm)]).

    Lemma R_same (s : hstate) g : R s g -> R (s <| h_conn := h_conn s |>) g.
    Proof. apply R_q. apply qrel_refl. Qed.

    Lemma hwalk_R now ms : forall (s : hstate) g s' o orcs,
      Forall (fun w => Pm (parse (w_payload w))) ms -> R s g ->
      hwalk s now ms = (s', o, orcs) -> R s' (g ++ lwalk s now ms).
    Proof.
      induction ms as [|m r IH]; intros s g s' o orcs HP HR H.
      - inversion H; subst. cbn. rewrite app_nil_r. exact HR.
      - inversion HP as [|? ? Pm1 HP']; subst. rewrite hwalk_cons in H. cbn [HsNet.lwalk].
        destruct (bf_insert (c_bf_msg (h_conn s)) (w_seq m)) as [bf|].
        2:{ destruct (hwalk s now r) as [[s1 o1] orcs1] eqn:W. inversion H; subst. eapply IH; eauto. }
        destruct (hmsg1 s now m bf) as [s1 o1] eqn:M1.
        assert (R1 : R s1 (g ++ (if is_hs (w_type m) then [(with_bf s bf, w_type m, parse (w_payload m))] else []))).
        { destruct (is_hs (w_type m)) eqn:Hs.
          - rewrite (hmsg1_hs _ _ _ _ Hs) in M1. cbv zeta in M1.
            destruct (hs_step (with_bf s bf) (w_type m) (parse (w_payload m))) as [c1 o1'] eqn:St.
            inversion M1; subst. apply R_hs; auto.
            unfold HsNet.with_bf. apply R_q; [repeat split; auto|exact HR].
          - destruct (hmsg1_other s now m bf Hs) as (c1 & E1 & Q1). rewrite M1 in E1. cbn in E1. subst s1.
            rewrite app_nil_r. apply R_q; auto. }
        destruct (raised o1).
        + inversion H; subst. exact R1.
        + destruct (hwalk s1 now r) as [[s2 o2] orcs2] eqn:W. inversion H; subst.
          rewrite app_assoc. eapply IH; eauto.
    Qed.

    Lemma hrecv_R (s : hstate) g now d s' o :
      (forall m, msg_in SIG parse d m -> Pm m) -> R s g -> hrecv s now d = (s', o) -> R s' (g ++ recv_log s now d).
    Proof.
      intros HP HR H. unfold Handshake.hrecv in H. unfold HsNet.recv_log.
      assert (Drop : R (s <| h_conn := (h_conn s) <| c_dropped := c_dropped (h_conn s) + 1 |> |>) (g ++ [])).
      { rewrite app_nil_r. apply R_q; [repeat split; auto|exact HR]. }
      destruct (keyless_refuses (h_conn s) (d_hdr d)); [inversion H; subst; exact Drop|].
      destruct (open_dgram (c_key (h_conn s)) d) as [ms|] eqn:OD; [|inversion H; subst; exact Drop].
      destruct (bf_insert (c_bf_pkt (h_conn s)) (h_seq (d_hdr d))) as [bf|]; [|inversion H; subst; exact Drop].
      match type of H with context [handle_ack_bits ?c0 _] => set (cc := c0) in * end.
      destruct (handle_ack_bits_same cc (d_hdr d)) as [S1 _].
      destruct (handle_ack_bits cc (d_hdr d)) as [c1 o1]. cbn [fst] in S1.
      destruct (hwalk (s <| h_conn := c1 |>) now ms) as [[s2 o2] orcs] eqn:W. inversion H; subst.
      eapply hwalk_R; [| |exact W].
      - apply Forall_forall. intros w Hw. apply HP. exists (c_key (h_conn s)), ms, w. auto.
      - apply R_q; [|exact HR]. eapply qrel_trans; [|apply same_st_qrel; exact S1].
        subst cc. repeat split; auto.
    Qed.

    Lemma client_update_qrel c now : qrel c (fst (client_update c now)).
    Proof.
      unfold client_update. repeat match goal with |- context [if ?b then _ else _] => destruct b end;
        cbn; repeat split; auto; cbn; try discriminate.
    Qed.

    Lemma tick_tail_qrel strict e c now :
      qrel c (fst (check_timeout strict (fst (build_packet e c now)) now)).
    Proof.
      apply same_st_qrel. eapply same_st_trans; [apply build_packet_same|apply check_timeout_same].
    Qed.

    Lemma step_free_qrel e c x : oracle_free x = true -> qrel c (fst (step e c x)).
    Proof.
      intros OF. destruct x; try discriminate OF; cbn [step].
      - (* send *)
        destruct (send e c p r k) as [c' o] eqn:E. apply send_frame in E as [[[S] K St _ _ _ _ _ _ T] _].
        cbn. repeat split; auto. congruence.
      - unfold server_tick. destruct (_ >? _); [|apply qrel_refl].
        pose proof (tick_tail_qrel true e c now) as Q.
        destruct (build_packet e c now) as [c1 pk]. cbn [fst] in Q. destruct (check_timeout true c1 now) as [c2 o2]. exact Q.
      - cbn. unfold disconnect. repeat split; try (destruct (_ || _); reflexivity). cbn. discriminate.
      - cbn. destruct which as [|[[q|q|]|[q|q|]|]|q]; repeat split; auto.
      - cbn. repeat split; auto.
      - cbn. repeat split; auto.
    Qed.

    Lemma ev_log_nil (s : hstate) x : hev_dgram x = None -> ev_log s x = [].
    Proof. destruct x as [? ?|? [| |?]| |]; cbn; try discriminate; reflexivity. Qed.

    (* the rule: every event of an endpoint *)
    Theorem hstep_R e (s : hstate) g x s' o :
      (forall d m, hev_dgram x = Some d -> msg_in SIG parse d m -> Pm m) ->
      R s g -> hstep e s x = (s', o) -> R s' (g ++ ev_log s x).
    Proof.
      intros HP HR H. destruct x as [now d|now r|now hello|x]; cbn [Handshake.hstep HsNet.ev_log] in *.
      - eapply hrecv_R; [|exact HR|exact H]. intros m Hm. eapply HP; [reflexivity|exact Hm].
      - unfold Handshake.hclient_tick in H.
        pose proof (client_update_qrel (h_conn s) now) as Q0.
        destruct (client_update (h_conn s) now) as [c0 o0]. cbn [fst] in *. cbn [h_conn] in H.
        change (h_conn (s <| h_conn := c0 |>)) with c0 in H.
        assert (R0 : R (s <| h_conn := c0 |>) g) by (apply R_q; auto).
        destruct (status_eqb (c_status c0) DROPPED).
        { inversion H; subst. destruct r; rewrite app_nil_r; exact R0. }
        assert (X : exists s1 o1, match r with
                    | HxNone => (s <| h_conn := c0 |>, [])
                    | HxBad er => (s <| h_conn := c0 |>, [ORaise er])
                    | HxDgram d => let '(s', o') := hrecv (s <| h_conn := c0 |>) now d in
                                   (s', filter (fun x => match x with ORet _ => false | _ => true end) o')
                    end = (s1, o1) /\
                    R s1 (g ++ match r with HxDgram d => recv_log (s <| h_conn := c0 |>) now d | _ => [] end)).
        { destruct r as [|er|d]; try (do 2 eexists; split; [reflexivity|rewrite app_nil_r; exact R0]).
          destruct (hrecv (s <| h_conn := c0 |>) now d) as [s1 o1] eqn:Rv.
          do 2 eexists; split; [reflexivity|]. eapply hrecv_R; [|exact R0|exact Rv].
          intros m Hm. eapply HP; [reflexivity|exact Hm]. }
        destruct X as (s1 & o1 & EX & R1).
        assert (G : match r with HxDgram d => recv_log (s <| h_conn := c0 |>) now d | _ => [] end =
                    match r with HxDgram d => recv_log (s <| h_conn := c0 |>) now d | _ => [] end) by reflexivity.
        assert (Fin : forall s2, (s2 = s1 \/ exists c2, s2 = s1 <| h_conn := c2 |> /\ qrel (h_conn s1) c2) ->
                  R s2 (g ++ match r with HxNone => [] | HxBad _ => [] | HxDgram d => recv_log (s <| h_conn := c0 |>) now d end)).
        { intros s2 [->|(c2 & -> & Q2)]; [|apply R_q; auto]; destruct r; exact R1. }
        clear G.
        match type of H with context [let '(s, o1) := ?X in _] => replace X with (s1, o1) in H end.
        destruct (raised o1); [inversion H; subst; apply Fin; left; reflexivity|].
        destruct (_ >? _); [|inversion H; subst; apply Fin; left; reflexivity].
        pose proof (tick_tail_qrel false e (h_conn s1) now) as Q.
        destruct (build_packet e (h_conn s1) now) as [c2 pk]. cbn [fst] in Q. destruct (check_timeout false c2 now) as [c3 o3].
        inversion H; subst. apply Fin. right. eexists; split; [reflexivity|exact Q].
      - inversion H; subst. rewrite app_nil_r. apply R_q; [|exact HR].
        unfold client_hello, send_type. cbn. repeat split; auto. cbn. discriminate.
      - rewrite app_nil_r. destruct (oracle_free x) eqn:OF; [|inversion H; subst; exact HR].
        pose proof (step_free_qrel e (h_conn s) x OF) as Q.
        destruct (step e (h_conn s) x) as [c1 o1]. inversion H; subst. apply R_q; auto.
    Qed.
  End Rule.
End Run.
