(* IdleP.v — C12, the two-endpoint composition (Model/TimedNet.v): an established idle pair over a
   network that shows every datagram to the peer within d, both sides ticking at least every tau,
   never times out, and each side emits a KEEP_ALIVE at least every max(K, send interval) + tau.
   Part 1: what one update() / one received datagram does to an idle endpoint.
   Part 2: the window accepts the first copy of every datagram (SeqNumP.R over true indices).
   Part 3: the joint invariant and its induction over timed histories. *)
From Coq Require Import Lia ZifyBool.
From RecordUpdate Require Import RecordUpdate.
From Model Require Import Base SeqNum Wire Conn Client Net TimedNet.
From Proofs Require Import Tac SeqNumP ConnFrameP.
Import RecordSetNotations.
Open Scope Z_scope.

(* ================= Part 1: one endpoint ================= *)

(* nothing queued, nothing to retry, no RetrySender callback pending *)
Definition quiet (c : conn) : Prop :=
  c_outgoing c = [] /\ c_pretry_msg c = [] /\ plain_pcbs (c_pcbs c) = true.

Lemma fire_icb_q c i ok c' o : fire_icb c i ok = (c', o) ->
  c_outgoing c' = c_outgoing c /\ c_pretry_msg c' = c_pretry_msg c /\ c_pcbs c' = c_pcbs c.
Proof.
  unfold fire_icb. intros E.
  destruct i; try (injection E as <- <-; auto).
  destruct (dget fid (c_pfrags c)) as [fs|]; [|injection E as <- <-; auto].
  destruct (forallb is_some _); injection E as <- <-; auto.
Qed.

Lemma fire_all_q ks : forall c ok c' o, forallb plain_cb ks = true -> fire_all c ks ok = (c', o) ->
  c_outgoing c' = c_outgoing c /\ c_pretry_msg c' = c_pretry_msg c /\ c_pcbs c' = c_pcbs c.
Proof.
  induction ks as [|k ks IH]; intros c ok c' o Hp E; cbn [fire_all] in E.
  - injection E as <- <-. auto.
  - cbn [forallb] in Hp. apply andb_prop in Hp as [Hk Hks].
    destruct (fire_cb c k ok) as [c1 o1] eqn:E1. destruct (fire_all c1 ks ok) as [c2 o2] eqn:E2.
    injection E as <- <-. destruct k as [i|]; [|discriminate]. cbn [fire_cb] in E1.
    apply fire_icb_q in E1 as (A1 & A2 & A3). destruct (IH _ _ _ _ Hks E2) as (B1 & B2 & B3).
    repeat split; congruence.
Qed.

Lemma plain_pcbs_ddel s l : plain_pcbs l = true -> plain_pcbs (ddel s l) = true.
Proof.
  unfold plain_pcbs, ddel. intros H. rewrite forallb_forall in *. intros x Hx.
  apply filter_In in Hx as [Hx _]. auto.
Qed.

Lemma plain_pcbs_dget s l ks : plain_pcbs l = true -> dget s l = Some ks -> forallb plain_cb ks = true.
Proof.
  unfold plain_pcbs. induction l as [|[k v] r IH]; cbn [dget forallb]; [discriminate|].
  intros H E. apply andb_prop in H as [H1 H2]. destruct (s =? k); [injection E as <-; exact H1|auto].
Qed.

Lemma fold_ddel_nil {A} (ms : list Z) : fold_left (fun (d : list (Z * A)) m => ddel m d) ms [] = [].
Proof. induction ms as [|m r IH]; cbn; auto. Qed.

Lemma resolve_q ok c s c' o : quiet c -> resolve ok c s = (c', o) -> quiet c'.
Proof.
  unfold resolve. intros (Q1 & Q2 & Q3) E.
  set (c0 := if ok then _ else _) in E.
  assert (H0 : c_outgoing c0 = [] /\ c_pretry_msg c0 = [] /\ plain_pcbs (c_pcbs c0) = true)
    by (subst c0; destruct ok; cbn; auto).
  destruct H0 as (A1 & A2 & A3).
  destruct (dget s (c_pcbs c0)) as [ks|] eqn:Eg.
  - destruct (fire_all c0 ks ok) as [c1 o1] eqn:E1.
    apply fire_all_q in E1 as (B1 & B2 & B3); [|eapply plain_pcbs_dget; eassumption].
    injection E as <- <-. unfold quiet.
    match goal with |- context [dget s (c_pretry ?x)] => destruct (dget s (c_pretry x)) end;
      cbn; rewrite ?B1, ?B2, ?B3, ?A1, ?A2, ?fold_ddel_nil;
      (split; [reflexivity|split; [reflexivity|apply plain_pcbs_ddel; exact A3]]).
  - injection E as <- <-. unfold quiet.
    match goal with |- context [dget s (c_pretry ?x)] => destruct (dget s (c_pretry x)) end;
      cbn; rewrite ?A1, ?A2, ?fold_ddel_nil; auto.
Qed.

Lemma ack_loop_q h snap : forall c c' o, quiet c -> ack_loop c h snap = (c', o) -> quiet c'.
Proof.
  induction snap as [|[s t] r IH]; intros c c' o Q E; cbn [ack_loop] in E.
  - injection E as <- <-. exact Q.
  - dpair E c1 o1 E1. destruct (ack_loop c1 h r) as [c2 o2] eqn:E2. injection E as <- <-.
    eapply IH; [|exact E2].
    destruct (hdr_acks _ _ s); [eapply resolve_q; eassumption|].
    destruct (_ >? _); [eapply resolve_q; eassumption|]. injection E1 as <- <-. exact Q.
Qed.

Lemma timeout_loop_q strict now snap : forall c c' o, quiet c -> timeout_loop strict c now snap = (c', o) -> quiet c'.
Proof.
  induction snap as [|[s t] r IH]; intros c c' o Q E; cbn [timeout_loop] in E.
  - injection E as <- <-. exact Q.
  - dpair E c1 o1 E1. destruct (timeout_loop strict c1 now r) as [c2 o2] eqn:E2. injection E as <- <-.
    eapply IH; [|exact E2].
    match type of E1 with (if ?b then _ else _) = _ => destruct b end; [eapply resolve_q; eassumption|].
    injection E1 as <- <-. exact Q.
Qed.

(* the facts about one endpoint of an idle pair that every step keeps *)
Record ep_ok (k K si : Z) (c : conn) : Prop := {
  eo_status : c_status c = CONNECTED;
  eo_key : c_key c = Some k;
  eo_quiet : quiet c;
  eo_hello : c_hello_sent c = 0;
  eo_ls : c_last_send c = c_last_ka c;
  eo_K : c_ka_interval c = K;
  eo_si : c_send_interval c = si }.

Lemma idle_ep_ok k c : idle_ep k c -> ep_ok k (c_ka_interval c) (c_send_interval c) c.
Proof. intros (A & B & C & D & E & F & G). constructor; auto. split; auto. Qed.

Lemma ep_ok_sess k K si c c' : same_sess c c' -> quiet c' -> ep_ok k K si c -> ep_ok k K si c'.
Proof.
  intros [[S1 S2 S3 S4 S5 S6 S7 S8] T1 T2 T3 T4 T5 T6 T7 T8 T9] Q [A B C D E F G].
  constructor; try congruence.
Qed.

(* what an update() may do on the sending side of an idle endpoint whose keep-alive period is M:
   nothing while the last packet is at most M old, else exactly one sealed KEEP_ALIVE carrying the
   next sequence number *)
Definition emit_eff (k M : Z) (c : conn) (now : Z) (c' : conn) (dgs : list dgram) : Prop :=
  (now - c_last_ka c <= M /\ dgs = [] /\ c_seq_send c' = c_seq_send c /\ c_last_ka c' = c_last_ka c)
  \/ (M < now - c_last_ka c /\ c_seq_send c' = seq_succ (c_seq_send c) /\ c_last_ka c' = now /\
      exists dg, dgs = [dg] /\ ka_dgram k dg /\ h_seq (d_hdr dg) = seq_succ (c_seq_send c)).

(* ... and on the receiving side: an accepted datagram moves the window and sets the liveness
   clock, anything else leaves both *)
Definition rx_post (c : conn) (now : Z) (r : rx) (c' : conn) : Prop :=
  match r with
  | RxDgram d _ =>
      match open_dgram (c_key c) d, bf_insert (c_bf_pkt c) (h_seq (d_hdr d)) with
      | Ok _, Ok bf => c_bf_pkt c' = bf /\ c_last_recv c' = now
      | _, _ => c_bf_pkt c' = c_bf_pkt c /\ c_last_recv c' = c_last_recv c
      end
  | _ => c_bf_pkt c' = c_bf_pkt c /\ c_last_recv c' = c_last_recv c
  end.

Definition rx_good (k : Z) (r : rx) : Prop :=
  match r with
  | RxNone => True
  | RxBadHeader _ => False
  | RxDgram d _ => ka_dgram k d \/ forall ms, open_dgram (Some k) d <> Ok ms
  end.

Lemma dg_no_emit o : no_emit o -> flat_map dg_of o = [].
Proof.
  induction o as [|x r IH]; intros H; [reflexivity|]. cbn [flat_map].
  rewrite IH by (intros y Hy; apply H; right; exact Hy).
  specialize (H x (or_introl eq_refl)). destruct x; try reflexivity; discriminate.
Qed.

Lemma cb_only_not_raised o : cb_only o -> raised o = false.
Proof.
  unfold cb_only, raised. induction 1 as [|x r Hx _ IH]; [reflexivity|].
  cbn [existsb]. rewrite IH. destruct x; try reflexivity; destruct Hx.
Qed.

Lemma header_eqb_refl h : header_eqb h h = true.
Proof.
  unfold header_eqb, ptype_eqb. rewrite Bool.eqb_reflx, !Z.eqb_refl. reflexivity.
Qed.

Lemma open_ka k dg : ka_dgram k dg -> open_dgram (Some k) dg = Ok [].
Proof.
  intros (B & T & C & L). unfold open_dgram. rewrite B, T, C, L, Z.eqb_refl, header_eqb_refl. reflexivity.
Qed.

(* packet assembly on an idle endpoint, once update()'s rate gate has passed *)
Lemma build_packet_ep e c now k K si c' r :
  ep_ok k K si c -> si < now - c_last_send c -> build_packet e c now = (c', r) ->
  ep_ok k K si c' /\ c_last_recv c' = c_last_recv c /\ c_bf_pkt c' = c_bf_pkt c /\
  ((now - c_last_ka c <= K /\ r = None /\ c_seq_send c' = c_seq_send c /\ c_last_ka c' = c_last_ka c)
   \/ (K < now - c_last_ka c /\ c_seq_send c' = seq_succ (c_seq_send c) /\ c_last_ka c' = now /\
       exists h, r = Some (h, []) /\ h_type h = KEEP_ALIVE /\ h_count h = 0 /\ h_seq h = seq_succ (c_seq_send c))).
Proof.
  intros [Hs Hk (Q1 & Q2 & Q3) Hh Hls HK Hsi] Hg E. unfold build_packet in E.
  rewrite Hsi in E. assert (now - c_last_send c <? si = false) as Hr by lia. rewrite Hr in E.
  rewrite HK in E. unfold build_impl in E. rewrite Q2, Q1 in E. cbn [out_pass] in E.
  destruct (now - c_last_ka c >? K) eqn:Hka.
  - cbn in E. rewrite Hs in E. cbn in E. injection E as <- <-. cbn.
    split; [constructor; cbn; auto; repeat split; auto|].
    split; [reflexivity|]. split; [reflexivity|]. right.
    split; [lia|]. split; [reflexivity|]. split; [reflexivity|].
    eexists. split; [reflexivity|]. cbn. auto.
  - cbn in E. injection E as <- <-. cbn.
    split; [constructor; cbn; auto; repeat split; auto|].
    split; [reflexivity|]. split; [reflexivity|]. left. split; [lia|]. auto.
Qed.

Lemma emit_ka c k h : c_key c = Some k -> h_type h = KEEP_ALIVE -> h_count h = 0 ->
  exists dg, flat_map dg_of (emit c (h, [])) = [dg] /\ ka_dgram k dg /\ h_seq (d_hdr dg) = h_seq h.
Proof.
  intros Hk Ht Hc. unfold emit. cbn [map encode_msgs]. rewrite Hk. cbn [h_type]. rewrite Ht.
  cbn [ptype_eqb ptype_code Z.eqb negb flat_map dg_of app].
  eexists. split; [reflexivity|]. unfold ka_dgram. cbn. auto.
Qed.

(* the tail of update(): packet assembly, emission, time-out scan *)
Lemma tick_tail_ep strict e c now k K si c1 pk c2 o2 :
  ep_ok k K si c -> si < now - c_last_send c ->
  build_packet e c now = (c1, pk) -> check_timeout strict c1 now = (c2, o2) ->
  ep_ok k K si c2 /\ c_last_recv c2 = c_last_recv c /\ c_bf_pkt c2 = c_bf_pkt c /\
  emit_eff k (Z.max K si) c now c2 (match pk with Some p => flat_map dg_of (emit c2 p) | None => [] end) /\
  no_emit o2 /\ cb_only o2.
Proof.
  intros H Hg E1 E2.
  pose proof (eo_ls _ _ _ _ H) as Hls.
  destruct (build_packet_ep _ _ _ _ _ _ _ _ H Hg E1) as (H1 & R1 & B1 & D).
  pose proof (timeout_loop_cb_only _ _ _ _ _ _ E2) as C2.
  pose proof (timeout_loop_q _ _ _ _ _ _ (eo_quiet _ _ _ _ H1) E2) as Q2.
  apply check_timeout_frame in E2 as [S2 N2].
  pose proof (ep_ok_sess _ _ _ _ _ S2 Q2 H1) as H2.
  destruct S2 as [[S1 S2' S3 S4 S5 S6 S7 S8] T1 T2 T3 T4 T5 T6 T7 T8 T9].
  split; [exact H2|]. split; [congruence|]. split; [congruence|]. split; [|auto].
  destruct D as [(A1 & -> & A3 & A4)|(A1 & A3 & A4 & h & -> & Ht & Hc & Hq)].
  - left. repeat split; try congruence. lia.
  - right. split; [lia|]. split; [congruence|]. split; [congruence|].
    destruct (emit_ka c2 k h (eo_key _ _ _ _ H2) Ht Hc) as (dg & Ed & Kd & Sd).
    exists dg. split; [exact Ed|]. split; [exact Kd|congruence].
Qed.

Lemma server_tick_ep e c now k K si c' o :
  ep_ok k K si c -> server_tick e c now = (c', o) ->
  ep_ok k K si c' /\ c_last_recv c' = c_last_recv c /\ c_bf_pkt c' = c_bf_pkt c /\
  emit_eff k (Z.max K si) c now c' (flat_map dg_of o).
Proof.
  intros H E. unfold server_tick in E. pose proof (eo_ls _ _ _ _ H) as Hls. pose proof (eo_si _ _ _ _ H) as Hsi.
  destruct (now - c_last_send c >? c_send_interval c) eqn:Hg.
  - destruct (build_packet e c now) as [c1 pk] eqn:E1.
    destruct (check_timeout true c1 now) as [c2 o2] eqn:E2. injection E as <- <-.
    assert (Hg' : si < now - c_last_send c) by lia.
    destruct (tick_tail_ep _ _ _ _ _ _ _ _ _ _ _ H Hg' E1 E2) as (H2 & R & B & D & N & _).
    split; [exact H2|]. split; [exact R|]. split; [exact B|].
    rewrite flat_map_app, (dg_no_emit _ N). cbn [app]. destruct pk; exact D.
  - injection E as <- <-. split; [exact H|]. split; [reflexivity|]. split; [reflexivity|].
    left. cbn. repeat split; auto. lia.
Qed.

(* a received datagram that is a peer keep-alive or junk *)
Lemma recv_ep c now d orcs k K si c' o :
  ep_ok k K si c -> (ka_dgram k d \/ forall ms, open_dgram (Some k) d <> Ok ms) ->
  recv c now d orcs = (c', o) ->
  ep_ok k K si c' /\ c_seq_send c' = c_seq_send c /\ c_last_ka c' = c_last_ka c /\ c_last_send c' = c_last_send c /\
  raised o = false /\ no_emit o /\ rx_post c now (RxDgram d orcs) c'.
Proof.
  intros H Hd E. pose proof E as E0. apply recv_frame in E0 as [[S1 S2 S3 S4 S5 S6 S7 S8] Ne].
  unfold rx_post. unfold recv in E. pose proof (eo_key _ _ _ _ H) as Hk.
  unfold keyless_refuses in E. rewrite Hk in E. cbn [is_some negb andb] in E. rewrite Hk.
  assert (Hdrop : ep_ok k K si (c <| c_dropped := c_dropped c + 1 |>)).
  { destruct H as [A B (Q1 & Q2 & Q3) D F G I]. constructor; cbn; auto. split; auto. }
  destruct (open_dgram (Some k) d) as [ms|er] eqn:Eo.
  2:{ injection E as <- <-. split; [exact Hdrop|]. cbn. repeat split; auto. }
  destruct Hd as [Hd|Hd]; [|exfalso; eapply Hd; reflexivity].
  rewrite (open_ka _ _ Hd) in Eo. injection Eo as <-.
  destruct (bf_insert (c_bf_pkt c) (h_seq (d_hdr d))) as [bf|er] eqn:Eb.
  2:{ injection E as <- <-. split; [exact Hdrop|]. cbn. repeat split; auto. }
  set (c0 := c <| c_bf_pkt := bf |> <| c_received := _ |> <| c_last_recv := now |>) in E.
  destruct (handle_ack_bits c0 (d_hdr d)) as [c1 o1] eqn:E1. cbn [recv_msgs] in E. injection E as <- <-.
  assert (H0 : ep_ok k K si c0).
  { destruct H as [A B (Q1 & Q2 & Q3) D F G I]. subst c0. constructor; cbn; auto. split; auto. }
  pose proof (ack_loop_cb_only _ _ _ _ _ E1) as C1.
  pose proof (ack_loop_q _ _ _ _ _ (eo_quiet _ _ _ _ H0) E1) as Q1.
  apply handle_ack_bits_frame in E1 as [S N].
  pose proof (ep_ok_sess _ _ _ _ _ S Q1 H0) as H1.
  destruct S as [_ T1 T2 T3 T4 T5 T6 T7 T8 T9].
  split; [exact H1|]. split; [exact S2|]. split; [exact S4|]. split; [exact S3|].
  split.
  { unfold raised. rewrite existsb_app. fold (raised o1). rewrite (cb_only_not_raised _ C1). reflexivity. }
  split; [exact Ne|]. split; [rewrite T6; reflexivity|rewrite T3; reflexivity].
Qed.

(* UdpClient.update on an idle client that is not about to report DROPPED *)
Lemma client_tick_ep e c now r k K si c' o :
  ep_ok k K si c -> (c_last_recv c <= 0 \/ now <= c_last_recv c + 5 * TICKS) -> rx_good k r ->
  client_tick e c now r = (c', o) ->
  ep_ok k K si c' /\ rx_post c now r c' /\ emit_eff k (Z.max K si) c now c' (flat_map dg_of o).
Proof.
  intros H Hl Hr E. unfold client_tick, client_update in E.
  assert ((c_last_recv c >? 0) && (now >? c_last_recv c + 5 * TICKS) = false) as Hd by lia. rewrite Hd in E.
  rewrite (eo_hello _ _ _ _ H) in E. cbn [Z.eqb negb andb] in E.
  rewrite (eo_status _ _ _ _ H) in E. cbn [status_eqb status_code Z.eqb app] in E.
  match type of E with context [match ?y with (_, _) => _ end] => destruct y as [c1 o1] eqn:E1 end.
  assert (A : ep_ok k K si c1 /\ c_seq_send c1 = c_seq_send c /\ c_last_ka c1 = c_last_ka c /\ c_last_send c1 = c_last_send c
              /\ raised o1 = false /\ no_emit o1 /\ rx_post c now r c1).
  { destruct r as [|er|d orcs]; [| destruct Hr |].
    - injection E1 as <- <-. split; [exact H|]. cbn. repeat split; auto. apply no_emit_nil.
    - destruct (recv c now d orcs) as [c'' o''] eqn:Er. injection E1 as <- <-.
      destruct (recv_ep _ _ _ _ _ _ _ _ _ H Hr Er) as (A1 & A2 & A3 & A4 & A5 & A6 & A7).
      split; [exact A1|]. repeat split; auto.
      + unfold raised in *. clear - A5. induction o'' as [|x l IH]; [reflexivity|].
        cbn [existsb filter] in *. apply orb_false_iff in A5 as [A5 A6].
        destruct x; cbn [existsb]; rewrite ?IH; auto; try discriminate.
      + apply no_emit_filter. exact A6. }
  destruct A as (H1 & Sq & Lk & Ls & Ra & Ne & Rx). rewrite Ra in E.
  assert (Hpost : forall c2, c_last_recv c2 = c_last_recv c1 -> c_bf_pkt c2 = c_bf_pkt c1 -> rx_post c now r c2).
  { intros c2 A B. unfold rx_post in *. destruct r; rewrite A, B; exact Rx. }
  pose proof (eo_si _ _ _ _ H1) as Hsi.
  destruct (now - c_last_send c1 >? c_send_interval c1) eqn:Hg.
  - destruct (build_packet e c1 now) as [c2 pk] eqn:E2.
    destruct (check_timeout false c2 now) as [c3 o3] eqn:E3. injection E as <- <-.
    assert (Hg' : si < now - c_last_send c1) by lia.
    destruct (tick_tail_ep _ _ _ _ _ _ _ _ _ _ _ H1 Hg' E2 E3) as (H3 & R & B & D & N & _).
    split; [exact H3|]. split; [apply Hpost; assumption|].
    rewrite !flat_map_app, (dg_no_emit _ Ne), (dg_no_emit _ N), app_nil_r. cbn [app].
    unfold emit_eff in *. rewrite <- Sq, <- Lk.
    destruct pk as [p|]; [|exact D].
    replace (flat_map dg_of (emit c2 p)) with (flat_map dg_of (emit c3 p)); [exact D|].
    unfold emit. destruct p as [h ms]. destruct (encode_msgs _); [|reflexivity].
    apply check_timeout_frame in E3 as [[_ T1 _] _]. rewrite T1. reflexivity.
  - injection E as <- <-. split; [exact H1|]. split; [exact Rx|].
    rewrite (dg_no_emit _ Ne). left. pose proof (eo_ls _ _ _ _ H1). repeat split; auto. lia.
Qed.

(* ================= Part 2: the receive window over true datagram numbers ================= *)

(* SeqNumP.R, extended by the state of a window that has not received anything yet *)
Definition Rx (f : bitfield) (m : Z) (acc : list Z) : Prop :=
  (m = 0 /\ bf_cur f = 0 /\ bf_bits f = 0 /\ 1 <= bf_nbits f /\ acc = []) \/ R f m acc.

Lemma Rx_le f m acc x : Rx f m acc -> In x acc -> x <= m.
Proof. intros [(_ & _ & _ & _ & ->)|H] Hx; [destruct Hx|]. eapply R_le; eassumption. Qed.

(* inserting datagram number n, at most half the ring away from the newest accepted one: refused
   only if n was accepted before; otherwise the window now stands for the enlarged set *)
Lemma Rx_step f m acc n : Rx f m acc -> 1 <= n -> Z.abs (n - m) <= HALF ->
  match bf_insert f (wire n) with
  | Ok f' => Rx f' (Z.max m n) (n :: acc)
  | Err _ => In n acc
  end.
Proof.
  intros [(-> & Hc & Hb & Hnb & ->)|HR] Hn Hh.
  - unfold bf_insert. rewrite Hc. cbn [Z.eqb]. right. replace (Z.max 0 n) with n by lia. rewrite Hb.
    exact (proj2 (R_first (bf_nbits f) n Hnb Hn)).
  - pose proof (R_step f m acc n HR Hn Hh) as Hs.
    destruct (spec_dup (bf_nbits f) m acc n) eqn:Hd.
    + rewrite Hs. unfold spec_dup in Hd. apply andb_prop in Hd as [Hd _]. apply andb_prop in Hd as [Hd _].
      apply InB_In. exact Hd.
    + destruct Hs as (f' & -> & _ & HR'). right. exact HR'.
Qed.

(* every window state whose newest number is m stands for some set of accepted numbers *)
Lemma R_of_bits f m : 1 <= bf_nbits f -> bf_cur f = wire m -> 1 <= m -> 0 <= bf_bits f < 2 ^ bf_nbits f ->
  exists acc, R f m acc.
Proof.
  intros Hnb Hc Hm Hb. set (nb := bf_nbits f) in *.
  set (ks := filter (Z.testbit (bf_bits f)) (map Z.of_nat (seq 0 (Z.to_nat nb)))).
  assert (Hks : forall k, In k ks <-> (0 <= k < nb /\ Z.testbit (bf_bits f) k = true)).
  { intros k. unfold ks. rewrite filter_In, in_map_iff. split.
    - intros [(j & <- & Hj) Ht]. apply in_seq in Hj. split; [lia|exact Ht].
    - intros [Hk Ht]. split; [|exact Ht]. exists (Z.to_nat k). split; [lia|]. apply in_seq. lia. }
  exists (m :: map (fun k => m - (nb - k)) ks).
  constructor; fold nb; try assumption.
  - rewrite InB_cons, Z.eqb_refl. reflexivity.
  - intros x [<-|Hx]; [lia|]. apply in_map_iff in Hx as (k & <- & Hk). apply Hks in Hk. lia.
  - intros k Hk. rewrite InB_cons. replace (m - (nb - k) =? m) with false by lia. cbn [orb].
    destruct (Z.testbit (bf_bits f) k) eqn:Ht; symmetry.
    + apply InB_In. apply in_map_iff. exists k. split; [reflexivity|]. apply Hks. auto.
    + destruct (InB _ _) eqn:Hi; [|reflexivity]. apply InB_In in Hi. apply in_map_iff in Hi as (k' & Ek & Hk').
      apply Hks in Hk' as [Hr Ht']. assert (k' = k) by lia. subst k'. congruence.
  - intros k Hk. rewrite <- (Z.mod_small (bf_bits f) (2 ^ nb)) by lia.
    apply Z.mod_pow2_bits_high. lia.
Qed.

Lemma in_sync_Rx x y : in_sync x y ->
  exists m acc, Rx (c_bf_pkt y) m acc /\ m = c_seq_send x /\ c_seq_send x = (if m =? 0 then 0 else wire m) /\ 0 <= m.
Proof.
  intros (Hnb & Hc & Hr & Hb & Hz).
  destruct (Z.eq_dec (c_seq_send x) 0) as [E|E].
  - exists 0, []. split; [left; rewrite Hnb; repeat split; auto; try lia; congruence|]. rewrite E. auto with zarith.
  - assert (Hw : wire (c_seq_send x) = c_seq_send x) by (apply wire_small; lia).
    destruct (R_of_bits (c_bf_pkt y) (c_seq_send x)) as (acc & HR); try lia; try congruence; try (rewrite Hnb; lia).
    exists (c_seq_send x), acc. split; [right; exact HR|]. split; [reflexivity|].
    replace (c_seq_send x =? 0) with false by lia. split; [congruence|lia].
Qed.
