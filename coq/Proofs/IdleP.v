(* IdleP.v — C12, the two-endpoint composition (Model/TimedNet.v): an established idle pair over a
   network that shows every datagram to the peer within d (further copies within `life`), both
   sides ticking at least every tau, never times out, and each side emits a KEEP_ALIVE at least
   every max(K, send interval) + tau.
   Part 1: what one update() / one received datagram does to an idle endpoint.
   Part 2: the receive window over true datagram numbers (SeqNumP.R): a datagram is refused only if
           a copy of it was accepted before.
   Part 3: one direction of the wire: the ghost log of emissions, which of them are still unseen,
           and the three ways it evolves (time passes / the sender ticks / the receiver is offered
           something); the liveness-clock bound.
   Part 4: the joint invariant, its induction over timed histories, the theorems. *)
From Coq Require Import Lia ZifyBool.
From RecordUpdate Require Import RecordUpdate.
From Model Require Import Base SeqNum Wire Conn Client Net TimedNet.
From Proofs Require Import Tac SeqNumP ConnFrameP.
Import RecordSetNotations.
Open Scope Z_scope.

(* ================= Part 1: one endpoint ================= *)

(* nothing queued, nothing to retry, no RetrySender callback pending *)
Definition quiet (c : conn) : Prop :=
  c_outgoing c = [] /\ c_pretry_msg c = [] /\ plain_pcbs (c_pcbs c) = true.

Lemma fire_icb_q c i ok c' o : fire_icb c i ok = (c', o) ->
  c_outgoing c' = c_outgoing c /\ c_pretry_msg c' = c_pretry_msg c /\ c_pcbs c' = c_pcbs c.
Proof.
  unfold fire_icb. intros E.
  destruct i; try (injection E as <- <-; auto).
  destruct (dget fid (c_pfrags c)) as [fs|]; [|injection E as <- <-; auto].
  destruct (forallb is_some _); injection E as <- <-; auto.
Qed.

Lemma fire_all_q ks : forall c ok c' o, forallb plain_cb ks = true -> fire_all c ks ok = (c', o) ->
  c_outgoing c' = c_outgoing c /\ c_pretry_msg c' = c_pretry_msg c /\ c_pcbs c' = c_pcbs c.
Proof.
  induction ks as [|k ks IH]; intros c ok c' o Hp E; cbn [fire_all] in E.
  - injection E as <- <-. auto.
  - cbn [forallb] in Hp. apply andb_prop in Hp as [Hk Hks].
    destruct (fire_cb c k ok) as [c1 o1] eqn:E1. destruct (fire_all c1 ks ok) as [c2 o2] eqn:E2.
    injection E as <- <-. destruct k as [i|]; [|discriminate]. cbn [fire_cb] in E1.
    apply fire_icb_q in E1 as (A1 & A2 & A3). destruct (IH _ _ _ _ Hks E2) as (B1 & B2 & B3).
    repeat split; congruence.
Qed.

Lemma plain_pcbs_ddel s l : plain_pcbs l = true -> plain_pcbs (ddel s l) = true.
Proof.
  unfold plain_pcbs, ddel. intros H. rewrite forallb_forall in *. intros x Hx.
  apply filter_In in Hx as [Hx _]. auto.
Qed.

Lemma plain_pcbs_dget s l ks : plain_pcbs l = true -> dget s l = Some ks -> forallb plain_cb ks = true.
Proof.
  unfold plain_pcbs. induction l as [|[k v] r IH]; cbn [dget forallb]; [discriminate|].
  intros H E. apply andb_prop in H as [H1 H2]. destruct (s =? k); [injection E as <-; exact H1|auto].
Qed.

Lemma fold_ddel_nil {A} (ms : list Z) : fold_left (fun (d : list (Z * A)) m => ddel m d) ms [] = [].
Proof. induction ms as [|m r IH]; cbn; auto. Qed.

Lemma resolve_q ok c s c' o : quiet c -> resolve ok c s = (c', o) -> quiet c'.
Proof.
  unfold resolve. intros (Q1 & Q2 & Q3) E.
  set (c0 := if ok then _ else _) in E.
  assert (H0 : c_outgoing c0 = [] /\ c_pretry_msg c0 = [] /\ plain_pcbs (c_pcbs c0) = true)
    by (subst c0; destruct ok; cbn; auto).
  destruct H0 as (A1 & A2 & A3).
  destruct (dget s (c_pcbs c0)) as [ks|] eqn:Eg.
  - destruct (fire_all c0 ks ok) as [c1 o1] eqn:E1.
    apply fire_all_q in E1 as (B1 & B2 & B3); [|eapply plain_pcbs_dget; eassumption].
    injection E as <- <-. unfold quiet.
    match goal with |- context [dget s (c_pretry ?x)] => destruct (dget s (c_pretry x)) end;
      cbn; rewrite ?B1, ?B2, ?B3, ?A1, ?A2, ?fold_ddel_nil;
      (split; [reflexivity|split; [reflexivity|apply plain_pcbs_ddel; exact A3]]).
  - injection E as <- <-. unfold quiet.
    match goal with |- context [dget s (c_pretry ?x)] => destruct (dget s (c_pretry x)) end;
      cbn; rewrite ?A1, ?A2, ?fold_ddel_nil; auto.
Qed.

Lemma ack_loop_q h snap : forall c c' o, quiet c -> ack_loop c h snap = (c', o) -> quiet c'.
Proof.
  induction snap as [|[s t] r IH]; intros c c' o Q E; cbn [ack_loop] in E.
  - injection E as <- <-. exact Q.
  - dpair E c1 o1 E1. destruct (ack_loop c1 h r) as [c2 o2] eqn:E2. injection E as <- <-.
    eapply IH; [|exact E2].
    destruct (hdr_acks _ _ s); [eapply resolve_q; eassumption|].
    destruct (_ >? _); [eapply resolve_q; eassumption|]. injection E1 as <- <-. exact Q.
Qed.

Lemma timeout_loop_q strict now snap : forall c c' o, quiet c -> timeout_loop strict c now snap = (c', o) -> quiet c'.
Proof.
  induction snap as [|[s t] r IH]; intros c c' o Q E; cbn [timeout_loop] in E.
  - injection E as <- <-. exact Q.
  - dpair E c1 o1 E1. destruct (timeout_loop strict c1 now r) as [c2 o2] eqn:E2. injection E as <- <-.
    eapply IH; [|exact E2].
    match type of E1 with (if ?b then _ else _) = _ => destruct b end; [eapply resolve_q; eassumption|].
    injection E1 as <- <-. exact Q.
Qed.

(* the facts about one endpoint of an idle pair that every step keeps *)
Record ep_ok (k K si : Z) (c : conn) : Prop := {
  eo_status : c_status c = CONNECTED;
  eo_key : c_key c = Some k;
  eo_quiet : quiet c;
  eo_hello : c_hello_sent c = 0;
  eo_ls : c_last_send c = c_last_ka c;
  eo_K : c_ka_interval c = K;
  eo_si : c_send_interval c = si }.

Lemma idle_ep_ok k c : idle_ep k c -> ep_ok k (c_ka_interval c) (c_send_interval c) c.
Proof. intros (A & B & C & D & E & F & G). constructor; auto. split; auto. Qed.

Lemma ep_ok_sess k K si c c' : same_sess c c' -> quiet c' -> ep_ok k K si c -> ep_ok k K si c'.
Proof.
  intros [[S1 S2 S3 S4 S5 S6 S7 S8] T1 T2 T3 T4 T5 T6 T7 T8 T9] Q [A B C D E F G].
  constructor; try congruence.
Qed.

(* what an update() may do on the sending side of an idle endpoint whose keep-alive period is M:
   nothing while the last packet is at most M old, else exactly one sealed KEEP_ALIVE carrying the
   next sequence number *)
Definition emit_eff (k M : Z) (c : conn) (now : Z) (c' : conn) (dgs : list dgram) : Prop :=
  (now - c_last_ka c <= M /\ dgs = [] /\ c_seq_send c' = c_seq_send c /\ c_last_ka c' = c_last_ka c)
  \/ (M < now - c_last_ka c /\ c_seq_send c' = seq_succ (c_seq_send c) /\ c_last_ka c' = now /\
      exists dg, dgs = [dg] /\ ka_dgram k dg /\ h_seq (d_hdr dg) = seq_succ (c_seq_send c)).

(* ... and on the receiving side: an accepted datagram moves the window and sets the liveness
   clock, anything else leaves both *)
Definition rx_post (c : conn) (now : Z) (r : rx) (c' : conn) : Prop :=
  match r with
  | RxDgram d _ =>
      match open_dgram (c_key c) d, bf_insert (c_bf_pkt c) (h_seq (d_hdr d)) with
      | Ok _, Ok bf => c_bf_pkt c' = bf /\ c_last_recv c' = now
      | _, _ => c_bf_pkt c' = c_bf_pkt c /\ c_last_recv c' = c_last_recv c
      end
  | _ => c_bf_pkt c' = c_bf_pkt c /\ c_last_recv c' = c_last_recv c
  end.

Definition rx_good (k : Z) (r : rx) : Prop :=
  match r with
  | RxNone => True
  | RxBadHeader _ => False
  | RxDgram d _ => ka_dgram k d \/ forall ms, open_dgram (Some k) d <> Ok ms
  end.

Lemma dg_no_emit o : no_emit o -> flat_map dg_of o = [].
Proof.
  induction o as [|x r IH]; intros H; [reflexivity|]. cbn [flat_map].
  rewrite IH by (intros y Hy; apply H; right; exact Hy).
  specialize (H x (or_introl eq_refl)). destruct x; try reflexivity; discriminate.
Qed.

Lemma cb_only_not_raised o : cb_only o -> raised o = false.
Proof.
  unfold cb_only, raised. induction 1 as [|x r Hx _ IH]; [reflexivity|].
  cbn [existsb]. rewrite IH. destruct x; try reflexivity; destruct Hx.
Qed.

Lemma header_eqb_refl h : header_eqb h h = true.
Proof.
  unfold header_eqb, ptype_eqb. rewrite Bool.eqb_reflx, !Z.eqb_refl. reflexivity.
Qed.

Lemma open_ka k dg : ka_dgram k dg -> open_dgram (Some k) dg = Ok [].
Proof.
  intros (B & T & C & L). unfold open_dgram. rewrite B, T, C, L, Z.eqb_refl, header_eqb_refl. reflexivity.
Qed.

(* packet assembly on an idle endpoint, once update()'s rate gate has passed *)
Lemma build_packet_ep e c now k K si c' r :
  ep_ok k K si c -> si < now - c_last_send c -> build_packet e c now = (c', r) ->
  ep_ok k K si c' /\ c_last_recv c' = c_last_recv c /\ c_bf_pkt c' = c_bf_pkt c /\
  ((now - c_last_ka c <= K /\ r = None /\ c_seq_send c' = c_seq_send c /\ c_last_ka c' = c_last_ka c)
   \/ (K < now - c_last_ka c /\ c_seq_send c' = seq_succ (c_seq_send c) /\ c_last_ka c' = now /\
       exists h, r = Some (h, []) /\ h_type h = KEEP_ALIVE /\ h_count h = 0 /\ h_seq h = seq_succ (c_seq_send c))).
Proof.
  intros [Hs Hk (Q1 & Q2 & Q3) Hh Hls HK Hsi] Hg E. unfold build_packet in E.
  rewrite Hsi in E. assert (now - c_last_send c <? si = false) as Hr by lia. rewrite Hr in E.
  rewrite HK in E. unfold build_impl in E. rewrite Q2, Q1 in E. cbn [out_pass] in E.
  destruct (now - c_last_ka c >? K) eqn:Hka.
  - cbn in E. rewrite Hs in E. cbn in E. injection E as <- <-. cbn.
    split; [constructor; cbn; auto; repeat split; auto|].
    split; [reflexivity|]. split; [reflexivity|]. right.
    split; [lia|]. split; [reflexivity|]. split; [reflexivity|].
    eexists. split; [reflexivity|]. cbn. auto.
  - cbn in E. injection E as <- <-. cbn.
    split; [constructor; cbn; auto; repeat split; auto|].
    split; [reflexivity|]. split; [reflexivity|]. left. split; [lia|]. auto.
Qed.

Lemma emit_ka c k h : c_key c = Some k -> h_type h = KEEP_ALIVE -> h_count h = 0 ->
  exists dg, flat_map dg_of (emit c (h, [])) = [dg] /\ ka_dgram k dg /\ h_seq (d_hdr dg) = h_seq h.
Proof.
  intros Hk Ht Hc. unfold emit. cbn [map encode_msgs]. rewrite Hk. cbn [h_type]. rewrite Ht.
  cbn [ptype_eqb ptype_code Z.eqb negb flat_map dg_of app].
  eexists. split; [reflexivity|]. unfold ka_dgram. cbn. auto.
Qed.

(* the tail of update(): packet assembly, emission, time-out scan *)
Lemma tick_tail_ep strict e c now k K si c1 pk c2 o2 :
  ep_ok k K si c -> si < now - c_last_send c ->
  build_packet e c now = (c1, pk) -> check_timeout strict c1 now = (c2, o2) ->
  ep_ok k K si c2 /\ c_last_recv c2 = c_last_recv c /\ c_bf_pkt c2 = c_bf_pkt c /\
  emit_eff k (Z.max K si) c now c2 (match pk with Some p => flat_map dg_of (emit c2 p) | None => [] end) /\
  no_emit o2 /\ cb_only o2.
Proof.
  intros H Hg E1 E2.
  pose proof (eo_ls _ _ _ _ H) as Hls.
  destruct (build_packet_ep _ _ _ _ _ _ _ _ H Hg E1) as (H1 & R1 & B1 & D).
  pose proof (timeout_loop_cb_only _ _ _ _ _ _ E2) as C2.
  pose proof (timeout_loop_q _ _ _ _ _ _ (eo_quiet _ _ _ _ H1) E2) as Q2.
  apply check_timeout_frame in E2 as [S2 N2].
  pose proof (ep_ok_sess _ _ _ _ _ S2 Q2 H1) as H2.
  destruct S2 as [[S1 S2' S3 S4 S5 S6 S7 S8] T1 T2 T3 T4 T5 T6 T7 T8 T9].
  split; [exact H2|]. split; [congruence|]. split; [congruence|]. split; [|auto].
  destruct D as [(A1 & -> & A3 & A4)|(A1 & A3 & A4 & h & -> & Ht & Hc & Hq)].
  - left. repeat split; try congruence. lia.
  - right. split; [lia|]. split; [congruence|]. split; [congruence|].
    destruct (emit_ka c2 k h (eo_key _ _ _ _ H2) Ht Hc) as (dg & Ed & Kd & Sd).
    exists dg. split; [exact Ed|]. split; [exact Kd|congruence].
Qed.

Lemma server_tick_ep e c now k K si c' o :
  ep_ok k K si c -> server_tick e c now = (c', o) ->
  ep_ok k K si c' /\ c_last_recv c' = c_last_recv c /\ c_bf_pkt c' = c_bf_pkt c /\
  emit_eff k (Z.max K si) c now c' (flat_map dg_of o).
Proof.
  intros H E. unfold server_tick in E. pose proof (eo_ls _ _ _ _ H) as Hls. pose proof (eo_si _ _ _ _ H) as Hsi.
  destruct (now - c_last_send c >? c_send_interval c) eqn:Hg.
  - destruct (build_packet e c now) as [c1 pk] eqn:E1.
    destruct (check_timeout true c1 now) as [c2 o2] eqn:E2. injection E as <- <-.
    assert (Hg' : si < now - c_last_send c) by lia.
    destruct (tick_tail_ep _ _ _ _ _ _ _ _ _ _ _ H Hg' E1 E2) as (H2 & R & B & D & N & _).
    split; [exact H2|]. split; [exact R|]. split; [exact B|].
    rewrite flat_map_app, (dg_no_emit _ N). cbn [app]. destruct pk; exact D.
  - injection E as <- <-. split; [exact H|]. split; [reflexivity|]. split; [reflexivity|].
    left. cbn. repeat split; auto. lia.
Qed.

(* a received datagram that is a peer keep-alive or junk *)
Lemma recv_ep c now d orcs k K si c' o :
  ep_ok k K si c -> (ka_dgram k d \/ forall ms, open_dgram (Some k) d <> Ok ms) ->
  recv c now d orcs = (c', o) ->
  ep_ok k K si c' /\ c_seq_send c' = c_seq_send c /\ c_last_ka c' = c_last_ka c /\ c_last_send c' = c_last_send c /\
  raised o = false /\ no_emit o /\ rx_post c now (RxDgram d orcs) c'.
Proof.
  intros H Hd E. pose proof E as E0. apply recv_frame in E0 as [[S1 S2 S3 S4 S5 S6 S7 S8] Ne].
  unfold rx_post. unfold recv in E. pose proof (eo_key _ _ _ _ H) as Hk.
  unfold keyless_refuses in E. rewrite Hk in E. cbn [is_some negb andb] in E. rewrite Hk.
  assert (Hdrop : ep_ok k K si (c <| c_dropped := c_dropped c + 1 |>)).
  { destruct H as [A B (Q1 & Q2 & Q3) D F G I]. constructor; cbn; auto. split; auto. }
  destruct (open_dgram (Some k) d) as [ms|er] eqn:Eo.
  2:{ injection E as <- <-. split; [exact Hdrop|]. cbn. repeat split; auto. }
  destruct Hd as [Hd|Hd]; [|exfalso; eapply Hd; reflexivity].
  rewrite (open_ka _ _ Hd) in Eo. injection Eo as <-.
  destruct (bf_insert (c_bf_pkt c) (h_seq (d_hdr d))) as [bf|er] eqn:Eb.
  2:{ injection E as <- <-. split; [exact Hdrop|]. cbn. repeat split; auto. }
  set (c0 := c <| c_bf_pkt := bf |> <| c_received := _ |> <| c_last_recv := now |>) in E.
  destruct (handle_ack_bits c0 (d_hdr d)) as [c1 o1] eqn:E1. cbn [recv_msgs] in E. injection E as <- <-.
  assert (H0 : ep_ok k K si c0).
  { destruct H as [A B (Q1 & Q2 & Q3) D F G I]. subst c0. constructor; cbn; auto. split; auto. }
  pose proof (ack_loop_cb_only _ _ _ _ _ E1) as C1.
  pose proof (ack_loop_q _ _ _ _ _ (eo_quiet _ _ _ _ H0) E1) as Q1.
  apply handle_ack_bits_frame in E1 as [S N].
  pose proof (ep_ok_sess _ _ _ _ _ S Q1 H0) as H1.
  destruct S as [_ T1 T2 T3 T4 T5 T6 T7 T8 T9].
  split; [exact H1|]. split; [exact S2|]. split; [exact S4|]. split; [exact S3|].
  split.
  { unfold raised. rewrite existsb_app. fold (raised o1). rewrite (cb_only_not_raised _ C1). reflexivity. }
  split; [exact Ne|]. split; [rewrite T6; reflexivity|rewrite T3; reflexivity].
Qed.

(* UdpClient.update on an idle client that is not about to report DROPPED *)
Lemma client_tick_ep e c now r k K si c' o :
  ep_ok k K si c -> (c_last_recv c <= 0 \/ now <= c_last_recv c + 5 * TICKS) -> rx_good k r ->
  client_tick e c now r = (c', o) ->
  ep_ok k K si c' /\ rx_post c now r c' /\ emit_eff k (Z.max K si) c now c' (flat_map dg_of o).
Proof.
  intros H Hl Hr E. unfold client_tick, client_update in E.
  assert ((c_last_recv c >? 0) && (now >? c_last_recv c + 5 * TICKS) = false) as Hd by lia. rewrite Hd in E.
  rewrite (eo_hello _ _ _ _ H) in E. cbn [Z.eqb negb andb] in E.
  rewrite (eo_status _ _ _ _ H) in E. cbn [status_eqb status_code Z.eqb app] in E.
  match type of E with context [match ?y with (_, _) => _ end] => destruct y as [c1 o1] eqn:E1 end.
  assert (A : ep_ok k K si c1 /\ c_seq_send c1 = c_seq_send c /\ c_last_ka c1 = c_last_ka c /\ c_last_send c1 = c_last_send c
              /\ raised o1 = false /\ no_emit o1 /\ rx_post c now r c1).
  { destruct r as [|er|d orcs]; [| destruct Hr |].
    - injection E1 as <- <-. split; [exact H|]. cbn. repeat split; auto. apply no_emit_nil.
    - destruct (recv c now d orcs) as [c'' o''] eqn:Er. injection E1 as <- <-.
      destruct (recv_ep _ _ _ _ _ _ _ _ _ H Hr Er) as (A1 & A2 & A3 & A4 & A5 & A6 & A7).
      split; [exact A1|]. repeat split; auto.
      + unfold raised in *. clear - A5. induction o'' as [|x l IH]; [reflexivity|].
        cbn [existsb filter] in *. apply orb_false_iff in A5 as [A5 A6].
        destruct x; cbn [existsb]; rewrite ?IH; auto; try discriminate.
      + apply no_emit_filter. exact A6. }
  destruct A as (H1 & Sq & Lk & Ls & Ra & Ne & Rx). rewrite Ra in E.
  assert (Hpost : forall c2, c_last_recv c2 = c_last_recv c1 -> c_bf_pkt c2 = c_bf_pkt c1 -> rx_post c now r c2).
  { intros c2 A B. unfold rx_post in *. destruct r; rewrite A, B; exact Rx. }
  pose proof (eo_si _ _ _ _ H1) as Hsi.
  destruct (now - c_last_send c1 >? c_send_interval c1) eqn:Hg.
  - destruct (build_packet e c1 now) as [c2 pk] eqn:E2.
    destruct (check_timeout false c2 now) as [c3 o3] eqn:E3. injection E as <- <-.
    assert (Hg' : si < now - c_last_send c1) by lia.
    destruct (tick_tail_ep _ _ _ _ _ _ _ _ _ _ _ H1 Hg' E2 E3) as (H3 & R & B & D & N & _).
    split; [exact H3|]. split; [apply Hpost; assumption|].
    rewrite !flat_map_app, (dg_no_emit _ Ne), (dg_no_emit _ N), app_nil_r. cbn [app].
    unfold emit_eff in *. rewrite <- Sq, <- Lk.
    destruct pk as [p|]; [|exact D].
    replace (flat_map dg_of (emit c2 p)) with (flat_map dg_of (emit c3 p)); [exact D|].
    unfold emit. destruct p as [h ms]. destruct (encode_msgs _); [|reflexivity].
    apply check_timeout_frame in E3 as [[_ T1 _] _]. rewrite T1. reflexivity.
  - injection E as <- <-. split; [exact H1|]. split; [exact Rx|].
    rewrite (dg_no_emit _ Ne). left. pose proof (eo_ls _ _ _ _ H1). repeat split; auto. lia.
Qed.

(* ================= Part 2: the receive window over true datagram numbers ================= *)

(* SeqNumP.R, extended by the state of a window that has not received anything yet *)
Definition Rx (f : bitfield) (m : Z) (acc : list Z) : Prop :=
  (m = 0 /\ bf_cur f = 0 /\ bf_bits f = 0 /\ 1 <= bf_nbits f /\ acc = []) \/ R f m acc.

Lemma Rx_le f m acc x : Rx f m acc -> In x acc -> x <= m.
Proof. intros [(_ & _ & _ & _ & ->)|H] Hx; [destruct Hx|]. eapply R_le; eassumption. Qed.

(* inserting datagram number n, at most half the ring away from the newest accepted one: refused
   only if n was accepted before; otherwise the window now stands for the enlarged set *)
Lemma Rx_step f m acc n : Rx f m acc -> 1 <= n -> Z.abs (n - m) <= HALF ->
  match bf_insert f (wire n) with
  | Ok f' => Rx f' (Z.max m n) (n :: acc)
  | Err _ => In n acc
  end.
Proof.
  intros [(-> & Hc & Hb & Hnb & ->)|HR] Hn Hh.
  - unfold bf_insert. rewrite Hc. cbn [Z.eqb]. right. replace (Z.max 0 n) with n by lia. rewrite Hb.
    exact (proj2 (R_first (bf_nbits f) n Hnb Hn)).
  - pose proof (R_step f m acc n HR Hn Hh) as Hs.
    destruct (spec_dup (bf_nbits f) m acc n) eqn:Hd.
    + rewrite Hs. unfold spec_dup in Hd. apply andb_prop in Hd as [Hd _]. apply andb_prop in Hd as [Hd _].
      apply InB_In. exact Hd.
    + destruct Hs as (f' & -> & _ & HR'). right. exact HR'.
Qed.

(* every window state whose newest number is m stands for some set of accepted numbers *)
Lemma R_of_bits f m : 1 <= bf_nbits f -> bf_cur f = wire m -> 1 <= m -> 0 <= bf_bits f < 2 ^ bf_nbits f ->
  exists acc, R f m acc.
Proof.
  intros Hnb Hc Hm Hb. set (nb := bf_nbits f) in *.
  set (ks := filter (Z.testbit (bf_bits f)) (map Z.of_nat (seq 0 (Z.to_nat nb)))).
  assert (Hks : forall k, In k ks <-> (0 <= k < nb /\ Z.testbit (bf_bits f) k = true)).
  { intros k. unfold ks. rewrite filter_In, in_map_iff. split.
    - intros [(j & <- & Hj) Ht]. apply in_seq in Hj. split; [lia|exact Ht].
    - intros [Hk Ht]. split; [|exact Ht]. exists (Z.to_nat k). split; [lia|]. apply in_seq. lia. }
  exists (m :: map (fun k => m - (nb - k)) ks).
  constructor; fold nb; try assumption.
  - rewrite InB_cons, Z.eqb_refl. reflexivity.
  - intros x [<-|Hx]; [lia|]. apply in_map_iff in Hx as (k & <- & Hk). apply Hks in Hk. lia.
  - intros k Hk. rewrite InB_cons. replace (m - (nb - k) =? m) with false by lia. cbn [orb].
    destruct (Z.testbit (bf_bits f) k) eqn:Ht; symmetry.
    + apply InB_In. apply in_map_iff. exists k. split; [reflexivity|]. apply Hks. auto.
    + destruct (InB _ _) eqn:Hi; [|reflexivity]. apply InB_In in Hi. apply in_map_iff in Hi as (k' & Ek & Hk').
      apply Hks in Hk' as [Hr Ht']. assert (k' = k) by lia. subst k'. congruence.
  - intros k Hk. rewrite <- (Z.mod_small (bf_bits f) (2 ^ nb)) by lia.
    apply Z.mod_pow2_bits_high. lia.
Qed.

Lemma in_sync_Rx x y : in_sync x y ->
  exists m acc, Rx (c_bf_pkt y) m acc /\ m = c_seq_send x /\ c_seq_send x = (if m =? 0 then 0 else wire m) /\ 0 <= m.
Proof.
  intros (Hnb & Hc & Hr & Hb & Hz).
  destruct (Z.eq_dec (c_seq_send x) 0) as [E|E].
  - exists 0, []. split; [left; rewrite Hnb; repeat split; auto; try lia; congruence|]. rewrite E. auto with zarith.
  - assert (Hw : wire (c_seq_send x) = c_seq_send x) by (apply wire_small; lia).
    destruct (R_of_bits (c_bf_pkt y) (c_seq_send x)) as (acc & HR); try lia; try congruence; try (rewrite Hnb; lia).
    exists (c_seq_send x), acc. split; [right; exact HR|]. split; [reflexivity|].
    replace (c_seq_send x =? 0) with false by lia. split; [congruence|lia].
Qed.

(* ================= Part 3: one direction of the wire ================= *)

Lemma wd_lookup_in w i t dg : wd_lookup w i = Some (t, dg) -> In (i, t, dg) (wd_log w).
Proof.
  unfold wd_lookup. destruct (find _ _) as [[[n t'] dg']|] eqn:F; [|discriminate].
  intros E. injection E as <- <-. apply find_some in F as [Hin Hn]. cbn in Hn.
  assert (n = i) by lia. subst. exact Hin.
Qed.

Lemma last_cons_indep {A} (l : list A) : forall a d d', last (a :: l) d = last (a :: l) d'.
Proof. induction l as [|b r IH]; intros a d d'; [reflexivity|]. cbn [last] in *. apply (IH b). Qed.

Lemma gaps_le_snoc G ts : forall prev t, gaps_le G prev ts -> t - last ts prev <= G -> gaps_le G prev (ts ++ [t]).
Proof.
  induction ts as [|x r IH]; intros prev t Hg Hl; cbn [app gaps_le] in *; [auto|].
  destruct Hg as [H1 H2]. split; [exact H1|]. apply IH; [exact H2|].
  destruct r as [|z r]; [exact Hl|]. rewrite (last_cons_indep r z x prev). exact Hl.
Qed.

Lemma last_snoc {A} (l : list A) (x d : A) : last (l ++ [x]) d = x.
Proof. apply last_last. Qed.

Section Direction.
  (* k: session key; M: keep-alive period of the sender X; tau, d, life: the network parameters;
     N0: X's datagram number at the start; v0: the moment X's first keep-alive is counted from *)
  Variables (k M tau d life N0 v0 : Z).
  Hypothesis HM : 0 <= M.
  Hypothesis Hd : 0 <= d.
  Hypothesis Hlife : d <= life.
  Hypothesis Htau : 0 <= tau.
  Hypothesis Hring : life <= (HALF - 1) * (M + 1).

  (* sx, lkx: X's sequence counter and last-packet time; bfy, lry: Y's receive window and liveness
     clock; w: the wire X -> Y; clk: the clock; tickx: X's latest update() *)
  Record dir_inv (sx lkx : Z) (bfy : bitfield) (lry : Z) (w : wdir) (clk tickx : Z) : Prop := {
    di_n0 : 0 <= N0 <= wd_n w;
    di_seq : sx = if wd_n w =? 0 then 0 else wire (wd_n w);
    di_v : lkx <= wd_v w <= clk;
    di_tick : tickx - wd_v w <= M;
    di_tickle : tickx <= clk;
    di_log : forall n t dg, In (n, t, dg) (wd_log w) ->
               N0 < n <= wd_n w /\ ka_dgram k dg /\ h_seq (d_hdr dg) = wire n /\ (wd_n w - n) * (M + 1) <= lkx - t;
    di_complete : forall l, N0 < l <= wd_n w -> exists t dg, In (l, t, dg) (wd_log w);
    di_win : exists m acc, Rx bfy m acc /\ N0 <= m <= wd_n w
               /\ (forall n t dg, In (n, t, dg) (wd_log w) -> In (n, t) (wd_pend w) \/ (In n acc /\ t <= lry))
               /\ (forall n t, In (n, t) (wd_pend w) -> ~ In n acc /\ exists dg, In (n, t, dg) (wd_log w));
    di_lry : lry <= clk;
    di_live0 : wd_pend w = [] -> wd_v w <= lry;
    di_live1 : wd_pend w <> [] -> exists n t, In (n, t) (wd_pend w) /\ t - (M + tau) <= lry;
    di_gaps : gaps_le (M + tau) v0 (em_times w);
    di_last : last (em_times w) v0 = wd_v w }.

  (* time passes, X does not tick *)
  Lemma dir_time sx lkx bfy lry w clk tickx now :
    dir_inv sx lkx bfy lry w clk tickx -> clk <= now -> dir_inv sx lkx bfy lry w now tickx.
  Proof. intros [] Hn. constructor; auto; lia. Qed.

  (* Y's liveness clock at any admissible moment *)
  Lemma dir_safe sx lkx bfy lry w clk tickx now :
    dir_inv sx lkx bfy lry w clk tickx -> clk <= now -> now - tickx <= tau -> on_time w d now ->
    now - lry <= M + tau + d.
  Proof.
    intros [] Hn Ht Ho. destruct (wd_pend w) as [|p r] eqn:Ep.
    - specialize (di_live2 eq_refl). lia.
    - destruct di_live3 as (n & t & Hin & Hl); [discriminate|].
      unfold on_time in Ho. rewrite Ep in Ho. rewrite Forall_forall in Ho. apply Ho in Hin. cbn in Hin. lia.
  Qed.

  (* X's update() at time now *)
  Lemma dir_emit sx lkx bfy lry w clk tickx now sx' lkx' dgs :
    dir_inv sx lkx bfy lry w clk tickx -> clk <= now -> now - tickx <= tau ->
    ((now - lkx <= M /\ dgs = [] /\ sx' = sx /\ lkx' = lkx)
     \/ (M < now - lkx /\ sx' = seq_succ sx /\ lkx' = now /\
         exists dg, dgs = [dg] /\ ka_dgram k dg /\ h_seq (d_hdr dg) = seq_succ sx)) ->
    dir_inv sx' lkx' bfy lry (wd_emit w now dgs) now now.
  Proof.
    intros I Hn Ht [(H1 & -> & -> & ->)|(H1 & -> & -> & dg & -> & Hk & Hs)].
    - destruct I. cbn [wd_emit fold_left]. constructor; auto; lia.
    - destruct I. cbn [wd_emit fold_left]. unfold wd_emit1.
      assert (Hsq : seq_succ sx = wire (wd_n w + 1)).
      { rewrite di_seq0. destruct (wd_n w =? 0) eqn:E0.
        - assert (wd_n w = 0) by lia. rewrite H. reflexivity.
        - apply seq_succ_wire. lia. }
      constructor; cbn [wd_n wd_v wd_log wd_pend].
      + lia.
      + replace (wd_n w + 1 =? 0) with false by lia. exact Hsq.
      + lia.
      + lia.
      + lia.
      + intros n t dg' Hin. apply in_app_or in Hin as [Hin|[Hin|[]]].
        * destruct (di_log0 _ _ _ Hin) as (A & B & C & D).
          split; [lia|]. split; [exact B|]. split; [exact C|].
          replace ((wd_n w + 1 - n) * (M + 1)) with ((wd_n w - n) * (M + 1) + (M + 1)) by ring. lia.
        * injection Hin as <- <- <-. split; [lia|]. split; [exact Hk|]. split; [congruence|]. lia.
      + intros l Hl. destruct (Z.eq_dec l (wd_n w + 1)) as [->|Hne].
        * exists now, dg. apply in_or_app. right. left. reflexivity.
        * destruct (di_complete0 l ltac:(lia)) as (t & dg' & Hin). exists t, dg'. apply in_or_app. left. exact Hin.
      + destruct di_win0 as (m & acc & HR & Hm & W1 & W2). exists m, acc. split; [exact HR|]. split; [lia|]. split.
        * intros n t dg' Hin. apply in_app_or in Hin as [Hin|[Hin|[]]].
          -- destruct (W1 _ _ _ Hin) as [A|A]; [left; apply in_or_app; left; exact A|right; exact A].
          -- injection Hin as <- <- <-. left. apply in_or_app. right. left. reflexivity.
        * intros n t Hin. apply in_app_or in Hin as [Hin|[Hin|[]]].
          -- destruct (W2 _ _ Hin) as (A & dg' & B). split; [exact A|]. exists dg'. apply in_or_app. left. exact B.
          -- injection Hin as <- <-. split.
             ++ intros Hx. pose proof (Rx_le _ _ _ _ HR Hx). lia.
             ++ exists dg. apply in_or_app. right. left. reflexivity.
      + lia.
      + intros E. destruct (wd_pend w); discriminate.
      + intros _. destruct (wd_pend w) as [|p r] eqn:Ep.
        * exists (wd_n w + 1), now. split; [left; reflexivity|]. specialize (di_live2 eq_refl). lia.
        * destruct di_live3 as (n & t & Hin & Hl); [discriminate|]. exists n, t. split; [apply in_or_app; left; exact Hin|exact Hl].
      + unfold em_times in *. cbn [wd_log]. rewrite map_app. cbn [map fst snd].
        apply gaps_le_snoc; [exact di_gaps0|]. rewrite di_last0. lia.
      + unfold em_times in *. cbn [wd_log]. rewrite map_app. cbn [map fst snd]. apply last_snoc.
  Qed.

  Lemma log_time sx lkx bfy lry w clk tickx n t dg :
    dir_inv sx lkx bfy lry w clk tickx -> In (n, t, dg) (wd_log w) -> t <= lkx.
  Proof.
    intros [] Hin. destruct (di_log0 _ _ _ Hin) as (A & _ & _ & D).
    assert (0 <= (wd_n w - n) * (M + 1)) by (apply Z.mul_nonneg_nonneg; lia). lia.
  Qed.

  Lemma count_bound a : a * (M + 1) <= life -> a <= HALF - 1.
  Proof.
    intros H. assert (H' : a * (M + 1) <= (HALF - 1) * (M + 1)) by lia.
    apply Z.mul_le_mono_pos_r in H'; lia.
  Qed.

  Lemma filter_id {A} (f : A -> bool) (l : list A) : (forall x, In x l -> f x = true) -> filter f l = l.
  Proof.
    induction l as [|a r IH]; intros H; [reflexivity|]. cbn [filter].
    rewrite (H a (or_introl eq_refl)). f_equal. apply IH. intros x Hx. apply H. right. exact Hx.
  Qed.

  (* Y is offered s at time now; (bfy', lry') is what Conn.recv makes of it (rx_post) *)
  Lemma dir_recv sx lkx bfy lry w clk tickx now s bfy' lry' :
    dir_inv sx lkx bfy lry w clk tickx -> clk <= now -> on_time w d now -> src_ok (Some k) w life now s ->
    match rx_of w s with
    | RxDgram dg _ =>
        match open_dgram (Some k) dg, bf_insert bfy (h_seq (d_hdr dg)) with
        | Ok _, Ok bf => bfy' = bf /\ lry' = now
        | _, _ => bfy' = bfy /\ lry' = lry
        end
    | _ => bfy' = bfy /\ lry' = lry
    end ->
    dir_inv sx lkx bfy' lry' (wd_present w s) now tickx.
  Proof.
    intros I Hn Ho Hs Hp. destruct s as [|i|dg orcs]; cbn [rx_of wd_present src_ok] in *.
    - destruct Hp as [-> ->]. eapply dir_time; eassumption.
    - destruct Hs as (t & dg & Hl & Hlf). rewrite Hl in Hp.
      pose proof (wd_lookup_in _ _ _ _ Hl) as Hin.
      pose proof I as I0. destruct I.
      destruct (di_log0 _ _ _ Hin) as (Hi & Hka & Hsq & Hsp).
      rewrite (open_ka _ _ Hka), Hsq in Hp.
      destruct di_win0 as (m & acc & HR & Hm & W1 & W2).
      assert (Hhalf : Z.abs (i - m) <= HALF).
      { assert (B1 : wd_n w - i <= HALF - 1) by (apply count_bound; lia).
        destruct (Z_le_gt_dec i m) as [Hle|Hgt]; [lia|].
        destruct (di_complete0 (m + 1) ltac:(lia)) as (tl & dgl & Hinl).
        destruct (W1 _ _ _ Hinl) as [Hpl|[Hal _]]; [|pose proof (Rx_le _ _ _ _ HR Hal); lia].
        unfold on_time in Ho. rewrite Forall_forall in Ho. pose proof (Ho _ Hpl) as Hd'. cbn in Hd'.
        destruct (di_log0 _ _ _ Hinl) as (_ & _ & _ & Hspl).
        assert (B2 : wd_n w - (m + 1) <= HALF - 1) by (apply count_bound; lia). lia. }
      pose proof (Rx_step _ _ _ i HR ltac:(lia) Hhalf) as Hstep.
      destruct (bf_insert bfy (wire i)) as [bf|er].
      + (* accepted *)
        destruct Hp as [-> ->].
        constructor; cbn [wd_n wd_v wd_log wd_pend]; auto; try lia.
        * exists (Z.max m i), (i :: acc). split; [exact Hstep|]. split; [lia|]. split.
          -- intros n t' dg' Hin'. destruct (Z.eq_dec n i) as [->|Hne].
             ++ right. split; [left; reflexivity|]. pose proof (log_time _ _ _ _ _ _ _ _ _ _ I0 Hin'). lia.
             ++ destruct (W1 _ _ _ Hin') as [A|[A B]].
                ** left. apply filter_In. split; [exact A|]. cbn. lia.
                ** right. split; [right; exact A|lia].
          -- intros n t' Hin'. apply filter_In in Hin' as [Hin' Hne]. cbn in Hne.
             destruct (W2 _ _ Hin') as (A & B). split; [|exact B].
             intros [E|E]; [lia|exact (A E)].
        * intros Hne. destruct (filter _ (wd_pend w)) as [|[n t'] r] eqn:Ef; [congruence|].
          exists n, t'. split; [left; reflexivity|].
          assert (Hin' : In (n, t') (filter (fun p => negb (fst p =? i)) (wd_pend w))) by (rewrite Ef; left; reflexivity).
          apply filter_In in Hin' as [Hin' _]. destruct (W2 _ _ Hin') as (_ & dg' & B).
          pose proof (log_time _ _ _ _ _ _ _ _ _ _ I0 B). lia.
      + (* refused: a copy of it was accepted before *)
        destruct Hp as [-> ->].
        assert (Hf : filter (fun p => negb (fst p =? i)) (wd_pend w) = wd_pend w).
        { apply filter_id. intros [n t'] Hin'. cbn. destruct (W2 _ _ Hin') as (A & _).
          destruct (Z.eq_dec n i) as [->|Hne]; [contradiction|lia]. }
        rewrite Hf. replace {| wd_n := wd_n w; wd_v := wd_v w; wd_log := wd_log w; wd_pend := wd_pend w |} with w by (destruct w; reflexivity).
        eapply dir_time; eassumption.
    - destruct (open_dgram (Some k) dg) as [ms|er] eqn:Eo; [exfalso; eapply Hs; reflexivity|].
      destruct Hp as [-> ->]. eapply dir_time; eassumption.
  Qed.
End Direction.

Lemma on_time_emit d now dgs : 0 <= d -> forall w, on_time w d now -> on_time (wd_emit w now dgs) d now.
Proof.
  intros Hd. unfold wd_emit. induction dgs as [|dg r IH]; intros w H; cbn [fold_left]; [exact H|].
  apply IH. unfold on_time, wd_emit1 in *. cbn [wd_pend]. apply Forall_app. split; [exact H|].
  constructor; [cbn; lia|constructor].
Qed.

Lemma on_time_present w d now s : on_time w d now -> on_time (wd_present w s) d now.
Proof.
  unfold on_time. destruct s; cbn [wd_present wd_pend]; auto.
  rewrite !Forall_forall. intros H p Hp. apply filter_In in Hp as [Hp _]. auto.
Qed.

(* ================= Part 4: the pair ================= *)
Section Pair.
  Variables (e : env) (P : tparams) (k : Z) (cli0 srv0 : conn) (t0 : Z).
  Hypothesis Hest : established k t0 cli0 srv0.
  Hypothesis Hpar : params_ok P cli0 srv0.

  Record tinv (n : tnet) : Prop := {
    ti_cli : ep_ok k (c_ka_interval cli0) (c_send_interval cli0) (t_cli n);
    ti_srv : ep_ok k (c_ka_interval srv0) (c_send_interval srv0) (t_srv n);
    ti_swept : t_swept n = false;
    ti_tkC : t_clk n - t_tickC n <= tp_tau P;
    ti_tkS : t_clk n - t_tickS n <= tp_tau P;
    ti_otC : on_time (t_cs n) (tp_d P) (t_clk n);
    ti_otS : on_time (t_sc n) (tp_d P) (t_clk n);
    ti_cs : dir_inv k (kmax cli0) (tp_tau P) (c_seq_send cli0) (base_time cli0 t0)
              (c_seq_send (t_cli n)) (c_last_ka (t_cli n)) (c_bf_pkt (t_srv n)) (c_last_recv (t_srv n))
              (t_cs n) (t_clk n) (t_tickC n);
    ti_sc : dir_inv k (kmax srv0) (tp_tau P) (c_seq_send srv0) (base_time srv0 t0)
              (c_seq_send (t_srv n)) (c_last_ka (t_srv n)) (c_bf_pkt (t_cli n)) (c_last_recv (t_cli n))
              (t_sc n) (t_clk n) (t_tickS n) }.

  Lemma dir_init x y : in_sync x y -> heard x y t0 -> 0 <= kmax x ->
    dir_inv k (kmax x) (tp_tau P) (c_seq_send x) (base_time x t0)
      (c_seq_send x) (c_last_ka x) (c_bf_pkt y) (c_last_recv y) (wd0 (c_seq_send x) (base_time x t0)) t0 t0.
  Proof.
    intros Hs (H1 & H2 & H3 & H4) HM.
    destruct (in_sync_Rx _ _ Hs) as (m & acc & HR & -> & Hw & H0).
    unfold base_time. constructor; cbn [wd0 wd_n wd_v wd_log wd_pend em_times map last gaps_le]; auto; try lia.
    - intros n t dg [].
    - exists (c_seq_send x), acc. split; [exact HR|]. split; [lia|]. split; [intros n t dg []|intros n t []].
    - intros Hne. exfalso. apply Hne. reflexivity.
  Qed.

  Lemma tinv_init : tinv (tnet0 cli0 srv0 t0).
  Proof.
    destruct Hest as (Ec & Es & Scs & Ssc & Hcs & Hsc). destruct Hpar as (_ & _ & Htau & MC & MS & _).
    constructor; cbn [tnet0 t_cli t_srv t_swept t_cs t_sc t_clk t_tickC t_tickS].
    - apply idle_ep_ok. exact Ec.
    - apply idle_ep_ok. exact Es.
    - reflexivity.
    - lia.
    - lia.
    - constructor.
    - constructor.
    - apply dir_init; assumption.
    - apply dir_init; assumption.
  Qed.

  Lemma wd_emit_nil w now : wd_emit w now [] = w.
  Proof. reflexivity. Qed.

  Lemma rx_good_of w s sx lkx bfy lry clk tickx M N0 v0 key :
    dir_inv k M (tp_tau P) N0 v0 sx lkx bfy lry w clk tickx -> key = Some k ->
    src_ok key w (tp_life P) (clk) s \/ True ->
    forall now, src_ok key w (tp_life P) now s -> rx_good k (rx_of w s).
  Proof.
    intros I -> _ now Hs. destruct s as [|i|dg orcs]; cbn [rx_of rx_good src_ok] in *; [exact Logic.I| |right; exact Hs].
    destruct Hs as (t & dg & Hl & _). rewrite Hl. left.
    apply wd_lookup_in in Hl. destruct I. destruct (di_log0 _ _ _ Hl) as (_ & Hk & _). exact Hk.
  Qed.

  Lemma tinv_step n v : tinv n -> tok P n v -> tinv (tstep e P n v).
  Proof.
    intros [Ic Is Isw _ _ _ _ Ics Isc] (Hclk & HtC & HtS & HoC & HoS & Hsrc).
    destruct Hpar as (Hd & Hlife & Htau & HMC & HMS & HT & H5 & HrC & HrS).
    destruct v as [now s|now s|now]; cbn [tev_time] in *; cbn [tstep].
    - (* UdpClient.update *)
      destruct (client_tick e (t_cli n) now (rx_of (t_sc n) s)) as [c' o] eqn:E.
      pose proof (dir_safe _ _ _ _ _ _ Hd _ _ _ _ _ _ _ _ Isc Hclk HtS HoS) as Hsafe.
      assert (Hg : rx_good k (rx_of (t_sc n) s)).
      { eapply rx_good_of; [exact Isc|exact (eo_key _ _ _ _ Ic)|right; exact Logic.I|exact Hsrc]. }
      assert (Hnd : c_last_recv (t_cli n) <= 0 \/ now <= c_last_recv (t_cli n) + 5 * TICKS) by (right; lia).
      destruct (client_tick_ep _ _ _ _ _ _ _ _ _ Ic Hnd Hg E) as (Ic' & Rx & Em).
      rewrite (eo_status _ _ _ _ Ic'). cbn [status_eqb status_code Z.eqb].
      constructor; cbn.
      + exact Ic'.
      + exact Is.
      + exact Isw.
      + lia.
      + lia.
      + apply on_time_emit; assumption.
      + apply on_time_present; assumption.
      + eapply (dir_emit _ _ _ _ _ HMC); try eassumption.
      + rewrite (eo_key _ _ _ _ Ic) in Hsrc. eapply (dir_recv _ _ _ (tp_d P) (tp_life P) _ _ HMS Hlife Htau HrS); try eassumption.
        unfold rx_post in Rx. rewrite (eo_key _ _ _ _ Ic) in Rx. exact Rx.
    - (* the server loop hands a datagram to the connection *)
      rewrite Isw.
      assert (Hg : rx_good k (rx_of (t_cs n) s)).
      { eapply rx_good_of; [exact Ics|exact (eo_key _ _ _ _ Is)|right; exact Logic.I|exact Hsrc]. }
      rewrite (eo_key _ _ _ _ Is) in Hsrc.
      destruct (rx_of (t_cs n) s) as [|er|dg orcs] eqn:Er.
      + constructor; cbn; auto; try lia; eapply dir_time; eassumption.
      + destruct Hg.
      + destruct (recv (t_srv n) now dg orcs) as [c' o] eqn:E.
        destruct (recv_ep _ _ _ _ _ _ _ _ _ Is Hg E) as (Is' & Sq & Lk & _ & _ & Ne & Rx).
        rewrite (dg_no_emit _ Ne), wd_emit_nil.
        constructor; cbn.
        * exact Ic.
        * exact Is'.
        * exact Isw.
        * lia.
        * lia.
        * apply on_time_present; assumption.
        * assumption.
        * eapply (dir_recv _ _ _ (tp_d P) (tp_life P) _ _ HMC Hlife Htau HrC); try eassumption. rewrite Er.
          unfold rx_post in Rx. rewrite (eo_key _ _ _ _ Is) in Rx. exact Rx.
        * rewrite Sq, Lk. eapply dir_time; eassumption.
    - (* the server loop's sweep *)
      rewrite Isw. unfold server_sweep.
      rewrite (eo_status _ _ _ _ Is). cbn [status_eqb status_code Z.eqb Pos.eqb].
      destruct (server_tick e (t_srv n) now) as [c' o] eqn:E.
      destruct (server_tick_ep _ _ _ _ _ _ _ _ Is E) as (Is' & Lr & Bf & Em).
      pose proof (dir_safe _ _ _ _ _ _ Hd _ _ _ _ _ _ _ _ Ics Hclk HtC HoC) as Hsafe.
      assert (Hns : sweep_drops (tp_T P) (t_srv n) now = false).
      { unfold sweep_drops, timedout. rewrite (eo_status _ _ _ _ Is). cbn [status_eqb status_code Z.eqb orb]. lia. }
      rewrite Hns.
      constructor; cbn.
      + exact Ic.
      + exact Is'.
      + reflexivity.
      + lia.
      + lia.
      + assumption.
      + apply on_time_emit; assumption.
      + rewrite Lr, Bf. eapply dir_time; eassumption.
      + eapply (dir_emit _ _ _ _ _ HMS); try eassumption.
  Qed.

  Lemma tinv_run vs : forall n, tinv n -> tvalid e P n vs -> tinv (trun e P n vs).
  Proof.
    induction vs as [|v r IH]; intros n I Hv; [exact I|].
    cbn [tvalid] in Hv. destruct Hv as [Hok Hr]. cbn [trun fold_left]. apply IH; [|exact Hr].
    apply tinv_step; assumption.
  Qed.
End Pair.

(* ================= the theorems of Properties/C12.v ================= *)

(* (1) neither side ever times out *)
Theorem idle_pair_stays_up e P k cli srv t0 hs :
  established k t0 cli srv -> params_ok P cli srv -> tvalid e P (tnet0 cli srv t0) hs ->
  pair_up k (trun e P (tnet0 cli srv t0) hs).
Proof.
  intros He Hp Hv. pose proof (tinv_run e P k cli srv t0 Hp hs _ (tinv_init P k cli srv t0 He Hp) Hv) as I.
  destruct I as [[] [] Sw _ _ _ _ _ _]. unfold pair_up. auto.
Qed.

Lemma dir_cadence k M tau N0 v0 sx lkx bfy lry w clk tickx :
  dir_inv k M tau N0 v0 sx lkx bfy lry w clk tickx -> clk - tickx <= tau ->
  cadence_ok (M + tau) v0 clk w /\ Forall (fun x => ka_dgram k (snd x)) (wd_log w).
Proof.
  intros I Ht. destruct I. split; [split; [assumption|rewrite di_last0; lia]|].
  apply Forall_forall. intros [[n t] dg] Hin. destruct (di_log0 _ _ _ Hin) as (_ & Hk & _). exact Hk.
Qed.

(* (2) each side emits a keep-alive at least every keep-alive period + one tick, and nothing else *)
Theorem idle_pair_cadence e P k cli srv t0 hs :
  established k t0 cli srv -> params_ok P cli srv -> tvalid e P (tnet0 cli srv t0) hs ->
  let n := trun e P (tnet0 cli srv t0) hs in
  (cadence_ok (kmax cli + tp_tau P) (base_time cli t0) (t_clk n) (t_cs n)
   /\ Forall (fun x => ka_dgram k (snd x)) (wd_log (t_cs n))) /\
  (cadence_ok (kmax srv + tp_tau P) (base_time srv t0) (t_clk n) (t_sc n)
   /\ Forall (fun x => ka_dgram k (snd x)) (wd_log (t_sc n))).
Proof.
  intros He Hp Hv. pose proof (tinv_run e P k cli srv t0 Hp hs _ (tinv_init P k cli srv t0 He Hp) Hv) as I.
  destruct I as [_ _ _ TC TS _ _ Ics Isc]. cbv zeta. split; eapply dir_cadence; eassumption.
Qed.

(* (1'), quantitatively: at every moment neither liveness clock is older than the sender's
   keep-alive period + one tick + the network delay — which is why neither time-out rule fires *)
Theorem idle_pair_clocks_fresh e P k cli srv t0 hs :
  established k t0 cli srv -> params_ok P cli srv -> tvalid e P (tnet0 cli srv t0) hs ->
  let n := trun e P (tnet0 cli srv t0) hs in
  t_clk n - c_last_recv (t_srv n) <= kmax cli + tp_tau P + tp_d P /\
  t_clk n - c_last_recv (t_cli n) <= kmax srv + tp_tau P + tp_d P.
Proof.
  intros He Hp Hv. pose proof (tinv_run e P k cli srv t0 Hp hs _ (tinv_init P k cli srv t0 He Hp) Hv) as I.
  destruct I as [_ _ _ TC TS OC OS Ics Isc]. destruct Hp as (Hd & _). cbv zeta. split.
  - eapply (dir_safe _ _ _ _ _ _ Hd); [exact Ics|lia|exact TC|exact OC].
  - eapply (dir_safe _ _ _ _ _ _ Hd); [exact Isc|lia|exact TS|exact OS].
Qed.

(* every prefix of an admissible history is admissible (so the two theorems speak about every
   moment of a history, not only its end) *)
Lemma tvalid_app e P vs1 : forall n vs2, tvalid e P n (vs1 ++ vs2) -> tvalid e P n vs1.
Proof.
  induction vs1 as [|v r IH]; intros n vs2 H; [exact I|].
  cbn [app tvalid] in *. destruct H as [H1 H2]. split; [exact H1|eapply IH; exact H2].
Qed.

(* ================= the executable hypotheses imply the stated ones ================= *)
Lemma src_okb_ok key w life now s : src_okb key w life now s = true -> src_ok key w life now s.
Proof.
  destruct s as [|i|dg orcs]; cbn [src_okb src_ok]; [auto| |].
  - destruct (wd_lookup w i) as [[t dg]|]; [|discriminate]. intros H. exists t, dg. split; [reflexivity|lia].
  - destruct (open_dgram key dg); [discriminate|]. intros _ ms. discriminate.
Qed.

Lemma on_timeb_ok w d now : on_timeb w d now = true -> on_time w d now.
Proof.
  unfold on_timeb, on_time. rewrite forallb_forall, Forall_forall. intros H p Hp. specialize (H p Hp). lia.
Qed.

Lemma tokb_ok P n v : tokb P n v = true -> tok P n v.
Proof.
  unfold tokb, tok. cbv zeta. rewrite !andb_true_iff. intros [[[[[A B] C] D] E] F].
  split; [lia|]. split; [lia|]. split; [lia|].
  split; [apply on_timeb_ok; exact D|]. split; [apply on_timeb_ok; exact E|].
  destruct v; try apply src_okb_ok; auto.
Qed.

Lemma tvalidb_ok e P vs : forall n, tvalidb e P n vs = true -> tvalid e P n vs.
Proof.
  induction vs as [|v r IH]; intros n H; [exact I|]. cbn [tvalidb tvalid] in *.
  apply andb_prop in H as [H1 H2]. split; [apply tokb_ok; exact H1|apply IH; exact H2].
Qed.

Lemma idle_epb_ok k c : idle_epb k c = true -> idle_ep k c.
Proof.
  unfold idle_epb, idle_ep. rewrite !andb_true_iff. intros [[[[[[A B] C] D] E] F] G].
  split; [destruct (c_status c); try discriminate; reflexivity|].
  split; [destruct (c_key c) as [k'|]; [f_equal; lia|discriminate]|].
  split; [destruct (c_outgoing c); [reflexivity|discriminate]|].
  split; [destruct (c_pretry_msg c); [reflexivity|discriminate]|].
  split; [exact E|]. split; lia.
Qed.

Lemma in_syncb_ok x y : in_syncb x y = true -> in_sync x y.
Proof.
  unfold in_syncb, in_sync. rewrite !andb_true_iff, orb_true_iff. intros [[[[[[A B] C] D] E] F] G].
  repeat split; lia.
Qed.

Lemma heardb_ok x y t0 : heardb x y t0 = true -> heard x y t0.
Proof. unfold heardb, heard. rewrite !andb_true_iff. intros [[[A B] C] D]. repeat split; lia. Qed.

Lemma establishedb_ok k t0 cli srv : establishedb k t0 cli srv = true -> established k t0 cli srv.
Proof.
  unfold establishedb, established. rewrite !andb_true_iff. intros [[[[[A B] C] D] E] F].
  split; [apply idle_epb_ok; exact A|]. split; [apply idle_epb_ok; exact B|].
  split; [apply in_syncb_ok; exact C|]. split; [apply in_syncb_ok; exact D|].
  split; apply heardb_ok; assumption.
Qed.

Lemma params_okb_ok P cli srv : params_okb P cli srv = true -> params_ok P cli srv.
Proof.
  unfold params_okb, params_ok. rewrite !andb_true_iff. intros [[[[[[[[A A'] B] C] D] E] F] G] H].
  repeat split; lia.
Qed.
