(* QueueP.v — a predicate P on (type, payload) that holds of every message the connection queues
   holds of every message it keeps anywhere (outgoing queue, re-send store, RetrySender callbacks)
   and of every message it ever puts into a datagram.  The generic form of CustodyP.NU; used by the
   two-endpoint theorem of NetP.v ("what is delivered was sent"). *)
From Coq Require Import Lia ZifyBool.
From RecordUpdate Require Import RecordUpdate.
From Model Require Import Base SeqNum Wire Conn.
From Proofs Require Import Tac SeqNumP ConnFrameP NonceP PackP ClearP AckP CallbackP CustodyP.
Import RecordSetNotations.
Open Scope Z_scope.

Section QP.
  Variable P : ptype -> list byte -> Prop.

  Definition cbP (k : cb) : Prop := match k with Retry _ _ ty p _ => P ty p | Plain _ => True end.
  Definition msgP (m : pmsg) : Prop := P (m_type m) (m_payload m) /\ forall k, m_cb m = Some k -> cbP k.

  Record QI (c : conn) : Prop := {
    qi_out : Forall msgP (c_outgoing c);
    qi_prm : Forall (fun p => msgP (snd p)) (c_pretry_msg c);
    qi_pcbs : Forall (fun p => Forall cbP (snd p)) (c_pcbs c) }.

  Lemma QI_same_q c c' : same_q c c' -> QI c -> QI c'.
  Proof. intros [_ _ O Pm C] [A B D]. constructor; congruence. Qed.

  Lemma QI_upd c c' : c_outgoing c' = c_outgoing c -> c_pretry_msg c' = c_pretry_msg c -> c_pcbs c' = c_pcbs c -> QI c -> QI c'.
  Proof. intros O Pm C [A B D]. constructor; congruence. Qed.

  Lemma fire_cb_QI c k ok c' o : cbP k -> QI c -> fire_cb c k ok = (c', o) -> QI c'.
  Proof.
    intros Hk HN E. unfold fire_cb in E. destruct k as [i|rid mseq ty p i].
    - eapply QI_same_q; [eapply fire_icb_q; exact E|exact HN].
    - destruct (zmem rid (c_done c)); [injection E as <- <-; exact HN|].
      destruct (negb ok).
      + injection E as <- <-. destruct HN as [A B D]. constructor; cbn; auto.
        apply Forall_app. split; [exact A|]. repeat constructor; cbn; [exact Hk|]. intros k Hk'. injection Hk' as <-. exact Hk.
      + apply fire_icb_q in E. eapply QI_same_q; [exact E|]. destruct HN as [A B D]. constructor; cbn; auto.
  Qed.

  Lemma fire_all_QI ks : forall c ok c' o, Forall cbP ks -> QI c -> fire_all c ks ok = (c', o) -> QI c'.
  Proof.
    induction ks as [|k ks IH]; intros c ok c' o HF HN E; cbn [fire_all] in E.
    - injection E as <- <-. exact HN.
    - inversion HF as [|? ? Hk HF']; subst.
      destruct (fire_cb c k ok) as [c1 o1] eqn:E1. destruct (fire_all c1 ks ok) as [c2 o2] eqn:E2.
      injection E as <- <-. eapply IH; [exact HF'| |exact E2]. eapply fire_cb_QI; eassumption.
  Qed.

  Lemma resolve_QI ok c s c' o : QI c -> resolve ok c s = (c', o) -> QI c'.
  Proof.
    intros HN E. unfold resolve in E.
    set (c0 := if ok then _ else _) in E.
    assert (N0 : QI c0) by (subst c0; destruct ok; destruct HN as [A B D]; constructor; cbn; auto).
    destruct (dget s (c_pcbs c0)) as [ks|] eqn:Eg.
    - destruct (fire_all c0 ks ok) as [c1 o1] eqn:E1.
      assert (Hks : Forall cbP ks).
      { destruct N0 as [_ _ D]. rewrite Forall_forall in D. exact (D _ (dget_In _ _ _ Eg)). }
      pose proof (fire_all_QI _ _ _ _ _ Hks N0 E1) as [A B D]. injection E as <- <-.
      destruct (dget s (c_pretry c1)); constructor; cbn; auto using Forall_ddel, Forall_fold_ddel.
    - injection E as <- <-. destruct N0 as [A B D].
      destruct (dget s (c_pretry c0)); constructor; cbn; auto using Forall_ddel, Forall_fold_ddel.
  Qed.

  Lemma ack_loop_QI h snap : forall c c' o, QI c -> ack_loop c h snap = (c', o) -> QI c'.
  Proof.
    induction snap as [|[s t] r IH]; intros c c' o HN E; cbn [ack_loop] in E.
    - injection E as <- <-. exact HN.
    - dpair E c1 o1 E1. destruct (ack_loop c1 h r) as [c2 o2] eqn:E2. injection E as <- <-.
      eapply IH; [|exact E2]. destruct (hdr_acks _ _ s); [eapply resolve_QI; eassumption|].
      destruct (_ >? _); [eapply resolve_QI; eassumption|]. injection E1 as <- <-. exact HN.
  Qed.

  Lemma timeout_loop_QI strict now snap : forall c c' o, QI c -> timeout_loop strict c now snap = (c', o) -> QI c'.
  Proof.
    induction snap as [|[s t] r IH]; intros c c' o HN E; cbn [timeout_loop] in E.
    - injection E as <- <-. exact HN.
    - dpair E c1 o1 E1. destruct (timeout_loop strict c1 now r) as [c2 o2] eqn:E2. injection E as <- <-.
      eapply IH; [|exact E2]. match type of E1 with (if ?b then _ else _) = _ => destruct b end;
        [eapply resolve_QI; eassumption|injection E1 as <- <-; exact HN].
  Qed.

  Lemma send_type_QI c ty p r k : P ty p -> QI c -> QI (send_type c ty p r k).
  Proof.
    intros Ht [A B D]. unfold send_type. constructor; cbn; auto.
    apply Forall_app. split; [exact A|]. repeat constructor; cbn; [exact Ht|].
    intros k0 Hk. unfold mk_cb in Hk. destruct r; [destruct k; try discriminate; injection Hk as <-; exact I| |injection Hk as <-; exact Ht];
      destruct k; try discriminate; injection Hk as <-; exact I.
  Qed.

  Hypothesis P_other : forall ty p, ty <> APP -> ty <> APP_FRAGMENT -> P ty p.

  Lemma recv_msgs_QI ms c now orcs c' o : QI c -> recv_msgs c now ms orcs = (c', o) -> QI c'.
  Proof.
    intros HN E. revert HN.
    apply (recv_msgs_rel (fun a b => QI a -> QI b)) with (ms := ms) (now := now) (orcs := orcs) (o := o); try exact E; auto.
    - intros a bf. apply QI_upd; reflexivity.
    - intros a s p. apply QI_upd; reflexivity.
    - intros a n s p a' o' Ef. unfold recv_fragment in Ef. destruct (_ <? _)%nat; [injection Ef as <- <-; auto|].
      injection Ef as <- <-. destruct (fr_complete _); apply QI_upd; reflexivity.
    - intros a. apply QI_upd; reflexivity.
    - intros a ty oo a' os Eh HN. unfold recv_handshake in Eh.
      destruct ty, (c_server a); try (injection Eh as <- <-; exact HN).
      + destruct (negb _); [injection Eh as <- <-; exact HN|].
        destruct (negb _); injection Eh as <- <-; [exact HN|].
        apply send_type_QI; [apply P_other; discriminate|]. eapply QI_upd; [| | |exact HN]; reflexivity.
      + destruct (o_parse oo =? 6); [injection Eh as <- <-; eapply QI_upd; [| | |exact HN]; reflexivity|].
        destruct (negb _); injection Eh as <- <-; [exact HN|].
        eapply QI_upd; [| | |apply (send_type_QI (a <| c_token := o_token oo |> <| c_key := Some (o_key oo) |>) CHALLENGE_RESP (o_reply oo) RNone IChallenge);
                             [apply P_other; discriminate|eapply QI_upd; [| | |exact HN]; reflexivity]]; reflexivity.
      + destruct (negb _); [injection Eh as <- <-; exact HN|].
        destruct (o_temp_token oo) as [t|]; [|injection Eh as <- <-; exact HN].
        destruct (t =? o_token oo); injection Eh as <- <-; [eapply QI_upd; [| | |exact HN]; reflexivity|exact HN].
  Qed.

  Lemma recv_QI c now d orcs c' o : QI c -> recv c now d orcs = (c', o) -> QI c'.
  Proof.
    unfold recv. intros HN E.
    destruct (keyless_refuses c (d_hdr d)); [injection E as <- <-; eapply QI_upd; [| | |exact HN]; reflexivity|].
    destruct (open_dgram (c_key c) d) as [ms|]; [|injection E as <- <-; eapply QI_upd; [| | |exact HN]; reflexivity].
    destruct (bf_insert (c_bf_pkt c) _) as [bf|]; [|injection E as <- <-; eapply QI_upd; [| | |exact HN]; reflexivity].
    match type of E with context [handle_ack_bits ?c0 _] => set (cc := c0) in E end.
    assert (Ncc : QI cc) by (eapply QI_upd; [| | |exact HN]; reflexivity).
    destruct (handle_ack_bits cc (d_hdr d)) as [c1 o1] eqn:E1.
    destruct (recv_msgs c1 now ms orcs) as [c2 o2] eqn:E2. injection E as <- <-.
    unfold handle_ack_bits in E1. eapply recv_msgs_QI; [|exact E2]. eapply ack_loop_QI; eassumption.
  Qed.

  (* packet assembly: what is put into the datagram satisfies P; the header says how many and which type *)
  Lemma build_impl_QI e c now ka delay c' r : NU c -> QI c -> build_impl e c now ka delay = (c', r) ->
    QI c' /\ match r with Some (h, ms) => Forall msgP ms | None => True end.
  Proof.
    intros HU HN E. destruct (build_impl_spec _ _ _ _ _ _ _ (NU_no_unknown _ HU) E) as (msgs & [B1 B2 B3 B4 B5 B6]).
    destruct HN as [A B D]. rewrite Forall_forall in A, B.
    assert (Hmsgs : forall m, In m msgs -> msgP m).
    { intros m Hm. destruct (B1 m Hm) as [H|H]; [apply A; exact H|].
      apply in_map_iff in H as (x & <- & Hx). exact (B _ Hx). }
    split.
    - constructor.
      + apply Forall_forall. intros m Hm. apply A. apply B3. exact Hm.
      + apply Forall_forall. intros x Hx. destruct (B5 x Hx) as [H|(m & H1 & H2)]; [exact (B _ H)|].
        rewrite H2. exact (Hmsgs m H1).
      + destruct r as [[h ms]|]; [|destruct B6 as (_ & -> & _); exact D].
        destruct B6 as (_ & _ & ->). destruct (opt_list (map m_cb msgs)) as [|k0 cbs] eqn:Ec; [exact D|].
        apply Forall_dset; [exact D|]. cbn. apply Forall_forall. intros k Hk. rewrite <- Ec in Hk.
        apply In_opt_list in Hk. apply in_map_iff in Hk as (m & Hk & Hm). exact (proj2 (Hmsgs m Hm) k Hk).
    - destruct r as [[h ms]|]; [|exact I]. destruct B6 as (-> & _).
      apply Forall_forall. intros m Hm. apply in_map_iff in Hm as (m0 & <- & Hm0). exact (Hmsgs m0 Hm0).
  Qed.

  Lemma build_packet_QI e c now c' r : NU c -> QI c -> build_packet e c now = (c', r) ->
    QI c' /\ match r with Some (h, ms) => Forall msgP ms | None => True end.
  Proof.
    intros HU HN E. unfold build_packet in E. destruct (_ <? _); [injection E as <- <-; auto|].
    destruct (build_impl e c now _ _) as [c1 r1] eqn:E1. destruct (build_impl_QI _ _ _ _ _ _ _ HU HN E1) as [N1 F1].
    destruct r1; injection E as <- <-; (split; [eapply QI_upd; [| | |exact N1]; reflexivity|exact F1]).
  Qed.
End QP.
