(* ServerP.v — invariants of the server loop model (Model/Server.v): pool bookkeeping, the
   per-client handler-event automaton, sweeps, shutdown, handler exceptions. *)
From Coq Require Import Lia ZifyBool Permutation.
From RecordUpdate Require Import RecordUpdate.
From Model Require Import Base SeqNum Wire Conn Server.
From Proofs Require Import Tac.
Import RecordSetNotations.
Open Scope Z_scope.

(* ---------- addresses and pools ---------- *)
Lemma addr_eqb_eq a b : addr_eqb a b = true <-> a = b.
Proof.
  destruct a as [a1 a2], b as [b1 b2]; unfold addr_eqb; simpl.
  rewrite andb_true_iff, !Z.eqb_eq. split; [intros [-> ->]; auto | intros [= -> ->]; auto].
Qed.
Lemma addr_eqb_refl a : addr_eqb a a = true.
Proof. apply addr_eqb_eq; auto. Qed.
Lemma addr_eqb_neq a b : addr_eqb a b = false <-> a <> b.
Proof.
  split; intros H.
  - intros E. apply addr_eqb_eq in E. congruence.
  - destruct (addr_eqb a b) eqn:E; auto. apply addr_eqb_eq in E. contradiction.
Qed.

Definition shape (p : pool) : list (Z * addr) := map (fun cl => (cl_id cl, cl_addr cl)) p.
Definition adel (a : addr) (l : list (Z * addr)) : list (Z * addr) :=
  filter (fun x => negb (addr_eqb a (snd x))) l.

Lemma shape_app p q : shape (p ++ q) = shape p ++ shape q.
Proof. apply map_app. Qed.
Lemma shape_ids p : map fst (shape p) = map cl_id p.
Proof. unfold shape. rewrite map_map. auto. Qed.
Lemma shape_addrs p : map snd (shape p) = map cl_addr p.
Proof. unfold shape. rewrite map_map. auto. Qed.
Lemma shape_pmap_id cid f p : shape (pmap_id cid f p) = shape p.
Proof.
  unfold shape, pmap_id. rewrite map_map. apply map_ext. intros cl.
  destruct (cl_id cl =? cid); auto.
Qed.
Lemma shape_pdel a p : shape (pdel a p) = adel a (shape p).
Proof.
  unfold shape, pdel, adel. induction p as [|x r IH]; simpl; auto.
  destruct (addr_eqb a (cl_addr x)); simpl; rewrite IH; auto.
Qed.
Lemma pget_in a p cl : pget a p = Some cl -> In cl p /\ cl_addr cl = a.
Proof.
  induction p as [|x r IH]; simpl; [discriminate|].
  destruct (addr_eqb a (cl_addr x)) eqn:E.
  - intros [= <-]. apply addr_eqb_eq in E. auto.
  - intros H. destruct (IH H). auto.
Qed.
Lemma pget_none a p : pget a p = None -> ~ In a (map cl_addr p).
Proof.
  induction p as [|x r IH]; simpl; auto.
  destruct (addr_eqb a (cl_addr x)) eqn:E; [discriminate|].
  intros H [F|F]; [apply addr_eqb_neq in E; congruence | apply IH; auto].
Qed.
Lemma pget_some_in a p : In a (map cl_addr p) -> exists cl, pget a p = Some cl.
Proof.
  induction p as [|x r IH]; simpl; [tauto|].
  destruct (addr_eqb a (cl_addr x)) eqn:E; [eauto|].
  intros [F|F]; [apply addr_eqb_neq in E; congruence | auto].
Qed.
Lemma pset_fresh cl p : pget (cl_addr cl) p = None -> pset cl p = p ++ [cl].
Proof.
  induction p as [|x r IH]; simpl; auto.
  destruct (addr_eqb (cl_addr cl) (cl_addr x)); [discriminate|].
  intros H. rewrite IH; auto.
Qed.
Lemma pfind_in cid p cl : pfind cid p = Some cl -> In cl p /\ cl_id cl = cid.
Proof.
  induction p as [|x r IH]; simpl; [discriminate|].
  destruct (cl_id x =? cid) eqn:E.
  - intros [= <-]. split; auto. lia.
  - intros H. destruct (IH H). auto.
Qed.
Lemma pfind_some cid p : In cid (map cl_id p) -> exists cl, pfind cid p = Some cl.
Proof.
  induction p as [|x r IH]; simpl; [tauto|].
  destruct (cl_id x =? cid) eqn:E; [eauto|].
  intros [F|F]; [lia | auto].
Qed.
Lemma pfind_none cid p : pfind cid p = None -> ~ In cid (map cl_id p).
Proof.
  induction p as [|x r IH]; simpl; auto.
  destruct (cl_id x =? cid) eqn:E; [discriminate|].
  intros H [F|F]; [lia | apply IH; auto].
Qed.
Lemma in_shape cl p : In cl p -> In (cl_id cl, cl_addr cl) (shape p).
Proof. intros H. unfold shape. apply in_map_iff. eauto. Qed.

(* ---------- the per-client automaton over handler events ---------- *)
Inductive phase := Fresh | Live | Gone.
Definition ev_cid (e : hevent) : option Z :=
  match e with HConnect c _ _ => Some c | HMessage c _ _ => Some c | HDisconnect c => Some c | _ => None end.
Definition ev_is (cid : Z) (e : hevent) : bool :=
  match ev_cid e with Some c => c =? cid | None => false end.
Definition lc_step (p : option phase) (e : hevent) : option phase :=
  match p, e with
  | Some Fresh, HConnect _ _ _ => Some Live
  | Some Live, HMessage _ _ _ => Some Live
  | Some Live, HDisconnect _ => Some Gone
  | _, _ => None
  end.
Definition hlog (o : list sout) : list hevent :=
  flat_map (fun x => match x with SEv e => [e] | _ => [] end) o.
Definition proj (cid : Z) (l : list hevent) : list hevent := filter (ev_is cid) l.
Definition adv (phi : Z -> option phase) (l : list hevent) (cid : Z) : option phase :=
  fold_left lc_step (proj cid l) (phi cid).

Lemma hlog_app a b : hlog (a ++ b) = hlog a ++ hlog b.
Proof. unfold hlog. apply flat_map_app. Qed.
Lemma adv_app phi a b cid : adv phi (a ++ b) cid = adv (adv phi a) b cid.
Proof. unfold adv, proj. rewrite filter_app, fold_left_app. auto. Qed.
Lemma adv_nil phi cid : adv phi [] cid = phi cid.
Proof. reflexivity. Qed.
Lemma adv_other phi e cid : ev_is cid e = false -> adv phi [e] cid = phi cid.
Proof. intros H. unfold adv, proj. simpl. rewrite H. auto. Qed.
Lemma adv_one phi e cid : ev_is cid e = true -> adv phi [e] cid = lc_step (phi cid) e.
Proof. intros H. unfold adv, proj. simpl. rewrite H. auto. Qed.

(* ---------- the invariant, over the shapes of the two pools ---------- *)
Definition Inv' (st sc : list (Z * addr)) (n : Z) (phi : Z -> option phase) : Prop :=
  NoDup (map fst (st ++ sc)) /\ NoDup (map snd (st ++ sc)) /\
  (forall x, In x (st ++ sc) -> fst x < n) /\
  (forall cid, In cid (map fst sc) <-> phi cid = Some Live) /\
  (forall cid, In cid (map fst st) -> phi cid = Some Fresh) /\
  (forall cid, n <= cid -> phi cid = Some Fresh) /\
  (forall cid, phi cid <> None).

Definition Inv (s : srv) (phi : Z -> option phase) : Prop :=
  Inv' (shape (s_temp s)) (shape (s_conns s)) (s_next_id s) phi.

Lemma Inv'_ext st sc n phi phi' : (forall c, phi c = phi' c) -> Inv' st sc n phi -> Inv' st sc n phi'.
Proof.
  intros E (A & B & C & D & F & G & H). repeat split; auto.
  - intros I. rewrite <- E. apply D; auto.
  - intros I. apply D. rewrite E. auto.
  - intros cid I. rewrite <- E. auto.
  - intros cid I. rewrite <- E. auto.
  - intros cid. rewrite <- E. auto.
Qed.

Lemma adel_in a l x : In x (adel a l) <-> In x l /\ snd x <> a.
Proof.
  unfold adel. rewrite filter_In. split; intros [A B]; split; auto.
  - intros E. subst. rewrite addr_eqb_refl in B. discriminate.
  - apply negb_true_iff. apply addr_eqb_neq. congruence.
Qed.
Lemma adel_sub a l x : In x (adel a l) -> In x l.
Proof. intros H. apply adel_in in H. tauto. Qed.

Lemma NoDup_map_filter {A B} (f : A -> B) (p : A -> bool) l : NoDup (map f l) -> NoDup (map f (filter p l)).
Proof.
  induction l as [|x r IH]; simpl; auto.
  intros H. inversion H as [|? ? N1 N2]; subst.
  destruct (p x); simpl; auto. constructor; auto.
  intros I. apply N1. apply in_map_iff in I. destruct I as (y & E & I). apply filter_In in I.
  apply in_map_iff. exists y. tauto.
Qed.

Lemma adel_notin a l : ~ In a (map snd l) -> adel a l = l.
Proof.
  induction l as [|x r IH]; simpl; auto. intros H.
  destruct (addr_eqb a (snd x)) eqn:E.
  - apply addr_eqb_eq in E. exfalso. apply H. auto.
  - simpl. rewrite IH; auto.
Qed.

(* removing the unique entry with address a *)
Lemma adel_perm cid a l : NoDup (map snd l) -> In (cid, a) l -> Permutation l ((cid, a) :: adel a l).
Proof.
  induction l as [|x r IH]; simpl; [tauto|].
  intros N [E|I]; inversion N as [|? ? N1 N2]; subst.
  - simpl. rewrite addr_eqb_refl. simpl. rewrite adel_notin; auto.
  - destruct (addr_eqb a (snd x)) eqn:E.
    + apply addr_eqb_eq in E. exfalso. apply N1. rewrite <- E. apply in_map_iff. exists (cid, a). auto.
    + simpl. eapply perm_trans; [apply perm_skip, IH; auto|]. apply perm_swap.
Qed.

Lemma nodup_app_iff {A} (l1 l2 : list A) :
  NoDup (l1 ++ l2) <-> NoDup l1 /\ NoDup l2 /\ (forall x, In x l1 -> ~ In x l2).
Proof.
  induction l1 as [|a r IH]; simpl.
  - split; [intros H; repeat split; auto; constructor | tauto].
  - split.
    + intros H. inversion H as [|? ? N1 N2]; subst. apply IH in N2. destruct N2 as (X & Y & Z).
      repeat split; auto.
      * constructor; auto. intros I. apply N1. apply in_app_iff; auto.
      * intros x [E|I]; [subst; intros I; apply N1; apply in_app_iff; auto | auto].
    + intros (X & Y & Z). inversion X as [|? ? N1 N2]; subst. constructor.
      * intros I. apply in_app_iff in I. destruct I as [I|I]; [auto | eapply Z; eauto].
      * apply IH. repeat split; auto.
Qed.

Lemma map_adel_sub {B} (f : Z * addr -> B) a l z : In z (map f (adel a l)) -> In z (map f l).
Proof. intros I. apply in_map_iff in I. destruct I as (y & E & I). apply adel_sub in I. apply in_map_iff. eauto. Qed.

Lemma Inv'_drop st sc n phi a : Inv' st sc n phi -> Inv' (adel a st) sc n phi.
Proof.
  intros (A & B & C & D & F & G & H). unfold Inv'.
  rewrite !map_app in *. apply nodup_app_iff in A. apply nodup_app_iff in B.
  destruct A as (A1 & A2 & A3), B as (B1 & B2 & B3).
  repeat split; auto.
  - apply nodup_app_iff. repeat split; auto.
    + apply NoDup_map_filter; auto.
    + intros x I. apply A3. eapply map_adel_sub; eauto.
  - apply nodup_app_iff. repeat split; auto.
    + apply NoDup_map_filter; auto.
    + intros x I. apply B3. eapply map_adel_sub; eauto.
  - intros x I. apply C. apply in_app_iff in I. apply in_app_iff. destruct I as [I|I]; auto. left. eapply adel_sub; eauto.
  - apply D.
  - apply D.
  - intros cid I. apply F. eapply map_adel_sub; eauto.
Qed.

Lemma Inv'_new st sc n phi a :
  Inv' st sc n phi -> ~ In a (map snd (st ++ sc)) -> Inv' (st ++ [(n, a)]) sc (n + 1) phi.
Proof.
  intros (A & B & C & D & F & G & H) N. unfold Inv'.
  assert (P : forall {X} (l1 l2 : list X) x, Permutation ((l1 ++ [x]) ++ l2) (x :: l1 ++ l2)).
  { intros X l1 l2 x. rewrite <- app_assoc. simpl. symmetry. apply Permutation_middle. }
  repeat split; auto.
  - eapply Permutation_NoDup; [symmetry; apply Permutation_map, P|]. simpl. constructor; auto.
    intros I. apply in_map_iff in I. destruct I as (y & E & I). apply C in I. lia.
  - eapply Permutation_NoDup; [symmetry; apply Permutation_map, P|]. simpl. constructor; auto.
  - intros x I. eapply Permutation_in in I; [|apply P]. destruct I as [<-|I]; simpl; [lia|]. apply C in I. lia.
  - apply D.
  - apply D.
  - intros cid I. rewrite map_app in I. apply in_app_iff in I. destruct I as [I|[<-|[]]]; auto. apply G. simpl. lia.
  - intros cid I. apply G. lia.
Qed.

Lemma Inv'_quiet st sc n phi e : Inv' st sc n phi -> ev_cid e = None -> Inv' st sc n (adv phi [e]).
Proof.
  intros I E. eapply Inv'_ext; [|exact I]. intros c. symmetry. apply adv_other. unfold ev_is. rewrite E. auto.
Qed.

Lemma ev_is_true cid e : ev_is cid e = true <-> ev_cid e = Some cid.
Proof.
  unfold ev_is. destruct (ev_cid e); [|split; discriminate]. rewrite Z.eqb_eq. split; [intros ->; auto | intros [= ->]; auto].
Qed.

Lemma Inv'_msg st sc n phi cid ms p :
  Inv' st sc n phi -> In cid (map fst sc) -> Inv' st sc n (adv phi [HMessage cid ms p]).
Proof.
  intros I M. eapply Inv'_ext; [|exact I]. intros c. symmetry.
  destruct (ev_is c (HMessage cid ms p)) eqn:E.
  - rewrite adv_one; auto. apply ev_is_true in E. simpl in E. injection E as <-.
    destruct I as (_ & _ & _ & D & _). apply D in M. rewrite M. auto.
  - apply adv_other; auto.
Qed.

Lemma Inv'_connect st sc n phi cid a t :
  Inv' st sc n phi -> In (cid, a) st -> Inv' (adel a st) (sc ++ [(cid, a)]) n (adv phi [HConnect cid a t]).
Proof.
  intros (A & B & C & D & F & G & H) M. unfold Inv'.
  assert (Ns : NoDup (map snd st)) by (rewrite map_app in B; apply nodup_app_iff in B; tauto).
  pose proof (adel_perm cid a st Ns M) as P.
  assert (P2 : Permutation (st ++ sc) (adel a st ++ sc ++ [(cid, a)])).
  { eapply perm_trans; [apply Permutation_app_tail, P|]. simpl.
    rewrite app_assoc. apply Permutation_cons_append. }
  assert (Fc : phi cid = Some Fresh). { apply F. apply in_map_iff. exists (cid, a). auto. }
  assert (NL : ~ In cid (map fst sc)). { intros I. apply D in I. congruence. }
  assert (NT : ~ In cid (map fst (adel a st))).
  { intros I. apply in_map_iff in I. destruct I as ([c' a'] & E & I). simpl in E. subst c'.
    apply adel_in in I. destruct I as [I Na]. simpl in Na.
    rewrite map_app in A. apply nodup_app_iff in A. destruct A as (A1 & _ & _).
    clear - A1 M I Na. induction st as [|x r IH]; simpl in *; [tauto|]. inversion A1; subst.
    destruct M as [->|M], I as [E|I].
    - injection E as ->. congruence.
    - apply H1. simpl. apply in_map_iff. exists (cid, a'). auto.
    - subst x. apply H1. simpl. apply in_map_iff. exists (cid, a). auto.
    - auto. }
  assert (AV : forall c, adv phi [HConnect cid a t] c = if c =? cid then Some Live else phi c).
  { intros c. destruct (c =? cid) eqn:E.
    - rewrite adv_one; [|apply ev_is_true; simpl; f_equal; lia]. assert (c = cid) by lia. subst. rewrite Fc. auto.
    - apply adv_other. unfold ev_is. simpl. lia. }
  repeat split.
  - eapply Permutation_NoDup; [apply Permutation_map, P2|auto].
  - eapply Permutation_NoDup; [apply Permutation_map, P2|auto].
  - intros x I. apply C. eapply Permutation_in; [symmetry; apply P2|auto].
  - intros I. rewrite AV. destruct (cid0 =? cid) eqn:E; auto. rewrite map_app in I. apply in_app_iff in I.
    destruct I as [I|[I|[]]]; [apply D; auto | simpl in I; lia].
  - rewrite AV. destruct (cid0 =? cid) eqn:E; intros I.
    + rewrite map_app. apply in_app_iff. right. simpl. left. lia.
    + rewrite map_app. apply in_app_iff. left. apply D; auto.
  - intros c I. rewrite AV. destruct (c =? cid) eqn:E.
    + assert (c = cid) by lia. subst. contradiction.
    + apply F. eapply map_adel_sub; eauto.
  - intros c I. rewrite AV. destruct (c =? cid) eqn:E; auto.
    assert (c = cid) by lia. subst. assert (X : In (cid, a) (st ++ sc)) by (apply in_app_iff; auto). apply C in X. simpl in X. lia.
  - intros c. rewrite AV. destruct (c =? cid); auto. discriminate.
Qed.

Lemma Inv'_disc st sc n phi cid a :
  Inv' st sc n phi -> In (cid, a) sc -> Inv' st (adel a sc) n (adv phi [HDisconnect cid]).
Proof.
  intros (A & B & C & D & F & G & H) M. unfold Inv'.
  rewrite !map_app in *. apply nodup_app_iff in A. apply nodup_app_iff in B.
  destruct A as (A1 & A2 & A3), B as (B1 & B2 & B3).
  assert (Lc : phi cid = Some Live). { apply D. apply in_map_iff. exists (cid, a). auto. }
  assert (AV : forall c, adv phi [HDisconnect cid] c = if c =? cid then Some Gone else phi c).
  { intros c. destruct (c =? cid) eqn:E.
    - rewrite adv_one; [|apply ev_is_true; simpl; f_equal; lia]. assert (c = cid) by lia. subst. rewrite Lc. auto.
    - apply adv_other. unfold ev_is. simpl. lia. }
  assert (NT : ~ In cid (map fst (adel a sc))).
  { intros I. apply in_map_iff in I. destruct I as ([c' a'] & E & I). simpl in E. subst c'.
    apply adel_in in I. destruct I as [I Na]. simpl in Na.
    clear - A2 M I Na. induction sc as [|x r IH]; simpl in *; [tauto|]. inversion A2; subst.
    destruct M as [->|M], I as [E|I].
    - injection E as ->. congruence.
    - apply H1. simpl. apply in_map_iff. exists (cid, a'). auto.
    - subst x. apply H1. simpl. apply in_map_iff. exists (cid, a). auto.
    - auto. }
  repeat split; auto.
  - apply nodup_app_iff. repeat split; auto.
    + apply NoDup_map_filter; auto.
    + intros x I J. eapply A3; eauto. eapply map_adel_sub; eauto.
  - apply nodup_app_iff. repeat split; auto.
    + apply NoDup_map_filter; auto.
    + intros x I J. eapply B3; eauto. eapply map_adel_sub; eauto.
  - intros x I. apply C. apply in_app_iff in I. apply in_app_iff. destruct I as [I|I]; auto. right. eapply adel_sub; eauto.
  - intros I. rewrite AV. destruct (cid0 =? cid) eqn:E.
    + assert (cid0 = cid) by lia. subst. contradiction.
    + apply D. eapply map_adel_sub; eauto.
  - rewrite AV. destruct (cid0 =? cid) eqn:E; [discriminate|]. intros I. apply D in I.
    apply in_map_iff in I. destruct I as ([c' a'] & E' & I). simpl in E'. subst c'.
    apply in_map_iff. exists (cid0, a'). split; auto. apply adel_in. split; auto. simpl. intros ->.
    assert (X : cid0 = cid); [|lia].
    clear - B2 M I. induction sc as [|x r IH]; simpl in *; [tauto|]. inversion B2; subst.
    destruct M as [->|M], I as [E|I]; auto.
    * congruence.
    * exfalso. apply H1. simpl. apply in_map_iff. exists (cid0, a). auto.
    * subst x. exfalso. apply H1. simpl. apply in_map_iff. exists (cid, a). auto.
  - intros c I. rewrite AV. destruct (c =? cid) eqn:E; auto.
    assert (c = cid) by lia. subst. exfalso. eapply A3; eauto. apply in_map_iff. exists (cid, a). auto.
  - intros c I. rewrite AV. destruct (c =? cid) eqn:E; auto.
    assert (c = cid) by lia. subst. assert (X : In (cid, a) (st ++ sc)) by (apply in_app_iff; auto). apply C in X. simpl in X. lia.
  - intros c. rewrite AV. destruct (c =? cid); auto. discriminate.
Qed.

(* ---------- frame: what the conn-only updates leave alone ---------- *)
Definition frame (s s' : srv) : Prop :=
  shape (s_temp s') = shape (s_temp s) /\ shape (s_conns s') = shape (s_conns s) /\
  s_next_id s' = s_next_id s /\ s_block s' = s_block s /\ s_cfg s' = s_cfg s /\
  s_active s' = s_active s /\ s_dead s' = s_dead s.

Lemma frame_refl s : frame s s.
Proof. unfold frame; tauto. Qed.
Lemma frame_trans a b c : frame a b -> frame b c -> frame a c.
Proof. unfold frame. intuition congruence. Qed.

Lemma supd_frame cid f s : frame s (supd cid f s).
Proof. unfold frame, supd; simpl. rewrite !shape_pmap_id. tauto. Qed.

Lemma apply_action_frame e s a : frame s (apply_action e s a).
Proof.
  destruct a; simpl; destruct (pget _ _); try apply frame_refl; apply supd_frame.
Qed.
Lemma fold_actions_frame e l : forall s, frame s (fold_left (apply_action e) l s).
Proof.
  induction l as [|a r IH]; simpl; intros s; [apply frame_refl|].
  eapply frame_trans; [apply apply_action_frame|apply IH].
Qed.

Lemma call_handler_spec h e s ev s' o :
  call_handler h e s ev = (s', o) -> frame s s' /\ hlog o = [ev].
Proof.
  unfold call_handler. intros [= <- <-]. split.
  - eapply frame_trans; [|apply fold_actions_frame]. unfold frame; simpl; tauto.
  - destruct (r_raises _); reflexivity.
Qed.

Lemma Inv_frame s s' phi : frame s s' -> Inv s phi -> Inv s' phi.
Proof. unfold Inv, frame. intros (A & B & C & _) I. rewrite A, B, C. auto. Qed.

Lemma frame_rand s l : frame s (s <| s_rand := l |>).
Proof. unfold frame; simpl; tauto. Qed.

(* conns only grows at its end during D *)
Definition grows (s s' : srv) : Prop := exists ext, shape (s_conns s') = shape (s_conns s) ++ ext.
Lemma grows_refl s : grows s s.
Proof. exists []. rewrite app_nil_r. auto. Qed.
Lemma grows_trans a b c : grows a b -> grows b c -> grows a c.
Proof. intros [x X] [y Y]. exists (x ++ y). rewrite Y, X, app_assoc. auto. Qed.
Lemma frame_grows s s' : frame s s' -> grows s s'.
Proof. intros (_ & B & _). exists []. rewrite app_nil_r. auto. Qed.
Lemma grows_in s s' cid : grows s s' -> In cid (map cl_id (s_conns s)) -> In cid (map cl_id (s_conns s')).
Proof.
  intros [x X] I. rewrite <- shape_ids in *. rewrite X, map_app. apply in_app_iff. auto.
Qed.

Lemma sfind_in cid s cl : sfind cid s = Some cl ->
  cl_id cl = cid /\ (In cl (s_conns s) \/ In cl (s_temp s)).
Proof.
  unfold sfind. destruct (pfind cid (s_conns s)) eqn:E.
  - intros [= <-]. apply pfind_in in E. tauto.
  - intros H. apply pfind_in in H. tauto.
Qed.

Lemma on_connect_inv h e s cid s' o phi :
  on_connect h e s cid = (s', o) -> Inv s phi ->
  Inv s' (adv phi (hlog o)) /\ grows s s' /\ s_dead s' = s_dead s /\ s_active s' = s_active s.
Proof.
  unfold on_connect. destruct (sfind cid s) as [cl|] eqn:F.
  2:{ intros [= <- <-] I. simpl. split; [|split; [apply grows_refl|auto]]. eapply Inv'_ext; [|exact I]. auto. }
  destruct (pget (cl_addr cl) (s_temp s)) as [x|] eqn:G.
  2:{ intros [= <- <-] I. simpl. split; [|split; [apply grows_refl|auto]]. eapply Inv'_ext; [|exact I]. auto. }
  intros H I. apply call_handler_spec in H. destruct H as [Fr Hl]. rewrite Hl.
  apply sfind_in in F. destruct F as [Ec Mem]. apply pget_in in G. destruct G as [Gx Ga].
  pose proof I as (A & B & _).
  (* cl is the temp entry x *)
  assert (Tx : In (cid, cl_addr cl) (shape (s_temp s))).
  { destruct Mem as [M|M].
    - exfalso. rewrite <- shape_app, shape_addrs, map_app in B. apply nodup_app_iff in B.
      destruct B as (_ & _ & B3). apply (B3 (cl_addr cl)).
      + rewrite <- Ga. apply in_map; auto.
      + apply in_map; auto.
    - rewrite <- Ec. apply in_shape; auto. }
  assert (NC : pget (cl_addr cl) (s_conns s) = None).
  { destruct (pget (cl_addr cl) (s_conns s)) eqn:P; auto. exfalso. apply pget_in in P. destruct P as [P1 P2].
    rewrite <- shape_app, shape_addrs, map_app in B. apply nodup_app_iff in B.
    destruct B as (_ & _ & B3). apply (B3 (cl_addr cl)).
    - rewrite <- Ga. apply in_map; auto.
    - rewrite <- P2. apply in_map; auto. }
  set (s1 := s <| s_temp := pdel (cl_addr cl) (s_temp s) |> <| s_conns := pset cl (s_conns s) |>) in *.
  assert (I1 : Inv s1 (adv phi [HConnect cid (cl_addr cl) (c_token (cl_conn cl))])).
  { unfold Inv, s1; simpl. rewrite shape_pdel, pset_fresh, shape_app; auto. simpl. rewrite Ec.
    apply Inv'_connect; auto. }
  split; [eapply Inv_frame; eauto|]. split.
  - eapply grows_trans; [|apply frame_grows; eauto]. exists [(cl_id cl, cl_addr cl)].
    unfold s1; simpl. rewrite pset_fresh, shape_app; auto.
  - destruct Fr as (_ & _ & _ & _ & _ & Fa & Fd). rewrite Fa, Fd. auto.
Qed.

#[local] Arguments call_handler : simpl never.
#[local] Arguments srv_msg : simpl never.
#[local] Arguments srv_recv : simpl never.
#[local] Arguments on_connect : simpl never.
#[local] Arguments deliver : simpl never.
#[local] Arguments disp_item : simpl never.
#[local] Arguments supd : simpl never.
#[local] Arguments gate : simpl never.

Definition DInv (s s' : srv) (o : list sout) (phi : Z -> option phase) : Prop :=
  Inv s' (adv phi (hlog o)) /\ grows s s' /\ s_active s' = s_active s.

Lemma DInv_refl s phi : Inv s phi -> DInv s s [] phi.
Proof. intros I. split; [|split]; auto. apply grows_refl. Qed.

Lemma DInv_trans s s1 s2 o1 o2 phi :
  DInv s s1 o1 phi -> DInv s1 s2 o2 (adv phi (hlog o1)) -> DInv s s2 (o1 ++ o2) phi.
Proof.
  intros (A & B & C) (D & E & F). split; [|split].
  - eapply Inv'_ext; [|exact D]. intros c. rewrite hlog_app, adv_app. auto.
  - eapply grows_trans; eauto.
  - congruence.
Qed.

Lemma DInv_frame s s' phi : frame s s' -> Inv s phi -> DInv s s' [] phi.
Proof.
  intros F I. split; [|split].
  - eapply Inv_frame; eauto.
  - apply frame_grows; auto.
  - apply F.
Qed.

Lemma DInv_log s s' o o' phi : hlog o' = hlog o -> DInv s s' o phi -> DInv s s' o' phi.
Proof. intros E (A & B & C). split; [|split]; auto. rewrite E. auto. Qed.

Lemma srv_msg_inv h e s cid now m x s' o r phi :
  srv_msg h e s cid now m x = (s', o, r) -> Inv s phi -> DInv s s' o phi.
Proof.
  unfold srv_msg. destruct (sfind cid s) as [cl|].
  2:{ intros [= <- <- <-]. apply DInv_refl. }
  match goal with |- context [match (if ?b then ?u else ?v) with _ => _ end] =>
    destruct (if b then u else v) as [[t rand']|] end.
  2:{ intros [= <- <- <-] I. split; [|split]; auto. exists []. simpl. rewrite app_nil_r. auto. }
  destruct (recv_msgs _ _ _ _) as [c' outs].
  match goal with |- context [supd cid ?f ?s0] => set (s1 := supd cid f s0) end.
  assert (F1 : frame s s1).
  { eapply frame_trans; [apply frame_rand|apply supd_frame]. }
  destruct (has_connect outs).
  - destruct (on_connect h e s1 cid) as [s2 o2] eqn:OC. intros [= <- <- <-] I.
    apply (on_connect_inv _ _ _ _ _ _ phi) in OC; [|eapply Inv_frame; eauto].
    destruct OC as (A & B & C & D).
    eapply DInv_log with (o := [] ++ o2).
    { rewrite !hlog_app. simpl.
      match goal with |- context [if ?b then [SHello _ _ _ _] else []] => destruct b end; reflexivity. }
    eapply DInv_trans; [apply DInv_frame; eauto|]. split; [|split]; auto.
  - intros [= <- <- <-] I. eapply DInv_log with (o := []).
    { match goal with |- context [if ?b then [SHello _ _ _ _] else []] => destruct b end; reflexivity. }
    apply DInv_frame; auto.
Qed.

Lemma srv_msgs_inv h e cid now ms : forall s xs s' o r phi,
  srv_msgs h e s cid now ms xs = (s', o, r) -> Inv s phi -> DInv s s' o phi.
Proof.
  induction ms as [|m rest IH]; simpl; intros s xs s' o r phi.
  - intros [= <- <- <-]. apply DInv_refl.
  - destruct (srv_msg h e s cid now m (hd no_hsx xs)) as [[s1 o1] r1] eqn:M.
    destruct r1.
    + intros [= <- <- <-] I. eapply srv_msg_inv; eauto.
    + destruct (srv_msgs h e s1 cid now rest _) as [[s2 o2] r2] eqn:R. intros [= <- <- <-] I.
      pose proof (srv_msg_inv _ _ _ _ _ _ _ _ _ _ _ M I) as D1.
      eapply DInv_trans; eauto. eapply IH; eauto. apply D1.
Qed.

Lemma hlog_cb_outs cid o : hlog (cb_outs cid o) = [].
Proof.
  unfold cb_outs. induction o as [|x r IH]; simpl; auto. rewrite hlog_app, IH. destruct x; reflexivity.
Qed.

Lemma srv_recv_inv h e s cid now d xs s' o r phi :
  srv_recv h e s cid now d xs = (s', o, r) -> Inv s phi -> DInv s s' o phi.
Proof.
  unfold srv_recv. destruct (sfind cid s) as [cl|].
  2:{ intros [= <- <- <-]. apply DInv_refl. }
  assert (DR : forall f, Inv s phi -> DInv s (supd cid f s) [] phi).
  { intros f I. apply DInv_frame; auto. apply supd_frame. }
  destruct (keyless_refuses _ _). { intros [= <- <- <-]. apply DR. }
  destruct (open_dgram _ _) as [ms|er]. 2:{ intros [= <- <- <-]. apply DR. }
  destruct (bf_insert _ _) as [bf|er2]. 2:{ intros [= <- <- <-]. apply DR. }
  destruct (handle_ack_bits _ _) as [c1 o1].
  destruct (srv_msgs _ _ _ _ _ _ _) as [[s2 o2] r2] eqn:M. intros [= <- <- <-] I.
  eapply DInv_log with (o := [] ++ o2). { rewrite !hlog_app, hlog_cb_outs. auto. }
  eapply DInv_trans; [apply DR; auto|]. eapply srv_msgs_inv; eauto. apply DR; auto.
Qed.

Lemma deliver_msgs_inv h e cid q : forall s s' o phi,
  deliver_msgs h e s cid q = (s', o) -> Inv s phi -> In cid (map cl_id (s_conns s)) ->
  DInv s s' o phi /\ frame s s'.
Proof.
  induction q as [|[ms p] rest IH]; cbn [deliver_msgs]; intros s s' o phi.
  - intros [= <- <-] I M. split; [apply DInv_refl; auto|apply frame_refl].
  - destruct (call_handler h e s (HMessage cid ms p)) as [s1 o1] eqn:C.
    destruct (deliver_msgs h e s1 cid rest) as [s2 o2] eqn:R. intros [= <- <-] I M.
    apply call_handler_spec in C. destruct C as [F1 L1].
    assert (D1 : DInv s s1 o1 phi).
    { split; [|split]; [|apply frame_grows; auto|apply F1]. rewrite L1.
      eapply Inv_frame; eauto. unfold Inv. apply Inv'_msg; auto. rewrite shape_ids. auto. }
    assert (M1 : In cid (map cl_id (s_conns s1))). { eapply grows_in; eauto. apply D1. }
    destruct (IH _ _ _ _ R (proj1 D1) M1) as [D2 F2].
    split; [eapply DInv_trans; eauto | eapply frame_trans; eauto].
Qed.

Lemma deliver_inv h e s cid s' o phi :
  deliver h e s cid = (s', o) -> Inv s phi -> In cid (map cl_id (s_conns s)) -> DInv s s' o phi.
Proof.
  unfold deliver. destruct (sfind cid s) as [cl|].
  2:{ intros [= <- <-] I _. apply DInv_refl; auto. }
  destruct (deliver_msgs _ _ _ _ _) as [s1 o1] eqn:D. intros [= <- <-] I M.
  destruct (deliver_msgs_inv _ _ _ _ _ _ _ _ D I M) as [D1 F1].
  rewrite <- (app_nil_r o1). eapply DInv_trans; eauto. apply DInv_frame; [apply supd_frame|apply D1].
Qed.

Lemma disp_item_inv h e s now a d xs s' o phi :
  disp_item h e s now a d xs = (s', o) -> Inv s phi -> DInv s s' o phi.
Proof.
  unfold disp_item. destruct (pget a (s_conns s)) as [cl|] eqn:PC.
  - destruct (srv_recv _ _ _ _ _ _ _) as [[s1 o1] r1] eqn:R.
    intros H I. pose proof (srv_recv_inv _ _ _ _ _ _ _ _ _ _ _ R I) as D1.
    destruct (s_dead s1). { injection H as <- <-. auto. }
    destruct r1.
    + injection H as <- <-. eapply DInv_log; [|exact D1]. rewrite hlog_app. simpl. rewrite app_nil_r. auto.
    + destruct (deliver h e s1 (cl_id cl)) as [s2 o2] eqn:D. injection H as <- <-.
      eapply DInv_trans; eauto. eapply deliver_inv; eauto; [apply D1|].
      eapply grows_in; [apply D1|]. apply pget_in in PC. apply in_map. tauto.
  - destruct (pget a (s_temp s)) as [cl|] eqn:PT.
    + destruct (negb _). { intros [= <- <-]. apply DInv_refl. }
      destruct (srv_recv _ _ _ _ _ _ _) as [[s1 o1] r1] eqn:R.
      intros H I. pose proof (srv_recv_inv _ _ _ _ _ _ _ _ _ _ _ R I) as D1.
      destruct (s_dead s1); injection H as <- <-; auto.
      eapply DInv_log; [|exact D1]. rewrite hlog_app. destruct r1; simpl; rewrite app_nil_r; auto.
    + destruct (negb _). { intros [= <- <-]. apply DInv_refl. }
      match goal with |- context [srv_recv h e ?s0 _ _ _ _] => set (s1 := s0) end.
      destruct (srv_recv _ _ _ _ _ _ _) as [[s2 o2] r2] eqn:R.
      intros H I.
      assert (D0 : DInv s s1 [] phi).
      { split; [|split]; [| |reflexivity].
        - unfold Inv, s1; simpl. rewrite pset_fresh, shape_app; auto. simpl. apply Inv'_new; auto.
          rewrite <- shape_app, shape_addrs, map_app. intros X. apply in_app_iff in X.
          destruct X as [X|X]; [apply pget_none in PT|apply pget_none in PC]; contradiction.
        - unfold s1. exists []. simpl. rewrite app_nil_r. auto. }
      pose proof (srv_recv_inv _ _ _ _ _ _ _ _ _ _ _ R (proj1 D0)) as D1.
      assert (D2 : DInv s s2 o2 phi) by (eapply (DInv_trans _ _ _ [] o2); eauto).
      destruct (s_dead s2); injection H as <- <-; auto.
      eapply DInv_log; [|exact D2]. rewrite hlog_app. destruct r2; simpl; rewrite app_nil_r; auto.
Qed.

Lemma disp_all_inv h e now q : forall s s' o phi,
  disp_all h e s now q = (s', o) -> Inv s phi -> DInv s s' o phi.
Proof.
  induction q as [|it rest IH]; simpl; intros s s' o phi.
  - intros [= <- <-]. apply DInv_refl.
  - destruct (s_dead s). { intros [= <- <-]. apply DInv_refl. }
    destruct (match gate (s_block s) it with Some _ => _ | None => _ end) as [s1 o1] eqn:G.
    destruct (disp_all h e s1 now rest) as [s2 o2] eqn:R. intros [= <- <-] I.
    assert (D1 : DInv s s1 o1 phi).
    { destruct (gate (s_block s) it) as [[[a d] xs]|].
      - eapply disp_item_inv; eauto.
      - injection G as <- <-. apply DInv_refl; auto. }
    eapply DInv_trans; eauto. eapply IH; eauto. apply D1.
Qed.

Lemma srv_du_inv h e s i s' o phi :
  srv_du h e s i = (s', o) -> Inv s phi -> DInv s s' o phi.
Proof.
  unfold srv_du. destruct (disp_all _ _ _ _ _) as [s1 o1] eqn:D. intros H I.
  assert (D1 : DInv s s1 o1 phi).
  { rewrite <- (app_nil_l o1). eapply DInv_trans; [apply DInv_frame; [apply frame_rand|auto]|].
    eapply disp_all_inv; [exact D|]. eapply Inv_frame; [apply frame_rand|auto]. }
  destruct (s_dead s1). { injection H as <- <-. auto. }
  destruct (call_handler h e s1 HUpdate) as [s2 o2] eqn:C. injection H as <- <-.
  apply call_handler_spec in C. destruct C as [F L].
  eapply DInv_trans; eauto. split; [|split]; [|apply frame_grows; auto|apply F].
  rewrite L. eapply Inv_frame; eauto. apply Inv'_quiet; auto. apply D1.
Qed.

(* ---------- S phase ---------- *)
#[local] Arguments tick_client : simpl never.
#[local] Arguments sweep_conn : simpl never.
#[local] Arguments sweep_temp : simpl never.

Definition SInv (s s' : srv) (o : list sout) (phi : Z -> option phase) : Prop :=
  Inv s' (adv phi (hlog o)) /\ s_active s' = s_active s /\ s_dead s' = s_dead s.

Lemma SInv_trans s s1 s2 o1 o2 phi :
  SInv s s1 o1 phi -> SInv s1 s2 o2 (adv phi (hlog o1)) -> SInv s s2 (o1 ++ o2) phi.
Proof.
  intros (A & B & C) (D & E & F). split; [|split]; try congruence.
  eapply Inv'_ext; [|exact D]. intros c. rewrite hlog_app, adv_app. auto.
Qed.
Lemma SInv_frame s s' phi : frame s s' -> Inv s phi -> SInv s s' [] phi.
Proof. intros F I. split; [eapply Inv_frame; eauto|split; apply F]. Qed.
Lemma SInv_log s s' o o' phi : hlog o' = hlog o -> SInv s s' o phi -> SInv s s' o' phi.
Proof. intros E (A & B & C). split; [|split]; auto. rewrite E. auto. Qed.

Lemma tick_client_spec e s cl now s' o p r :
  tick_client e s cl now = (s', o, p, r) -> frame s s' /\ hlog o = [].
Proof.
  unfold tick_client. destruct (server_tick _ _ _) as [c' o']. intros [= <- <- <- <-].
  split; [apply supd_frame|apply hlog_cb_outs].
Qed.

Lemma hlog_upderr (b : bool) cid : hlog (if b then [SUpdErr cid] else []) = [].
Proof. destruct b; reflexivity. Qed.

Lemma pfind_shape cid p cl : pfind cid p = Some cl -> In (cid, cl_addr cl) (shape p).
Proof. intros H. apply pfind_in in H. destruct H as [H <-]. apply in_shape; auto. Qed.

Lemma sweep_conn_inv h e s now cid s' o p phi :
  sweep_conn h e s now cid = (s', o, p) -> Inv s phi -> SInv s s' o phi.
Proof.
  unfold sweep_conn. destruct (pfind cid (s_conns s)) as [cl0|] eqn:P0.
  2:{ intros [= <- <- <-] I. apply SInv_frame; [apply frame_refl|auto]. }
  match goal with |- context [pfind cid (s_conns ?x)] =>
    match x with s => fail 1 | _ => set (sa := x) end end.
  assert (Fa : frame s sa). { unfold sa. destruct (status_eqb _ _); [apply supd_frame|apply frame_refl]. }
  destruct (pfind cid (s_conns sa)) as [cl|] eqn:P1.
  2:{ intros [= <- <- <-] I. apply SInv_frame; auto. }
  destruct (_ || _).
  - destruct (call_handler h e sa (HDisconnect cid)) as [s1 o1] eqn:C.
    apply call_handler_spec in C. destruct C as [F1 L1].
    destruct (pfind cid (s_conns s1)) as [cl1|] eqn:P2.
    + destruct (tick_client e s1 cl1 now) as [[[s2 o2] snd_] r2] eqn:Tk.
      apply tick_client_spec in Tk. destruct Tk as [F2 L2].
      intros [= <- <- <-] I.
      assert (Fall : frame s s2) by (eapply frame_trans; [eapply frame_trans|]; eauto).
      destruct Fall as (T2 & C2 & N2 & B2 & G2 & A2 & D2).
      split; [|split; [exact A2|exact D2]].
      rewrite !hlog_app, L1, L2, hlog_upderr. simpl.
      unfold Inv; simpl. rewrite shape_pdel. rewrite T2, C2, N2.
      apply Inv'_disc; auto. destruct Fa as (_ & Ca & _). rewrite <- Ca. apply pfind_shape; auto.
    + intros [= <- <- <-] I. exfalso. apply pfind_none in P2. apply P2.
      destruct F1 as (_ & C1 & _). rewrite <- shape_ids, C1, shape_ids. apply pfind_in in P1.
      destruct P1 as [P1 <-]. apply in_map; auto.
  - destruct (tick_client e sa cl now) as [[[s2 o2] snd_] r2] eqn:Tk.
    apply tick_client_spec in Tk. destruct Tk as [F2 L2]. intros [= <- <- <-] I.
    eapply SInv_log with (o := []). { rewrite hlog_app, L2, hlog_upderr. auto. }
    apply SInv_frame; auto. eapply frame_trans; eauto.
Qed.

Lemma sweep_temp_inv e s now cid s' o p phi :
  sweep_temp e s now cid = (s', o, p) -> Inv s phi -> SInv s s' o phi.
Proof.
  unfold sweep_temp. destruct (pfind cid (s_temp s)) as [cl|] eqn:P0.
  2:{ intros [= <- <- <-] I. apply SInv_frame; [apply frame_refl|auto]. }
  destruct (_ || _).
  - intros [= <- <- <-] I. split; [|split; reflexivity]. simpl.
    unfold Inv; simpl. rewrite shape_pdel. apply Inv'_drop; auto.
  - destruct (tick_client e s cl now) as [[[s2 o2] snd_] r2] eqn:Tk.
    apply tick_client_spec in Tk. destruct Tk as [F2 L2]. intros [= <- <- <-] I.
    eapply SInv_log with (o := []). { rewrite hlog_app, L2, hlog_upderr. auto. }
    apply SInv_frame; auto.
Qed.

Lemma sweep_list_inv (f : srv -> Z -> srv * list sout * list pending) :
  (forall s cid s' o p phi, f s cid = (s', o, p) -> Inv s phi -> SInv s s' o phi) ->
  forall ids s s' o p phi, sweep_list f s ids = (s', o, p) -> Inv s phi -> SInv s s' o phi.
Proof.
  intros Hf. induction ids as [|cid r IH]; simpl; intros s s' o p phi.
  - intros [= <- <- <-] I. apply SInv_frame; [apply frame_refl|auto].
  - destruct (f s cid) as [[s1 o1] p1] eqn:F1. destruct (sweep_list f s1 r) as [[s2 o2] p2] eqn:F2.
    intros [= <- <- <-] I. pose proof (Hf _ _ _ _ _ _ F1 I) as S1.
    eapply SInv_trans; eauto. eapply IH; eauto. apply S1.
Qed.

Lemma hlog_send_all l : hlog (send_all l) = [].
Proof.
  induction l as [|[[[a hd] k] p] r IH]; simpl; auto. destruct (_ && _); simpl; auto.
Qed.

Lemma shutdown_list_inv h e ids : forall s s' o phi,
  shutdown_list h e s ids = (s', o) -> Inv s phi -> SInv s s' o phi.
Proof.
  induction ids as [|cid r IH]; cbn [shutdown_list]; intros s s' o phi.
  - intros [= <- <-] I. apply SInv_frame; [apply frame_refl|auto].
  - destruct (pfind cid (s_conns s)) as [cl|] eqn:P. 2:{ apply IH. }
    destruct (call_handler h e s (HDisconnect cid)) as [s1 o1] eqn:C.
    apply call_handler_spec in C. destruct C as [F1 L1].
    match goal with |- context [shutdown_list h e ?x r] => set (sb := x) end.
    destruct (shutdown_list h e sb r) as [s2 o2] eqn:R. intros [= <- <-] I.
    assert (S1 : SInv s sb o1 phi).
    { destruct F1 as (T1 & C1 & N1 & B1 & G1 & A1 & D1).
      split; [|split; [exact A1|exact D1]]. rewrite L1.
      unfold Inv, sb; simpl. rewrite shape_pdel. rewrite T1, C1, N1.
      apply Inv'_disc; auto. apply pfind_shape; auto. }
    eapply SInv_trans; eauto. eapply IH; eauto. apply S1.
Qed.

Lemma nodup_fst_unique (l : list (Z * addr)) cid a a' :
  NoDup (map fst l) -> In (cid, a) l -> In (cid, a') l -> a' = a.
Proof.
  induction l as [|x l IH]; simpl; [tauto|]. intros N. inversion N; subst.
  intros [->|P] [E|M1]; auto.
  - congruence.
  - exfalso. apply H1. simpl. apply in_map_iff. exists (cid, a'). auto.
  - subst x. exfalso. apply H1. simpl. apply in_map_iff. exists (cid, a). auto.
Qed.

Lemma shutdown_list_clears h e ids : forall s s' o phi,
  shutdown_list h e s ids = (s', o) -> Inv s phi ->
  forall c, In c (map cl_id (s_conns s')) -> In c (map cl_id (s_conns s)) /\ ~ In c ids.
Proof.
  induction ids as [|cid r IH]; cbn [shutdown_list]; intros s s' o phi.
  - intros [= <- <-] I c M. auto.
  - destruct (pfind cid (s_conns s)) as [cl|] eqn:P.
    + destruct (call_handler h e s (HDisconnect cid)) as [s1 o1] eqn:C.
      apply call_handler_spec in C. destruct C as [F1 L1].
      match goal with |- context [shutdown_list h e ?x r] => set (sb := x) end.
      destruct (shutdown_list h e sb r) as [s2 o2] eqn:R. intros [= <- <-] I c M.
      destruct F1 as (T1 & C1 & N1 & B1 & G1 & A1 & D1).
      assert (Ib : Inv sb (adv phi [HDisconnect cid])).
      { unfold Inv, sb; simpl. rewrite shape_pdel. rewrite T1, C1, N1.
        apply Inv'_disc; auto. apply pfind_shape; auto. }
      destruct (IH _ _ _ _ R Ib c M) as [M1 M2].
      unfold sb in M1; simpl in M1. rewrite <- shape_ids, shape_pdel, C1 in M1.
      apply in_map_iff in M1. destruct M1 as ([c' a'] & E & M1). simpl in E. subst c'.
      apply adel_in in M1. destruct M1 as [M1 Na]. simpl in Na. split.
      * rewrite <- shape_ids. apply in_map_iff. exists (c, a'). auto.
      * intros [<-|X]; [|contradiction].
        apply pfind_shape in P. destruct I as (A & _). rewrite map_app in A. apply nodup_app_iff in A.
        destruct A as (_ & A2 & _). apply Na. eapply nodup_fst_unique; eauto.
    + intros R I c M. destruct (IH _ _ _ _ R I c M) as [M1 M2]. split; auto.
      intros [<-|X]; [|contradiction]. apply pfind_none in P. contradiction.
Qed.

#[local] Arguments srv_du : simpl never.
#[local] Arguments srv_shutdown : simpl never.

Lemma srv_shutdown_inv h e s s' o phi :
  srv_shutdown h e s = (s', o) -> Inv s phi ->
  Inv s' (adv phi (hlog o)) /\ s_conns s' = [] /\ s_active s' = false /\ s_dead s' = s_dead s.
Proof.
  unfold srv_shutdown. destruct (shutdown_list _ _ _ _) as [s1 o1] eqn:L.
  destruct (call_handler h e s1 HShutdown) as [s2 o2] eqn:C. intros [= <- <-] I.
  pose proof (shutdown_list_inv _ _ _ _ _ _ _ L I) as (I1 & _ & Dd1).
  pose proof (shutdown_list_clears _ _ _ _ _ _ _ L I) as Cl.
  apply call_handler_spec in C. destruct C as [F2 L2].
  assert (E1 : s_conns s1 = []).
  { destruct (s_conns s1) as [|x r] eqn:E; auto. exfalso.
    destruct (Cl (cl_id x)) as [A B]; [simpl; auto | contradiction]. }
  split; [|split; [|split]; simpl; auto].
  - assert (X : Inv' (shape (s_temp s2)) (shape (s_conns s2)) (s_next_id s2) (adv (adv phi (hlog o1)) (hlog o2))).
    { rewrite L2. destruct F2 as (T2 & C2 & N2 & _). rewrite T2, C2, N2. apply Inv'_quiet; auto. }
    unfold Inv; simpl. eapply Inv'_ext; [|exact X]. intros c. rewrite hlog_app, adv_app. auto.
  - destruct F2 as (_ & C2 & _). rewrite E1 in C2. destruct (s_conns s2); [auto|discriminate].
  - destruct F2 as (_ & _ & _ & _ & _ & _ & D2). congruence.
Qed.

Lemma srv_sx_inv h e s i s' o phi :
  srv_sx h e s i = (s', o) -> Inv s phi ->
  Inv s' (adv phi (hlog o)) /\ (s_active s' = false -> s_dead s' = false -> s_conns s' = [] \/ s_active s = false) /\
  s_dead s' = s_dead s.
Proof.
  unfold srv_sx.
  destruct (sweep_list _ s _) as [[s3 o3] p3] eqn:S3.
  destruct (sweep_list _ s3 _) as [[s4 o4] p4] eqn:S4.
  set (o5 := send_all (p3 ++ p4)). intros H I.
  assert (I3 : SInv s s3 o3 phi).
  { eapply sweep_list_inv; [|exact S3|exact I]. intros ? ? ? ? ? ? H0 H1; cbv beta in H0; eapply sweep_conn_inv; eauto. }
  assert (I4 : SInv s3 s4 o4 (adv phi (hlog o3))).
  { eapply sweep_list_inv; [|exact S4|apply I3]. intros ? ? ? ? ? ? H0 H1; cbv beta in H0; eapply sweep_temp_inv; eauto. }
  pose proof (SInv_trans _ _ _ _ _ _ I3 I4) as (I5 & A5 & D5).
  assert (S5 : hlog o5 = []) by apply hlog_send_all.
  assert (I6 : Inv s4 (adv phi (hlog (o3 ++ o4 ++ o5)))).
  { eapply Inv'_ext; [|exact I5]. intros c. rewrite !hlog_app, S5, app_nil_r. rewrite <- hlog_app. auto. }
  destruct (i_stop i).
  - destruct (srv_shutdown h e s4) as [s6 o6] eqn:X. injection H as <- <-.
    destruct (srv_shutdown_inv _ _ _ _ _ _ X I6) as (I7 & C7 & A7 & D7). split; [|split].
    + eapply Inv'_ext; [|exact I7]. intros c.
      replace (o3 ++ o4 ++ o5 ++ o6) with ((o3 ++ o4 ++ o5) ++ o6) by (rewrite <- !app_assoc; auto).
      rewrite (hlog_app (o3 ++ o4 ++ o5) o6), adv_app. auto.
    + auto.
    + congruence.
  - injection H as <- <-. split; [exact I6|split]. { intros A _. right. congruence. } auto.
Qed.

Lemma srv_step_inv h e s i s' o phi :
  srv_step h e s i = (s', o) -> Inv s phi ->
  Inv s' (adv phi (hlog o)) /\ (s_active s' = false -> s_dead s' = false -> s_conns s' = [] \/ s_active s = false).
Proof.
  unfold srv_step. destruct (negb (s_active s) || s_dead s) eqn:G.
  - intros [= <- <-] I. split; [exact I|]. intros A D. right. exact A.
  - destruct (srv_du h e s i) as [s2 o2] eqn:DU. intros H I.
    pose proof (srv_du_inv _ _ _ _ _ _ _ DU I) as (I2 & _ & A2).
    destruct (s_dead s2) eqn:D2.
    + injection H as <- <-. split; [exact I2|]. congruence.
    + destruct (srv_sx h e s2 i) as [s6 o6] eqn:SX. injection H as <- <-.
      destruct (srv_sx_inv _ _ _ _ _ _ _ SX I2) as (I6 & C6 & _). split.
      * eapply Inv'_ext; [|exact I6]. intros c. rewrite hlog_app, adv_app. auto.
      * intros A D. destruct (C6 A D) as [X|X]; auto. right. congruence.
Qed.

(* a stopped loop stays stopped and silent *)
Lemma srv_step_stopped h e s i : s_active s = false -> srv_step h e s i = (s, []).
Proof. intros A. unfold srv_step. rewrite A. auto. Qed.

Definition quiescent (s : srv) : Prop := s_active s = false -> s_dead s = false -> s_conns s = [].

Lemma srv_run_inv h e is : forall s s' o phi,
  srv_run h e s is = (s', o) -> Inv s phi -> quiescent s ->
  Inv s' (adv phi (hlog o)) /\ quiescent s'.
Proof.
  induction is as [|i r IH]; simpl; intros s s' o phi.
  - intros [= <- <-] I Q. auto.
  - destruct (srv_step h e s i) as [s1 o1] eqn:S1. destruct (srv_run h e s1 r) as [s2 o2] eqn:R.
    intros [= <- <-] I Q.
    destruct (s_active s) eqn:A.
    + destruct (srv_step_inv _ _ _ _ _ _ _ S1 I) as [I1 C1].
      assert (Q1 : quiescent s1). { intros X Y. destruct (C1 X Y); [auto|congruence]. }
      destruct (IH _ _ _ _ R I1 Q1) as [I2 Q2]. split; auto.
      eapply Inv'_ext; [|exact I2]. intros c. rewrite hlog_app, adv_app. auto.
    + rewrite srv_step_stopped in S1; auto. injection S1 as <- <-.
      destruct (IH _ _ _ _ R I Q) as [I2 Q2]. split; auto.
Qed.

Lemma Inv_srv0 g bl : Inv (srv0 g bl) (fun _ => Some Fresh).
Proof.
  unfold Inv, Inv'; simpl. repeat split; try constructor; auto; try tauto; try discriminate.
Qed.

(* the whole life of the thread: starting(), then any number of iterations *)
Definition srv_life (h : horacle) (e : env) (g : cfg) (bl : list Z) (is : list sin) : srv * list sout :=
  let '(s0, o0) := srv_start h e (srv0 g bl) in
  let '(s1, o1) := srv_run h e s0 is in (s1, o0 ++ o1).

Lemma srv_life_inv h e g bl is s o :
  srv_life h e g bl is = (s, o) -> Inv s (adv (fun _ => Some Fresh) (hlog o)) /\ quiescent s.
Proof.
  unfold srv_life, srv_start. destruct (call_handler _ _ _ _) as [s0 o0] eqn:C.
  destruct (srv_run h e s0 is) as [s1 o1] eqn:R. intros [= <- <-].
  apply call_handler_spec in C. destruct C as [F L].
  assert (I0 : Inv s0 (adv (fun _ => Some Fresh) (hlog o0))).
  { rewrite L. eapply Inv_frame; eauto. apply Inv'_quiet; auto. apply Inv_srv0. }
  assert (Q0 : quiescent s0).
  { intros X. destruct F as (_ & _ & _ & _ & _ & A & _). rewrite A in X. simpl in X. discriminate. }
  destruct (srv_run_inv _ _ _ _ _ _ _ R I0 Q0) as [I1 Q1]. split; auto.
  eapply Inv'_ext; [|exact I1]. intros c. rewrite hlog_app, adv_app. auto.
Qed.

(* ---------- the automaton accepts exactly connect . message* . disconnect prefixes ---------- *)
Definition is_message (e : hevent) : Prop := match e with HMessage _ _ _ => True | _ => False end.

Lemma lc_none l : fold_left lc_step l None = None.
Proof. induction l; simpl; auto. Qed.
Lemma lc_gone l : fold_left lc_step l (Some Gone) <> None -> l = [].
Proof. destruct l; auto. simpl. rewrite lc_none. congruence. Qed.
Lemma lc_live cid l : (forall x, In x l -> ev_cid x = Some cid) -> fold_left lc_step l (Some Live) <> None ->
  exists msgs tail, l = msgs ++ tail /\ Forall is_message msgs /\ (tail = [] \/ tail = [HDisconnect cid]).
Proof.
  induction l as [|x r IH]; intros A H.
  - exists [], []. auto.
  - destruct x; simpl in H; try (rewrite lc_none in H; congruence).
    + destruct IH as (ms & tl & E & F & G); auto. { intros y I. apply A. simpl; auto. }
      exists (HMessage cid0 mseq p :: ms), tl. subst. split; auto. split; auto. constructor; simpl; auto.
    + apply lc_gone in H. subst. exists [], [HDisconnect cid0]. split; auto. split; auto. right.
      specialize (A (HDisconnect cid0) (or_introl eq_refl)). simpl in A. congruence.
Qed.
Lemma lc_fresh cid l : (forall x, In x l -> ev_cid x = Some cid) -> fold_left lc_step l (Some Fresh) <> None ->
  l = [] \/ exists a t msgs tail, l = HConnect cid a t :: msgs ++ tail /\ Forall is_message msgs /\
                                  (tail = [] \/ tail = [HDisconnect cid]).
Proof.
  destruct l as [|x r]; auto. intros A H. right.
  destruct x; simpl in H; try (rewrite lc_none in H; congruence).
  destruct (lc_live cid r) as (ms & tl & E & F & G); auto. { intros y I. apply A. simpl; auto. }
  specialize (A (HConnect cid0 a token) (or_introl eq_refl)). simpl in A. injection A as ->.
  exists a, token, ms, tl. subst; auto.
Qed.

(* ---------- what a step cannot change; the only way to stop serving ---------- *)
Definition Keeps (s s' : srv) (o : list sout) : Prop :=
  s_block s' = s_block s /\ s_cfg s' = s_cfg s /\ (s_dead s' = s_dead s \/ In (SDied 1) o).

Lemma Keeps_frame s s' o : frame s s' -> Keeps s s' o.
Proof. intros (_ & _ & _ & B & G & _ & D). repeat split; auto. Qed.
Lemma Keeps_trans s s1 s2 o1 o2 : Keeps s s1 o1 -> Keeps s1 s2 o2 -> Keeps s s2 (o1 ++ o2).
Proof.
  intros (A & B & C) (D & E & F). repeat split; try congruence.
  destruct C as [C|C]; [destruct F as [F|F]|]; [left; congruence|right|right]; apply in_app_iff; auto.
Qed.
Lemma Keeps_more s s' o o' : Keeps s s' o -> (forall x, In x o -> In x o') -> Keeps s s' o'.
Proof. intros (A & B & C) S. repeat split; auto. destruct C; auto. Qed.

Lemma on_connect_keeps h e s cid s' o : on_connect h e s cid = (s', o) -> Keeps s s' o.
Proof.
  unfold on_connect. destruct (sfind cid s) as [cl|]. 2:{ intros [= <- <-]. apply Keeps_frame, frame_refl. }
  destruct (pget _ _). 2:{ intros [= <- <-]. apply Keeps_frame, frame_refl. }
  intros H. apply call_handler_spec in H. destruct H as [(_ & _ & _ & B & G & _ & D) _].
  repeat split; auto.
Qed.

Lemma srv_msg_keeps h e s cid now m x s' o r : srv_msg h e s cid now m x = (s', o, r) -> Keeps s s' o.
Proof.
  unfold srv_msg. destruct (sfind cid s) as [cl|]. 2:{ intros [= <- <- <-]. apply Keeps_frame, frame_refl. }
  match goal with |- context [match (if ?b then ?u else ?v) with _ => _ end] =>
    destruct (if b then u else v) as [[t rand']|] end.
  2:{ intros [= <- <- <-]. repeat split; simpl; auto. }
  destruct (recv_msgs _ _ _ _) as [c' outs].
  match goal with |- context [supd cid ?f ?s0] => set (s1 := supd cid f s0) end.
  assert (F1 : frame s s1). { eapply frame_trans; [apply frame_rand|apply supd_frame]. }
  destruct (has_connect outs).
  - destruct (on_connect h e s1 cid) as [s2 o2] eqn:OC. intros [= <- <- <-].
    apply on_connect_keeps in OC. eapply Keeps_more.
    + eapply (Keeps_trans _ _ _ [] o2); [apply Keeps_frame; eauto|eauto].
    + simpl. intros y I. apply in_app_iff. right. simpl. auto.
  - intros [= <- <- <-]. apply Keeps_frame; auto.
Qed.

Lemma srv_msgs_keeps h e cid now ms : forall s xs s' o r,
  srv_msgs h e s cid now ms xs = (s', o, r) -> Keeps s s' o.
Proof.
  induction ms as [|m rest IH]; simpl; intros s xs s' o r.
  - intros [= <- <- <-]. apply Keeps_frame, frame_refl.
  - destruct (srv_msg h e s cid now m (hd no_hsx xs)) as [[s1 o1] r1] eqn:M. destruct r1.
    + intros [= <- <- <-]. eapply srv_msg_keeps; eauto.
    + destruct (srv_msgs h e s1 cid now rest _) as [[s2 o2] r2] eqn:R. intros [= <- <- <-].
      eapply Keeps_trans; [eapply srv_msg_keeps; eauto|eapply IH; eauto].
Qed.

Lemma srv_recv_keeps h e s cid now d xs s' o r : srv_recv h e s cid now d xs = (s', o, r) -> Keeps s s' o.
Proof.
  unfold srv_recv. destruct (sfind cid s) as [cl|]. 2:{ intros [= <- <- <-]. apply Keeps_frame, frame_refl. }
  destruct (keyless_refuses _ _). { intros [= <- <- <-]. apply Keeps_frame, supd_frame. }
  destruct (open_dgram _ _) as [ms|er]. 2:{ intros [= <- <- <-]. apply Keeps_frame, supd_frame. }
  destruct (bf_insert _ _) as [bf|er2]. 2:{ intros [= <- <- <-]. apply Keeps_frame, supd_frame. }
  destruct (handle_ack_bits _ _) as [c1 o1].
  destruct (srv_msgs _ _ _ _ _ _ _) as [[s2 o2] r2] eqn:M. intros [= <- <- <-].
  eapply Keeps_more; [eapply (Keeps_trans _ _ _ [] o2); [apply Keeps_frame, supd_frame|eapply srv_msgs_keeps; eauto]|].
  simpl. intros y I. apply in_app_iff. auto.
Qed.

Lemma deliver_msgs_frame h e cid q : forall s s' o, deliver_msgs h e s cid q = (s', o) -> frame s s'.
Proof.
  induction q as [|[ms p] rest IH]; cbn [deliver_msgs]; intros s s' o.
  - intros [= <- <-]. apply frame_refl.
  - destruct (call_handler h e s (HMessage cid ms p)) as [s1 o1] eqn:C.
    destruct (deliver_msgs h e s1 cid rest) as [s2 o2] eqn:R. intros [= <- <-].
    apply call_handler_spec in C. eapply frame_trans; [apply C|eapply IH; eauto].
Qed.

Lemma deliver_frame h e s cid s' o : deliver h e s cid = (s', o) -> frame s s'.
Proof.
  unfold deliver. destruct (sfind cid s). 2:{ intros [= <- <-]. apply frame_refl. }
  destruct (deliver_msgs _ _ _ _ _) as [s1 o1] eqn:D. intros [= <- <-].
  eapply frame_trans; [eapply deliver_msgs_frame; eauto|apply supd_frame].
Qed.

Lemma disp_item_keeps h e s now a d xs s' o : disp_item h e s now a d xs = (s', o) -> Keeps s s' o.
Proof.
  unfold disp_item. destruct (pget a (s_conns s)) as [cl|].
  - destruct (srv_recv _ _ _ _ _ _ _) as [[s1 o1] r1] eqn:R. apply srv_recv_keeps in R.
    destruct (s_dead s1). { intros [= <- <-]. auto. }
    destruct r1.
    + intros [= <- <-]. eapply Keeps_more; eauto. intros y I. apply in_app_iff; auto.
    + destruct (deliver h e s1 (cl_id cl)) as [s2 o2] eqn:D. intros [= <- <-].
      eapply Keeps_trans; eauto. apply Keeps_frame. eapply deliver_frame; eauto.
  - destruct (pget a (s_temp s)) as [cl|].
    + destruct (negb _). { intros [= <- <-]. apply Keeps_frame, frame_refl. }
      destruct (srv_recv _ _ _ _ _ _ _) as [[s1 o1] r1] eqn:R. apply srv_recv_keeps in R.
      destruct (s_dead s1); intros [= <- <-]; auto.
      eapply Keeps_more; eauto. intros y I. apply in_app_iff; auto.
    + destruct (negb _). { intros [= <- <-]. apply Keeps_frame, frame_refl. }
      destruct (srv_recv _ _ _ _ _ _ _) as [[s1 o1] r1] eqn:R. apply srv_recv_keeps in R.
      assert (K : Keeps s s1 o1). { destruct R as (A & B & C). repeat split; auto. }
      destruct (s_dead s1); intros [= <- <-]; auto.
      eapply Keeps_more; eauto. intros y I. apply in_app_iff; auto.
Qed.

Lemma disp_all_keeps h e now q : forall s s' o, disp_all h e s now q = (s', o) -> Keeps s s' o.
Proof.
  induction q as [|it rest IH]; simpl; intros s s' o.
  - intros [= <- <-]. apply Keeps_frame, frame_refl.
  - destruct (s_dead s). { intros [= <- <-]. apply Keeps_frame, frame_refl. }
    destruct (match gate (s_block s) it with Some _ => _ | None => _ end) as [s1 o1] eqn:G.
    destruct (disp_all h e s1 now rest) as [s2 o2] eqn:R. intros [= <- <-].
    eapply Keeps_trans; [|eapply IH; eauto].
    destruct (gate (s_block s) it) as [[[a d] xs]|].
    + eapply disp_item_keeps; eauto.
    + injection G as <- <-. apply Keeps_frame, frame_refl.
Qed.

Lemma srv_du_keeps h e s i s' o : srv_du h e s i = (s', o) -> Keeps s s' o.
Proof.
  unfold srv_du. destruct (disp_all _ _ _ _ _) as [s1 o1] eqn:D. apply disp_all_keeps in D.
  assert (K : Keeps s s1 o1). { destruct D as (A & B & C). repeat split; auto. }
  destruct (s_dead s1). { intros [= <- <-]. auto. }
  destruct (call_handler h e s1 HUpdate) as [s2 o2] eqn:C. intros [= <- <-].
  apply call_handler_spec in C. eapply Keeps_trans; eauto. apply Keeps_frame. apply C.
Qed.

Definition Same (s s' : srv) : Prop := s_block s' = s_block s /\ s_cfg s' = s_cfg s /\ s_dead s' = s_dead s.
Lemma Same_frame s s' : frame s s' -> Same s s'.
Proof. intros (_ & _ & _ & B & G & _ & D). repeat split; auto. Qed.
Lemma Same_trans a b c : Same a b -> Same b c -> Same a c.
Proof. unfold Same. intuition congruence. Qed.
Lemma Same_refl s : Same s s.
Proof. repeat split. Qed.

Lemma sweep_conn_same h e s now cid s' o p : sweep_conn h e s now cid = (s', o, p) -> Same s s'.
Proof.
  unfold sweep_conn. destruct (pfind cid (s_conns s)) as [cl0|]. 2:{ intros [= <- <- <-]. apply Same_refl. }
  match goal with |- context [pfind cid (s_conns ?x)] =>
    match x with s => fail 1 | _ => set (sa := x) end end.
  assert (Fa : frame s sa). { unfold sa. destruct (status_eqb _ _); [apply supd_frame|apply frame_refl]. }
  destruct (pfind cid (s_conns sa)) as [cl|]. 2:{ intros [= <- <- <-]. apply Same_frame; auto. }
  destruct (_ || _).
  - destruct (call_handler h e sa (HDisconnect cid)) as [s1 o1] eqn:C.
    apply call_handler_spec in C. destruct C as [F1 _].
    destruct (pfind cid (s_conns s1)) as [cl1|].
    + destruct (tick_client e s1 cl1 now) as [[[s2 o2] snd_] r2] eqn:Tk.
      apply tick_client_spec in Tk. destruct Tk as [F2 _]. intros [= <- <- <-].
      assert (Fall : frame s s2) by (eapply frame_trans; [eapply frame_trans|]; eauto).
      apply Same_frame in Fall. destruct Fall as (A & B & C). repeat split; auto.
    + intros [= <- <- <-]. apply Same_frame. eapply frame_trans; eauto.
  - destruct (tick_client e sa cl now) as [[[s2 o2] snd_] r2] eqn:Tk.
    apply tick_client_spec in Tk. destruct Tk as [F2 _]. intros [= <- <- <-].
    apply Same_frame. eapply frame_trans; eauto.
Qed.

Lemma sweep_temp_same e s now cid s' o p : sweep_temp e s now cid = (s', o, p) -> Same s s'.
Proof.
  unfold sweep_temp. destruct (pfind cid (s_temp s)) as [cl|]. 2:{ intros [= <- <- <-]. apply Same_refl. }
  destruct (_ || _). { intros [= <- <- <-]. repeat split. }
  destruct (tick_client e s cl now) as [[[s2 o2] snd_] r2] eqn:Tk.
  apply tick_client_spec in Tk. destruct Tk as [F2 _]. intros [= <- <- <-]. apply Same_frame; auto.
Qed.

Lemma sweep_list_same (f : srv -> Z -> srv * list sout * list pending) :
  (forall s cid s' o p, f s cid = (s', o, p) -> Same s s') ->
  forall ids s s' o p, sweep_list f s ids = (s', o, p) -> Same s s'.
Proof.
  intros Hf. induction ids as [|cid r IH]; simpl; intros s s' o p.
  - intros [= <- <- <-]. apply Same_refl.
  - destruct (f s cid) as [[s1 o1] p1] eqn:F1. destruct (sweep_list f s1 r) as [[s2 o2] p2] eqn:F2.
    intros [= <- <- <-]. eapply Same_trans; [eapply Hf; eauto|eapply IH; eauto].
Qed.

Lemma shutdown_list_same h e ids : forall s s' o, shutdown_list h e s ids = (s', o) -> Same s s'.
Proof.
  induction ids as [|cid r IH]; cbn [shutdown_list]; intros s s' o.
  - intros [= <- <-]. apply Same_refl.
  - destruct (pfind cid (s_conns s)) as [cl|]. 2:{ apply IH. }
    destruct (call_handler h e s (HDisconnect cid)) as [s1 o1] eqn:C.
    apply call_handler_spec in C. destruct C as [F1 _].
    match goal with |- context [shutdown_list h e ?x r] => set (sb := x) end.
    destruct (shutdown_list h e sb r) as [s2 o2] eqn:R. intros [= <- <-].
    eapply Same_trans; [|eapply IH; eauto]. apply Same_frame in F1. destruct F1 as (A & B & C).
    repeat split; auto.
Qed.

Lemma srv_sx_same h e s i s' o : srv_sx h e s i = (s', o) -> Same s s'.
Proof.
  unfold srv_sx.
  destruct (sweep_list _ s _) as [[s3 o3] p3] eqn:S3.
  destruct (sweep_list _ s3 _) as [[s4 o4] p4] eqn:S4.
  assert (A3 : Same s s3).
  { eapply sweep_list_same; [|exact S3]. intros ? ? ? ? ? H0; cbv beta in H0; eapply sweep_conn_same; eauto. }
  assert (A4 : Same s3 s4).
  { eapply sweep_list_same; [|exact S4]. intros ? ? ? ? ? H0; cbv beta in H0; eapply sweep_temp_same; eauto. }
  destruct (i_stop i).
  - unfold srv_shutdown. destruct (shutdown_list _ _ _ _) as [s5 o5] eqn:L.
    destruct (call_handler h e s5 HShutdown) as [s6 o6] eqn:C. intros [= <- <-].
    apply shutdown_list_same in L. apply call_handler_spec in C. destruct C as [F _]. apply Same_frame in F.
    pose proof (Same_trans _ _ _ (Same_trans _ _ _ (Same_trans _ _ _ A3 A4) L) F) as (X & Y & Z).
    repeat split; auto.
  - intros [= <- <-]. eapply Same_trans; eauto.
Qed.

(* the loop never stops serving, except when get_token is starved of an acceptable value *)
Theorem srv_step_survives h e s i s' o :
  srv_step h e s i = (s', o) -> s_dead s = false -> s_dead s' = true -> In (SDied 1) o.
Proof.
  unfold srv_step. destruct (negb (s_active s) || s_dead s). { intros [= <- <-]. congruence. }
  destruct (srv_du h e s i) as [s2 o2] eqn:DU. pose proof (srv_du_keeps _ _ _ _ _ _ DU) as (_ & _ & K).
  destruct (s_dead s2) eqn:D2.
  - intros [= <- <-] A B. destruct K; [congruence|auto].
  - destruct (srv_sx h e s2 i) as [s6 o6] eqn:SX. intros [= <- <-] A B.
    destruct K as [K|K]; [|apply in_app_iff; auto].
    apply srv_sx_same in SX. destruct SX as (_ & _ & D6). congruence.
Qed.

(* SDied is only ever emitted with cause 1, by a starved get_token *)
Lemma get_token_some used rand : (exists r, In r rand /\ mask_token r <> 0 /\ ~ In (mask_token r) used) ->
  get_token used rand <> None.
Proof.
  induction rand as [|x rest IH]; simpl; intros (r & I & N & U); [tauto|].
  destruct ((mask_token x =? 0) || zmem (mask_token x) used) eqn:E; [|discriminate].
  destruct I as [<-|I]; [|apply IH; eauto].
  exfalso. apply orb_true_iff in E. destruct E as [E|E]; [lia|].
  unfold zmem in E. apply existsb_exists in E. destruct E as (y & Iy & Ey). apply U. assert (mask_token x = y) by lia. congruence.
Qed.

(* ---------- block-listed addresses: discarded before any processing ---------- *)
Definition blocked (bl : list Z) (it : witem) : bool := zmem (fst (w_addr it)) bl.

Lemma disp_all_blocked h e now q : forall s,
  disp_all h e s now q = disp_all h e s now (filter (fun it => negb (blocked (s_block s) it)) q).
Proof.
  induction q as [|it rest IH]; intros s; [reflexivity|].
  cbn [filter]. destruct (blocked (s_block s) it) eqn:B; cbn [negb].
  - cbn [disp_all]. destruct (s_dead s) eqn:D.
    + clear IH. induction rest as [|x r IHr]; cbn [filter disp_all]; [rewrite ?D; auto|].
      destruct (negb _); cbn [disp_all]; rewrite ?D; auto.
    + unfold gate. unfold blocked in B. rewrite B. rewrite <- IH. destruct (disp_all h e s now rest); auto.
  - cbn [disp_all]. destruct (s_dead s); auto.
    destruct (match gate (s_block s) it with Some _ => _ | None => _ end) as [s1 o1] eqn:G.
    assert (Bk : s_block s1 = s_block s).
    { destruct (gate (s_block s) it) as [[[a d] xs]|].
      - apply disp_item_keeps in G. apply G.
      - injection G as <- <-. auto. }
    rewrite IH, Bk. auto.
Qed.
