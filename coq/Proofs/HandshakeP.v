(* HandshakeP.v — proofs about Model/Handshake.v and the handshake part of Model/Conn.v. *)
From Coq Require Import Lia ZifyBool.
From RecordUpdate Require Import RecordUpdate.
From Model Require Import Base SeqNum Wire Conn Handshake.
Import RecordSetNotations.
Open Scope Z_scope.

(* ---------- part 1: everything but the handshake leaves key / status / role / token alone ---------- *)

(* the handshake-relevant fields *)
Definition same (c c' : conn) : Prop :=
  c_key c' = c_key c /\ c_server c' = c_server c /\ c_token c' = c_token c.
(* ... and the status as well *)
Definition same_st (c c' : conn) : Prop := same c c' /\ c_status c' = c_status c.

Lemma same_refl c : same c c. Proof. repeat split. Qed.
Lemma same_trans a b c : same a b -> same b c -> same a c.
Proof. unfold same; intuition congruence. Qed.
Lemma same_st_refl c : same_st c c. Proof. repeat split. Qed.
Lemma same_st_trans a b c : same_st a b -> same_st b c -> same_st a c.
Proof. unfold same_st, same; intuition congruence. Qed.
Lemma same_st_same a b : same_st a b -> same a b. Proof. now intros []. Qed.

Definition is_connect (x : out) : bool := match x with OHandlerConnect => true | _ => false end.
Definition quiet (o : list out) : Prop := existsb is_connect o = false /\ raised o = false.

Lemma quiet_nil : quiet []. Proof. split; reflexivity. Qed.
Lemma quiet_app a b : quiet a -> quiet b -> quiet (a ++ b).
Proof. unfold quiet, raised; rewrite !existsb_app; intros [-> ->] [-> ->]; auto. Qed.

Ltac fields := unfold same_st, same; cbn; repeat split; auto.

Lemma send_type_same c ty p r k : same_st c (send_type c ty p r k).
Proof. unfold send_type; fields. Qed.

Lemma send_frags_same frags : forall c fid n r i, same_st c (send_frags c fid n r i frags).
Proof.
  induction frags; intros; cbn; [apply same_st_refl|].
  eapply same_st_trans; [apply send_type_same | apply IHfrags].
Qed.

Ltac case_all :=
  repeat match goal with
         | |- context [match ?x with _ => _ end] => destruct x; cbn
         | |- context [if ?x then _ else _] => destruct x; cbn
         end.

Lemma fire_icb_same c k ok : same_st c (fst (fire_icb c k ok)) /\ quiet (snd (fire_icb c k ok)).
Proof.
  destruct k; cbn; case_all; (split; [fields | first [apply quiet_nil | split; reflexivity]]).
Qed.

Lemma fire_cb_same c k ok : same_st c (fst (fire_cb c k ok)) /\ quiet (snd (fire_cb c k ok)).
Proof.
  destruct k; cbn; [apply fire_icb_same|].
  destruct (zmem _ _); cbn; [split; [apply same_st_refl|apply quiet_nil]|].
  destruct ok; cbn.
  - destruct (fire_icb_same (c <| c_done := rid :: c_done c |>) i true) as [H Q]. split; auto.
  - split; [fields|apply quiet_nil].
Qed.

Lemma fire_all_same ks : forall c ok, same_st c (fst (fire_all c ks ok)) /\ quiet (snd (fire_all c ks ok)).
Proof.
  induction ks; intros; cbn; [split; [apply same_st_refl|apply quiet_nil]|].
  destruct (fire_cb_same c a ok) as [H1 Q1]. destruct (fire_cb c a ok) as [c1 o1]; cbn in *.
  destruct (IHks c1 ok) as [H2 Q2]. destruct (fire_all c1 ks ok) as [c2 o2]; cbn in *.
  split; [eapply same_st_trans; eauto | apply quiet_app; auto].
Qed.

Lemma resolve_same ok c s : same_st c (fst (resolve ok c s)) /\ quiet (snd (resolve ok c s)).
Proof.
  unfold resolve.
  set (c0 := if ok then _ else _).
  assert (H0 : same_st c c0) by (subst c0; destruct ok; fields).
  destruct (dget s (c_pcbs c0)) as [ks|].
  - destruct (fire_all_same ks c0 ok) as [H Q]. destruct (fire_all c0 ks ok) as [c1 o1]; cbn in *.
    split; auto.
    eapply same_st_trans; [exact H0|]. eapply same_st_trans; [exact H|].
    destruct (dget s (c_pretry _)); fields.
  - split; [|apply quiet_nil]. eapply same_st_trans; [exact H0|].
    destruct (dget s (c_pretry c0)); fields.
Qed.

Lemma ack_loop_same h snap : forall c, same_st c (fst (ack_loop c h snap)) /\ quiet (snd (ack_loop c h snap)).
Proof.
  induction snap as [|[s t] r]; intros; cbn; [split; [apply same_st_refl|apply quiet_nil]|].
  assert (H1 : exists c1 o1, (if hdr_acks (h_ack h) (h_ackbits h) s then resolve true c s
             else if c_last_recv c - t >? c_out_timeout c then resolve false c s else (c, [])) = (c1, o1)
             /\ same_st c c1 /\ quiet o1).
  { destruct (hdr_acks _ _ _); [|destruct (_ >? _)].
    - destruct (resolve_same true c s). destruct (resolve true c s); eauto.
    - destruct (resolve_same false c s). destruct (resolve false c s); eauto.
    - do 2 eexists; split; [reflexivity|split; [apply same_st_refl|apply quiet_nil]]. }
  destruct H1 as (c1 & o1 & -> & S1 & Q1).
  destruct (IHr c1) as [S2 Q2]. destruct (ack_loop c1 h r); cbn in *.
  split; [eapply same_st_trans; eauto|apply quiet_app; auto].
Qed.

Lemma handle_ack_bits_same c h : same_st c (fst (handle_ack_bits c h)) /\ quiet (snd (handle_ack_bits c h)).
Proof. apply ack_loop_same. Qed.

Lemma timeout_loop_same strict now snap : forall c,
  same_st c (fst (timeout_loop strict c now snap)) /\ quiet (snd (timeout_loop strict c now snap)).
Proof.
  induction snap as [|[s t] r]; intros; cbn; [split; [apply same_st_refl|apply quiet_nil]|].
  assert (H1 : exists c1 o1, (if (if strict then now - t >? c_out_timeout c else now - t >=? c_out_timeout c)
             then resolve false c s else (c, [])) = (c1, o1) /\ same_st c c1 /\ quiet o1).
  { destruct (if strict then _ else _).
    - destruct (resolve_same false c s). destruct (resolve false c s); eauto.
    - do 2 eexists; split; [reflexivity|split; [apply same_st_refl|apply quiet_nil]]. }
  destruct H1 as (c1 & o1 & -> & S1 & Q1).
  destruct (IHr c1) as [S2 Q2]. destruct (timeout_loop strict c1 now r); cbn in *.
  split; [eapply same_st_trans; eauto|apply quiet_app; auto].
Qed.

Lemma check_timeout_same strict c now :
  same_st c (fst (check_timeout strict c now)) /\ quiet (snd (check_timeout strict c now)).
Proof. apply timeout_loop_same. Qed.

Lemma recv_fragment_same c now mseq frag :
  same_st c (fst (recv_fragment c now mseq frag)) /\ existsb is_connect (snd (recv_fragment c now mseq frag)) = false.
Proof.
  unfold recv_fragment. destruct (_ <? _)%nat; cbn; [split; [apply same_st_refl|reflexivity]|].
  split; [|reflexivity]. case_all; fields.
Qed.

Lemma build_impl_same e c now ka delay : same_st c (fst (build_impl e c now ka delay)).
Proof.
  unfold build_impl.
  destruct (match c_pretry_msg c with [] => _ | _ => _ end) as [[prm msgs0] cur0].
  destruct (out_pass e (c_outgoing c) msgs0 cur0) as [[rem msgs] x].
  cbn. destruct (ptype_eqb _ UNKNOWN); cbn; [fields|].
  case_all; fields.
Qed.

Lemma build_packet_same e c now : same_st c (fst (build_packet e c now)).
Proof.
  unfold build_packet. destruct (_ <? _); [apply same_st_refl|].
  pose proof (build_impl_same e c now (now - c_last_ka c >? c_ka_interval c) (c_ka_interval c)) as H.
  destruct (build_impl _ _ _ _ _) as [c1 [r|]]; cbn in *; auto.
Qed.

Lemma emit_quiet c pk : existsb is_connect (emit c pk) = false.
Proof.
  unfold emit. destruct pk as [h ms]. destruct (encode_msgs _); [|reflexivity].
  destruct (c_key c); [destruct (negb _)|]; reflexivity.
Qed.

(* ---------- part 2: one message, one datagram (arbitrary oracle answers) ---------- *)

Definition inv (c : conn) : Prop := c_status c = CONNECTED -> c_key c <> None.

Lemma same_st_inv c c' : same_st c c' -> inv c -> inv c'.
Proof. unfold same_st, same, inv; intros [(-> & _) ->]; auto. Qed.

(* the per-message dispatch inside recv_msgs *)
Definition msg1 (c : conn) (now : Z) (m : wmsg) (orcs : list hs_oracle) : conn * list out * list hs_oracle :=
  match w_type m with
  | APP => (recv_app c (w_seq m) (w_payload m), [], orcs)
  | APP_FRAGMENT => let '(c', o') := recv_fragment c now (w_seq m) (w_payload m) in (c', o', orcs)
  | DISCONNECT => (c <| c_status := DISCONNECTING |>, [], orcs)
  | KEEP_ALIVE | UNKNOWN => (c, [], orcs)
  | t => let '(c', o') := recv_handshake c t (hd no_oracle orcs) in (c', o', tl orcs)
  end.

Lemma recv_msgs_cons c now m r orcs :
  recv_msgs c now (m :: r) orcs =
  match bf_insert (c_bf_msg c) (w_seq m) with
  | Err _ => recv_msgs c now r (if is_hs (w_type m) then tl orcs else orcs)
  | Ok bf =>
      let '(c1, o1, orcs') := msg1 (c <| c_bf_msg := bf |>) now m orcs in
      if raised o1 then (c1, o1)
      else let '(c2, o2) := recv_msgs c1 now r orcs' in (c2, o1 ++ o2)
  end.
Proof. reflexivity. Qed.

(* what a handshake message can do, whatever the oracle says *)
Lemma recv_handshake_facts c ty o c' out : recv_handshake c ty o = (c', out) ->
  c_server c' = c_server c /\
  (c_key c <> None -> c_key c' <> None) /\
  (c_status c' = CONNECTED ->
     c_status c = CONNECTED \/ c_key c' <> None \/ (ty = CHALLENGE_RESP /\ c_key c' = c_key c)) /\
  (existsb is_connect out = true ->
     c_server c = true /\ ty = CHALLENGE_RESP /\ o_parse o = 0 /\ o_temp_token o = Some (o_token o)
     /\ c_key c' = c_key c /\ c_token c' = c_token c /\ c_status c' = CONNECTED).
Proof.
  unfold recv_handshake. intros H.
  assert (Triv : forall c0 e, (c', out) = (c0, [ORaise e]) \/ (c', out) = (c0, []) -> c0 = c ->
    c_server c' = c_server c /\ (c_key c <> None -> c_key c' <> None) /\
    (c_status c' = CONNECTED -> c_status c = CONNECTED \/ c_key c' <> None \/ (ty = CHALLENGE_RESP /\ c_key c' = c_key c)) /\
    (existsb is_connect out = true -> c_server c = true /\ ty = CHALLENGE_RESP /\ o_parse o = 0 /\
       o_temp_token o = Some (o_token o) /\ c_key c' = c_key c /\ c_token c' = c_token c /\ c_status c' = CONNECTED)).
  { intros c0 e [X|X] ->; inversion X; subst; (split; [|split; [|split]]); auto; cbn; discriminate. }
  destruct ty; destruct (c_server c) eqn:Sv;
    try (symmetry in H; eapply (Triv c EOther); [right; exact H|reflexivity]).
  - (* CLIENT_HELLO, server *)
    destruct (negb (o_parse o =? 0)); [symmetry in H; eapply Triv; [left; exact H|reflexivity]|].
    destruct (negb (o_version_ok o)); [symmetry in H; eapply (Triv c EOther); [right; exact H|reflexivity]|].
    inversion H; subst; cbn. (split; [|split; [|split]]); auto; try discriminate.
  - (* SERVER_HELLO, client *)
    destruct (o_parse o =? 6).
    { inversion H; subst; cbn. (split; [|split; [|split]]); auto; discriminate. }
    destruct (negb (o_parse o =? 0)); [symmetry in H; eapply Triv; [left; exact H|reflexivity]|].
    inversion H; subst; cbn. (split; [|split; [|split]]); auto; try discriminate.
    + intros _. right; left; discriminate.
    + destruct (c_conn_cb c); discriminate.
  - (* CHALLENGE_RESP, server *)
    destruct (negb (o_parse o =? 0)) eqn:P; [symmetry in H; eapply Triv; [left; exact H|reflexivity]|].
    destruct (o_temp_token o) as [t|] eqn:TT; [|symmetry in H; eapply Triv; [left; exact H|reflexivity]].
    destruct (t =? o_token o) eqn:E; [|symmetry in H; eapply Triv; [left; exact H|reflexivity]].
    inversion H; subst; cbn. (split; [|split; [|split]]); auto.
    intros _. repeat split; auto; try lia. f_equal; lia.
Qed.

Lemma msg1_facts c now m orcs c1 o1 orcs' : msg1 c now m orcs = (c1, o1, orcs') ->
  c_server c1 = c_server c /\
  (c_key c <> None -> c_key c1 <> None) /\
  (c_status c1 = CONNECTED ->
     c_status c = CONNECTED \/ c_key c1 <> None \/ (w_type m = CHALLENGE_RESP /\ c_key c1 = c_key c)) /\
  (existsb is_connect o1 = true -> c_server c = true /\ w_type m = CHALLENGE_RESP /\ c_key c1 = c_key c).
Proof.
  unfold msg1. intros H.
  assert (HS : forall t, w_type m = t -> (let '(c', o') := recv_handshake c t (hd no_oracle orcs) in (c', o', tl orcs)) = (c1, o1, orcs') ->
    c_server c1 = c_server c /\ (c_key c <> None -> c_key c1 <> None) /\
    (c_status c1 = CONNECTED -> c_status c = CONNECTED \/ c_key c1 <> None \/ (t = CHALLENGE_RESP /\ c_key c1 = c_key c)) /\
    (existsb is_connect o1 = true -> c_server c = true /\ t = CHALLENGE_RESP /\ c_key c1 = c_key c)).
  { intros t _ X. destruct (recv_handshake c t (hd no_oracle orcs)) as [c' o'] eqn:R. inversion X; subst.
    destruct (recv_handshake_facts _ _ _ _ _ R) as (A & B & C & D). (split; [|split; [|split]]); auto.
    intros Y. destruct (D Y) as (? & ? & ? & ? & ? & ?); auto. }
  assert (Plain : forall c0, same c c0 -> (c_status c0 = CONNECTED -> c_status c = CONNECTED) -> (c0, @nil out, orcs) = (c1, o1, orcs') ->
    c_server c1 = c_server c /\ (c_key c <> None -> c_key c1 <> None) /\
    (c_status c1 = CONNECTED -> c_status c = CONNECTED \/ c_key c1 <> None \/ (w_type m = CHALLENGE_RESP /\ c_key c1 = c_key c)) /\
    (existsb is_connect o1 = true -> c_server c = true /\ w_type m = CHALLENGE_RESP /\ c_key c1 = c_key c)).
  { intros c0 (K & S & T) St X. inversion X; subst. (split; [|split; [|split]]); auto; try congruence. cbn; discriminate. }
  destruct (w_type m) eqn:Ty; try (apply (HS _ eq_refl H)).
  - apply (Plain c); auto. apply same_refl.
  - apply (Plain c); auto. apply same_refl.
  - apply (Plain (c <| c_status := DISCONNECTING |>)); auto. repeat split. cbn; discriminate.
  - apply (Plain (recv_app c (w_seq m) (w_payload m))); auto. repeat split.
  - destruct (recv_fragment_same c now (w_seq m) (w_payload m)) as [[(K & S & T) St] Q].
    destruct (recv_fragment c now (w_seq m) (w_payload m)) as [c' o']. inversion H; subst; cbn in *.
    (split; [|split; [|split]]); auto; try congruence.
    + intros X; left; congruence.
Qed.

Definition no_chal (ms : list wmsg) : Prop := Forall (fun m => w_type m <> CHALLENGE_RESP) ms.

Lemma recv_msgs_facts now ms : forall c orcs c' out, recv_msgs c now ms orcs = (c', out) ->
  c_server c' = c_server c /\
  (c_key c <> None -> c_key c' <> None) /\
  (inv c -> c_key c <> None \/ no_chal ms -> inv c') /\
  (existsb is_connect out = true ->
     c_server c = true /\ Exists (fun m => w_type m = CHALLENGE_RESP) ms).
Proof.
  induction ms as [|m r IH]; intros c orcs c' out H.
  - inversion H; subst. (split; [|split; [|split]]); auto. cbn; discriminate.
  - rewrite recv_msgs_cons in H.
    destruct (bf_insert (c_bf_msg c) (w_seq m)) as [bf|].
    2:{ destruct (IH _ _ _ _ H) as (A & B & C & D). (split; [|split; [|split]]); auto.
        - intros I [K|N]; apply C; auto. right. now inversion N.
        - intros X; destruct (D X); split; auto. }
    destruct (msg1 (c <| c_bf_msg := bf |>) now m orcs) as [[c1 o1] orcs'] eqn:M.
    destruct (msg1_facts _ _ _ _ _ _ _ M) as (A1 & B1 & C1 & D1). cbn in A1, B1, C1, D1.
    assert (I1 : inv c -> c_key c <> None \/ no_chal (m :: r) -> inv c1 /\ (c_key c1 <> None \/ no_chal r)).
    { intros I KN. split.
      - intros St. destruct (C1 St) as [X|[X|[X Y]]]; auto.
        destruct KN as [K|N]; [rewrite Y; auto | inversion N; contradiction].
      - destruct KN as [K|N]; [left; auto | right; now inversion N]. }
    destruct (raised o1).
    + inversion H; subst. (split; [|split; [|split]]); auto.
      * intros I KN. apply I1; auto.
      * intros X. destruct (D1 X) as (? & ? & ?); auto.
    + destruct (recv_msgs c1 now r orcs') as [c2 o2] eqn:R. inversion H; subst.
      destruct (IH _ _ _ _ R) as (A & B & C & D). (split; [|split; [|split]]); try congruence; auto.
      * intros I KN. destruct (I1 I KN). apply C; auto.
      * rewrite existsb_app. intros X. apply Bool.orb_true_iff in X as [X|X].
        -- destruct (D1 X) as (? & ? & ?); auto.
        -- destruct (D X); split; [congruence|auto].
Qed.

(* ---------- part 3: a datagram ---------- *)

Lemma keyless_single_hello d ms :
  (negb (h_count (d_hdr d) =? 1) || negb (is_hello (h_type (d_hdr d)))) = false ->
  open_dgram None d = Ok ms -> no_chal ms.
Proof.
  unfold open_dgram. intros G H.
  apply Bool.orb_false_iff in G as [G1 G2].
  apply Bool.negb_false_iff in G1, G2.
  destruct (d_body d); cbn in H; try discriminate.
  destruct (h_len (d_hdr d) =? len p); cbn in H; [|discriminate].
  unfold decode_msgs in H. rewrite G1 in H.
  destruct (_ <? _)%nat; inversion H; subst.
  constructor; [|constructor]. cbn.
  unfold is_hello, ptype_eqb in G2. destruct (h_type (d_hdr d)); cbn in G2; discriminate.
Qed.

Lemma header_eqb_eq a b : header_eqb a b = true -> a = b.
Proof.
  unfold header_eqb, ptype_eqb. intros H.
  repeat (apply Bool.andb_true_iff in H as [H ?]).
  destruct a, b; cbn in *.
  apply Bool.eqb_prop in H.
  assert (h_type = h_type0) by (destruct h_type, h_type0; cbn in *; try reflexivity; lia).
  f_equal; auto; lia.
Qed.

Lemma open_keyed_authentic k d ms : open_dgram (Some k) d = Ok ms -> authentic k d.
Proof.
  unfold open_dgram, authentic. intros H.
  destruct (d_body d) as [k' sh p| |]; cbn in H; try discriminate.
  destruct ((k =? k') && header_eqb sh (d_hdr d) && (len p <=? h_len (d_hdr d)) && (h_len (d_hdr d) <=? len p + 16)) eqn:E; cbn in H; [|discriminate].
  apply Bool.andb_true_iff in E as [E E4]. apply Bool.andb_true_iff in E as [E E3]. apply Bool.andb_true_iff in E as [E1 E2].
  apply header_eqb_eq in E2. exists p. split; [|lia]. f_equal; auto; lia.
Qed.

Lemma drop_inv c : inv c -> inv (c <| c_dropped := c_dropped c + 1 |>).
Proof. auto. Qed.

Theorem recv_facts c now d orcs c' o : recv c now d orcs = (c', o) ->
  c_server c' = c_server c /\
  (c_key c <> None -> c_key c' <> None) /\
  (inv c -> inv c') /\
  (existsb is_connect o = true ->
     c_server c = true /\ c_key c' <> None /\
     exists k ms, c_key c = Some k /\ authentic k d /\ open_dgram (Some k) d = Ok ms /\
                  Exists (fun m => w_type m = CHALLENGE_RESP) ms).
Proof.
  unfold recv. intros H.
  assert (Drop : (c <| c_dropped := c_dropped c + 1 |>, [ORet false]) = (c', o) ->
    c_server c' = c_server c /\ (c_key c <> None -> c_key c' <> None) /\ (inv c -> inv c') /\
    (existsb is_connect o = true -> c_server c = true /\ c_key c' <> None /\
       exists k ms, c_key c = Some k /\ authentic k d /\ open_dgram (Some k) d = Ok ms /\
                    Exists (fun m => w_type m = CHALLENGE_RESP) ms)).
  { intros X; inversion X; subst. (split; [|split; [|split]]); auto. cbn; discriminate. }
  destruct (keyless_refuses c (d_hdr d)) eqn:KR; [auto|].
  destruct (open_dgram (c_key c) d) as [ms|] eqn:OD; [|auto].
  destruct (bf_insert (c_bf_pkt c) (h_seq (d_hdr d))) as [bf|]; [|auto].
  set (c0 := c <| c_bf_pkt := bf |> <| c_received := c_received c + 1 |> <| c_last_recv := now |>) in *.
  destruct (handle_ack_bits_same c0 (d_hdr d)) as [[(K1 & S1 & T1) St1] [Q1 _]].
  destruct (handle_ack_bits c0 (d_hdr d)) as [c1 o1]. cbn in K1, S1, T1, St1, Q1.
  destruct (recv_msgs c1 now ms orcs) as [c2 o2] eqn:R. inversion H; subst.
  destruct (recv_msgs_facts _ _ _ _ _ _ R) as (A & B & C & D).
  assert (KN : c_key c1 <> None \/ no_chal ms).
  { destruct (c_key c) eqn:Kc; [left; congruence|right].
    unfold keyless_refuses in KR. rewrite Kc in KR. cbn in KR.
    eapply keyless_single_hello; eauto. }
  (split; [|split; [|split]]).
  - congruence.
  - intros X. apply B. congruence.
  - intros I. apply C; auto. intros X. rewrite K1. apply I. congruence.
  - rewrite !existsb_app, Q1. cbn. intros X.
    assert (X2 : existsb is_connect o2 = true).
    { destruct (existsb is_connect o2); auto. destruct (raised o2); cbn in X; discriminate. }
    destruct (D X2) as [Sv Ex]. split; [congruence|].
    destruct (c_key c) as [k|] eqn:Kc.
    + split; [apply B; congruence|]. exists k, ms. repeat split; auto. eapply open_keyed_authentic; eauto.
    + exfalso. destruct KN as [KN|KN]; [congruence|].
      apply Exists_exists in Ex as (m & In_m & Ty). unfold no_chal in KN. rewrite Forall_forall in KN. exact (KN m In_m Ty).
Qed.

(* ---------- part 4: every event of an endpoint keeps "CONNECTED -> key" ---------- *)

Lemma not_connected_inv c : c_status c <> CONNECTED -> inv c.
Proof. unfold inv; intros; contradiction. Qed.

Lemma send_inv e c p r k : inv c -> inv (fst (send e c p r k)).
Proof.
  intros I. unfold send. destruct (negb _); [exact I|].
  destruct (len p >? e_max_payload e); cbn.
  - destruct (_ >? _); cbn; [exact I|].
    eapply same_st_inv; [|exact I].
    eapply same_st_trans; [|split; [split; [|split]|]; cbn; reflexivity].
    eapply same_st_trans; [|apply send_frags_same]. fields.
  - eapply same_st_inv; [apply send_type_same|exact I].
Qed.

Lemma client_update_inv c now : inv c -> inv (fst (client_update c now)) /\ same c (fst (client_update c now)).
Proof.
  intros I. unfold client_update.
  case_all; (split; [first [exact I | apply not_connected_inv; cbn; discriminate] | fields]).
Qed.

Lemma client_tick_inv e c now r : inv c -> inv (fst (client_tick e c now r)).
Proof.
  intros I. unfold client_tick.
  destruct (client_update_inv c now I) as [I0 _]. destruct (client_update c now) as [c0 o0]; cbn in I0.
  destruct (status_eqb (c_status c0) DROPPED); [exact I0|].
  assert (X : exists c1 o1, match r with
              | RxNone => (c0, [])
              | RxBadHeader er => (c0, [ORaise er])
              | RxDgram d orcs => let '(c', o') := recv c0 now d orcs in
                   (c', filter (fun x => match x with ORet _ => false | _ => true end) o')
              end = (c1, o1) /\ inv c1).
  { destruct r; try (do 2 eexists; split; [reflexivity|exact I0]).
    destruct (recv c0 now d orcs) as [c' o'] eqn:R.
    destruct (recv_facts _ _ _ _ _ _ R) as (_ & _ & C & _). do 2 eexists; split; [reflexivity|auto]. }
  destruct X as (c1 & o1 & -> & I1).
  destruct (raised o1); [exact I1|].
  destruct (_ >? _); [|exact I1].
  pose proof (build_packet_same e c1 now) as B. destruct (build_packet e c1 now) as [c2 pk]; cbn in B.
  destruct (check_timeout_same false c2 now) as [T _]. destruct (check_timeout false c2 now) as [c3 o3]; cbn in *.
  exact (same_st_inv _ _ (same_st_trans _ _ _ B T) I1).
Qed.

Lemma server_tick_inv e c now : inv c -> inv (fst (server_tick e c now)).
Proof.
  intros I. unfold server_tick. destruct (_ >? _); [|exact I].
  pose proof (build_packet_same e c now) as B. destruct (build_packet e c now) as [c2 pk]; cbn in B.
  destruct (check_timeout_same true c2 now) as [T _]. destruct (check_timeout true c2 now) as [c3 o3]; cbn in *.
  exact (same_st_inv _ _ (same_st_trans _ _ _ B T) I).
Qed.

Lemma step_inv e c x : inv c -> inv (fst (step e c x)).
Proof.
  intros I. destruct x; cbn.
  - apply send_inv; auto.
  - apply client_tick_inv; auto.
  - apply server_tick_inv; auto.
  - destruct (recv c now d orcs) eqn:R. destruct (recv_facts _ _ _ _ _ _ R) as (_ & _ & C & _). auto.
  - apply not_connected_inv. unfold disconnect. cbn. discriminate.
  - repeat match goal with |- context [match ?x with _ => _ end] => destruct x end; exact I.
  - apply not_connected_inv. unfold client_hello. cbn. discriminate.
  - exact I.
  - exact I.
Qed.

Lemma run_inv e xs : forall c, inv c -> inv (fst (run e c xs)).
Proof.
  induction xs as [|x r IH]; intros c I; cbn; [exact I|].
  pose proof (step_inv e c x I) as I1. destruct (step e c x) as [c1 o]; cbn in I1.
  specialize (IH c1 I1). destruct (run e c1 r); cbn in *; exact IH.
Qed.

Theorem connected_has_key_proof : forall e server xs,
  let c := fst (run e (conn0 server) xs) in c_status c = CONNECTED -> c_key c <> None.
Proof. intros e sv xs. apply run_inv. apply not_connected_inv. cbn. discriminate. Qed.

(* handler.connect at the level of one datagram: only an authentic datagram that carries a
   challenge response, a correct oracle answer for it, and a key that is still there *)
Theorem connect_needs_authentic_challenge_proof : forall c now d orcs c' o,
  recv c now d orcs = (c', o) -> In OHandlerConnect o ->
  c_server c = true /\ c_key c' <> None /\
  exists k ms, c_key c = Some k /\ authentic k d /\ open_dgram (Some k) d = Ok ms /\
               Exists (fun m => w_type m = CHALLENGE_RESP) ms.
Proof.
  intros c now d orcs c' o R Hin. destruct (recv_facts _ _ _ _ _ _ R) as (_ & _ & _ & D). apply D.
  apply existsb_exists. exists OHandlerConnect. split; auto.
Qed.

(* ---------- part 5: the symbolic layer ---------- *)
Section Symbolic.
  Variable SIG : Type.
  Variable pub : Z -> Z.
  Variable sign : Z -> sh_payload -> SIG.
  Variable verify : Z -> SIG -> sh_payload -> bool.
  Variable dh : Z -> Z -> Z.
  Variable kdf : Z -> Z -> Z.
  Variable parse : list byte -> hmsg SIG.
  Variable ser_shello : Z -> sh_payload -> SIG -> list byte.
  Variable ser_chal : Z -> list byte.

  Notation hstate := (hstate SIG).
  Notation oracle_of := (oracle_of SIG pub sign verify dh kdf ser_shello ser_chal).
  Notation hs_step := (hs_step SIG pub sign verify dh kdf ser_shello ser_chal).
  Notation hwalk := (hwalk SIG pub sign verify dh kdf parse ser_shello ser_chal).
  Notation hrecv := (hrecv SIG pub sign verify dh kdf parse ser_shello ser_chal).
  Notation dgram_oracles := (dgram_oracles SIG pub sign verify dh kdf parse ser_shello ser_chal).
  Notation hstep := (hstep SIG pub sign verify dh kdf parse ser_shello ser_chal).
  Notation hrun := (hrun SIG pub sign verify dh kdf parse ser_shello ser_chal).
  Notation ev_of := (ev_of SIG pub sign verify dh kdf parse ser_shello ser_chal).

  (* perfect-cryptography hypotheses (ECDSA, ECDH) *)
  Hypothesis verify_sign : forall sk s m, verify (pub sk) s m = true <-> s = sign sk m.
  Hypothesis dh_comm : forall a b, dh a (pub b) = dh b (pub a).

  Lemma fail_oracle_nonzero code : o_parse (fail_oracle code) <> 0.
  Proof. unfold fail_oracle; cbn. destruct (code =? 0) eqn:E; lia. Qed.

  (* (1) the client takes a key / becomes CONNECTED only from a hello that verifies under the key it
     was configured with, and then the key is kdf(dh(own private, signed ephemeral), signed salt) *)
  Theorem client_adopts_only_signed_proof : forall (s : hstate) m c' o,
    c_server (h_conn s) = false -> c_key (h_conn s) = None -> c_status (h_conn s) <> CONNECTED ->
    hs_step s SERVER_HELLO m = (c', o) ->
    (c_status c' = CONNECTED \/ c_key c' <> None ->
       exists rp p sg, m = MServerHello rp p sg /\ verify (check_key s rp) sg p = true /\
         c_key c' = Some (kdf (dh (h_priv s) (sp_pub p)) (sp_salt p)) /\ c_token c' = sp_token p /\
         c_status c' = CONNECTED) /\
    ((forall rp p sg, m = MServerHello rp p sg -> verify (check_key s rp) sg p = false) ->
       c_status c' <> CONNECTED /\ c_key c' = None /\ c_token c' = c_token (h_conn s) /\
       (forall rp p sg, m = MServerHello rp p sg -> c_status c' = DISCONNECTED)).
  Proof.
    intros s m c' o Sv K St H. unfold Handshake.hs_step, Handshake.oracle_of, recv_handshake in H. rewrite Sv in H.
    destruct m as [cp v pd|rp p sg|t|code]; cbn in H.
    - inversion H; subst. split; [intros [X|X]; contradiction|]. intros _. repeat split; auto. discriminate.
    - destruct (verify (check_key s rp) sg p) eqn:V; cbn in H.
      + inversion H; subst; cbn. split.
        * intros _. exists rp, p, sg. repeat split; auto.
        * intros X. rewrite (X _ _ _ eq_refl) in V. discriminate.
      + inversion H; subst; cbn. split; [intros [X|X]; [discriminate|contradiction]|].
        intros _. repeat split; auto. discriminate.
    - inversion H; subst. split; [intros [X|X]; contradiction|]. intros _. repeat split; auto. discriminate.
    - pose proof (fail_oracle_nonzero code) as NZ. unfold fail_oracle in *. cbn in *.
      destruct ((if code =? 0 then 9 else code) =? 6) eqn:E6.
      + inversion H; subst; cbn. split; [intros [X|X]; [discriminate|contradiction]|].
        intros _. repeat split; auto; discriminate.
      + destruct (negb ((if code =? 0 then 9 else code) =? 0)) eqn:E0; [|lia].
        inversion H; subst. split; [intros [X|X]; contradiction|]. intros _. repeat split; auto. discriminate.
  Qed.

  (* with a pinned root key the accepted signature IS the root's signature of the payload *)
  Corollary pinned_hello_signed_by_root : forall (s : hstate) root rp p sg,
    h_pinned s = Some (pub root) -> verify (check_key s rp) sg p = true -> sg = sign root p.
  Proof. intros s root rp p sg P V. unfold check_key in V. rewrite P in V. now apply verify_sign. Qed.

  (* what the attacker can inject and get adopted by a pinned client: only a replay of a payload the
     honest server signed (altered fields, re-signing with its own keys, foreign root: all rejected) *)
  Theorem forged_hello_rejected_proof : forall (s : hstate) root akeys seen rp p sg c' o,
    c_server (h_conn s) = false -> c_key (h_conn s) = None -> c_status (h_conn s) <> CONNECTED ->
    h_pinned s = Some (pub root) -> ~ In root akeys ->
    attacker_hello SIG sign akeys seen (MServerHello rp p sg) ->
    hs_step s SERVER_HELLO (MServerHello rp p sg) = (c', o) ->
    (exists rp', In (MServerHello rp' p sg) seen) \/
    (c_status c' = DISCONNECTED /\ c_key c' = None).
  Proof.
    intros s root akeys seen rp p sg c' o Sv K St P NR Att H.
    destruct (client_adopts_only_signed_proof _ _ _ _ Sv K St H) as [A B].
    destruct (verify (check_key s rp) sg p) eqn:V.
    - left. pose proof (pinned_hello_signed_by_root _ _ _ _ _ P V) as E.
      destruct (Att root E) as [X|X]; [contradiction|exact X].
    - right. destruct B as (B1 & B2 & B3 & B4).
      + intros rp0 p0 sg0 E; inversion E; subst; auto.
      + split; eauto.
  Qed.

  Lemma note_conn (s : hstate) ty m o c1 o1 : h_conn (note SIG s ty m o c1 o1) = c1.
  Proof. unfold note. case_all; reflexivity. Qed.

  (* hwalk is Conn.recv_msgs run with the oracle answers it computes *)
  Lemma hwalk_recv_msgs tm ms : forall (s s' : hstate) o orcs extra,
    hwalk s tm ms = (s', o, orcs) -> recv_msgs (h_conn s) tm ms (orcs ++ extra) = (h_conn s', o).
  Proof.
    induction ms as [|m r IH]; intros s s' o orcs extra H.
    - inversion H; subst. reflexivity.
    - rewrite recv_msgs_cons. cbn [Handshake.hwalk] in H.
      destruct (bf_insert (c_bf_msg (h_conn s)) (w_seq m)) as [bf|].
      2:{ destruct (hwalk s tm r) as [[s1 o1] orcs1] eqn:W. inversion H; subst.
          destruct (is_hs (w_type m)); cbn; eapply IH; eauto. }
      unfold msg1.
      destruct (w_type m) eqn:Ty; cbn [is_hs] in *.
      all: try (match type of H with context [recv_handshake ?c ?t ?oo] =>
             destruct (recv_handshake c t oo) as [c1 o1] eqn:R end;
           destruct (raised o1) eqn:Ra;
           [ inversion H; subst; cbn [hd tl app]; rewrite R, Ra, note_conn; reflexivity
           | match type of H with context [Handshake.hwalk _ _ _ _ _ _ _ _ _ ?s1 ?t0 ?r0] =>
               destruct (hwalk s1 t0 r0) as [[s2 o2] orcs2] eqn:W;
               inversion H; subst; cbn [hd tl app]; rewrite R, Ra;
               (let E := fresh in pose proof (IH _ _ _ _ extra W) as E; rewrite note_conn in E; rewrite E) end;
             reflexivity ]).
      all: try (cbn in H |- *; change (raised (@nil out)) with false in *; cbn in H |- *;
           match type of H with context [Handshake.hwalk _ _ _ _ _ _ _ _ _ ?s1 ?t0 ?r0] =>
             destruct (hwalk s1 t0 r0) as [[s2 o2] orcs2] eqn:W;
             inversion H; subst; (let E := fresh in pose proof (IH _ _ _ _ extra W) as E; cbn in E; rewrite E) end; reflexivity).
      (* APP_FRAGMENT *)
      destruct (recv_fragment (h_conn s <| c_bf_msg := bf |>) tm (w_seq m) (w_payload m)) as [c1 o1] eqn:F.
      destruct (raised o1); [inversion H; subst; reflexivity|].
      match type of H with context [Handshake.hwalk _ _ _ _ _ _ _ _ _ ?s1 ?t0 ?r0] =>
        destruct (hwalk s1 t0 r0) as [[s2 o2] orcs2] eqn:W;
        inversion H; subst; (let E := fresh in pose proof (IH _ _ _ _ extra W) as E; cbn in E; rewrite E) end; reflexivity.
  Qed.

  (* hrecv is Conn.recv fed dgram_oracles: the symbolic step IS the composed step *)
  Theorem hrecv_is_recv_proof : forall (s s' : hstate) now d o,
    hrecv s now d = (s', o) -> recv (h_conn s) now d (dgram_oracles s now d) = (h_conn s', o).
  Proof.
    intros s s' tm d o H. unfold Handshake.hrecv in H. unfold recv, Handshake.dgram_oracles.
    destruct (keyless_refuses (h_conn s) (d_hdr d)); [inversion H; subst; reflexivity|].
    destruct (open_dgram (c_key (h_conn s)) d) as [ms|]; [|inversion H; subst; reflexivity].
    destruct (bf_insert (c_bf_pkt (h_conn s)) (h_seq (d_hdr d))) as [bf|]; [|inversion H; subst; reflexivity].
    destruct (handle_ack_bits _ (d_hdr d)) as [c1 o1].
    destruct (hwalk (s <| h_conn := c1 |>) tm ms) as [[s2 o2] orcs] eqn:W.
    pose proof (hwalk_recv_msgs _ _ _ _ _ _ [] W) as E. rewrite app_nil_r in E. cbn in E.
    cbn [snd]. rewrite E. inversion H; subst. reflexivity.
  Qed.

  (* (3) symbolic form, one message: handler.connect only for a challenge response that carries
     the token of the temp-pool entry of this address (TSelf: the token this connection issued) *)
  Theorem connect_only_with_issued_token_proof : forall (s : hstate) ty m c' o,
    hs_step s ty m = (c', o) -> In OHandlerConnect o ->
    c_server (h_conn s) = true /\ ty = CHALLENGE_RESP /\
    exists tok, m = MChallenge tok /\ temp_token s = Some tok /\
      (h_temp s = TSelf -> tok = c_token (h_conn s)) /\
      c_status c' = CONNECTED /\ c_key c' = c_key (h_conn s) /\ c_token c' = c_token (h_conn s).
  Proof.
    intros s ty m c' o H Hin.
    assert (X : existsb is_connect o = true) by (apply existsb_exists; exists OHandlerConnect; auto).
    unfold Handshake.hs_step in H.
    destruct (recv_handshake_facts _ _ _ _ _ H) as (_ & _ & _ & D).
    destruct (D X) as (Sv & Ty & P & TT & K & T & St). subst ty.
    split; auto. split; auto.
    unfold Handshake.oracle_of in P, TT. rewrite Sv in P, TT.
    destruct m as [cp v pd|rp p sg|tok|code]; cbn in P, TT; try discriminate.
    - exists tok. repeat split; auto. intros E. unfold temp_token in TT. rewrite E in TT. congruence.
  Qed.

  (* (2) the honest three-message run: equal keys, equal tokens, one connect *)
  Lemma step_client_hello_ok : forall (s : hstate) cpub salt tok rest,
    c_server (h_conn s) = true -> h_rand s = (salt, tok) :: rest ->
    let p := {| sp_pub := pub (h_priv s); sp_salt := salt; sp_token := tok |} in
    hs_step s CLIENT_HELLO (MClientHello cpub (h_version s) true) =
    (send_type ((h_conn s) <| c_token := tok |> <| c_key := Some (kdf (dh (h_priv s) cpub) salt) |>
                  <| c_status := CONNECTING |>)
       SERVER_HELLO (ser_shello (pub (h_root s)) p (sign (h_root s) p)) RNone INone, []).
  Proof.
    intros s cpub salt tok rest Sv Hr p. unfold Handshake.hs_step, Handshake.oracle_of, recv_handshake.
    rewrite Sv, Hr. cbn [negb hd o_parse o_version_ok o_token o_key o_reply]. rewrite !Z.eqb_refl. reflexivity.
  Qed.

  Lemma step_server_hello_ok : forall (s : hstate) rp p sg,
    c_server (h_conn s) = false -> verify (check_key s rp) sg p = true ->
    hs_step s SERVER_HELLO (MServerHello rp p sg) =
    (let c := send_type ((h_conn s) <| c_token := sp_token p |>
                           <| c_key := Some (kdf (dh (h_priv s) (sp_pub p)) (sp_salt p)) |>)
                CHALLENGE_RESP (ser_chal (sp_token p)) RNone IChallenge in
     (c <| c_status := CONNECTED |> <| c_hello_sent := 0 |>, if c_conn_cb c then [OConnCb true] else [])).
  Proof.
    intros s rp p sg Sv V. unfold Handshake.hs_step, Handshake.oracle_of, recv_handshake.
    rewrite Sv, V. reflexivity.
  Qed.

  Lemma step_challenge_ok : forall (s : hstate) tok,
    c_server (h_conn s) = true -> temp_token s = Some tok ->
    hs_step s CHALLENGE_RESP (MChallenge tok) = ((h_conn s) <| c_status := CONNECTED |>, [OHandlerConnect]).
  Proof.
    intros s tok Sv T. unfold Handshake.hs_step, Handshake.oracle_of, recv_handshake.
    rewrite Sv. cbn [negb o_parse o_temp_token o_token]. rewrite T. cbn [Z.eqb negb]. rewrite Z.eqb_refl. reflexivity.
  Qed.

  Theorem honest_agree_proof : forall a b root salt tok rest pinned,
    pinned = None \/ pinned = Some (pub root) ->
    let C0 := client0 SIG a pinned in
    let S0 := server0 SIG b root ((salt, tok) :: rest) in
    let '(sc1, o1) := hs_step S0 CLIENT_HELLO (MClientHello (pub a) 1 true) in
    let S1 := S0 <| h_conn := sc1 |> in
    let p := {| sp_pub := pub b; sp_salt := salt; sp_token := tok |} in
    let '(cc1, o2) := hs_step C0 SERVER_HELLO (MServerHello (pub root) p (sign root p)) in
    let '(sc2, o3) := hs_step S1 CHALLENGE_RESP (MChallenge (c_token cc1)) in
    map m_payload (c_outgoing sc1) = [ser_shello (pub root) p (sign root p)] /\
    map m_payload (c_outgoing cc1) = [ser_chal tok] /\
    c_key cc1 = Some (kdf (dh a (pub b)) salt) /\ c_key sc2 = c_key cc1 /\
    c_token cc1 = tok /\ c_token sc2 = tok /\
    c_status cc1 = CONNECTED /\ c_status sc2 = CONNECTED /\ o3 = [OHandlerConnect].
  Proof.
    intros a b root salt tok rest pinned Pin C0 S0.
    pose proof (step_client_hello_ok S0 (pub a) salt tok rest eq_refl eq_refl) as E1.
    change (h_version S0) with 1 in E1. cbv zeta in E1. rewrite E1. clear E1. cbv beta iota zeta.
    set (sc1 := send_type _ SERVER_HELLO _ RNone INone).
    set (p := {| sp_pub := pub b; sp_salt := salt; sp_token := tok |}).
    assert (V : verify (check_key C0 (pub root)) (sign root p) p = true).
    { unfold check_key, C0, client0. cbn [h_pinned]. destruct Pin as [-> | ->]; apply verify_sign; reflexivity. }
    rewrite (step_server_hello_ok C0 (pub root) p (sign root p) eq_refl V). cbv beta iota zeta.
    set (cc := send_type _ CHALLENGE_RESP _ RNone IChallenge).
    assert (Tk : c_token (cc <| c_status := CONNECTED |> <| c_hello_sent := 0 |>) = tok) by reflexivity.
    rewrite Tk.
    assert (Sv1 : c_server (h_conn (S0 <| h_conn := sc1 |>)) = true) by (subst sc1; reflexivity).
    assert (Tt1 : temp_token (S0 <| h_conn := sc1 |>) = Some tok) by (subst sc1; reflexivity).
    rewrite (step_challenge_ok (S0 <| h_conn := sc1 |>) tok Sv1 Tt1). cbv beta iota zeta.
    subst cc sc1 p C0 S0. cbn [client0 server0 h_conn h_priv h_root].
    cbn [sp_pub sp_salt sp_token]. rewrite (dh_comm a b).
    repeat split.
  Qed.

  (* every symbolic event is the Conn.v event ev_of computes, so Conn-level theorems transfer *)
  Theorem hstep_is_step_proof : forall e (s s' : hstate) x o,
    hstep e s x = (s', o) -> step e (h_conn s) (ev_of s x) = (h_conn s', o).
  Proof.
    intros e s s' x o H. destruct x as [tm d|tm r|tm hello|x]; cbn in H |- *.
    - apply hrecv_is_recv_proof; auto.
    - unfold Handshake.hclient_tick in H. unfold client_tick.
      destruct (client_update (h_conn s) tm) as [c0 o0]. cbn [fst].
      cbn [h_conn] in H.
      destruct (status_eqb (c_status c0) DROPPED); [inversion H; subst; reflexivity|].
      destruct r as [|er|d].
      + cbn in H |- *. destruct (_ >? _).
        * destruct (build_packet e c0 tm) as [c2 pk]. destruct (check_timeout false c2 tm) as [c3 o3].
          inversion H; subst; reflexivity.
        * inversion H; subst; reflexivity.
      + cbn in H |- *. inversion H; subst; reflexivity.
      + destruct (hrecv (s <| h_conn := c0 |>) tm d) as [s1 o1] eqn:R.
        apply hrecv_is_recv_proof in R. change (h_conn (s <| h_conn := c0 |>)) with c0 in R. rewrite R.
        destruct (raised _); [inversion H; subst; reflexivity|].
        destruct (_ >? _).
        * destruct (build_packet e (h_conn s1) tm) as [c2 pk]. destruct (check_timeout false c2 tm) as [c3 o3].
          inversion H; subst; reflexivity.
        * inversion H; subst; reflexivity.
    - inversion H; subst; reflexivity.
    - destruct (oracle_free x) eqn:OF.
      + destruct (step e (h_conn s) x) as [c1 o1]. inversion H; subst; reflexivity.
      + inversion H; subst. destruct s' as [c ? ? ? ? ? ? ?]; destruct c; reflexivity.
  Qed.

  Lemma hrun_inv e xs : forall (s : hstate), inv (h_conn s) -> inv (h_conn (fst (hrun e s xs))).
  Proof.
    induction xs as [|x r IH]; intros s I; cbn; [exact I|].
    destruct (hstep e s x) as [s1 o] eqn:H.
    pose proof (hstep_is_step_proof _ _ _ _ _ H) as E.
    pose proof (step_inv e (h_conn s) (ev_of s x) I) as I1. rewrite E in I1. cbn in I1.
    specialize (IH s1 I1). destruct (hrun e s1 r); exact IH.
  Qed.

  (* (4) any loss / duplication / reordering / injection: CONNECTED implies a key, both roles *)
  Theorem handshake_never_connected_without_key_proof : forall e a b root pinned rand xs,
    let c := h_conn (fst (hrun e (client0 SIG a pinned) xs)) in
    let sc := h_conn (fst (hrun e (server0 SIG b root rand) xs)) in
    (c_status c = CONNECTED -> c_key c <> None) /\ (c_status sc = CONNECTED -> c_key sc <> None).
  Proof.
    intros. split; apply hrun_inv; apply not_connected_inv; cbn; discriminate.
  Qed.

  (* in ANY state of a client, one SERVER_HELLO message either leaves key and token alone or takes
     both from a hello that verifies under the configured key *)
  Theorem client_key_only_from_verified_hello_proof : forall (s : hstate) m c' o,
    c_server (h_conn s) = false -> hs_step s SERVER_HELLO m = (c', o) ->
    (c_key c' = c_key (h_conn s) /\ c_token c' = c_token (h_conn s) /\
     (c_status c' = c_status (h_conn s) \/ c_status c' = DISCONNECTED)) \/
    (exists rp p sg, m = MServerHello rp p sg /\ verify (check_key s rp) sg p = true /\
       c_key c' = Some (kdf (dh (h_priv s) (sp_pub p)) (sp_salt p)) /\ c_token c' = sp_token p /\
       c_status c' = CONNECTED).
  Proof.
    intros s m c' o Sv H. unfold Handshake.hs_step, Handshake.oracle_of, recv_handshake in H. rewrite Sv in H.
    destruct m as [cp v pd|rp p sg|t|code]; cbn in H.
    - inversion H; subst. left; auto.
    - destruct (verify (check_key s rp) sg p) eqn:V; cbn in H; inversion H; subst; cbn.
      + right. exists rp, p, sg. repeat split; auto.
      + left; auto.
    - inversion H; subst. left; auto.
    - pose proof (fail_oracle_nonzero code) as NZ. unfold fail_oracle in *. cbn in *.
      destruct ((if code =? 0 then 9 else code) =? 6); [inversion H; subst; cbn; left; auto|].
      destruct (negb ((if code =? 0 then 9 else code) =? 0)) eqn:E0; [|lia].
      inversion H; subst. left; auto.
  Qed.
End Symbolic.

(* ---------- part 6: AEAD view and consistency of the hypotheses ---------- *)
Section Aead.
  Variable CT : Type.
  Variable seal : Z -> header -> list byte -> CT.
  Variable open : Z -> header -> CT -> option (list byte).
  Hypothesis open_seal : forall k h p, open k h (seal k h p) = Some p.
  Hypothesis open_integrity : forall k h c p, open k h c = Some p -> c = seal k h p.

  (* a datagram whose body is what open makes of a ciphertext is accepted by a key holder only if
     the ciphertext was produced by seal under that key with that header *)
  Theorem authentic_means_sealed_proof : forall k h c ms,
    open_dgram (Some k) {| d_hdr := h; d_body := body_view CT open k h c |} = Ok ms ->
    exists p, c = seal k h p /\ decode_msgs (h_type h) (h_count h) p = Ok ms.
  Proof.
    intros k h c ms H. unfold open_dgram, body_view in H. cbn in H.
    destruct (open k h c) as [p|] eqn:O; cbn in H; [|discriminate].
    destruct ((k =? k) && header_eqb h h && (len p <=? h_len h) && (h_len h <=? len p + 16)); cbn in H; [|discriminate].
    exists p. split; auto.
  Qed.

  Theorem sealed_is_authentic_proof : forall k h p,
    h_len h = len p -> authentic k {| d_hdr := h; d_body := body_view CT open k h (seal k h p) |}.
  Proof. intros k h p L. unfold authentic, body_view. cbn. rewrite open_seal. exists p. split; [reflexivity|lia]. Qed.
End Aead.
