(* IdleSrvP.v — TimedNet.server_sweep is the server loop's sweep of Model/Server.v (the model tied to
   server.py) seen from one CONNECTED connection that is not removed. *)
From Coq Require Import Lia ZifyBool.
From RecordUpdate Require Import RecordUpdate.
From Model Require Import Base SeqNum Wire Conn Client Server TimedNet.
From Proofs Require Import C10P.
Import RecordSetNotations.
Open Scope Z_scope.

Lemma sweep_conn_is_server_sweep h e s now cid cl c' o :
  pfind cid (s_conns s) = Some cl -> c_status (cl_conn cl) = CONNECTED ->
  server_sweep e (g_conn_timeout (s_cfg s)) (cl_conn cl) now = (c', o, false) ->
  exists s' so pp, sweep_conn h e s now cid = (s', so, pp)
                   /\ pfind cid (s_conns s') = Some (with_conn cl c').
Proof.
  intros P St E. unfold server_sweep in E. rewrite St in E. cbn [status_eqb status_code Z.eqb Pos.eqb] in E.
  destruct (server_tick e (cl_conn cl) now) as [c1 o1] eqn:Et. injection E as <- <- Ed.
  unfold sweep_drops in Ed. unfold sweep_conn. rewrite P, St. cbn [status_eqb status_code Z.eqb Pos.eqb]. rewrite P.
  rewrite St in Ed. cbn [status_eqb status_code Z.eqb Pos.eqb orb] in *. rewrite Ed.
  unfold tick_client. rewrite Et. rewrite St. cbn [status_eqb status_code Z.eqb Pos.eqb orb].
  eexists. eexists. eexists. split; [reflexivity|].
  assert (Hid : cl_id cl = cid).
  { clear - P. induction (s_conns s) as [|x r IH]; cbn [pfind] in P; [discriminate|].
    destruct (cl_id x =? cid) eqn:E; [injection P as <-; lia|auto]. }
  rewrite Hid. unfold supd. cbn. rewrite pfind_pmap_id, P. reflexivity.
Qed.
