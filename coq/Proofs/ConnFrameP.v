(* ConnFrameP.v — frame lemmas for the connection model: which fields the callback / ack /
   time-out machinery and the receive path leave alone, and that only packet assembly emits.
   Used by the C03 / C12 / C07 / C05 proofs. *)
From Coq Require Import Lia ZifyBool.
From RecordUpdate Require Import RecordUpdate.
From Model Require Import Base SeqNum Wire Conn.
From Proofs Require Import Tac.
Import RecordSetNotations.
Open Scope Z_scope.

Definition is_emit (o : out) : bool := match o with OEmit _ _ _ => true | _ => false end.
Definition no_emit (os : list out) : Prop := forall o, In o os -> is_emit o = false.

Lemma no_emit_nil : no_emit []. Proof. intros o []. Qed.
Lemma no_emit_app a b : no_emit a -> no_emit b -> no_emit (a ++ b).
Proof. intros Ha Hb o Ho. apply in_app_or in Ho as [H|H]; auto. Qed.
Lemma no_emit_cons o a : is_emit o = false -> no_emit a -> no_emit (o :: a).
Proof. intros H Ha x [<-|Hx]; auto. Qed.
Lemma no_emit_filter f a : no_emit a -> no_emit (filter f a).
Proof. intros Ha o Ho. apply filter_In in Ho as [Ho _]. auto. Qed.
#[export] Hint Resolve no_emit_nil no_emit_app no_emit_cons no_emit_filter : frame.

(* fields that only packet assembly / configuration / the handshake touch *)
Record same_core (c c' : conn) : Prop := {
  sc_server : c_server c' = c_server c;
  sc_seq : c_seq_send c' = c_seq_send c;
  sc_last_send : c_last_send c' = c_last_send c;
  sc_last_ka : c_last_ka c' = c_last_ka c;
  sc_si : c_send_interval c' = c_send_interval c;
  sc_ka : c_ka_interval c' = c_ka_interval c;
  sc_ot : c_out_timeout c' = c_out_timeout c;
  sc_tt : c_temp_timeout c' = c_temp_timeout c }.

(* ... plus the fields the handshake / receive path may change *)
Record same_sess (c c' : conn) : Prop := {
  ss_core : same_core c c';
  ss_key : c_key c' = c_key c;
  ss_status : c_status c' = c_status c;
  ss_last_recv : c_last_recv c' = c_last_recv c;
  ss_hello : c_hello_sent c' = c_hello_sent c;
  ss_conncb : c_conn_cb c' = c_conn_cb c;
  ss_bfp : c_bf_pkt c' = c_bf_pkt c;
  ss_bfm : c_bf_msg c' = c_bf_msg c;
  ss_incoming : c_incoming c' = c_incoming c;
  ss_token : c_token c' = c_token c }.

Lemma same_core_refl c : same_core c c. Proof. constructor; reflexivity. Qed.
Lemma same_sess_refl c : same_sess c c. Proof. constructor; try reflexivity. apply same_core_refl. Qed.
Lemma same_core_trans a b c : same_core a b -> same_core b c -> same_core a c.
Proof. intros [] []. constructor; congruence. Qed.
Lemma same_sess_trans a b c : same_sess a b -> same_sess b c -> same_sess a c.
Proof. intros [H1] [H2]. constructor; try congruence. eapply same_core_trans; eassumption. Qed.
#[export] Hint Resolve same_core_refl same_sess_refl : frame.

Ltac sess_triv := constructor; [constructor|..]; cbn; reflexivity.
(* destruct the scrutinee of the first pair-match in hypothesis E *)
Ltac dpair E c1 o1 E1 :=
  match type of E with context [match ?x with (_, _) => _ end] => destruct x as [c1 o1] eqn:E1 end.

Lemma fire_icb_frame c k ok c' o : fire_icb c k ok = (c', o) -> same_sess c c' /\ no_emit o.
Proof.
  unfold fire_icb. intros E.
  destruct k; try (injection E as <- <-; split; [apply same_sess_refl|]; try apply no_emit_nil;
                   try (destruct ok; try apply no_emit_nil); intros x [<-|[]]; reflexivity).
  destruct (dget fid (c_pfrags c)) as [fs|]; [|injection E as <- <-; split; auto with frame].
  destruct (forallb is_some _); injection E as <- <-; (split; [sess_triv|]).
  - destruct (fs_ucb fs); try apply no_emit_nil. intros x [<-|[]]; reflexivity.
  - apply no_emit_nil.
Qed.

Lemma fire_cb_frame c k ok c' o : fire_cb c k ok = (c', o) -> same_sess c c' /\ no_emit o.
Proof.
  unfold fire_cb. destruct k as [i|rid mseq ty p i]; [apply fire_icb_frame|].
  destruct (zmem rid (c_done c)); [intros E; injection E as <- <-; split; auto with frame|].
  destruct (negb ok); [intros E; injection E as <- <-; split; [sess_triv|apply no_emit_nil]|].
  intros E. apply fire_icb_frame in E as [H1 H2]. split; [|exact H2].
  eapply same_sess_trans; [|exact H1]. sess_triv.
Qed.

Lemma fire_all_frame ks : forall c ok c' o, fire_all c ks ok = (c', o) -> same_sess c c' /\ no_emit o.
Proof.
  induction ks as [|k ks IH]; intros c ok c' o E; cbn [fire_all] in E.
  - injection E as <- <-. split; auto with frame.
  - destruct (fire_cb c k ok) as [c1 o1] eqn:E1. destruct (fire_all c1 ks ok) as [c2 o2] eqn:E2.
    injection E as <- <-. apply fire_cb_frame in E1 as [A1 B1]. apply IH in E2 as [A2 B2].
    split; [eapply same_sess_trans; eassumption|auto with frame].
Qed.

Lemma resolve_frame ok c s c' o : resolve ok c s = (c', o) -> same_sess c c' /\ no_emit o.
Proof.
  unfold resolve. intros E.
  set (c0 := if ok then _ else _) in E.
  assert (H0 : same_sess c c0) by (subst c0; destruct ok; sess_triv).
  destruct (dget s (c_pcbs c0)) as [ks|].
  - destruct (fire_all c0 ks ok) as [c1 o1] eqn:E1. apply fire_all_frame in E1 as [A1 B1].
    injection E as <- <-. split; [|exact B1].
    eapply same_sess_trans; [exact H0|]. eapply same_sess_trans; [exact A1|].
    destruct (dget s _); sess_triv.
  - injection E as <- <-. split; [|apply no_emit_nil].
    eapply same_sess_trans; [exact H0|]. destruct (dget s _); sess_triv.
Qed.

Lemma ack_loop_frame h snap : forall c c' o, ack_loop c h snap = (c', o) -> same_sess c c' /\ no_emit o.
Proof.
  induction snap as [|[s t] r IH]; intros c c' o E; cbn [ack_loop] in E.
  - injection E as <- <-. split; auto with frame.
  - dpair E c1 o1 E1.
    destruct (ack_loop c1 h r) as [c2 o2] eqn:E2. injection E as <- <-.
    apply IH in E2 as [A2 B2].
    assert (H1 : same_sess c c1 /\ no_emit o1).
    { destruct (hdr_acks _ _ s); [eapply resolve_frame; eassumption|].
      destruct (_ >? _); [eapply resolve_frame; eassumption|]. injection E1 as <- <-. split; auto with frame. }
    destruct H1 as [A1 B1]. split; [eapply same_sess_trans; eassumption|auto with frame].
Qed.

Lemma handle_ack_bits_frame c h c' o : handle_ack_bits c h = (c', o) -> same_sess c c' /\ no_emit o.
Proof. apply ack_loop_frame. Qed.

Lemma timeout_loop_frame strict now snap : forall c c' o,
  timeout_loop strict c now snap = (c', o) -> same_sess c c' /\ no_emit o.
Proof.
  induction snap as [|[s t] r IH]; intros c c' o E; cbn [timeout_loop] in E.
  - injection E as <- <-. split; auto with frame.
  - dpair E c1 o1 E1.
    destruct (timeout_loop strict c1 now r) as [c2 o2] eqn:E2. injection E as <- <-.
    apply IH in E2 as [A2 B2].
    assert (H1 : same_sess c c1 /\ no_emit o1).
    { match type of E1 with (if ?b then _ else _) = _ => destruct b end; [eapply resolve_frame; eassumption|].
      injection E1 as <- <-. split; auto with frame. }
    destruct H1 as [A1 B1]. split; [eapply same_sess_trans; eassumption|auto with frame].
Qed.

Lemma check_timeout_frame strict c now c' o : check_timeout strict c now = (c', o) -> same_sess c c' /\ no_emit o.
Proof. apply timeout_loop_frame. Qed.

(* ---- sending ---- *)
Lemma send_type_sess c ty p r k : same_sess c (send_type c ty p r k).
Proof. unfold send_type. sess_triv. Qed.

Lemma send_frags_sess frags : forall c fid n r i, same_sess c (send_frags c fid n r i frags).
Proof.
  induction frags as [|f rest IH]; intros; cbn [send_frags]; [apply same_sess_refl|].
  eapply same_sess_trans; [apply send_type_sess|apply IH].
Qed.

Lemma send_frame e c p r k c' o : send e c p r k = (c', o) -> same_sess c c' /\ no_emit o.
Proof.
  unfold send. intros E.
  destruct (negb _); [injection E as <- <-; split; auto with frame|].
  destruct (len p >? e_max_payload e).
  - destruct (len p >? _).
    + injection E as <- <-. split; [sess_triv|intros x [<-|[]]; reflexivity].
    + injection E as <- <-. split; [|apply no_emit_nil].
      set (frags := split_frags (S (length p)) e p).
      eapply (same_sess_trans _ (c <| c_seq_frag := seq_succ (c_seq_frag c) |>)); [sess_triv|].
      eapply same_sess_trans; [apply (send_frags_sess frags)|]. sess_triv.
  - injection E as <- <-. split; [apply send_type_sess|apply no_emit_nil].
Qed.

(* ---- receiving: never emits, never touches the assembly clock / counters ---- *)
Lemma same_sess_core c c' : same_sess c c' -> same_core c c'.
Proof. intros [H]. exact H. Qed.
Ltac core_triv := constructor; cbn; reflexivity.

Lemma recv_fragment_frame c now mseq frag c' o :
  recv_fragment c now mseq frag = (c', o) -> same_core c c' /\ no_emit o.
Proof.
  unfold recv_fragment. intros E.
  destruct (_ <? _)%nat; [injection E as <- <-; split; [apply same_core_refl|intros x [<-|[]]; reflexivity]|].
  injection E as <- <-. split; [|apply no_emit_nil].
  destruct (fr_complete _); core_triv.
Qed.

Lemma recv_handshake_frame c ty o c' os :
  recv_handshake c ty o = (c', os) -> same_core c c' /\ no_emit os.
Proof.
  unfold recv_handshake. intros E.
  assert (Hr : forall e, no_emit [ORaise e]) by (intros e x [<-|[]]; reflexivity).
  assert (Hn : no_emit [OHandlerConnect]) by (intros x [<-|[]]; reflexivity).
  assert (Hc : forall b, no_emit [OConnCb b]) by (intros b x [<-|[]]; reflexivity).
  destruct ty, (c_server c);
    try (injection E as <- <-; split; [apply same_core_refl|apply no_emit_nil]).
  - destruct (negb _); [injection E as <- <-; split; [apply same_core_refl|apply Hr]|].
    destruct (negb _); injection E as <- <-; (split; [|apply no_emit_nil]); [apply same_core_refl|].
    unfold send_type. core_triv.
  - destruct (o_parse o =? 6); [injection E as <- <-; split; [core_triv|apply Hr]|].
    destruct (negb _); [injection E as <- <-; split; [apply same_core_refl|apply Hr]|].
    injection E as <- <-. split; [unfold send_type; core_triv|destruct (c_conn_cb c); [apply Hc|apply no_emit_nil]].
  - destruct (negb _); [injection E as <- <-; split; [apply same_core_refl|apply Hr]|].
    destruct (o_temp_token o) as [t|]; [|injection E as <- <-; split; [apply same_core_refl|apply Hr]].
    destruct (t =? o_token o); injection E as <- <-; (split; [|auto]); [core_triv|apply same_core_refl].
Qed.

Lemma recv_msgs_frame ms : forall c now orcs c' o,
  recv_msgs c now ms orcs = (c', o) -> same_core c c' /\ no_emit o.
Proof.
  induction ms as [|m r IH]; intros c now orcs c' o E; cbn [recv_msgs] in E.
  - injection E as <- <-. split; [apply same_core_refl|apply no_emit_nil].
  - destruct (bf_insert (c_bf_msg c) (w_seq m)) as [bf|]; [|eapply IH; eassumption].
    set (c0 := c <| c_bf_msg := bf |>) in E.
    assert (H0 : same_core c c0) by (subst c0; core_triv).
    match type of E with context [match ?x with (_, _) => _ end] => destruct x as [[c1 o1] orcs'] eqn:E1 end.
    assert (H1 : same_core c0 c1 /\ no_emit o1).
    { destruct (w_type m).
      - injection E1 as <- <- <-. split; [apply same_core_refl|apply no_emit_nil].
      - destruct (recv_handshake c0 CLIENT_HELLO _) as [c'' o''] eqn:Eh. injection E1 as <- <- <-.
        eapply recv_handshake_frame; eassumption.
      - destruct (recv_handshake c0 SERVER_HELLO _) as [c'' o''] eqn:Eh. injection E1 as <- <- <-.
        eapply recv_handshake_frame; eassumption.
      - destruct (recv_handshake c0 CHALLENGE_RESP _) as [c'' o''] eqn:Eh. injection E1 as <- <- <-.
        eapply recv_handshake_frame; eassumption.
      - injection E1 as <- <- <-. split; [apply same_core_refl|apply no_emit_nil].
      - injection E1 as <- <- <-. split; [core_triv|apply no_emit_nil].
      - injection E1 as <- <- <-. split; [unfold recv_app; core_triv|apply no_emit_nil].
      - destruct (recv_fragment c0 now (w_seq m) (w_payload m)) as [c'' o''] eqn:Ef. injection E1 as <- <- <-.
        eapply recv_fragment_frame; eassumption. }
    destruct H1 as [A1 B1].
    destruct (raised o1).
    + injection E as <- <-. split; [eapply same_core_trans; eassumption|exact B1].
    + destruct (recv_msgs c1 now r orcs') as [c2 o2] eqn:E2. injection E as <- <-.
      apply IH in E2 as [A2 B2]. split; [|auto with frame].
      eapply same_core_trans; [exact H0|]. eapply same_core_trans; eassumption.
Qed.

Lemma no_emit_ret b : no_emit [ORet b]. Proof. intros x [<-|[]]; reflexivity. Qed.

Lemma recv_frame c now d orcs c' o : recv c now d orcs = (c', o) -> same_core c c' /\ no_emit o.
Proof.
  unfold recv. intros E.
  destruct (keyless_refuses c (d_hdr d)); [injection E as <- <-; split; [core_triv|apply no_emit_ret]|].
  destruct (open_dgram (c_key c) d) as [ms|]; [|injection E as <- <-; split; [core_triv|apply no_emit_ret]].
  destruct (bf_insert (c_bf_pkt c) _) as [bf|]; [|injection E as <- <-; split; [core_triv|apply no_emit_ret]].
  set (c0 := c <| c_bf_pkt := bf |> <| c_received := _ |> <| c_last_recv := now |>) in E.
  assert (H0 : same_core c c0) by (subst c0; core_triv).
  destruct (handle_ack_bits c0 (d_hdr d)) as [c1 o1] eqn:E1.
  destruct (recv_msgs c1 now ms orcs) as [c2 o2] eqn:E2. injection E as <- <-.
  apply handle_ack_bits_frame in E1 as [A1 B1]. apply recv_msgs_frame in E2 as [A2 B2].
  split.
  - eapply same_core_trans; [exact H0|]. eapply same_core_trans; [apply same_sess_core; exact A1|exact A2].
  - apply no_emit_app; [exact B1|]. apply no_emit_app; [exact B2|]. destruct (raised o2); [apply no_emit_nil|apply no_emit_ret].
Qed.

(* ---- the callback machinery only reports callbacks and log lines ---- *)
Definition is_cbout (o : out) : Prop := match o with OCallback _ _ | OLog _ => True | _ => False end.
Definition cb_only (os : list out) : Prop := Forall is_cbout os.

Lemma cb_only_app a b : cb_only a -> cb_only b -> cb_only (a ++ b).
Proof. intros. apply Forall_app. auto. Qed.

Lemma fire_icb_cb_only c k ok c' o : fire_icb c k ok = (c', o) -> cb_only o.
Proof.
  unfold fire_icb, cb_only. intros E. destruct k; try (injection E as <- <-; try destruct ok; repeat constructor).
  destruct (dget fid (c_pfrags c)) as [fs|]; [|injection E as <- <-; constructor].
  destruct (forallb is_some _); injection E as <- <-; [|constructor].
  destruct (fs_ucb fs); repeat constructor.
Qed.

Lemma fire_cb_cb_only c k ok c' o : fire_cb c k ok = (c', o) -> cb_only o.
Proof.
  unfold fire_cb. destruct k as [i|rid mseq ty p i]; [apply fire_icb_cb_only|].
  destruct (zmem rid (c_done c)); [intros E; injection E as <- <-; constructor|].
  destruct (negb ok); [intros E; injection E as <- <-; constructor|]. apply fire_icb_cb_only.
Qed.

Lemma fire_all_cb_only ks : forall c ok c' o, fire_all c ks ok = (c', o) -> cb_only o.
Proof.
  induction ks as [|k ks IH]; intros c ok c' o E; cbn [fire_all] in E.
  - injection E as <- <-. constructor.
  - destruct (fire_cb c k ok) as [c1 o1] eqn:E1. destruct (fire_all c1 ks ok) as [c2 o2] eqn:E2.
    injection E as <- <-. apply cb_only_app; [eapply fire_cb_cb_only; eassumption|eapply IH; eassumption].
Qed.

Lemma resolve_cb_only ok c s c' o : resolve ok c s = (c', o) -> cb_only o.
Proof.
  unfold resolve. intros E.
  match type of E with context [dget s (c_pcbs ?c0)] => destruct (dget s (c_pcbs c0)) as [ks|] end.
  - match type of E with context [fire_all ?c0 ks ok] => destruct (fire_all c0 ks ok) as [c1 o1] eqn:E1 end.
    injection E as <- <-. eapply fire_all_cb_only; eassumption.
  - injection E as <- <-. constructor.
Qed.

Lemma ack_loop_cb_only h snap : forall c c' o, ack_loop c h snap = (c', o) -> cb_only o.
Proof.
  induction snap as [|[s t] r IH]; intros c c' o E; cbn [ack_loop] in E.
  - injection E as <- <-. constructor.
  - dpair E c1 o1 E1. destruct (ack_loop c1 h r) as [c2 o2] eqn:E2. injection E as <- <-.
    apply cb_only_app; [|eapply IH; eassumption].
    destruct (hdr_acks _ _ s); [eapply resolve_cb_only; eassumption|].
    destruct (_ >? _); [eapply resolve_cb_only; eassumption|]. injection E1 as <- <-. constructor.
Qed.

Lemma timeout_loop_cb_only strict now snap : forall c c' o, timeout_loop strict c now snap = (c', o) -> cb_only o.
Proof.
  induction snap as [|[s t] r IH]; intros c c' o E; cbn [timeout_loop] in E.
  - injection E as <- <-. constructor.
  - dpair E c1 o1 E1. destruct (timeout_loop strict c1 now r) as [c2 o2] eqn:E2. injection E as <- <-.
    apply cb_only_app; [|eapply IH; eassumption].
    match type of E1 with (if ?b then _ else _) = _ => destruct b end; [eapply resolve_cb_only; eassumption|].
    injection E1 as <- <-. constructor.
Qed.

(* the receive path keeps the liveness clock it has just set, and the hello timer only ever
   goes to 0 *)
Lemma recv_msgs_clock ms : forall c now orcs c' o, recv_msgs c now ms orcs = (c', o) ->
  c_last_recv c' = c_last_recv c /\ (c_hello_sent c' = c_hello_sent c \/ c_hello_sent c' = 0)
  /\ c_conn_cb c' = c_conn_cb c.
Proof.
  induction ms as [|m r IH]; intros c now orcs c' o E; cbn [recv_msgs] in E.
  - injection E as <- <-. auto.
  - destruct (bf_insert (c_bf_msg c) (w_seq m)) as [bf|]; [|eapply IH; eassumption].
    match type of E with context [match ?x with (_, _) => _ end] => destruct x as [[c1 o1] orcs'] eqn:E1 end.
    assert (H1 : c_last_recv c1 = c_last_recv c /\ (c_hello_sent c1 = c_hello_sent c \/ c_hello_sent c1 = 0)
                 /\ c_conn_cb c1 = c_conn_cb c).
    { assert (Hh : forall ty c'' o'', recv_handshake (c <| c_bf_msg := bf |>) ty (hd no_oracle orcs) = (c'', o'') ->
                c_last_recv c'' = c_last_recv c /\ (c_hello_sent c'' = c_hello_sent c \/ c_hello_sent c'' = 0)
                /\ c_conn_cb c'' = c_conn_cb c).
      { intros ty c'' o'' Eh. unfold recv_handshake in Eh.
        destruct ty, (c_server (c <| c_bf_msg := bf |>)); try (injection Eh as <- <-; cbn; auto).
        - destruct (negb _); [injection Eh as <- <-; cbn; auto|].
          destruct (negb _); injection Eh as <- <-; unfold send_type; cbn; auto.
        - destruct (o_parse _ =? 6); [injection Eh as <- <-; cbn; auto|].
          destruct (negb _); injection Eh as <- <-; unfold send_type; cbn; auto.
        - destruct (negb _); [injection Eh as <- <-; cbn; auto|].
          destruct (o_temp_token _) as [t|]; [|injection Eh as <- <-; cbn; auto].
          destruct (t =? _); injection Eh as <- <-; cbn; auto. }
      destruct (w_type m).
      - injection E1 as <- <- <-. cbn. auto.
      - destruct (recv_handshake _ CLIENT_HELLO _) as [c'' o''] eqn:Eh. injection E1 as <- <- <-. eapply Hh; eassumption.
      - destruct (recv_handshake _ SERVER_HELLO _) as [c'' o''] eqn:Eh. injection E1 as <- <- <-. eapply Hh; eassumption.
      - destruct (recv_handshake _ CHALLENGE_RESP _) as [c'' o''] eqn:Eh. injection E1 as <- <- <-. eapply Hh; eassumption.
      - injection E1 as <- <- <-. cbn. auto.
      - injection E1 as <- <- <-. cbn. auto.
      - injection E1 as <- <- <-. cbn. auto.
      - destruct (recv_fragment _ now (w_seq m) (w_payload m)) as [c'' o''] eqn:Ef. injection E1 as <- <- <-.
        unfold recv_fragment in Ef. destruct (_ <? _)%nat; [injection Ef as <- <-; cbn; auto|].
        injection Ef as <- <-. destruct (fr_complete _); cbn; auto. }
    destruct H1 as (A1 & B1 & C1).
    destruct (raised o1); [injection E as <- <-; auto|].
    destruct (recv_msgs c1 now r orcs') as [c2 o2] eqn:E2. injection E as <- <-.
    destruct (IH _ _ _ _ _ E2) as (A2 & B2 & C2). split; [congruence|]. split; [|congruence].
    destruct B2 as [B2|B2]; [rewrite B2; exact B1|right; exact B2].
Qed.

(* ---- a generic way to push a relation through the per-message receive loop ---- *)
Section RecvMsgsRel.
  Variable R : conn -> conn -> Prop.
  Hypothesis Rrefl : forall c, R c c.
  Hypothesis Rtrans : forall a b c, R a b -> R b c -> R a c.
  Hypothesis Rbf : forall c bf, R c (c <| c_bf_msg := bf |>).
  Hypothesis Rapp : forall c s p, R c (recv_app c s p).
  Hypothesis Rfrag : forall c now s p c' o, recv_fragment c now s p = (c', o) -> R c c'.
  Hypothesis Rdisc : forall c, R c (c <| c_status := DISCONNECTING |>).
  Hypothesis Rhs : forall c ty o c' os, recv_handshake c ty o = (c', os) -> R c c'.

  Lemma recv_msgs_rel ms : forall c now orcs c' o, recv_msgs c now ms orcs = (c', o) -> R c c'.
  Proof.
    induction ms as [|m r IH]; intros c now orcs c' o E; cbn [recv_msgs] in E.
    - injection E as <- <-. apply Rrefl.
    - destruct (bf_insert (c_bf_msg c) (w_seq m)) as [bf|]; [|eapply IH; eassumption].
      match type of E with context [match ?x with (_, _) => _ end] => destruct x as [[c1 o1] orcs'] eqn:E1 end.
      assert (H1 : R c c1).
      { eapply Rtrans; [apply (Rbf c bf)|]. destruct (w_type m).
        - injection E1 as <- <- <-. apply Rrefl.
        - destruct (recv_handshake _ CLIENT_HELLO _) as [c'' o''] eqn:Eh. injection E1 as <- <- <-. eapply Rhs; eassumption.
        - destruct (recv_handshake _ SERVER_HELLO _) as [c'' o''] eqn:Eh. injection E1 as <- <- <-. eapply Rhs; eassumption.
        - destruct (recv_handshake _ CHALLENGE_RESP _) as [c'' o''] eqn:Eh. injection E1 as <- <- <-. eapply Rhs; eassumption.
        - injection E1 as <- <- <-. apply Rrefl.
        - injection E1 as <- <- <-. apply Rdisc.
        - injection E1 as <- <- <-. apply Rapp.
        - destruct (recv_fragment _ now (w_seq m) (w_payload m)) as [c'' o''] eqn:Ef. injection E1 as <- <- <-.
          eapply Rfrag; eassumption. }
      destruct (raised o1); [injection E as <- <-; exact H1|].
      destruct (recv_msgs c1 now r orcs') as [c2 o2] eqn:E2. injection E as <- <-.
      eapply Rtrans; [exact H1|eapply IH; eassumption].
  Qed.
End RecvMsgsRel.

(* a relation given by equality of one projection *)
Definition keeps {A} (g : conn -> A) (c c' : conn) : Prop := g c' = g c.
Lemma keeps_refl {A} (g : conn -> A) c : keeps g c c. Proof. reflexivity. Qed.
Lemma keeps_trans {A} (g : conn -> A) a b c : keeps g a b -> keeps g b c -> keeps g a c.
Proof. unfold keeps. congruence. Qed.

Lemma recv_handshake_keeps {A} (g : conn -> A) :
  (forall c v, g (c <| c_token := v |>) = g c) -> (forall c v, g (c <| c_key := v |>) = g c) ->
  (forall c v, g (c <| c_status := v |>) = g c) -> (forall c v, g (c <| c_hello_sent := v |>) = g c) ->
  (forall c ty p r k, g (send_type c ty p r k) = g c) ->
  forall c ty o c' os, recv_handshake c ty o = (c', os) -> keeps g c c'.
Proof.
  intros Gt Gk Gs Gh Gsend c ty o c' os E. unfold recv_handshake, keeps in *.
  destruct ty, (c_server c); try (injection E as <- <-; reflexivity).
  - destruct (negb _); [injection E as <- <-; reflexivity|].
    destruct (negb _); injection E as <- <-; [reflexivity|]. rewrite Gsend, Gs, Gk, Gt. reflexivity.
  - destruct (o_parse o =? 6); [injection E as <- <-; apply Gs|].
    destruct (negb _); injection E as <- <-; [reflexivity|]. rewrite Gh, Gs, Gsend, Gk, Gt. reflexivity.
  - destruct (negb _); [injection E as <- <-; reflexivity|].
    destruct (o_temp_token o) as [t|]; [|injection E as <- <-; reflexivity].
    destruct (t =? o_token o); injection E as <- <-; [apply Gs|reflexivity].
Qed.
