(* Utf8P.v — the strict UTF-8 decoder inverts the encoder; encoder output are bytes. *)
From Coq Require Import Lia ZifyBool.
From Model Require Import Base Utf8.
From Proofs Require Import Tac BytesP.
Open Scope Z_scope.
Ltac Zify.zify_post_hook ::= Z.to_euclidean_division_equations.

Definition bytes_ok (l : list Z) : Prop := Forall (fun b => 0 <= b < 256) l.

Ltac brk :=
  repeat match goal with
         | |- context [if ?c then _ else _] => destruct c eqn:?; try lia
         | H : context [if ?c then _ else _] |- _ => destruct c eqn:?; try lia
         end.

Lemma Some_inj : forall A (a b : A), Some a = Some b -> a = b.
Proof. intros A a b H. injection H. auto. Qed.

Ltac okb := unfold bytes_ok; repeat (apply Forall_cons; [cbv beta; lia|]); apply Forall_nil.

Lemma utf8_dec_enc1 : forall c l, utf8_enc1 c = Some l ->
  bytes_ok l /\
  forall r, utf8_dec (l ++ r) = match utf8_dec r with Some s => Some (c :: s) | None => None end.
Proof.
  intros c l H. unfold utf8_enc1 in H.
  destruct (c <? 0) eqn:E0; [discriminate|].
  destruct (c <? 0x80) eqn:E1.
  { apply Some_inj in H; subst l. split; [okb|].
    intro r. cbn [app utf8_dec]. rewrite E1. reflexivity. }
  destruct (c <? 0x800) eqn:E2.
  { apply Some_inj in H; subst l. split; [okb|].
    intro r. cbn [app utf8_dec]. unfold is_cont.
    destruct (utf8_dec r); brk; try reflexivity; f_equal; try (f_equal; lia). }
  destruct (c <? 0x10000) eqn:E3.
  { unfold is_surrogate in H.
    destruct ((0xD800 <=? c) && (c <=? 0xDFFF)) eqn:E4; [discriminate|].
    apply Some_inj in H; subst l. split; [okb|].
    intro r. cbn [app utf8_dec]. unfold is_cont, inr.
    destruct (utf8_dec r); brk; try reflexivity; f_equal; try (f_equal; lia). }
  destruct (c <? 0x110000) eqn:E5; [|discriminate].
  apply Some_inj in H; subst l. split; [okb|].
  intro r. cbn [app utf8_dec]. unfold is_cont, inr.
  destruct (utf8_dec r); brk; try reflexivity; f_equal; try (f_equal; lia).
Qed.

Lemma utf8_dec_enc : forall s l, utf8_enc s = Some l -> bytes_ok l /\ utf8_dec l = Some s.
Proof.
  induction s as [|c s IH]; intros l H; cbn in H.
  - inversion H; subst. split; [constructor | reflexivity].
  - destruct (utf8_enc1 c) as [a|] eqn:Ea; [|discriminate].
    destruct (utf8_enc s) as [b|] eqn:Eb; [|discriminate].
    inversion H; subst; clear H.
    destruct (utf8_dec_enc1 _ _ Ea) as [Ha Hd].
    destruct (IH _ eq_refl) as [Hb Hs].
    split; [apply Forall_app; split; assumption|].
    rewrite Hd, Hs. reflexivity.
Qed.

Lemma map_Z_of_byte_of_Z : forall l, bytes_ok l -> map Z_of_byte (map byte_of_Z l) = l.
Proof.
  induction 1; cbn; [reflexivity|].
  rewrite Z_of_byte_of_Z, IHForall. f_equal. rewrite Z.mod_small; lia.
Qed.

Theorem utf8_roundtrip : forall s bs, utf8_encode s = Some bs -> utf8_decode bs = Some s.
Proof.
  intros s bs H. unfold utf8_encode in H. destruct (utf8_enc s) as [l|] eqn:E; [|discriminate].
  inversion H; subst; clear H. unfold utf8_decode.
  destruct (utf8_dec_enc _ _ E) as [Hb Hd]. rewrite map_Z_of_byte_of_Z by assumption. exact Hd.
Qed.

(* which strings are encodable: exactly the surrogate-free code point lists *)
Lemma utf8_enc1_some : forall c, cp_ok c = true -> is_surrogate c = false -> exists l, utf8_enc1 c = Some l.
Proof.
  intros c H1 H2. unfold utf8_enc1, cp_ok in *. rewrite H2.
  brk; eauto.
Qed.

Theorem utf8_encode_total : forall s,
  Forall (fun c => cp_ok c = true /\ is_surrogate c = false) s -> exists bs, utf8_encode s = Some bs.
Proof.
  intros s H. unfold utf8_encode.
  assert (exists l, utf8_enc s = Some l) as [l ->]; [|eauto].
  induction H as [|c s [H1 H2] _ [l IH]]; cbn; [eauto|].
  destruct (utf8_enc1_some c H1 H2) as [a ->]. rewrite IH. eauto.
Qed.

Theorem utf8_encode_surrogate : forall s c, In c s -> is_surrogate c = true -> utf8_encode s = None.
Proof.
  intros s c Hin Hs. unfold utf8_encode.
  assert (utf8_enc s = None) as ->; [|reflexivity].
  induction s as [|d s IH]; [destruct Hin|].
  cbn. destruct Hin as [->|Hin].
  - assert (utf8_enc1 c = None) as ->; [|reflexivity].
    unfold utf8_enc1. rewrite Hs. unfold is_surrogate in Hs. brk; reflexivity.
  - rewrite (IH Hin). destruct (utf8_enc1 d); reflexivity.
Qed.
