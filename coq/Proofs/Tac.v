(* Tac.v — small shared tactics. *)
Ltac dif := match goal with |- context [if ?c then _ else _] => destruct c eqn:? end.
Ltac split_ifs :=
  repeat match goal with
         | |- context [if ?c then _ else _] => destruct c eqn:?
         end.
