(* DeliverP.v — C05, progress half: what send accepts fits a datagram of its own, the head of the
   queue leaves with the next packet, and a timed-out datagram gives its guaranteed messages back
   to the queue. *)
From Coq Require Import Lia ZifyBool.
From RecordUpdate Require Import RecordUpdate.
From Model Require Import Base SeqNum Wire Conn.
From Proofs Require Import Tac SeqNumP WireP ConnFrameP NonceP PackP ClearP AckP CallbackP CustodyP.
Import RecordSetNotations.
Open Scope Z_scope.

(* the constants Packet.setMTU produces always satisfy this (proved against the regenerated
   kernel in C09/C06); here it is a premise on the environment *)
Definition env_ok (e : env) : Prop := 0 < e_max_frag e /\ e_max_frag e + 6 <= e_max_payload e.

(* ---------- everything send queues fits an empty datagram ---------- *)
Lemma fits_alone e plen : plen <= e_max_payload e -> fits e plen 0 0 = true.
Proof. intros H. unfold fits, overhead. cbn. lia. Qed.

Lemma split_frags_len e fuel : forall p f, env_ok e -> In f (split_frags fuel e p) -> len f + 6 <= e_max_payload e.
Proof.
  intros p f [H1 H2]. revert p. induction fuel as [|n IH]; intros p Hin; cbn [split_frags] in Hin; [destruct Hin|].
  destruct (length p =? 0)%nat; [destruct Hin|].
  destruct (len p <? e_max_payload e - 6) eqn:E.
  - destruct Hin as [<-|[]]. lia.
  - destruct Hin as [<-|Hin]; [|apply (IH _ Hin)].
    unfold len. rewrite firstn_length. lia.
Qed.

Lemma send_type_msgs c ty p r k m : In m (c_outgoing (send_type c ty p r k)) ->
  In m (c_outgoing c) \/ m_payload m = p.
Proof. unfold send_type. cbn. intros H. apply in_app_or in H as [H|[<-|[]]]; [left; exact H|right; reflexivity]. Qed.

Lemma send_frags_msgs e frags : forall c fid n r i m,
  (forall f, In f frags -> len f + 6 <= e_max_payload e) ->
  In m (c_outgoing (send_frags c fid n r i frags)) -> In m (c_outgoing c) \/ len (m_payload m) <= e_max_payload e.
Proof.
  induction frags as [|f rest IH]; intros c fid n r i m Hf Hin; cbn [send_frags] in Hin; [left; exact Hin|].
  destruct (IH _ _ _ _ _ _ (fun g Hg => Hf g (or_intror Hg)) Hin) as [H|H]; [|right; exact H].
  apply send_type_msgs in H as [H|H]; [left; exact H|right]. rewrite H.
  pose proof (Hf f (or_introl eq_refl)). unfold len in *. rewrite !app_length, !be_length. lia.
Qed.

Definition all_fit (e : env) (c : conn) : Prop :=
  forall m, In m (c_outgoing c) -> fits e (len (m_payload m)) 0 0 = true.

(* whatever send appends to the queue fits a datagram of its own — for every payload length from 0
   to the fragmentation limit *)
Theorem send_all_fit e c p r k c' o : env_ok e -> all_fit e c -> send e c p r k = (c', o) -> all_fit e c'.
Proof.
  intros He Hall E. unfold send in E. destruct (negb _); [injection E as <- <-; exact Hall|].
  destruct (len p >? e_max_payload e) eqn:Eg.
  - destruct (len p >? e_max_frag e * e_max_frags e); injection E as <- <-; [exact Hall|].
    intros m Hm.
    set (frags := split_frags (S (length p)) e p) in *.
    set (c0 := c <| c_seq_frag := seq_succ (c_seq_frag c) |>) in *.
    assert (Hm' : In m (c_outgoing (send_frags c0 (seq_succ (c_seq_frag c)) (len frags) r 0 frags))) by exact Hm.
    assert (Hfr : forall f, In f frags -> len f + 6 <= e_max_payload e) by (intros f Hf; eapply split_frags_len; eassumption).
    destruct (send_frags_msgs e frags c0 _ _ _ _ m Hfr Hm') as [H|H].
    + apply Hall. exact H.
    + apply fits_alone. exact H.
  - injection E as <- <-. intros m Hm. apply send_type_msgs in Hm as [Hm|Hm]; [apply Hall; exact Hm|].
    apply fits_alone. rewrite Hm. lia.
Qed.

(* ---------- the head of the queue leaves with the next packet ---------- *)
Lemma out_pass_prefix e q : forall msgs cur rem msgs' cur',
  out_pass e q msgs cur = (rem, msgs', cur') -> exists ch, msgs' = msgs ++ ch.
Proof.
  induction q as [|m q IH]; intros msgs cur rem msgs' cur' E; cbn [out_pass] in E.
  - injection E as <- <- <-. exists []. rewrite app_nil_r. reflexivity.
  - destruct (fits _ _ _ _).
    + destruct (IH _ _ _ _ _ E) as (ch & ->). exists (m :: ch). rewrite <- app_assoc. reflexivity.
    + destruct (out_pass e q msgs cur) as [[rem0 ms0] cu0] eqn:E0. injection E as <- <- <-. eapply IH. exact E0.
Qed.

Theorem queue_head_leaves e c now m q c' r :
  NU c -> c_pretry_msg c = [] -> c_outgoing c = m :: q -> fits e (len (m_payload m)) 0 0 = true ->
  c_send_interval c <= now - c_last_send c ->
  build_packet e c now = (c', r) ->
  exists h ms, r = Some (h, stamp now m :: ms).
Proof.
  intros HN Hp Ho Hf Hg E. unfold build_packet in E.
  assert (now - c_last_send c <? c_send_interval c = false) as Hr by lia. rewrite Hr in E.
  destruct (build_impl e c now _ _) as [c1 r1] eqn:E1.
  unfold build_impl in E1. rewrite Hp, Ho in E1. cbn [out_pass] in E1.
  assert (Hf' : fits e (len (m_payload m)) (len (@nil pmsg)) 0 = true) by exact Hf. rewrite Hf' in E1.
  destruct (out_pass e q ([] ++ [m]) (0 + len (m_payload m))) as [[rem msgs] cu] eqn:E2.
  destruct (out_pass_prefix _ _ _ _ _ _ _ E2) as (ch & ->). cbn [app] in E1.
  assert (Hu : m_type m <> UNKNOWN).
  { destruct HN as [A _ _]. rewrite Ho in A. inversion A as [|? ? [H _] _]; subst. exact H. }
  cbn [map] in E1.
  destruct (ptype_eqb (m_type m) UNKNOWN) eqn:Ht; [exfalso; destruct (m_type m); try discriminate; apply Hu; reflexivity|].
  injection E1 as <- <-. injection E as <- <-. eexists. eexists. reflexivity.
Qed.

(* ---------- a guaranteed message never sits in a datagram older than the message time-out ---------- *)
Theorem custody_is_fresh e S Ka K c n now c' o :
  rid_of K <> -1 -> NU c -> AInv S Ka c n -> Custody K c ->
  c_send_interval c < now - c_last_send c -> server_tick e c now = (c', o) ->
  is_done K c' \/ queued K c' \/
  exists s ks t, dget s (c_pcbs c') = Some ks /\ In K ks /\ In (s, t) (c_packs c') /\ now - t <= c_out_timeout c.
Proof.
  intros Hr HN HA HC Hg E.
  assert (HW : W S Ka c) by (split; [exact HN|exists n; exact HA]).
  destruct (step_Custody e S Ka K c (EServerTick now) c' o Hr I HW HC E) as [_ [H|[H|(s & ks & H1 & H2 & H3)]]]; auto.
  right. right. apply in_map_iff in H3 as ([s' t] & Hs & Hin). cbn in Hs. subst s'.
  exists s, ks, t. repeat split; auto. eapply server_tick_deadline; eassumption.
Qed.
