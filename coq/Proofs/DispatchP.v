(* DispatchP.v — lemmas about Model/Dispatch.v: association-list facts, the key-uniqueness
   invariant over arbitrary operation sequences, characterisation of register / unregister. *)
From Coq Require Import Lia ZifyBool.
From Model Require Import Base Dispatch.
From Proofs Require Import Tac.
Open Scope Z_scope.

(* ---------------------------------------------------------------- names *)

Lemma name_eqb_eq : forall a b, name_eqb a b = true <-> a = b.
Proof.
  induction a as [|x a IH]; destruct b as [|y b]; simpl; split; intro H; try reflexivity; try discriminate.
  - apply andb_true_iff in H. destruct H as [H1 H2]. apply Byte.byte_dec_bl in H1. apply IH in H2. congruence.
  - inversion H; subst. apply andb_true_iff. split; [apply Byte.byte_dec_lb; reflexivity | apply IH; reflexivity].
Qed.

Lemma name_eqb_refl : forall a, name_eqb a a = true.
Proof. intro a. apply name_eqb_eq. reflexivity. Qed.

Lemma name_eqb_neq : forall a b, name_eqb a b = false <-> a <> b.
Proof.
  intros a b. split; intro H.
  - intro E. apply name_eqb_eq in E. congruence.
  - destruct (name_eqb a b) eqn:E; [apply name_eqb_eq in E; contradiction | reflexivity].
Qed.

Lemma name_eqb_sym : forall a b, name_eqb a b = name_eqb b a.
Proof.
  intros a b. destruct (name_eqb a b) eqn:E.
  - apply name_eqb_eq in E. subst. symmetry. apply name_eqb_refl.
  - apply name_eqb_neq in E. symmetry. apply name_eqb_neq. congruence.
Qed.

(* ---------------------------------------------------------------- tables *)

Definition keys (t : table) : list name := map fst t.
Definition wf (t : table) : Prop := NoDup (keys t).

Lemma has_In : forall t n, has t n = true <-> In n (keys t).
Proof.
  induction t as [|[m h] t IH]; simpl; intro n.
  - split; [discriminate | tauto].
  - rewrite orb_true_iff, IH, name_eqb_eq. tauto.
Qed.

Lemma has_false : forall t n, has t n = false <-> ~ In n (keys t).
Proof.
  intros t n. rewrite <- has_In. destruct (has t n); split; intro H.
  - discriminate.
  - exfalso; apply H; reflexivity.
  - intro; discriminate.
  - reflexivity.
Qed.

Lemma lookup_In : forall t n h, lookup t n = Some h -> In (n, h) t.
Proof.
  unfold lookup. induction t as [|[m g] t IH]; simpl; intros n h H; [discriminate|].
  destruct (name_eqb m n) eqn:E.
  - apply name_eqb_eq in E. inversion H; subst. left; reflexivity.
  - right. apply IH. exact H.
Qed.

Lemma lookup_has : forall t n, has t n = match lookup t n with Some _ => true | None => false end.
Proof.
  unfold lookup. induction t as [|[m g] t IH]; simpl; intro n; [reflexivity|].
  destruct (name_eqb m n); simpl; [reflexivity | apply IH].
Qed.

Lemma lookup_None : forall t n, lookup t n = None <-> ~ In n (keys t).
Proof.
  intros t n. rewrite <- has_false, lookup_has. destruct (lookup t n); split; intro; try reflexivity; discriminate.
Qed.

Lemma In_keys : forall (t : table) n h, In (n, h) t -> In n (keys t).
Proof. intros t n h H. apply (in_map fst) in H. exact H. Qed.

Lemma In_lookup : forall t n h, wf t -> In (n, h) t -> lookup t n = Some h.
Proof.
  unfold lookup, wf. induction t as [|[m g] t IH]; simpl; intros n h W H; [contradiction|].
  inversion W as [|? ? Hn Ht]; subst.
  destruct H as [H | H].
  - inversion H; subst. rewrite name_eqb_refl. reflexivity.
  - destruct (name_eqb m n) eqn:E.
    + apply name_eqb_eq in E. subst. exfalso. apply Hn. eapply In_keys; eauto.
    + apply IH; assumption.
Qed.

Lemma wf_unique : forall t n h h', wf t -> In (n, h) t -> In (n, h') t -> h = h'.
Proof.
  intros t n h h' W H1 H2. apply (In_lookup _ _ _ W) in H1. apply (In_lookup _ _ _ W) in H2. congruence.
Qed.

Lemma keys_app : forall a b, keys (a ++ b) = keys a ++ keys b.
Proof. intros. unfold keys. apply map_app. Qed.

Lemma lookup_app : forall a b n,
  lookup (a ++ b) n = match lookup a n with Some h => Some h | None => lookup b n end.
Proof.
  unfold lookup. induction a as [|[m g] a IH]; simpl; intros b n; [destruct (find _ b); reflexivity|].
  destruct (name_eqb m n); simpl; [reflexivity | apply IH].
Qed.

Lemma keys_remove : forall t n, keys (remove t n) = filter (fun m => negb (name_eqb m n)) (keys t).
Proof.
  induction t as [|[m g] t IH]; simpl; intro n; [reflexivity|].
  destruct (name_eqb m n); simpl; rewrite IH; reflexivity.
Qed.

Lemma lookup_remove_same : forall t n, lookup (remove t n) n = None.
Proof.
  intros t n. apply lookup_None. rewrite keys_remove. intro H. apply filter_In in H.
  rewrite name_eqb_refl in H. destruct H; discriminate.
Qed.

Lemma lookup_remove_other : forall t n m, m <> n -> lookup (remove t n) m = lookup t m.
Proof.
  unfold lookup. induction t as [|[x g] t IH]; simpl; intros n m H; [reflexivity|].
  destruct (name_eqb x n) eqn:E; simpl.
  - apply name_eqb_eq in E. subst x.
    assert (name_eqb n m = false) as -> by (apply name_eqb_neq; congruence). apply IH; assumption.
  - destruct (name_eqb x m); [reflexivity | apply IH; assumption].
Qed.

Lemma NoDup_filter : forall (A : Type) (f : A -> bool) l, NoDup l -> NoDup (filter f l).
Proof.
  induction l as [|x l IH]; simpl; intro H; [constructor|].
  inversion H; subst. destruct (f x); [constructor|]; auto.
  intro K. apply filter_In in K. tauto.
Qed.

Lemma wf_remove : forall t n, wf t -> wf (remove t n).
Proof. unfold wf. intros. rewrite keys_remove. apply NoDup_filter. assumption. Qed.

Lemma wf_snoc : forall t n h, wf t -> has t n = false -> wf (t ++ [(n, h)]).
Proof.
  unfold wf. intros t n h W H. rewrite keys_app. simpl.
  apply has_false in H. revert W H. generalize (keys t). induction l as [|x l IH]; simpl; intros W H.
  - constructor; [tauto | constructor].
  - inversion W; subst. constructor.
    + rewrite in_app_iff. simpl. intros [K | [K | []]]; [tauto | subst; tauto].
    + apply IH; tauto.
Qed.

Lemma remove_absent : forall t n, has t n = false -> remove t n = t.
Proof.
  induction t as [|[m g] t IH]; simpl; intros n H; [reflexivity|].
  apply orb_false_iff in H. destruct H as [H1 H2]. rewrite H1. simpl. f_equal. apply IH. exact H2.
Qed.

(* ---------------------------------------------------------------- register *)

Definition ename (m : method) : name := ev_name (m_ann m).
Definition entry (m : method) : name * handler := (ename m, m_h m).
Definition names (r : resource) : list name := map ename r.

(* register never touches what is already in the table: it only appends *)
Lemma register_extends : forall r t t' x, register t r = (t', x) ->
  exists n, t' = t ++ map entry (firstn n r).
Proof.
  induction r as [|m r IH]; simpl; intros t t' x H.
  - inversion H; subst. exists 0%nat. simpl. rewrite app_nil_r. reflexivity.
  - unfold register_function in H. destruct (has t (ev_name (m_ann m))) eqn:E.
    + inversion H; subst. exists 0%nat. simpl. rewrite app_nil_r. reflexivity.
    + apply IH in H. destruct H as [n H]. exists (S n). simpl. rewrite H, <- app_assoc. reflexivity.
Qed.

Lemma register_err_kind : forall r t t' e, register t r = (t', Err e) -> e = EOther.
Proof.
  induction r as [|m r IH]; simpl; intros t t' e H; [discriminate|].
  unfold register_function in H. destruct (has t (ev_name (m_ann m))); [congruence | eauto].
Qed.

(* success characterised: the names of r are pairwise distinct and none has a handler yet *)
Lemma register_ok_iff : forall r t,
  (exists t', register t r = (t', Ok tt)) <-> (NoDup (names r) /\ forall n, In n (names r) -> ~ In n (keys t)).
Proof.
  induction r as [|m r IH]; simpl; intro t.
  - split; [intros _; split; [constructor | tauto] | intros _; eexists; reflexivity].
  - unfold register_function. fold (ename m). destruct (has t (ename m)) eqn:E.
    + split.
      * intros [t' H]. discriminate.
      * intros [_ H]. exfalso. apply (H (ename m)); [left; reflexivity | apply has_In; exact E].
    + rewrite IH. rewrite keys_app. simpl. apply has_false in E. split.
      * intros [ND H]. split.
        -- constructor; [|exact ND]. intro K. apply (H _ K). rewrite in_app_iff. simpl. tauto.
        -- intros n [K | K] Q; [subst; tauto|]. apply (H _ K). rewrite in_app_iff. tauto.
      * intros [ND H]. inversion ND; subst. split; [assumption|].
        intros n K Q. rewrite in_app_iff in Q. simpl in Q. destruct Q as [Q | [Q | []]].
        -- apply (H n); tauto.
        -- subst. tauto.
Qed.

Lemma register_ok_table : forall r t t', register t r = (t', Ok tt) -> t' = t ++ map entry r.
Proof.
  induction r as [|m r IH]; simpl; intros t t' H.
  - inversion H. rewrite app_nil_r. reflexivity.
  - unfold register_function in H. destruct (has t (ev_name (m_ann m))); [discriminate|].
    apply IH in H. rewrite H, <- app_assoc. reflexivity.
Qed.

Lemma wf_register : forall r t t' x, wf t -> register t r = (t', x) -> wf t'.
Proof.
  induction r as [|m r IH]; simpl; intros t t' x W H.
  - inversion H; subst; assumption.
  - unfold register_function in H. destruct (has t (ev_name (m_ann m))) eqn:E.
    + inversion H; subst; assumption.
    + eapply IH; [|exact H]. apply wf_snoc; assumption.
Qed.

(* ---------------------------------------------------------------- unregister *)

Definition mem (n : name) (l : list name) : bool := existsb (fun m => name_eqb m n) l.

Lemma mem_In : forall l n, mem n l = true <-> In n l.
Proof.
  induction l as [|x l IH]; simpl; intro n; [split; [discriminate | tauto]|].
  rewrite orb_true_iff, IH, name_eqb_eq. tauto.
Qed.

Definition without (t : table) (ns : list name) : table := filter (fun e => negb (mem (fst e) ns)) t.

Lemma remove_without : forall t n ns, without (remove t n) ns = without t (n :: ns).
Proof.
  induction t as [|[m g] t IH]; intros n ns; [reflexivity|].
  unfold without in *. simpl. rewrite (name_eqb_sym n m).
  destruct (name_eqb m n) eqn:E; simpl.
  - apply IH.
  - destruct (mem m ns); simpl; rewrite IH; reflexivity.
Qed.

(* unregister never raises and removes exactly the entries named by the resource *)
Lemma unregister_spec : forall r t, unregister t r = (without t (names r), Ok tt).
Proof.
  induction r as [|m r IH]; simpl; intro t.
  - f_equal. unfold without. simpl. induction t as [|e t IHt]; simpl; [reflexivity | f_equal; exact IHt].
  - unfold unregister_function. simpl. fold (ename m).
    destruct (has t (ename m)) eqn:E.
    + rewrite IH. rewrite remove_without. reflexivity.
    + rewrite IH. rewrite <- remove_without. rewrite remove_absent by exact E. reflexivity.
Qed.

Lemma keys_without : forall t ns, keys (without t ns) = filter (fun m => negb (mem m ns)) (keys t).
Proof.
  induction t as [|[m g] t IH]; simpl; intro ns; [reflexivity|].
  destruct (mem m ns); simpl; rewrite IH; reflexivity.
Qed.

Lemma lookup_without_in : forall t ns n, In n ns -> lookup (without t ns) n = None.
Proof.
  intros t ns n H. apply lookup_None. rewrite keys_without. intro K. apply filter_In in K.
  destruct K as [_ K]. apply mem_In in H. rewrite H in K. discriminate.
Qed.

Lemma lookup_without_out : forall t ns n, ~ In n ns -> lookup (without t ns) n = lookup t n.
Proof.
  unfold lookup. induction t as [|[m g] t IH]; simpl; intros ns n H; [reflexivity|].
  destruct (mem m ns) eqn:E; simpl.
  - apply mem_In in E. assert (name_eqb m n = false) as -> by (apply name_eqb_neq; congruence).
    apply IH; assumption.
  - destruct (name_eqb m n); [reflexivity | apply IH; assumption].
Qed.

Lemma wf_without : forall t ns, wf t -> wf (without t ns).
Proof. unfold wf. intros. rewrite keys_without. apply NoDup_filter. assumption. Qed.

Lemma without_app : forall a b ns, without (a ++ b) ns = without a ns ++ without b ns.
Proof. intros. unfold without. apply filter_app. Qed.

Lemma without_disjoint : forall t ns, (forall n, In n ns -> ~ In n (keys t)) -> without t ns = t.
Proof.
  induction t as [|[m g] t IH]; simpl; intros ns H; [reflexivity|].
  destruct (mem m ns) eqn:E.
  - apply mem_In in E. exfalso. apply (H m E). left; reflexivity.
  - simpl. f_equal. apply IH. intros n K Q. apply (H n K). right; exact Q.
Qed.

Lemma without_all : forall r ns, (forall m, In m r -> In (ename m) ns) -> without (map entry r) ns = [].
Proof.
  induction r as [|m r IH]; simpl; intros ns H; [reflexivity|].
  assert (mem (ename m) ns = true) as -> by (apply mem_In; apply H; left; reflexivity).
  simpl. apply IH. intros x K. apply H. right; exact K.
Qed.

Lemma without_own : forall r, without (map entry r) (names r) = [].
Proof. intro r. apply without_all. intros m H. unfold names. apply in_map. exact H. Qed.

(* ---------------------------------------------------------------- invariant over histories *)

Lemma wf_step : forall A k t (o : op A), wf t -> wf (fst (step k t o)).
Proof.
  intros A k t o W. destruct o; simpl.
  - destruct (register t r) eqn:E. simpl. eapply wf_register; eauto.
  - rewrite unregister_spec. simpl. apply wf_without; assumption.
  - unfold register_function. destruct (has t (ev_name a)) eqn:E; simpl; [assumption | apply wf_snoc; assumption].
  - unfold unregister_function. destruct (has t (ev_name a)); simpl; [apply wf_remove|]; assumption.
  - assumption.
Qed.

Lemma wf_run : forall A k (ops : list (op A)) t, wf t -> wf (fst (run k t ops)).
Proof.
  induction ops as [|o ops IH]; simpl; intros t W; [assumption|].
  pose proof (wf_step A k t o W) as W1. destruct (step k t o) as [t1 x]. simpl in W1.
  specialize (IH t1 W1). destruct (run k t1 ops). simpl in *. assumption.
Qed.

Lemma wf_table_of : forall A k (ops : list (op A)), wf (table_of k ops).
Proof. intros. unfold table_of. apply wf_run. constructor. Qed.
