(* C08P.v — proofs of the C08 statements (kept out of Properties/C08.v). *)
From Coq Require Import Lia ZifyBool.
From Model Require Import Base SeqNum.
From Gen Require Import Kernels.
From Proofs Require Import Tac KernelsP SeqNumP.
Open Scope Z_scope.
Ltac Zify.zify_post_hook ::= Z.to_euclidean_division_equations.

Lemma C08_succ_ring_proof : forall a, 0 <= a <= 65535 ->
  exists r, gen_add a 1 = Ok r /\ 1 <= r <= 65535 /\ (a < 65535 -> r = a + 1) /\ (a = 65535 -> r = 1).
Proof.
  intros a Ha. rewrite gen_add_spec.
  exists (seq_succ a). unfold seq_add. fold (seq_succ a).
  pose proof (seq_succ_range a) as Hr. unfold RING in Hr. specialize (Hr Ha).
  split.
  - unfold seq_new, RING. dif; [lia|]. dif; [lia|]. reflexivity.
  - split; [exact Hr|]. split.
    + intros. apply seq_succ_plain. unfold RING. lia.
    + intros. subst a. reflexivity.
Qed.

Lemma C08_succ_iter_proof : forall n, 1 <= n -> gen_add (wire n) 1 = Ok (wire (n + 1)).
Proof. intros. rewrite gen_add_spec. apply seq_add_wire; unfold RING; lia. Qed.

Lemma C08_diff_exact_proof : forall a k, 1 <= a <= 65535 -> 1 <= k <= 32767 ->
  exists b, gen_add a k = Ok b /\ gen_diff b a = k /\ gen_diff a b = - k
    /\ gen_newer_than b a = Ok true /\ gen_newer_than a b = Ok false
    /\ gen_lt a b = Ok true /\ gen_gt b a = Ok true /\ gen_lt b a = Ok false /\ gen_gt a b = Ok false.
Proof.
  intros a k Ha Hk.
  destruct (seq_diff_exact a k) as [b H]; [unfold RING; lia|unfold HALF; lia|].
  exists b. rewrite gen_add_spec, !gen_diff_spec, !gen_newer_spec, !gen_lt_spec, !gen_gt_spec.
  destruct H as (H1 & H2 & H3 & H4 & H5 & H6 & H7 & H8 & H9).
  rewrite H1, H2, H3, H4, H5, H6, H7, H8, H9. repeat split.
Qed.

Lemma C08_window_exact_proof : forall nb n0 h, 1 <= nb -> 1 <= n0 -> half_range n0 h ->
  gen_hist nb 0 0 (n0 :: h) = false :: spec_hist nb n0 [n0] h.
Proof. intros. rewrite gen_hist_spec. apply bf_refines; assumption. Qed.

Lemma final_state nb n0 h : 1 <= nb -> 1 <= n0 -> half_range n0 h ->
  let f := impl_state (bf_new nb) (n0 :: h) in
  bf_nbits f = nb /\
  R f (fold_left Z.max h n0) (snd (spec_state nb n0 [n0] h)).
Proof.
  intros Hnb Hn0 Hh. cbn [impl_state].
  destruct (R_first nb n0 Hnb Hn0) as [Hi HR]. rewrite Hi.
  pose proof (state_refines h _ n0 [n0] HR Hh) as Hs. cbn [bf_nbits] in Hs.
  pose proof (spec_state_max nb h n0 [n0]) as Hmax.
  destruct (spec_state nb n0 [n0] h) as [m' acc']. cbn [fst snd] in *. subst m'.
  destruct Hs as [Hs1 Hs2]. split; assumption.
Qed.

Lemma C08_contains_exact_proof : forall nb n0 h n, 1 <= nb -> 1 <= n0 -> half_range n0 h ->
  let m := fold_left Z.max h n0 in
  1 <= n -> Z.abs (n - m) <= HALF ->
  let '(bits, cur) := gen_state nb 0 0 (n0 :: h) in
  gen_contains nb bits cur (wire n) = Ok (InB n (n0 :: h) && (n <=? m) && (m - n <=? nb)).
Proof.
  intros nb n0 h n Hnb Hn0 Hh m Hn Hab.
  rewrite gen_state_spec. cbv zeta. fold (bf_new nb).
  destruct (final_state nb n0 h Hnb Hn0 Hh) as [Hnbf HR].
  set (f := impl_state (bf_new nb) (n0 :: h)) in *.
  rewrite gen_contains_spec. f_equal.
  replace {| bf_nbits := nb; bf_bits := bf_bits f; bf_cur := bf_cur f |} with f
    by (destruct f; cbn in *; subst; reflexivity).
  rewrite (R_contains f _ _ n HR Hn Hab). rewrite Hnbf.
  unfold spec_dup. change (existsb (Z.eqb n) ?l) with (InB n l).
  rewrite spec_state_mem. rewrite (InB_cons n n0 h).
  unfold InB at 1. cbn [existsb]. rewrite orb_false_r. reflexivity.
Qed.

Lemma C08_ack_fields_exact_proof : forall n0 h n, 1 <= n0 -> half_range n0 h ->
  let m := fold_left Z.max h n0 in
  1 <= n -> Z.abs (n - m) <= HALF ->
  let '(bits, cur) := gen_state 32 0 0 (n0 :: h) in
  hdr_acks cur bits (wire n) = InB n (n0 :: h) && (n <=? m) && (m - n <=? 32).
Proof.
  intros n0 h n Hn0 Hh m Hn Hab.
  pose proof (C08_contains_exact_proof 32 n0 h n ltac:(lia) Hn0 Hh Hn Hab) as Hc.
  fold m in Hc. destruct (gen_state 32 0 0 (n0 :: h)) as [bits cur].
  rewrite hdr_acks_contains. rewrite gen_contains_spec in Hc. injection Hc as Hc. exact Hc.
Qed.
