(* Base64P.v — facts about the modelled encoder Model/Base64.v (b64e): its output uses only the 64
   alphabet characters and '=', so it contains no ':' and is ASCII; its length; and the reference
   decoder b64d_strict inverts it, fails with ValueError only and decodes 4*ceil(n/3) characters to n
   bytes (so that the hypotheses made about Python's decoder are jointly satisfiable). *)
From Coq Require Import Lia ZifyBool PeanoNat NArith Nnat.
From Model Require Import Base Base64.
Ltac Zify.zify_post_hook ::= Z.to_euclidean_division_equations.

Lemma list_ind3 (P : list byte -> Prop) :
  P [] -> (forall a, P [a]) -> (forall a b, P [a; b]) ->
  (forall a b c r, P r -> P (a :: b :: c :: r)) -> forall l, P l.
Proof.
  intros H0 H1 H2 H3. fix IH 1. intros [|a [|b [|c r]]]; [apply H0|apply H1|apply H2|apply H3; apply IH].
Qed.

Lemma list_ind4 (P : list byte -> Prop) :
  P [] -> (forall a, P [a]) -> (forall a b, P [a; b]) -> (forall a b c, P [a; b; c]) ->
  (forall a b c d r, P r -> P (a :: b :: c :: d :: r)) -> forall l, P l.
Proof.
  intros H0 H1 H2 H3 H4. fix IH 1. intros [|a [|b [|c [|d r]]]]; [apply H0|apply H1|apply H2|apply H3|apply H4; apply IH].
Qed.

(* ---- characters of the encoding *)
Lemma b64c_in : forall n, In (b64c n) b64_alphabet.
Proof.
  intro n. unfold b64c. destruct (Nat.lt_ge_cases (N.to_nat n) (length b64_alphabet)) as [H|H].
  - apply nth_In; exact H.
  - rewrite nth_overflow by exact H. left; reflexivity.
Qed.

Definition b64_char (c : byte) : Prop := In c (b64_pad :: b64_alphabet).

Lemma b64e_chars : forall x, Forall b64_char (b64e x).
Proof.
  assert (HC : forall n, b64_char (b64c n)) by (intro n; right; apply b64c_in).
  assert (HP : b64_char b64_pad) by (left; reflexivity).
  induction x as [|a|a b|a b c r IH] using list_ind3; cbn [b64e]; cbv zeta.
  - constructor.
  - repeat (apply Forall_cons; [first [apply HC | apply HP]|]). constructor.
  - repeat (apply Forall_cons; [first [apply HC | apply HP]|]). constructor.
  - repeat (apply Forall_cons; [apply HC|]). exact IH.
Qed.

Lemma b64_char_not_colon : forall c, b64_char c -> c <> ":"%byte.
Proof.
  intros c H E. subst c. unfold b64_char in H. cbv in H.
  repeat (destruct H as [H|H]; [discriminate H|]). exact H.
Qed.

Lemma b64_char_ascii : forall c, b64_char c -> (Byte.to_N c < 128)%N.
Proof.
  intros c H. unfold b64_char in H. cbv [In b64_pad b64_alphabet] in H.
  repeat (destruct H as [H|H]; [subst c; vm_compute; reflexivity|]). destruct H.
Qed.

Lemma b64e_no_colon : forall x, ~ In ":"%byte (b64e x).
Proof.
  intros x H. pose proof (b64e_chars x) as F. rewrite Forall_forall in F.
  exact (b64_char_not_colon _ (F _ H) eq_refl).
Qed.

Lemma div3_step : forall r : nat, ((S (S (S r)) + 2) / 3 = 1 + (r + 2) / 3)%nat.
Proof.
  intro r. replace (S (S (S r)) + 2)%nat with (1 * 3 + (r + 2))%nat by lia.
  rewrite Nat.div_add_l by lia. reflexivity.
Qed.

Lemma b64e_length : forall x, length (b64e x) = (4 * ((length x + 2) / 3))%nat.
Proof.
  induction x as [|a|a b|a b c r IH] using list_ind3; cbn [b64e length]; try reflexivity.
  rewrite IH, div3_step. lia.
Qed.

Lemma div3_lt : forall a b : nat, ((a + 2) / 3 < (b + 2) / 3)%nat -> (a < b)%nat.
Proof.
  intros a b H. destruct (Nat.lt_ge_cases a b) as [|G]; auto. exfalso.
  assert ((b + 2) / 3 <= (a + 2) / 3)%nat by (apply Nat.div_le_mono; lia). lia.
Qed.

(* ---- the reference decoder *)
Lemma b64i_b64c_nat : forall k, (k < 64)%nat ->
  b64i (b64c (N.of_nat k)) = Some (N.of_nat k) /\ Byte.eqb (b64c (N.of_nat k)) b64_pad = false.
Proof.
  intros k H. do 64 (destruct k as [|k]; [vm_compute; split; reflexivity|]). lia.
Qed.

Lemma b64i_b64c : forall n, (n < 64)%N -> b64i (b64c n) = Some n.
Proof.
  intros n H. rewrite <- (N2Nat.id n). apply b64i_b64c_nat. lia.
Qed.

Lemma b64c_not_pad : forall n, (n < 64)%N -> Byte.eqb (b64c n) b64_pad = false.
Proof.
  intros n H. rewrite <- (N2Nat.id n). apply b64i_b64c_nat. lia.
Qed.

Lemma byte_of_to_N : forall a n, n = Byte.to_N a -> byte_of_N n = a.
Proof.
  intros a n ->. unfold byte_of_N. pose proof (Byte.to_N_bounded a).
  rewrite N.mod_small by lia. rewrite Byte.of_to_N. reflexivity.
Qed.

Lemma b64d_strict_roundtrip : forall x, b64d_strict (b64e x) = Ok x.
Proof.
  induction x as [|a|a b|a b c r IH] using list_ind3.
  - reflexivity.
  - pose proof (Byte.to_N_bounded a). cbn [b64e b64d_strict].
    rewrite !b64i_b64c by lia. change (Byte.eqb b64_pad b64_pad) with true. cbv iota.
    f_equal. f_equal. apply byte_of_to_N. lia.
  - pose proof (Byte.to_N_bounded a). pose proof (Byte.to_N_bounded b). cbn [b64e b64d_strict].
    rewrite !b64i_b64c by lia. change (Byte.eqb b64_pad b64_pad) with true. cbv iota.
    rewrite b64c_not_pad by lia. f_equal. f_equal; [|f_equal]; apply byte_of_to_N; lia.
  - pose proof (Byte.to_N_bounded a). pose proof (Byte.to_N_bounded b). pose proof (Byte.to_N_bounded c).
    cbn [b64e]. cbv zeta. cbn [b64d_strict].
    rewrite !b64i_b64c by lia. rewrite (b64c_not_pad (Byte.to_N c mod 64)) by lia.
    rewrite IH. f_equal. f_equal; [|f_equal; [|f_equal]]; apply byte_of_to_N; lia.
Qed.

Lemma b64d_strict_err : forall l e, b64d_strict l = Err e -> e = EValue.
Proof.
  induction l as [|a|a b|a b c|a b c d r IH] using list_ind4; intros e H; cbn [b64d_strict] in H;
    try congruence.
  destruct (b64i a); [|congruence]. destruct (b64i b); [|congruence].
  destruct (Byte.eqb d b64_pad).
  - destruct r; [|congruence]. destruct (Byte.eqb c b64_pad); [congruence|].
    destruct (b64i c); congruence.
  - destruct (b64i c); [|congruence]. destruct (b64i d); [|congruence].
    destruct (b64d_strict r) eqn:E; [congruence|]. inversion H; subst. eapply IH; reflexivity.
Qed.

Lemma b64d_strict_length : forall l y, b64d_strict l = Ok y -> length l = (4 * ((length y + 2) / 3))%nat.
Proof.
  induction l as [|a|a b|a b c|a b c d r IH] using list_ind4; intros y H; cbn [b64d_strict] in H;
    try congruence.
  - inversion H; reflexivity.
  - destruct (b64i a); [|congruence]. destruct (b64i b); [|congruence].
    destruct (Byte.eqb d b64_pad).
    + destruct r; [|congruence]. destruct (Byte.eqb c b64_pad).
      * inversion H; reflexivity.
      * destruct (b64i c); [|congruence]. inversion H; reflexivity.
    + destruct (b64i c); [|congruence]. destruct (b64i d); [|congruence].
      destruct (b64d_strict r) eqn:E; [|congruence]. inversion H; subst.
      cbn [length]. rewrite (IH _ eq_refl), div3_step. lia.
Qed.

Lemma b64d_strict_prefix : forall x m y,
  (m < length (b64e x))%nat -> b64d_strict (firstn m (b64e x)) = Ok y -> (length y < length x)%nat.
Proof.
  intros x m y Hm H. apply b64d_strict_length in H.
  rewrite firstn_length_le in H by lia. rewrite b64e_length in Hm.
  apply div3_lt. lia.
Qed.
