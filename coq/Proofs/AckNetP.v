(* AckNetP.v — C07, "a send callback reports success only after the peer endpoint has accepted
   the datagram", as ONE theorem over joint histories of two endpoints (Model/Net2.v).  Composes
   CallbackP.step_true (the sender reports success only for a pending datagram named by an
   authentic header), AckP.AInv (pending sequence numbers are recent indices), AckNamesP / C08's
   window refinement R (the ack fields an endpoint emits name indices it has accepted) and
   NonceP.step_built (every packet assembly consumes exactly one sequence number). *)
From Coq Require Import Lia ZifyBool.
From RecordUpdate Require Import RecordUpdate.
From Model Require Import Base SeqNum Wire Conn Net Net2.
From Proofs Require Import Tac SeqNumP ConnFrameP NonceP PackP ClearP AckP CallbackP CustodyP AckNamesP.
Import RecordSetNotations.
Open Scope Z_scope.
Ltac Zify.zify_post_hook ::= Z.to_euclidean_division_equations.

(* Net2's window ghost is AckNamesP's *)
Lemma idx_add_eq : idx_add = ghost_add. Proof. reflexivity. Qed.
Lemma idx_acc_eq : idx_acc = accepted_idx. Proof. reflexivity. Qed.
Lemma idx_near_eq : idx_near = near. Proof. reflexivity. Qed.

(* ---------- ring arithmetic ---------- *)

(* an ack header built at newest index m names sequence number wire i: if i is not more than
   RING - 33 ahead of m and less than RING behind it, then i is one of m-32..m *)
Lemma seq_diff_exact_idx m i dd :
  seq_diff (wire m) (wire i) = dd -> 0 <= dd <= 32 -> - (RING - 32) < m - i < RING -> m - i = dd.
Proof. unfold seq_diff, wire, RING, HALF. cbv zeta. intros H Hd Hr. revert H. dif; [lia|]. dif; lia. Qed.

Lemma hdr_acks_idx m bits i :
  hdr_acks (wire m) bits (wire i) = true -> - (RING - 32) < m - i < RING -> 0 <= m - i <= 32.
Proof.
  unfold hdr_acks. cbv zeta. intros H Hr.
  remember (seq_diff (wire m) (wire i)) as dd eqn:Ed. symmetry in Ed.
  assert (Hd : 0 <= dd <= 32) by lia.
  rewrite (seq_diff_exact_idx m i dd Ed Hd Hr). exact Hd.
Qed.

(* a header built before anything was accepted: ack = 0, ack_bits = 0 *)
Lemma hdr_acks_zero s : 1 <= s < RING -> hdr_acks 0 0 s = false.
Proof.
  intros Hs. unfold hdr_acks. cbv zeta. rewrite Z.land_0_l. cbn [Z.eqb negb]. rewrite andb_false_r, orb_false_r.
  unfold seq_diff, RING, HALF in *. cbv zeta. dif; [lia|]. dif; lia.
Qed.

Lemma seq_of_index_step n : 0 <= n -> seq_of_index (n + 1) = wire (n + 1) /\ seq_of_index (n + 1) <> seq_of_index n.
Proof.
  intros Hn. unfold seq_of_index. assert (n + 1 =? 0 = false) as -> by lia. split; [reflexivity|].
  destruct (n =? 0) eqn:E0.
  - pose proof (wire_range (n + 1)). lia.
  - intros H. apply (wire_neq_near n (n + 1)); [unfold RING; lia|]. symmetry. exact H.
Qed.

(* ---------- what a step puts on the wire ---------- *)
Lemma hdr_dg_of o : map d_hdr (flat_map dg_of o) = emits o.
Proof.
  induction o as [|x o IH]; [reflexivity|]. unfold emits in *. cbn [flat_map]. rewrite map_app, IH.
  destruct x; try reflexivity. destruct sealed; reflexivity.
Qed.

Lemma dg_of_length o : length (flat_map dg_of o) = length (emits o).
Proof. rewrite <- hdr_dg_of, map_length. reflexivity. Qed.

Lemma ev_open_ok S x : ev_open x -> ev_ok S x.
Proof. destruct x; cbn; auto. intros [->| ->]; auto. Qed.

Lemma ev_open2_eq x : ev_open2 x <-> ev_open x.
Proof. destruct x; cbn; tauto. Qed.

(* ---------- the sender: AInv with the exact index ---------- *)
(* AckP.tick_tail_AInv / step_AInv say "exists n'"; the joint ghost needs the index itself: it goes
   up by one exactly when a packet assembly consumes a sequence number *)
Lemma tick_tail_AInv_idx strict e S K c now c1 pk c2 o2 n :
  AInv S K c n -> build_packet e c now = (c1, pk) -> check_timeout strict c1 now = (c2, o2) ->
  c_last_send c < now ->
  AInv S K c2 (match pk with Some _ => n + 1 | None => n end) /\
  c_seq_send c2 = match pk with Some _ => seq_succ (c_seq_send c) | None => c_seq_send c end.
Proof.
  intros [H0 Hp] E1 E2 Hlt.
  pose proof (build_packet_built _ _ _ _ _ E1) as (Bs & Bi & _ & Bb).
  pose proof (build_packet_packs _ _ _ _ _ E1) as (Ba & Bt & Bo & Bp).
  destruct H0 as [H1 H2 H3 H3' H4 H5 H6 H7].
  pose proof E2 as E2'. apply check_timeout_frame in E2' as [[Hc2] _].
  unfold check_timeout in E2.
  set (n' := match pk with Some _ => n + 1 | None => n end).
  assert (Hmid : AInv0 S K c1 n' /\ c_seq_send c1 = match pk with Some _ => seq_succ (c_seq_send c) | None => c_seq_send c end).
  { subst n'. destruct pk as [[h ms]|].
    - destruct Bb as (Q1 & L1 & Gate & _). destruct Bp as [P1 M1].
      assert (Hnew : ~ In (seq_succ (c_seq_send c)) (map fst (c_packs c))).
      { rewrite H2, seq_succ_index by exact H1. unfold seq_of_index. assert (n + 1 =? 0 = false) as -> by lia.
        intros Hin. apply in_map_iff in Hin as ([s t] & Hs & Hin). cbn in Hs.
        rewrite Forall_forall in H5. destruct (H5 _ Hin) as (i & I1 & I2 & I3). cbn in I2, I3.
        unfold purged in Hp. rewrite Forall_forall in Hp. pose proof (Hp _ Hin) as Hpu. cbn in Hpu.
        apply (wire_neq_near i (n + 1)); [|congruence].
        assert ((n - i) * S <= c_out_timeout c) by lia. unfold RING in *. nia. }
      destruct (dset_new_len (seq_succ (c_seq_send c)) now (c_packs c) Hnew) as [Ln Kn].
      split; [|exact Q1]. constructor.
      + lia.
      + rewrite Q1, H2. apply seq_succ_index. exact H1.
      + rewrite Bi. exact H3.
      + exact H3'.
      + rewrite Bo. exact H4.
      + rewrite P1, L1. apply Forall_forall. intros x Hx. apply dset_In in Hx as [->|Hx].
        * exists (n + 1). cbn. rewrite H2, seq_succ_index by exact H1. unfold seq_of_index.
          assert (n + 1 =? 0 = false) as -> by lia. repeat split; lia.
        * rewrite Forall_forall in H5. destruct (H5 _ Hx) as (i & I1 & I2 & I3). exists i. repeat split; try lia; try assumption.
      + rewrite P1, Kn. apply NoDup_snoc; [exact H6|exact Hnew].
      + unfold ack_total in *. rewrite P1, Ln, Ba, Bt, M1. lia.
    - destruct Bb as [Q1 L1]. destruct Bp as [P1 M1]. split; [|exact Q1].
      constructor; [exact H1|congruence|rewrite Bi; exact H3|exact H3'|rewrite Bo; exact H4|rewrite P1, L1; exact H5
                   |rewrite P1; exact H6|unfold ack_total in *; rewrite P1, Ba, Bt, M1; exact H7]. }
  destruct Hmid as (Hm & Hq).
  destruct (timeout_loop_total strict now (c_packs c1) c1 c2 o2 (ai_nodup _ _ _ _ Hm) (ai_nodup _ _ _ _ Hm) (fun x H => H) E2)
    as (T & ND & Sub & M & D).
  split; [split|].
  - eapply AInv0_shrink; eassumption.
  - unfold purged. apply Forall_forall. intros x Hx. pose proof (D x (Sub x Hx) Hx) as Dx.
    destruct Hc2 as [_ _ L2 _ _ _ O2 _]. rewrite L2, O2.
    assert (c_last_send c1 <= now) by (destruct pk as [[h ms]|]; [destruct Bb as (_ & -> & _); lia|destruct Bb as [_ ->]; lia]).
    destruct strict; lia.
  - destruct Hc2 as [_ Q2 _ _ _ _ _ _]. rewrite Q2. exact Hq.
Qed.

Definition next_idx (c c' : conn) (n : Z) : Z := if c_seq_send c' =? c_seq_send c then n else n + 1.

Lemma next_idx_same c c' n : c_seq_send c' = c_seq_send c -> next_idx c c' n = n.
Proof. intros E. unfold next_idx. rewrite E, Z.eqb_refl. reflexivity. Qed.

Lemma next_idx_pk S K c n c' (pk : option (header * list pmsg)) :
  AInv S K c n -> c_seq_send c' = match pk with Some _ => seq_succ (c_seq_send c) | None => c_seq_send c end ->
  next_idx c c' n = match pk with Some _ => n + 1 | None => n end.
Proof.
  intros [[H1 H2 _ _ _ _ _ _] _] E. destruct pk; [|apply next_idx_same; exact E].
  unfold next_idx. rewrite E, H2, seq_succ_index by exact H1.
  destruct (seq_of_index_step n H1) as [_ Hne]. destruct (_ =? _) eqn:Eq; [lia|reflexivity].
Qed.

Theorem step_AInv_idx e S K c n x c' o :
  ev_open x -> AInv S K c n -> step e c x = (c', o) -> AInv S K c' (next_idx c c' n).
Proof.
  intros Hop HI E.
  assert (Hd : forall c1, same_core c c1 -> same_ack c c1 -> AInv S K c1 (next_idx c c1 n)).
  { intros c1 A B. rewrite next_idx_same by (destruct A; assumption).
    destruct HI as [H0 Hp]; split; [eapply AInv0_same; eassumption|eapply purged_same; eassumption]. }
  assert (Hd0 : forall c1, same_core c c1 -> same_ack c c1 -> AInv S K c1 n).
  { intros c1 A B. destruct HI as [H0 Hp]; split; [eapply AInv0_same; eassumption|eapply purged_same; eassumption]. }
  destruct x; cbn [step] in E; cbn [ev_open] in Hop.
  - apply Hd; [apply send_frame in E as [[H] _]; exact H|eapply send_ack; eassumption].
  - (* client tick *)
    unfold client_tick in E.
    destruct (client_update c now) as [c0 o0] eqn:E0.
    pose proof (client_update_frame _ _ _ _ E0) as (F0 & _).
    assert (H0 : AInv S K c0 n) by (apply Hd0; [exact F0|eapply client_update_ack; eassumption]).
    assert (Q0 : c_seq_send c0 = c_seq_send c) by (destruct F0; assumption).
    destruct (status_eqb (c_status c0) DROPPED); [injection E as <- <-; rewrite next_idx_same by exact Q0; exact H0|].
    match type of E with context [match ?y with (_, _) => _ end] => destruct y as [c1 o1] eqn:E1 end.
    assert (H1 : AInv S K c1 n /\ c_seq_send c1 = c_seq_send c).
    { destruct r as [|er|d orcs]; try (injection E1 as <- <-; split; [exact H0|exact Q0]).
      destruct (recv c0 now d orcs) as [c'' o''] eqn:Er. injection E1 as <- <-.
      split; [eapply recv_AInv; eassumption|]. apply recv_frame in Er as [[_ Q _ _ _ _ _ _] _]. congruence. }
    destruct H1 as [H1 Q1].
    destruct (raised o1); [injection E as <- <-; rewrite next_idx_same by exact Q1; exact H1|].
    destruct (now - c_last_send c1 >? c_send_interval c1) eqn:Hg; [|injection E as <- <-; rewrite next_idx_same by exact Q1; exact H1].
    destruct (build_packet e c1 now) as [c2 pk] eqn:E2.
    destruct (check_timeout false c2 now) as [c3 o3] eqn:E3. injection E as <- <-.
    assert (Hlt : c_last_send c1 < now) by (destruct H1 as [[_ _ A B _ _ _ _] _]; lia).
    destruct (tick_tail_AInv_idx false e S K c1 now c2 pk c3 o3 n H1 E2 E3 Hlt) as (HI' & Q3).
    rewrite Q1 in Q3. rewrite (next_idx_pk S K c n c3 pk HI Q3). exact HI'.
  - unfold server_tick in E.
    destruct (now - c_last_send c >? c_send_interval c) eqn:Hg; [|injection E as <- <-; rewrite next_idx_same by reflexivity; exact HI].
    destruct (build_packet e c now) as [c1 pk] eqn:E1.
    destruct (check_timeout true c1 now) as [c2 o2] eqn:E2. injection E as <- <-.
    assert (Hlt : c_last_send c < now) by (destruct HI as [[_ _ A B _ _ _ _] _]; lia).
    destruct (tick_tail_AInv_idx true e S K c now c1 pk c2 o2 n HI E1 E2 Hlt) as (HI' & Q3).
    rewrite (next_idx_pk S K c n c2 pk HI Q3). exact HI'.
  - pose proof (recv_frame _ _ _ _ _ _ E) as [[_ Q _ _ _ _ _ _] _]. rewrite next_idx_same by exact Q. eapply recv_AInv; eassumption.
  - destruct Hop.
  - injection E as <- <-. rewrite next_idx_same by (destruct which as [|[[q|q|]|[q|q|]|]|q]; reflexivity).
    destruct HI as [[H1 H2 H3 H4 H5 H6 H7 H8] Hp].
    destruct Hop as [->| ->]; (split; [constructor; cbn; assumption|exact Hp]).
  - injection E as <- <-. apply Hd; unfold client_hello, send_type; [core_triv|ack_triv].
  - injection E as <- <-. apply Hd; [core_triv|ack_triv].
  - injection E as <- <-. apply Hd; [core_triv|ack_triv].
Qed.

(* what the step puts on the wire: at most one datagram, and it carries the sequence number of the
   index just consumed *)
Lemma step_emit_idx e S K c n x c' o :
  ev_open x -> AInv S K c n -> step e c x = (c', o) ->
  n <= next_idx c c' n /\
  (flat_map dg_of o = [] \/
   exists d, flat_map dg_of o = [d] /\ next_idx c c' n = n + 1 /\ h_seq (d_hdr d) = wire (n + 1)).
Proof.
  intros Hop HI E. pose proof HI as [[H1 H2 H3 _ _ _ _ _] _].
  destruct (step_built e S c x c' o E H3 (ev_open_ok S x Hop)) as (B & _ & _).
  split; [unfold next_idx; destruct (_ =? _); lia|].
  assert (Hnil : emits o = [] -> flat_map dg_of o = []).
  { intros He. apply length_zero_iff_nil. rewrite dg_of_length, He. reflexivity. }
  destruct B as [_ _ B3|B1 _ _ [B4|(h & B4 & F1 & _)]]; [left; auto|left; auto|right].
  pose proof (hdr_dg_of o) as Hm. rewrite B4 in Hm.
  destruct (flat_map dg_of o) as [|d [|d2 r]]; try discriminate. cbn in Hm. injection Hm as Hm.
  exists d. split; [reflexivity|].
  destruct (seq_of_index_step n H1) as [Hw Hne].
  split.
  - unfold next_idx. rewrite B1, H2, seq_succ_index by exact H1. destruct (_ =? _) eqn:Eq; [lia|reflexivity].
  - rewrite Hm, F1, H2, seq_succ_index by exact H1. exact Hw.
Qed.

(* ---------- the receiver: the window and the ack fields of what it emits ---------- *)
Lemma recv_window c now d orcs c' o : recv c now d orcs = (c', o) ->
  if opens c d && is_ok (bf_insert (c_bf_pkt c) (h_seq (d_hdr d)))
  then exists bf, bf_insert (c_bf_pkt c) (h_seq (d_hdr d)) = Ok bf /\ c_bf_pkt c' = bf
  else c_bf_pkt c' = c_bf_pkt c.
Proof.
  unfold recv, opens. intros E.
  destruct (keyless_refuses c (d_hdr d)); cbn [negb andb]; [injection E as <- <-; reflexivity|].
  destruct (open_dgram (c_key c) d) as [ms|]; cbn [is_ok andb]; [|injection E as <- <-; reflexivity].
  destruct (bf_insert (c_bf_pkt c) _) as [bf|]; cbn [is_ok]; [|injection E as <- <-; reflexivity].
  match type of E with context [handle_ack_bits ?c0 _] => set (cc := c0) in E end.
  destruct (handle_ack_bits cc (d_hdr d)) as [c1 o1] eqn:E1.
  destruct (recv_msgs c1 now ms orcs) as [c2 o2] eqn:E2. injection E as <- <-.
  exists bf. split; [reflexivity|].
  apply handle_ack_bits_frame in E1 as [[_ _ _ _ _ _ B1 _ _ _] _]. apply recv_msgs_bfp in E2.
  rewrite E2, B1. reflexivity.
Qed.

Definition ack_of_window (f : bitfield) (h : header) : Prop := h_ack h = bf_cur f /\ h_ackbits h = bf_bits f.

Lemma tick_tail_window strict e c now c1 pk c2 o2 :
  build_packet e c now = (c1, pk) -> check_timeout strict c1 now = (c2, o2) ->
  c_bf_pkt c2 = c_bf_pkt c /\
  forall cx, Forall (ack_of_window (c_bf_pkt c)) (emits (match pk with Some p => emit cx p | None => [] end)).
Proof.
  intros E1 E2. destruct (build_packet_ackfields _ _ _ _ _ E1) as [B1 F1].
  apply check_timeout_frame in E2 as [[_ _ _ _ _ _ B2 _ _ _] _].
  split; [congruence|].
  intros cx. destruct pk as [[h ms]|]; [|constructor].
  apply Forall_forall. intros h' Hin. destruct (emits_emit_ack _ _ _ _ Hin) as [A1 A2]. destruct F1 as [F1 F2].
  split; congruence.
Qed.

Lemma client_update_window c now : c_bf_pkt (fst (client_update c now)) = c_bf_pkt c /\ c_key (fst (client_update c now)) = c_key c.
Proof. unfold client_update. destruct (_ && (now >? _)); destruct (_ && (_ >? c_temp_timeout _)); cbn; auto. Qed.

Lemma opens_same c c' d : c_key c' = c_key c -> opens c' d = opens c d.
Proof. intros E. unfold opens, keyless_refuses. rewrite E. reflexivity. Qed.

Theorem step_window e c x c' o : step e c x = (c', o) ->
  match accepts c x with
  | Some d => dgram_in x = Some d /\ opens c d = true /\
              exists bf, bf_insert (c_bf_pkt c) (h_seq (d_hdr d)) = Ok bf /\ c_bf_pkt c' = bf
  | None => c_bf_pkt c' = c_bf_pkt c
  end /\ Forall (ack_of_window (c_bf_pkt c')) (emits o).
Proof.
  intros E. destruct x; cbn [step] in E; unfold accepts; cbn [pre_recv dgram_in].
  - pose proof (send_frame _ _ _ _ _ _ _ E) as [[_ _ _ _ _ _ B _ _ _] N].
    split; [exact B|]. rewrite (emits_no_emit _ N). constructor.
  - unfold client_tick in E. destruct (client_update_window c now) as [W0 K0].
    destruct (client_update c now) as [c0 o0] eqn:E0. cbn [fst] in *.
    assert (N0 : no_emit o0) by (apply client_update_frame in E0 as (_ & N & _); exact N).
    destruct (status_eqb (c_status c0) DROPPED).
    { injection E as <- <-. split; [destruct r; exact W0|]. rewrite (emits_no_emit _ N0). constructor. }
    match type of E with context [match ?y with (_, _) => _ end] => destruct y as [c1 o1] eqn:E1 end.
    assert (H1 : match (match r with RxDgram d _ => if opens c0 d && is_ok (bf_insert (c_bf_pkt c0) (h_seq (d_hdr d))) then Some d else None | _ => None end) with
                 | Some d => (match r with RxDgram d _ => Some d | _ => None end) = Some d /\ opens c d = true /\
                             exists bf, bf_insert (c_bf_pkt c) (h_seq (d_hdr d)) = Ok bf /\ c_bf_pkt c1 = bf
                 | None => c_bf_pkt c1 = c_bf_pkt c end /\ no_emit o1).
    { destruct r as [|er|d orcs].
      - injection E1 as <- <-. auto using no_emit_nil.
      - injection E1 as <- <-. split; [exact W0|]. intros y [<-|[]]; reflexivity.
      - destruct (recv c0 now d orcs) as [c'' o''] eqn:Er. injection E1 as <- <-.
        pose proof (recv_window _ _ _ _ _ _ Er) as Hw.
        split; [|apply recv_frame in Er as [_ N]; auto with frame].
        destruct (opens c0 d && is_ok (bf_insert (c_bf_pkt c0) (h_seq (d_hdr d)))) eqn:Eg.
        + split; [reflexivity|]. apply andb_prop in Eg as [Eg _]. rewrite (opens_same c c0 d K0) in Eg. split; [exact Eg|].
          rewrite <- W0. exact Hw.
        + rewrite Hw. exact W0. }
    destruct H1 as [H1 N1].
    assert (Hfin : forall ot cf, c_bf_pkt cf = c_bf_pkt c1 -> Forall (ack_of_window (c_bf_pkt c1)) (emits ot) ->
       match (match r with RxDgram d _ => if opens c0 d && is_ok (bf_insert (c_bf_pkt c0) (h_seq (d_hdr d))) then Some d else None | _ => None end) with
       | Some d => (match r with RxDgram d _ => Some d | _ => None end) = Some d /\ opens c d = true /\
                   exists bf, bf_insert (c_bf_pkt c) (h_seq (d_hdr d)) = Ok bf /\ c_bf_pkt cf = bf
       | None => c_bf_pkt cf = c_bf_pkt c end /\ Forall (ack_of_window (c_bf_pkt cf)) (emits (o0 ++ o1 ++ ot))).
    { intros ot cf Hcf Hot. rewrite Hcf. split; [exact H1|].
      rewrite !emits_app, (emits_no_emit _ N0), (emits_no_emit _ N1). exact Hot. }
    destruct (raised o1).
    { injection E as <- <-. specialize (Hfin [] c1 eq_refl (Forall_nil _)). rewrite app_nil_r in Hfin.
      destruct r; exact Hfin. }
    destruct (_ >? _).
    2:{ injection E as <- <-. specialize (Hfin [] c1 eq_refl (Forall_nil _)). rewrite app_nil_r in Hfin.
        destruct r; exact Hfin. }
    destruct (build_packet e c1 now) as [c2 pk] eqn:E2.
    destruct (check_timeout false c2 now) as [c3 o3] eqn:E3. injection E as <- <-.
    destruct (tick_tail_window _ _ _ _ _ _ _ _ E2 E3) as [G3 F]. apply check_timeout_frame in E3 as [_ N3].
    assert (Hot : Forall (ack_of_window (c_bf_pkt c1)) (emits (match pk with Some p => emit c2 p | None => [] end ++ o3))).
    { rewrite emits_app, (emits_no_emit _ N3), app_nil_r. apply F. }
    specialize (Hfin _ c3 G3 Hot). destruct r; exact Hfin.
  - unfold server_tick in E. destruct (_ >? _); [|injection E as <- <-; split; [reflexivity|constructor]].
    destruct (build_packet e c now) as [c1 pk] eqn:E1.
    destruct (check_timeout true c1 now) as [c2 o2] eqn:E2. injection E as <- <-.
    destruct (tick_tail_window _ _ _ _ _ _ _ _ E1 E2) as [G2 F]. apply check_timeout_frame in E2 as [_ N2].
    split; [exact G2|]. rewrite G2, emits_app, (emits_no_emit _ N2). cbn [app]. apply F.
  - pose proof (recv_window _ _ _ _ _ _ E) as Hw.
    split; [|apply recv_frame in E as [_ N]; rewrite (emits_no_emit _ N); constructor].
    destruct (opens c d && is_ok (bf_insert (c_bf_pkt c) (h_seq (d_hdr d)))) eqn:Eg; [|exact Hw].
    apply andb_prop in Eg as [Eg _]. auto.
  - injection E as <- <-. split; [|constructor]. unfold disconnect. destruct (_ || _); reflexivity.
  - injection E as <- <-. split; [|constructor]. destruct which as [|[[q|q|]|[q|q|]|]|q]; reflexivity.
  - injection E as <- <-. split; [reflexivity|constructor].
  - injection E as <- <-. split; [reflexivity|constructor].
  - injection E as <- <-. split; [reflexivity|constructor].
Qed.

(* accepting the datagram the label says: the window ghost grows by that index *)
Lemma GI_accept c g s l bf c' :
  GI c g -> bf_insert (c_bf_pkt c) s = Ok bf -> c_bf_pkt c' = bf -> s = wire l -> 1 <= l -> near g l ->
  GI c' (ghost_add g l).
Proof.
  intros HG Hins Hc' -> Hl Hnear. unfold GI in *. rewrite Hc'. destruct g as [[m acc]|]; cbn [ghost_add].
  - destruct HG as [HR Hnb]. pose proof (R_step _ _ _ l HR Hl (Hnear _ _ eq_refl)) as Hs.
    destruct (spec_dup _ m acc l); [congruence|].
    destruct Hs as (f' & E1 & E2 & E3). assert (f' = bf) as -> by congruence. split; [exact E3|congruence].
  - rewrite HG in Hins. destruct (R_first 32 l ltac:(lia) Hl) as [E1 E2].
    assert (bf = {| bf_nbits := 32; bf_bits := 0; bf_cur := wire l |}) as -> by congruence. split; [exact E2|reflexivity].
Qed.

(* ---------- the joint invariant ---------- *)
Definition BAok (G : gnet) (g : idxset) (d : dgram) : Prop :=
  match g with
  | None => h_ack (d_hdr d) = 0 /\ h_ackbits (d_hdr d) = 0
  | Some (m, acc) => h_ack (d_hdr d) = wire m /\ names_accepted g (d_hdr d) /\ In m acc /\
                     forall i, In i acc -> In i (idx_acc (g_B G))
  end.

Record J (S K : Z) (G : gnet) : Prop := {
  j_A : AInv S K (nA (g_net G)) (g_nA G);
  j_AB : forall i d, In (i, d) (g_AB G) -> 1 <= i <= g_nA G /\ h_seq (d_hdr d) = wire i;
  j_ABnd : NoDup (map fst (g_AB G));
  j_ABw : map snd (g_AB G) = wAB (g_net G);
  j_B : GI (nB (g_net G)) (g_B G);
  j_acc : forall i, In i (idx_acc (g_B G)) -> exists d, In (i, d) (g_AB G) /\ In d (g_accB G);
  j_BA : forall g d, In (g, d) (g_BA G) -> BAok G g d;
  j_BAw : map snd (g_BA G) = wBA (g_net G) }.

Lemma J_gnet0 S : 0 < S -> S <= 256 -> TICKS < (RING - 1) * S -> J S 0 gnet0.
Proof.
  intros H1 H2 H3. constructor; cbn; try reflexivity; try (intros; contradiction).
  - apply AInv_conn0; assumption.
  - constructor.
Qed.

Lemma map_snd_tag {A B} (t : A) (l : list B) : map snd (map (fun d => (t, d)) l) = l.
Proof. induction l as [|x l IH]; cbn; [reflexivity|]. rewrite IH. reflexivity. Qed.

Lemma idx_acc_add g l : idx_acc (idx_add g l) = l :: idx_acc g.
Proof. destruct g as [[m acc]|]; reflexivity. Qed.

Lemma GI_BAok c g h : GI c g -> ack_of_window (c_bf_pkt c) h ->
  match g with
  | None => h_ack h = 0 /\ h_ackbits h = 0
  | Some (m, acc) => h_ack h = wire m /\ names_accepted g h /\ In m acc
  end.
Proof.
  intros HG [Ha Hb]. pose proof (GI_names c g h HG Ha Hb) as Hn. destruct g as [[m acc]|]; cbn in HG.
  - destruct HG as [HR _]. split; [rewrite Ha; apply (R_cur _ _ _ HR)|]. split; [exact Hn|]. apply InB_In. apply (R_in _ _ _ HR).
  - rewrite HG in Ha, Hb. auto.
Qed.

Theorem J_step e S K G vl : J S K G -> wf2_ev G vl -> J S K (gstep e G vl).
Proof.
  intros [HA HAB HND HABw HB Hacc HBA HBAw] Hwf. destruct vl as [[x|x] l]; cbn [gstep wf2_ev nstep] in *.
  - (* A moves *)
    destruct Hwf as [Hop _]. apply ev_open2_eq in Hop.
    destruct (step e (nA (g_net G)) x) as [a' o] eqn:E.
    fold (next_idx (nA (g_net G)) a' (g_nA G)).
    pose proof (step_AInv_idx _ _ _ _ _ _ _ _ Hop HA E) as HA'.
    destruct (step_emit_idx _ _ _ _ _ _ _ _ Hop HA E) as [Hmono Hem].
    set (n' := next_idx (nA (g_net G)) a' (g_nA G)) in *.
    constructor; cbn.
    + exact HA'.
    + intros i d Hin. apply in_app_or in Hin as [Hin|Hin].
      * destruct (HAB i d Hin). split; [lia|assumption].
      * destruct Hem as [Hem|(d0 & Hem & Hn & Hs)]; rewrite Hem in Hin; cbn in Hin; [destruct Hin|].
        destruct Hin as [Hin|[]]. injection Hin as <- <-. destruct HA as [[Hn0 _ _ _ _ _ _ _] _].
        split; [lia|]. rewrite Hn. exact Hs.
    + rewrite map_app. destruct Hem as [Hem|(d0 & Hem & Hn & Hs)]; rewrite Hem; cbn; [rewrite app_nil_r; exact HND|].
      apply NoDup_snoc; [exact HND|]. intros Hin. apply in_map_iff in Hin as ([i d] & Hi & Hin). cbn in Hi. subst i.
      destruct (HAB _ _ Hin). lia.
    + rewrite map_app, map_snd_tag, HABw. reflexivity.
    + exact HB.
    + intros i Hi. destruct (Hacc i Hi) as (d & H1 & H2). exists d. split; [apply in_or_app; left; exact H1|exact H2].
    + exact HBA.
    + exact HBAw.
  - (* B moves *)
    destruct (step e (nB (g_net G)) x) as [b' o] eqn:E.
    destruct (step_window _ _ _ _ _ E) as [Hw Hem].
    set (acc := accepts (nB (g_net G)) x) in *.
    set (gB' := match acc with Some _ => idx_add (g_B G) l | None => g_B G end).
    assert (HB' : GI b' gB' /\ (forall i, In i (idx_acc (g_B G)) -> In i (idx_acc gB')) /\
                  forall i, In i (idx_acc gB') -> exists d, In (i, d) (g_AB G) /\
                     In d (match acc with Some d => d :: g_accB G | None => g_accB G end)).
    { subst gB'. destruct acc as [d|].
      - destruct Hw as (Hd & Ho & bf & Hins & Hbf). destruct (Hwf d Hd Ho) as [Hin Hnear].
        destruct (HAB _ _ Hin) as [Hl Hs].
        split; [eapply GI_accept; try eassumption; lia|]. rewrite idx_acc_add.
        split; [intros i Hi; right; exact Hi|].
        intros i [<-|Hi]; [exists d; split; [exact Hin|left; reflexivity]|].
        destruct (Hacc i Hi) as (d' & H1 & H2). exists d'. split; [exact H1|right; exact H2].
      - split; [eapply GI_same; eassumption|]. split; [auto|exact Hacc]. }
    destruct HB' as (HB' & Hmono & Hacc').
    constructor; cbn; try assumption.
    + intros g d Hin. apply in_app_or in Hin as [Hin|Hin].
      * specialize (HBA g d Hin). unfold BAok in *. destruct g as [[m ac]|]; [|exact HBA].
        destruct HBA as (B1 & B2 & B3 & B4). split; [exact B1|]. split; [exact B2|]. split; [exact B3|].
        intros i Hi. apply Hmono. apply B4. exact Hi.
      * apply in_map_iff in Hin as (d0 & Hd0 & Hin). injection Hd0 as <- <-.
        assert (Hh : In (d_hdr d0) (emits o)) by (rewrite <- hdr_dg_of; apply in_map; exact Hin).
        rewrite Forall_forall in Hem. pose proof (GI_BAok b' gB' (d_hdr d0) HB' (Hem _ Hh)) as Hok.
        unfold BAok. fold gB'. destruct gB' as [[m ac]|]; [|exact Hok].
        destruct Hok as (B1 & B2 & B3). split; [exact B1|]. split; [exact B2|]. split; [exact B3|]. auto.
    + rewrite map_app, map_snd_tag, HBAw. reflexivity.
Qed.

Theorem J_run e S K vs : forall G, J S K G -> wf2_run e G vs -> J S K (grun e G vs).
Proof.
  induction vs as [|v r IH]; intros G HJ Hwf; cbn [grun fold_left]; [exact HJ|].
  destruct Hwf as [W1 W2]. apply IH; [apply J_step; assumption|exact W2].
Qed.

(* ---------- the theorem, one step of A ---------- *)
Lemma pre_recv_facts c x c0 d : pre_recv c x = Some (c0, d) ->
  dgram_in x = Some d /\ c_packs c0 = c_packs c /\ opens c0 d = opens c d /\
  (exists now orcs, x = ERecv now d orcs /\ c0 = c \/ x = EClientTick now (RxDgram d orcs) /\ c0 = fst (client_update c now)).
Proof.
  destruct x; cbn [pre_recv dgram_in]; try discriminate.
  - destruct r as [| |d0 orcs]; try discriminate.
    destruct (status_eqb _ DROPPED); [discriminate|]. intros H. injection H as <- <-.
    destruct (client_update_window c now) as [_ K0].
    destruct (client_update c now) as [c0 o0] eqn:E0. cbn [fst] in *.
    pose proof (client_update_ack _ _ _ _ E0) as [P _ _ _ _].
    split; [reflexivity|]. split; [exact P|]. split; [apply opens_same; exact K0|].
    exists now, orcs. right. split; [reflexivity|]. try rewrite E0. reflexivity.
  - intros H. injection H as <- <-. repeat split. exists now, orcs. left. split; reflexivity.
Qed.

Theorem acked_accepted_step S K G x l a0 d :
  J S K G -> wf2_ev G (NA x, l) -> pre_recv (nA (g_net G)) x = Some (a0, d) -> opens a0 d = true ->
  acked_accepted G a0 d.
Proof.
  intros [HA HAB HND HABw HB Hacc HBA HBAw] [_ Hwf] Hpre Hop.
  destruct (pre_recv_facts _ _ _ _ Hpre) as (Hd & Hp & Ho & _). rewrite Ho in Hop.
  destruct (Hwf d Hd Hop) as (g & Hin & Hfresh). specialize (HBA g d Hin).
  intros s t Hpend Hack. rewrite Hp in Hpend.
  destruct HA as [[Hn _ _ HS Hot Hpe _ _] Hpu].
  rewrite Forall_forall in Hpe. destruct (Hpe _ Hpend) as (i & Hi & Hs & Ht). cbn [fst snd] in Hs, Ht.
  unfold purged in Hpu. rewrite Forall_forall in Hpu. pose proof (Hpu _ Hpend) as Hy. cbn [snd] in Hy.
  assert (Hrec : g_nA G - i < RING - 1) by (unfold RING in *; nia).
  subst s. unfold BAok in HBA. destruct g as [[m acc]|].
  - destruct HBA as (B1 & B2 & B3 & B4).
    destruct (Hacc m (B4 m B3)) as (dm & Hdm & _). destruct (HAB _ _ Hdm) as [Hm _].
    cbn [idx_fresh] in Hfresh. rewrite B1 in Hack.
    assert (Hr : - (RING - 32) < m - i < RING) by (unfold FRESH, RING in *; lia).
    pose proof (hdr_acks_idx m _ i Hack Hr) as Hmi.
    rewrite <- B1 in Hack.
    destruct (B2 m acc eq_refl i ltac:(lia) ltac:(unfold HALF; lia) Hack) as [Hia _].
    destruct (Hacc i (B4 i Hia)) as (dA & H1 & H2). destruct (HAB _ _ H1) as [_ Hs].
    exists i, dA. repeat split; auto; lia.
  - exfalso. destruct HBA as [B1 B2]. cbn [idx_fresh] in Hfresh. rewrite B1, B2 in Hack.
    rewrite wire_small in Hack by lia. rewrite hdr_acks_zero in Hack by lia. discriminate.
Qed.

(* ---------- Inc (CallbackP) through every event: needed to read "success" off the outputs ---------- *)
Lemma send_frags_pfrags frags : forall c fid n r i, c_pfrags (send_frags c fid n r i frags) = c_pfrags c.
Proof. induction frags as [|f rest IH]; intros; cbn [send_frags]; [reflexivity|]. rewrite IH. reflexivity. Qed.

Lemma split_frags_nonempty e p : (length p <> 0)%nat -> split_frags (S (length p)) e p <> [].
Proof. intros H. cbn [split_frags]. destruct (length p =? 0)%nat eqn:E; [apply Nat.eqb_eq in E; contradiction|]. destruct (_ <? _); discriminate. Qed.

Lemma send_Inc e c p r k c' o : 0 <= e_max_payload e -> Inc c -> send e c p r k = (c', o) -> Inc c'.
Proof.
  unfold send. intros He I E. destruct (negb _); [injection E as <- <-; exact I|].
  destruct (len p >? e_max_payload e) eqn:Eg; [|injection E as <- <-; exact I].
  assert (Hne : split_frags (S (length p)) e p <> []) by (apply split_frags_nonempty; unfold len in Eg; lia).
  remember (split_frags (S (length p)) e p) as frags eqn:Ef. clear Ef.
  destruct (len p >? e_max_frag e * e_max_frags e); injection E as <- <-; [exact I|].
  unfold Inc. cbn. rewrite send_frags_pfrags. cbn. apply ClearP.Forall_dset; [exact I|].
  unfold incomplete. cbn. destruct frags; [contradiction|reflexivity].
Qed.

Theorem step_Inc e c x c' o : 0 <= e_max_payload e -> Inc c -> step e c x = (c', o) -> Inc c'.
Proof.
  intros He I E. destruct x; cbn [step] in E.
  - eapply send_Inc; eassumption.
  - unfold client_tick in E.
    destruct (client_update c now) as [c0 o0] eqn:E0.
    assert (I0 : Inc c0).
    { unfold client_update in E0. destruct (_ && (now >? _)); destruct (_ && (_ >? c_temp_timeout _)); injection E0 as <- <-; exact I. }
    destruct (status_eqb (c_status c0) DROPPED); [injection E as <- <-; exact I0|].
    match type of E with context [match ?y with (_, _) => _ end] => destruct y as [c1 o1] eqn:E1 end.
    assert (I1 : Inc c1).
    { destruct r as [|er|d orcs]; try (injection E1 as <- <-; exact I0).
      destruct (recv c0 now d orcs) as [c'' o''] eqn:Er. injection E1 as <- <-. eapply recv_Inc; eassumption. }
    destruct (raised o1); [injection E as <- <-; exact I1|].
    destruct (_ >? _); [|injection E as <- <-; exact I1].
    destruct (build_packet e c1 now) as [c2 pk] eqn:E2.
    destruct (check_timeout false c2 now) as [c3 o3] eqn:E3. injection E as <- <-.
    assert (I2 : Inc c2) by (unfold Inc; rewrite (build_packet_pfrags _ _ _ _ _ E2); exact I1).
    eapply timeout_loop_Inc; eassumption.
  - unfold server_tick in E. destruct (_ >? _); [|injection E as <- <-; exact I].
    destruct (build_packet e c now) as [c1 pk] eqn:E1.
    destruct (check_timeout true c1 now) as [c2 o2] eqn:E2. injection E as <- <-.
    assert (I1 : Inc c1) by (unfold Inc; rewrite (build_packet_pfrags _ _ _ _ _ E1); exact I).
    eapply timeout_loop_Inc; eassumption.
  - eapply recv_Inc; eassumption.
  - injection E as <- <-. unfold disconnect. destruct (_ || _); exact I.
  - injection E as <- <-. destruct which as [|[[q|q|]|[q|q|]|]|q]; exact I.
  - injection E as <- <-. exact I.
  - injection E as <- <-. exact I.
  - injection E as <- <-. exact I.
Qed.

Lemma gstep_Inc e G vl : 0 <= e_max_payload e -> Inc (nA (g_net G)) -> Inc (nA (g_net (gstep e G vl))).
Proof.
  intros He I. destruct vl as [[x|x] l]; cbn [gstep nstep].
  - destruct (step e (nA (g_net G)) x) as [a' o] eqn:E. cbn. eapply step_Inc; eassumption.
  - destruct (step e (nB (g_net G)) x) as [b' o] eqn:E. cbn. exact I.
Qed.

Lemma grun_Inc e vs : forall G, 0 <= e_max_payload e -> Inc (nA (g_net G)) -> Inc (nA (g_net (grun e G vs))).
Proof.
  induction vs as [|v r IH]; intros G He I; cbn [grun fold_left]; [exact I|]. apply IH; [exact He|]. apply gstep_Inc; assumption.
Qed.

(* ---------- the theorems over joint histories ---------- *)
Lemma wf2_run_app e vs : forall G ws, wf2_run e G (vs ++ ws) <-> wf2_run e G vs /\ wf2_run e (grun e G vs) ws.
Proof.
  induction vs as [|v r IH]; intros G ws; cbn [app wf2_run grun fold_left]; [tauto|].
  rewrite IH. unfold grun. tauto.
Qed.

(* every datagram a step of A resolves as acknowledged had been accepted by B *)
Theorem acked_means_accepted e S K G vs x l a0 d :
  J S K G -> wf2_run e G (vs ++ [(NA x, l)]) ->
  let G' := grun e G vs in
  pre_recv (nA (g_net G')) x = Some (a0, d) -> opens a0 d = true -> acked_accepted G' a0 d.
Proof.
  intros HJ Hwf G' Hpre Hop. apply wf2_run_app in Hwf as [W1 [W2 _]].
  eapply acked_accepted_step; [eapply J_run; eassumption|exact W2|exact Hpre|exact Hop].
Qed.

(* a success callback: some pending datagram named by the header being processed, and so accepted by B *)
Theorem success_means_accepted e S K G vs x l a' o :
  0 <= e_max_payload e -> J S K G -> Inc (nA (g_net G)) -> wf2_run e G (vs ++ [(NA x, l)]) ->
  let G' := grun e G vs in
  step e (nA (g_net G')) x = (a', o) -> cb_true o ->
  exists a0 d, pre_recv (nA (g_net G')) x = Some (a0, d) /\ opens a0 d = true /\ acked_accepted G' a0 d /\
    exists s t i dA, In (s, t) (c_packs a0) /\ hdr_acks (h_ack (d_hdr d)) (h_ackbits (d_hdr d)) s = true /\
      s = wire i /\ 1 <= i <= g_nA G' /\ In i (idx_acc (g_B G')) /\
      In (i, dA) (g_AB G') /\ In dA (wAB (g_net G')) /\ h_seq (d_hdr dA) = s /\ In dA (g_accB G').
Proof.
  intros He HJ HI Hwf G' E Ht.
  pose proof (grun_Inc e vs G He HI) as HI'. fold G' in HI'.
  destruct (step_true _ _ _ _ _ HI' E Ht) as (now & d & orcs & c0 & Hx & (G1 & (ms & G2) & _) & s & t & Hpend & Hack).
  assert (Hop : opens c0 d = true) by (unfold opens; rewrite G1, G2; reflexivity).
  assert (Hpre : pre_recv (nA (g_net G')) x = Some (c0, d)).
  { destruct Hx as [[-> ->]|[-> ->]]; cbn [pre_recv]; [reflexivity|].
    destruct (status_eqb _ DROPPED) eqn:Ed; [|reflexivity].
    (* a dropped client does not reach the receive path: no success could have been reported *)
    exfalso. cbn [step] in E. unfold client_tick in E.
    destruct (client_update (nA (g_net G')) now) as [c1 o1] eqn:E1. cbn [fst] in Ed. rewrite Ed in E. injection E as <- <-.
    destruct Ht as [id Hin]. unfold client_update in E1.
    destruct (_ && (now >? _)); destruct (_ && (_ >? c_temp_timeout _)); injection E1 as <- <-;
      try solve [destruct Hin]; destruct (c_conn_cb _); try solve [destruct Hin]; destruct Hin as [H|[]]; discriminate. }
  pose proof (acked_means_accepted e S K G vs x l c0 d HJ Hwf Hpre Hop) as Hacc. fold G' in Hacc.
  exists c0, d. split; [exact Hpre|]. split; [exact Hop|]. split; [exact Hacc|].
  destruct (Hacc s t Hpend Hack) as (i & dA & H1 & H2 & H3 & H4 & H5 & H6).
  exists s, t, i, dA. repeat split; try assumption; try lia.
  apply wf2_run_app in Hwf as [W1 _]. pose proof (J_run e S K vs G HJ W1) as [_ _ _ Hw _ _ _ _]. fold G' in Hw.
  rewrite <- Hw. apply (in_map snd) in H4. exact H4.
Qed.

(* ---------- short sessions: (near) and (fresh acks) hold by themselves ---------- *)
Lemma J_newest_le S K G m acc : J S K G -> g_B G = Some (m, acc) -> 1 <= m <= g_nA G.
Proof.
  intros [_ HAB _ _ HB Hacc _ _] Eg. rewrite Eg in HB. cbn in HB. destruct HB as [HR _].
  assert (Hin : In m (idx_acc (g_B G))) by (rewrite Eg; cbn; apply InB_In; apply (R_in _ _ _ HR)).
  destruct (Hacc m Hin) as (d & Hd & _). apply (HAB _ _ Hd).
Qed.

Lemma auth_wf2_ev S K G vl : J S K G -> g_nA G <= HALF + 1 -> auth_ev G vl -> wf2_ev G vl.
Proof.
  intros HJ Hn Ha. destruct vl as [[x|x] l]; cbn [auth_ev wf2_ev] in *.
  - destruct Ha as [Hop Ha]. split; [exact Hop|]. intros d Hd Ho. destruct (Ha d Hd Ho) as (g & Hin). exists g. split; [exact Hin|].
    pose proof HJ as [_ HAB _ _ _ Hacc HBA _]. specialize (HBA g d Hin). unfold BAok in HBA.
    destruct g as [[m acc]|]; cbn [idx_fresh]; [|unfold RING, HALF in *; lia].
    destruct HBA as (_ & _ & B3 & B4). destruct (Hacc m (B4 m B3)) as (dm & Hdm & _). destruct (HAB _ _ Hdm) as [Hm _].
    unfold FRESH, RING, HALF in *. lia.
  - intros d Hd Ho. pose proof (Ha d Hd Ho) as Hin. split; [exact Hin|].
    pose proof HJ as [_ HAB _ _ _ _ _ _]. destruct (HAB _ _ Hin) as [Hl _].
    intros m acc Eg. pose proof (J_newest_le _ _ _ _ _ HJ Eg). unfold HALF in *. lia.
Qed.

Theorem auth_run_wf2 e S K vs : forall G, J S K G -> auth_run e G vs -> wf2_run e G vs.
Proof.
  induction vs as [|v r IH]; intros G HJ Ha; cbn [auth_run wf2_run] in *; [exact I|].
  destruct Ha as (A1 & A2 & A3). pose proof (auth_wf2_ev _ _ _ _ HJ A2 A1) as W. split; [exact W|].
  apply IH; [apply J_step; assumption|exact A3].
Qed.

(* A's counter never decreases, so "A consumes at most HALF + 1 sequence numbers" can be read off the end *)
Lemma auth_run_app e vs : forall G ws, auth_run e G (vs ++ ws) <-> auth_run e G vs /\ auth_run e (grun e G vs) ws.
Proof.
  induction vs as [|v r IH]; intros G ws; cbn [app auth_run grun fold_left]; [tauto|].
  rewrite IH. unfold grun. tauto.
Qed.

(* ---------- which datagram a success callback belongs to ---------- *)
(* the user-visible callback a registered callback object reports to: a plain or RetrySender-wrapped
   user callback id, or the collector of a fragmented message *)
Definition cb_inner (k : cb) : icb := match k with Plain i => i | Retry _ _ _ _ i => i end.
Definition cb_for (k : cb) (id : Z) : Prop := cb_inner k = IUser id \/ exists fid idx, cb_inner k = IFrag fid idx.

Lemma fire_icb_for c i ok c' o id b : fire_icb c i ok = (c', o) -> In (OCallback id b) o ->
  i = IUser id \/ exists fid idx, i = IFrag fid idx.
Proof.
  unfold fire_icb. intros E Hin. destruct i; try (right; eauto; fail); injection E as <- <-.
  - destruct Hin.
  - destruct Hin as [H|[]]. injection H as H1 H2. subst. left. reflexivity.
  - exfalso. destruct ok; cbn in Hin; [destruct Hin|destruct Hin as [H|[]]; discriminate].
  - exfalso. destruct ok; cbn in Hin; [destruct Hin|destruct Hin as [H|[]]; discriminate].
  - exfalso. destruct Hin as [H|[]]; discriminate.
Qed.

Lemma fire_cb_for c k ok c' o id b : fire_cb c k ok = (c', o) -> In (OCallback id b) o -> cb_for k id.
Proof.
  unfold fire_cb, cb_for. intros E Hin. destruct k as [i|rid mseq ty p i]; cbn [cb_inner].
  - eapply fire_icb_for; eassumption.
  - destruct (zmem rid (c_done c)); [injection E as <- <-; destruct Hin|].
    destruct (negb ok); [injection E as <- <-; destruct Hin|]. eapply fire_icb_for; eassumption.
Qed.

Lemma fire_all_for ks : forall c ok c' o id b, fire_all c ks ok = (c', o) -> In (OCallback id b) o ->
  exists k, In k ks /\ cb_for k id.
Proof.
  induction ks as [|k ks IH]; intros c ok c' o id b E Hin; cbn [fire_all] in E.
  - injection E as <- <-. destruct Hin.
  - destruct (fire_cb c k ok) as [c1 o1] eqn:E1. destruct (fire_all c1 ks ok) as [c2 o2] eqn:E2.
    injection E as <- <-. apply in_app_or in Hin as [Hin|Hin].
    + exists k. split; [left; reflexivity|eapply fire_cb_for; eassumption].
    + destruct (IH _ _ _ _ _ _ E2 Hin) as (k' & H1 & H2). exists k'. split; [right; exact H1|exact H2].
Qed.

Lemma resolve_for ok c s c' o id b : resolve ok c s = (c', o) ->
  (In (OCallback id b) o -> exists ks k, dget s (c_pcbs c) = Some ks /\ In k ks /\ cb_for k id) /\
  (forall s' ks, dget s' (c_pcbs c') = Some ks -> dget s' (c_pcbs c) = Some ks).
Proof.
  unfold resolve. intros E.
  set (c0 := if ok then _ else _) in E.
  assert (P0 : c_pcbs c0 = c_pcbs c) by (subst c0; destruct ok; reflexivity).
  rewrite <- P0. clearbody c0.
  destruct (dget s (c_pcbs c0)) as [ks|] eqn:Eg.
  - destruct (fire_all c0 ks ok) as [c1 o1] eqn:E1. injection E as <- <-.
    destruct (fire_all_grows _ _ _ _ _ E1) as [[_ _ G _] _].
    split.
    + intros Hin. destruct (fire_all_for _ _ _ _ _ _ _ E1 Hin) as (k & H1 & H2). exists ks, k. auto.
    + intros s' ks'. destruct (dget s (c_pretry _)); cbn; rewrite G, dget_ddel; destruct (s' =? s); try discriminate; auto.
  - injection E as <- <-. split; [intros []|]. intros s' ks'. destruct (dget s (c_pretry c0)); cbn; auto.
Qed.

Lemma ack_loop_for h snap : forall c c' o id, Inc c -> ack_loop c h snap = (c', o) -> In (OCallback id true) o ->
  exists s t ks k, In (s, t) snap /\ hdr_acks (h_ack h) (h_ackbits h) s = true /\
    dget s (c_pcbs c) = Some ks /\ In k ks /\ cb_for k id.
Proof.
  induction snap as [|[s t] r IH]; intros c c' o id I E Hin; cbn [ack_loop] in E.
  - injection E as <- <-. destruct Hin.
  - dpair E c1 o1 E1. destruct (ack_loop c1 h r) as [c2 o2] eqn:E2. injection E as <- <-.
    assert (H1 : Inc c1 /\ (forall s' ks, dget s' (c_pcbs c1) = Some ks -> dget s' (c_pcbs c) = Some ks)).
    { destruct (hdr_acks _ _ s); [split; [eapply resolve_Inc; eassumption|apply (resolve_for _ _ _ _ _ 0 true E1)]|].
      destruct (_ >? _); [split; [eapply resolve_Inc; eassumption|apply (resolve_for _ _ _ _ _ 0 true E1)]|].
      injection E1 as <- <-. auto. }
    destruct H1 as [I1 P1]. apply in_app_or in Hin as [Hin|Hin].
    + destruct (hdr_acks (h_ack h) (h_ackbits h) s) eqn:Ea.
      * destruct (resolve_for _ _ _ _ _ id true E1) as [F _]. destruct (F Hin) as (ks & k & A & B & D).
        exists s, t, ks, k. repeat split; auto. left. reflexivity.
      * exfalso. destruct (_ >? _).
        -- apply (resolve_false_true _ _ _ _ I E1). exists id. exact Hin.
        -- injection E1 as <- <-. destruct Hin.
    + destruct (IH _ _ _ _ I1 E2 Hin) as (s' & t' & ks & k & A & B & D & F & G).
      exists s', t', ks, k. repeat split; auto. right. exact A.
Qed.

Lemma recv_for c now d orcs c' o id : Inc c -> recv c now d orcs = (c', o) -> In (OCallback id true) o ->
  opens c d = true /\
  exists s t ks k, In (s, t) (c_packs c) /\ hdr_acks (h_ack (d_hdr d)) (h_ackbits (d_hdr d)) s = true /\
    dget s (c_pcbs c) = Some ks /\ In k ks /\ cb_for k id.
Proof.
  unfold recv, opens. intros I E Hin.
  destruct (keyless_refuses c (d_hdr d)); [injection E as <- <-; destruct Hin as [H|[]]; discriminate|].
  destruct (open_dgram (c_key c) d) as [ms|]; [|injection E as <- <-; destruct Hin as [H|[]]; discriminate].
  destruct (bf_insert (c_bf_pkt c) _) as [bf|]; [|injection E as <- <-; destruct Hin as [H|[]]; discriminate].
  match type of E with context [handle_ack_bits ?c0 _] => set (cc := c0) in E end.
  destruct (handle_ack_bits cc (d_hdr d)) as [c1 o1] eqn:E1.
  destruct (recv_msgs c1 now ms orcs) as [c2 o2] eqn:E2. injection E as <- <-.
  split; [reflexivity|].
  apply in_app_or in Hin as [Hin|Hin].
  - unfold handle_ack_bits in E1. assert (Icc : Inc cc) by exact I.
    exact (ack_loop_for _ _ _ _ _ _ Icc E1 Hin).
  - exfalso. apply in_app_or in Hin as [Hin|Hin].
    + exact (recv_msgs_no_cb _ _ _ _ _ _ _ _ E2 Hin).
    + destruct (raised o2); [destruct Hin|destruct Hin as [H|[]]; discriminate].
Qed.

(* every event: a success callback is reported for a callback object registered (pending_callbacks)
   for a pending datagram that the header being processed names *)
Theorem step_true_for e c x c' o id : Inc c -> step e c x = (c', o) -> In (OCallback id true) o ->
  exists a0 d, pre_recv c x = Some (a0, d) /\ opens a0 d = true /\
    exists s t ks k, In (s, t) (c_packs a0) /\ hdr_acks (h_ack (d_hdr d)) (h_ackbits (d_hdr d)) s = true /\
      dget s (c_pcbs a0) = Some ks /\ In k ks /\ cb_for k id.
Proof.
  intros I E Hin.
  destruct (step_true _ _ _ _ _ I E (ex_intro _ id Hin)) as (now & d & orcs & c0 & Hx & _).
  destruct Hx as [[-> ->]|[-> ->]]; cbn [step pre_recv] in *.
  - destruct (recv_for _ _ _ _ _ _ _ I E Hin) as [Ho Hs]. exists c, d. auto.
  - unfold client_tick in E.
    destruct (client_update c now) as [c0 o0] eqn:E0. cbn [fst].
    assert (I0 : Inc c0).
    { unfold client_update in E0. destruct (_ && (now >? _)); destruct (_ && (_ >? c_temp_timeout _)); injection E0 as <- <-; exact I. }
    assert (N0 : forall id b, ~ In (OCallback id b) o0).
    { intros id' b Hi. unfold client_update in E0.
      destruct (_ && (now >? _)); destruct (_ && (_ >? c_temp_timeout _)); injection E0 as <- <-;
        try solve [destruct Hi]; destruct (c_conn_cb _); try solve [destruct Hi]; destruct Hi as [H|[]]; discriminate. }
    destruct (status_eqb (c_status c0) DROPPED); [injection E as <- <-; exfalso; exact (N0 _ _ Hin)|].
    destruct (recv c0 now d orcs) as [c1 o1] eqn:Er.
    assert (Hin1 : In (OCallback id true) o1).
    { set (o1f := filter (fun x => match x with ORet _ => false | _ => true end) o1) in E.
      assert (Hf : In (OCallback id true) o1f -> In (OCallback id true) o1) by (intros H; apply filter_In in H as [H _]; exact H).
      apply Hf. clear Hf.
      destruct (raised o1f).
      { injection E as <- <-. apply in_app_or in Hin as [H|H]; [exfalso; exact (N0 _ _ H)|exact H]. }
      destruct (_ >? _).
      2:{ injection E as <- <-. apply in_app_or in Hin as [H|H]; [exfalso; exact (N0 _ _ H)|exact H]. }
      destruct (build_packet e c1 now) as [c2 pk] eqn:E2.
      destruct (check_timeout false c2 now) as [c3 o3] eqn:E3. injection E as <- <-.
      apply in_app_or in Hin as [H|H]; [exfalso; exact (N0 _ _ H)|].
      apply in_app_or in H as [H|H]; [exact H|exfalso].
      apply in_app_or in H as [H|H].
      - destruct pk; [exact (emit_no_cb _ _ _ _ H)|destruct H].
      - assert (I1 : Inc c1) by (eapply recv_Inc; eassumption).
        assert (I2 : Inc c2) by (unfold Inc; rewrite (build_packet_pfrags _ _ _ _ _ E2); exact I1).
        apply (timeout_loop_true _ _ _ _ _ _ I2 E3). exists id. exact H. }
    destruct (recv_for _ _ _ _ _ _ _ I0 Er Hin1) as [Ho Hs]. exists c0, d. auto.
Qed.

(* the success callback id: the callback object that reports it is registered for a pending datagram
   that the header names, and B has accepted that datagram *)
Theorem success_registered_accepted e S K G vs x l a' o id :
  0 <= e_max_payload e -> J S K G -> Inc (nA (g_net G)) -> wf2_run e G (vs ++ [(NA x, l)]) ->
  let G' := grun e G vs in
  step e (nA (g_net G')) x = (a', o) -> In (OCallback id true) o ->
  exists a0 d s t ks k i dA,
    pre_recv (nA (g_net G')) x = Some (a0, d) /\ opens a0 d = true /\
    In (s, t) (c_packs a0) /\ hdr_acks (h_ack (d_hdr d)) (h_ackbits (d_hdr d)) s = true /\
    dget s (c_pcbs a0) = Some ks /\ In k ks /\ cb_for k id /\
    s = wire i /\ 1 <= i <= g_nA G' /\ In i (idx_acc (g_B G')) /\
    In (i, dA) (g_AB G') /\ In dA (wAB (g_net G')) /\ h_seq (d_hdr dA) = s /\ In dA (g_accB G').
Proof.
  intros He HJ HI Hwf G' E Hin.
  pose proof (grun_Inc e vs G He HI) as HI'. fold G' in HI'.
  destruct (step_true_for _ _ _ _ _ _ HI' E Hin) as (a0 & d & Hpre & Hop & s & t & ks & k & Hpend & Hack & Hg & Hk & Hf).
  pose proof (acked_means_accepted e S K G vs x l a0 d HJ Hwf Hpre Hop) as Hacc. fold G' in Hacc.
  destruct (Hacc s t Hpend Hack) as (i & dA & H1 & H2 & H3 & H4 & H5 & H6).
  exists a0, d, s, t, ks, k, i, dA. repeat split; try assumption; try lia.
  apply wf2_run_app in Hwf as [W1 _]. pose proof (J_run e S K vs G HJ W1) as [_ _ _ Hw _ _ _ _]. fold G' in Hw.
  rewrite <- Hw. apply (in_map snd) in H4. exact H4.
Qed.

(* ---------- the acked counter: a datagram is counted as acknowledged only in such a step ---------- *)
Lemma timeout_loop_acked strict now snap : forall c c' o, timeout_loop strict c now snap = (c', o) -> c_acked c' = c_acked c.
Proof.
  induction snap as [|[s t] r IH]; intros c c' o E; cbn [timeout_loop] in E.
  - injection E as <- <-. reflexivity.
  - dpair E c1 o1 E1. destruct (timeout_loop strict c1 now r) as [c2 o2] eqn:E2. injection E as <- <-.
    rewrite (IH _ _ _ E2).
    match type of E1 with (if ?b then _ else _) = _ => destruct b end;
      [apply resolve_packs in E1 as (_ & _ & A & _); lia|injection E1 as <- <-; reflexivity].
Qed.

Lemma ack_loop_acked h snap : forall c c' o, ack_loop c h snap = (c', o) -> c_acked c < c_acked c' ->
  exists s t, In (s, t) snap /\ hdr_acks (h_ack h) (h_ackbits h) s = true.
Proof.
  induction snap as [|[s t] r IH]; intros c c' o E Hlt; cbn [ack_loop] in E.
  - injection E as <- <-. lia.
  - dpair E c1 o1 E1. destruct (ack_loop c1 h r) as [c2 o2] eqn:E2. injection E as <- <-.
    destruct (hdr_acks (h_ack h) (h_ackbits h) s) eqn:Ea; [exists s, t; split; [left; reflexivity|exact Ea]|].
    assert (A1 : c_acked c1 = c_acked c).
    { destruct (_ >? _); [apply resolve_packs in E1 as (_ & _ & A & _); lia|injection E1 as <- <-; reflexivity]. }
    destruct (IH _ _ _ E2 ltac:(lia)) as (s' & t' & Hi & Ha). exists s', t'. split; [right; exact Hi|exact Ha].
Qed.

Lemma recv_acked c now d orcs c' o : recv c now d orcs = (c', o) -> c_acked c < c_acked c' ->
  opens c d = true /\ exists s t, In (s, t) (c_packs c) /\ hdr_acks (h_ack (d_hdr d)) (h_ackbits (d_hdr d)) s = true.
Proof.
  unfold recv, opens. intros E Hlt.
  destruct (keyless_refuses c (d_hdr d)); [injection E as <- <-; cbn in Hlt; lia|].
  destruct (open_dgram (c_key c) d) as [ms|]; [|injection E as <- <-; cbn in Hlt; lia].
  destruct (bf_insert (c_bf_pkt c) _) as [bf|]; [|injection E as <- <-; cbn in Hlt; lia].
  match type of E with context [handle_ack_bits ?c0 _] => set (cc := c0) in E end.
  destruct (handle_ack_bits cc (d_hdr d)) as [c1 o1] eqn:E1.
  destruct (recv_msgs c1 now ms orcs) as [c2 o2] eqn:E2. injection E as <- <-.
  split; [reflexivity|]. apply recv_msgs_ack in E2 as [_ A2 _ _ _]. rewrite A2 in Hlt.
  unfold handle_ack_bits in E1. exact (ack_loop_acked _ _ _ _ _ E1 Hlt).
Qed.

Theorem step_acked e c x c' o : step e c x = (c', o) -> c_acked c < c_acked c' ->
  exists a0 d, pre_recv c x = Some (a0, d) /\ opens a0 d = true /\
    exists s t, In (s, t) (c_packs a0) /\ hdr_acks (h_ack (d_hdr d)) (h_ackbits (d_hdr d)) s = true.
Proof.
  intros E Hlt. destruct x; cbn [step pre_recv] in *.
  - apply send_ack in E as [_ A _ _ _]. lia.
  - unfold client_tick in E.
    destruct (client_update c now) as [c0 o0] eqn:E0. cbn [fst].
    pose proof (client_update_ack _ _ _ _ E0) as [_ A0 _ _ _].
    destruct (status_eqb (c_status c0) DROPPED); [injection E as <- <-; lia|].
    match type of E with context [match ?y with (_, _) => _ end] => destruct y as [c1 o1] eqn:E1 end.
    assert (Hfin : c_acked c' = c_acked c1).
    { destruct (raised o1); [injection E as <- <-; reflexivity|].
      destruct (_ >? _); [|injection E as <- <-; reflexivity].
      destruct (build_packet e c1 now) as [c2 pk] eqn:E2.
      destruct (check_timeout false c2 now) as [c3 o3] eqn:E3. injection E as <- <-.
      apply build_packet_packs in E2 as (A2 & _). unfold check_timeout in E3. apply timeout_loop_acked in E3. congruence. }
    destruct r as [|er|d orcs]; try (injection E1 as <- <-; lia).
    destruct (recv c0 now d orcs) as [c'' o''] eqn:Er. injection E1 as <- <-.
    destruct (recv_acked _ _ _ _ _ _ Er ltac:(lia)) as [Ho Hs]. exists c0, d. auto.
  - exfalso. unfold server_tick in E. destruct (_ >? _); [|injection E as <- <-; lia].
    destruct (build_packet e c now) as [c1 pk] eqn:E1.
    destruct (check_timeout true c1 now) as [c2 o2] eqn:E2. injection E as <- <-.
    apply build_packet_packs in E1 as (A1 & _). unfold check_timeout in E2. apply timeout_loop_acked in E2. lia.
  - destruct (recv_acked _ _ _ _ _ _ E Hlt) as [Ho Hs]. exists c, d. auto.
  - exfalso. injection E as <- <-. unfold disconnect in Hlt. destruct (_ || _); cbn in Hlt; lia.
  - exfalso. injection E as <- <-. destruct which as [|[[q|q|]|[q|q|]|]|q]; cbn in Hlt; lia.
  - exfalso. injection E as <- <-. cbn in Hlt. lia.
  - exfalso. injection E as <- <-. cbn in Hlt. lia.
  - exfalso. injection E as <- <-. cbn in Hlt. lia.
Qed.

(* whenever A's acked counter goes up, a datagram B has accepted is being resolved *)
Theorem ack_counted_means_accepted e S K G vs x l a' o :
  J S K G -> wf2_run e G (vs ++ [(NA x, l)]) ->
  let G' := grun e G vs in
  step e (nA (g_net G')) x = (a', o) -> c_acked (nA (g_net G')) < c_acked a' ->
  exists a0 d s t i dA,
    pre_recv (nA (g_net G')) x = Some (a0, d) /\ opens a0 d = true /\ acked_accepted G' a0 d /\
    In (s, t) (c_packs a0) /\ hdr_acks (h_ack (d_hdr d)) (h_ackbits (d_hdr d)) s = true /\
    s = wire i /\ In i (idx_acc (g_B G')) /\ In (i, dA) (g_AB G') /\ h_seq (d_hdr dA) = s /\ In dA (g_accB G').
Proof.
  intros HJ Hwf G' E Hlt.
  destruct (step_acked _ _ _ _ _ E Hlt) as (a0 & d & Hpre & Hop & s & t & Hpend & Hack).
  pose proof (acked_means_accepted e S K G vs x l a0 d HJ Hwf Hpre Hop) as Hacc. fold G' in Hacc.
  destruct (Hacc s t Hpend Hack) as (i & dA & H1 & H2 & H3 & H4 & H5 & H6).
  exists a0, d, s, t, i, dA. repeat split; assumption.
Qed.

(* ---------- (fresh acks) cannot be dropped ---------- *)
(* any J-state stays a J-state when A is replaced by a connection later in its session (its own
   invariant AInv at a larger index): what B has accepted and what is on the wire is unchanged *)
Lemma J_with_A S K K' G a n : J S K G -> AInv S K' a n -> g_nA G <= n -> J S K' (with_A G a n).
Proof.
  intros [HA HAB HND HABw HB Hacc HBA HBAw] Ha Hn. constructor; cbn; try assumption.
  intros i d Hin. destruct (HAB i d Hin). split; [lia|assumption].
Qed.
