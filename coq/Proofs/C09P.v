(* C09P.v — proofs of the C09 statements: kernel ties (Packet.overhead / Packet.setMTU as
   regenerated from connection.py), codec totality and refusal, datagram round trips,
   MTU bound, packing totality.  Builds on WireP.v and PackP.v. *)
From Coq Require Import Lia ZifyBool Permutation.
From RecordUpdate Require Import RecordUpdate.
From Model Require Import Base SeqNum Wire Conn PackEnv.
From Gen Require Import Kernels.
From Proofs Require Import Tac SeqNumP WireP PackP.
Import RecordSetNotations.
Open Scope Z_scope.
Ltac Zify.zify_post_hook ::= Z.to_euclidean_division_equations.

(* ------------------------------------------------------------------ kernel ties *)

(* Packet.overhead, regenerated, is the overhead function of the model *)
Lemma gen_overhead_spec n : gen_overhead n = Ok (overhead n).
Proof. unfold gen_overhead, overhead. split_ifs; reflexivity. Qed.

Lemma gen_consts_spec :
  gen_PacketHeader_SIZE = 20 /\ gen_PacketHeader_TAG_SIZE = 16 /\ gen_PacketHeader_CRC_SIZE = 4
  /\ gen_Packet_UDP_HEADER_SIZE = 28 /\ gen_Packet_MESSAGE_OVERHEAD_1 = 2
  /\ gen_Packet_MESSAGE_OVERHEAD_N = 5 /\ gen_Packet_FRAGMENT_OVERHEAD = 6
  /\ gen_Packet_MAX_FRAGMENTS = 8192.
Proof. repeat split; reflexivity. Qed.

(* Packet.setMTU, regenerated: the six class attributes it leaves behind *)
Lemma gen_setMTU_spec mtu :
  gen_setMTU mtu = Ok (mtu, mtu - 28, mtu - 40, mtu - 66, (if mtu <? 1096 then mtu - 72 else 1024), mtu + 512).
Proof.
  unfold gen_setMTU. cbv zeta.
  change gen_Packet_UDP_HEADER_SIZE with 28. change gen_PacketHeader_SIZE with 20.
  change gen_PacketHeader_TAG_SIZE with 16. change gen_PacketHeader_CRC_SIZE with 4.
  change gen_Packet_MESSAGE_OVERHEAD_1 with 2. change gen_Packet_FRAGMENT_OVERHEAD with 6.
  replace (mtu - 28 - 16 + 4) with (mtu - 40) by lia.
  replace (mtu - 28 - 20 - 16 - 2) with (mtu - 66) by lia.
  replace (mtu - 66 - 6) with (mtu - 72) by lia.
  split_ifs; try reflexivity; exfalso; lia.
Qed.

Definition env_spec (mtu : Z) : env :=
  {| e_max_payload := mtu - 66; e_max_frag := (if mtu <? 1096 then mtu - 72 else 1024); e_max_frags := 8192 |}.

Lemma env_of_mtu_spec mtu : env_of_mtu mtu = Ok (env_spec mtu).
Proof. unfold env_of_mtu. rewrite gen_setMTU_spec. reflexivity. Qed.

(* the fit test of _build_packet_impl, in terms of the regenerated kernels: the budget it
   compares with is exactly what is left of MAX_SIZE after the header and the tag *)
Lemma budget_spec mtu e : env_of_mtu mtu = Ok e ->
  e_max_payload e + gen_Packet_MESSAGE_OVERHEAD_1
  = max_dgram mtu - gen_PacketHeader_SIZE - gen_PacketHeader_TAG_SIZE.
Proof.
  rewrite env_of_mtu_spec. intros E. injection E as <-. unfold max_dgram, env_spec. cbn [e_max_payload].
  change gen_Packet_UDP_HEADER_SIZE with 28. change gen_PacketHeader_SIZE with 20.
  change gen_PacketHeader_TAG_SIZE with 16. change gen_Packet_MESSAGE_OVERHEAD_1 with 2. lia.
Qed.

(* ------------------------------------------------------------------ codec: totality and refusal *)

Definition hdr_fields_ok (h : header) : Prop :=
  0 <= h_ctime h < 2 ^ 32 /\ 0 <= h_seq h < 2 ^ 16 /\ 0 <= h_ack h < 2 ^ 16 /\ 0 <= h_ackbits h < 2 ^ 32.

Lemma header_ok_spec h : header_ok h = true <->
  hdr_fields_ok h /\ 0 <= h_len h < 2 ^ 16 /\ 0 <= h_count h < 2 ^ 8.
Proof. unfold header_ok, hdr_fields_ok, in_range. lia. Qed.

Lemma encode_header_refuses h : header_ok h = false -> encode_header h = Err EStruct.
Proof. unfold encode_header. intros ->. reflexivity. Qed.

Lemma encode_header_total h : header_ok h = true -> exists bs, encode_header h = Ok bs.
Proof. unfold encode_header. intros ->. eexists. reflexivity. Qed.

Definition wmsg_ok (m : wmsg) : Prop := 0 <= w_seq m < 2 ^ 16 /\ len (w_payload m) < 2 ^ 16.

Fixpoint wsum (ms : list wmsg) : Z :=
  match ms with [] => 0 | m :: r => len (w_payload m) + wsum r end.
Definition wsize (ms : list wmsg) : Z := wsum ms + overhead (len ms).

Lemma wsum_nonneg ms : 0 <= wsum ms.
Proof. induction ms; cbn [wsum]; [lia|]. pose proof (len_nonneg (w_payload a)). lia. Qed.

Lemma enc_multi_total ms : Forall wmsg_ok ms -> exists p, enc_multi ms = Ok p /\ len p = wsum ms + 5 * len ms.
Proof.
  induction 1 as [|m ms [Hs Hl] _ IH].
  - exists []. split; reflexivity.
  - destruct IH as (q & Eq & Lq). cbn [enc_multi fold_right]. fold (enc_multi ms). rewrite Eq. cbn [bind].
    pose proof (len_nonneg (w_payload m)).
    replace (in_range 16 (len (w_payload m)) && in_range 16 (w_seq m)) with true by (unfold in_range; lia).
    eexists. split; [reflexivity|]. rewrite !len_app, Lq, !len_cons. cbn [wsum].
    assert (Hb : forall z, len (be 2 z) = 2) by (intros; unfold len; rewrite be_length; reflexivity).
    rewrite !Hb. change (len (@nil byte)) with 0. lia.
Qed.

Lemma encode_msgs_total ms : Forall wmsg_ok ms -> exists p, encode_msgs ms = Ok p /\ len p = wsize ms.
Proof.
  intros H. unfold wsize. destruct ms as [|m1 [|m2 r]].
  - exists []. split; reflexivity.
  - inversion H as [|? ? [Hs Hl] _]; subst. cbn [encode_msgs].
    replace (in_range 16 (w_seq m1)) with true by (unfold in_range; lia).
    eexists. split; [reflexivity|]. rewrite len_app. unfold len at 1. rewrite be_length.
    cbn [wsum]. change (overhead (len [m1])) with 2. lia.
  - rewrite encode_msgs_multi. destruct (enc_multi_total _ H) as (p & Ep & Lp).
    exists p. split; [exact Ep|]. rewrite Lp. unfold overhead.
    assert (len (m1 :: m2 :: r) >= 2) by (rewrite !len_cons; pose proof (len_nonneg r); lia).
    repeat dif; lia.
Qed.

(* struct.error cases of Packet.create *)
Lemma enc_multi_err l e : enc_multi l = Err e -> e = EStruct.
Proof.
  revert e. induction l as [|x l IH]; intros e E; [discriminate|].
  cbn [enc_multi fold_right] in E. fold (enc_multi l) in E.
  destruct (enc_multi l) as [q|e']; cbn [bind] in E.
  - destruct (_ && _); [discriminate|]. congruence.
  - injection E as <-. apply IH. reflexivity.
Qed.

Lemma enc_multi_refuses m l : In m l -> ~ (0 <= w_seq m < 2 ^ 16) -> enc_multi l = Err EStruct.
Proof.
  intros Hin Hbad. induction l as [|x l IH]; [destruct Hin|].
  cbn [enc_multi fold_right]. fold (enc_multi l).
  destruct Hin as [->|Hx].
  - destruct (enc_multi l) as [q|e'] eqn:Eq; cbn [bind].
    + replace (in_range 16 (w_seq m)) with false by (unfold in_range; lia). rewrite andb_false_r. reflexivity.
    + rewrite (enc_multi_err _ _ Eq). reflexivity.
  - rewrite (IH Hx). reflexivity.
Qed.

Lemma encode_msgs_refuses_seq ms m : In m ms -> ~ (0 <= w_seq m < 2 ^ 16) -> encode_msgs ms = Err EStruct.
Proof.
  intros Hin Hbad.
  destruct ms as [|m1 [|m2 r]]; [destruct Hin| |].
  - destruct Hin as [->|[]]. cbn [encode_msgs].
    replace (in_range 16 (w_seq m)) with false by (unfold in_range; lia). reflexivity.
  - rewrite encode_msgs_multi. apply (enc_multi_refuses m); assumption.
Qed.

(* converse: what Packet.create accepted was in range, and its length is the accounted size *)
Lemma enc_multi_inv ms p : enc_multi ms = Ok p ->
  Forall (fun m => 0 <= w_seq m < 2 ^ 16) ms /\ len p = wsum ms + 5 * len ms.
Proof.
  revert p. induction ms as [|m ms IH]; intros p E.
  - injection E as <-. split; [constructor|reflexivity].
  - cbn [enc_multi fold_right] in E. fold (enc_multi ms) in E.
    destruct (enc_multi ms) as [q|] eqn:Eq; cbn [bind] in E; [|discriminate].
    destruct (in_range 16 (len (w_payload m)) && in_range 16 (w_seq m)) eqn:Hr; [|discriminate].
    injection E as <-. destruct (IH q eq_refl) as [Hf Lq].
    split; [constructor; [unfold in_range in Hr; lia|exact Hf]|].
    rewrite !len_cons, len_app, Lq. cbn [wsum]. lia.
Qed.

Lemma encode_msgs_inv ms p : encode_msgs ms = Ok p ->
  Forall (fun m => 0 <= w_seq m < 2 ^ 16) ms /\ len p = wsize ms.
Proof.
  unfold wsize. destruct ms as [|m1 [|m2 r]]; intros E.
  - injection E as <-. split; [constructor|reflexivity].
  - cbn [encode_msgs] in E. destruct (in_range 16 (w_seq m1)) eqn:Hr; [|discriminate]. injection E as <-.
    split; [constructor; [unfold in_range in Hr; lia|constructor]|].
    cbn [be app]. change (overhead (len [m1])) with 2. rewrite !len_cons. cbn [wsum]. lia.
  - rewrite encode_msgs_multi in E. destruct (enc_multi_inv _ _ E) as [Hf Lp]. split; [exact Hf|].
    rewrite Lp. unfold overhead.
    assert (len (m1 :: m2 :: r) >= 2) by (rewrite !len_cons; pose proof (len_nonneg r); lia).
    repeat dif; lia.
Qed.

Lemma encode_msgs_err ms e : encode_msgs ms = Err e -> e = EStruct.
Proof.
  destruct ms as [|m1 [|m2 r]]; intros E; [discriminate| |].
  - cbn [encode_msgs] in E. destruct (in_range 16 (w_seq m1)); [discriminate|congruence].
  - rewrite encode_msgs_multi in E. apply (enc_multi_err _ _ E).
Qed.

Lemma wsum_each ms m : In m ms -> len (w_payload m) <= wsum ms.
Proof.
  induction ms as [|x ms IH]; intros H; [destruct H|]. cbn [wsum].
  pose proof (wsum_nonneg ms). pose proof (len_nonneg (w_payload x)).
  destruct H as [->|H]; [lia|]. specialize (IH H). lia.
Qed.

Lemma overhead_nonneg n : 0 <= n -> 0 <= overhead n.
Proof. unfold overhead. intros. repeat dif; lia. Qed.

(* everything Packet.create + PacketHeader.to_bytes need of a packet *)
Definition enc_ok (h0 : header) (ms : list wmsg) : Prop :=
  hdr_fields_ok h0 /\ len ms <= 255 /\ Forall (fun m => 0 <= w_seq m < 2 ^ 16) ms /\ wsize ms < 2 ^ 16.

Lemma enc_ok_wmsg_ok h0 ms : enc_ok h0 ms -> Forall wmsg_ok ms.
Proof.
  intros (_ & _ & Hf & Hs). apply Forall_forall. intros m Hm. split.
  - rewrite Forall_forall in Hf. apply Hf. exact Hm.
  - pose proof (wsum_each _ _ Hm). unfold wsize in Hs. pose proof (overhead_nonneg (len ms) (len_nonneg ms)). lia.
Qed.

Section FramingTotal.
  Variable crc : list byte -> Z.
  Variable seal : Z -> list byte -> list byte -> list byte -> list byte.

  (* Packet.create + to_bytes succeed exactly on in-range packets; the only error is struct.error *)
  Lemma to_bytes_ok_iff key h0 ms : (exists d, to_bytes crc seal key h0 ms = Ok d) <-> enc_ok h0 ms.
  Proof.
    split.
    - intros [d E]. unfold to_bytes in E.
      destruct (encode_msgs ms) as [payload|] eqn:Ep; cbn [bind] in E; [|discriminate].
      match type of E with context [encode_header ?hh] => set (h := hh) in * end.
      destruct (encode_header h) as [hb|] eqn:Eh; cbn [bind] in E; [|discriminate].
      assert (Hok : header_ok h = true) by (unfold encode_header in Eh; destruct (header_ok h); [reflexivity|discriminate]).
      apply header_ok_spec in Hok. destruct Hok as (Hf & Hl & Hc). cbn [h h_len h_count] in Hl, Hc.
      destruct (encode_msgs_inv _ _ Ep) as [Hs Lp].
      split; [exact Hf|]. split; [lia|]. split; [exact Hs|lia].
    - intros Hok. pose proof (enc_ok_wmsg_ok _ _ Hok) as Hw. destruct Hok as (Hf & Hn & Hs & Hz).
      destruct (encode_msgs_total ms Hw) as (payload & Ep & Lp).
      unfold to_bytes. rewrite Ep. cbn [bind].
      match goal with |- context [encode_header ?hh] => set (h := hh) end.
      assert (Hh : header_ok h = true).
      { apply header_ok_spec. split; [exact Hf|]. cbn [h h_len h_count].
        pose proof (len_nonneg payload). pose proof (len_nonneg ms). lia. }
      unfold encode_header. rewrite Hh. cbn [bind].
      destruct key as [k|]; [destruct (negb _)|]; eexists; reflexivity.
  Qed.

  Lemma to_bytes_err key h0 ms e : to_bytes crc seal key h0 ms = Err e -> e = EStruct.
  Proof.
    unfold to_bytes. intros E.
    destruct (encode_msgs ms) as [payload|e'] eqn:Ep; cbn [bind] in E.
    - match type of E with context [encode_header ?hh] => set (h := hh) in * end.
      unfold encode_header in E. destruct (header_ok h); cbn [bind] in E; [|congruence].
      destruct key as [k|]; [destruct (negb _)|]; discriminate.
    - injection E as <-. apply (encode_msgs_err _ _ Ep).
  Qed.

  Theorem out_of_range_refused_proof key h0 ms : ~ enc_ok h0 ms -> to_bytes crc seal key h0 ms = Err EStruct.
  Proof.
    intros Hn. destruct (to_bytes crc seal key h0 ms) as [d|e] eqn:E.
    - exfalso. apply Hn. apply (to_bytes_ok_iff key). exists d. exact E.
    - rewrite (to_bytes_err _ _ _ _ E). reflexivity.
  Qed.

End FramingTotal.

Section FramingC09.
  Variable crc : list byte -> Z.
  Variable seal : Z -> list byte -> list byte -> list byte -> list byte.
  Variable open : Z -> list byte -> list byte -> list byte -> option (list byte).
  Hypothesis crc_range : forall l, 0 <= crc l < 2 ^ 32.
  Hypothesis open_seal : forall k iv aad p, open k iv aad (seal k iv aad p) = Some p.
  Hypothesis seal_length : forall k iv aad p, length (seal k iv aad p) = (length p + 16)%nat.

  (* full round trip: every in-range packet is encoded, and decoding what was encoded (with
     anything after it in the receive buffer) gives back the header — with length and count
     describing the payload — and the messages *)
  Theorem pkt_roundtrip_proof key h0 ms extra :
    enc_ok h0 ms -> (forall m, ms = [m] -> w_type m = h_type h0) ->
    exists d payload,
      to_bytes crc seal key h0 ms = Ok d /\ encode_msgs ms = Ok payload /\ len payload = wsize ms
      /\ len d = 20 + len payload + (match rx_key key (h_type h0) with Some _ => 16 | None => 4 end)
      /\ decode_header (h_to_server h0) (d ++ extra) = Ok (built_header h0 ms payload)
      /\ from_bytes crc open (rx_key key (h_type h0)) (built_header h0 ms payload) (d ++ extra) = Ok ms.
  Proof.
    intros Hok Ht. destruct (proj2 (to_bytes_ok_iff crc seal key h0 ms) Hok) as [d E].
    destruct (pkt_roundtrip crc seal open crc_range open_seal seal_length key h0 ms d extra E Ht)
      as (payload & Ep & Ld & Dh & Fb).
    exists d, payload. split; [exact E|]. split; [exact Ep|].
    split; [apply (encode_msgs_inv _ _ Ep)|]. split; [exact Ld|]. split; [exact Dh|exact Fb].
  Qed.
End FramingC09.

(* ------------------------------------------------------------------ what emit hands to the socket *)

Lemma wmsg_sum ms : wsum (map wmsg_of ms) = sum_len ms.
Proof. induction ms as [|m ms IH]; cbn [map wsum sum_len wmsg_of w_payload]; lia. Qed.

Lemma wsize_payload_size ms : wsize (map wmsg_of ms) = payload_size ms.
Proof. unfold wsize, payload_size. rewrite wmsg_sum. unfold len. rewrite map_length. reflexivity. Qed.

Definition emit_header (h0 : header) (p : list byte) : header :=
  {| h_to_server := h_to_server h0; h_ctime := h_ctime h0; h_seq := h_seq h0; h_ack := h_ack h0;
     h_type := h_type h0; h_len := len p; h_count := h_count h0; h_ackbits := h_ackbits h0 |}.

Lemma emit_spec c h0 ms h k p : In (OEmit h k p) (emit c (h0, ms)) ->
  encode_msgs (map wmsg_of ms) = Ok p /\ h = emit_header h0 p /\ k = rx_key (c_key c) (h_type h0).
Proof.
  unfold emit. destruct (encode_msgs (map wmsg_of ms)) as [q|e]; [|intros [H|[]]; discriminate].
  unfold rx_key. cbn [h_type].
  destruct (c_key c) as [kk|]; [destruct (negb _)|]; intros [H|[]]; injection H as <- <- <-;
    (split; [reflexivity|split; reflexivity]).
Qed.

Lemma sum_len_nonneg ms : 0 <= sum_len ms.
Proof. induction ms as [|m ms IH]; cbn [sum_len]; [lia|]. pose proof (len_nonneg (m_payload m)). lia. Qed.

(* every datagram built by _build_packet_impl fits MAX_SIZE = mtu - 28, sealed or clear, whatever is queued *)
Theorem mtu_respected_build mtu e c now ka delay c' pk cx h k p :
  64 <= mtu -> env_of_mtu mtu = Ok e ->
  build_impl e c now ka delay = (c', Some pk) ->
  In (OEmit h k p) (emit cx pk) ->
  dgram_len true p <= max_dgram mtu /\ dgram_len false p <= max_dgram mtu
  /\ h_len h = len p /\ h_count h = len (snd pk) /\ h_count h <= 255.
Proof.
  intros Hm He Hb Hin. destruct pk as [h0 ms].
  destruct (build_impl_size _ _ _ _ _ _ _ _ Hb) as (Hn & Hc & Hs).
  destruct (emit_spec _ _ _ _ _ _ Hin) as (Ep & -> & _).
  destruct (encode_msgs_inv _ _ Ep) as [_ Lp]. rewrite wsize_payload_size in Lp.
  pose proof (budget_spec _ _ He) as Hbud. unfold dgram_len, max_dgram in *.
  change gen_Packet_UDP_HEADER_SIZE with 28 in *. change gen_PacketHeader_SIZE with 20 in *.
  change gen_PacketHeader_TAG_SIZE with 16 in *. change gen_PacketHeader_CRC_SIZE with 4.
  change gen_Packet_MESSAGE_OVERHEAD_1 with 2 in *.
  assert (Hp : len p <= mtu - 64).
  { destruct ms as [|m0 ms'].
    - rewrite Lp. cbn. lia.
    - rewrite Lp. specialize (Hs ltac:(discriminate)). lia. }
  cbn [snd emit_header h_len h_count]. repeat split; lia.
Qed.

(* ---- only packet assembly emits datagrams: the other parts of a step never do ---- *)
Lemma emitted_app a b : emitted (a ++ b) = emitted a ++ emitted b.
Proof. induction a as [|x a IH]; [reflexivity|]. destruct x; cbn [emitted app]; rewrite ?IH; reflexivity. Qed.

Lemma emitted_in os h k p : In (h, k, p) (emitted os) <-> In (OEmit h k p) os.
Proof.
  induction os as [|x os IH]; [tauto|]. destruct x; cbn [emitted In]; rewrite ?IH;
    try (split; [intros H; right; exact H|intros [H|H]; [discriminate|exact H]]).
  split; intros [H|H]; [left; congruence|right; exact H|left; congruence|right; exact H].
Qed.

Lemma fire_icb_noemit c k ok : emitted (snd (fire_icb c k ok)) = [].
Proof.
  destruct k; cbn [fire_icb]; try reflexivity.
  - destruct (dget fid (c_pfrags c)); [|reflexivity]. destruct (forallb _ _); [|reflexivity].
    cbn [snd]. destruct (fs_ucb f); reflexivity.
  - destruct ok; reflexivity.
  - destruct ok; reflexivity.
Qed.

Lemma fire_cb_noemit c k ok : emitted (snd (fire_cb c k ok)) = [].
Proof.
  destruct k; cbn [fire_cb]; [apply fire_icb_noemit|].
  destruct (zmem _ _); [reflexivity|]. destruct (negb ok); [reflexivity|apply fire_icb_noemit].
Qed.

Lemma fire_all_noemit ks : forall c ok, emitted (snd (fire_all c ks ok)) = [].
Proof.
  induction ks as [|k ks IH]; intros c ok; [reflexivity|]. cbn [fire_all].
  pose proof (fire_cb_noemit c k ok) as H1. destruct (fire_cb c k ok) as [c1 o1].
  pose proof (IH c1 ok) as H2. destruct (fire_all c1 ks ok) as [c2 o2]. cbn [snd] in *.
  rewrite emitted_app, H1, H2. reflexivity.
Qed.

Lemma resolve_noemit ok c s : emitted (snd (resolve ok c s)) = [].
Proof.
  unfold resolve.
  set (c0 := if ok then _ else _).
  destruct (dget s (c_pcbs c0)) as [ks|].
  - pose proof (fire_all_noemit ks c0 ok) as H. destruct (fire_all c0 ks ok) as [c' o]. cbn [snd] in *.
    cbv beta iota zeta. exact H.
  - reflexivity.
Qed.

Lemma ack_loop_noemit h snap : forall c, emitted (snd (ack_loop c h snap)) = [].
Proof.
  induction snap as [|[s t] r IH]; intros c; [reflexivity|]. cbn [ack_loop].
  assert (H1 : emitted (snd (if hdr_acks (h_ack h) (h_ackbits h) s then resolve true c s
                              else if c_last_recv c - t >? c_out_timeout c then resolve false c s else (c, []))) = []).
  { destruct (hdr_acks _ _ _); [apply resolve_noemit|]. destruct (_ >? _); [apply resolve_noemit|reflexivity]. }
  match type of H1 with emitted (snd ?X) = [] => destruct X as [c1 o1] end.
  pose proof (IH c1) as H2. destruct (ack_loop c1 h r) as [c2 o2]. cbn [snd] in *.
  rewrite emitted_app, H1, H2. reflexivity.
Qed.

Lemma timeout_loop_noemit strict now snap : forall c, emitted (snd (timeout_loop strict c now snap)) = [].
Proof.
  induction snap as [|[s t] r IH]; intros c; [reflexivity|]. cbn [timeout_loop].
  assert (H1 : emitted (snd (if (if strict then now - t >? c_out_timeout c else now - t >=? c_out_timeout c)
                              then resolve false c s else (c, []))) = []).
  { destruct (if strict then _ else _); [apply resolve_noemit|reflexivity]. }
  match type of H1 with emitted (snd ?X) = [] => destruct X as [c1 o1] end.
  pose proof (IH c1) as H2. destruct (timeout_loop strict c1 now r) as [c2 o2]. cbn [snd] in *.
  rewrite emitted_app, H1, H2. reflexivity.
Qed.

Lemma recv_fragment_noemit c now mseq frag : emitted (snd (recv_fragment c now mseq frag)) = [].
Proof. unfold recv_fragment. destruct (_ <? _)%nat; reflexivity. Qed.

Lemma recv_handshake_noemit c ty o : emitted (snd (recv_handshake c ty o)) = [].
Proof.
  unfold recv_handshake.
  destruct ty, (c_server c); try reflexivity;
    repeat (match goal with |- context [if ?b then _ else _] => destruct b end; try reflexivity);
    repeat (match goal with |- context [match ?b with Some _ => _ | None => _ end] => destruct b end; try reflexivity);
    repeat (match goal with |- context [if ?b then _ else _] => destruct b end; try reflexivity).
Qed.

Lemma recv_msgs_noemit now ms : forall c orcs, emitted (snd (recv_msgs c now ms orcs)) = [].
Proof.
  induction ms as [|m ms IH]; intros c orcs; [reflexivity|]. cbn [recv_msgs].
  destruct (bf_insert (c_bf_msg c) (w_seq m)) as [bf|]; [|apply IH].
  set (c0 := c <| c_bf_msg := bf |>).
  assert (H1 : forall c1 o1 orcs',
    match w_type m with
    | APP => (recv_app c0 (w_seq m) (w_payload m), [], orcs)
    | APP_FRAGMENT => let '(c', o') := recv_fragment c0 now (w_seq m) (w_payload m) in (c', o', orcs)
    | DISCONNECT => (c0 <| c_status := DISCONNECTING |>, [], orcs)
    | KEEP_ALIVE | UNKNOWN => (c0, [], orcs)
    | t => let '(c', o') := recv_handshake c0 t (hd no_oracle orcs) in (c', o', tl orcs)
    end = (c1, o1, orcs') -> emitted o1 = []).
  { intros c1 o1 orcs'. destruct (w_type m);
      try (intros H; injection H as <- <- <-; reflexivity);
      try (pose proof (recv_handshake_noemit c0 (w_type m) (hd no_oracle orcs)) as Hh;
           match goal with |- context [recv_handshake c0 ?t ?o] =>
             pose proof (recv_handshake_noemit c0 t o) as Hh'; destruct (recv_handshake c0 t o) as [c' o'] end;
           intros H; injection H as <- <- <-; exact Hh').
    pose proof (recv_fragment_noemit c0 now (w_seq m) (w_payload m)) as Hf.
    destruct (recv_fragment c0 now (w_seq m) (w_payload m)) as [c' o']. intros H; injection H as <- <- <-. exact Hf. }
  destruct (match w_type m with APP => _ | _ => _ end) as [[c1 o1] orcs'] eqn:E1.
  specialize (H1 _ _ _ eq_refl).
  destruct (raised o1); [exact H1|].
  pose proof (IH c1 orcs') as H2. destruct (recv_msgs c1 now ms orcs') as [c2 o2]. cbn [snd] in *.
  rewrite emitted_app, H1, H2. reflexivity.
Qed.

Lemma recv_noemit c now d orcs : emitted (snd (recv c now d orcs)) = [].
Proof.
  unfold recv. destruct (keyless_refuses _ _); [reflexivity|].
  destruct (open_dgram _ _) as [ms|]; [|reflexivity].
  destruct (bf_insert _ _) as [bf|]; [|reflexivity].
  set (c0 := _ <| c_last_recv := now |>).
  pose proof (ack_loop_noemit (d_hdr d) (c_packs c0) c0) as H1. unfold handle_ack_bits.
  destruct (ack_loop c0 (d_hdr d) (c_packs c0)) as [c1 o1].
  pose proof (recv_msgs_noemit now ms c1 orcs) as H2. destruct (recv_msgs c1 now ms orcs) as [c2 o2].
  cbn [snd] in *. rewrite !emitted_app, H1, H2. destruct (raised o2); reflexivity.
Qed.

Lemma emitted_filter_ret os :
  emitted (filter (fun x => match x with ORet _ => false | _ => true end) os) = emitted os.
Proof. induction os as [|x os IH]; [reflexivity|]. destruct x; cbn [filter emitted]; rewrite ?IH; reflexivity. Qed.

Lemma client_update_noemit c now : emitted (snd (client_update c now)) = [].
Proof.
  unfold client_update.
  match goal with |- context [if ?b then c <| c_status := DROPPED |> else c] =>
    set (c0 := if b then c <| c_status := DROPPED |> else c) end.
  match goal with |- context [if ?b then _ else (c0, [])] => destruct b end; [|reflexivity].
  cbn [snd]. destruct (c_conn_cb c0); reflexivity.
Qed.

(* a datagram among the outputs of any step was produced by emit from a result of build_impl *)
Lemma build_packet_some e c now c' pk : build_packet e c now = (c', Some pk) ->
  exists c0 ka delay c1, build_impl e c0 now ka delay = (c1, Some pk).
Proof.
  unfold build_packet. destruct (_ <? _); [discriminate|].
  destruct (build_impl e c now _ _) as [c1 [pk'|]] eqn:E; [|discriminate].
  intros H. injection H as _ <-. eauto.
Qed.

Lemma step_emits e c x c' os h k p :
  step e c x = (c', os) -> In (OEmit h k p) os ->
  exists c0 now ka delay c1 pk cx, build_impl e c0 now ka delay = (c1, Some pk) /\ In (OEmit h k p) (emit cx pk).
Proof.
  intros E Hin. apply emitted_in in Hin.
  destruct x; cbn [step] in E.
  - (* send *) exfalso. unfold send in E.
    destruct (negb _); [injection E as _ <-; exact Hin|].
    destruct (_ >? _); [|injection E as _ <-; exact Hin].
    destruct (_ >? _); injection E as _ <-; destruct Hin.
  - (* client tick *)
    unfold client_tick in E.
    pose proof (client_update_noemit c now) as H0. destruct (client_update c now) as [c0 o0]. cbn [snd] in H0.
    destruct (status_eqb _ _); [injection E as _ <-; rewrite H0 in Hin; destruct Hin|].
    assert (H1 : forall c1 o1, match r with
                 | RxNone => (c0, [])
                 | RxBadHeader er => (c0, [ORaise er])
                 | RxDgram d orcs => let '(c', o') := recv c0 now d orcs in
                     (c', filter (fun x => match x with ORet _ => false | _ => true end) o')
                 end = (c1, o1) -> emitted o1 = []).
    { intros c1 o1. destruct r as [|er|d orcs]; try (intros H; injection H as _ <-; reflexivity).
      pose proof (recv_noemit c0 now d orcs) as Hr. destruct (recv c0 now d orcs) as [c'' o''].
      intros H; injection H as _ <-. rewrite emitted_filter_ret. exact Hr. }
    destruct (match r with RxNone => _ | _ => _ end) as [c1 o1] eqn:E1. specialize (H1 _ _ eq_refl).
    destruct (raised o1); [injection E as _ <-; rewrite emitted_app, H0, H1 in Hin; destruct Hin|].
    destruct (_ >? _); [|injection E as _ <-; rewrite emitted_app, H0, H1 in Hin; destruct Hin].
    destruct (build_packet e c1 now) as [c2 pk] eqn:Eb.
    pose proof (timeout_loop_noemit false now (c_packs c2) c2) as H3. unfold check_timeout in E.
    destruct (timeout_loop false c2 now (c_packs c2)) as [c3 o3]. cbn [snd] in H3.
    injection E as _ <-. rewrite !emitted_app, H0, H1, H3, app_nil_r in Hin. cbn [app] in Hin.
    destruct pk as [pk|]; [|destruct Hin].
    destruct (build_packet_some _ _ _ _ _ Eb) as (cc & ka & dl & cc1 & Hb).
    apply emitted_in in Hin. exists cc, now, ka, dl, cc1, pk, c2. split; assumption.
  - (* server tick *)
    unfold server_tick in E. destruct (_ >? _); [|injection E as _ <-; destruct Hin].
    destruct (build_packet e c now) as [c2 pk] eqn:Eb.
    pose proof (timeout_loop_noemit true now (c_packs c2) c2) as H3. unfold check_timeout in E.
    destruct (timeout_loop true c2 now (c_packs c2)) as [c3 o3]. cbn [snd] in H3.
    injection E as _ <-. rewrite !emitted_app, H3 in Hin. cbn [app] in Hin.
    destruct pk as [pk|]; [|destruct Hin].
    destruct (build_packet_some _ _ _ _ _ Eb) as (cc & ka & dl & cc1 & Hb).
    apply emitted_in in Hin. exists cc, now, ka, dl, cc1, pk, c3. split; assumption.
  - (* recv *) exfalso. pose proof (recv_noemit c now d orcs) as H. rewrite E in H. cbn [snd] in H.
    rewrite H in Hin. destruct Hin.
  - injection E as _ <-. destruct Hin.
  - injection E as _ <-. destruct Hin.
  - injection E as _ <-. destruct Hin.
  - injection E as _ <-. destruct Hin.
  - injection E as _ <-. destruct Hin.
Qed.

(* every datagram handed to the socket in any history, from any state, respects the MTU *)
Theorem mtu_respected_run mtu e : 64 <= mtu -> env_of_mtu mtu = Ok e ->
  forall xs c c' outs, run e c xs = (c', outs) ->
  forall h k p, In (OEmit h k p) (concat outs) ->
    dgram_len true p <= max_dgram mtu /\ dgram_len false p <= max_dgram mtu
    /\ h_len h = len p /\ h_count h <= 255.
Proof.
  intros Hm He. induction xs as [|x xs IH]; intros c c' outs E h k p Hin.
  - injection E as _ <-. destruct Hin.
  - cbn [run] in E. destruct (step e c x) as [c1 o] eqn:Es. destruct (run e c1 xs) as [c2 os] eqn:Er.
    injection E as _ <-. cbn [concat] in Hin. apply in_app_or in Hin as [Hin|Hin].
    + destruct (step_emits _ _ _ _ _ _ _ _ Es Hin) as (c0 & now & ka & dl & cc1 & pk & cx & Hb & He').
      destruct (mtu_respected_build _ _ _ _ _ _ _ _ _ _ _ _ Hm He Hb He') as (A & B & C & D & F).
      repeat split; assumption.
    + apply (IH _ _ _ Er _ _ _ Hin).
Qed.

(* ------------------------------------------------------------------ packing is total *)

(* count <= 255, and chosen/remaining is an order-preserving partition of the queue *)
Theorem pack_total_build e c now ka delay c' r :
  no_unknown c ->
  build_impl e c now ka delay = (c', r) ->
  exists from_retry from_out,
    Interleave from_out (c_outgoing c') (c_outgoing c)
    /\ (forall m, In m from_retry -> In m (map snd (c_pretry_msg c)))
    /\ match r with
       | Some (h, ms) => ms = map (stamp now) (from_retry ++ from_out) /\ h_count h = len ms /\ len ms <= 255
       | None => from_retry = [] /\ from_out = []
       end.
Proof.
  intros Hnu E. destruct (build_impl_partition _ _ _ _ _ _ _ Hnu E) as (fr & fo & H1 & H2 & H3).
  exists fr, fo. split; [exact H1|]. split; [exact H2|].
  destruct r as [[h ms]|]; [|exact H3].
  destruct (build_impl_size _ _ _ _ _ _ _ _ E) as (Hn & Hc & _). split; [exact H3|]. split; assumption.
Qed.

(* the toy AEAD satisfies the hypotheses of the round-trip theorems *)
Lemma bytes_eqb_refl l : bytes_eqb l l = true.
Proof.
  unfold bytes_eqb. rewrite Nat.eqb_refl. cbn [andb].
  induction l as [|b l IH]; [reflexivity|]. cbn [combine forallb fst snd]. rewrite IH.
  rewrite andb_true_r. destruct (Byte.eqb b b) eqn:E; [reflexivity|].
  apply Byte.eqb_false in E. contradiction E. reflexivity.
Qed.

Lemma toy_tag_length k iv aad : length (toy_tag k iv aad) = 16%nat.
Proof. unfold toy_tag. rewrite !app_length, !be_length. reflexivity. Qed.

Lemma toy_open_seal k iv aad p : toy_open k iv aad (toy_seal k iv aad p) = Some p.
Proof.
  unfold toy_open, toy_seal. rewrite app_length, toy_tag_length.
  replace (length p + 16 - 16)%nat with (length p) by lia.
  rewrite skipn_app_exact, firstn_app_exact, bytes_eqb_refl.
  replace (16 <=? length p + 16)%nat with true by lia. reflexivity.
Qed.

Lemma toy_seal_length k iv aad p : length (toy_seal k iv aad p) = (length p + 16)%nat.
Proof. unfold toy_seal. rewrite app_length, toy_tag_length. reflexivity. Qed.

Lemma crc32_range l : 0 <= crc32 l < 2 ^ 32.
Proof.
  assert (Hs : forall c, 0 <= c < 2 ^ 32 -> 0 <= crc_step c < 2 ^ 32).
  { intros c Hc. unfold crc_step.
    assert (Hr : 0 <= Z.shiftr c 1 < 2 ^ 31) by (rewrite Z.shiftr_div_pow2 by lia; change (2 ^ 1) with 2; lia).
    destruct (Z.testbit c 0); [|lia].
    split; [apply Z.lxor_nonneg; lia|].
    apply Z.log2_lt_cancel. change (Z.log2 (2 ^ 32)) with 32.
    destruct (Z.eq_dec (Z.lxor (Z.shiftr c 1) 3988292384) 0) as [->|Hne]; [cbn; lia|].
    pose proof (Z.log2_lxor (Z.shiftr c 1) 3988292384 ltac:(lia) ltac:(lia)) as Hl.
    change (Z.log2 3988292384) with 31 in Hl.
    assert (Z.log2 (Z.shiftr c 1) <= 31).
    { destruct (Z.eq_dec (Z.shiftr c 1) 0) as [->|Hn0]; [cbn; lia|].
      assert (Z.log2 (Z.shiftr c 1) < 31) by (apply Z.log2_lt_pow2; lia). lia. }
    lia. }
  assert (Hx : forall a b, 0 <= a < 2 ^ 32 -> 0 <= b < 2 ^ 32 -> 0 <= Z.lxor a b < 2 ^ 32).
  { intros a b Ha Hb. split; [apply Z.lxor_nonneg; lia|].
    destruct (Z.eq_dec (Z.lxor a b) 0) as [->|Hne]; [lia|].
    apply Z.log2_lt_cancel. change (Z.log2 (2 ^ 32)) with 32.
    pose proof (Z.log2_lxor a b ltac:(lia) ltac:(lia)).
    assert (Z.log2 a < 32) by (destruct (Z.eq_dec a 0) as [->|]; [cbn; lia|apply Z.log2_lt_pow2; lia]).
    assert (Z.log2 b < 32) by (destruct (Z.eq_dec b 0) as [->|]; [cbn; lia|apply Z.log2_lt_pow2; lia]).
    lia. }
  assert (Hb : forall c b, 0 <= c < 2 ^ 32 -> 0 <= crc_byte c b < 2 ^ 32).
  { intros c b Hc. unfold crc_byte. pose proof (Z_of_byte_range b).
    repeat apply Hs. apply Hx; lia. }
  unfold crc32. apply Hx; [|lia].
  assert (Hf : forall l c, 0 <= c < 2 ^ 32 -> 0 <= fold_left crc_byte l c < 2 ^ 32).
  { induction l0 as [|b l0 IH]; intros c Hc; [exact Hc|]. cbn [fold_left]. apply IH. apply Hb. exact Hc. }
  apply Hf. lia.
Qed.
