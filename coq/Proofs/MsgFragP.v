(* MsgFragP.v — C07 message level, mixed traffic: where a reported callback id comes from.  A success
   callback `OCallback id true` is either reported by a callback object registered for a pending
   datagram that carries the user callback IUser id itself (plain or wrapped by a RetrySender), or
   by the collector of a fragmented send: then id is the user callback of a fragment-sender context
   that was in pending_fragments when the step began (FU).  Fragment-sender contexts only ever
   come from oversized sends. *)
From Coq Require Import Lia ZifyBool.
From RecordUpdate Require Import RecordUpdate.
From Model Require Import Base SeqNum Wire Conn Net Net2 Net3.
From Proofs Require Import Tac SeqNumP ConnFrameP NonceP PackP ClearP AckP CallbackP CustodyP AckNamesP AckNetP.
Import RecordSetNotations.
Open Scope Z_scope.

Definition FU (c : conn) (id : Z) : Prop :=
  exists fid fs, dget fid (c_pfrags c) = Some fs /\ fs_ucb fs = IUser id.
Definition FUsub (c c' : conn) : Prop := forall id, FU c' id -> FU c id.

Lemma FUsub_refl c : FUsub c c. Proof. intros id H. exact H. Qed.
Lemma FUsub_trans a b c : FUsub a b -> FUsub b c -> FUsub a c.
Proof. intros H1 H2 id H. apply H1, H2, H. Qed.
Lemma FUsub_eq c c' : c_pfrags c' = c_pfrags c -> FUsub c c'.
Proof. intros E id (fid & fs & H1 & H2). exists fid, fs. rewrite <- E. auto. Qed.

Lemma fire_icb_src c i ok c' o : fire_icb c i ok = (c', o) ->
  FUsub c c' /\ forall id b, In (OCallback id b) o -> i = IUser id \/ FU c id.
Proof.
  unfold fire_icb. intros E. destruct i.
  - injection E as <- <-. split; [apply FUsub_refl|intros id b []].
  - injection E as <- <-. split; [apply FUsub_refl|]. intros id0 b [H|[]]. injection H as -> _. left. reflexivity.
  - destruct (dget fid (c_pfrags c)) as [fs|] eqn:Eg; [|injection E as <- <-; split; [apply FUsub_refl|intros id b []]].
    destruct (forallb is_some _); injection E as <- <-.
    + split.
      * intros id (fid' & fs' & H1 & H2). cbn in H1. rewrite dget_ddel in H1. destruct (fid' =? fid); [discriminate|].
        exists fid', fs'. auto.
      * intros id b Hin. right. exists fid, fs. split; [exact Eg|].
        destruct (fs_ucb fs); try destruct Hin as [H|[]]; try destruct Hin. injection H as -> _. reflexivity.
    + split; [|intros id b []].
      intros id (fid' & fs' & H1 & H2). cbn in H1. rewrite dget_dset in H1. destruct (fid' =? fid) eqn:Ef.
      * injection H1 as <-. cbn in H2. exists fid, fs. auto.
      * exists fid', fs'. auto.
  - injection E as <- <-. split; [apply FUsub_refl|]. intros id b Hin. destruct ok; cbn in Hin; [destruct Hin|destruct Hin as [H|[]]; discriminate].
  - injection E as <- <-. split; [apply FUsub_refl|]. intros id b Hin. destruct ok; cbn in Hin; [destruct Hin|destruct Hin as [H|[]]; discriminate].
  - injection E as <- <-. split; [apply FUsub_refl|]. intros id b [H|[]]. discriminate.
Qed.

Lemma fire_cb_src c k ok c' o : fire_cb c k ok = (c', o) ->
  FUsub c c' /\ forall id b, In (OCallback id b) o -> cb_inner k = IUser id \/ FU c id.
Proof.
  unfold fire_cb. intros E. destruct k as [i|rid mseq ty p i]; cbn [cb_inner].
  - eapply fire_icb_src; exact E.
  - destruct (zmem rid (c_done c)); [injection E as <- <-; split; [apply FUsub_refl|intros id b []]|].
    destruct (negb ok); [injection E as <- <-; split; [apply FUsub_eq; reflexivity|intros id b []]|].
    destruct (fire_icb_src _ _ _ _ _ E) as [A B]. split; [exact A|exact B].
Qed.

Lemma fire_all_src ks : forall c ok c' o, fire_all c ks ok = (c', o) ->
  FUsub c c' /\ forall id b, In (OCallback id b) o -> (exists k, In k ks /\ cb_inner k = IUser id) \/ FU c id.
Proof.
  induction ks as [|k ks IH]; intros c ok c' o E; cbn [fire_all] in E.
  - injection E as <- <-. split; [apply FUsub_refl|intros id b []].
  - destruct (fire_cb c k ok) as [c1 o1] eqn:E1. destruct (fire_all c1 ks ok) as [c2 o2] eqn:E2.
    injection E as <- <-. destruct (fire_cb_src _ _ _ _ _ E1) as [A1 B1]. destruct (IH _ _ _ _ E2) as [A2 B2].
    split; [eapply FUsub_trans; eassumption|].
    intros id b Hin. apply in_app_or in Hin as [Hin|Hin].
    + destruct (B1 id b Hin) as [H|H]; [left; exists k; split; [left; reflexivity|exact H]|right; exact H].
    + destruct (B2 id b Hin) as [(k' & H1 & H2)|H]; [left; exists k'; split; [right; exact H1|exact H2]|right; exact (A1 id H)].
Qed.

Lemma resolve_src ok c s c' o : resolve ok c s = (c', o) ->
  FUsub c c' /\ forall id b, In (OCallback id b) o ->
    (exists ks k, dget s (c_pcbs c) = Some ks /\ In k ks /\ cb_inner k = IUser id) \/ FU c id.
Proof.
  unfold resolve. intros E.
  set (c0 := if ok then _ else _) in E.
  assert (P0 : c_pcbs c0 = c_pcbs c /\ c_pfrags c0 = c_pfrags c) by (subst c0; destruct ok; auto).
  destruct P0 as [P0 F0]. rewrite <- P0.
  assert (S0 : FUsub c c0) by (apply FUsub_eq; exact F0).
  assert (S0' : FUsub c0 c) by (apply FUsub_eq; symmetry; exact F0).
  clearbody c0.
  destruct (dget s (c_pcbs c0)) as [ks|] eqn:Eg.
  - destruct (fire_all c0 ks ok) as [c1 o1] eqn:E1. injection E as <- <-.
    destruct (fire_all_src _ _ _ _ _ E1) as [A B].
    split.
    + eapply FUsub_trans; [exact S0|]. eapply FUsub_trans; [exact A|]. apply FUsub_eq.
      destruct (dget s (c_pretry _)); reflexivity.
    + intros id b Hin. destruct (B id b Hin) as [(k & H1 & H2)|H]; [left; exists ks, k; auto|right; exact (S0 id H)].
  - injection E as <- <-. split; [|intros id b []].
    eapply FUsub_trans; [exact S0|]. apply FUsub_eq. destruct (dget s (c_pretry c0)); reflexivity.
Qed.

Lemma ack_loop_FUsub h snap : forall c c' o, ack_loop c h snap = (c', o) -> FUsub c c'.
Proof.
  induction snap as [|[s t] r IH]; intros c c' o E; cbn [ack_loop] in E.
  - injection E as <- <-. apply FUsub_refl.
  - dpair E c1 o1 E1. destruct (ack_loop c1 h r) as [c2 o2] eqn:E2. injection E as <- <-.
    eapply FUsub_trans; [|eapply IH; exact E2].
    destruct (hdr_acks _ _ s); [apply (resolve_src _ _ _ _ _ E1)|].
    destruct (_ >? _); [apply (resolve_src _ _ _ _ _ E1)|]. injection E1 as <- <-. apply FUsub_refl.
Qed.

Lemma timeout_loop_FUsub strict now snap : forall c c' o, timeout_loop strict c now snap = (c', o) -> FUsub c c'.
Proof.
  induction snap as [|[s t] r IH]; intros c c' o E; cbn [timeout_loop] in E.
  - injection E as <- <-. apply FUsub_refl.
  - dpair E c1 o1 E1. destruct (timeout_loop strict c1 now r) as [c2 o2] eqn:E2. injection E as <- <-.
    eapply FUsub_trans; [|eapply IH; exact E2].
    match type of E1 with (if ?b then _ else _) = _ => destruct b end; [apply (resolve_src _ _ _ _ _ E1)|].
    injection E1 as <- <-. apply FUsub_refl.
Qed.

Lemma ack_loop_src h snap : forall c c' o id, Inc c -> ack_loop c h snap = (c', o) -> In (OCallback id true) o ->
  (exists s t ks k, In (s, t) snap /\ hdr_acks (h_ack h) (h_ackbits h) s = true /\
     dget s (c_pcbs c) = Some ks /\ In k ks /\ cb_inner k = IUser id) \/ FU c id.
Proof.
  induction snap as [|[s t] r IH]; intros c c' o id I E Hin; cbn [ack_loop] in E.
  - injection E as <- <-. destruct Hin.
  - dpair E c1 o1 E1. destruct (ack_loop c1 h r) as [c2 o2] eqn:E2. injection E as <- <-.
    assert (H1 : Inc c1 /\ (forall s' ks, dget s' (c_pcbs c1) = Some ks -> dget s' (c_pcbs c) = Some ks) /\ FUsub c c1).
    { destruct (hdr_acks _ _ s); [split; [eapply resolve_Inc; eassumption|split; [apply (resolve_for _ _ _ _ _ 0 true E1)|apply (resolve_src _ _ _ _ _ E1)]]|].
      destruct (_ >? _); [split; [eapply resolve_Inc; eassumption|split; [apply (resolve_for _ _ _ _ _ 0 true E1)|apply (resolve_src _ _ _ _ _ E1)]]|].
      injection E1 as <- <-. split; [exact I|split; [auto|apply FUsub_refl]]. }
    destruct H1 as (I1 & P1 & S1). apply in_app_or in Hin as [Hin|Hin].
    + destruct (hdr_acks (h_ack h) (h_ackbits h) s) eqn:Ea.
      * destruct (resolve_src _ _ _ _ _ E1) as [_ F]. destruct (F id true Hin) as [(ks & k & A & B & D)|H]; [left|right; exact H].
        exists s, t, ks, k. repeat split; auto. left. reflexivity.
      * exfalso. destruct (_ >? _).
        -- apply (resolve_false_true _ _ _ _ I E1). exists id. exact Hin.
        -- injection E1 as <- <-. destruct Hin.
    + destruct (IH _ _ _ _ I1 E2 Hin) as [(s' & t' & ks & k & A & B & D & F & G)|H]; [left|right; exact (S1 id H)].
      exists s', t', ks, k. repeat split; auto. right. exact A.
Qed.

Lemma recv_src c now d orcs c' o id : Inc c -> recv c now d orcs = (c', o) -> In (OCallback id true) o ->
  opens c d = true /\
  ((exists s t ks k, In (s, t) (c_packs c) /\ hdr_acks (h_ack (d_hdr d)) (h_ackbits (d_hdr d)) s = true /\
      dget s (c_pcbs c) = Some ks /\ In k ks /\ cb_inner k = IUser id) \/ FU c id).
Proof.
  unfold recv, opens. intros I E Hin.
  destruct (keyless_refuses c (d_hdr d)); [injection E as <- <-; destruct Hin as [H|[]]; discriminate|].
  destruct (open_dgram (c_key c) d) as [ms|]; [|injection E as <- <-; destruct Hin as [H|[]]; discriminate].
  destruct (bf_insert (c_bf_pkt c) _) as [bf|]; [|injection E as <- <-; destruct Hin as [H|[]]; discriminate].
  match type of E with context [handle_ack_bits ?c0 _] => set (cc := c0) in E end.
  destruct (handle_ack_bits cc (d_hdr d)) as [c1 o1] eqn:E1.
  destruct (recv_msgs c1 now ms orcs) as [c2 o2] eqn:E2. injection E as <- <-.
  split; [reflexivity|].
  apply in_app_or in Hin as [Hin|Hin].
  - unfold handle_ack_bits in E1. assert (Icc : Inc cc) by exact I.
    exact (ack_loop_src _ _ _ _ _ _ Icc E1 Hin).
  - exfalso. apply in_app_or in Hin as [Hin|Hin].
    + exact (recv_msgs_no_cb _ _ _ _ _ _ _ _ E2 Hin).
    + destruct (raised o2); [destruct Hin|destruct Hin as [H|[]]; discriminate].
Qed.

Lemma recv_FUsub c now d orcs c' o : recv c now d orcs = (c', o) -> FUsub c c'.
Proof.
  unfold recv. intros E.
  destruct (keyless_refuses c (d_hdr d)); [injection E as <- <-; apply FUsub_eq; reflexivity|].
  destruct (open_dgram (c_key c) d) as [ms|]; [|injection E as <- <-; apply FUsub_eq; reflexivity].
  destruct (bf_insert (c_bf_pkt c) _) as [bf|]; [|injection E as <- <-; apply FUsub_eq; reflexivity].
  match type of E with context [handle_ack_bits ?c0 _] => set (cc := c0) in E end.
  destruct (handle_ack_bits cc (d_hdr d)) as [c1 o1] eqn:E1.
  destruct (recv_msgs c1 now ms orcs) as [c2 o2] eqn:E2. injection E as <- <-.
  unfold handle_ack_bits in E1. apply ack_loop_FUsub in E1. apply recv_msgs_pfrags in E2.
  eapply FUsub_trans; [apply (FUsub_eq c cc); reflexivity|]. eapply FUsub_trans; [exact E1|apply FUsub_eq; exact E2].
Qed.

Lemma client_update_pfrags c now : c_pfrags (fst (client_update c now)) = c_pfrags c.
Proof. unfold client_update. destruct (_ && (now >? _)); destruct (_ && (_ >? c_temp_timeout _)); reflexivity. Qed.

(* every event: where a success callback comes from *)
Theorem step_true_src e c x c' o id : Inc c -> step e c x = (c', o) -> In (OCallback id true) o ->
  exists a0 d, pre_recv c x = Some (a0, d) /\ opens a0 d = true /\
    ((exists s t ks k, In (s, t) (c_packs a0) /\ hdr_acks (h_ack (d_hdr d)) (h_ackbits (d_hdr d)) s = true /\
        dget s (c_pcbs a0) = Some ks /\ In k ks /\ cb_inner k = IUser id) \/ FU c id).
Proof.
  intros I E Hin.
  destruct (step_true _ _ _ _ _ I E (ex_intro _ id Hin)) as (now & d & orcs & c0 & Hx & _).
  destruct Hx as [[-> ->]|[-> ->]]; cbn [step pre_recv] in *.
  - destruct (recv_src _ _ _ _ _ _ _ I E Hin) as [Ho Hs]. exists c, d. auto.
  - unfold client_tick in E. pose proof (client_update_pfrags c now) as F0.
    destruct (client_update c now) as [c0 o0] eqn:E0. cbn [fst] in *.
    assert (I0 : Inc c0).
    { unfold client_update in E0. destruct (_ && (now >? _)); destruct (_ && (_ >? c_temp_timeout _)); injection E0 as <- <-; exact I. }
    assert (N0 : forall id b, ~ In (OCallback id b) o0).
    { intros id' b Hi. unfold client_update in E0.
      destruct (_ && (now >? _)); destruct (_ && (_ >? c_temp_timeout _)); injection E0 as <- <-;
        try solve [destruct Hi]; destruct (c_conn_cb _); try solve [destruct Hi]; destruct Hi as [H|[]]; discriminate. }
    destruct (status_eqb (c_status c0) DROPPED); [injection E as <- <-; exfalso; exact (N0 _ _ Hin)|].
    destruct (recv c0 now d orcs) as [c1 o1] eqn:Er.
    assert (Hin1 : In (OCallback id true) o1).
    { set (o1f := filter (fun x => match x with ORet _ => false | _ => true end) o1) in E.
      assert (Hf : In (OCallback id true) o1f -> In (OCallback id true) o1) by (intros H; apply filter_In in H as [H _]; exact H).
      apply Hf. clear Hf.
      destruct (raised o1f).
      { injection E as <- <-. apply in_app_or in Hin as [H|H]; [exfalso; exact (N0 _ _ H)|exact H]. }
      destruct (_ >? _).
      2:{ injection E as <- <-. apply in_app_or in Hin as [H|H]; [exfalso; exact (N0 _ _ H)|exact H]. }
      destruct (build_packet e c1 now) as [c2 pk] eqn:E2.
      destruct (check_timeout false c2 now) as [c3 o3] eqn:E3. injection E as <- <-.
      apply in_app_or in Hin as [H|H]; [exfalso; exact (N0 _ _ H)|].
      apply in_app_or in H as [H|H]; [exact H|exfalso].
      apply in_app_or in H as [H|H].
      - destruct pk; [exact (emit_no_cb _ _ _ _ H)|destruct H].
      - assert (I1 : Inc c1) by (eapply recv_Inc; eassumption).
        assert (I2 : Inc c2) by (unfold Inc; rewrite (build_packet_pfrags _ _ _ _ _ E2); exact I1).
        apply (timeout_loop_true _ _ _ _ _ _ I2 E3). exists id. exact H. }
    destruct (recv_src _ _ _ _ _ _ _ I0 Er Hin1) as [Ho Hs]. exists c0, d. split; [reflexivity|]. split; [exact Ho|].
    destruct Hs as [Hs|Hs]; [left; exact Hs|right]. apply (FUsub_eq c c0 F0). exact Hs.
Qed.

(* every event: fragment-sender contexts come from oversized sends with that callback *)
Theorem step_FU e c x c' o : step e c x = (c', o) -> forall id, FU c' id ->
  FU c id \/ exists p r, x = ESend p r (IUser id) /\ len p > e_max_payload e.
Proof.
  intros E id H.
  assert (Hs : forall c1, FUsub c c1 -> c' = c1 -> FU c id \/ exists p r, x = ESend p r (IUser id) /\ len p > e_max_payload e).
  { intros c1 S1 ->. left. exact (S1 id H). }
  destruct x; cbn [step] in E.
  - unfold send in E. destruct (negb _); [injection E as <- <-; left; exact H|].
    destruct (len p >? e_max_payload e) eqn:Eg.
    + destruct (len p >? e_max_frag e * e_max_frags e); injection E as <- <-; [left; exact H|].
      destruct H as (fid' & fs' & H1 & H2). cbn in H1. rewrite send_frags_pfrags in H1. cbn in H1.
      rewrite dget_dset in H1. destruct (fid' =? seq_succ (c_seq_frag c)).
      * injection H1 as <-. cbn in H2. subst k. right. exists p, r. split; [reflexivity|lia].
      * left. exists fid', fs'. auto.
    + injection E as <- <-. left. exact H.
  - unfold client_tick in E. pose proof (client_update_pfrags c now) as F0.
    destruct (client_update c now) as [c0 o0] eqn:E0. cbn [fst] in *.
    assert (S0 : FUsub c c0) by (apply FUsub_eq; exact F0).
    destruct (status_eqb (c_status c0) DROPPED); [injection E as <- <-; apply (Hs _ S0 eq_refl)|].
    match type of E with context [match ?y with (_, _) => _ end] => destruct y as [c1 o1] eqn:E1 end.
    assert (S1 : FUsub c c1).
    { destruct r as [|er|d orcs]; try (injection E1 as <- <-; exact S0).
      destruct (recv c0 now d orcs) as [c'' o''] eqn:Er. injection E1 as <- <-.
      eapply FUsub_trans; [exact S0|eapply recv_FUsub; exact Er]. }
    destruct (raised o1); [injection E as <- <-; apply (Hs _ S1 eq_refl)|].
    destruct (_ >? _); [|injection E as <- <-; apply (Hs _ S1 eq_refl)].
    destruct (build_packet e c1 now) as [c2 pk] eqn:E2.
    destruct (check_timeout false c2 now) as [c3 o3] eqn:E3. injection E as <- <-.
    apply (Hs c3); [|reflexivity]. eapply FUsub_trans; [exact S1|].
    eapply FUsub_trans; [apply FUsub_eq; eapply build_packet_pfrags; exact E2|]. eapply timeout_loop_FUsub; exact E3.
  - unfold server_tick in E. destruct (_ >? _); [|injection E as <- <-; left; exact H].
    destruct (build_packet e c now) as [c1 pk] eqn:E1.
    destruct (check_timeout true c1 now) as [c2 o2] eqn:E2. injection E as <- <-.
    apply (Hs c2); [|reflexivity].
    eapply FUsub_trans; [apply FUsub_eq; eapply build_packet_pfrags; exact E1|]. eapply timeout_loop_FUsub; exact E2.
  - apply (Hs c'); [eapply recv_FUsub; exact E|reflexivity].
  - injection E as <- <-. apply (Hs (disconnect c k)); [|reflexivity]. apply FUsub_eq. unfold disconnect. destruct (_ || _); reflexivity.
  - injection E as <- <-. left. destruct which as [|[[q|q|]|[q|q|]|]|q]; exact H.
  - injection E as <- <-. left. exact H.
  - injection E as <- <-. left. exact H.
  - injection E as <- <-. left. exact H.
Qed.
