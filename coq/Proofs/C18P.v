(* C18P.v — the handler loop over a segmented stream, and the proofs of the C18 statements. *)
From Coq Require Import Lia ZifyBool List Bool.
From Model Require Import Base WsFrame.
From Proofs Require Import Tac WsFrameP WsStreamP.
Import ListNotations.
Open Scope Z_scope.

(* ---------- the Close reply ---------- *)
Fixpoint spec_written (c : bool) (fs : list frame) : list byte :=
  match fs with
  | [] => []
  | f :: fs' => (if is_close f && negb c then close_bytes else []) ++ spec_written (c || is_close f) fs'
  end.

Lemma spec_written_closed fs : spec_written true fs = [].
Proof. induction fs as [|f fs IH]; cbn; [reflexivity|]. rewrite andb_false_r. exact IH. Qed.

Lemma spec_written_eq c fs :
  spec_written c fs = if negb c && existsb is_close fs then close_bytes else [].
Proof.
  revert c. induction fs as [|f fs IH]; intro c; cbn.
  - rewrite andb_false_r. reflexivity.
  - destruct c; cbn.
    + rewrite andb_false_r. cbn. apply spec_written_closed.
    + destruct (is_close f); cbn.
      * rewrite spec_written_closed. reflexivity.
      * rewrite IH. reflexivity.
Qed.

Lemma spec_written_app c a b :
  spec_written c (a ++ b) = spec_written c a ++ spec_written (c || existsb is_close a) b.
Proof.
  revert c. induction a as [|f a IH]; intro c; cbn.
  - rewrite orb_false_r. reflexivity.
  - rewrite IH, <- app_assoc, orb_assoc. reflexivity.
Qed.

(* ---------- one iteration of the loop ---------- *)
Lemma opcode_eqb_eq a b : opcode_eqb a b = true -> a = b.
Proof. destruct a, b; vm_compute; congruence. Qed.

Lemma drain_step fuel buf c f rest :
  frame_available buf = true -> parse_frame buf = (Ok f, rest) -> f_mask f = 1 ->
  (f_opcode f = OpText -> utf8_valid (f_payload f) = true) ->
  drain (S fuel) {| w_buf := buf; w_closed := c |} =
  let '(st3, o) := drain fuel {| w_buf := rest; w_closed := c || is_close f |} in
  (st3, {| o_delivered := delivery f :: o_delivered o;
           o_written := (if is_close f && negb c then close_bytes else []) ++ o_written o;
           o_error := o_error o |}).
Proof.
  intros Ha Hp Hm Hu. cbn [drain w_buf w_closed]. rewrite Ha, Hp, Hm. cbn [Z.eqb].
  assert (opcode_eqb (f_opcode f) OpText && negb (utf8_valid (f_payload f)) = false) as ->.
  { destruct (opcode_eqb (f_opcode f) OpText) eqn:E; [|reflexivity].
    apply opcode_eqb_eq in E. rewrite (Hu E). reflexivity. }
  reflexivity.
Qed.

(* ---------- a buffer holding whole client frames followed by an incomplete one ---------- *)
Lemma partial_unavailable t : partial_frame t -> frame_available t = false.
Proof.
  intros [-> | (g & q & Hwf & Hq & E)]; [reflexivity|]. exact (incomplete_prefix g t q Hwf E Hq).
Qed.

Lemma partial_prefix a b : partial_frame (a ++ b) -> partial_frame a.
Proof.
  intros [H | (g & q & Hwf & Hq & E)].
  - apply app_eq_nil in H. left. tauto.
  - right. exists g, (b ++ q). split; [exact Hwf|]. split.
    + destruct b; cbn; [exact Hq | discriminate].
    + rewrite E, app_assoc. reflexivity.
Qed.

Lemma enc_stream_cons f fs : enc_stream (f :: fs) = rfc_encode f ++ enc_stream fs.
Proof. reflexivity. Qed.
Lemma enc_stream_app a b : enc_stream (a ++ b) = enc_stream a ++ enc_stream b.
Proof. unfold enc_stream. rewrite map_app, concat_app. reflexivity. Qed.

Lemma length_enc_stream fs : (length fs <= length (enc_stream fs))%nat.
Proof.
  induction fs as [|f fs IH]; [cbn; lia|]. rewrite enc_stream_cons, app_length.
  pose proof (rfc_encode_nonempty f). destruct (rfc_encode f); [congruence|]. cbn. lia.
Qed.

Lemma drain_frames fs : forall fuel t c,
  Forall client_frame fs -> frame_available t = false -> (length fs < fuel)%nat ->
  drain fuel {| w_buf := enc_stream fs ++ t; w_closed := c |} =
  ({| w_buf := t; w_closed := c || existsb is_close fs |},
   {| o_delivered := map delivery fs; o_written := spec_written c fs; o_error := None |}).
Proof.
  induction fs as [|f fs IH]; intros fuel t c HF Ht Hfuel.
  - cbn [enc_stream map concat app existsb spec_written]. rewrite drain_idle by exact Ht.
    rewrite orb_false_r. reflexivity.
  - destruct fuel as [|fuel]; [cbn in Hfuel; lia|].
    inversion HF as [|? ? Hf HF']; subst. destruct Hf as (Hwf & Hm & Hu).
    rewrite enc_stream_cons, <- app_assoc.
    rewrite (drain_step fuel _ c f (enc_stream fs ++ t));
      [| apply available_encode; exact Hwf | apply parse_encode; exact Hwf | exact Hm | exact Hu].
    rewrite IH by (try assumption; cbn in Hfuel; lia).
    cbn [existsb map spec_written o_delivered o_written o_error]. rewrite orb_assoc. reflexivity.
Qed.

Lemma split_stream fs : forall X Y t,
  partial_frame t -> Forall client_frame fs -> X ++ Y = enc_stream fs ++ t ->
  exists fs1 fs2 p, fs = fs1 ++ fs2 /\ X = enc_stream fs1 ++ p /\ p ++ Y = enc_stream fs2 ++ t /\ partial_frame p.
Proof.
  induction fs as [|f fs IH]; intros X Y t Ht HF E.
  - exists [], [], X. cbn in *. repeat split; auto. rewrite <- E in Ht. apply partial_prefix in Ht. exact Ht.
  - inversion HF as [|? ? Hf HF']; subst.
    rewrite enc_stream_cons, <- app_assoc in E.
    apply app_eq_app in E. destruct E as (l & [[E1 E2] | [E1 E2]]).
    + destruct (IH l Y t Ht HF' (eq_sym E2)) as (fs1 & fs2 & p & A & B & C & D).
      exists (f :: fs1), fs2, p. subst. rewrite enc_stream_cons, <- app_assoc. repeat split; auto.
    + destruct l as [|b l].
      * rewrite app_nil_r in E1. cbn in E2. exists [f], fs, []. subst.
        cbn. rewrite !app_nil_r. repeat split; auto; try (left; reflexivity).
      * exists [], (f :: fs), X. split; [reflexivity|]. split; [reflexivity|]. split.
        -- rewrite enc_stream_cons, <- app_assoc, E1, E2, <- app_assoc. reflexivity.
        -- right. exists f, (b :: l). destruct Hf as (Hwf & _). split; [exact Hwf|]. split; [discriminate | exact E1].
Qed.

(* ---------- the handler over any chunking ---------- *)
Lemma feed_gen chunks : forall fs p t c,
  Forall client_frame fs -> partial_frame t -> partial_frame p ->
  p ++ concat chunks = enc_stream fs ++ t ->
  ws_feed {| w_buf := p; w_closed := c |} chunks =
  ({| w_buf := t; w_closed := c || existsb is_close fs |},
   {| o_delivered := map delivery fs; o_written := spec_written c fs; o_error := None |}).
Proof.
  induction chunks as [|ch chunks IH]; intros fs p t c HF Ht Hp E.
  - cbn [concat] in E. rewrite app_nil_r in E. destruct fs as [|f fs].
    + cbn in E. subst. cbn. rewrite orb_false_r. reflexivity.
    + exfalso. apply partial_unavailable in Hp. inversion HF as [|? ? Hf _]; subst.
      destruct Hf as (Hwf & _). rewrite enc_stream_cons, <- app_assoc in Hp.
      rewrite available_encode in Hp by exact Hwf. discriminate.
  - cbn [concat] in E. rewrite app_assoc in E.
    destruct (split_stream fs (p ++ ch) (concat chunks) t Ht HF E) as (fs1 & fs2 & p' & A & B & C & D).
    subst fs. apply Forall_app in HF. destruct HF as [HF1 HF2].
    cbn [ws_feed]. unfold ws_call. cbn [w_buf w_closed]. rewrite B.
    rewrite drain_frames;
      [| exact HF1 | apply partial_unavailable; exact D
       | pose proof (length_enc_stream fs1); rewrite app_length; lia].
    cbn [o_error o_delivered o_written].
    rewrite (IH fs2 p' t _ HF2 Ht D C).
    rewrite existsb_app, map_app, spec_written_app, orb_assoc. reflexivity.
Qed.

(* ---------- statements of Properties/C18.v ---------- *)
Lemma canon_wf f : wf_frame_anykey f -> wf_frame (canon_key f).
Proof.
  intros (H1 & H2 & H3 & H4 & H5 & H6 & H7 & H8 & H9). unfold wf_frame, canon_key. cbn.
  repeat split; auto.
  - destruct (f_mask f =? 0); [reflexivity | exact H7].
  - intros ->. reflexivity.
Qed.

Lemma canon_rfc f : rfc_encode (canon_key f) = rfc_encode f.
Proof.
  unfold rfc_encode, canon_key. cbn. destruct (f_mask f =? 0) eqn:E; reflexivity.
Qed.

Lemma canon_id f : wf_frame f -> canon_key f = f.
Proof.
  intros (_ & _ & _ & _ & _ & _ & _ & _ & _ & Hzk). destruct f as [a b c d o m k n p]. unfold canon_key. cbn in *.
  destruct (m =? 0) eqn:E; [|reflexivity]. rewrite Hzk by lia. reflexivity.
Qed.

Lemma C18_encode_rfc_proof : forall f, wf_frame_anykey f -> encode_frame f = Ok (rfc_encode f).
Proof. exact encode_rfc_anykey. Qed.

Lemma C18_frame_roundtrip_proof : forall f rest, wf_frame_anykey f ->
  match encode_frame f with
  | Ok bytes => parse_frame (bytes ++ rest) = (Ok (canon_key f), rest)
  | Err _ => False
  end.
Proof.
  intros f rest H. rewrite (encode_rfc_anykey f H). rewrite <- canon_rfc. apply parse_encode, canon_wf, H.
Qed.

Lemma C18_frame_roundtrip_exact_proof : forall f rest, wf_frame f ->
  match encode_frame f with
  | Ok bytes => parse_frame (bytes ++ rest) = (Ok f, rest)
  | Err _ => False
  end.
Proof. intros f rest H. rewrite (encode_rfc f H). apply parse_encode, H. Qed.

Lemma C18_complete_frame_available_proof : forall f rest, wf_frame f ->
  frame_available (rfc_encode f ++ rest) = true.
Proof. exact available_encode. Qed.

Lemma C18_incomplete_frame_waits_proof : forall f p q, wf_frame f -> rfc_encode f = p ++ q -> q <> [] ->
  frame_available p = false /\
  forall st, w_buf st = [] -> ws_call st p = ({| w_buf := p; w_closed := w_closed st |}, out0 None).
Proof.
  intros f p q Hwf E Hq. pose proof (incomplete_prefix f p q Hwf E Hq) as Hp. split; [exact Hp|].
  intros [b c] Hb. cbn in Hb. subst b. unfold ws_call. cbn [w_buf w_closed app].
  rewrite drain_idle by exact Hp. reflexivity.
Qed.

Lemma C18_stream_prompt_proof : forall frames tail chunks closed,
  Forall client_frame frames -> partial_frame tail ->
  concat chunks = enc_stream frames ++ tail ->
  ws_feed {| w_buf := []; w_closed := closed |} chunks =
  ({| w_buf := tail; w_closed := closed || existsb is_close frames |},
   {| o_delivered := map delivery frames;
      o_written := if negb closed && existsb is_close frames then close_bytes else [];
      o_error := None |}).
Proof.
  intros fs t chunks c HF Ht E. rewrite <- spec_written_eq.
  apply feed_gen; auto. left. reflexivity.
Qed.

Lemma C18_stream_any_chunking_proof : forall frames chunks closed,
  Forall client_frame frames ->
  concat chunks = enc_stream frames ->
  ws_feed {| w_buf := []; w_closed := closed |} chunks =
  ({| w_buf := []; w_closed := closed || existsb is_close frames |},
   {| o_delivered := map delivery frames;
      o_written := if negb closed && existsb is_close frames then close_bytes else [];
      o_error := None |}).
Proof.
  intros fs chunks c HF E. apply C18_stream_prompt_proof; auto. left. reflexivity.
  rewrite app_nil_r. exact E.
Qed.

(* the same with the frames written by the library's own writeFrame *)
Lemma encs_are_rfc frames encs :
  Forall wf_frame_anykey frames -> Forall2 (fun f b => encode_frame f = Ok b) frames encs ->
  concat encs = enc_stream frames.
Proof.
  intros HF H. induction H as [|f b fs bs Hfb H IH]; [reflexivity|].
  inversion HF as [|? ? Hf HF']; subst. rewrite enc_stream_cons. cbn [concat].
  rewrite (encode_rfc_anykey f Hf) in Hfb. inversion Hfb; subst. rewrite IH by exact HF'. reflexivity.
Qed.

Lemma client_frames_wf frames : Forall client_frame frames -> Forall wf_frame_anykey frames.
Proof.
  intro H. eapply Forall_impl; [|exact H]. intros f (Hwf & _). apply wf_frame_anykey_of, Hwf.
Qed.

Lemma C18_stream_written_by_library_proof : forall frames encs chunks closed,
  Forall client_frame frames ->
  Forall2 (fun f b => encode_frame f = Ok b) frames encs ->
  concat chunks = concat encs ->
  let '(st, out) := ws_feed {| w_buf := []; w_closed := closed |} chunks in
  o_delivered out = map delivery frames /\ o_error out = None /\ w_buf st = [].
Proof.
  intros fs encs chunks c HF HE E.
  rewrite (encs_are_rfc fs encs (client_frames_wf fs HF) HE) in E.
  rewrite (C18_stream_any_chunking_proof fs chunks c HF E). cbn. auto.
Qed.

(* ---------- arbitrary byte streams ---------- *)
Lemma C18_chunking_irrelevant_proof : forall chunks closed,
  let '(s1, o1) := ws_feed {| w_buf := []; w_closed := closed |} chunks in
  let '(s2, o2) := ws_call {| w_buf := []; w_closed := closed |} (concat chunks) in
  o1 = o2 /\ (o_error o1 = None -> s1 = s2).
Proof. intros chunks c. apply chunking_irrelevant. reflexivity. Qed.

Lemma C18_parser_is_local_proof : forall buf more,
  frame_available buf = true ->
  parse_frame (buf ++ more) = (fst (parse_frame buf), snd (parse_frame buf) ++ more).
Proof. exact parse_local. Qed.

Lemma ws_call_no_recursion st data : o_error (snd (ws_call st data)) <> Some ERecursion.
Proof. unfold ws_call. apply drain_no_recursion. cbn [w_buf]. lia. Qed.

Lemma C18_fuel_never_exhausted_proof : forall chunks st, o_error (snd (ws_feed st chunks)) <> Some ERecursion.
Proof.
  induction chunks as [|c cs IH]; intro st; cbn [ws_feed]; [cbn; discriminate|].
  pose proof (ws_call_no_recursion st c) as H. destruct (ws_call st c) as [st1 o1]. cbn [snd] in H.
  destruct (o_error o1) eqn:E; [cbn [snd]; congruence|].
  specialize (IH st1). destruct (ws_feed st1 cs) as [st2 o2]. exact IH.
Qed.
