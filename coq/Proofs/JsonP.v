(* JsonP.v — lemmas about Model/Json.v: decimal text round trip, key equality, dict / set
   construction on duplicate-free input, enum tables, and the round-trip induction. *)
From Coq Require Import ZArith List Bool Lia Decimal DecimalZ DecimalPos.
From Model Require Import Base Json.
Open Scope Z_scope.

(* ------------------------------------------------------------------ generic *)

Definition unres (r : res pv) : pv := match r with Ok v => v | Err _ => PNone end.

Lemma bind_ok : forall A B (r : res A) (f : A -> res B) a, r = Ok a -> bind r f = f a.
Proof. intros; subst; reflexivity. Qed.

Lemma str_eqb_refl : forall a, str_eqb a a = true.
Proof. induction a; simpl; auto. rewrite Z.eqb_refl; auto. Qed.

Lemma str_eqb_eq : forall a b, str_eqb a b = true -> a = b.
Proof.
  induction a; destruct b; simpl; intros; try discriminate; auto.
  apply andb_true_iff in H as [H1 H2]. apply Z.eqb_eq in H1. f_equal; auto.
Qed.

Lemma str_eqb_neq : forall a b, a <> b -> str_eqb a b = false.
Proof. intros. destruct (str_eqb a b) eqn:E; auto. apply str_eqb_eq in E. contradiction. Qed.

Lemma existsb_str_false : forall x l, existsb (str_eqb x) l = false -> ~ In x l.
Proof.
  induction l; simpl; intros; auto. apply orb_false_iff in H as [H1 H2].
  intros [->|Hin]. rewrite str_eqb_refl in H1; discriminate. apply IHl; auto.
Qed.

Lemma mapM_ok : forall A B (f : A -> res B) (g : A -> B) l,
  (forall x, In x l -> f x = Ok (g x)) -> mapM f l = Ok (map g l).
Proof.
  induction l; simpl; intros; auto.
  rewrite (H a) by auto. rewrite IHl by auto. reflexivity.
Qed.

Lemma mapM_zip : forall A B (F : A -> res B) (a : list A) (b : list B),
  length a = length b -> (forall p, In p (combine a b) -> F (fst p) = Ok (snd p)) -> mapM F a = Ok b.
Proof.
  induction a; destruct b; simpl; intros; try discriminate; auto.
  rewrite (H0 (a, b)) by auto. rewrite (IHa b0); auto.
Qed.

Lemma forall2b_spec : forall A B (f : A -> B -> bool) a b, forall2b f a b = true ->
  length a = length b /\ forall p, In p (combine a b) -> f (fst p) (snd p) = true.
Proof.
  induction a; destruct b; simpl; intros; try discriminate.
  - split; auto. intros ? [].
  - apply andb_true_iff in H as [H1 H2]. destruct (IHa _ H2) as [L P]. split; auto.
    intros p [<-|Hin]; auto.
Qed.

(* zip-with *)
Fixpoint zipw {A B C} (g : A -> B -> C) (a : list A) (b : list B) : list C :=
  match a, b with x :: a', y :: b' => g x y :: zipw g a' b' | _, _ => [] end.

Lemma zipw_length : forall A B C (g : A -> B -> C) a b, length a = length b -> length (zipw g a b) = length b.
Proof. induction a; destruct b; simpl; intros; try discriminate; auto. Qed.

Lemma zipw_inv : forall A B C (g : A -> B -> C) (h : A -> C -> B) a b,
  length a = length b -> (forall p, In p (combine a b) -> h (fst p) (g (fst p) (snd p)) = snd p) ->
  zipw h a (zipw g a b) = b.
Proof.
  induction a; destruct b; simpl; intros; try discriminate; auto.
  f_equal. apply (H0 (a, b)); auto. apply IHa; auto.
Qed.

Lemma combine_zipw_in : forall A B C (g : A -> B -> C) a b p,
  In p (combine a (zipw g a b)) -> exists y, In (fst p, y) (combine a b) /\ snd p = g (fst p) y.
Proof.
  induction a; destruct b; simpl; intros; try contradiction.
  destruct H as [<-|H]. exists b; auto. destruct (IHa _ _ H) as [y [H1 H2]]. exists y; auto.
Qed.

(* ------------------------------------------------------------------ int <-> decimal text *)

Lemma digit_first : forall u, u <> Nil ->
  exists c r, uint_chars u = c :: r /\ (c =? 45) = false /\ (c =? 43) = false.
Proof. destruct u; intros; try congruence; simpl; eexists; eexists; repeat split. Qed.

Lemma uint_chars_nospace : forall u, Forall (fun c => is_space c = false) (uint_chars u).
Proof. induction u; simpl; constructor; auto. Qed.

Lemma lstrip_id : forall c s, is_space c = false -> lstrip (c :: s) = c :: s.
Proof. intros; simpl; rewrite H; reflexivity. Qed.

Lemma rstrip_id : forall s, Forall (fun c => is_space c = false) s -> rstrip s = s.
Proof.
  induction 1; simpl; auto. rewrite IHForall. destruct l; auto. rewrite H; auto.
Qed.

Lemma parse_digits_chars : forall u,
  parse_digits true (uint_chars u) = Some u /\ (u <> Nil -> parse_digits false (uint_chars u) = Some u).
Proof.
  induction u; simpl; (split; [reflexivity | congruence]) || idtac;
    destruct IHu as [I1 I2]; unfold digit_of; simpl; rewrite I1; split; auto.
Qed.

Lemma parse_body : forall u neg, u <> Nil -> ulen u <=? MAX_STR_DIGITS = true ->
  match parse_digits false (uint_chars u) with
  | None => Err EValue
  | Some u0 => if MAX_STR_DIGITS <? ulen u0 then Err EValue
               else Ok (if neg then - Z.of_uint u0 else Z.of_uint u0)
  end = Ok (if neg : bool then - Z.of_uint u else Z.of_uint u).
Proof.
  intros. destruct (parse_digits_chars u) as [_ P]. rewrite (P H).
  apply Z.leb_le in H0. destruct (MAX_STR_DIGITS <? ulen u) eqn:E; auto. apply Z.ltb_lt in E. lia.
Qed.

Theorem parse_int_dec : forall z, lim_ok z = true -> parse_int (dec z) = Ok z.
Proof.
  intros z L. pose proof (DecimalZ.of_to z) as OT. unfold lim_ok in L. unfold dec, parse_int.
  destruct (Z.to_int z) as [u|u] eqn:E.
  - assert (NN : u <> Nil).
    { destruct z; simpl in E; inversion E; subst. discriminate. apply Unsigned.to_uint_nonnil. }
    destruct (digit_first u NN) as [c [r [Hc [H45 H43]]]].
    pose proof (uint_chars_nospace u) as NS. rewrite Hc in NS.
    rewrite Hc, lstrip_id by (inversion NS; auto). rewrite rstrip_id by auto.
    rewrite H45, H43. rewrite <- Hc. rewrite (parse_body u false NN L). simpl in OT. congruence.
  - assert (NN : u <> Nil).
    { destruct z; simpl in E; inversion E; subst. apply Unsigned.to_uint_nonnil. }
    pose proof (uint_chars_nospace u) as NS.
    rewrite lstrip_id by reflexivity. rewrite rstrip_id by (constructor; auto).
    change (45 =? 45) with true. cbv iota. rewrite (parse_body u true NN L). simpl in OT. congruence.
Qed.

Lemma dec_inj : forall a b, lim_ok a = true -> lim_ok b = true -> dec a = dec b -> a = b.
Proof.
  intros. pose proof (parse_int_dec a H). rewrite H1, (parse_int_dec b H0) in H2. congruence.
Qed.
