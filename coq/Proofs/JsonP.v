(* JsonP.v — lemmas about Model/Json.v: decimal text round trip, key equality, dict / set
   construction on duplicate-free input, enum tables, and the round-trip induction. *)
From Coq Require Import ZArith List Bool Lia Decimal DecimalZ DecimalPos.
From Model Require Import Base Json.
Open Scope Z_scope.

(* ------------------------------------------------------------------ generic *)

Definition unres (r : res pv) : pv := match r with Ok v => v | Err _ => PNone end.

Lemma bind_ok : forall A B (r : res A) (f : A -> res B) a, r = Ok a -> bind r f = f a.
Proof. intros; subst; reflexivity. Qed.

Lemma str_eqb_refl : forall a, str_eqb a a = true.
Proof. induction a; simpl; auto. rewrite Z.eqb_refl; auto. Qed.

Lemma str_eqb_eq : forall a b, str_eqb a b = true -> a = b.
Proof.
  induction a; destruct b; simpl; intros; try discriminate; auto.
  apply andb_true_iff in H as [H1 H2]. apply Z.eqb_eq in H1. f_equal; auto.
Qed.

Lemma str_eqb_neq : forall a b, a <> b -> str_eqb a b = false.
Proof. intros. destruct (str_eqb a b) eqn:E; auto. apply str_eqb_eq in E. contradiction. Qed.

Lemma existsb_str_false : forall x l, existsb (str_eqb x) l = false -> ~ In x l.
Proof.
  induction l; simpl; intros; auto. apply orb_false_iff in H as [H1 H2].
  intros [->|Hin]. rewrite str_eqb_refl in H1; discriminate. apply IHl; auto.
Qed.

Lemma mapM_ok : forall A B (f : A -> res B) (g : A -> B) l,
  (forall x, In x l -> f x = Ok (g x)) -> mapM f l = Ok (map g l).
Proof.
  induction l; simpl; intros; auto.
  rewrite (H a) by auto. rewrite IHl by auto. reflexivity.
Qed.

Lemma mapM_zip : forall A B (F : A -> res B) (a : list A) (b : list B),
  length a = length b -> (forall p, In p (combine a b) -> F (fst p) = Ok (snd p)) -> mapM F a = Ok b.
Proof.
  induction a; destruct b; simpl; intros; try discriminate; auto.
  pose proof (H0 (a, b) (or_introl eq_refl)) as E. simpl in E. rewrite E. rewrite (IHa b0); auto.
Qed.

Lemma forall2b_spec : forall A B (f : A -> B -> bool) a b, forall2b f a b = true ->
  length a = length b /\ forall p, In p (combine a b) -> f (fst p) (snd p) = true.
Proof.
  induction a; destruct b; simpl; intros; try discriminate.
  - split; auto; intros ? [].
  - apply andb_true_iff in H as [H1 H2]. destruct (IHa _ H2) as [L P]. split; auto.
    intros p [<-|Hin]; auto.
Qed.

(* zip-with *)
Fixpoint zipw {A B C} (g : A -> B -> C) (a : list A) (b : list B) : list C :=
  match a, b with x :: a', y :: b' => g x y :: zipw g a' b' | _, _ => [] end.

Lemma zipw_length : forall A B C (g : A -> B -> C) a b, length a = length b -> length (zipw g a b) = length b.
Proof. induction a; destruct b; simpl; intros; try discriminate; auto. Qed.

Lemma zipw_inv : forall A B C (g : A -> B -> C) (h : A -> C -> B) a b,
  length a = length b -> (forall p, In p (combine a b) -> h (fst p) (g (fst p) (snd p)) = snd p) ->
  zipw h a (zipw g a b) = b.
Proof.
  induction a; destruct b; simpl; intros; try discriminate; auto.
  f_equal. apply (H0 (a, b)); auto. apply IHa; auto.
Qed.

Lemma combine_zipw_in : forall A B C (g : A -> B -> C) a b p,
  In p (combine a (zipw g a b)) -> exists y, In (fst p, y) (combine a b) /\ snd p = g (fst p) y.
Proof.
  induction a; destruct b; simpl; intros; try contradiction.
  destruct H as [<-|H]. exists b; auto. destruct (IHa _ _ H) as [y [H1 H2]]. exists y; auto.
Qed.

(* ------------------------------------------------------------------ int <-> decimal text *)

Lemma digit_first : forall u, u <> Nil ->
  exists c r, uint_chars u = c :: r /\ (c =? 45) = false /\ (c =? 43) = false.
Proof. destruct u; intros; try congruence; simpl; eexists; eexists; repeat split. Qed.

Lemma uint_chars_nospace : forall u, Forall (fun c => is_space c = false) (uint_chars u).
Proof. induction u; simpl; constructor; auto. Qed.

Lemma lstrip_id : forall c s, is_space c = false -> lstrip (c :: s) = c :: s.
Proof. intros; simpl; rewrite H; reflexivity. Qed.

Lemma rstrip_id : forall s, Forall (fun c => is_space c = false) s -> rstrip s = s.
Proof.
  induction 1; simpl; auto. rewrite IHForall. destruct l; auto. rewrite H; auto.
Qed.

Lemma parse_digits_chars : forall u,
  parse_digits true (uint_chars u) = Some u /\ (u <> Nil -> parse_digits false (uint_chars u) = Some u).
Proof.
  induction u; simpl; (split; [reflexivity | congruence]) || idtac;
    destruct IHu as [I1 I2]; unfold digit_of; simpl; rewrite I1; split; auto.
Qed.

Lemma parse_body : forall u (neg : bool), u <> Nil -> ulen u <=? MAX_STR_DIGITS = true ->
  match parse_digits false (uint_chars u) with
  | None => Err EValue
  | Some u0 => if MAX_STR_DIGITS <? ulen u0 then Err EValue
               else Ok (if neg then - Z.of_uint u0 else Z.of_uint u0)
  end = Ok (if neg then - Z.of_uint u else Z.of_uint u).
Proof.
  intros. destruct (parse_digits_chars u) as [_ P]. rewrite (P H).
  apply Z.leb_le in H0. destruct (MAX_STR_DIGITS <? ulen u) eqn:E; auto. apply Z.ltb_lt in E. lia.
Qed.

Theorem parse_int_dec : forall z, lim_ok z = true -> parse_int (dec z) = Ok z.
Proof.
  intros z L. pose proof (DecimalZ.of_to z) as OT. unfold lim_ok in L. unfold dec, parse_int.
  destruct (Z.to_int z) as [u|u] eqn:E.
  - assert (NN : u <> Nil).
    { destruct z; simpl in E; inversion E; subst. discriminate. apply Unsigned.to_uint_nonnil. }
    destruct (digit_first u NN) as [c [r [Hc [H45 H43]]]].
    pose proof (uint_chars_nospace u) as NS. rewrite Hc in NS.
    rewrite Hc, lstrip_id by (inversion NS; auto). rewrite rstrip_id by auto.
    rewrite H45, H43. rewrite <- Hc. rewrite (parse_body u false NN L). simpl in OT. congruence.
  - assert (NN : u <> Nil).
    { destruct z; simpl in E; inversion E; subst. apply Unsigned.to_uint_nonnil. }
    pose proof (uint_chars_nospace u) as NS.
    rewrite lstrip_id by reflexivity. rewrite rstrip_id by (constructor; auto).
    change (45 =? 45) with true. cbv iota. rewrite (parse_body u true NN L). simpl in OT. congruence.
Qed.

Lemma dec_inj : forall a b, lim_ok a = true -> lim_ok b = true -> dec a = dec b -> a = b.
Proof.
  intros. pose proof (parse_int_dec a H). rewrite H1, (parse_int_dec b H0) in H2. congruence.
Qed.

(* ------------------------------------------------------------------ more generic list lemmas *)

Lemma mapM_map : forall A B C (F : B -> res C) (f : A -> B) (g : A -> C) l,
  (forall x, In x l -> F (f x) = Ok (g x)) -> mapM F (map f l) = Ok (map g l).
Proof.
  induction l; simpl; intros; auto. rewrite H by auto. rewrite IHl by auto. reflexivity.
Qed.

Lemma mapM_Forall2 : forall A B (F : A -> res B) l l',
  Forall2 (fun a b => F a = Ok b) l l' -> mapM F l = Ok l'.
Proof. induction 1; simpl; auto. rewrite H, IHForall2. reflexivity. Qed.

Lemma Forall2_map_same : forall A B C (R : B -> C -> Prop) (f : A -> B) (g : A -> C) l,
  (forall x, In x l -> R (f x) (g x)) -> Forall2 R (map f l) (map g l).
Proof. induction l; simpl; intros; constructor; auto. Qed.

Lemma map_fst_combine : forall A B (a : list A) (b : list B), length a = length b -> map fst (combine a b) = a.
Proof. induction a; destruct b; simpl; intros; try discriminate; auto. f_equal; auto. Qed.

Lemma map_snd_combine : forall A B (a : list A) (b : list B), length a = length b -> map snd (combine a b) = b.
Proof. induction a; destruct b; simpl; intros; try discriminate; auto. f_equal; auto. Qed.

Lemma forallb_map : forall A B (f : A -> B) (p : B -> bool) l,
  forallb p (map f l) = forallb (fun x => p (f x)) l.
Proof. induction l; simpl; auto. rewrite IHl; auto. Qed.

(* ------------------------------------------------------------------ duplicate-free keys / elements (Python ==) *)

Lemma nodupb_mid : forall acc x l, nodupb (acc ++ x :: l) = true -> existsb (fun y => py_eq y x) acc = false.
Proof.
  induction acc; simpl; intros; auto.
  apply andb_true_iff in H as [H1 H2]. rewrite forallb_app in H1. apply andb_true_iff in H1 as [_ H1].
  simpl in H1. apply andb_true_iff in H1 as [H1 _]. apply negb_true_iff in H1. rewrite H1. simpl. eauto.
Qed.

Lemma set_build_acc : forall l acc, nodupb (acc ++ l) = true -> fold_left set_add l acc = acc ++ l.
Proof.
  induction l; simpl; intros. rewrite app_nil_r; auto.
  unfold set_add at 2. rewrite (nodupb_mid _ _ _ H).
  rewrite IHl; rewrite <- app_assoc; simpl; auto.
Qed.

Lemma set_build_nodup : forall l, nodupb l = true -> set_build l = l.
Proof. intros. unfold set_build. rewrite set_build_acc; auto. Qed.

Lemma dict_set_fresh : forall acc k v, existsb (fun y => py_eq y k) (map fst acc) = false ->
  dict_set acc k v = acc ++ [(k, v)].
Proof.
  induction acc as [|[k' v'] acc]; simpl; intros; auto.
  apply orb_false_iff in H as [H1 H2]. rewrite H1. rewrite IHacc; auto.
Qed.

Lemma dict_build_acc : forall kv acc, nodupb (map fst (acc ++ kv)) = true ->
  fold_left (fun a p => dict_set a (fst p) (snd p)) kv acc = acc ++ kv.
Proof.
  induction kv as [|[k v] kv]; simpl; intros. rewrite app_nil_r; auto.
  rewrite dict_set_fresh.
  - rewrite IHkv; rewrite <- app_assoc; simpl; auto.
  - rewrite map_app in H. simpl in H. eapply nodupb_mid; eauto.
Qed.

Lemma dict_build_nodup : forall kv, nodupb (map fst kv) = true -> dict_build kv = kv.
Proof. intros. unfold dict_build. rewrite dict_build_acc; auto. Qed.

Lemma dict_conv_acc : forall fk fv kv kv',
  Forall2 (fun p q => fk (fst p) = Ok (fst q) /\ fv (snd p) = Ok (snd q) /\ hashable (fst q) = true) kv kv' ->
  forall acc, nodupb (map fst (acc ++ kv')) = true -> dict_conv fk fv kv acc = Ok (acc ++ kv').
Proof.
  induction 1 as [|[k v] [k' v'] kv kv' (A & B & C)]; simpl; intros. rewrite app_nil_r; auto.
  simpl in A, B, C. rewrite A, B. simpl. rewrite C. rewrite dict_set_fresh.
  - rewrite IHForall2; rewrite <- app_assoc; simpl; auto.
  - rewrite map_app in H0. simpl in H0. eapply nodupb_mid; eauto.
Qed.

Lemma dict_conv_nodup : forall fk fv kv kv',
  Forall2 (fun p q => fk (fst p) = Ok (fst q) /\ fv (snd p) = Ok (snd q) /\ hashable (fst q) = true) kv kv' ->
  nodupb (map fst kv') = true -> dict_conv fk fv kv [] = Ok kv'.
Proof. intros. apply (dict_conv_acc fk fv kv kv' H []); auto. Qed.

Lemma nodupb_map_inj : forall (f : pv -> pv) l,
  (forall x y, In x l -> In y l -> py_eq x y = false -> py_eq (f x) (f y) = false) ->
  nodupb l = true -> nodupb (map f l) = true.
Proof.
  induction l; simpl; intros; auto. apply andb_true_iff in H0 as [H1 H2].
  apply andb_true_iff; split.
  - rewrite forallb_map. apply forallb_forall. intros y Hy.
    rewrite forallb_forall in H1. specialize (H1 y Hy). apply negb_true_iff in H1.
    apply negb_true_iff. apply H; auto.
  - apply IHl; auto.
Qed.

Lemma nodupb_strs : forall l, str_nodupb l = true -> nodupb (map PStr l) = true.
Proof.
  induction l; simpl; intros; auto. apply andb_true_iff in H as [H1 H2].
  apply andb_true_iff; split; auto. rewrite forallb_map. apply forallb_forall. intros y Hy. simpl.
  apply negb_true_iff in H1. apply negb_true_iff.
  destruct (str_eqb a y) eqn:E; auto. exfalso.
  assert (existsb (str_eqb a) l = true) by (apply existsb_exists; eauto). congruence.
Qed.

(* ------------------------------------------------------------------ class tables *)

Lemma assocZ_in : forall A (l : list (Z * A)) k a, assocZ l k = Some a -> In (k, a) l.
Proof.
  induction l as [|[k' a'] l]; simpl; intros; try discriminate.
  destruct (k =? k') eqn:E. apply Z.eqb_eq in E. inversion H; subst; auto. right; auto.
Qed.

Lemma value2name_in : forall ms raw n, value2name ms raw = Some n -> In (n, raw) ms.
Proof.
  induction ms as [|[n' v] ms]; simpl; intros; try discriminate.
  destruct (value2name ms raw) eqn:E.
  - inversion H; subst. right; auto.
  - destruct (raw =? v) eqn:E2; inversion H; subst. apply Z.eqb_eq in E2; subst; auto.
Qed.

Lemma name2value_nodup : forall ms n v, str_nodupb (map fst ms) = true -> In (n, v) ms -> name2value ms n = Some v.
Proof.
  induction ms as [|[n' v'] ms]; simpl; intros; [contradiction|].
  apply andb_true_iff in H as [H1 H2]. destruct H0 as [E|Hin].
  - inversion E; subst. rewrite str_eqb_refl; auto.
  - destruct (str_eqb n n') eqn:E; auto. apply str_eqb_eq in E; subst.
    apply negb_true_iff in H1. apply existsb_str_false in H1. exfalso; apply H1.
    apply in_map_iff. exists (n', v); auto.
Qed.
