(* BytesP.v — bytes as numbers, big-endian integer codecs. *)
From Coq Require Import Lia ZifyBool.
From Model Require Import Base Utf8 Ser.
Open Scope Z_scope.

Lemma Z_of_byte_range : forall b, 0 <= Z_of_byte b < 256.
Proof.
  intro b. unfold Z_of_byte. pose proof (Byte.to_N_bounded b). lia.
Qed.

Lemma Z_of_byte_of_Z : forall z, Z_of_byte (byte_of_Z z) = z mod 256.
Proof.
  intro z. unfold Z_of_byte, byte_of_Z.
  assert (H : 0 <= z mod 256 < 256) by (apply Z.mod_pos_bound; lia).
  destruct (Byte.of_N (Z.to_N (z mod 256))) eqn:E.
  - apply Byte.to_of_N in E. rewrite E. lia.
  - apply Byte.of_N_None_iff in E. lia.
Qed.

Lemma byte_of_Z_of_byte : forall b, byte_of_Z (Z_of_byte b) = b.
Proof.
  intro b. unfold byte_of_Z, Z_of_byte.
  pose proof (Byte.to_N_bounded b).
  rewrite Z.mod_small by lia. rewrite N2Z.id. rewrite Byte.of_to_N. reflexivity.
Qed.

Lemma Z_of_byte_inj : forall a b, Z_of_byte a = Z_of_byte b -> a = b.
Proof.
  intros a b H. rewrite <- (byte_of_Z_of_byte a), <- (byte_of_Z_of_byte b). now rewrite H.
Qed.

Lemma len_app : forall A (a b : list A), len (a ++ b) = len a + len b.
Proof. intros. unfold len. rewrite app_length. lia. Qed.
Lemma len_nonneg : forall A (a : list A), 0 <= len a.
Proof. intros. unfold len. lia. Qed.
Lemma len_cons : forall A (x : A) l, len (x :: l) = 1 + len l.
Proof. intros. unfold len. simpl length. lia. Qed.

Lemma be_enc_length : forall n z, length (be_enc n z) = n.
Proof.
  induction n; intro z; simpl; [reflexivity|].
  rewrite app_length, IHn. simpl. lia.
Qed.

Lemma be_dec_app1 : forall l b, be_dec (l ++ [b]) = be_dec l * 256 + Z_of_byte b.
Proof.
  intros. unfold be_dec. rewrite fold_left_app. reflexivity.
Qed.

Lemma be_dec_enc : forall n z, be_dec (be_enc n z) = z mod 256 ^ Z.of_nat n.
Proof.
  induction n; intro z.
  - simpl. rewrite Z.mod_1_r. reflexivity.
  - cbn [be_enc]. rewrite be_dec_app1, IHn, Z_of_byte_of_Z.
    rewrite Nat2Z.inj_succ, Z.pow_succ_r by lia.
    assert (0 < 256 ^ Z.of_nat n) by (apply Z.pow_pos_nonneg; lia).
    rewrite Z.rem_mul_r by lia. lia.
Qed.

Lemma be_dec_range : forall l, 0 <= be_dec l < 256 ^ len l.
Proof.
  intro l. induction l using rev_ind.
  - cbn. lia.
  - rewrite be_dec_app1, len_app. change (len [x]) with 1.
    rewrite Z.pow_add_r by (try apply len_nonneg; lia).
    pose proof (Z_of_byte_range x). nia.
Qed.

Lemma be_dec_signed_enc : forall n z, (0 < n)%nat ->
  - (256 ^ Z.of_nat n) <= 2 * z < 256 ^ Z.of_nat n ->
  be_dec_signed (be_enc n z) = z.
Proof.
  intros n z Hn Hz. unfold be_dec_signed.
  rewrite be_dec_enc. unfold len. rewrite be_enc_length.
  set (w := 256 ^ Z.of_nat n) in *.
  assert (0 < w) by (apply Z.pow_pos_nonneg; lia).
  destruct (Z_lt_le_dec z 0).
  - assert (z mod w = z + w).
    { symmetry. apply Z.mod_unique with (q := -1); lia. }
    destruct (2 * (z mod w) <? w) eqn:E; lia.
  - rewrite Z.mod_small by lia.
    destruct (2 * z <? w) eqn:E; lia.
Qed.
