(* C19P.v — proofs of the C19 theorems (statements: Properties/C19.v).
   sha256, base64 decoding and scrypt are arbitrary functions; what is assumed of them is an
   explicit premise of each theorem (predicates defined at the end of Model/Auth.v). *)
From Coq Require Import Lia ZifyBool PeanoNat.
From Model Require Import Base Base64 Auth.
From Proofs Require Import Base64P AuthP.
Open Scope Z_scope.

Section C19.
  Variable sha : list byte -> list byte.
  Variable b64d : list byte -> res (list byte).
  Variable kdf : list byte -> Z -> Z -> Z -> Z -> list byte -> res (list byte).

  Notation hash := (hash_password sha kdf).
  Notation verify := (verify_password sha b64d kdf).
  Notation digest := (std_digest sha kdf).

  (* ---- hash_password *)
  Lemma hash_spec : forall pw salt,
    hash (PBytes pw) salt =
    match digest salt pw with
    | Ok out => Ok (hash_string (b64e (pack_params std_params)) (b64e (salt ++ out)))
    | Err e => Err e
    end.
  Proof.
    intros pw salt. unfold hash_password, std_digest.
    destruct (kdf salt DIGEST_LENGTH (k_N std_params) (k_r std_params) (k_p std_params) (sha pw)); cbn [bind].
    - rewrite header_app. reflexivity.
    - reflexivity.
  Qed.

  Lemma hash_ok_inv : forall pw salt h, hash pw salt = Ok h ->
    exists p out, pw = PBytes p /\ digest salt p = Ok out /\
                  h = hash_string (b64e (pack_params std_params)) (b64e (salt ++ out)).
  Proof.
    intros pw salt h H. destruct pw as [p|enc|]; try discriminate H.
    rewrite hash_spec in H. destruct (digest salt p) as [out|] eqn:E; [|discriminate].
    inversion H. eauto.
  Qed.

  (* verification of a string hash_password produced, for any password q *)
  Lemma verify_hashed : b64_roundtrip b64d -> kdf_length kdf ->
    forall p q salt out, len salt = SALT_LENGTH -> digest salt p = Ok out ->
    verify (PBytes q) (PStr (Ok (hash_string (b64e (pack_params std_params)) (b64e (salt ++ out))))) =
    (do d <- digest salt q; Ok (bytes_eqb d out)).
  Proof.
    intros HB HK p q salt out Hs Hd. unfold verify_password. cbn [bind].
    assert (Lo : len out = DIGEST_LENGTH) by (eapply HK; exact Hd).
    rewrite (prepare_hash_string b64d _ _ (pack_params std_params) (salt ++ out) std_params
               (b64e_no_colon _) (b64e_no_colon _) (HB _) (HB _) unpack_pack_std).
    assert (Ll : len (salt ++ out) = 40).
    { unfold len in *. rewrite app_length. unfold SALT_LENGTH, DIGEST_LENGTH in *. lia. }
    rewrite Ll. cbn [bind].
    change ((k_len std_params <? 1) || negb (k_sl std_params + k_len std_params =? 40)) with false. cbv iota.
    cbn [bind prepared_of q_salt q_len q_N q_r q_p q_expected].
    assert (Ln : length salt = Z.to_nat (k_sl std_params)).
    { unfold len, SALT_LENGTH in Hs. change (k_sl std_params) with 16. lia. }
    destruct (firstn_skipn_app salt out _ Ln) as [F S]. rewrite F, S. reflexivity.
  Qed.

  (* ---- 1. the right password verifies *)
  Theorem C19_verify_own_proof : b64_roundtrip b64d -> kdf_length kdf ->
    forall pw salt h, len salt = SALT_LENGTH -> hash (PBytes pw) salt = Ok h ->
    verify (PBytes pw) (PStr (Ok h)) = Ok true.
  Proof.
    intros HB HK pw salt h Hs H. destruct (hash_ok_inv _ _ _ H) as [p [out [E [Hd ->]]]].
    inversion E; subst p. rewrite (verify_hashed HB HK pw pw salt out Hs Hd).
    rewrite Hd. cbn [bind]. rewrite bytes_eqb_refl. reflexivity.
  Qed.

  (* hash_password on bytes fails only if scrypt fails, and on anything else raises TypeError *)
  Theorem C19_hash_total_proof : forall pw salt,
    match pw with
    | PBytes p =>
        match digest salt p with
        | Ok out => hash pw salt = Ok (header ++ b64e (salt ++ out))
        | Err e => hash pw salt = Err e
        end
    | _ => hash pw salt = Err EType
    end.
  Proof.
    intros [p|enc|] salt; try reflexivity.
    rewrite hash_spec. destruct (digest salt p); [rewrite header_app|]; reflexivity.
  Qed.

  (* ---- 2. another password: True exactly when scrypt(sha256(.)) collides for the pair *)
  Theorem C19_verify_other_iff_proof : b64_roundtrip b64d -> kdf_length kdf ->
    forall p q salt h, len salt = SALT_LENGTH -> hash (PBytes p) salt = Ok h ->
    (verify (PBytes q) (PStr (Ok h)) = Ok true <-> digest salt q = digest salt p).
  Proof.
    intros HB HK p q salt h Hs H. destruct (hash_ok_inv _ _ _ H) as [p' [out [E [Hd ->]]]].
    inversion E; subst p'. rewrite (verify_hashed HB HK p q salt out Hs Hd). rewrite Hd.
    destruct (digest salt q) as [d|e]; cbn [bind]; split; intro G; try discriminate G.
    - inversion G as [G']. apply bytes_eqb_eq in G'. congruence.
    - inversion G; subst. rewrite bytes_eqb_refl. reflexivity.
  Qed.

  Theorem C19_verify_other_false_proof : b64_roundtrip b64d -> kdf_length kdf -> kdf_err_params kdf ->
    forall p q salt h, len salt = SALT_LENGTH -> hash (PBytes p) salt = Ok h ->
    q <> p -> digest salt q <> digest salt p ->
    verify (PBytes q) (PStr (Ok h)) = Ok false.
  Proof.
    intros HB HK HE p q salt h Hs H _ Hc. destruct (hash_ok_inv _ _ _ H) as [p' [out [E [Hd ->]]]].
    inversion E; subst p'. rewrite (verify_hashed HB HK p q salt out Hs Hd).
    destruct (digest salt q) as [d|e] eqn:Eq; cbn [bind].
    - rewrite bytes_eqb_neq; [reflexivity|]. intro G. apply Hc. congruence.
    - exfalso. unfold std_digest in *. rewrite (HE _ _ _ _ _ _ (sha p) _ Eq) in Hd. discriminate.
  Qed.

  (* ---- 3. a fresh salt gives a different string *)
  Theorem C19_fresh_salt_differs_proof : b64_roundtrip b64d ->
    forall p1 p2 s1 s2 h1 h2, len s1 = SALT_LENGTH -> len s2 = SALT_LENGTH -> s1 <> s2 ->
    hash p1 s1 = Ok h1 -> hash p2 s2 = Ok h2 -> h1 <> h2.
  Proof.
    intros HB p1 p2 s1 s2 h1 h2 L1 L2 Hne H1 H2 E.
    destruct (hash_ok_inv _ _ _ H1) as [q1 [o1 [_ [_ ->]]]].
    destruct (hash_ok_inv _ _ _ H2) as [q2 [o2 [_ [_ G]]]]. rewrite G in E. clear G.
    assert (R : forall f d, hash_string f d = (lit_scrypt ++ [colon] ++ lit_1 ++ [colon] ++ f ++ [colon]) ++ d)
      by (intros f d; unfold hash_string; repeat rewrite <- app_assoc; reflexivity).
    rewrite !R in E. apply app_inv_head in E.
    assert (X : Ok (s1 ++ o1) = Ok (s2 ++ o2)) by (rewrite <- !HB; rewrite E; reflexivity).
    inversion X as [X']. apply Hne.
    assert (length s1 = length s2) by (unfold len in *; lia).
    destruct (firstn_skipn_app s1 o1 _ eq_refl) as [F1 _].
    destruct (firstn_skipn_app s2 o2 _ eq_refl) as [F2 _].
    rewrite <- F1, <- F2. rewrite X'. congruence.
  Qed.

  (* ---- 4. what a True answer means, for ARBITRARY oracles (no hypothesis at all) *)
  Theorem C19_true_means_match_proof : forall pw hs,
    verify pw hs = Ok true ->
    exists p h f2 f3 params data k,
      pw = PBytes p /\ hs = PStr (Ok h) /\
      h = hash_string f2 f3 /\ ~ In colon f2 /\ ~ In colon f3 /\
      split_on colon h = [lit_scrypt; lit_1; f2; f3] /\
      b64d f2 = Ok params /\ b64d f3 = Ok data /\ unpack_params params = Ok k /\
      1 <= k_len k /\ len data = k_sl k + k_len k /\
      len (skipn (Z.to_nat (k_sl k)) data) = k_len k /\
      kdf (firstn (Z.to_nat (k_sl k)) data) (k_len k) (k_N k) (k_r k) (k_p k) (sha p)
        = Ok (skipn (Z.to_nat (k_sl k)) data).
  Proof.
    intros pw hs H. unfold verify_password in H.
    destruct pw as [p|?|]; try discriminate H. destruct hs as [?|enc|]; try discriminate H.
    destruct enc as [h|]; cbn [bind] in H; [|discriminate].
    destruct (prepare b64d h) as [q|] eqn:Ep; cbn [bind] in H; [|discriminate].
    destruct (prepare_ok_inv _ _ _ Ep) as [f2 [f3 [params [data [k [Es [E2 [E3 [Ek [Hl [Hc ->]]]]]]]]]]].
    cbn [prepared_of q_salt q_len q_N q_r q_p q_expected] in H.
    destruct (kdf _ _ _ _ _ _) as [d|] eqn:Ed; cbn [bind] in H; [|discriminate].
    inversion H as [B]. apply bytes_eqb_eq in B. subst d.
    pose proof (split_fields_nosep colon h) as F. rewrite Es in F.
    inversion F as [|? ? _ F1]; subst. inversion F1 as [|? ? _ F2]; subst.
    inversion F2 as [|? ? N2 F3]; subst. inversion F3 as [|? ? N3 _]; subst.
    exists p, h, f2, f3, params, data, k. repeat split; auto.
    - pose proof (join_split colon h) as J. rewrite Es in J. rewrite <- J. reflexivity.
    - pose proof (unpack_range _ _ Ek). unfold len in *. rewrite skipn_length. lia.
  Qed.

  (* ---- 5. malformed strings *)
  Theorem C19_error_kinds_proof : b64_err_value b64d -> kdf_err_value kdf ->
    forall pw hs, (forall e, hs = PStr (Err e) -> e = EUnicode) ->
    match verify pw hs with
    | Ok _ => True
    | Err e => value_or_type e
    end.
  Proof.
    intros HB HK pw hs Hu. unfold verify_password, value_or_type.
    destruct pw as [p|?|]; auto. destruct hs as [?|enc|]; auto.
    destruct enc as [h|e]; cbn [bind]; [|right; right; apply Hu; reflexivity].
    destruct (prepare b64d h) as [q|e] eqn:Ep; cbn [bind]; [|left; eapply prepare_err; eassumption].
    destruct (kdf _ _ _ _ _ _) as [d|e] eqn:Ed; cbn [bind]; [exact I|].
    left. eapply HK; eassumption.
  Qed.

  Theorem C19_type_errors_proof : forall pw hs,
    (forall p, pw <> PBytes p) \/ (forall enc, hs <> PStr enc) -> verify pw hs = Err EType.
  Proof.
    intros pw hs [H|H]; unfold verify_password.
    - destruct pw as [p|?|]; try reflexivity. exfalso. eapply H; reflexivity.
    - destruct pw as [p|?|]; try reflexivity. destruct hs as [?|enc|]; try reflexivity.
      exfalso. eapply H; reflexivity.
  Qed.

  Theorem C19_field_count_proof : forall p h,
    length (split_on colon h) <> 4%nat -> verify (PBytes p) (PStr (Ok h)) = Err EValue.
  Proof.
    intros p h H. unfold verify_password. cbn [bind]. rewrite prepare_not_four by exact H. reflexivity.
  Qed.

  Theorem C19_bad_lengths_proof : forall p h f0 f1 f2 f3 params data k,
    split_on colon h = [f0; f1; f2; f3] ->
    b64d f2 = Ok params -> b64d f3 = Ok data -> unpack_params params = Ok k ->
    k_len k < 1 \/ k_sl k + k_len k <> len data ->
    verify (PBytes p) (PStr (Ok h)) = Err EValue.
  Proof.
    intros p h f0 f1 f2 f3 params data k Es E2 E3 Ek Hc. unfold verify_password. cbn [bind].
    rewrite (prepare_four _ _ _ _ _ _ Es). rewrite E2, E3. cbn [bind].
    destruct (negb (bytes_eqb f0 lit_scrypt) || negb (bytes_eqb f1 lit_1)); [reflexivity|].
    rewrite Ek. cbn [bind].
    destruct ((k_len k <? 1) || negb (k_sl k + k_len k =? len data)) eqn:C; [reflexivity|].
    exfalso. apply orb_false_iff in C. destruct C as [C1 C2]. apply negb_false_iff in C2. lia.
  Qed.

  Theorem C19_method_version_proof : forall p h f0 f1 f2 f3,
    split_on colon h = [f0; f1; f2; f3] -> f0 <> lit_scrypt \/ f1 <> lit_1 ->
    b64_err_value b64d ->
    verify (PBytes p) (PStr (Ok h)) = Err EValue.
  Proof.
    intros p h f0 f1 f2 f3 Es Hm HB. unfold verify_password. cbn [bind].
    rewrite (prepare_four _ _ _ _ _ _ Es).
    destruct (b64d f2) as [params|e] eqn:E2; cbn [bind]; [|rewrite (HB _ _ E2); reflexivity].
    destruct (b64d f3) as [data|e] eqn:E3; cbn [bind]; [|rewrite (HB _ _ E3); reflexivity].
    destruct Hm as [Hm|Hm]; rewrite (bytes_eqb_neq _ _ Hm); cbn [negb orb]; [reflexivity|].
    rewrite orb_true_r. reflexivity.
  Qed.

  (* every truncation of a string hash_password produced, under any password *)
  Theorem C19_truncated_proof :
    b64_roundtrip b64d -> b64_prefix_shorter b64d -> b64_err_value b64d -> kdf_length kdf ->
    forall p q salt h n, len salt = SALT_LENGTH -> hash (PBytes p) salt = Ok h ->
    (n < length h)%nat ->
    verify (PBytes q) (PStr (Ok (firstn n h))) = Err EValue.
  Proof.
    intros HB HP HE HK p q salt h n Hs H Hn.
    destruct (hash_ok_inv _ _ _ H) as [p' [out [E [Hd ->]]]].
    destruct (split_truncated _ _ n (b64e_no_colon (pack_params std_params)) (b64e_no_colon (salt ++ out)) Hn)
      as [L|[m [Hm Es]]].
    - apply C19_field_count_proof. exact L.
    - unfold verify_password. cbn [bind]. rewrite (prepare_four _ _ _ _ _ _ Es).
      rewrite HB. cbn [bind].
      destruct (b64d (firstn m (b64e (salt ++ out)))) as [y|e] eqn:Ey; cbn [bind];
        [|rewrite (HE _ _ Ey); reflexivity].
      rewrite !bytes_eqb_refl. cbn [negb orb]. rewrite unpack_pack_std. cbn [bind].
      pose proof (HP _ _ _ Hm Ey) as Hy.
      assert (Lo : len out = DIGEST_LENGTH) by (eapply HK; exact Hd).
      assert (C : (k_len std_params <? 1) || negb (k_sl std_params + k_len std_params =? len y) = true).
      { change (k_len std_params) with 24. change (k_sl std_params) with 16.
        unfold len, SALT_LENGTH, DIGEST_LENGTH in *. rewrite app_length in Hy. cbn [Z.ltb]. lia. }
      rewrite C. reflexivity.
  Qed.

  (* ---- exact behaviour on EVERY well-formed string, whatever parameters it embeds (a hash made by
     a past or future hash_password with other N, r, p, salt and digest lengths) *)
  Theorem C19_verify_wellformed_proof : b64_roundtrip b64d ->
    forall q k salt dg, params_in_range k -> k_sl k = len salt -> k_len k = len dg -> 1 <= len dg ->
    verify (PBytes q) (PStr (Ok (hash_string (b64e (pack_params k)) (b64e (salt ++ dg))))) =
    (do d <- kdf salt (k_len k) (k_N k) (k_r k) (k_p k) (sha q); Ok (bytes_eqb d dg)).
  Proof.
    intros HB q k salt dg Hr Hs Hl H1. unfold verify_password. cbn [bind].
    rewrite (prepare_hash_string b64d _ _ (pack_params k) (salt ++ dg) k
               (b64e_no_colon _) (b64e_no_colon _) (HB _) (HB _) (unpack_pack k Hr)).
    assert (C : (k_len k <? 1) || negb (k_sl k + k_len k =? len (salt ++ dg)) = false).
    { unfold len in *. rewrite app_length. apply orb_false_iff. split; [lia|].
      apply negb_false_iff. lia. }
    rewrite C. cbn [bind prepared_of q_salt q_len q_N q_r q_p q_expected].
    assert (Ln : length salt = Z.to_nat (k_sl k)) by (unfold len in Hs; lia).
    destruct (firstn_skipn_app salt dg _ Ln) as [F S]. rewrite F, S. reflexivity.
  Qed.

  (* the string is ASCII (so that .decode("utf-8") followed by .encode("utf-8") is the identity) *)
  Theorem C19_hash_ascii_proof : forall pw salt h, hash pw salt = Ok h ->
    Forall (fun c => (Byte.to_N c < 128)%N) h.
  Proof.
    intros pw salt h H. destruct (hash_ok_inv _ _ _ H) as [p [out [_ [_ ->]]]].
    assert (A : forall x, Forall (fun c => (Byte.to_N c < 128)%N) (b64e x)).
    { intro x. eapply Forall_impl; [|apply b64e_chars]. apply b64_char_ascii. }
    assert (L : forall l, forallb (fun c => (Byte.to_N c <? 128)%N) l = true ->
                          Forall (fun c => (Byte.to_N c < 128)%N) l).
    { intros l G. apply Forall_forall. intros c Hc. rewrite forallb_forall in G.
      apply N.ltb_lt. apply G. exact Hc. }
    unfold hash_string.
    apply Forall_app; split; [apply L; reflexivity|]. apply Forall_cons; [reflexivity|].
    apply Forall_app; split; [apply L; reflexivity|]. apply Forall_cons; [reflexivity|].
    apply Forall_app; split; [apply A|]. apply Forall_cons; [reflexivity|apply A].
  Qed.
End C19.
