(* MsgSeqP.v — C07 message level, short sessions: while A has created at most HALF messages the
   hypotheses on B's message labels ((label), (msg-near), (truthful) of Net3.mwf) hold by themselves
   with every message labelled by its own wire number.  The sender's half of that: A gives its j-th
   message the sequence number wire j (ghost table T: the j-th message A created), every message it
   keeps anywhere, every RetrySender and every message of every datagram it puts on the wire carries
   the (type, payload) the table has under its sequence number — a retransmitted copy carries the
   SAME number and the SAME payload. *)
From Coq Require Import Lia ZifyBool.
From RecordUpdate Require Import RecordUpdate.
From Model Require Import Base SeqNum Wire Conn RecvHist Net Net2 Net3.
From Proofs Require Import Tac SeqNumP WireP ConnFrameP NonceP PackP ClearP AckP CallbackP CustodyP QueueP NetP
  AckNamesP AckNetP RecvP RecvHistP MsgRecvP MsgSendP MsgNetP.
Import RecordSetNotations.
Open Scope Z_scope.
Ltac Zify.zify_post_hook ::= Z.to_euclidean_division_equations.

(* ---------- the message table ---------- *)
Definition tbl := list (ptype * list byte).

Definition tab (T : tbl) (s : Z) (c : ptype * list byte) : Prop :=
  exists j, 1 <= j <= len T /\ s = wire j /\ nth_error T (Z.to_nat (j - 1)) = Some c.

Lemma tab_mono T ext s c : tab T s c -> tab (T ++ ext) s c.
Proof.
  intros (j & Hj & Hs & Hn). exists j. unfold len in *. split; [rewrite app_length; lia|]. split; [exact Hs|].
  rewrite nth_error_app1; [exact Hn|lia].
Qed.

Lemma tab_new T c : tab (T ++ [c]) (wire (len T + 1)) c.
Proof.
  exists (len T + 1). unfold len. split; [rewrite app_length; cbn; lia|]. split; [reflexivity|].
  replace (Z.to_nat (Z.of_nat (length T) + 1 - 1)) with (length T) by lia.
  rewrite nth_error_app2, Nat.sub_diag by lia. reflexivity.
Qed.

Lemma tab_range T s c : len T <= HALF -> tab T s c -> 1 <= s <= len T.
Proof. intros Hb (j & Hj & Hs & _). rewrite wire_small in Hs by (unfold RING, HALF in *; lia). lia. Qed.

Lemma tab_fun T s c c' : len T <= HALF -> tab T s c -> tab T s c' -> c = c'.
Proof.
  intros Hb (j & Hj & Hs & Hn) (j' & Hj' & Hs' & Hn').
  rewrite wire_small in Hs, Hs' by (unfold RING, HALF in *; lia). assert (j = j') by lia. subst j'. congruence.
Qed.

(* ---------- the predicate: QmS plus "what the table has under this sequence number" ---------- *)
Definition QmT (T : tbl) (m : pmsg) : Prop := tab T (m_seq m) (m_type m, m_payload m).
Definition QkT (T : tbl) (k : cb) : Prop :=
  match k with Retry _ mseq ty p _ => tab T mseq (ty, p) | Plain _ => True end.
Definition Qm2 S T (m : pmsg) : Prop := QmS S m /\ QmT T m.
Definition Qk2 S T (k : cb) : Prop := QkS S k /\ QkT T k.

Lemma Q2_stamp S T now m : Qm2 S T m -> Qm2 S T (stamp now m).
Proof. intros H. exact H. Qed.

Lemma Q2_cb S T m k : Qm2 S T m -> m_cb m = Some k -> Qk2 S T k.
Proof.
  intros [A B] E. split; [eapply QS_cb; eassumption|].
  destruct k as [i|rid mseq ty p i]; cbn; [exact I|].
  destruct A as [_ A]. rewrite E in A. destruct A as (A1 & A2 & A3 & _). unfold QmT in B. rewrite A1, A2, A3 in B. exact B.
Qed.

Lemma Q2_requeue S T rid mseq ty p i : Qk2 S T (Retry rid mseq ty p i) ->
  Qm2 S T {| m_seq := mseq; m_type := ty; m_payload := p; m_cb := Some (Retry rid mseq ty p i);
             m_retry := RTimeout; m_atime := 0 |}.
Proof. intros [A B]. split; [apply QS_requeue; exact A|exact B]. Qed.

Lemma Q2_nu S T m : Qm2 S T m -> m_type m <> UNKNOWN.
Proof. intros [A _]. eapply QS_nu; exact A. Qed.

Lemma Qk2_nu S T k : Qk2 S T k -> cbk_ok k.
Proof. intros [A _]. eapply QkS_nu; exact A. Qed.

Lemma Qm2_mono S S' T ext m : (forall y, In y S -> In y S') -> Qm2 S T m -> Qm2 S' (T ++ ext) m.
Proof. intros H [A B]. split; [eapply QmS_mono; eassumption|apply tab_mono; exact B]. Qed.

Lemma Qk2_mono S S' T ext k : (forall y, In y S -> In y S') -> Qk2 S T k -> Qk2 S' (T ++ ext) k.
Proof.
  intros H [A B]. split; [eapply QkS_mono; eassumption|]. destruct k; cbn in *; [exact I|apply tab_mono; exact B].
Qed.

Lemma MI2_mono S S' T ext c : (forall y, In y S -> In y S') ->
  MI (Qm2 S T) (Qk2 S T) c -> MI (Qm2 S' (T ++ ext)) (Qk2 S' (T ++ ext)) c.
Proof.
  intros H [A B D]. constructor.
  - eapply Forall_impl; [|exact A]. intros m. apply Qm2_mono. exact H.
  - eapply Forall_impl; [|exact B]. intros m. apply Qm2_mono. exact H.
  - eapply Forall_impl; [|exact D]. intros x Hx. eapply Forall_impl; [|exact Hx]. intros k. apply Qk2_mono. exact H.
Qed.

(* ---------- the counters only _send_type moves ---------- *)
Definition sm (c : conn) : Z * Z := (c_seq_msg c, c_sent c).

Lemma side_sm c c' : recv_side c' = recv_side c -> sm c' = sm c.
Proof. unfold recv_side, sm. intros H. inversion H. reflexivity. Qed.

Lemma ack_loop_sm h snap c c' o : ack_loop c h snap = (c', o) -> sm c' = sm c.
Proof. intros E. pose proof (ack_loop_side h snap c) as H. rewrite E in H. apply side_sm. exact H. Qed.

Lemma timeout_loop_sm strict now snap : forall c c' o, timeout_loop strict c now snap = (c', o) -> sm c' = sm c.
Proof.
  induction snap as [|[s t] r IH]; intros c c' o E; cbn [timeout_loop] in E.
  - injection E as <- <-. reflexivity.
  - dpair E c1 o1 E1. destruct (timeout_loop strict c1 now r) as [c2 o2] eqn:E2. injection E as <- <-.
    rewrite (IH _ _ _ E2).
    match type of E1 with (if ?b then _ else _) = _ => destruct b end; [|injection E1 as <- <-; reflexivity].
    pose proof (resolve_side false c s) as H. rewrite E1 in H. apply side_sm. exact H.
Qed.

Lemma build_packet_sm e c now c' r : build_packet e c now = (c', r) -> sm c' = sm c.
Proof.
  unfold build_packet. intros E. destruct (_ <? _); [injection E as <- <-; auto|].
  destruct (build_impl e c now _ _) as [c1 r1] eqn:E1.
  assert (H1 : sm c1 = sm c).
  { unfold build_impl in E1.
    destruct (match c_pretry_msg c with [] => _ | _ => _ end) as [[prm msgs0] cur0].
    destruct (out_pass e (c_outgoing c) msgs0 cur0) as [[rem msgs] cu].
    match type of E1 with (if ?b then _ else _) = _ => destruct b end; injection E1 as <- _;
      repeat match goal with |- context [match ?x with [] => _ | _ :: _ => _ end] => destruct x end; reflexivity. }
  destruct r1; injection E as <- <-; exact H1.
Qed.

Lemma client_update_sm c now : sm (fst (client_update c now)) = sm c.
Proof. unfold client_update. destruct (_ && (now >? _)); destruct (_ && (_ >? c_temp_timeout _)); reflexivity. Qed.

(* ---------- the sender invariant with its table ---------- *)
Record TI (S : list (list byte * Z)) (T : tbl) (c : conn) : Prop := {
  ti_mi : MI (Qm2 S T) (Qk2 S T) c;
  ti_seq : c_seq_msg c = seq_of_index (len T);
  ti_sent : c_sent c = len T }.

Lemma TI_upd S T c c' : c_outgoing c' = c_outgoing c -> c_pretry_msg c' = c_pretry_msg c -> c_pcbs c' = c_pcbs c ->
  sm c' = sm c -> TI S T c -> TI S T c'.
Proof.
  intros O Pm C Hs [A B D]. unfold sm in Hs. injection Hs as H1 H2.
  constructor; [eapply MI_upd; eassumption|congruence|congruence].
Qed.

Lemma TI_mi S T c c' : MI (Qm2 S T) (Qk2 S T) c' -> sm c' = sm c -> TI S T c -> TI S T c'.
Proof. intros HM Hs [A B D]. unfold sm in Hs. injection Hs as H1 H2. constructor; [exact HM|congruence|congruence]. Qed.

Lemma TI_mono S S' T c : (forall y, In y S -> In y S') -> TI S T c -> TI S' T c.
Proof.
  intros H [A B D]. constructor; [|exact B|exact D].
  pose proof (MI2_mono S S' T [] c H A) as HM. rewrite app_nil_r in HM. exact HM.
Qed.

Lemma len_snoc {A} (l : list A) x : len (l ++ [x]) = len l + 1.
Proof. unfold len. rewrite app_length. cbn. lia. Qed.

Lemma send_type_TI S T c ty p r k :
  QmS S (new_msg c ty p r k) -> TI S T c -> TI S (T ++ [(ty, p)]) (send_type c ty p r k).
Proof.
  intros Hq [A B D].
  assert (Hn : 0 <= len T) by (unfold len; lia).
  assert (Hs : seq_succ (c_seq_msg c) = wire (len T + 1)).
  { rewrite B, seq_succ_index by exact Hn. apply (seq_of_index_step (len T) Hn). }
  constructor.
  - apply send_type_MI.
    + split; [exact Hq|]. unfold QmT, new_msg. cbn [m_seq m_type m_payload]. rewrite Hs. apply tab_new.
    + apply (MI2_mono S S T [(ty, p)] c (fun y H => H) A).
  - unfold send_type. cbn. rewrite len_snoc, B, seq_succ_index by exact Hn. reflexivity.
  - unfold send_type. cbn. rewrite len_snoc, D. reflexivity.
Qed.

(* a function that may create messages: the table grows at the end *)
Definition Rel (S : list (list byte * Z)) (c c' : conn) : Prop := forall T, TI S T c -> exists ext, TI S (T ++ ext) c'.

Lemma Rel_refl S c : Rel S c c.
Proof. intros T H. exists []. rewrite app_nil_r. exact H. Qed.
Lemma Rel_trans S a b c : Rel S a b -> Rel S b c -> Rel S a c.
Proof.
  intros H1 H2 T H. destruct (H1 T H) as (e1 & G1). destruct (H2 _ G1) as (e2 & G2).
  exists (e1 ++ e2). rewrite app_assoc. exact G2.
Qed.
Lemma Rel_upd S c c' : c_outgoing c' = c_outgoing c -> c_pretry_msg c' = c_pretry_msg c -> c_pcbs c' = c_pcbs c ->
  sm c' = sm c -> Rel S c c'.
Proof. intros O Pm C Hs T H. exists []. rewrite app_nil_r. eapply TI_upd; eassumption. Qed.
Lemma Rel_send_type S c ty p r k : QmS S (new_msg c ty p r k) -> Rel S c (send_type c ty p r k).
Proof. intros Hq T H. exists [(ty, p)]. apply send_type_TI; assumption. Qed.

Lemma send_frags_Rel S frags : forall c fid n r i, Rel S c (send_frags c fid n r i frags).
Proof.
  induction frags as [|f rest IH]; intros c fid n r i; cbn [send_frags]; [apply Rel_refl|].
  eapply Rel_trans; [apply Rel_send_type; apply QS_frag|apply IH].
Qed.

Lemma recv_handshake_Rel S c ty oo c' os : recv_handshake c ty oo = (c', os) -> Rel S c c'.
Proof.
  intros Eh. unfold recv_handshake in Eh.
  destruct ty, (c_server c); try (injection Eh as <- <-; apply Rel_refl).
  - destruct (negb _); [injection Eh as <- <-; apply Rel_refl|].
    destruct (negb _); injection Eh as <- <-; [apply Rel_refl|].
    set (c1 := c <| c_token := o_token oo |> <| c_key := Some (o_key oo) |> <| c_status := CONNECTING |>).
    apply (Rel_trans S c c1); [apply Rel_upd; reflexivity|].
    apply Rel_send_type. apply QS_sys; [reflexivity|exact I].
  - destruct (o_parse oo =? 6); [injection Eh as <- <-; apply Rel_upd; reflexivity|].
    destruct (negb _); injection Eh as <- <-; [apply Rel_refl|].
    set (c1 := c <| c_token := o_token oo |> <| c_key := Some (o_key oo) |>).
    apply (Rel_trans S c c1); [apply Rel_upd; reflexivity|].
    apply (Rel_trans S c1 (send_type c1 CHALLENGE_RESP (o_reply oo) RNone IChallenge));
      [apply Rel_send_type; apply QS_sys; [reflexivity|exact I]|apply Rel_upd; reflexivity].
  - destruct (negb _); [injection Eh as <- <-; apply Rel_refl|].
    destruct (o_temp_token oo) as [t|]; [|injection Eh as <- <-; apply Rel_refl].
    destruct (t =? o_token oo); injection Eh as <- <-; [apply Rel_upd; reflexivity|apply Rel_refl].
Qed.

Lemma recv_msgs_Rel S ms c now orcs c' o : recv_msgs c now ms orcs = (c', o) -> Rel S c c'.
Proof.
  apply (recv_msgs_rel (Rel S)).
  - apply Rel_refl.
  - apply Rel_trans.
  - intros a bf. apply Rel_upd; reflexivity.
  - intros a s p. apply Rel_upd; reflexivity.
  - intros a n s p a' o' Ef. unfold recv_fragment in Ef. destruct (_ <? _)%nat; [injection Ef as <- <-; apply Rel_refl|].
    injection Ef as <- <-. destruct (fr_complete _); apply Rel_upd; reflexivity.
  - intros a. apply Rel_upd; reflexivity.
  - intros a ty oo a' os Eh. eapply recv_handshake_Rel; exact Eh.
Qed.

Lemma recv_Rel S c now d orcs c' o : recv c now d orcs = (c', o) -> Rel S c c'.
Proof.
  unfold recv. intros E.
  destruct (keyless_refuses c (d_hdr d)); [injection E as <- <-; apply Rel_upd; reflexivity|].
  destruct (open_dgram (c_key c) d) as [ms|]; [|injection E as <- <-; apply Rel_upd; reflexivity].
  destruct (bf_insert (c_bf_pkt c) _) as [bf|]; [|injection E as <- <-; apply Rel_upd; reflexivity].
  match type of E with context [handle_ack_bits ?c0 _] => set (cc := c0) in E end.
  destruct (handle_ack_bits cc (d_hdr d)) as [c1 o1] eqn:E1.
  destruct (recv_msgs c1 now ms orcs) as [c2 o2] eqn:E2. injection E as <- <-.
  eapply Rel_trans; [apply (Rel_upd S c cc); reflexivity|].
  eapply Rel_trans; [|eapply recv_msgs_Rel; exact E2].
  intros T H. exists []. rewrite app_nil_r. unfold handle_ack_bits in E1.
  eapply TI_mi; [|eapply ack_loop_sm; exact E1|exact H].
  eapply (ack_loop_MI _ _ (Q2_requeue S T)); [apply H|exact E1].
Qed.

(* the tail of a tick: packet assembly and the time-out sweep create nothing; every message of the
   datagram has its table entry *)
Lemma tick_tail_TI strict e S Sa Ka T c n now c1 pk c2 o2 :
  TI S T c -> PK c -> AInv Sa Ka c n -> build_packet e c now = (c1, pk) -> check_timeout strict c1 now = (c2, o2) ->
  TI S T c2 /\ PK c2 /\
  forall cx, WireQ (Qm2 S T) (flat_map dg_of (match pk with Some p => emit cx p | None => [] end)).
Proof.
  intros H HP HA E1 E2.
  destruct (tick_tail_link _ _ (Q2_stamp S T) (Q2_cb S T) (Q2_requeue S T) (Q2_nu S T) (Qk2_nu S T)
              _ _ _ _ _ _ _ _ _ _ _ (ti_mi _ _ _ H) HP HA E1 E2) as (M2 & P2 & _ & W2).
  split; [|split; [exact P2|exact W2]].
  eapply TI_mi; [exact M2| |exact H].
  unfold check_timeout in E2. rewrite (timeout_loop_sm _ _ _ _ _ _ E2). eapply build_packet_sm; exact E1.
Qed.

Theorem step_TI e S Sa Ka T c n x c' o :
  ev_open x -> user_x x -> PK c -> AInv Sa Ka c n -> TI S T c -> step e c x = (c', o) ->
  exists ext, TI (sent_of x ++ S) (T ++ ext) c' /\
              WireQ (Qm2 (sent_of x ++ S) (T ++ ext)) (flat_map dg_of o).
Proof.
  intros Hop Hsm HP HA H0 E.
  set (S' := sent_of x ++ S).
  assert (Hmono : forall y, In y S -> In y S') by (intros; apply in_or_app; right; assumption).
  pose proof (TI_mono S S' T c Hmono H0) as H.
  assert (Wnil : forall T', WireQ (Qm2 S' T') []) by (intros T' d []).
  assert (Hsame : forall c1, c_outgoing c1 = c_outgoing c -> c_pretry_msg c1 = c_pretry_msg c -> c_pcbs c1 = c_pcbs c ->
                    sm c1 = sm c -> exists ext, TI S' (T ++ ext) c1 /\ WireQ (Qm2 S' (T ++ ext)) []).
  { intros c1 O Pm C Hs. exists []. rewrite app_nil_r. split; [eapply TI_upd; eassumption|apply Wnil]. }
  destruct x; cbn [step] in E; cbn [ev_open user_x] in *.
  - (* send *)
    pose proof (send_frame _ _ _ _ _ _ _ E) as [_ Ne]. rewrite (no_emit_dg _ Ne).
    unfold send in E. destruct (negb _); [injection E as <- <-; apply Hsame; reflexivity|].
    destruct (len p >? e_max_payload e) eqn:Eg.
    + destruct (len p >? e_max_frag e * e_max_frags e); injection E as <- <-; [apply Hsame; reflexivity|].
      set (frags := split_frags (Datatypes.S (length p)) e p).
      set (c0 := c <| c_seq_frag := seq_succ (c_seq_frag c) |>).
      assert (T0 : TI S' T c0) by (eapply TI_upd; [| | | |exact H]; reflexivity).
      destruct (send_frags_Rel S' frags c0 (seq_succ (c_seq_frag c)) (len frags) r 0 T T0) as (ext & T1).
      exists ext. split; [|apply Wnil]. eapply TI_upd; [| | | |exact T1]; reflexivity.
    + injection E as <- <-.
      exists [(APP, p)]. split; [|apply Wnil]. apply send_type_TI; [|exact H].
      apply QS_send; [exact Hsm|]. intros id ->. subst S'. cbn. left. reflexivity.
  - unfold client_tick in E.
    pose proof (client_update_sm c now) as Hs0.
    destruct (client_update c now) as [c0 o0] eqn:E0. cbn [fst] in Hs0.
    assert (H0' : TI S' T c0 /\ PK c0 /\ AInv Sa Ka c0 n /\ no_emit o0).
    { pose proof (client_update_frame _ _ _ _ E0) as (F0 & N & _). pose proof (client_update_ack _ _ _ _ E0) as B.
      assert (Hf : c_outgoing c0 = c_outgoing c /\ c_pretry_msg c0 = c_pretry_msg c /\ c_pcbs c0 = c_pcbs c /\ c_packs c0 = c_packs c).
      { unfold client_update in E0.
        destruct (_ && (now >? _)); destruct (_ && (_ >? c_temp_timeout _)); injection E0 as <- <-; auto. }
      destruct Hf as (O & Pm & C & A).
      split; [eapply TI_upd; eassumption|]. split; [eapply PK_upd; eassumption|]. split; [|exact N].
      destruct HA as [Ha Hp]. split; [eapply AInv0_same; eassumption|eapply purged_same; eassumption]. }
    destruct H0' as (T0 & P0 & A0 & Ne0).
    destruct (status_eqb (c_status c0) DROPPED).
    { injection E as <- <-. exists []. rewrite app_nil_r, (no_emit_dg _ Ne0). split; [exact T0|apply Wnil]. }
    match type of E with context [match ?y with (_, _) => _ end] => destruct y as [c1 o1] eqn:E1 end.
    assert (H1 : exists ext, TI S' (T ++ ext) c1 /\ PK c1 /\ AInv Sa Ka c1 n /\ no_emit o1).
    { destruct r as [|er|d orcs].
      - injection E1 as <- <-. exists []. rewrite app_nil_r. split; [exact T0|]. split; [exact P0|]. split; [exact A0|apply no_emit_nil].
      - injection E1 as <- <-. exists []. rewrite app_nil_r. split; [exact T0|]. split; [exact P0|]. split; [exact A0|]. intros y [<-|[]]; reflexivity.
      - destruct (recv c0 now d orcs) as [c'' o''] eqn:Er. injection E1 as <- <-.
        destruct (recv_Rel S' _ _ _ _ _ _ Er T T0) as (ext & T1). exists ext.
        destruct (recv_PK _ _ _ _ _ _ P0 Er) as [P1 _].
        split; [exact T1|]. split; [exact P1|]. split; [eapply recv_AInv; eassumption|].
        apply recv_frame in Er as [_ Nr]. auto with frame. }
    destruct H1 as (ext & T1 & P1 & A1 & Ne1).
    destruct (raised o1).
    { injection E as <- <-. exists ext. rewrite flat_dg_app, (no_emit_dg _ Ne0), (no_emit_dg _ Ne1). split; [exact T1|apply Wnil]. }
    destruct (_ >? _).
    2:{ injection E as <- <-. exists ext. rewrite flat_dg_app, (no_emit_dg _ Ne0), (no_emit_dg _ Ne1). split; [exact T1|apply Wnil]. }
    destruct (build_packet e c1 now) as [c2 pk] eqn:E2.
    destruct (check_timeout false c2 now) as [c3 o3] eqn:E3. injection E as <- <-.
    destruct (tick_tail_TI _ _ _ _ _ _ _ _ _ _ _ _ _ T1 P1 A1 E2 E3) as (T3 & P3 & W3).
    apply check_timeout_frame in E3 as [_ Ne3].
    exists ext. split; [exact T3|].
    rewrite !flat_dg_app, (no_emit_dg _ Ne0), (no_emit_dg _ Ne1), (no_emit_dg _ Ne3). cbn [app]. rewrite app_nil_r. apply W3.
  - unfold server_tick in E. destruct (_ >? _); [|injection E as <- <-; apply Hsame; reflexivity].
    destruct (build_packet e c now) as [c1 pk] eqn:E1.
    destruct (check_timeout true c1 now) as [c2 o2] eqn:E2. injection E as <- <-.
    destruct (tick_tail_TI _ _ _ _ _ _ _ _ _ _ _ _ _ H HP HA E1 E2) as (T2 & P2 & W2).
    apply check_timeout_frame in E2 as [_ Ne2].
    exists []. rewrite app_nil_r. split; [exact T2|]. rewrite flat_dg_app, (no_emit_dg _ Ne2). cbn [app]. apply W2.
  - destruct (recv_Rel S' _ _ _ _ _ _ E T H) as (ext & T1). exists ext. split; [exact T1|].
    apply recv_frame in E as [_ Nr]. rewrite (no_emit_dg _ Nr). apply Wnil.
  - destruct Hop.
  - injection E as <- <-. apply Hsame; destruct which as [|[[q|q|]|[q|q|]|]|q]; reflexivity.
  - injection E as <- <-. unfold client_hello.
    exists [(CLIENT_HELLO, hello)]. split; [|apply Wnil].
    eapply TI_upd; [| | | |apply (send_type_TI S' T c CLIENT_HELLO hello RNone IHello); [apply QS_sys; [reflexivity|exact I]|exact H]]; reflexivity.
  - injection E as <- <-. apply Hsame; reflexivity.
  - injection E as <- <-. apply Hsame; reflexivity.
Qed.

(* ---------- the joint level ---------- *)
Definition tabw (T : tbl) (w : wmsg) : Prop := tab T (w_seq w) (content w).

Definition TInv (M : mnet) : Prop :=
  exists T, TI (m_sent M) T (nA (g_net (m_g M))) /\
    (forall i d, In (i, d) (g_AB (m_g M)) -> forall w, In w (dg_msgs d) -> tabw T w) /\
    (forall j c, In (j, c) (snd (m_st M)) -> tab T j c).

Lemma TInv_mnet0 : TInv mnet0.
Proof.
  exists []. split; [|split].
  - constructor; cbn; [constructor; constructor|reflexivity|reflexivity].
  - intros i d [].
  - intros j c [].
Qed.

(* B's labels are the wire numbers themselves *)
Definition lab_ok (M : mnet) (vj : lev3) : Prop :=
  match fst (fst vj) with
  | NB x => forall d, accepts (nB (g_net (m_g M))) x = Some d -> snd vj = map w_seq (dg_msgs d)
  | NA _ => True
  end.

Lemma fold_mrec_tab T ws : forall st, (forall w, In w ws -> tabw T w) -> (forall j c, In (j, c) (snd st) -> tab T j c) ->
  forall j c, In (j, c) (snd (fold_left mrec (combine ws (map w_seq ws)) st)) -> tab T j c.
Proof.
  induction ws as [|w r IH]; intros st Hw Hst; cbn [map combine fold_left]; [exact Hst|].
  apply IH; [intros w' H'; apply Hw; right; exact H'|].
  intros j c. unfold mrec. cbn [fst snd]. destruct (w_dup 256 (fst st) (w_seq w)); [apply Hst|].
  intros [H|H]; [|exact (Hst j c H)]. injection H as <- <-. apply (Hw w). left. reflexivity.
Qed.

Theorem TInv_step e S K M vj : J S K (m_g M) -> SInv M -> TInv M -> wf3_ev e M vj -> lab_ok M vj -> TInv (mstep e M vj).
Proof.
  intros HJ [_ HP _ _] (T & HT & HWire & HD) Hwf0 Hlab. pose proof Hwf0 as [Hwf2 Hwf].
  destruct vj as [[v l] js]. unfold msg_ev, lab_ok in *. cbn [fst snd] in *. destruct v as [x|x].
  - destruct Hwf2 as [Hop _]. apply ev_open2_eq in Hop. pose proof HJ as [HA _ _ _ _ _ _ _].
    unfold mstep, TInv. cbn [fst snd gstep m_g m_sent m_st].
    destruct (step e (nA (g_net (m_g M))) x) as [a' o] eqn:E.
    destruct (step_TI _ _ _ _ _ _ _ _ _ _ Hop Hwf HP HA HT E) as (ext & HT' & HW').
    exists (T ++ ext). cbn [m_g m_sent m_st g_net g_AB nstep]. rewrite ?E. cbn [nA].
    split; [exact HT'|]. split.
    + intros i d Hin w Hw. apply in_app_or in Hin as [Hin|Hin].
      * apply tab_mono. exact (HWire i d Hin w Hw).
      * apply in_map_iff in Hin as (d0 & Hd0 & Hin). injection Hd0 as _ <-.
        destruct (HW' d0 Hin w Hw) as (m & [_ Hm] & <-). exact Hm.
    + intros j c Hin. apply tab_mono. exact (HD j c Hin).
  - unfold mstep, TInv. cbn [fst snd gstep m_g m_sent m_st].
    destruct (step e (nB (g_net (m_g M))) x) as [b' o] eqn:E.
    exists T. cbn [m_g m_sent m_st g_net g_AB nstep]. rewrite ?E. cbn [nA].
    split; [exact HT|]. split; [exact HWire|].
    destruct (accepts (nB (g_net (m_g M))) x) as [d|] eqn:Ea; [|exact HD].
    rewrite (Hlab d eq_refl). apply fold_mrec_tab; [|exact HD].
    destruct (accepts_opens _ _ _ Ea) as [Hd Ho]. destruct (Hwf2 d Hd Ho) as [Hin _].
    exact (HWire l d Hin).
Qed.

(* ---------- the label hypotheses hold by themselves ---------- *)
Definition newest_in (st : wstate) : Prop := match st with Some (m, acc) => In m acc | None => True end.

Lemma newest_in_next st n : newest_in st -> newest_in (w_next 256 st n).
Proof.
  destruct st as [[m acc]|]; cbn [newest_in w_next]; [|intros _; left; reflexivity].
  intros H. destruct (spec_dup 256 m acc n) eqn:Hd.
  - assert (n <= m) by (unfold spec_dup in Hd; lia). replace (Z.max m n) with m by lia. exact H.
  - destruct (Z.max_spec m n) as [[_ ->]|[_ ->]]; [left; reflexivity|right; exact H].
Qed.

Lemma mwf_short T ws : len T <= HALF -> forall st,
  (forall w, In w ws -> tabw T w) -> (forall j c, In (j, c) (snd st) -> tab T j c) -> recorded st -> newest_in (fst st) ->
  mwf st (combine ws (map w_seq ws)).
Proof.
  intros Hb. induction ws as [|w r IH]; intros st Hw Hst Hrec Hnew; cbn [map combine mwf]; [exact I|].
  cbn [fst snd]. pose proof (Hw w (or_introl eq_refl)) as Hww. unfold tabw in Hww.
  pose proof (tab_range _ _ _ Hb Hww) as Hr.
  split; [rewrite wire_small by (unfold RING, HALF in *; lia); reflexivity|].
  split; [|split].
  - split; [lia|]. destruct (fst st) as [[m acc]|] eqn:Es; [|exact I].
    cbn in Hnew. assert (Hm : In m (wacc (fst st))) by (rewrite Es; exact Hnew).
    destruct (Hrec m Hm) as (c0 & Hc0). pose proof (tab_range _ _ _ Hb (Hst _ _ Hc0)). unfold HALF in *. lia.
  - intros c0 Hc0. exact (tab_fun _ _ _ _ Hb (Hst _ _ Hc0) Hww).
  - apply IH.
    + intros w' H'. apply Hw. right. exact H'.
    + intros j c. unfold mrec. cbn [fst snd]. destruct (w_dup 256 (fst st) (w_seq w)); [apply Hst|].
      intros [H|H]; [|exact (Hst j c H)]. injection H as <- <-. exact Hww.
    + intros j Hj. unfold mrec in *. cbn [fst snd] in *. destruct (w_dup 256 (fst st) (w_seq w)) eqn:Hd.
      * destruct (w_dup_acc _ _ Hd) as [_ Hacc]. rewrite Hacc in Hj. exact (Hrec j Hj).
      * rewrite (w_fresh_acc _ _ Hd) in Hj. destruct Hj as [<-|Hj]; [eexists; left; reflexivity|].
        destruct (Hrec j Hj) as (c0 & Hc0). exists c0. right. exact Hc0.
    + unfold mrec. cbn [fst]. apply newest_in_next. exact Hnew.
Qed.

(* short sessions: (auth) only at datagram level, at most HALF + 1 datagrams and HALF messages of A,
   B's labels are the wire numbers, no exception while processing, unfragmented traffic *)
Definition short3_ev (e : env) (M : mnet) (vj : lev3) : Prop :=
  auth_ev (m_g M) (fst vj) /\ g_nA (m_g M) <= HALF + 1 /\ c_sent (nA (g_net (m_g M))) <= HALF /\
  match fst (fst vj) with
  | NA x => user_x x
  | NB x => forall d, accepts (nB (g_net (m_g M))) x = Some d ->
              snd vj = map w_seq (dg_msgs d) /\
              (has_hs (dg_msgs d) = true -> raised (snd (step e (nB (g_net (m_g M))) x)) = false)
  end.

Fixpoint short3_run (e : env) (M : mnet) (vs : list lev3) : Prop :=
  match vs with
  | [] => True
  | v :: r => short3_ev e M v /\ short3_run e (mstep e M v) r
  end.

Lemma short3_wf3_ev e S K M vj : J3 S K M -> TInv M -> short3_ev e M vj -> wf3_ev e M vj /\ lab_ok M vj.
Proof.
  intros [HJ _ _ [HW Hrec _ _]] (T & HT & HWire & HD) (Ha & Hn & Hs & Hm).
  pose proof (auth_wf2_ev _ _ _ _ HJ Hn Ha) as Hwf2.
  destruct vj as [[v l] js]. unfold wf3_ev, wf3x_ev, msg_ev, lab_ok. cbn [fst snd] in *.
  destruct v as [x|x]; [split; [split; [exact Hwf2|exact Hm]|exact I]|].
  split; [split; [exact Hwf2|]|intros d Hd; exact (proj1 (Hm d Hd))].
  intros d Hd. destruct (Hm d Hd) as [-> Hnr]. split; [rewrite map_length; reflexivity|]. split; [|intros _ Hh; exact (Hnr Hh)].
  destruct (accepts_opens _ _ _ Hd) as [Hdi Ho]. destruct (Hwf2 d Hdi Ho) as [Hin _].
  assert (Hb : len T <= HALF) by (destruct HT as [_ _ D]; lia).
  apply (mwf_short T); auto.
  - exact (HWire l d Hin).
  - destruct (fst (m_st M)) as [[m acc]|] eqn:Es; [|exact I]. cbn [W] in HW. destruct HW as [HR _].
    cbn. apply InB_In. apply (R_in _ _ _ HR).
Qed.

Theorem short3_run_wf3 e S K vs : forall M, 0 <= e_max_payload e -> J3 S K M -> TInv M -> short3_run e M vs -> wf3_run e M vs.
Proof.
  induction vs as [|v r IH]; intros M He HJ HT Hs; cbn [short3_run] in Hs; [exact I|].
  destruct Hs as [H1 H2]. destruct (short3_wf3_ev _ _ _ _ _ HJ HT H1) as [W1 L1].
  split; [exact W1|]. apply IH; [exact He| | |exact H2].
  - apply J3_step; assumption.
  - destruct HJ as [HJ _ HS _]. eapply TInv_step; eassumption.
Qed.

Theorem short3_run_inv e S K vs : forall M, 0 <= e_max_payload e -> J3 S K M -> TInv M -> short3_run e M vs ->
  J3 S K (mrun e M vs) /\ TInv (mrun e M vs).
Proof.
  induction vs as [|v r IH]; intros M He HJ HT Hs; cbn [short3_run mrun fold_left] in *; [auto|].
  destruct Hs as [H1 H2]. destruct (short3_wf3_ev _ _ _ _ _ HJ HT H1) as [W1 L1].
  apply IH; [exact He| | |exact H2].
  - apply J3_step; assumption.
  - destruct HJ as [HJ _ HS _]. eapply TInv_step; eassumption.
Qed.

(* the theorem for short sessions *)
Theorem short_success_means_delivered e S K M vs x l js a' o id :
  0 <= e_max_payload e -> J3 S K M -> PFInv e M -> TInv M -> short3_run e M (vs ++ [((NA x, l), js)]) ->
  let M' := mrun e M vs in
  step e (nA (g_net (m_g M'))) x = (a', o) -> In (OCallback id true) o ->
  big_id e (m_sent M') id \/ delivered_as M' id.
Proof.
  intros He HJ HPF HT Hs. apply (success_means_delivered e S K M vs x l js a' o id He HJ HPF).
  eapply short3_run_wf3; eassumption.
Qed.

(* what the sender half says, spelled out: every message of every datagram A has put on the wire, and
   every RetrySender A has registered, carries the (type, payload) of the message A created with that
   sequence number; while A has created at most HALF messages equal numbers mean equal messages *)
Theorem retransmission_same M i d w i' d' w' :
  TInv M -> c_sent (nA (g_net (m_g M))) <= HALF ->
  In (i, d) (g_AB (m_g M)) -> In w (dg_msgs d) -> In (i', d') (g_AB (m_g M)) -> In w' (dg_msgs d') ->
  w_seq w = w_seq w' -> w_type w = w_type w' /\ w_payload w = w_payload w'.
Proof.
  intros (T & [_ _ D] & HWire & _) Hs H1 H2 H3 H4 Heq.
  pose proof (HWire _ _ H1 _ H2) as A. pose proof (HWire _ _ H3 _ H4) as B. unfold tabw in *. rewrite Heq in A.
  assert (Hb : len T <= HALF) by lia. pose proof (tab_fun _ _ _ _ Hb A B) as Hc. unfold content in Hc.
  injection Hc as H5 H6. auto.
Qed.
