(* C15P.v — proofs of the C15 statements: the typed JSON conversion of Model/Json.v reproduces every
   object of the documented annotation grammar, directly and through a JSON text round trip. *)
From Coq Require Import ZArith List Bool Lia.
From Model Require Import Base Json.
From Proofs Require Import JsonP.
Open Scope Z_scope.

(* what happens to toJson's result before fromJson sees it: nothing (b = false) or
   json.loads(json.dumps(.)) (b = true).  The same b is the `lim` flag of the domain predicate. *)
Definition tr (b : bool) (v : pv) : res pv := if b then json_rt v else Ok v.
Definition trk (b : bool) (k : pv) : res pv := if b then (do s <- key_str k; Ok (PStr s)) else Ok k.

Lemma json_rt_list : forall l, json_rt (PList l) = do l' <- mapM json_rt l; Ok (PList l').
Proof. reflexivity. Qed.

Lemma json_rt_dict : forall kv,
  json_rt (PDict kv) =
  do kv' <- mapM (fun p => match p with
                           | (k, x) => do s <- key_str k; do x' <- json_rt x; Ok (PStr s, x')
                           end) kv;
  Ok (PDict (dict_build kv')).
Proof. reflexivity. Qed.

Lemma tr_list : forall b l l', mapM (tr b) l = Ok l' -> tr b (PList l) = Ok (PList l').
Proof.
  intros. destruct b.
  - change (mapM json_rt l = Ok l') in H. unfold tr. rewrite json_rt_list, H. reflexivity.
  - unfold tr. f_equal. f_equal. revert l' H. induction l; simpl; intros. congruence.
    change (mapM (tr false) l) with (mapM (fun v : pv => Ok v) l) in *.
    destruct (mapM (fun v : pv => Ok v) l) eqn:E; try discriminate.
    inversion H; subst. f_equal. apply IHl; auto.
Qed.

Lemma tr_dict : forall b kv kv',
  Forall2 (fun p q => trk b (fst p) = Ok (fst q) /\ tr b (snd p) = Ok (snd q)) kv kv' ->
  nodupb (map fst kv') = true -> tr b (PDict kv) = Ok (PDict kv').
Proof.
  intros b kv kv' F N. destruct b; unfold tr.
  - rewrite json_rt_dict.
    assert (M : mapM (fun p => match p with
                               | (k, x) => do s <- key_str k; do x' <- json_rt x; Ok (PStr s, x')
                               end) kv = Ok kv').
    { clear N. induction F as [|[k x] [k' x'] kv kv' (A & B)]; simpl; auto.
      simpl in A, B. unfold trk in A. unfold tr in B.
      destruct (key_str k); simpl in A; try discriminate. inversion A; subst.
      simpl. rewrite B. simpl. rewrite IHF. reflexivity. }
    rewrite M. simpl. rewrite dict_build_nodup; auto.
  - f_equal. f_equal. clear N. induction F as [|[k x] [k' x'] kv kv' (A & B)]; auto.
    simpl in A, B. unfold trk in A. unfold tr in B. congruence.
Qed.

(* ------------------------------------------------------------------ class tables *)

Section WithCt.
Variable ct : ctab.
Variable upper : str -> str.
Hypothesis WF : wf_ctab ct upper = true.

Lemma wf_enum : forall eid ms, find_enum ct eid = Some ms ->
  str_nodupb (map fst ms) = true /\ forall n v, In (n, v) ms -> upper n = n.
Proof.
  intros. unfold wf_ctab in WF. apply andb_true_iff in WF as [_ W].
  rewrite forallb_forall in W. apply assocZ_in in H. specialize (W _ H). simpl in W.
  apply andb_true_iff in W as [W1 W2]. split; auto.
  intros. rewrite forallb_forall in W2. specialize (W2 _ H0). simpl in W2. apply str_eqb_eq; auto.
Qed.

Lemma wf_obj : forall cid fds, find_obj ct cid = Some fds -> str_nodupb (map f_name fds) = true.
Proof.
  intros. unfold wf_ctab in WF. apply andb_true_iff in WF as [W _].
  rewrite forallb_forall in W. apply assocZ_in in H. apply (W _ H).
Qed.

Lemma enum_rt : forall (self : Z -> pv -> res pv) eid raw, enum_has_value ct eid raw = true ->
  exists n, basic_toJson ct (fun _ => Err EOther) (TEnum eid) (PEnum eid raw) = Ok (PStr n) /\
            basic_fromJson ct upper self (TEnum eid) (PStr n) = Ok (PEnum eid raw).
Proof.
  intros self eid raw H. unfold enum_has_value in H.
  destruct (find_enum ct eid) as [ms|] eqn:FE; try discriminate.
  destruct (value2name ms raw) as [n|] eqn:VN; try discriminate.
  destruct (wf_enum _ _ FE) as [ND UP]. pose proof (value2name_in _ _ _ VN) as IN.
  exists n. split.
  - unfold basic_toJson, enum_init. rewrite FE, Z.eqb_refl. unfold bind, enum_name. rewrite FE, VN. reflexivity.
  - unfold basic_fromJson. rewrite FE. rewrite (UP _ _ IN). rewrite (name2value_nodup _ _ _ ND IN).
    unfold enum_init. rewrite FE, VN. reflexivity.
Qed.

Lemma enum_name_inj : forall eid r1 r2 n,
  enum_name ct eid (Some r1) = Ok (PStr n) -> enum_name ct eid (Some r2) = Ok (PStr n) -> r1 = r2.
Proof.
  unfold enum_name. intros eid r1 r2 n H1 H2.
  destruct (find_enum ct eid) as [ms|] eqn:FE; try discriminate.
  destruct (wf_enum _ _ FE) as [ND _].
  destruct (value2name ms r1) as [n1|] eqn:V1; try discriminate.
  destruct (value2name ms r2) as [n2|] eqn:V2; try discriminate.
  inversion H1; inversion H2; subst.
  apply value2name_in in V1, V2.
  pose proof (name2value_nodup _ _ _ ND V1). pose proof (name2value_nodup _ _ _ ND V2). congruence.
Qed.

End WithCt.

(* ------------------------------------------------------------------ one level of the conversion *)

Section Level.
Variable ct : ctab.
Variable upper : str -> str.
Hypothesis WF : wf_ctab ct upper = true.
Variable b : bool.
Variable selfT : pv -> res pv.            (* value.toJson() of nested objects *)
Variable selfF : Z -> pv -> res pv.       (* cls.fromJson of nested objects *)
Variable selfH : pv -> Z -> bool.         (* "is a well-typed instance of class cid" for nested objects *)
Hypothesis selfH_obj : forall v cid, selfH v cid = true -> exists c fs, v = PObj c fs.
Hypothesis IH : forall v cid, selfH v cid = true ->
  exists kv kv', selfT v = Ok (PDict kv) /\ tr b (PDict kv) = Ok (PDict kv') /\
                 selfF cid (PDict kv') = Ok v /\ plainb b (PDict kv) = true.

Lemma ht_basic_hashable : forall e v, ht_basic ct selfH b e v = true -> hashable v = true.
Proof.
  intros. destruct e; try (destruct v; simpl in H; try discriminate; reflexivity).
  simpl in H. destruct (selfH_obj _ _ H) as (c & fs & ->). reflexivity.
Qed.

Lemma ht_basic_notnan : forall e v, ht_basic ct selfH b e v = true -> is_nan_val v = false.
Proof.
  intros. destruct v; auto. destruct e; simpl in H; try discriminate.
  - apply andb_true_iff in H as [_ H]. apply negb_true_iff in H. exact H.
  - destruct (selfH_obj _ _ H) as (c & fs & E). discriminate.
Qed.

Lemma basic_rt : forall e v, ht_basic ct selfH b e v = true ->
  exists j j', basic_toJson ct selfT e v = Ok j /\ tr b j = Ok j' /\
               basic_fromJson ct upper selfF e j' = Ok v /\ plainb b j = true.
Proof.
  intros e v H. destruct e.
  - (* int *) destruct v; simpl in H; try discriminate. exists (PInt z), (PInt z). repeat split; auto.
    unfold tr. destruct b; auto. simpl. rewrite H. reflexivity.
  - (* float *) destruct v; simpl in H; try discriminate. exists (PFloat bits), (PFloat bits).
    apply andb_true_iff in H as [_ H]. apply negb_true_iff in H. repeat split; auto.
    unfold tr. destruct b; auto. simpl. rewrite H. reflexivity.
  - (* bool *) destruct v; simpl in H; try discriminate. exists (PBool b0), (PBool b0). repeat split; auto.
    unfold tr. destruct b; auto.
  - (* str *) destruct v; simpl in H; try discriminate. exists (PStr s), (PStr s). repeat split; auto.
    unfold tr. destruct b; auto.
  - (* bytes *) destruct v; simpl in H; discriminate.
  - (* nested object *) simpl in H. destruct (IH _ _ H) as (kv & kv' & A & B & C & D).
    exists (PDict kv), (PDict kv'). repeat split; auto.
  - (* enum *) destruct v; simpl in H; try discriminate. apply andb_true_iff in H as [E H].
    apply Z.eqb_eq in E. subst eid0. destruct (enum_rt ct upper WF selfF eid raw H) as (n & A & B).
    exists (PStr n), (PStr n). repeat split; auto. unfold tr. destruct b; auto.
  - (* bare container *) destruct v; simpl in H; discriminate.
Qed.

Definition keyfn (k : ety) (a : pv) : pv := unres (basic_toJson ct selfT k a).
Definition keyfn' (k : ety) (a : pv) : pv := unres (trk b (keyfn k a)).

Lemma key_rt : forall k a, is_key_ty k = true -> ht_basic ct selfH b k a = true ->
  basic_toJson ct selfT k a = Ok (keyfn k a) /\ trk b (keyfn k a) = Ok (keyfn' k a) /\
  basic_fromJson ct upper selfF k (keyfn' k a) = Ok a /\
  hashable (keyfn k a) = true /\ plain_key b (keyfn k a) = true.
Proof.
  intros k a K H. unfold keyfn', keyfn. destruct k; try discriminate.
  - (* int *) destruct a; simpl in H; try discriminate. simpl. unfold trk. destruct b; simpl.
    + rewrite H. simpl. rewrite parse_int_dec by auto. auto.
    + auto.
  - (* str *) destruct a; simpl in H; try discriminate. simpl. unfold trk. destruct b; simpl; auto.
  - (* enum *) destruct a; simpl in H; try discriminate. apply andb_true_iff in H as [E H].
    apply Z.eqb_eq in E. subst eid0. destruct (enum_rt ct upper WF selfF eid raw H) as (n & A & B).
    change (basic_toJson ct selfT (TEnum eid) (PEnum eid raw) = Ok (PStr n)) in A.
    rewrite A. simpl unres. assert (T : trk b (PStr n) = Ok (PStr n)) by (unfold trk; destruct b; auto).
    rewrite T. simpl unres. auto.
Qed.

Lemma key_inj : forall k a1 a2, is_key_ty k = true ->
  ht_basic ct selfH b k a1 = true -> ht_basic ct selfH b k a2 = true -> py_eq a1 a2 = false ->
  py_eq (keyfn k a1) (keyfn k a2) = false /\ py_eq (keyfn' k a1) (keyfn' k a2) = false.
Proof.
  intros k a1 a2 K H1 H2 NE. unfold keyfn', keyfn. destruct k; try discriminate.
  - destruct a1; simpl in H1; try discriminate. destruct a2; simpl in H2; try discriminate.
    simpl in *. split; auto. unfold trk. destruct b; simpl; auto.
    rewrite H1, H2. simpl. destruct (str_eqb (dec z) (dec z0)) eqn:E; auto.
    apply str_eqb_eq in E. apply dec_inj in E; auto. subst. rewrite Z.eqb_refl in NE. discriminate.
  - destruct a1; simpl in H1; try discriminate. destruct a2; simpl in H2; try discriminate.
    simpl in *. split; auto. unfold trk. destruct b; simpl; auto.
  - destruct a1; simpl in H1; try discriminate. destruct a2; simpl in H2; try discriminate.
    apply andb_true_iff in H1 as [E1 H1]. apply andb_true_iff in H2 as [E2 H2].
    apply Z.eqb_eq in E1, E2. subst eid0 eid1.
    destruct (enum_rt ct upper WF selfF eid raw H1) as (n1 & A1 & _).
    destruct (enum_rt ct upper WF selfF eid raw0 H2) as (n2 & A2 & _).
    change (basic_toJson ct selfT (TEnum eid) (PEnum eid raw) = Ok (PStr n1)) in A1.
    change (basic_toJson ct selfT (TEnum eid) (PEnum eid raw0) = Ok (PStr n2)) in A2.
    rewrite A1, A2. simpl unres.
    assert (T : forall n, trk b (PStr n) = Ok (PStr n)) by (intros; unfold trk; destruct b; auto).
    rewrite !T. simpl unres. simpl in NE.
    assert (N : str_eqb n1 n2 = false).
    { destruct (str_eqb n1 n2) eqn:E; auto. apply str_eqb_eq in E. subst n2. exfalso.
      unfold basic_toJson, enum_init in A1, A2.
      destruct (find_enum ct eid) eqn:FE; try discriminate. rewrite Z.eqb_refl in A1, A2.
      simpl in A1, A2. rewrite (enum_name_inj ct upper WF _ _ _ _ A1 A2) in NE.
      rewrite Z.eqb_refl in NE. discriminate. }
    simpl. auto.
Qed.


(* the Tuple branch on a list / tuple of exactly the annotated arity *)
Lemma tuple_conv_ok : forall (f : ety -> pv -> res pv) (mk : list pv -> pv),
  (forall l i, py_index (mk l) i = match nth_error l i with Some x => Ok x | None => Err EIndex end) ->
  forall es xs pre out,
  Forall2 (fun p y => f (fst p) (snd p) = Ok y) (combine es xs) out -> length es = length xs ->
  tuple_conv f es (length pre) (length (pre ++ xs)) (mk (pre ++ xs)) = Ok out.
Proof.
  intros f mk MK. induction es as [|e0 es IHes]; intros [|x0 xs] pre out F L; simpl in *; try discriminate.
  - inversion F; auto.
  - inversion F as [|q y qs ys A F']; subst. simpl in A.
    assert (LT : Nat.ltb (length pre) (length (pre ++ x0 :: xs)) = true).
    { apply Nat.ltb_lt. rewrite app_length. simpl. lia. }
    rewrite LT. rewrite MK. rewrite nth_error_app2 by lia. rewrite Nat.sub_diag. simpl.
    rewrite A. simpl.
    assert (E : pre ++ x0 :: xs = (pre ++ [x0]) ++ xs) by (rewrite <- app_assoc; reflexivity).
    assert (E2 : S (length pre) = length (pre ++ [x0])) by (rewrite app_length; simpl; lia).
    rewrite E, E2. rewrite (IHes xs (pre ++ [x0]) ys); auto.
Qed.

Lemma combine_map_self : forall A B C (g : A * B -> C) (a : list A) (l : list B),
  combine a (map g (combine a l)) = map (fun q => (fst q, g q)) (combine a l).
Proof. induction a; destruct l; simpl; auto. f_equal; auto. Qed.

Lemma tuple_conv_ok0 : forall (f : ety -> pv -> res pv) (mk : list pv -> pv),
  (forall l i, py_index (mk l) i = match nth_error l i with Some x => Ok x | None => Err EIndex end) ->
  forall es xs out,
  Forall2 (fun p y => f (fst p) (snd p) = Ok y) (combine es xs) out -> length es = length xs ->
  tuple_conv f es 0 (length xs) (mk xs) = Ok out.
Proof. intros. apply (tuple_conv_ok f mk H es xs [] out); auto. Qed.

Lemma none_field_rt : forall j, j = PNone ->
  tr b j = Ok PNone /\ plainb b j = true.
Proof. intros; subst. unfold tr. destruct b; auto. Qed.

Lemma field_rt : forall t v, ht_field ct selfH b t v = true ->
  exists j j', field_toJson ct selfT t v = Ok j /\ tr b j = Ok j' /\
               field_fromJson ct upper selfF t j' = Ok v /\ plainb b j = true.
Proof.
  intros t v H.
  assert (NONE : tr b PNone = Ok PNone) by (unfold tr; destruct b; auto).
  destruct t as [e|e|e|k e|es|].
  - (* basic *) apply basic_rt; auto.
  - (* List *)
    destruct v; simpl in H; try discriminate.
    { exists PNone, PNone. repeat split; auto. }
    rewrite forallb_forall in H.
    set (tj := fun x => unres (basic_toJson ct selfT e x)).
    set (rj := fun x => unres (tr b (tj x))).
    assert (S : forall x, In x l -> basic_toJson ct selfT e x = Ok (tj x) /\ tr b (tj x) = Ok (rj x) /\
                                      basic_fromJson ct upper selfF e (rj x) = Ok x /\ plainb b (tj x) = true).
    { intros x Hx. destruct (basic_rt e x (H x Hx)) as (j & j' & A & B & C & D).
      unfold rj, tj. rewrite A. simpl. rewrite B. simpl. auto. }
    exists (PList (map tj l)), (PList (map rj l)). split; [|split; [|split]].
    + simpl. rewrite (mapM_ok _ _ (basic_toJson ct selfT e) tj l) by (intros; apply S; auto). reflexivity.
    + apply tr_list. apply mapM_map. intros; apply S; auto.
    + simpl. rewrite (mapM_map _ _ _ (basic_fromJson ct upper selfF e) rj (fun x => x) l) by (intros; apply S; auto).
      rewrite map_id. reflexivity.
    + simpl. rewrite forallb_map. apply forallb_forall. intros; apply S; auto.
  - (* Set *)
    destruct v; simpl in H; try discriminate.
    { exists PNone, PNone. repeat split; auto. }
    apply andb_true_iff in H as [H ND]. rewrite forallb_forall in H.
    set (tj := fun x => unres (basic_toJson ct selfT e x)).
    set (rj := fun x => unres (tr b (tj x))).
    assert (S : forall x, In x l -> basic_toJson ct selfT e x = Ok (tj x) /\ tr b (tj x) = Ok (rj x) /\
                                      basic_fromJson ct upper selfF e (rj x) = Ok x /\ plainb b (tj x) = true).
    { intros x Hx. destruct (basic_rt e x (H x Hx)) as (j & j' & A & B & C & D).
      unfold rj, tj. rewrite A. simpl. rewrite B. simpl. auto. }
    exists (PList (map tj l)), (PList (map rj l)). split; [|split; [|split]].
    + simpl. rewrite (mapM_ok _ _ (basic_toJson ct selfT e) tj l) by (intros; apply S; auto). reflexivity.
    + apply tr_list. apply mapM_map. intros; apply S; auto.
    + simpl. rewrite (mapM_map _ _ _ (basic_fromJson ct upper selfF e) rj (fun x => x) l) by (intros; apply S; auto).
      rewrite map_id. simpl. unfold py_set.
      assert (HH : forallb hashable l = true).
      { apply forallb_forall. intros x Hx. eapply ht_basic_hashable; eauto. }
      assert (NN : existsb is_nan_val l = false).
      { destruct (existsb is_nan_val l) eqn:E; auto. apply existsb_exists in E as (x & Hx & E).
        rewrite (ht_basic_notnan e x (H x Hx)) in E. discriminate. }
      rewrite HH, NN. simpl. rewrite set_build_nodup; auto.
    + simpl. rewrite forallb_map. apply forallb_forall. intros; apply S; auto.
  - (* Dict *)
    destruct v; simpl in H; try discriminate.
    { exists PNone, PNone. repeat split; auto. }
    apply andb_true_iff in H as [H ND]. apply andb_true_iff in H as [K H]. rewrite forallb_forall in H.
    set (tj := fun x => unres (basic_toJson ct selfT e x)).
    set (rj := fun x => unres (tr b (tj x))).
    assert (S : forall p, In p kv -> basic_toJson ct selfT e (snd p) = Ok (tj (snd p)) /\
                                      tr b (tj (snd p)) = Ok (rj (snd p)) /\
                                      basic_fromJson ct upper selfF e (rj (snd p)) = Ok (snd p) /\
                                      plainb b (tj (snd p)) = true).
    { intros p Hp. specialize (H p Hp). apply andb_true_iff in H as [_ H].
      destruct (basic_rt e (snd p) H) as (j & j' & A & B & C & D).
      unfold rj, tj. rewrite A. simpl. rewrite B. simpl. auto. }
    assert (KS : forall p, In p kv -> ht_basic ct selfH b k (fst p) = true).
    { intros p Hp. specialize (H p Hp). apply andb_true_iff in H as [H _]. auto. }
    set (kv1 := map (fun p => (keyfn k (fst p), tj (snd p))) kv).
    set (kv2 := map (fun p => (keyfn' k (fst p), rj (snd p))) kv).
    assert (ND1 : nodupb (map fst kv1) = true).
    { unfold kv1. rewrite map_map. simpl. rewrite <- (map_map fst (keyfn k)).
      apply nodupb_map_inj; auto. intros x y Hx Hy NE.
      apply in_map_iff in Hx as (px & <- & Hx). apply in_map_iff in Hy as (py & <- & Hy).
      apply (key_inj k); auto. }
    assert (ND2 : nodupb (map fst kv2) = true).
    { unfold kv2. rewrite map_map. simpl. rewrite <- (map_map fst (keyfn' k)).
      apply nodupb_map_inj; auto. intros x y Hx Hy NE.
      apply in_map_iff in Hx as (px & <- & Hx). apply in_map_iff in Hy as (py & <- & Hy).
      apply (key_inj k); auto. }
    exists (PDict kv1), (PDict kv2). split; [|split; [|split]].
    + simpl. rewrite (dict_conv_nodup _ _ kv kv1); auto.
      unfold kv1. rewrite <- (map_id kv) at 1. apply Forall2_map_same. intros p Hp. simpl.
      destruct (key_rt k (fst p) K (KS p Hp)) as (A & _ & _ & Hh & _).
      destruct (S p Hp) as (A' & _). auto.
    + apply tr_dict; auto. unfold kv1, kv2. apply Forall2_map_same. intros p Hp. simpl.
      destruct (key_rt k (fst p) K (KS p Hp)) as (_ & A & _).
      destruct (S p Hp) as (_ & A' & _). auto.
    + simpl. rewrite (dict_conv_nodup _ _ kv2 kv); auto.
      unfold kv2. rewrite <- (map_id kv) at 2. apply Forall2_map_same. intros p Hp. simpl.
      destruct (key_rt k (fst p) K (KS p Hp)) as (_ & _ & A & _).
      destruct (S p Hp) as (_ & _ & A' & _). repeat split; auto. eapply ht_basic_hashable; eauto.
    + simpl. unfold kv1. rewrite forallb_map. apply forallb_forall. intros p Hp.
      destruct (key_rt k (fst p) K (KS p Hp)) as (_ & _ & _ & _ & A).
      destruct (S p Hp) as (_ & _ & _ & A'). rewrite A, A'. reflexivity.
  - (* Tuple *)
    destruct v; simpl in H; try discriminate.
    { exists PNone, PNone. repeat split; auto. }
    apply forall2b_spec in H as [L H].
    set (tj := fun p => unres (basic_toJson ct selfT (fst p) (snd p))).
    set (rj := fun p => unres (tr b (tj p))).
    assert (S : forall p, In p (combine es l) ->
                basic_toJson ct selfT (fst p) (snd p) = Ok (tj p) /\ tr b (tj p) = Ok (rj p) /\
                basic_fromJson ct upper selfF (fst p) (rj p) = Ok (snd p) /\ plainb b (tj p) = true).
    { intros p Hp. destruct (basic_rt (fst p) (snd p) (H p Hp)) as (j & j' & A & B & C & D).
      unfold rj, tj. rewrite A. simpl. rewrite B. simpl. auto. }
    exists (PList (map tj (combine es l))), (PList (map rj (combine es l))). split; [|split; [|split]].
    + simpl. rewrite (tuple_conv_ok0 (basic_toJson ct selfT) PTuple (fun _ _ => eq_refl) es l (map tj (combine es l))); auto.
      rewrite <- (map_id (combine es l)) at 1. apply Forall2_map_same. intros; apply S; auto.
    + apply tr_list. apply mapM_map. intros; apply S; auto.
    + simpl.
      assert (LR : length (map rj (combine es l)) = length es).
      { rewrite map_length, combine_length. lia. }
      rewrite (tuple_conv_ok0 (basic_fromJson ct upper selfF) PList (fun _ _ => eq_refl) es (map rj (combine es l)) l); auto.
      rewrite combine_map_self. rewrite <- (map_snd_combine _ _ es l L) at 2.
      apply Forall2_map_same. intros; simpl; apply S; auto.
    + simpl. rewrite forallb_map. apply forallb_forall. intros; apply S; auto.
  - (* other generic *)
    destruct v; simpl in H; try discriminate. exists PNone, PNone. repeat split; auto.
Qed.


(* ---- one object: all fields *)

Lemma fields_toJson_ok : forall (g : field * pv -> pv) fds fs, length fds = length fs ->
  (forall p, In p (combine fds fs) -> field_toJson ct selfT (f_ty (fst p)) (snd p) = Ok (g p)) ->
  fields_toJson ct selfT fds fs = Ok (map (fun p => (PStr (f_name (fst p)), g p)) (combine fds fs)).
Proof.
  induction fds as [|fd fds IHfds]; intros [|x fs] L H; simpl in *; try discriminate; auto.
  pose proof (H (fd, x) (or_introl eq_refl)) as E. simpl in E. rewrite E. simpl.
  rewrite IHfds; auto.
Qed.

Lemma dict_find_fields : forall (g : field * pv -> pv) (P : list (field * pv)) p,
  str_nodupb (map (fun q => f_name (fst q)) P) = true -> In p P ->
  dict_find (map (fun q => (PStr (f_name (fst q)), g q)) P) (PStr (f_name (fst p))) = Some (g p).
Proof.
  induction P as [|a P IHP]; simpl; intros p ND IN; [contradiction|].
  apply andb_true_iff in ND as [N1 N2]. destruct IN as [->|IN].
  - rewrite str_eqb_refl. reflexivity.
  - rewrite str_eqb_neq. apply IHP; auto.
    apply negb_true_iff in N1. apply existsb_str_false in N1. intros E. apply N1. rewrite E.
    apply in_map_iff. exists p; auto.
Qed.

Lemma obj_step : forall cid fds fs, find_obj ct cid = Some fds ->
  forall2b (fun fd x => ht_field ct selfH b (f_ty fd) x) fds fs = true ->
  exists kv kv',
    fields_toJson ct selfT fds fs = Ok kv /\ tr b (PDict kv) = Ok (PDict kv') /\
    mapM (fun fd => do o <- record_get (PDict kv') (f_name fd);
                    match o with
                    | None => Ok (init_field fd)
                    | Some x => field_fromJson ct upper selfF (f_ty fd) x
                    end) fds = Ok fs /\
    plainb b (PDict kv) = true.
Proof.
  intros cid fds fs FO H. apply forall2b_spec in H as [L H].
  pose proof (wf_obj ct upper WF _ _ FO) as ND.
  set (tj := fun p : field * pv => unres (field_toJson ct selfT (f_ty (fst p)) (snd p))).
  set (rj := fun p => unres (tr b (tj p))).
  assert (S : forall p, In p (combine fds fs) ->
              field_toJson ct selfT (f_ty (fst p)) (snd p) = Ok (tj p) /\ tr b (tj p) = Ok (rj p) /\
              field_fromJson ct upper selfF (f_ty (fst p)) (rj p) = Ok (snd p) /\ plainb b (tj p) = true).
  { intros p Hp. destruct (field_rt _ _ (H p Hp)) as (j & j' & A & B & C & D).
    unfold rj, tj. rewrite A. simpl. rewrite B. simpl. auto. }
  set (P := combine fds fs) in *.
  assert (NDP : str_nodupb (map (fun q : field * pv => f_name (fst q)) P) = true).
  { rewrite <- (map_map fst f_name). unfold P. rewrite map_fst_combine; auto. }
  exists (map (fun p => (PStr (f_name (fst p)), tj p)) P), (map (fun p => (PStr (f_name (fst p)), rj p)) P).
  split; [|split; [|split]].
  - apply fields_toJson_ok; auto. intros; apply S; auto.
  - apply tr_dict.
    + apply Forall2_map_same. intros p Hp. simpl. split. unfold trk; destruct b; auto. apply S; auto.
    + rewrite map_map. simpl. rewrite <- (map_map (fun q : field * pv => f_name (fst q)) PStr).
      apply nodupb_strs; auto.
  - apply mapM_zip; auto. intros p Hp. fold P in Hp. simpl.
    rewrite (dict_find_fields rj P p NDP Hp). simpl. apply S; auto.
  - simpl. rewrite forallb_map. apply forallb_forall. intros p Hp. simpl. apply S; auto.
Qed.

End Level.

(* ------------------------------------------------------------------ all levels *)

Section Main.
Variable ct : ctab.
Variable upper : str -> str.
Hypothesis WF : wf_ctab ct upper = true.

Lemma ht_obj_is_obj : forall lim n v cid, ht_obj ct lim n v cid = true -> exists c fs, v = PObj c fs.
Proof. destruct n; simpl; intros; try discriminate. destruct v; try discriminate. eauto. Qed.

Lemma obj_fromJson_S : forall n cid rec,
  obj_fromJson ct upper (S n) cid rec =
  match find_obj ct cid with
  | None => Err EOther
  | Some fds =>
      do vals <- mapM (fun fd => do o <- record_get rec (f_name fd);
                                 match o with
                                 | None => Ok (init_field fd)
                                 | Some x => field_fromJson ct upper (obj_fromJson ct upper n) (f_ty fd) x
                                 end) fds;
      Ok (PObj cid vals)
  end.
Proof. reflexivity. Qed.

Theorem rt_main : forall b n v cid, ht_obj ct b n v cid = true ->
  exists kv kv', val_toJson ct n v = Ok (PDict kv) /\ tr b (PDict kv) = Ok (PDict kv') /\
                 obj_fromJson ct upper n cid (PDict kv') = Ok v /\ plainb b (PDict kv) = true.
Proof.
  intros b. induction n; intros v cid H; simpl in H; try discriminate.
  destruct v; try discriminate. apply andb_true_iff in H as [E H]. apply Z.eqb_eq in E. subst cid0.
  destruct (find_obj ct cid) as [fds|] eqn:FO; try discriminate.
  destruct (obj_step ct upper WF b (val_toJson ct n) (obj_fromJson ct upper n) (ht_obj ct b n)
                     (ht_obj_is_obj b n) IHn cid fds fields FO H) as (kv & kv' & A & B & C & D).
  exists kv, kv'. split; [|split; [|split]]; auto.
  - simpl. rewrite FO, A. reflexivity.
  - rewrite obj_fromJson_S, FO, C. reflexivity.
Qed.

End Main.

(* ------------------------------------------------------------------ the C15 statements *)

Theorem C15_fromjson_tojson_proof : forall ct upper n x cid,
  wf_ctab ct upper = true -> ht_obj ct false n x cid = true ->
  exists j, val_toJson ct n x = Ok j /\ obj_fromJson ct upper n cid j = Ok x.
Proof.
  intros ct upper n x cid WF H.
  destruct (rt_main ct upper WF false n x cid H) as (kv & kv' & A & B & C & _).
  unfold tr in B. inversion B; subst. eauto.
Qed.

Theorem C15_loads_dumps_proof : forall ct upper n x cid,
  wf_ctab ct upper = true -> ht_obj ct true n x cid = true ->
  exists j j', val_toJson ct n x = Ok j /\ json_rt j = Ok j' /\ obj_fromJson ct upper n cid j' = Ok x.
Proof.
  intros ct upper n x cid WF H.
  destruct (rt_main ct upper WF true n x cid H) as (kv & kv' & A & B & C & _).
  exists (PDict kv), (PDict kv'). auto.
Qed.

Lemma wf_ctab_id : forall ct upper, wf_ctab ct upper = true -> wf_ctab ct (fun s => s) = true.
Proof.
  unfold wf_ctab. intros ct upper H. apply andb_true_iff in H as [H1 H2]. rewrite H1. simpl.
  rewrite forallb_forall in *. intros c Hc. specialize (H2 c Hc). apply andb_true_iff in H2 as [H2 _].
  rewrite H2. simpl. apply forallb_forall. intros. apply str_eqb_refl.
Qed.

Theorem C15_tojson_plain_proof : forall ct lim n x cid,
  wf_ctab ct (fun s => s) = true -> ht_obj ct lim n x cid = true ->
  exists j, val_toJson ct n x = Ok j /\ plainb lim j = true.
Proof.
  intros ct lim n x cid WF H.
  destruct (rt_main ct (fun s => s) WF lim n x cid H) as (kv & kv' & A & _ & _ & D). eauto.
Qed.

(* ---- json.dumps accepts plain data (a statement about the json model alone) *)

Section PvInd.
Variable P : pv -> Prop.
Hypothesis HNone : P PNone.
Hypothesis HBool : forall b, P (PBool b).
Hypothesis HInt : forall z, P (PInt z).
Hypothesis HFloat : forall t, P (PFloat t).
Hypothesis HStr : forall s, P (PStr s).
Hypothesis HBytes : forall s, P (PBytes s).
Hypothesis HList : forall l, Forall P l -> P (PList l).
Hypothesis HTuple : forall l, Forall P l -> P (PTuple l).
Hypothesis HSet : forall l, Forall P l -> P (PSet l).
Hypothesis HDict : forall kv, Forall (fun p => P (fst p) /\ P (snd p)) kv -> P (PDict kv).
Hypothesis HEnum : forall e r, P (PEnum e r).
Hypothesis HObj : forall c l, Forall P l -> P (PObj c l).

Fixpoint pv_ind2 (v : pv) : P v :=
  let go := fix go (l : list pv) : Forall P l :=
              match l with [] => Forall_nil P | x :: l' => Forall_cons x (pv_ind2 x) (go l') end in
  match v with
  | PNone => HNone | PBool b => HBool b | PInt z => HInt z | PFloat t => HFloat t
  | PStr s => HStr s | PBytes s => HBytes s
  | PList l => HList l (go l) | PTuple l => HTuple l (go l) | PSet l => HSet l (go l)
  | PDict kv =>
      HDict kv ((fix gd (kv : list (pv * pv)) : Forall (fun p => P (fst p) /\ P (snd p)) kv :=
                   match kv with
                   | [] => Forall_nil _
                   | (k, x) :: kv' => Forall_cons (k, x) (conj (pv_ind2 k) (pv_ind2 x)) (gd kv')
                   end) kv)
  | PEnum e r => HEnum e r
  | PObj c l => HObj c l (go l)
  end.
End PvInd.

Definition strict_pair (p : pv * pv) : bool := match p with (PStr _, x) => strictb x | _ => false end.

Lemma dict_set_strict : forall acc s v, forallb strict_pair acc = true -> strictb v = true ->
  forallb strict_pair (dict_set acc (PStr s) v) = true.
Proof.
  induction acc as [|[k' v'] acc]; simpl; intros. rewrite H0; auto.
  apply andb_true_iff in H as [H1 H2]. destruct (py_eq k' (PStr s)) eqn:E; simpl.
  - destruct k'; simpl in *; try discriminate. rewrite H0, H2. reflexivity.
  - rewrite H1. simpl. apply IHacc; auto.
Qed.

Lemma dict_build_strict : forall kv acc, forallb strict_pair acc = true -> forallb strict_pair kv = true ->
  forallb strict_pair (fold_left (fun a p => dict_set a (fst p) (snd p)) kv acc) = true.
Proof.
  induction kv as [|[k v] kv]; simpl; intros; auto. apply andb_true_iff in H0 as [H1 H2].
  destruct k; try discriminate. apply IHkv; auto. apply dict_set_strict; auto.
Qed.

Theorem C15_dumps_accepts_plain_proof : forall j, plainb true j = true ->
  exists j', json_rt j = Ok j' /\ strictb j' = true.
Proof.
  induction j using pv_ind2; intros PL; simpl in PL; try discriminate.
  - exists PNone; auto.
  - exists (PBool b); auto.
  - exists (PInt z). simpl. rewrite PL. auto.
  - eexists. simpl. split; reflexivity.
  - exists (PStr s); auto.
  - assert (M : exists l', mapM json_rt l = Ok l' /\ forallb strictb l' = true).
    { induction H; simpl in *. exists []; auto.
      apply andb_true_iff in PL as [P1 P2]. destruct (H P1) as (x' & A & B).
      destruct (IHForall P2) as (l' & C & D). exists (x' :: l'). rewrite A, C. simpl. rewrite B, D. auto. }
    destruct M as (l' & A & B). exists (PList l'). rewrite json_rt_list, A. auto.
  - assert (M : exists kv', mapM (fun p => match p with
                                           | (k, x) => do s <- key_str k; do x' <- json_rt x; Ok (PStr s, x')
                                           end) kv = Ok kv' /\ forallb strict_pair kv' = true).
    { induction H as [|[k x] kv [_ Hx] F IHF]; simpl in *. exists []; auto.
      apply andb_true_iff in PL as [P1 P2]. apply andb_true_iff in P1 as [K P1].
      destruct (Hx P1) as (x' & A & B). destruct (IHF P2) as (kv' & C & D).
      assert (KS : exists s, key_str k = Ok s).
      { destruct k; simpl in K; try discriminate; simpl; eauto. rewrite K. eauto. }
      destruct KS as (s & KS). exists ((PStr s, x') :: kv'). rewrite KS. simpl. rewrite A. simpl. rewrite C. simpl.
      rewrite B, D. auto. }
    destruct M as (kv' & A & B). exists (PDict (dict_build kv')). rewrite json_rt_dict, A. simpl. split; auto.
    fold strict_pair. unfold dict_build. apply dict_build_strict; auto.
Qed.

Theorem C15_dumps_accepts_proof : forall ct n x cid,
  wf_ctab ct (fun s => s) = true -> ht_obj ct true n x cid = true ->
  exists j j', val_toJson ct n x = Ok j /\ json_rt j = Ok j' /\ strictb j' = true.
Proof.
  intros. destruct (C15_tojson_plain_proof ct true n x cid H H0) as (j & A & B).
  destruct (C15_dumps_accepts_plain_proof j B) as (j' & C & D). eauto.
Qed.

(* ---- the nesting bound *)

Lemma forall2b_mono : forall A B (f g : A -> B -> bool) a b,
  (forall x y, f x y = true -> g x y = true) -> forall2b f a b = true -> forall2b g a b = true.
Proof.
  induction a; destruct b; simpl; intros; auto. apply andb_true_iff in H0 as [H1 H2].
  rewrite (H _ _ H1). simpl. apply IHa; auto.
Qed.

Lemma forallb_mono : forall A (f g : A -> bool) l,
  (forall x, f x = true -> g x = true) -> forallb f l = true -> forallb g l = true.
Proof.
  intros. rewrite forallb_forall in *. auto.
Qed.

Section Mono.
Variable ct : ctab.
Variable lim : bool.
Variables s1 s2 : pv -> Z -> bool.
Hypothesis S12 : forall v c, s1 v c = true -> s2 v c = true.

Lemma ht_basic_mono : forall e v, ht_basic ct s1 lim e v = true -> ht_basic ct s2 lim e v = true.
Proof. intros e v. destruct e; destruct v; simpl; auto. Qed.

Lemma ht_field_mono : forall t v, ht_field ct s1 lim t v = true -> ht_field ct s2 lim t v = true.
Proof.
  intros t v H. destruct t as [e|e|e|k e|es|].
  - apply ht_basic_mono; auto.
  - destruct v; simpl in *; auto. eapply forallb_mono; [|eauto]. apply ht_basic_mono.
  - destruct v; simpl in *; auto. apply andb_true_iff in H as [H1 H2]. rewrite H2.
    rewrite (forallb_mono _ _ _ _ (ht_basic_mono e) H1). reflexivity.
  - destruct v; simpl in *; auto. apply andb_true_iff in H as [H H3]. apply andb_true_iff in H as [H1 H2].
    rewrite H1, H3. simpl. rewrite andb_true_r. eapply forallb_mono; [|eauto].
    intros p Hp. apply andb_true_iff in Hp as [A B].
    rewrite (ht_basic_mono _ _ A), (ht_basic_mono _ _ B). reflexivity.
  - destruct v; simpl in *; auto. eapply forall2b_mono; [|eauto]. apply ht_basic_mono.
  - destruct v; simpl in *; auto.
Qed.
End Mono.

Lemma ht_obj_unfold : forall ct lim n v cid,
  ht_obj ct lim (S n) v cid =
  match v with
  | PObj cid' fs =>
      (cid =? cid') &&
      match find_obj ct cid with
      | None => false
      | Some fds => forall2b (fun fd x => ht_field ct (ht_obj ct lim n) lim (f_ty fd) x) fds fs
      end
  | _ => false
  end.
Proof. reflexivity. Qed.

Lemma ht_obj_S : forall ct lim n x cid, ht_obj ct lim n x cid = true -> ht_obj ct lim (S n) x cid = true.
Proof.
  intros ct lim. induction n; intros x cid H. discriminate.
  rewrite ht_obj_unfold in *. destruct x; auto.
  apply andb_true_iff in H as [H1 H2]. rewrite H1. simpl.
  destruct (find_obj ct cid); auto.
  eapply forall2b_mono; [|eauto]. intros fd y. apply ht_field_mono. exact IHn.
Qed.

Theorem C15_fuel_monotone_proof : forall ct lim n m x cid,
  ht_obj ct lim n x cid = true -> (n <= m)%nat -> ht_obj ct lim m x cid = true.
Proof. intros. induction H0; auto. apply ht_obj_S; auto. Qed.
